(* C03_rects_inside: for an unscaled client every rectangle of an update lies inside the screen,
   and is not degenerate.  Uses the set semantics of the region mirror proved for C11
   (Region/RegionProofs.v): requestedRegion is a subset of the screen (clip_request), the update
   region is a subset of requestedRegion plus the cursor area clipped to the screen, the copy
   region is a subset of requestedRegion and of requestedRegion shifted by (dx,dy). *)
From Coq Require Import List ZArith Bool Lia ZifyBool.
From LV Require Import Gen.Consts_C03 Gen.Funs_C03 Region.RegionDefs Region.RegionProofs0 Region.RegionProofs
     Wire.CountsModel Wire.CountsProofs Wire.CapsModel Wire.CapsProofs Wire.UpdateModel.
Import ListNotations.
Local Open Scope Z_scope.

(* all pixels of r lie in the screen [0,W) x [0,H) *)
Definition within (W H : Z) (r : region) : Prop :=
  forall x y, rgn_mem r x y = true -> 0 <= x < W /\ 0 <= y < H.

Lemma clip2_inside x y x2 y2 cx cy cx2 cy2 :
  cx < cx2 -> cy < cy2 ->
  let '(b, x', y', x2', y2') := sraClipRect2 x y x2 y2 cx cy cx2 cy2 in
  cx <= x' < cx2 /\ cy <= y' < cy2 /\ cx < x2' <= cx2 /\ cy < y2' <= cy2 /\
  (b = true <-> (x' < x2' /\ y' < y2')).
Proof.
  intros Hx Hy. unfold sraClipRect2.
  repeat match goal with
         | |- context [if ?c then _ else _] =>
           lazymatch c with
           | context [if _ then _ else _] => fail
           | _ => destruct c eqn:?
           end
         end; repeat split; lia.
Qed.

Lemma redraw_cursor_ok cur cx cy W H upd : 1 <= W -> 1 <= H -> WF upd -> within W H upd ->
  WF (redraw_cursor cur cx cy W H upd) /\ within W H (redraw_cursor cur cx cy W H upd).
Proof.
  intros HW HH Wu Iu. unfold redraw_cursor. destruct cur as [c|]; [|split; assumption].
  pose proof (clip2_inside (cx - cu_xhot c) (cy - cu_yhot c) (cx - cu_xhot c + cu_w c) (cy - cu_yhot c + cu_h c)
                           0 0 W H ltac:(lia) ltac:(lia)) as C.
  destruct (sraClipRect2 (cx - cu_xhot c) (cy - cu_yhot c) (cx - cu_xhot c + cu_w c)
                         (cy - cu_yhot c + cu_h c) 0 0 W H) as [[[[b x1] y1] x2] y2].
  destruct C as (C1 & C2 & C3 & C4 & C5). destruct b; [|split; assumption].
  destruct (proj1 C5 eq_refl) as [Lx Ly].
  pose proof (create_rect_wf x1 y1 x2 y2 Lx Ly) as Wr. split.
  - apply rgn_or_wf; assumption.
  - intros x y Hm. rewrite (rgn_or_mem upd _ Wu Wr) in Hm. apply orb_true_iff in Hm. destruct Hm as [Hm|Hm].
    + apply Iu. exact Hm.
    + rewrite create_rect_mem in Hm. unfold rect_mem in Hm. lia.
Qed.

(* 0013b67: the clip of the update region to the requested region *)
Lemma clip_ok upd req : WF upd -> WF req ->
  WF (clip_to_requested upd req) /\
  forall x y, rgn_mem (clip_to_requested upd req) x y = rgn_mem upd x y && rgn_mem req x y.
Proof.
  intros Wu Wq. unfold clip_to_requested.
  pose proof (rgn_sub_bool upd req Wu Wq) as B. pose proof (rgn_sub_mem upd req Wu Wq) as M.
  pose proof (rgn_sub_wf upd req Wu Wq) as Ws.
  destruct (snd (rgn_sub upd req)).
  - split; [apply rgn_and_wf; assumption|apply rgn_and_mem; assumption].
  - split; [assumption|]. intros x y.
    assert (E : rgn_is_empty (fst (rgn_sub upd req)) = true) by (destruct (rgn_is_empty (fst (rgn_sub upd req))); [reflexivity|discriminate B]).
    pose proof (proj1 (is_empty_sem _ Ws) E x y) as Z0. rewrite M in Z0.
    destruct (rgn_mem upd x y); [|reflexivity]. destruct (rgn_mem req x y); [reflexivity|discriminate Z0].
Qed.

Lemma redraw_cursor_wf cur cx cy W H upd : 1 <= W -> 1 <= H -> WF upd -> WF (redraw_cursor cur cx cy W H upd).
Proof.
  intros HW HH Wu. unfold redraw_cursor. destruct cur as [c|]; [|assumption].
  pose proof (clip2_inside (cx - cu_xhot c) (cy - cu_yhot c) (cx - cu_xhot c + cu_w c) (cy - cu_yhot c + cu_h c)
                           0 0 W H ltac:(lia) ltac:(lia)) as C.
  destruct (sraClipRect2 (cx - cu_xhot c) (cy - cu_yhot c) (cx - cu_xhot c + cu_w c)
                         (cy - cu_yhot c + cu_h c) 0 0 W H) as [[[[b x1] y1] x2] y2].
  destruct C as (C1 & C2 & C3 & C4 & C5). destruct b; [|assumption].
  destruct (proj1 C5 eq_refl) as [Lx Ly]. apply rgn_or_wf; [assumption|apply create_rect_wf; assumption].
Qed.

(* a rectangle produced by iterating a well-formed region that lies within the screen *)
Lemma iter_rect_inside revX revY r W H rc : WF r -> within W H r -> In rc (rgn_iter revX revY r) ->
  let '(x1, y1, x2, y2) := rc in 0 <= x1 /\ x1 < x2 /\ x2 <= W /\ 0 <= y1 /\ y1 < y2 /\ y2 <= H.
Proof.
  intros Wr Ir Hin. pose proof (iter_nonempty revX revY r Wr) as Hne.
  rewrite Forall_forall in Hne. specialize (Hne rc Hin). destruct rc as [[[x1 y1] x2] y2]. destruct Hne as [Lx Ly].
  assert (P : forall x y, rect_mem (x1, y1, x2, y2) x y = true -> rgn_mem r x y = true).
  { intros x y Hm. pose proof (iter_partition revX revY r x y Wr) as Hp.
    destruct (rgn_mem r x y); [reflexivity|exfalso].
    assert (Hf : In (x1, y1, x2, y2) (filter (fun rc => rect_mem rc x y) (rgn_iter revX revY r)))
      by (apply filter_In; split; assumption).
    destruct (filter (fun rc => rect_mem rc x y) (rgn_iter revX revY r)); [exact Hf|discriminate]. }
  destruct (Ir x1 y1 (P x1 y1 ltac:(unfold rect_mem; lia))) as [A1 A2].
  destruct (Ir (x2 - 1) (y2 - 1) (P (x2 - 1) (y2 - 1) ltac:(unfold rect_mem; lia))) as [B1 B2].
  lia.
Qed.

(* the region stage: well-formed client regions, requestedRegion inside the screen *)
Definition rect_in_screen (W H : Z) (r : xywh) : Prop :=
  let '(x, y, w, h) := r in 0 <= x /\ 0 <= y /\ 1 <= w /\ 1 <= h /\ x + w <= W /\ y + h <= H.

Definition copy_in_screen (W H dx dy : Z) (rc : RegionDefs.rect) : Prop :=
  let '(x1, y1, x2, y2) := rc in
  0 <= x1 /\ x1 < x2 /\ x2 <= W /\ 0 <= y1 /\ y1 < y2 /\ y2 <= H /\
  0 <= x1 - dx /\ x2 - dx <= W /\ 0 <= y1 - dy /\ y2 - dy <= H.      (* the source rectangle too *)

Theorem plan_inside : forall c1 s sn,
  1 <= sn_fbw sn -> 1 <= sn_fbh sn ->
  WF (sn_mod sn) -> WF (sn_req sn) -> WF (sn_copy sn) -> within (sn_fbw sn) (sn_fbh sn) (sn_req sn) ->
  Forall (rect_in_screen (sn_fbw sn) (sn_fbh sn)) (pl_region (plan_regions c1 s sn)) /\
  Forall (copy_in_screen (sn_fbw sn) (sn_fbh sn) (sn_dx sn) (sn_dy sn)) (pl_copy (plan_regions c1 s sn)).
Proof.
  intros c1 s sn HW HH Wm Wq Wc Iq. unfold plan_regions.
  set (W := sn_fbw sn) in *. set (H := sn_fbh sn) in *.
  set (copy1 := fst (rgn_sub (sn_copy sn) (sn_mod sn))).
  assert (Wc1 : WF copy1) by (apply rgn_sub_wf; assumption).
  set (upd0 := rgn_or (sn_mod sn) copy1).
  assert (Wu0 : WF upd0) by (apply rgn_or_wf; assumption).
  pose proof (rgn_and_wf upd0 (sn_req sn) Wu0 Wq) as Wu1.
  pose proof (rgn_and_mem upd0 (sn_req sn) Wu0 Wq) as Mu1.
  destruct (rgn_and upd0 (sn_req sn)) as [upd1 ne] eqn:Eu1. cbn [fst] in Wu1, Mu1.
  set (ucopy0 := fst (rgn_and copy1 (sn_req sn))).
  assert (Wuc0 : WF ucopy0) by (apply rgn_and_wf; assumption).
  set (oreq := rgn_offset (sn_req sn) (sn_dx sn) (sn_dy sn)).
  assert (Wo : WF oreq) by (apply offset_wf; assumption).
  set (ucopy := fst (rgn_and ucopy0 oreq)).
  assert (Wuc : WF ucopy) by (apply rgn_and_wf; assumption).
  set (upd2 := fst (rgn_sub upd1 ucopy)).
  assert (Wu2 : WF upd2) by (apply rgn_sub_wf; assumption).
  assert (Iu2 : within W H upd2).
  { intros x y Hm. unfold upd2 in Hm. rewrite (rgn_sub_mem upd1 ucopy Wu1 Wuc) in Hm.
    apply andb_true_iff in Hm. destruct Hm as [Hm _]. rewrite Mu1 in Hm.
    apply andb_true_iff in Hm. apply Iq. tauto. }
  cbn [pl_region pl_copy]. split.
  - (* pixel rectangles *)
    set (upd3 := if c_cursorshape c1 then upd2
                 else if (sn_clx sn =? sn_scx sn) && (sn_cly sn =? sn_scy sn) then upd2
                 else redraw_cursor (sn_cursor sn) (sn_scx sn) (sn_scy sn) W H
                        (redraw_cursor (sn_cursor sn) (sn_clx sn) (sn_cly sn) W H upd2)).
    assert (K : WF upd3 /\ within W H upd3).
    { unfold upd3. destruct (c_cursorshape c1); [split; assumption|].
      destruct ((sn_clx sn =? sn_scx sn) && (sn_cly sn =? sn_scy sn)); [split; assumption|].
      destruct (redraw_cursor_ok (sn_cursor sn) (sn_clx sn) (sn_cly sn) W H upd2 HW HH Wu2 Iu2) as [Wa Ia].
      apply redraw_cursor_ok; assumption. }
    destruct K as [Wu3 Iu3].
    set (upd4 := if c_cursorshape c1 then upd3 else clip_to_requested upd3 (sn_req sn)).
    assert (K4 : WF upd4 /\ within W H upd4).
    { unfold upd4. destruct (c_cursorshape c1); [split; assumption|].
      destruct (clip_ok upd3 (sn_req sn) Wu3 Wq) as [Wk Mk]. split; [assumption|].
      intros x y Hm. rewrite Mk in Hm. apply andb_true_iff in Hm. apply Iu3. tauto. }
    clear Wu3 Iu3. destruct K4 as [Wu3 Iu3].
    apply Forall_forall. intros r Hin. apply in_map_iff in Hin. destruct Hin as (rc & <- & Hin).
    pose proof (iter_rect_inside false false upd4 W H rc Wu3 Iu3 Hin) as Hr.
    destruct rc as [[[x1 y1] x2] y2]. cbn [to_xywh rect_in_screen]. lia.
  - (* copy rectangles: inside requestedRegion and inside requestedRegion shifted by (dx,dy) *)
    apply Forall_forall. intros rc Hin.
    assert (Iuc : within W H ucopy).
    { intros x y Hm. unfold ucopy in Hm. rewrite (rgn_and_mem ucopy0 oreq Wuc0 Wo) in Hm.
      apply andb_true_iff in Hm. destruct Hm as [Hm _]. unfold ucopy0 in Hm.
      rewrite (rgn_and_mem copy1 (sn_req sn) Wc1 Wq) in Hm. apply andb_true_iff in Hm. apply Iq. tauto. }
    pose proof (iter_rect_inside _ _ ucopy W H rc Wuc Iuc Hin) as Hr.
    pose proof (iter_nonempty (sn_dx sn >? 0) (sn_dy sn >? 0) ucopy Wuc) as Hne.
    rewrite Forall_forall in Hne. specialize (Hne rc Hin).
    destruct rc as [[[x1 y1] x2] y2]. cbn [copy_in_screen].
    assert (P : forall x y, rect_mem (x1, y1, x2, y2) x y = true -> rgn_mem ucopy x y = true).
    { intros x y Hm. pose proof (iter_partition (sn_dx sn >? 0) (sn_dy sn >? 0) ucopy x y Wuc) as Hp.
      destruct (rgn_mem ucopy x y); [reflexivity|exfalso].
      assert (Hf : In (x1, y1, x2, y2) (filter (fun rc => rect_mem rc x y) (rgn_iter (sn_dx sn >? 0) (sn_dy sn >? 0) ucopy)))
        by (apply filter_In; split; assumption).
      destruct (filter (fun rc => rect_mem rc x y) (rgn_iter (sn_dx sn >? 0) (sn_dy sn >? 0) ucopy)); [exact Hf|discriminate]. }
    assert (S : forall x y, rect_mem (x1, y1, x2, y2) x y = true ->
                0 <= x - sn_dx sn < W /\ 0 <= y - sn_dy sn < H).
    { intros x y Hm. specialize (P x y Hm). unfold ucopy in P. rewrite (rgn_and_mem ucopy0 oreq Wuc0 Wo) in P.
      apply andb_true_iff in P. destruct P as [_ P]. unfold oreq in P. rewrite offset_mem in P. apply Iq. exact P. }
    destruct (S x1 y1 ltac:(unfold rect_mem; lia)) as [S1 S2].
    destruct (S (x2 - 1) (y2 - 1) ltac:(unfold rect_mem; lia)) as [S3 S4].
    lia.
Qed.

(* the bounding box of rectangles inside the screen is inside the screen *)
Lemma bbox_in_screen W H r t : rect_in_screen W H r -> Forall (rect_in_screen W H) t ->
  rect_in_screen W H (bbox_of (r :: t)).
Proof.
  destruct r as [[[x y] w] h]. intros Hr Ht. unfold bbox_of.
  assert (G : forall l x1 y1 x2 y2, Forall (rect_in_screen W H) l ->
              0 <= x1 -> 0 <= y1 -> x1 + 1 <= x2 -> y1 + 1 <= y2 -> x2 <= W -> y2 <= H ->
              let '(a, b, c, d) := fold_left CountsModel.bbox_step l (x1, y1, x2, y2) in
              0 <= a /\ 0 <= b /\ a + 1 <= c /\ b + 1 <= d /\ c <= W /\ d <= H).
  { induction l as [|[[[x' y'] w'] h'] l IH]; intros x1 y1 x2 y2 Hl A B C D E F; cbn [fold_left CountsModel.bbox_step]; [lia|].
    inversion Hl as [|? ? Hr' Hl']; subst. cbn in Hr'. apply IH; [assumption|lia..]. }
  cbn in Hr. specialize (G t x y (x + w) (y + h) Ht ltac:(lia) ltac:(lia) ltac:(lia) ltac:(lia) ltac:(lia) ltac:(lia)).
  destruct (fold_left CountsModel.bbox_step t (x, y, x + w, y + h)) as [[[a b] c] d]. cbn. lia.
Qed.

Lemma in_screen_nondeg W H l : Forall (rect_in_screen W H) l -> Forall nondeg l.
Proof. intros Hl. eapply Forall_impl; [|exact Hl]. intros [[[x y] w] h]; cbn; lia. Qed.

(* every rectangle header emitted for the (possibly coalesced) update region lies inside the screen *)
Theorem emitted_inside_screen : forall pref lastrect cmw cmh maxrects region ncopy npseudo n region' lm W H,
  1 <= cmw -> 1 <= cmh -> Forall (rect_in_screen W H) region ->
  announce pref lastrect cmw cmh maxrects region ncopy npseudo = Some (n, region', lm) ->
  Forall (rect_in_screen W H) region' /\
  Forall (fun e => match e with
                   | EmKnown l => Forall (rect_in_screen W H) l
                   | EmData r => rect_in_screen W H r
                   | EmTrap => False end)
         (emit_region pref lastrect cmw cmh region').
Proof.
  intros pref lastrect cmw cmh maxrects region ncopy npseudo n region' lm W H Hcw Hch Hin Ha.
  assert (R' : Forall (rect_in_screen W H) region').
  { destruct region as [|r t].
    - assert (E0 : n_region_rects pref lastrect cmw cmh [] = Some 0)
        by (unfold n_region_rects; destruct (classify pref); reflexivity).
      unfold announce in Ha. rewrite E0 in Ha. cbn [obind] in Ha. change (0 =? 65535) with false in Ha. cbv iota in Ha.
      destruct ((maxrects >? 0) && negb (exempt_from_coalescing pref) && (0 >? maxrects)) eqn:E; [lia|].
      inversion Ha; subst. constructor.
    - unfold announce in Ha. destruct (n_region_rects pref lastrect cmw cmh (r :: t)) as [m|]; [|discriminate].
      cbn [obind] in Ha. destruct (m =? 65535); [inversion Ha; subst; assumption|].
      destruct ((maxrects >? 0) && negb (exempt_from_coalescing pref) && (m >? maxrects)) eqn:E;
        inversion Ha; subst; [|assumption].
      inversion Hin; subst. cbn [bbox_region]. constructor; [apply bbox_in_screen; assumption|constructor]. }
  split; [exact R'|].
  pose proof (emit_region_inside pref lastrect cmw cmh region' Hcw Hch (in_screen_nondeg W H region' R')) as F2.
  clear Ha Hin. induction F2 as [|r e lr le Hre F2 IH]; [constructor|].
  inversion R' as [|? ? Hr Hrs]; subst. constructor; [|apply IH; assumption].
  destruct e as [l|r'|]; [|subst; assumption|contradiction].
  destruct Hre as [Hl _]. eapply Forall_impl; [|exact Hl].
  destruct r as [[[X Y] Wd] Ht]. intros [[[x y] w] h]. cbn in Hr. cbn. lia.
Qed.

(* the same for the count stage the model runs (announce_sel: with or without the repairs) *)
Lemma bbox_region_in_screen W H l : Forall (rect_in_screen W H) l -> Forall (rect_in_screen W H) (bbox_region l).
Proof.
  destruct l as [|r t]; intros Hl; cbn [bbox_region]; [constructor|]. inversion Hl; subst.
  constructor; [apply bbox_in_screen; assumption|constructor].
Qed.

Lemma finish_in_screen W H pref maxrects npseudo region1 n1 lrm1 nc keep n region' lm keep' :
  Forall (rect_in_screen W H) region1 ->
  finish_count pref maxrects npseudo region1 n1 lrm1 nc keep = Some (n, region', lm, keep') ->
  Forall (rect_in_screen W H) region'.
Proof.
  intros Hr Hf. unfold finish_count in Hf. destruct lrm1; [inversion Hf; subst; exact Hr|].
  destruct ((maxrects >? 0) && negb (exempt_from_coalescing pref) && (n1 >? maxrects)); inversion Hf; subst;
    [apply bbox_region_in_screen|]; exact Hr.
Qed.

Lemma emit_known_in_screen pref lastrect cmw cmh W H region' : 1 <= cmw -> 1 <= cmh ->
  Forall (rect_in_screen W H) region' ->
  Forall (fun e => match e with
                   | EmKnown l => Forall (rect_in_screen W H) l
                   | EmData r => rect_in_screen W H r
                   | EmTrap => False end)
         (emit_region pref lastrect cmw cmh region').
Proof.
  intros Hcw Hch R'.
  pose proof (emit_region_inside pref lastrect cmw cmh region' Hcw Hch (in_screen_nondeg W H region' R')) as F2.
  induction F2 as [|r e lr le Hre F2 IH]; [constructor|].
  inversion R' as [|? ? Hr Hrs]; subst. constructor; [|apply IH; assumption].
  destruct e as [l|r'|]; [|subst; assumption|contradiction].
  destruct Hre as [Hl _]. eapply Forall_impl; [|exact Hl].
  destruct r as [[[X Y] Wd] Ht]. intros [[[x y] w] h]. cbn in Hr. cbn. lia.
Qed.

Theorem emitted_inside_screen_sel : forall g pref lastrect cmw cmh maxrects region copyl npseudo n region' lm keep W H,
  1 <= cmw -> 1 <= cmh -> Forall (rect_in_screen W H) region -> Forall (rect_in_screen W H) copyl ->
  announce_sel g pref lastrect cmw cmh maxrects region copyl npseudo = Some (n, region', lm, keep) ->
  Forall (rect_in_screen W H) region' /\
  Forall (fun e => match e with
                   | EmKnown l => Forall (rect_in_screen W H) l
                   | EmData r => rect_in_screen W H r
                   | EmTrap => False end)
         (emit_region pref lastrect cmw cmh region').
Proof.
  intros g pref lastrect cmw cmh maxrects region copyl npseudo n region' lm keep W H Hcw Hch Hr Hc Ha.
  assert (R' : Forall (rect_in_screen W H) region').
  { unfold announce_sel in Ha. destruct (g_wrap_coalesce g).
    - unfold announce_fixed in Ha.
      destruct (count_stage pref lastrect cmw cmh region) as [[n0 lrm0]|]; [|discriminate]. cbn [obind] in Ha.
      destruct (lrm0 || (Z.of_nat (length copyl) + n0 + 6 <? 65535)); [exact (finish_in_screen W H _ _ _ _ _ _ _ _ _ _ _ _ Hr Ha)|].
      destruct (count_stage pref lastrect cmw cmh (bbox_region region)) as [[n1 lrm1]|]; [|discriminate]. cbn [obind] in Ha.
      destruct (lrm1 || negb (g_wrap_copy g) || (Z.of_nat (length copyl) + n1 + 6 <? 65535)).
      + exact (finish_in_screen W H _ _ _ _ _ _ _ _ _ _ _ _ (bbox_region_in_screen W H region Hr) Ha).
      + destruct (count_stage pref lastrect cmw cmh (bbox_region (bbox_region region ++ copyl))) as [[n2 lrm2]|]; [|discriminate].
        cbn [obind] in Ha. refine (finish_in_screen W H _ _ _ _ _ _ _ _ _ _ _ _ _ Ha).
        apply bbox_region_in_screen. apply Forall_app. split; [apply bbox_region_in_screen|]; assumption.
    - destruct (announce pref lastrect cmw cmh maxrects region (Z.of_nat (length copyl)) npseudo) as [[[n' r'] lm']|] eqn:E; [|discriminate].
      inversion Ha; subst. exact (proj1 (emitted_inside_screen _ _ _ _ _ _ _ _ _ _ _ W H Hcw Hch Hr E)). }
  split; [exact R'|]. apply emit_known_in_screen; assumption.
Qed.

(* ---- requestedRegion: the union of the clipped requests of any history is well formed and lies
   inside the screen (sraRgnOr(cl->requestedRegion, tmpRegion) in the FramebufferUpdateRequest case) ---- *)
Definition add_request (W H : Z) (req : region) (q : Z * Z * Z * Z) : region :=
  let '(x, y, w, h) := q in
  match clip_request W H x y w h with
  | Some (x', y', w', h') => rgn_or req (rgn_create_rect x' y' (x' + w') (y' + h'))
  | None => req
  end.

Definition r16q (q : Z * Z * Z * Z) : Prop :=
  let '(x, y, w, h) := q in 0 <= x < 65536 /\ 0 <= y < 65536 /\ 0 <= w < 65536 /\ 0 <= h < 65536.

Theorem requested_within : forall W H qs, Forall r16q qs ->
  WF (fold_left (add_request W H) qs rgn_empty) /\ within W H (fold_left (add_request W H) qs rgn_empty).
Proof.
  intros W H qs Hq.
  assert (G : forall l r, Forall r16q l -> WF r -> within W H r ->
              WF (fold_left (add_request W H) l r) /\ within W H (fold_left (add_request W H) l r)).
  { induction l as [|[[[x y] w] h] t IH]; intros r Hl Wr Ir; cbn [fold_left]; [split; assumption|].
    inversion Hl as [|? ? Hq1 Ht]; subst. cbn in Hq1. destruct Hq1 as (Hx & Hy & Hw & Hh).
    apply IH; [assumption| |]; unfold add_request;
      destruct (clip_request W H x y w h) as [[[[x' y'] w'] h']|] eqn:E; try assumption;
      destruct (CapsProofs.clip_request_nondegenerate W H x y w h x' y' w' h' Hx Hy Hw Hh E) as (-> & -> & Cw & Ch & Cx & Cy);
      pose proof (create_rect_wf x y (x + w') (y + h') ltac:(lia) ltac:(lia)) as Wc.
    - apply rgn_or_wf; assumption.
    - intros px py Hm. rewrite (rgn_or_mem r _ Wr Wc) in Hm. apply orb_true_iff in Hm. destruct Hm as [Hm|Hm].
      + apply Ir. exact Hm.
      + rewrite create_rect_mem in Hm. unfold rect_mem in Hm. lia. }
  apply G; [assumption|apply WF_empty|intros x y Hm; discriminate].
Qed.
