(* C04 - segmentation independence: what the server does with a connection (per rfbProcessClientMessage
   call: message type, resulting state, callbacks, allocations, writes, closing - everything except the
   waits) depends only on the byte stream, not on how TCP cut it into segments nor on the gaps between the
   segments, as long as no gap reaches the client-wait time. *)
From LV Require Import Wire.C2S Wire.C2SProofs.
Require Import ZifyBool.
Local Open Scope Z_scope.

(* a peer that only sends: segments of any sizes, separated by pauses that - accumulated since the last
   segment - stay below the time-out [tmo]; possibly ending with an orderly shutdown *)
Fixpoint gaps_ok (tmo paused : Z) (evs : list event) : Prop :=
  match evs with
  | [] => True
  | EData l :: r => l <> [] /\ gaps_ok tmo 0 r
  | EPause t :: r => 0 < t /\ paused + t < tmo /\ gaps_ok tmo (paused + t) r
  | EEof :: r => r = []
  | _ => False
  end.

Fixpoint ev_stream (evs : list event) : list Z :=
  match evs with EData l :: r => l ++ ev_stream r | _ :: r => ev_stream r | [] => [] end.
Fixpoint ev_eof (evs : list event) : bool :=
  match evs with [] => false | EEof :: _ => true | _ :: r => ev_eof r end.

Definition rbenign (tmo : Z) (r : reader) : Prop :=
  gaps_ok tmo 0 (r_evs r) /\ r_reset r = false /\ r_stalled r = false /\
  (r_eof r = true -> r_evs r = [] /\ r_avail r = []).

(* all that matters of a benign reader *)
Definition view (r : reader) : list Z * bool * bool :=
  (r_avail r ++ ev_stream (r_evs r), r_eof r || ev_eof (r_evs r), r_dead r).

Lemma ev_bytes_stream : forall evs, ev_bytes evs = length (ev_stream evs).
Proof. induction evs as [|e r IH]; cbn; auto. destruct e; cbn; auto. rewrite app_length. lia. Qed.

Lemma firstn_app_le : forall (A : Type) n (a b : list A), (n <= length a)%nat -> firstn n (a ++ b) = firstn n a.
Proof. intros. rewrite firstn_app. replace (n - length a)%nat with O by lia. cbn. apply app_nil_r. Qed.
Lemma skipn_app_le : forall (A : Type) n (a b : list A), (n <= length a)%nat -> skipn n (a ++ b) = skipn n a ++ b.
Proof. intros. rewrite skipn_app. replace (n - length a)%nat with O by lia. reflexivity. Qed.

Lemma gaps_ok_eof_stream : forall tmo p evs, gaps_ok tmo p evs -> ev_eof evs = true \/ ev_eof evs = false.
Proof. intros. destruct (ev_eof evs); auto. Qed.

(* the read loop on a benign event list *)
Lemma rd_loop_benign : forall tmo evs need acc paused ws,
  gaps_ok tmo paused evs -> (0 < need)%nat ->
  let o := rd_loop tmo evs need acc paused false ws in
  if (need <=? length (ev_stream evs))%nat
  then ro_res o = ROk (acc ++ firstn need (ev_stream evs)) /\ rbenign tmo (ro_rd o) /\
       view (ro_rd o) = (skipn need (ev_stream evs), ev_eof evs, false)
  else ro_res o = (if ev_eof evs then RGone else RErr) /\ r_dead (ro_rd o) = false.
Proof.
  intros tmo evs. induction evs as [|e r IH]; intros need acc paused ws Hg Hn; cbn zeta.
  - cbn. destruct need; [lia|]. cbn. auto.
  - destruct e; cbn in Hg; try contradiction.
    + (* EData *)
      destruct Hg as [Hl Hg]. cbn [rd_loop ev_stream ev_eof]. rewrite app_length.
      destruct (need <=? length l)%nat eqn:E1.
      * apply Nat.leb_le in E1.
        assert (E2 : (need <=? length l + length (ev_stream r))%nat = true) by (apply Nat.leb_le; lia).
        rewrite E2. cbn [ro_res ro_rd].
        split; [rewrite firstn_app_le by lia; reflexivity|]. split.
        -- split; [exact Hg|]. cbn. repeat split; auto; discriminate.
        -- unfold view. cbn. rewrite skipn_app_le by lia. reflexivity.
      * apply Nat.leb_gt in E1.
        specialize (IH (need - length l)%nat (acc ++ l) 0 (ws ++ [paused]) Hg ltac:(lia)). cbn zeta in IH.
        destruct (need - length l <=? length (ev_stream r))%nat eqn:E3.
        -- apply Nat.leb_le in E3.
           assert (E2 : (need <=? length l + length (ev_stream r))%nat = true) by (apply Nat.leb_le; lia).
           rewrite E2. destruct IH as (I1 & I2 & I3). split; [|split; [exact I2|]].
           ++ rewrite I1. rewrite <- app_assoc. f_equal.
              rewrite firstn_app. rewrite (@firstn_all2 _ need l) by lia. reflexivity.
           ++ rewrite I3. rewrite skipn_app. rewrite (@skipn_all2 _ need l) by lia. reflexivity.
        -- apply Nat.leb_gt in E3.
           assert (E2 : (need <=? length l + length (ev_stream r))%nat = false) by (apply Nat.leb_gt; lia).
           rewrite E2. exact IH.
    + (* EPause: below the time-out *)
      destruct Hg as (Ht & Hp & Hg). cbn [rd_loop ev_stream ev_eof].
      assert (E : (tmo <=? paused + t) = false) by lia. rewrite E.
      exact (IH need acc (paused + t) ws Hg Hn).
    + (* EEof *)
      subst r. cbn. destruct need; [lia|]. cbn. auto.
Qed.

(* rfbReadExact on a benign reader is a function of the view *)
Lemma read_exact_benign : forall tmo n r,
  rbenign tmo r -> 0 < n -> r_dead r = false ->
  let o := read_exact tmo n r in
  let '(st, eof, _) := view r in
  if n <=? Z.of_nat (length st)
  then ro_res o = ROk (firstn (Z.to_nat n) st) /\ rbenign tmo (ro_rd o) /\
       view (ro_rd o) = (skipn (Z.to_nat n) st, eof, false)
  else ro_res o = (if eof then RGone else RErr) /\ r_dead (ro_rd o) = false.
Proof.
  intros tmo n r (Hb & Hreset & Hst & Heof) Hn Hdead. cbn zeta. unfold view.
  rewrite read_exact_eq. unfold read_exact_ref. rewrite Hdead.
  destruct (n <=? 0) eqn:E0; [lia|].
  rewrite app_length, ev_bytes_stream.
  set (tot := (length (r_avail r) + length (ev_stream (r_evs r)))%nat).
  destruct (n <=? Z.of_nat tot) eqn:En.
  - assert (Hneed : Z.to_nat (Z.min n (Z.of_nat (S tot))) = Z.to_nat n) by lia.
    rewrite Hneed.
    destruct (Z.to_nat n <=? length (r_avail r))%nat eqn:E1.
    + apply Nat.leb_le in E1. cbn [ro_res ro_rd].
      split; [rewrite firstn_app_le by lia; reflexivity|]. split.
      * split; [exact Hb|]. split; [exact Hreset|]. split; [exact Hst|]. cbn. intro H. destruct (Heof H) as [A B].
        split; [exact A|]. rewrite B. destruct (Z.to_nat n); reflexivity.
      * cbn. rewrite skipn_app_le by lia. reflexivity.
    + apply Nat.leb_gt in E1.
      destruct (r_eof r) eqn:Ee.
      { destruct (Heof eq_refl) as [A B]. unfold tot in En. rewrite A, B in En. cbn in En. lia. }
      rewrite Hreset, Hst.
      pose proof (rd_loop_benign tmo (r_evs r) (Z.to_nat n - length (r_avail r)) (r_avail r) 0 [] Hb ltac:(lia)) as H.
      cbn zeta in H.
      assert (E2 : (Z.to_nat n - length (r_avail r) <=? length (ev_stream (r_evs r)))%nat = true)
        by (apply Nat.leb_le; unfold tot in En; lia).
      rewrite E2 in H. destruct H as (I1 & I2 & I3). split; [|split; [exact I2|]].
      * rewrite I1. rewrite firstn_app. rewrite (@firstn_all2 _ (Z.to_nat n) (r_avail r)) by lia. reflexivity.
      * unfold view in I3. rewrite I3. rewrite skipn_app. rewrite (@skipn_all2 _ (Z.to_nat n) (r_avail r)) by lia. cbn. reflexivity.
  - assert (Hneed : Z.to_nat (Z.min n (Z.of_nat (S tot))) = S tot) by lia.
    rewrite Hneed.
    assert (E1 : (S tot <=? length (r_avail r))%nat = false) by (apply Nat.leb_gt; unfold tot; lia).
    rewrite E1.
    destruct (r_eof r) eqn:Ee.
    { cbn. auto. }
    rewrite Hreset, Hst.
    pose proof (rd_loop_benign tmo (r_evs r) (S tot - length (r_avail r)) (r_avail r) 0 [] Hb ltac:(unfold tot; lia)) as H.
    cbn zeta in H.
    assert (E2 : (S tot - length (r_avail r) <=? length (ev_stream (r_evs r)))%nat = false)
      by (apply Nat.leb_gt; unfold tot; lia).
    rewrite E2 in H. cbn. exact H.
Qed.

Definition nowaits (l : list effect) : list effect := filter (fun e => negb (is_wait e)) l.

Lemma nowaits_map_wait : forall ws l, nowaits (map Wait ws ++ l) = nowaits l.
Proof. induction ws; cbn; auto. Qed.

Lemma rbenign_kill : forall tmo r, rbenign tmo r -> rbenign tmo (kill r).
Proof. intros tmo r H. exact H. Qed.

Lemma view_kill : forall r1 r2, view r1 = view r2 -> view (kill r1) = view (kill r2).
Proof. intros r1 r2 H. unfold view in *. cbn. inversion H. reflexivity. Qed.

(* the readers after a run: still benign with equal views, or both sockets are gone *)
Definition post_ok (tmo : Z) (r1 r2 : reader) : Prop :=
  (rbenign tmo r1 /\ rbenign tmo r2 /\ view r1 = view r2) \/ (r_dead r1 = true /\ r_dead r2 = true).

Lemma run_segmentation : forall A c (p : prog A) r1 r2 v1 r1' e1 v2 r2' e2,
  rbenign (timeout_of c) r1 -> rbenign (timeout_of c) r2 -> view r1 = view r2 ->
  run c p r1 = (v1, r1', e1) -> run c p r2 = (v2, r2', e2) ->
  v1 = v2 /\ nowaits e1 = nowaits e2 /\ post_ok (timeout_of c) r1' r2'.
Proof.
  intros A c p. induction p as [a|n sf k IH|n k IH|e k IH];
    intros r1 r2 v1 r1' e1 v2 r2' e2 Hb1 Hb2 Hv H1 H2; cbn in H1, H2.
  - inversion H1; inversion H2; subst. split; auto. split; auto. left; auto.
  - assert (Hd : r_dead r1 = r_dead r2) by (unfold view in Hv; inversion Hv; reflexivity).
    destruct (n <=? 0) eqn:En.
    { rewrite !read_exact_eq in H1, H2. unfold read_exact_ref in H1, H2. rewrite En in H1, H2. cbn in H1, H2.
      destruct (run c (k []) r1) as [[a1 b1] c1] eqn:E1. destruct (run c (k []) r2) as [[a2 b2] c2] eqn:E2.
      inversion H1; inversion H2; subst. exact (IH [] _ _ _ _ _ _ _ _ Hb1 Hb2 Hv E1 E2). }
    destruct (r_dead r1) eqn:Ed1.
    { rewrite !read_exact_eq in H1, H2. unfold read_exact_ref in H1, H2. rewrite En in H1, H2. rewrite Ed1 in H1. rewrite <- Hd in H2. cbn in H1, H2.
      inversion H1; inversion H2; subst. split; auto. split; auto. right. cbn. auto. }
    pose proof (read_exact_benign (timeout_of c) n r1 Hb1 ltac:(lia) Ed1) as P1.
    pose proof (read_exact_benign (timeout_of c) n r2 Hb2 ltac:(lia) ltac:(congruence)) as P2.
    cbn zeta in P1, P2. rewrite <- Hv in P2.
    destruct (view r1) as [[st eof] dd].
    destruct (n <=? Z.of_nat (length st)).
    + destruct P1 as (R1 & B1 & V1). destruct P2 as (R2 & B2 & V2).
      rewrite R1 in H1. rewrite R2 in H2.
      destruct (run c (k (firstn (Z.to_nat n) st)) (ro_rd (read_exact (timeout_of c) n r1))) as [[a1 b1] c1] eqn:E1.
      destruct (run c (k (firstn (Z.to_nat n) st)) (ro_rd (read_exact (timeout_of c) n r2))) as [[a2 b2] c2] eqn:E2.
      inversion H1; inversion H2; subst.
      rewrite !nowaits_map_wait. refine (IH _ _ _ _ _ _ _ _ _ B1 B2 _ E1 E2). congruence.
    + destruct P1 as (R1 & D1). destruct P2 as (R2 & D2).
      rewrite R1 in H1. rewrite R2 in H2.
      destruct eof; inversion H1; inversion H2; subst; rewrite !nowaits_map_wait; (split; [auto|split; [auto|right; cbn; auto]]).
  - assert (Hd : r_dead r1 = r_dead r2) by (unfold view in Hv; inversion Hv; reflexivity).
    assert (Hs1 : r_stalled r1 = false) by (destruct Hb1 as (_ & _ & X & _); exact X).
    assert (Hs2 : r_stalled r2 = false) by (destruct Hb2 as (_ & _ & X & _); exact X).
    rewrite Hs1 in H1. rewrite Hs2 in H2. rewrite <- Hd in H2.
    destruct (n <=? 0).
    { destruct (run c (k true) r1) as [[a1 b1] c1] eqn:E1. destruct (run c (k true) r2) as [[a2 b2] c2] eqn:E2.
      inversion H1; inversion H2; subst. exact (IH true _ _ _ _ _ _ _ _ Hb1 Hb2 Hv E1 E2). }
    destruct (r_dead r1).
    { destruct (run c (k false) r1) as [[a1 b1] c1] eqn:E1. destruct (run c (k false) r2) as [[a2 b2] c2] eqn:E2.
      inversion H1; inversion H2; subst. exact (IH false _ _ _ _ _ _ _ _ Hb1 Hb2 Hv E1 E2). }
    destruct (run c (k true) r1) as [[a1 b1] c1] eqn:E1. destruct (run c (k true) r2) as [[a2 b2] c2] eqn:E2.
    pose proof (IH true _ _ _ _ _ _ _ _ Hb1 Hb2 Hv E1 E2) as (HA & HB & HC).
    inversion H1; inversion H2; subst. split; auto. split; auto. cbn. f_equal. exact HB.
  - destruct (is_div0 e || is_bad_index e || is_opaque e).
    { inversion H1; inversion H2; subst. split; auto. split; auto. left; auto. }
    destruct (run c k (if is_close e then kill r1 else r1)) as [[a1 b1] c1] eqn:E1.
    destruct (run c k (if is_close e then kill r2 else r2)) as [[a2 b2] c2] eqn:E2.
    assert (HH : a1 = a2 /\ nowaits c1 = nowaits c2 /\ post_ok (timeout_of c) b1 b2).
    { destruct (is_close e).
      - exact (IH _ _ _ _ _ _ _ _ (rbenign_kill _ _ Hb1) (rbenign_kill _ _ Hb2) (view_kill _ _ Hv) E1 E2).
      - exact (IH _ _ _ _ _ _ _ _ Hb1 Hb2 Hv E1 E2). }
    destruct HH as (HA & HB & HC). inversion H1; inversion H2; subst. split; auto. split; auto.
    unfold nowaits in *. cbn. rewrite HB. reflexivity.
Qed.

(* one rfbProcessClientMessage call: same byte stream, any two segmentations / gap patterns *)
Lemma segmentation_msg : forall o_corr_f o_scale o_inflate o_pw c s r1 r2,
  rbenign (timeout_of c) r1 -> rbenign (timeout_of c) r2 -> view r1 = view r2 ->
  fst (fst (process_message o_corr_f o_scale o_inflate o_pw c s r1)) =
  fst (fst (process_message o_corr_f o_scale o_inflate o_pw c s r2)) /\
  nowaits (snd (process_message o_corr_f o_scale o_inflate o_pw c s r1)) =
  nowaits (snd (process_message o_corr_f o_scale o_inflate o_pw c s r2)).
Proof.
  intros. unfold process_message.
  destruct (run c (message o_corr_f o_scale o_inflate o_pw c s) r1) as [[a1 b1] c1] eqn:E1.
  destruct (run c (message o_corr_f o_scale o_inflate o_pw c s) r2) as [[a2 b2] c2] eqn:E2.
  cbn. destruct (run_segmentation _ c _ r1 r2 a1 b1 c1 a2 b2 c2 H H0 H1 E1 E2) as (A & B & _). auto.
Qed.

(* ------------------------------------------------------------------------------------------ *)
(** * The whole connection (run_conn): the sequence of calls and what each does *)

(* the reader handed to rfbProcessClientMessage by the event loop, None: nothing to do *)
Definition prep (r : reader) : option reader * bool :=
  match r_avail r with
  | _ :: _ => (Some r, r_stalled r)
  | [] => if r_eof r || r_reset r then (Some r, r_stalled r) else top_feed (r_evs r) (r_stalled r)
  end.

Lemma top_feed_benign : forall tmo evs p,
  gaps_ok tmo p evs ->
  match fst (top_feed evs false) with
  | Some r' => rbenign tmo r' /\ view r' = (ev_stream evs, ev_eof evs, false) /\ snd (top_feed evs false) = false /\
               (r_avail r' <> [] \/ r_eof r' = true)
  | None => ev_stream evs = [] /\ ev_eof evs = false /\ snd (top_feed evs false) = false
  end.
Proof.
  intros tmo evs. induction evs as [|e r IH]; intros p Hg; cbn [top_feed].
  - cbn. auto.
  - destruct e; cbn in Hg; try contradiction.
    + destruct Hg as [Hl Hg]. cbn. refine (conj _ (conj _ (conj _ _))).
      * split; [exact Hg|]. cbn. repeat split; auto; discriminate.
      * reflexivity.
      * reflexivity.
      * left. exact Hl.
    + destruct Hg as (_ & _ & Hg). exact (IH _ Hg).
    + subst r. cbn. refine (conj _ (conj _ (conj _ _))).
      * split; cbn; auto.
      * reflexivity.
      * reflexivity.
      * right. reflexivity.
Qed.

Lemma prep_benign : forall tmo r, rbenign tmo r -> r_dead r = false ->
  match fst (prep r) with
  | Some r' => rbenign tmo r' /\ view r' = view r /\ (r_avail r' <> [] \/ r_eof r' = true)
  | None => fst (fst (view r)) = [] /\ snd (fst (view r)) = false
  end.
Proof.
  intros tmo r B Hdead. pose proof B as (Hg & Hreset & Hst & Heof). unfold prep.
  destruct (r_avail r) eqn:Ea.
  - rewrite Hreset, Hst. destruct (r_eof r) eqn:Ee; cbn [orb fst].
    + split; [exact B|]. split; auto.
    + pose proof (top_feed_benign tmo (r_evs r) 0 Hg) as H.
      destruct (fst (top_feed (r_evs r) false)) as [r'|].
      * destruct H as (B' & V & _ & N). split; [exact B'|]. split; [|exact N].
        rewrite V. unfold view. rewrite Ea, Ee, Hdead. reflexivity.
      * destruct H as (S1 & S2 & _). unfold view. rewrite Ea, Ee. cbn. auto.
  - cbn [fst]. split; [exact B|]. split; auto. left. rewrite Ea. discriminate.
Qed.

Definition obs_nw (o : step_obs) : Z * option cstate * list effect :=
  match o with mkObs ty st eff => (ty, st, nowaits eff) end.

Lemma run_conn_step : forall o_corr_f o_scale o_inflate o_pw c f s r,
  run_conn o_corr_f o_scale o_inflate o_pw c (S f) s r =
  if s_closed s || r_dead r then ([], Some s, r, true) else
  match prep r with
  | (None, st') => ([], Some s, mkReader [] [] false false st' (r_dead r), true)
  | (Some r1, _) =>
      let ty := match r_avail r1 with b :: _ => b | [] => -1 end in
      let '(v, r2, e) := process_message o_corr_f o_scale o_inflate o_pw c s r1 in
      match v with
      | None => ([mkObs ty None e], None, r2, true)
      | Some s' => let '(l, v', r3, ok) := run_conn o_corr_f o_scale o_inflate o_pw c f s' r2 in
                   (mkObs ty (Some s') e :: l, v', r3, ok)
      end
  end.
Proof.
  intros. cbn [run_conn]. destruct (s_closed s || r_dead r); [reflexivity|].
  unfold prep. destruct (r_avail r) eqn:Ea.
  - destruct (r_eof r || r_reset r).
    + rewrite Ea. reflexivity.
    + destruct (top_feed (r_evs r) (r_stalled r)) as [[r1|] st']; reflexivity.
  - rewrite Ea. reflexivity.
Qed.

Definition ty_of (r : reader) : Z := match r_avail r with b :: _ => b | [] => -1 end.

Lemma ty_of_view : forall tmo r, rbenign tmo r -> (r_avail r <> [] \/ r_eof r = true) ->
  ty_of r = match fst (fst (view r)) with b :: _ => b | [] => -1 end.
Proof.
  intros tmo r (Hg & _ & _ & Heof) N. unfold ty_of, view. cbn [fst].
  destruct (r_avail r) as [|b t] eqn:Ea; [|reflexivity].
  destruct N as [N|N]; [congruence|]. destruct (Heof N) as [A _]. rewrite A. reflexivity.
Qed.

Lemma run_conn_stop : forall o_corr_f o_scale o_inflate o_pw c f s r,
  s_closed s || r_dead r = true ->
  run_conn o_corr_f o_scale o_inflate o_pw c (S f) s r = ([], Some s, r, true).
Proof. intros. rewrite run_conn_step. rewrite H. reflexivity. Qed.

Lemma prep_mu : forall r r', fst (prep r) = Some r' -> (mu r' <= mu r)%nat.
Proof.
  intros r r' H. unfold prep in H. destruct (r_avail r) eqn:Ea.
  - destruct (r_eof r || r_reset r); [inversion H; subst; lia|].
    destruct (top_feed (r_evs r) (r_stalled r)) as [o st'] eqn:Et. cbn in H. subst o.
    pose proof (top_feed_mu corr_q scale_q inflate_none pw_none _ _ _ _ Et). unfold mu at 2, rbytes. rewrite Ea. cbn. lia.
  - inversion H; subst. lia.
Qed.

Section ConnSeg.
  Variable o_corr_f : Z -> Z -> Z -> Z -> Z -> Z -> Z -> Z -> rect4.
  Variable o_scale : Z -> Z -> Z -> Z.
  Variable o_inflate : Z -> list Z -> zres.
  Variable o_pw : list Z -> bool.
  Variable c : cfg.
  Let tmo := timeout_of c.
  Let RC := run_conn o_corr_f o_scale o_inflate o_pw c.

  Lemma run_conn_segmentation : forall f1 f2 s r1 r2,
    rbenign tmo r1 -> rbenign tmo r2 -> view r1 = view r2 ->
    (mu r1 + 2 <= f1)%nat -> (mu r2 + 2 <= f2)%nat ->
    map obs_nw (fst (fst (fst (RC f1 s r1)))) = map obs_nw (fst (fst (fst (RC f2 s r2)))) /\
    snd (fst (fst (RC f1 s r1))) = snd (fst (fst (RC f2 s r2))).
  Proof.
    induction f1 as [|f1 IH]; intros f2 s r1 r2 B1 B2 Hv F1 F2; [lia|].
    destruct f2 as [|f2]; [lia|].
    unfold RC. rewrite !run_conn_step.
    assert (Hd : r_dead r1 = r_dead r2) by (unfold view in Hv; inversion Hv; reflexivity).
    rewrite <- Hd.
    destruct (s_closed s || r_dead r1) eqn:Ecl; [cbn; auto|].
    apply orb_false_elim in Ecl. destruct Ecl as [Ecl Ed1].
    pose proof (prep_benign tmo r1 B1 Ed1) as P1.
    pose proof (prep_benign tmo r2 B2 ltac:(congruence)) as P2.
    destruct (prep r1) as [[p1|] st1] eqn:Ep1; destruct (prep r2) as [[p2|] st2] eqn:Ep2; cbn [fst] in P1, P2.
    - (* both have something to process *)
      destruct P1 as (Bp1 & Vp1 & N1). destruct P2 as (Bp2 & Vp2 & N2).
      assert (Vp : view p1 = view p2) by congruence.
      assert (Hty : ty_of p1 = ty_of p2) by (rewrite (ty_of_view tmo p1 Bp1 N1), (ty_of_view tmo p2 Bp2 N2), Vp; reflexivity).
      fold (ty_of p1). fold (ty_of p2). rewrite Hty. cbv zeta.
      destruct (process_message o_corr_f o_scale o_inflate o_pw c s p1) as [[v1 q1] e1] eqn:E1.
      destruct (process_message o_corr_f o_scale o_inflate o_pw c s p2) as [[v2 q2] e2] eqn:E2.
      unfold process_message in E1, E2.
      destruct (run_segmentation _ c _ p1 p2 v1 q1 e1 v2 q2 e2 Bp1 Bp2 Vp E1 E2) as (HV & HE & HP).
      subst v2.
      destruct v1 as [s'|]; [|cbn; rewrite HE; auto].
      pose proof (process_message_progress o_corr_f o_scale o_inflate o_pw c s p1 (Some s') q1 e1 E1) as [M1 G1].
      pose proof (process_message_progress o_corr_f o_scale o_inflate o_pw c s p2 (Some s') q2 e2 E2) as [M2 G2].
      assert (Mp1 : (mu p1 <= mu r1)%nat) by (apply prep_mu; rewrite Ep1; reflexivity).
      assert (Mp2 : (mu p2 <= mu r2)%nat) by (apply prep_mu; rewrite Ep2; reflexivity).
      assert (Hrec : map obs_nw (fst (fst (fst (RC f1 s' q1)))) = map obs_nw (fst (fst (fst (RC f2 s' q2)))) /\
                     snd (fst (fst (RC f1 s' q1))) = snd (fst (fst (RC f2 s' q2)))).
      { destruct f1 as [|f1']; [lia|]. destruct f2 as [|f2']; [lia|].
        destruct (s_closed s') eqn:Ecl'.
        - unfold RC. rewrite !run_conn_stop by (rewrite Ecl'; reflexivity). cbn. auto.
        - destruct HP as [(Bq1 & Bq2 & Vq)|(Dq1 & Dq2)].
          + destruct G1 as [G1|G1]; [congruence|]. destruct G2 as [G2|G2]; [congruence|].
            apply IH; auto; lia.
          + unfold RC. rewrite !run_conn_stop by (rewrite ?Dq1, ?Dq2, orb_true_r; reflexivity). cbn. auto. }
      fold RC.
      destruct (RC f1 s' q1) as [[[l1 w1] x1] k1]. destruct (RC f2 s' q2) as [[[l2 w2] x2] k2].
      cbn in Hrec |- *. destruct Hrec as [Hl Hw]. rewrite HE, Hl, Hw. auto.
    - (* r1 has something, r2 nothing: impossible with equal views *)
      exfalso. destruct P1 as (_ & Vp1 & N1). destruct P2 as (S2 & E2).
      rewrite <- Hv in S2, E2. rewrite <- Vp1 in S2, E2. unfold view in S2, E2. cbn [fst snd] in S2, E2.
      destruct N1 as [N1|N1].
      + apply N1. destruct (r_avail p1); [reflexivity|discriminate].
      + rewrite N1 in E2. discriminate.
    - exfalso. destruct P2 as (_ & Vp2 & N2). destruct P1 as (S1 & E1).
      rewrite Hv in S1, E1. rewrite <- Vp2 in S1, E1. unfold view in S1, E1. cbn [fst snd] in S1, E1.
      destruct N2 as [N2|N2].
      + apply N2. destruct (r_avail p2); [reflexivity|discriminate].
      + rewrite N2 in E1. discriminate.
    - cbn. auto.
  Qed.

  (* with the fuel the driver uses *)
  Lemma segmentation_conn : forall s r1 r2,
    rbenign tmo r1 -> rbenign tmo r2 -> view r1 = view r2 ->
    map obs_nw (fst (fst (fst (RC (conn_fuel r1) s r1)))) = map obs_nw (fst (fst (fst (RC (conn_fuel r2) s r2)))) /\
    snd (fst (fst (RC (conn_fuel r1) s r1))) = snd (fst (fst (RC (conn_fuel r2) s r2))).
  Proof.
    intros. apply run_conn_segmentation; auto; unfold conn_fuel, mu, rbytes; lia.
  Qed.
End ConnSeg.

Example segmentation_nonvacuous :
  let r1 := mkReader [] [EData [4; 1; 0; 0]; EPause 19999; EData [0; 0; 0; 65]; EEof] false false false false in
  let r2 := mkReader [4] [EData [1]; EPause 5; EPause 7; EData [0; 0; 0; 0; 0]; EData [65]; EEof] false false false false in
  rbenign 20000 r1 /\ rbenign 20000 r2 /\ view r1 = view r2.
Proof.
  cbn. repeat split; try discriminate; try lia; auto.
Qed.
