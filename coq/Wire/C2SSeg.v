(* C04 - segmentation independence: what one rfbProcessClientMessage call does (result state,
   callbacks, allocations, writes, closing - everything except the waits) depends only on the byte
   stream, not on how TCP cut it into segments. *)
From LV Require Import Wire.C2S Wire.C2SProofs.
Require Import ZifyBool.
Local Open Scope Z_scope.

(* a peer that only sends (segments of any sizes), possibly ending with an orderly shutdown *)
Inductive benign : list event -> Prop :=
| bn_nil : benign []
| bn_eof : benign [EEof]
| bn_data : forall l r, l <> [] -> benign r -> benign (EData l :: r).

Fixpoint ev_stream (evs : list event) : list Z :=
  match evs with EData l :: r => l ++ ev_stream r | _ :: r => ev_stream r | [] => [] end.
Fixpoint ev_eof (evs : list event) : bool :=
  match evs with [] => false | EEof :: _ => true | _ :: r => ev_eof r end.

Definition rbenign (r : reader) : Prop :=
  benign (r_evs r) /\ r_reset r = false /\ r_stalled r = false /\
  (r_eof r = true -> r_evs r = [] /\ r_avail r = []).

(* all that matters of a benign reader *)
Definition view (r : reader) : list Z * bool * bool :=
  (r_avail r ++ ev_stream (r_evs r), r_eof r || ev_eof (r_evs r), r_dead r).

Lemma ev_bytes_stream : forall evs, ev_bytes evs = length (ev_stream evs).
Proof. induction evs as [|e r IH]; cbn; auto. destruct e; cbn; auto. rewrite app_length. lia. Qed.

Lemma firstn_app_le : forall (A : Type) n (a b : list A), (n <= length a)%nat -> firstn n (a ++ b) = firstn n a.
Proof. intros. rewrite firstn_app. replace (n - length a)%nat with O by lia. cbn. apply app_nil_r. Qed.
Lemma skipn_app_le : forall (A : Type) n (a b : list A), (n <= length a)%nat -> skipn n (a ++ b) = skipn n a ++ b.
Proof. intros. rewrite skipn_app. replace (n - length a)%nat with O by lia. reflexivity. Qed.

(* the read loop on a benign event list *)
Lemma rd_loop_benign : forall tmo evs need acc ws,
  benign evs -> (0 < need)%nat ->
  let o := rd_loop tmo evs need acc 0 false ws in
  if (need <=? length (ev_stream evs))%nat
  then ro_res o = ROk (acc ++ firstn need (ev_stream evs)) /\ rbenign (ro_rd o) /\
       view (ro_rd o) = (skipn need (ev_stream evs), ev_eof evs, false)
  else ro_res o = (if ev_eof evs then RGone else RErr) /\
       r_avail (ro_rd o) = [] /\ ev_stream (r_evs (ro_rd o)) = [] /\ r_dead (ro_rd o) = false /\
       r_eof (ro_rd o) = ev_eof evs.
Proof.
  intros tmo evs need acc ws Hb. revert need acc ws.
  induction Hb as [| |l r Hl Hb IH]; intros need acc ws Hn; cbn zeta.
  - cbn. destruct need; [lia|]. cbn. repeat split; auto.
  - cbn. destruct need; [lia|]. cbn. repeat split; auto.
  - cbn [rd_loop ev_stream ev_eof]. rewrite app_length.
    destruct (need <=? length l)%nat eqn:E1.
    + apply Nat.leb_le in E1.
      assert (E2 : (need <=? length l + length (ev_stream r))%nat = true) by (apply Nat.leb_le; lia).
      rewrite E2. cbn [ro_res ro_rd].
      split; [rewrite firstn_app_le by lia; reflexivity|].
      split.
      * repeat split; cbn; auto; discriminate.
      * unfold view. cbn. rewrite skipn_app_le by lia.
        destruct r as [|e r']; [reflexivity|]. inversion Hb; subst; reflexivity.
    + apply Nat.leb_gt in E1.
      specialize (IH (need - length l)%nat (acc ++ l) (ws ++ [0]) ltac:(lia)). cbn zeta in IH.
      destruct (need - length l <=? length (ev_stream r))%nat eqn:E3.
      * apply Nat.leb_le in E3.
        assert (E2 : (need <=? length l + length (ev_stream r))%nat = true) by (apply Nat.leb_le; lia).
        rewrite E2. destruct IH as (I1 & I2 & I3). split; [|split; [exact I2|]].
        -- rewrite I1. rewrite <- app_assoc. f_equal.
           rewrite firstn_app. rewrite (@firstn_all2 _ need l) by lia. reflexivity.
        -- rewrite I3. rewrite skipn_app. rewrite (@skipn_all2 _ need l) by lia. reflexivity.
      * apply Nat.leb_gt in E3.
        assert (E2 : (need <=? length l + length (ev_stream r))%nat = false) by (apply Nat.leb_gt; lia).
        rewrite E2. exact IH.
Qed.

(* rfbReadExact on a benign reader is a function of the view *)
Lemma read_exact_benign : forall tmo n r,
  rbenign r -> 0 < n -> r_dead r = false ->
  let o := read_exact tmo n r in
  let '(st, eof, _) := view r in
  if n <=? Z.of_nat (length st)
  then ro_res o = ROk (firstn (Z.to_nat n) st) /\ rbenign (ro_rd o) /\
       view (ro_rd o) = (skipn (Z.to_nat n) st, eof, false)
  else ro_res o = (if eof then RGone else RErr) /\
       r_avail (ro_rd o) = [] /\ ev_stream (r_evs (ro_rd o)) = [] /\ r_dead (ro_rd o) = false /\
       r_eof (ro_rd o) = eof.
Proof.
  intros tmo n r (Hb & Hreset & Hst & Heof) Hn Hdead. cbn zeta. unfold view.
  rewrite read_exact_eq. unfold read_exact_ref. rewrite Hdead.
  destruct (n <=? 0) eqn:E0; [lia|].
  rewrite app_length, ev_bytes_stream.
  set (tot := (length (r_avail r) + length (ev_stream (r_evs r)))%nat).
  destruct (n <=? Z.of_nat tot) eqn:En.
  - assert (Hneed : Z.to_nat (Z.min n (Z.of_nat (S tot))) = Z.to_nat n) by lia.
    rewrite Hneed.
    destruct (Z.to_nat n <=? length (r_avail r))%nat eqn:E1.
    + apply Nat.leb_le in E1. cbn [ro_res ro_rd].
      split; [rewrite firstn_app_le by lia; reflexivity|]. split.
      * split; [exact Hb|]. split; [exact Hreset|]. split; [exact Hst|]. cbn. intro H. destruct (Heof H) as [A B].
        split; [exact A|]. rewrite B. destruct (Z.to_nat n); reflexivity.
      * cbn. rewrite skipn_app_le by lia. reflexivity.
    + apply Nat.leb_gt in E1.
      destruct (r_eof r) eqn:Ee.
      { destruct (Heof eq_refl) as [A B]. unfold tot in En. rewrite A, B in En. cbn in En. lia. }
      rewrite Hreset, Hst.
      pose proof (rd_loop_benign tmo (r_evs r) (Z.to_nat n - length (r_avail r)) (r_avail r) [] Hb ltac:(lia)) as H.
      cbn zeta in H.
      assert (E2 : (Z.to_nat n - length (r_avail r) <=? length (ev_stream (r_evs r)))%nat = true)
        by (apply Nat.leb_le; unfold tot in En; lia).
      rewrite E2 in H. destruct H as (I1 & I2 & I3). split; [|split; [exact I2|]].
      * rewrite I1. rewrite firstn_app. rewrite (@firstn_all2 _ (Z.to_nat n) (r_avail r)) by lia. reflexivity.
      * unfold view in I3. rewrite I3. rewrite skipn_app. rewrite (@skipn_all2 _ (Z.to_nat n) (r_avail r)) by lia. cbn. reflexivity.
  - assert (Hneed : Z.to_nat (Z.min n (Z.of_nat (S tot))) = S tot) by lia.
    rewrite Hneed.
    assert (E1 : (S tot <=? length (r_avail r))%nat = false) by (apply Nat.leb_gt; unfold tot; lia).
    rewrite E1.
    destruct (r_eof r) eqn:Ee.
    { cbn. repeat split; auto. destruct (Heof eq_refl) as [A B]. rewrite A. reflexivity. }
    rewrite Hreset, Hst.
    pose proof (rd_loop_benign tmo (r_evs r) (S tot - length (r_avail r)) (r_avail r) [] Hb ltac:(unfold tot; lia)) as H.
    cbn zeta in H.
    assert (E2 : (S tot - length (r_avail r) <=? length (ev_stream (r_evs r)))%nat = false)
      by (apply Nat.leb_gt; unfold tot; lia).
    rewrite E2 in H. cbn. exact H.
Qed.

Definition nowaits (l : list effect) : list effect := filter (fun e => negb (is_wait e)) l.

Lemma nowaits_map_wait : forall ws l, nowaits (map Wait ws ++ l) = nowaits l.
Proof. induction ws; cbn; auto. Qed.

Lemma rbenign_kill : forall r, rbenign r -> rbenign (kill r).
Proof. intros r H. exact H. Qed.

Lemma view_kill : forall r1 r2, view r1 = view r2 -> view (kill r1) = view (kill r2).
Proof. intros r1 r2 H. unfold view in *. cbn. inversion H. reflexivity. Qed.

Lemma run_segmentation : forall A c (p : prog A) r1 r2 v1 r1' e1 v2 r2' e2,
  rbenign r1 -> rbenign r2 -> view r1 = view r2 ->
  run c p r1 = (v1, r1', e1) -> run c p r2 = (v2, r2', e2) ->
  v1 = v2 /\ nowaits e1 = nowaits e2.
Proof.
  intros A c p. induction p as [a|n sf k IH|n k IH|e k IH];
    intros r1 r2 v1 r1' e1 v2 r2' e2 Hb1 Hb2 Hv H1 H2; cbn in H1, H2.
  - inversion H1; inversion H2; subst. auto.
  - assert (Hd : r_dead r1 = r_dead r2) by (unfold view in Hv; inversion Hv; reflexivity).
    destruct (n <=? 0) eqn:En.
    { rewrite !read_exact_eq in H1, H2. unfold read_exact_ref in H1, H2. rewrite En in H1, H2. cbn in H1, H2.
      destruct (run c (k []) r1) as [[a1 b1] c1] eqn:E1. destruct (run c (k []) r2) as [[a2 b2] c2] eqn:E2.
      inversion H1; inversion H2; subst. exact (IH [] _ _ _ _ _ _ _ _ Hb1 Hb2 Hv E1 E2). }
    destruct (r_dead r1) eqn:Ed1.
    { rewrite !read_exact_eq in H1, H2. unfold read_exact_ref in H1, H2. rewrite En in H1, H2. rewrite Ed1 in H1. rewrite <- Hd in H2. cbn in H1, H2.
      inversion H1; inversion H2; subst. auto. }
    pose proof (read_exact_benign (timeout_of c) n r1 Hb1 ltac:(lia) Ed1) as P1.
    pose proof (read_exact_benign (timeout_of c) n r2 Hb2 ltac:(lia) ltac:(congruence)) as P2.
    cbn zeta in P1, P2. rewrite <- Hv in P2.
    destruct (view r1) as [[st eof] dd].
    destruct (n <=? Z.of_nat (length st)).
    + destruct P1 as (R1 & B1 & V1). destruct P2 as (R2 & B2 & V2).
      rewrite R1 in H1. rewrite R2 in H2.
      destruct (run c (k (firstn (Z.to_nat n) st)) (ro_rd (read_exact (timeout_of c) n r1))) as [[a1 b1] c1] eqn:E1.
      destruct (run c (k (firstn (Z.to_nat n) st)) (ro_rd (read_exact (timeout_of c) n r2))) as [[a2 b2] c2] eqn:E2.
      inversion H1; inversion H2; subst.
      rewrite !nowaits_map_wait. refine (IH _ _ _ _ _ _ _ _ _ B1 B2 _ E1 E2). congruence.
    + destruct P1 as (R1 & _). destruct P2 as (R2 & _).
      rewrite R1 in H1. rewrite R2 in H2.
      destruct eof; inversion H1; inversion H2; subst; rewrite !nowaits_map_wait; auto.
  - assert (Hd : r_dead r1 = r_dead r2) by (unfold view in Hv; inversion Hv; reflexivity).
    assert (Hs1 : r_stalled r1 = false) by (destruct Hb1 as (_ & _ & X & _); exact X).
    assert (Hs2 : r_stalled r2 = false) by (destruct Hb2 as (_ & _ & X & _); exact X).
    rewrite Hs1 in H1. rewrite Hs2 in H2. rewrite <- Hd in H2.
    destruct (n <=? 0).
    { destruct (run c (k true) r1) as [[a1 b1] c1] eqn:E1. destruct (run c (k true) r2) as [[a2 b2] c2] eqn:E2.
      inversion H1; inversion H2; subst. exact (IH true _ _ _ _ _ _ _ _ Hb1 Hb2 Hv E1 E2). }
    destruct (r_dead r1).
    { destruct (run c (k false) r1) as [[a1 b1] c1] eqn:E1. destruct (run c (k false) r2) as [[a2 b2] c2] eqn:E2.
      inversion H1; inversion H2; subst. exact (IH false _ _ _ _ _ _ _ _ Hb1 Hb2 Hv E1 E2). }
    destruct (run c (k true) r1) as [[a1 b1] c1] eqn:E1. destruct (run c (k true) r2) as [[a2 b2] c2] eqn:E2.
    pose proof (IH true _ _ _ _ _ _ _ _ Hb1 Hb2 Hv E1 E2) as [HA HB].
    inversion H1; inversion H2; subst. split; auto. cbn. f_equal. exact HB.
  - destruct (is_div0 e || is_bad_index e || is_opaque e).
    { inversion H1; inversion H2; subst. auto. }
    destruct (run c k (if is_close e then kill r1 else r1)) as [[a1 b1] c1] eqn:E1.
    destruct (run c k (if is_close e then kill r2 else r2)) as [[a2 b2] c2] eqn:E2.
    assert (HH : a1 = a2 /\ nowaits c1 = nowaits c2).
    { destruct (is_close e).
      - exact (IH _ _ _ _ _ _ _ _ (rbenign_kill _ Hb1) (rbenign_kill _ Hb2) (view_kill _ _ Hv) E1 E2).
      - exact (IH _ _ _ _ _ _ _ _ Hb1 Hb2 Hv E1 E2). }
    destruct HH as [HA HB]. inversion H1; inversion H2; subst. split; auto. unfold nowaits in *. cbn. rewrite HB. reflexivity.
Qed.

(* one rfbProcessClientMessage call: same byte stream, any two segmentations *)
Lemma segmentation_msg : forall o_corr_f o_scale o_inflate o_pw c s r1 r2,
  rbenign r1 -> rbenign r2 -> view r1 = view r2 ->
  fst (fst (process_message o_corr_f o_scale o_inflate o_pw c s r1)) =
  fst (fst (process_message o_corr_f o_scale o_inflate o_pw c s r2)) /\
  nowaits (snd (process_message o_corr_f o_scale o_inflate o_pw c s r1)) =
  nowaits (snd (process_message o_corr_f o_scale o_inflate o_pw c s r2)).
Proof.
  intros. unfold process_message.
  destruct (run c (message o_corr_f o_scale o_inflate o_pw c s) r1) as [[a1 b1] c1] eqn:E1.
  destruct (run c (message o_corr_f o_scale o_inflate o_pw c s) r2) as [[a2 b2] c2] eqn:E2.
  cbn. exact (run_segmentation _ c _ r1 r2 a1 b1 c1 a2 b2 c2 H H0 H1 E1 E2).
Qed.

Example segmentation_nonvacuous :
  let r1 := mkReader [] [EData [4; 1; 0; 0]; EData [0; 0; 0; 65]; EEof] false false false false in
  let r2 := mkReader [4] [EData [1]; EData [0; 0; 0; 0; 0]; EData [65]; EEof] false false false false in
  rbenign r1 /\ rbenign r2 /\ view r1 = view r2.
Proof.
  cbn. repeat split; try discriminate; repeat (constructor; try discriminate).
Qed.
