(* C06/C18 - client-to-server message grammar for the input and clipboard messages
   (rfbproto.h: rfbKeyEventMsg, rfbPointerEventMsg, rfbClientCutTextMsg and the fixed-size
   neighbours they are mixed with).  Definitions only.  Bytes are [Z] in 0..255, byte
   strings [list Z]; multi-byte fields are big-endian on the wire.
   Sizes, type numbers and field offsets come from Gen/Consts_C06.v (regenerated from
   /repo's headers on every run). *)
From Coq Require Import ZArith List Bool Lia.
From LV Require Import Gen.Consts_C06.
Import ListNotations.
Local Open Scope Z_scope.

Definition byte_ok (b : Z) : Prop := 0 <= b < 256.
Definition bytes_ok (l : list Z) : Prop := Forall byte_ok l.

(* ---- big-endian integers ------------------------------------------------------------ *)
Definition be16 (v : Z) : list Z := [(v / 256) mod 256; v mod 256].
Definition be32 (v : Z) : list Z :=
  [(v / 16777216) mod 256; (v / 65536) mod 256; (v / 256) mod 256; v mod 256].

(* partial access: an index outside the buffer is an explicit [None], never a default *)
Definition byte_at (b : list Z) (i : Z) : option Z :=
  if i <? 0 then None else nth_error b (Z.to_nat i).

Definition be16_at (b : list Z) (i : Z) : option Z :=
  match byte_at b i, byte_at b (i + 1) with
  | Some h, Some l => Some (h * 256 + l)
  | _, _ => None
  end.

Definition be32_at (b : list Z) (i : Z) : option Z :=
  match byte_at b i, byte_at b (i + 1), byte_at b (i + 2), byte_at b (i + 3) with
  | Some b3, Some b2, Some b1, Some b0 => Some (b3 * 16777216 + b2 * 65536 + b1 * 256 + b0)
  | _, _, _, _ => None
  end.

(* ---- the client messages that carry input ------------------------------------------- *)
Inductive input_msg :=
| IKey (down : Z) (key : Z)            (* down: the raw byte, key: 0..2^32-1 *)
| IPtr (mask : Z) (x y : Z)            (* mask: the raw byte, x,y: 0..65535 *)
| ICut (text : list Z).                (* classic ClientCutText, length = |text| *)

Definition zeros (n : nat) : list Z := repeat 0 n.

(* a message is laid out in a zero-filled buffer of its size; fields at the header's offsets *)
Fixpoint put (buf : list Z) (off : nat) (v : list Z) : list Z :=
  match off, buf with
  | O, _ => v ++ skipn (length v) buf
  | S o, b :: r => b :: put r o v
  | S o, [] => []
  end.

Definition enc_key (down key : Z) : list Z :=
  put (put (c06_rfbKeyEvent :: zeros (Z.to_nat c06_sz_KeyEvent - 1))
           (Z.to_nat c06_off_key_down) [down])
      (Z.to_nat c06_off_key_key) (be32 key).

Definition enc_ptr (mask x y : Z) : list Z :=
  put (put (put (c06_rfbPointerEvent :: zeros (Z.to_nat c06_sz_PointerEvent - 1))
                (Z.to_nat c06_off_ptr_mask) [mask])
           (Z.to_nat c06_off_ptr_x) (be16 x))
      (Z.to_nat c06_off_ptr_y) (be16 y).

Definition enc_cut (text : list Z) : list Z :=
  put (c06_rfbClientCutText :: zeros (Z.to_nat c06_sz_ClientCutText - 1))
      (Z.to_nat c06_off_cut_length) (be32 (Z.of_nat (length text))) ++ text.

Definition enc_input (m : input_msg) : list Z :=
  match m with
  | IKey d k => enc_key d k
  | IPtr b x y => enc_ptr b x y
  | ICut t => enc_cut t
  end.

Definition input_ok (m : input_msg) : Prop :=
  match m with
  | IKey d k => byte_ok d /\ 0 <= k < 4294967296
  | IPtr b x y => byte_ok b /\ 0 <= x < 65536 /\ 0 <= y < 65536
  | ICut t => bytes_ok t /\ Z.of_nat (length t) <= c06_cut_text_limit
  end.

(* fixed-size non-input messages the input messages may be mixed with (body arbitrary) *)
Definition enc_fixed (type : Z) (body : list Z) : list Z := type :: body.
