(* C03_update_count_model: the announced count of an update predicted by [model_update] (the function the
   correspondence run executes) is the number of rectangle headers in its output -- pseudo-rectangles,
   copy rectangles and the rectangles of the splitting loops together; and totality (no trap). *)
From Coq Require Import List ZArith Bool Lia ZifyBool.
From LV Require Import Gen.Consts_C03 Gen.Funs_C03 Region.RegionDefs Region.RegionProofs
     Wire.CountsModel Wire.CountsProofs Wire.CapsModel Wire.UpdateModel Wire.InsideProofs.
Import ListNotations.
Local Open Scope Z_scope.

Lemma phdr_count_ph : forall (l : list UpdateModel.hdr), phdr_count (map PH l) = Some (Z.of_nat (length l)).
Proof. induction l as [|h t IH]; [reflexivity|]. cbn [map phdr_count length]. rewrite IH. f_equal. lia. Qed.

Lemma phdr_count_app : forall a b ka kb, phdr_count a = Some ka -> phdr_count b = Some kb ->
  phdr_count (a ++ b) = Some (ka + kb).
Proof.
  induction a as [|p a IH]; intros b ka kb Ha Hb; cbn [app phdr_count] in *.
  - inversion Ha. rewrite Hb. f_equal; lia.
  - destruct p as [h|r e]; [|discriminate]. destruct (phdr_count a) as [k|] eqn:E; [|discriminate].
    assert (Hka : ka = 1 + k) by congruence. subst ka. rewrite (IH b k kb eq_refl Hb). f_equal. lia.
Qed.

Lemma pseudo_len : forall c s sn v, Z.of_nat (length (pseudo_hdrs c s sn v)) = n_pseudo s /\ 0 <= n_pseudo s <= 6.
Proof.
  intros c s sn v. unfold pseudo_hdrs, n_pseudo. rewrite !app_length.
  destruct (s_shape s), (s_pos s), (s_led s), (s_msgs s), (s_encs s), (s_ident s); cbn; lia.
Qed.

Lemma region_hdrs_count : forall pref l k rh, emitted_len l = Some k -> region_hdrs pref l = Some rh ->
  phdr_count rh = Some k.
Proof.
  intros pref. induction l as [|e t IH]; intros k rh Hk Hr; cbn [emitted_len region_hdrs] in *.
  - inversion Hk. inversion Hr. reflexivity.
  - destruct e as [rs|r|]; try discriminate.
    destruct (emitted_len t) as [kt|] eqn:Et; [|discriminate]. cbn [obind] in Hk. inversion Hk; subst k.
    destruct (region_hdrs pref t) as [r'|] eqn:Er; [|discriminate]. inversion Hr; subst rh.
    rewrite (phdr_count_app _ _ (Z.of_nat (length rs)) kt); [reflexivity| |exact (IH kt r' eq_refl eq_refl)].
    clear. induction rs as [|[[[x y] w] h] rs IHrs]; [reflexivity|]. cbn [map phdr_count length]. rewrite IHrs. f_equal. lia.
Qed.

(* data-independent emission never fails to produce headers *)
Lemma region_hdrs_total : forall pref l k, emitted_len l = Some k -> exists rh, region_hdrs pref l = Some rh.
Proof.
  intros pref. induction l as [|e t IH]; intros k Hk; cbn [emitted_len region_hdrs] in *; [eexists; reflexivity|].
  destruct e as [rs|r|]; try discriminate.
  destruct (emitted_len t) as [kt|] eqn:Et; [|discriminate]. destruct (IH kt eq_refl) as [rh Erh]. rewrite Erh. eexists; reflexivity.
Qed.

Definition bbox_fits (g : cfg) (c1 : caps) (sn : snap) (pl : plan) : Prop :=
  forall n2 lrm2,
    count_stage (c_pref c1) (c_lastrect c1) (sn_cmw sn) (sn_cmh sn)
                (bbox_region (bbox_region (pl_region pl) ++ map to_xywh (pl_copy pl))) = Some (n2, lrm2) ->
    lrm2 = false -> n2 + 6 < 65535.

Lemma render_count : forall g c1 s sn pl c' n hs lm ovf,
  g_wrap_coalesce g = true -> g_wrap_copy g = true -> 1 <= sn_cmw sn -> 1 <= sn_cmh sn ->
  Forall nondeg (pl_region pl) -> Forall nondeg (map to_xywh (pl_copy pl)) -> bbox_fits g c1 sn pl ->
  render_update g c1 s sn pl = (c', USent n hs lm ovf) ->
  (lm = false -> phdr_count hs = Some n /\ n < 65535) /\
  (lm = true -> n = 65535 /\ c_lastrect c1 = true /\ is_tight_class (c_pref c1) = true /\
                exists hs0, hs = hs0 ++ [PH (0, 0, 0, 0, enc_LastRect)]).
Proof.
  intros g c1 s sn pl c' n hs lm ovf G1 G2 Hcw Hch Hnd Hndc Hbb Hm.
  unfold render_update, announce_sel in Hm. rewrite G1, G2 in Hm.
  destruct (announce_fixed true (c_pref c1) (c_lastrect c1) (sn_cmw sn) (sn_cmh sn) (sn_maxrects sn) (pl_region pl)
                           (map to_xywh (pl_copy pl)) (n_pseudo s)) as [[[[n0 region'] lm0] keep]|] eqn:Ea; [|inversion Hm].
  destruct (pseudo_len c1 s sn (c_lastled c1)) as [Lp Bp].
  destruct (update_count_fixed _ _ _ _ _ _ _ _ _ _ _ _ Hcw Hch Hnd Hndc Bp Hbb Ea) as [A B].
  destruct (region_hdrs (c_pref c1) (emit_region (c_pref c1) (c_lastrect c1) (sn_cmw sn) (sn_cmh sn) region')) as [rh|] eqn:Erh;
    [|inversion Hm].
  injection Hm as _ Hn Hh Hl _. subst n0 hs lm0. split.
  - intro Q. destruct (B Q) as (k & Ek & Hnk & Hlt). split; [|exact Hlt]. subst lm. cbn [app].
    rewrite app_nil_r.
    pose proof (region_hdrs_count _ _ _ _ Ek Erh) as Crh.
    assert (Cc : phdr_count (if keep then map PH (copy_hdrs (pl_copy pl)) else []) =
                 Some (if keep then Z.of_nat (length (map to_xywh (pl_copy pl))) else 0)).
    { destruct keep; [|reflexivity]. rewrite phdr_count_ph. unfold copy_hdrs. rewrite !map_length. reflexivity. }
    rewrite (phdr_count_app _ _ _ _ (phdr_count_ph _) (phdr_count_app _ _ _ _ Cc Crh)).
    f_equal. rewrite Lp. lia.
  - intro Q. destruct (A Q) as (An & Al & At). subst lm. repeat split; try assumption.
    eexists. rewrite !app_assoc. reflexivity.
Qed.

(* totality: with well-formed (non-degenerate) inputs the repaired count stage never traps *)
Lemma count_stage_total : forall pref lastrect cmw cmh region, 1 <= cmw -> 1 <= cmh -> Forall nondeg region ->
  exists n lrm, count_stage pref lastrect cmw cmh region = Some (n, lrm).
Proof.
  intros pref lastrect cmw cmh region Hcw Hch Hnd. unfold count_stage.
  destruct (tight_unknown pref lastrect region) eqn:Eu; [eexists; eexists; reflexivity|].
  destruct (tight_known_emitted pref lastrect cmw cmh region Hcw Hch Hnd Eu) as (k & _ & En & _).
  rewrite En. eexists; eexists; reflexivity.
Qed.

Lemma announce_fixed_total : forall ts pref lastrect cmw cmh maxrects region copyl npseudo,
  1 <= cmw -> 1 <= cmh -> Forall nondeg region -> Forall nondeg copyl ->
  announce_fixed ts pref lastrect cmw cmh maxrects region copyl npseudo <> None.
Proof.
  intros ts pref lastrect cmw cmh maxrects region copyl npseudo Hcw Hch Hnd Hndc. unfold announce_fixed.
  assert (F : forall r n l nc k, finish_count pref maxrects npseudo r n l nc k <> None).
  { intros. unfold finish_count. destruct l; [discriminate|].
    destruct ((maxrects >? 0) && negb (exempt_from_coalescing pref) && (n >? maxrects)); discriminate. }
  destruct (count_stage_total pref lastrect cmw cmh region Hcw Hch Hnd) as (n0 & l0 & E0). rewrite E0. cbn [obind].
  destruct (l0 || (Z.of_nat (length copyl) + n0 + 6 <? 65535)); [apply F|].
  pose proof (bbox_region_nondeg region Hnd) as Hnd1.
  destruct (count_stage_total pref lastrect cmw cmh _ Hcw Hch Hnd1) as (n1 & l1 & E1). rewrite E1. cbn [obind].
  destruct (l1 || negb ts || (Z.of_nat (length copyl) + n1 + 6 <? 65535)); [apply F|].
  assert (Hnd2 : Forall nondeg (bbox_region (bbox_region region ++ copyl)))
    by (apply bbox_region_nondeg; apply Forall_app; split; assumption).
  destruct (count_stage_total pref lastrect cmw cmh _ Hcw Hch Hnd2) as (n2 & l2 & E2). rewrite E2. cbn [obind]. apply F.
Qed.

(* headline: for an unscaled client with well-formed regions and requestedRegion inside the screen, an update
   predicted by model_update (a) is never a trap and (b) announces exactly the number of headers it contains *)
Definition snap_ok (sn : snap) : Prop :=
  1 <= sn_cmw sn /\ 1 <= sn_cmh sn /\ 1 <= sn_fbw sn /\ 1 <= sn_fbh sn /\
  WF (sn_mod sn) /\ WF (sn_req sn) /\ WF (sn_copy sn) /\ within (sn_fbw sn) (sn_fbh sn) (sn_req sn).

Lemma plan_nondeg : forall c1 s sn, snap_ok sn ->
  Forall nondeg (pl_region (plan_regions c1 s sn)) /\ Forall nondeg (map to_xywh (pl_copy (plan_regions c1 s sn))).
Proof.
  intros c1 s sn (Hcw & Hch & HW & HH & Wm & Wq & Wc & Iq).
  destruct (plan_inside c1 s sn HW HH Wm Wq Wc Iq) as [P Q]. split.
  - eapply in_screen_nondeg. exact P.
  - apply Forall_forall. intros r Hin. apply in_map_iff in Hin. destruct Hin as (rc & <- & Hin).
    rewrite Forall_forall in Q. specialize (Q rc Hin). clear - Q. destruct rc as [[[x1 y1] x2] y2].
    unfold copy_in_screen in Q. cbn [to_xywh nondeg]. lia.
Qed.

Theorem model_update_count : forall g c sn c' n hs ovf,
  g_wrap_coalesce g = true -> g_wrap_copy g = true -> snap_ok sn ->
  (let c0 := bpp24_prelude g c sn in let sc := decide_sends g c0 (sn_ledval sn) in
   bbox_fits g (snd sc) sn (plan_regions (snd sc) (fst sc) sn)) ->
  model_update g c sn = (c', USent n hs false ovf) ->
  phdr_count hs = Some n /\ n < 65535.
Proof.
  intros g c sn c' n hs ovf G1 G2 Hs Hbb Hm. cbv zeta in Hbb.
  unfold model_update, model_update_core in Hm. set (c0 := bpp24_prelude g c sn) in *.
  destruct (c_newfbsize c0 && c_fbpending c0).
  { unfold newfb_update in Hm. injection Hm as _ Hn Hh _. subst n hs. split; [reflexivity|lia]. }
  set (sc := decide_sends g c0 (sn_ledval sn)) in *.
  destruct (pl_nothing (plan_regions (snd sc) (fst sc) sn)); [inversion Hm|].
  destruct (plan_nondeg (snd sc) (fst sc) sn Hs) as [N1 N2].
  destruct Hs as (Hcw & Hch & _).
  destruct (render_count g (snd sc) (fst sc) sn _ c' n hs false ovf G1 G2 Hcw Hch N1 N2 Hbb Hm) as [A _].
  apply A. reflexivity.
Qed.

Theorem model_update_total : forall g c sn,
  g_wrap_coalesce g = true -> snap_ok sn ->
  forall why, snd (model_update g c sn) <> UTrap why.
Proof.
  intros g c sn G1 Hs why. unfold model_update, model_update_core. set (c0 := bpp24_prelude g c sn).
  destruct (c_newfbsize c0 && c_fbpending c0); [unfold newfb_update; cbv beta iota zeta; cbn [snd]; discriminate|].
  set (sc := decide_sends g c0 (sn_ledval sn)).
  destruct (pl_nothing (plan_regions (snd sc) (fst sc) sn)); [cbn [snd]; discriminate|].
  destruct (plan_nondeg (snd sc) (fst sc) sn Hs) as [N1 N2]. destruct Hs as (Hcw & Hch & _).
  unfold render_update, announce_sel. rewrite G1.
  pose proof (announce_fixed_total (g_wrap_copy g) (c_pref (snd sc)) (c_lastrect (snd sc)) (sn_cmw sn) (sn_cmh sn) (sn_maxrects sn)
                (pl_region (plan_regions (snd sc) (fst sc) sn)) (map to_xywh (pl_copy (plan_regions (snd sc) (fst sc) sn)))
                (n_pseudo (fst sc)) Hcw Hch N1 N2) as T.
  destruct (announce_fixed _ _ _ _ _ _ _ _ _) as [[[[n region'] lm] keep]|] eqn:Ea; [|contradiction].
  (* the emission of region' cannot trap: region' is non-degenerate *)
  assert (R' : Forall nondeg region').
  { clear T. unfold announce_fixed in Ea.
    assert (F : forall r n1 l nc k, Forall nondeg r -> finish_count (c_pref (snd sc)) (sn_maxrects sn) (n_pseudo (fst sc)) r n1 l nc k
                                      = Some (n, region', lm, keep) -> Forall nondeg region').
    { intros r n1 l nc k Hr Hf. unfold finish_count in Hf. destruct l; [inversion Hf; subst; exact Hr|].
      destruct ((sn_maxrects sn >? 0) && negb (exempt_from_coalescing (c_pref (snd sc))) && (n1 >? sn_maxrects sn));
        inversion Hf; subst; [apply bbox_region_nondeg|]; exact Hr. }
    destruct (count_stage _ _ _ _ (pl_region _)) as [[n0 l0]|]; [|discriminate]. cbn [obind] in Ea.
    destruct (l0 || _); [exact (F _ _ _ _ _ N1 Ea)|].
    destruct (count_stage _ _ _ _ (bbox_region (pl_region _))) as [[n1 l1]|]; [|discriminate]. cbn [obind] in Ea.
    destruct (l1 || _ || _); [exact (F _ _ _ _ _ (bbox_region_nondeg _ N1) Ea)|].
    destruct (count_stage _ _ _ _ (bbox_region (_ ++ _))) as [[n2 l2]|]; [|discriminate]. cbn [obind] in Ea.
    refine (F _ _ _ _ _ _ Ea). apply bbox_region_nondeg. apply Forall_app. split; [apply bbox_region_nondeg|]; assumption. }
  assert (Erh : exists rh, region_hdrs (c_pref (snd sc)) (emit_region (c_pref (snd sc)) (c_lastrect (snd sc)) (sn_cmw sn) (sn_cmh sn) region') = Some rh).
  { clear Ea T. induction region' as [|r t IH]; [eexists; reflexivity|]. inversion R' as [|? ? Hr Ht]; subst.
    cbn [emit_region region_hdrs]. destruct (IH Ht) as [rh Erh]. rewrite Erh.
    pose proof (emit_rect_count (c_pref (snd sc)) (c_lastrect (snd sc)) (sn_cmw sn) (sn_cmh sn) r Hcw Hch Hr) as Hrc.
    destruct (emit_rect _ _ _ _ r); [eexists; reflexivity|eexists; reflexivity|contradiction]. }
  destruct Erh as [rh Erh]. rewrite Erh. cbv beta iota zeta. cbn [snd]. discriminate.
Qed.

(* ------------------------------------------------------------------ C03_caps, strict form *)
From LV Require Import Wire.CapsProofs.

(* every encoding number in a rectangle header is Raw, a pixel encoding named in some SetEncodings, or a
   (pseudo-)encoding named in the LATEST SetEncodings -- CopyRect and the LastRect marker included *)
Definition enc_strict (latest named : list Z) (e : Z) : Prop :=
  e = enc_Raw \/
  (CapsModel.is_pixel_enc e = true /\ In e named) \/
  (e = enc_NewFBSize /\ (In enc_NewFBSize latest \/ In enc_ExtDesktopSize latest)) \/
  ((e = enc_CopyRect \/ e = enc_LastRect \/ e = enc_XCursor \/ e = enc_RichCursor \/ e = enc_PointerPos \/
    e = enc_ExtDesktopSize \/ e = enc_KeyboardLedState \/ e = enc_SupportedMessages \/
    e = enc_SupportedEncodings \/ e = enc_ServerIdentity) /\ In e latest).

Definition phdr_strict (latest named : list Z) (p : phdr) : Prop :=
  match p with
  | PH h => enc_strict latest named (hdr_enc h)
  | PData _ e => CapsModel.is_pixel_enc e = true /\ (e = enc_Raw \/ In e named)
  end.

Lemma model_update_lastrect : forall g c sn c' n hs ovf,
  g_wrap_coalesce g = true -> g_wrap_copy g = true -> snap_ok sn ->
  (let c0 := bpp24_prelude g c sn in let sc := decide_sends g c0 (sn_ledval sn) in
   bbox_fits g (snd sc) sn (plan_regions (snd sc) (fst sc) sn)) ->
  model_update g c sn = (c', USent n hs true ovf) -> c_lastrect c = true.
Proof.
  intros g c sn c' n hs ovf G1 G2 Hs Hbb Hm. cbv zeta in Hbb.
  unfold model_update, model_update_core in Hm.
  pose proof (prelude_no_gain g c sn) as D0. set (c0 := bpp24_prelude g c sn) in *.
  destruct (c_newfbsize c0 && c_fbpending c0); [unfold newfb_update in Hm; inversion Hm|].
  pose proof (decide_sends_no_gain g c0 (sn_ledval sn)) as D1. set (sc := decide_sends g c0 (sn_ledval sn)) in *.
  destruct (pl_nothing (plan_regions (snd sc) (fst sc) sn)); [inversion Hm|].
  destruct (plan_nondeg (snd sc) (fst sc) sn Hs) as [N1 N2]. destruct Hs as (Hcw & Hch & _).
  destruct (render_count g (snd sc) (fst sc) sn _ c' n hs true ovf G1 G2 Hcw Hch N1 N2 Hbb Hm) as [_ B].
  destruct (B eq_refl) as (_ & L & _).
  destruct D0 as (_ & _ & _ & _ & _ & _ & _ & _ & L0 & _). destruct D1 as (_ & _ & _ & _ & _ & _ & _ & _ & L1 & _).
  congruence.
Qed.

Theorem caps_update_strict : forall g latest c sn c' n hs lm ovf,
  reach g latest c -> g_wrap_coalesce g = true -> g_wrap_copy g = true -> snap_ok sn ->
  (let c0 := bpp24_prelude g c sn in let sc := decide_sends g c0 (sn_ledval sn) in
   bbox_fits g (snd sc) sn (plan_regions (snd sc) (fst sc) sn)) ->
  (c_copyrect c = false -> rgn_is_empty (sn_copy sn) = true) ->
  model_update g c sn = (c', USent n hs lm ovf) ->
  Forall (phdr_strict latest (c_named c)) hs.
Proof.
  intros g latest c sn c' n hs lm ovf Hr G1 G2 Hs Hbb Hinv Hm.
  pose proof (caps_update g latest c sn c' n hs lm ovf Hr Hm) as J.
  destruct (reach_ok g latest c Hr) as [_ Hf].
  assert (Hlast : lm = true -> In enc_LastRect latest).
  { intros ->. destruct Hf as (_ & _ & _ & _ & _ & _ & _ & H7 & _). apply H7.
    eapply model_update_lastrect; eassumption. }
  assert (Hcopy : negb (rgn_is_empty (sn_copy sn)) = true -> In enc_CopyRect latest).
  { intro Q. destruct Hf as (H1 & _). apply H1. destruct (c_copyrect c); [reflexivity|].
    rewrite (Hinv eq_refl) in Q. discriminate. }
  eapply Forall_impl; [|exact J]. intros [h|r e]; cbn [phdr_justified phdr_strict]; [|tauto].
  unfold enc_justified, enc_strict. intros [A|[A|[[A1 A2]|[[A1 A2]|[A|[A1 A2]]]]]].
  - left. exact A.
  - right. left. exact A.
  - right. right. right. split; [auto|]. rewrite A1. apply Hcopy. exact A2.
  - right. right. right. split; [auto|]. rewrite A1. apply Hlast. exact A2.
  - right. right. left. exact A.
  - right. right. right. split; [|exact A2]. destruct A1 as [Q|[Q|[Q|[Q|[Q|[Q|[Q|Q]]]]]]]; auto 12.
Qed.

Lemma rects_inside_example :
  let req := fold_left (add_request 20 10) [(3, 3, 0, 4); (15, 5, 100, 100); (0, 0, 4, 4)] rgn_empty in
  rgn_iter false false req = [(0, 0, 4, 4); (15, 5, 20, 10)] /\ Forall r16q [(3, 3, 0, 4); (15, 5, 100, 100); (0, 0, 4, 4)] /\
  snap_ok (mkSnap (rgn_create_rect 0 0 20 10) req rgn_empty 0 0 0 0 0 0 None 0 20 10 50 48 48 1 32 0 0).
Proof.
  cbv zeta. split; [reflexivity|]. split; [repeat constructor; cbn; lia|].
  destruct (requested_within 20 10 [(3, 3, 0, 4); (15, 5, 100, 100); (0, 0, 4, 4)]) as [Wq Iq]; [repeat constructor; cbn; lia|].
  unfold snap_ok. cbn [sn_cmw sn_cmh sn_fbw sn_fbh sn_mod sn_req sn_copy].
  split; [lia|]. split; [lia|]. split; [lia|]. split; [lia|]. split; [apply create_rect_wf; lia|].
  split; [exact Wq|]. split; [apply WF_empty|exact Iq].
Qed.
