(* C03 - proofs about the SetEncodings state machine (Wire/CapsModel.v) and about the
   encodings used by the update model (Wire/UpdateModel.v): C03_caps. *)
From Coq Require Import List ZArith Bool Lia ZifyBool.
From LV Require Import Gen.Consts_C03 Gen.Funs_C03 Region.RegionDefs
     Wire.CountsModel Wire.CapsModel Wire.UpdateModel.
Import ListNotations.
Local Open Scope Z_scope.

(* what a capability state may claim, relative to the latest SetEncodings list *)
Definition flags_ok (latest : list Z) (c : caps) : Prop :=
  (c_copyrect c = true -> In enc_CopyRect latest) /\
  (c_newfbsize c = true -> In enc_NewFBSize latest \/ In enc_ExtDesktopSize latest) /\
  (c_extdesktop c = true -> In enc_ExtDesktopSize latest) /\
  (c_richcursor c = true -> In enc_RichCursor latest) /\
  (c_cursorshape c = true -> In enc_XCursor latest \/ In enc_RichCursor latest) /\
  (c_cursorshape c = true -> c_richcursor c = false -> In enc_XCursor latest) /\
  (c_cursorpos c = true -> In enc_PointerPos latest) /\
  (c_lastrect c = true -> In enc_LastRect latest) /\
  (c_led c = true -> In enc_KeyboardLedState latest) /\
  (c_suppmsgs c = true -> In enc_SupportedMessages latest) /\
  (c_suppencs c = true -> In enc_SupportedEncodings latest) /\
  (c_ident c = true -> In enc_ServerIdentity latest).

(* the preferred encoding is a pixel encoding the client named at some point, or Raw *)
Definition pref_ok (c : caps) : Prop :=
  c_pref c = -1 \/
  (CapsModel.is_pixel_enc (c_pref c) = true /\ (c_pref c = enc_Raw \/ In (c_pref c) (c_named c))).

Ltac eqb_all :=
  repeat match goal with
         | H : (_ =? _) = true |- _ => apply Z.eqb_eq in H
         | H : (_ =? _) = false |- _ => apply Z.eqb_neq in H
         end.

(* one SetEncodings entry: a flag that is on afterwards was on before or the entry is its number *)
Lemma apply_enc_gain : forall g c e,
  let c' := fst (apply_enc g c e) in
  (c_copyrect c' = true -> c_copyrect c = true \/ e = enc_CopyRect) /\
  (c_newfbsize c' = true -> c_newfbsize c = true \/ e = enc_NewFBSize \/ e = enc_ExtDesktopSize) /\
  (c_extdesktop c' = true -> c_extdesktop c = true \/ e = enc_ExtDesktopSize) /\
  (c_richcursor c' = true -> c_richcursor c = true \/ e = enc_RichCursor) /\
  (c_cursorshape c' = true -> c_cursorshape c = true \/ e = enc_XCursor \/ e = enc_RichCursor) /\
  (c_cursorshape c' = true -> c_richcursor c' = false ->
     (c_cursorshape c = true /\ c_richcursor c = false) \/ e = enc_XCursor) /\
  (c_cursorpos c' = true -> c_cursorpos c = true \/ e = enc_PointerPos) /\
  (c_lastrect c' = true -> c_lastrect c = true \/ e = enc_LastRect) /\
  (c_led c' = true -> c_led c = true \/ e = enc_KeyboardLedState) /\
  (c_suppmsgs c' = true -> c_suppmsgs c = true \/ e = enc_SupportedMessages) /\
  (c_suppencs c' = true -> c_suppencs c = true \/ e = enc_SupportedEncodings) /\
  (c_ident c' = true -> c_ident c = true \/ e = enc_ServerIdentity).
Proof.
  intros g c e. unfold apply_enc.
  repeat match goal with
         | |- context [if ?b then _ else _] => destruct b eqn:?
         end; cbn; eqb_all; subst; repeat split; intros; auto; try discriminate; try tauto.
Qed.

Lemma apply_enc_flags : forall g c e latest,
  flags_ok latest c -> flags_ok (e :: latest) (fst (apply_enc g c e)).
Proof.
  intros g c e latest H. pose proof (apply_enc_gain g c e) as G. cbv zeta in G.
  set (c' := fst (apply_enc g c e)) in *. clearbody c'.
  unfold flags_ok in *. cbn [In].
  destruct H as (H1 & H2 & H3 & H4 & H5 & H5' & H6 & H7 & H8 & H9 & H10 & H11).
  destruct G as (G1 & G2 & G3 & G4 & G5 & G5' & G6 & G7 & G8 & G9 & G10 & G11).
  repeat split; intros.
  - destruct (G1 H); auto.
  - destruct (G2 H) as [K|[K|K]]; auto. destruct (H2 K); auto.
  - destruct (G3 H); auto.
  - destruct (G4 H); auto.
  - destruct (G5 H) as [K|[K|K]]; auto. destruct (H5 K); auto.
  - destruct (G5' H H0) as [[K1 K2]|K]; auto.
  - destruct (G6 H); auto.
  - destruct (G7 H); auto.
  - destruct (G8 H); auto.
  - destruct (G9 H); auto.
  - destruct (G10 H); auto.
  - destruct (G11 H); auto.
Qed.

Lemma flags_ok_weaken : forall l1 l2 c, (forall e, In e l1 -> In e l2) -> flags_ok l1 c -> flags_ok l2 c.
Proof.
  intros l1 l2 c Hsub H. unfold flags_ok in *.
  destruct H as (H1 & H2 & H3 & H4 & H5 & H5' & H6 & H7 & H8 & H9 & H10 & H11).
  repeat split; intros; auto.
  - destruct (H2 H); [left|right]; auto.
  - destruct (H5 H); [left|right]; auto.
Qed.

Lemma apply_encs_flags : forall g l c seen,
  flags_ok seen c -> flags_ok (rev l ++ seen) (fst (apply_encs g c l)).
Proof.
  intros g. induction l as [|e t IH]; intros c seen H; cbn [apply_encs rev app].
  - exact H.
  - destruct (apply_enc g c e) as [c1 i1] eqn:E1.
    destruct (apply_encs g c1 t) as [c2 i2] eqn:E2. cbn [fst].
    pose proof (apply_enc_flags g c e seen H) as H1. rewrite E1 in H1. cbn [fst] in H1.
    pose proof (IH c1 (e :: seen) H1) as H2. rewrite E2 in H2. cbn [fst] in H2.
    rewrite <- app_assoc. exact H2.
Qed.

Lemma reset_flags_ok : forall g c, flags_ok [] (reset_caps g c).
Proof. intros g c. unfold flags_ok, reset_caps. cbn. repeat split; intros; discriminate. Qed.

(* fields not touched by the post-processing of set_encodings *)
Lemma flags_ok_set_pref : forall l c v, flags_ok l c -> flags_ok l (set_pref c v).
Proof. intros l c v H. exact H. Qed.
Lemma flags_ok_set_named : forall l c v, flags_ok l c -> flags_ok l (set_named c v).
Proof. intros l c v H. exact H. Qed.
Lemma flags_ok_clear_cursorpos : forall l c, flags_ok l c -> flags_ok l (set_cursorpos c false).
Proof.
  intros l c H. unfold flags_ok in *. destruct H as (H1 & H2 & H3 & H4 & H5 & H5' & H6 & H7 & H8 & H9 & H10 & H11).
  cbn. repeat split; auto. intros; discriminate.
Qed.

Lemma set_encodings_flags : forall g c l, flags_ok l (fst (set_encodings g c l)).
Proof.
  intros g c l. unfold set_encodings.
  pose proof (apply_encs_flags g l (reset_caps g c) [] (reset_flags_ok g c)) as H.
  destruct (apply_encs g (reset_caps g c) l) as [c1 out]. cbn [fst] in *.
  rewrite app_nil_r in H.
  assert (H' : flags_ok l c1).
  { eapply flags_ok_weaken; [|exact H]. intros e He. apply in_rev. exact He. }
  apply flags_ok_set_named.
  assert (K : forall c0, flags_ok l c0 ->
              flags_ok l (if c_cursorpos c0 && negb (c_cursorshape c0) then set_cursorpos c0 false else c0)).
  { intros c0 H0. destruct (c_cursorpos c0 && negb (c_cursorshape c0)); [apply flags_ok_clear_cursorpos|]; exact H0. }
  apply K.
  destruct (c_pref c1 =? -1); [destruct (c_pref c =? -1)|]; try apply flags_ok_set_pref; exact H'.
Qed.

(* the cursor-position capability is never on without cursor-shape (the C code's last step) *)
Lemma set_encodings_cursorpos_needs_shape : forall g c l,
  c_cursorpos (fst (set_encodings g c l)) = true -> c_cursorshape (fst (set_encodings g c l)) = true.
Proof.
  intros g c l. unfold set_encodings.
  destruct (apply_encs g (reset_caps g c) l) as [c1 out]. cbn [fst].
  set (c2 := if c_pref c1 =? -1 then if c_pref c =? -1 then set_pref c1 enc_Raw else set_pref c1 (c_pref c) else c1).
  destruct (c_cursorpos c2 && negb (c_cursorshape c2)) eqn:E; cbn; intros H; [discriminate|].
  destruct (c_cursorshape c2); [reflexivity|]. rewrite H in E. discriminate.
Qed.

(* ---- preferred encoding ---- *)
Lemma apply_enc_pref : forall g c e,
  c_pref (fst (apply_enc g c e)) = c_pref c \/
  (c_pref c = -1 /\ c_pref (fst (apply_enc g c e)) = e /\ CapsModel.is_pixel_enc e = true).
Proof.
  intros g c e. unfold apply_enc.
  repeat match goal with
         | |- context [if ?b then _ else _] => destruct b eqn:?
         end; cbn; auto.
  right. eqb_all. auto.
Qed.

Lemma apply_encs_pref : forall g l c,
  c_pref (fst (apply_encs g c l)) = c_pref c \/
  (c_pref c = -1 /\ In (c_pref (fst (apply_encs g c l))) l /\
   CapsModel.is_pixel_enc (c_pref (fst (apply_encs g c l))) = true).
Proof.
  intros g. induction l as [|e t IH]; intros c; cbn [apply_encs]; [left; reflexivity|].
  destruct (apply_enc g c e) as [c1 i1] eqn:E1. destruct (apply_encs g c1 t) as [c2 i2] eqn:E2. cbn [fst].
  pose proof (apply_enc_pref g c e) as P1. rewrite E1 in P1. cbn [fst] in P1.
  pose proof (IH c1) as P2. rewrite E2 in P2. cbn [fst] in P2.
  destruct P1 as [P1|(Pa & Pb & Pc)]; destruct P2 as [P2|(Qa & Qb & Qc)].
  - left. congruence.
  - right. rewrite P1 in Qa. repeat split; [assumption|right; assumption|assumption].
  - right. repeat split; [assumption|left; congruence|congruence].
  - exfalso. rewrite Pb in Qa. subst e. rewrite Qa in Pc. discriminate.
Qed.

Lemma raw_is_pixel : CapsModel.is_pixel_enc enc_Raw = true. Proof. reflexivity. Qed.

Lemma set_encodings_pref : forall g c l, pref_ok c ->
  let c' := fst (set_encodings g c l) in
  c_pref c' <> -1 /\ pref_ok c' /\ c_named c' = l ++ c_named c.
Proof.
  intros g c l Hc. unfold set_encodings.
  pose proof (apply_encs_pref g l (reset_caps g c)) as P.
  assert (N : c_named (fst (apply_encs g (reset_caps g c) l)) = c_named c).
  { assert (G : forall l0 c0, c_named (fst (apply_encs g c0 l0)) = c_named c0).
    { induction l0 as [|e t IH]; intros c0; cbn [apply_encs]; [reflexivity|].
      destruct (apply_enc g c0 e) as [c1 i1] eqn:E1. destruct (apply_encs g c1 t) as [c2 i2] eqn:E2. cbn [fst].
      specialize (IH c1). rewrite E2 in IH. cbn [fst] in IH. rewrite IH.
      replace c1 with (fst (apply_enc g c0 e)) by (rewrite E1; reflexivity).
      unfold apply_enc.
      repeat match goal with
             | |- context [if ?b then _ else _] => destruct b eqn:?
             end; reflexivity. }
    rewrite G. reflexivity. }
  destruct (apply_encs g (reset_caps g c) l) as [c1 out]. cbn [fst] in *.
  change (c_pref (reset_caps g c)) with (-1) in P.
  set (c2 := if c_pref c1 =? -1 then if c_pref c =? -1 then set_pref c1 enc_Raw else set_pref c1 (c_pref c) else c1).
  assert (Hn2 : c_named c2 = c_named c).
  { unfold c2. destruct (c_pref c1 =? -1); [destruct (c_pref c =? -1)|]; cbn; assumption. }
  assert (Hp2 : c_pref c2 <> -1 /\
                CapsModel.is_pixel_enc (c_pref c2) = true /\
                (c_pref c2 = enc_Raw \/ In (c_pref c2) l \/ In (c_pref c2) (c_named c))).
  { unfold c2. destruct (c_pref c1 =? -1) eqn:E1.
    - destruct (c_pref c =? -1) eqn:E0; cbn.
      + split; [discriminate|]. split; [reflexivity|left; reflexivity].
      + eqb_all. destruct Hc as [Hc|(Hc1 & Hc2)]; [contradiction|].
        split; [assumption|]. split; [assumption|]. destruct Hc2; auto.
    - eqb_all. destruct P as [P|(_ & Pb & Pc)]; [contradiction|]. auto. }
  set (c3 := if c_cursorpos c2 && negb (c_cursorshape c2) then set_cursorpos c2 false else c2).
  assert (Hc3 : c_pref c3 = c_pref c2 /\ c_named c3 = c_named c2).
  { unfold c3. destruct (c_cursorpos c2 && negb (c_cursorshape c2)); split; reflexivity. }
  destruct Hc3 as [Hp3 Hn3]. destruct Hp2 as (A & B & C).
  assert (Hp' : c_pref (set_named c3 (l ++ c_named c)) = c_pref c2) by (cbn; exact Hp3).
  assert (Hn' : c_named (set_named c3 (l ++ c_named c)) = l ++ c_named c) by reflexivity.
  cbv zeta. split; [rewrite Hp'; exact A|]. split; [|exact Hn'].
  unfold pref_ok. rewrite Hp', Hn'. right. split; [assumption|].
  destruct C as [C|[C|C]]; [left; assumption|right..]; apply in_or_app; auto.
Qed.

Lemma caps_init_ok : pref_ok caps_init /\ flags_ok [] caps_init.
Proof.
  split; [left; reflexivity|]. unfold flags_ok, caps_init. cbn. repeat split; intros; discriminate.
Qed.

(* ---- histories: every transition the model driver performs ---- *)
Inductive reach (g : cfg) : list Z -> caps -> Prop :=
| R_init : reach g [] caps_init
| R_setenc : forall latest c l, reach g latest c -> reach g l (fst (set_encodings g c l))
| R_fur : forall latest c a i, reach g latest c -> reach g latest (on_fur c a i)
| R_pixfmt : forall latest c, reach g latest c -> reach g latest (on_pixfmt c)
| R_ptr : forall latest c, reach g latest c -> reach g latest (on_ptr_moved c)
| R_cursor : forall latest c, reach g latest c -> reach g latest (on_set_cursor c)
| R_newfb : forall latest c, reach g latest c -> reach g latest (on_newfb c)
| R_scale : forall latest c, reach g latest c -> reach g latest (fst (on_setscale c))
| R_sdsfail : forall latest c, reach g latest c -> reach g latest (on_sds_fail c)
| R_update : forall latest c sn, reach g latest c -> reach g latest (fst (model_update g c sn)).

(* transitions other than SetEncodings never switch a capability on and never touch pref/named *)
Definition no_gain (c c' : caps) : Prop :=
  (c_pref c' = c_pref c \/ c_pref c' = enc_Raw) /\ c_named c' = c_named c /\
  c_copyrect c' = c_copyrect c /\ c_newfbsize c' = c_newfbsize c /\ c_extdesktop c' = c_extdesktop c /\
  c_richcursor c' = c_richcursor c /\ c_cursorshape c' = c_cursorshape c /\ c_cursorpos c' = c_cursorpos c /\
  c_lastrect c' = c_lastrect c /\ c_led c' = c_led c /\
  (c_suppmsgs c' = true -> c_suppmsgs c = true) /\ (c_suppencs c' = true -> c_suppencs c = true) /\
  (c_ident c' = true -> c_ident c = true).

Lemma no_gain_keeps : forall latest c c', no_gain c c' -> pref_ok c -> flags_ok latest c ->
  pref_ok c' /\ flags_ok latest c'.
Proof.
  intros latest c c' (P & N & A1 & A2 & A3 & A4 & A5 & A6 & A7 & A8 & A9 & A10 & A11) Hp Hf.
  split.
  - unfold pref_ok in *. rewrite N. destruct P as [P|P]; rewrite P; [exact Hp|].
    right. split; [reflexivity|left; reflexivity].
  - unfold flags_ok in *. rewrite A1, A2, A3, A4, A5, A6, A7, A8.
    destruct Hf as (H1 & H2 & H3 & H4 & H5 & H5' & H6 & H7 & H8 & H9 & H10 & H11).
    repeat split; auto.
Qed.

Lemma no_gain_refl : forall c, no_gain c c.
Proof. intros c. unfold no_gain. repeat split; auto. Qed.

Lemma no_gain_trans : forall a b c, no_gain a b -> no_gain b c -> no_gain a c.
Proof.
  unfold no_gain. intros a b c (P & N & A1 & A2 & A3 & A4 & A5 & A6 & A7 & A8 & A9 & A10 & A11)
    (P' & N' & B1 & B2 & B3 & B4 & B5 & B6 & B7 & B8 & B9 & B10 & B11).
  repeat split; try congruence; auto.
  destruct P as [P|P]; destruct P' as [P'|P']; [left|right|right|right]; congruence.
Qed.

Lemma decide_sends_no_gain : forall g c v, no_gain c (snd (decide_sends g c v)).
Proof.
  intros g c v. unfold decide_sends, no_gain. cbn [snd].
  destruct (c_led c && g_ledhook g); cbn; repeat split; auto; intros; discriminate.
Qed.

Lemma render_no_gain : forall g c1 s sn pl, no_gain c1 (fst (render_update g c1 s sn pl)).
Proof.
  intros g c1 s sn pl. unfold render_update.
  destruct (announce_sel g (c_pref c1) (c_lastrect c1) (sn_cmw sn) (sn_cmh sn) (sn_maxrects sn) (pl_region pl)
                     (map to_xywh (pl_copy pl)) (n_pseudo s)) as [[[[n region'] lm] keep]|];
    [|apply no_gain_refl].
  destruct (region_hdrs (c_pref c1) (emit_region (c_pref c1) (c_lastrect c1) (sn_cmw sn) (sn_cmh sn) region'));
    cbn [fst]; destruct (s_shape s), (s_pos s); unfold no_gain; cbn; repeat split; auto.
Qed.

Lemma prelude_no_gain : forall g c sn, no_gain c (bpp24_prelude g c sn).
Proof.
  intros g c sn. unfold bpp24_prelude.
  match goal with |- context [if ?b then _ else _] => destruct b end; [|apply no_gain_refl].
  unfold no_gain. cbn. repeat split; auto.
Qed.

Lemma model_update_core_no_gain : forall g c sn, no_gain c (fst (model_update_core g c sn)).
Proof.
  intros g c sn. unfold model_update_core.
  destruct (c_newfbsize c && c_fbpending c).
  { unfold newfb_update. cbn [fst]. unfold no_gain. cbn. repeat split; auto. }
  pose proof (decide_sends_no_gain g c (sn_ledval sn)) as D.
  destruct (pl_nothing (plan_regions (snd (decide_sends g c (sn_ledval sn))) (fst (decide_sends g c (sn_ledval sn))) sn)).
  - exact D.
  - eapply no_gain_trans; [exact D|]. apply render_no_gain.
Qed.

Lemma model_update_no_gain : forall g c sn, no_gain c (fst (model_update g c sn)).
Proof.
  intros g c sn. unfold model_update. eapply no_gain_trans; [apply prelude_no_gain|apply model_update_core_no_gain].
Qed.

Lemma reach_ok : forall g latest c, reach g latest c -> pref_ok c /\ flags_ok latest c.
Proof.
  intros g latest c H. induction H.
  - exact caps_init_ok.
  - destruct IHreach as [Hp _]. split.
    + apply (set_encodings_pref g c l Hp).
    + apply set_encodings_flags.
  - destruct IHreach as [Hp Hf]. apply (no_gain_keeps latest c); auto.
    unfold on_fur. destruct a; [|apply no_gain_refl].
    destruct (negb i && c_extdesktop (set_ready c true)); unfold no_gain; cbn; repeat split; auto.
  - destruct IHreach as [Hp Hf]. apply (no_gain_keeps latest c); auto. unfold no_gain, on_pixfmt; cbn; repeat split; auto.
  - destruct IHreach as [Hp Hf]. apply (no_gain_keeps latest c); auto. unfold on_ptr_moved.
    destruct (c_cursorpos c); [|apply no_gain_refl]. unfold no_gain; cbn; repeat split; auto.
  - destruct IHreach as [Hp Hf]. apply (no_gain_keeps latest c); auto. unfold no_gain, on_set_cursor; cbn; repeat split; auto.
  - destruct IHreach as [Hp Hf]. apply (no_gain_keeps latest c); auto. unfold on_newfb.
    destruct (c_newfbsize c); [|apply no_gain_refl]. unfold no_gain; cbn; repeat split; auto.
  - destruct IHreach as [Hp Hf]. apply (no_gain_keeps latest c); auto. unfold on_setscale.
    destruct (c_newfbsize c); unfold no_gain; cbn; repeat split; auto.
  - destruct IHreach as [Hp Hf]. apply (no_gain_keeps latest c); auto. unfold no_gain, on_sds_fail; cbn; repeat split; auto.
  - destruct IHreach as [Hp Hf]. apply (no_gain_keeps latest c); auto. apply model_update_no_gain.
Qed.

(* ---- C03_caps: the encodings in the headers of a predicted update ---- *)
Definition hdr_enc (h : UpdateModel.hdr) : Z := let '(_, _, _, _, e) := h in e.

(* what an encoding number in a rectangle header needs *)
Definition enc_justified (latest named : list Z) (copy_nonempty lm : bool) (e : Z) : Prop :=
  e = enc_Raw \/
  (CapsModel.is_pixel_enc e = true /\ In e named) \/
  (e = enc_CopyRect /\ copy_nonempty = true) \/
  (e = enc_LastRect /\ lm = true) \/
  (e = enc_NewFBSize /\ (In enc_NewFBSize latest \/ In enc_ExtDesktopSize latest)) \/
  ((e = enc_XCursor \/ e = enc_RichCursor \/ e = enc_PointerPos \/ e = enc_ExtDesktopSize \/
    e = enc_KeyboardLedState \/ e = enc_SupportedMessages \/ e = enc_SupportedEncodings \/
    e = enc_ServerIdentity) /\ In e latest).

Definition phdr_justified (latest named : list Z) (copy_nonempty lm : bool) (p : phdr) : Prop :=
  match p with
  | PH h => enc_justified latest named copy_nonempty lm (hdr_enc h)
  | PData _ e => CapsModel.is_pixel_enc e = true /\ (e = enc_Raw \/ In e named)
  end.

Lemma data_enc_justified : forall latest c cne lm, pref_ok c ->
  enc_justified latest (c_named c) cne lm (data_enc (c_pref c)).
Proof.
  intros latest c cne lm [H|(H1 & [H2|H2])]; unfold data_enc.
  - rewrite H. left. reflexivity.
  - rewrite H2. left. reflexivity.
  - destruct (c_pref c =? -1) eqn:E; [left; reflexivity|]. right. left. auto.
Qed.

Lemma region_hdrs_justified : forall latest c cne lm l hs, pref_ok c ->
  region_hdrs (c_pref c) l = Some hs ->
  (forall r, In (EmData r) l -> c_pref c <> -1) ->
  Forall (phdr_justified latest (c_named c) cne lm) hs.
Proof.
  intros latest c cne lm l. induction l as [|e t IH]; intros hs Hp H Hd; cbn [region_hdrs] in H.
  - inversion H. constructor.
  - destruct e as [rs|r|].
    + destruct (region_hdrs (c_pref c) t) as [r'|] eqn:Et; [|discriminate]. inversion H; subst hs.
      apply Forall_app; split.
      * apply Forall_forall. intros p Hin. apply in_map_iff in Hin. destruct Hin as ([[[x y] w] h] & <- & _).
        cbn [phdr_justified hdr_enc]. apply data_enc_justified. exact Hp.
      * apply IH; auto. intros r Hr. apply (Hd r). right. exact Hr.
    + destruct (region_hdrs (c_pref c) t) as [r'|] eqn:Et; [|discriminate]. inversion H; subst hs.
      constructor.
      * cbn [phdr_justified]. destruct Hp as [Hp|(Hp1 & Hp2)]; [exfalso; apply (Hd r); [left; reflexivity|exact Hp]|].
        split; assumption.
      * apply IH; auto. intros r0 Hr. apply (Hd r0). right. exact Hr.
    + discriminate.
Qed.

Lemma emit_region_data_pref : forall pref lastrect cmw cmh region r,
  In (EmData r) (emit_region pref lastrect cmw cmh region) -> pref <> -1.
Proof.
  intros pref lastrect cmw cmh region r. induction region as [|q t IH]; cbn [emit_region In]; [tauto|].
  intros [H|H]; [|auto]. intro Hm. subst pref. destruct q as [[[x y] w] h]. unfold emit_rect in H.
  change (classify (-1)) with EcOther in H. cbn in H. discriminate.
Qed.

Lemma plan_copy_empty : forall c1 s sn, sn_copy sn = [] -> pl_copy (plan_regions c1 s sn) = [].
Proof.
  intros c1 s sn H. unfold plan_regions. rewrite H.
  change (fst (rgn_sub [] (sn_mod sn))) with (@nil (span xspans)).
  destruct (rgn_and (rgn_or (sn_mod sn) []) (sn_req sn)) as [upd1 ne]. cbn [pl_copy].
  change (fst (rgn_and [] (sn_req sn))) with (@nil (span xspans)).
  change (fst (rgn_and [] (rgn_offset (sn_req sn) (sn_dx sn) (sn_dy sn)))) with (@nil (span xspans)).
  unfold rgn_iter. destruct (sn_dy sn >? 0); reflexivity.
Qed.

Lemma render_justified : forall g latest c c1 s sn pl c' n hs lm ovf,
  pref_ok c -> flags_ok latest c -> decide_sends g c (sn_ledval sn) = (s, c1) ->
  (pl_copy pl <> [] -> rgn_is_empty (sn_copy sn) = false) ->
  render_update g c1 s sn pl = (c', USent n hs lm ovf) ->
  Forall (phdr_justified latest (c_named c) (negb (rgn_is_empty (sn_copy sn))) lm) hs.
Proof.
  intros g latest c c1 s sn pl c' n hs lm ovf Hp Hf Ed Hcopy Hm.
  pose proof (decide_sends_no_gain g c (sn_ledval sn)) as D. rewrite Ed in D. cbn [snd] in D.
  destruct (no_gain_keeps latest c c1 D Hp Hf) as [Hp1 Hf1].
  assert (Hn1 : c_named c1 = c_named c) by (destruct D as (_ & N & _); exact N).
  unfold render_update in Hm.
  destruct (announce_sel g (c_pref c1) (c_lastrect c1) (sn_cmw sn) (sn_cmh sn) (sn_maxrects sn) (pl_region pl)
                     (map to_xywh (pl_copy pl)) (n_pseudo s)) as [[[[n0 region'] lm0] keep0]|] eqn:Ea;
    [|inversion Hm].
  destruct (region_hdrs (c_pref c1) (emit_region (c_pref c1) (c_lastrect c1) (sn_cmw sn) (sn_cmh sn) region'))
    as [rh|] eqn:Erh; [|inversion Hm].
  injection Hm as _ Hn Hh Hl _. subst n hs lm.
  rewrite <- Hn1.
  apply Forall_app; split; [|apply Forall_app; split; [|apply Forall_app; split]].
  - (* pseudo rectangles: each needs its flag, hence its number in the latest list *)
    apply Forall_forall. intros p Hin. apply in_map_iff in Hin. destruct Hin as (h & <- & Hin).
    cbn [phdr_justified]. unfold pseudo_hdrs in Hin.
    assert (Es : s = fst (decide_sends g c (sn_ledval sn))) by (rewrite Ed; reflexivity).
    unfold decide_sends in Es. cbn [fst] in Es.
    destruct Hf as (H1 & H2 & H3 & H4 & H5 & H5' & H6 & H7 & H8 & H9 & H10 & H11).
    assert (Hrich : c_richcursor c1 = c_richcursor c) by (destruct D as (_ & _ & _ & _ & _ & R & _); exact R).
    apply in_app_or in Hin; destruct Hin as [Hin|Hin].
    {
      destruct (s_shape s) eqn:Ss; [|contradiction]. destruct Hin as [<-|[]].
        rewrite Es in Ss. cbn [s_shape] in Ss.
        unfold cursor_shape_hdr. rewrite Hrich.
        assert (Hcs : c_cursorshape c = true) by (apply andb_true_iff in Ss; destruct Ss as [Ss _]; apply andb_true_iff in Ss; tauto).
        destruct (c_richcursor c) eqn:Er;
          (destruct (sn_cursor sn) as [gm|]; [destruct ((cu_w gm =? 0) || (cu_h gm =? 0) || cu_empty gm)|]); cbn [hdr_enc];
          right; right; right; right; right; split; auto 10. }
    apply in_app_or in Hin; destruct Hin as [Hin|Hin].
    {
      destruct (s_pos s) eqn:Ss; [|contradiction]. destruct Hin as [<-|[]].
        rewrite Es in Ss. cbn [s_pos] in Ss. cbn [hdr_enc].
        right; right; right; right; right; split; [auto 10|]. apply H6. apply andb_true_iff in Ss; tauto. }
    apply in_app_or in Hin; destruct Hin as [Hin|Hin].
    {
      destruct (s_led s) eqn:Ss; [|contradiction]. destruct Hin as [<-|[]].
        rewrite Es in Ss. cbn [s_led] in Ss. cbn [hdr_enc].
        right; right; right; right; right; split; [auto 10|]. apply H8.
        apply andb_true_iff in Ss; destruct Ss as [Ss _]; apply andb_true_iff in Ss; tauto. }
    apply in_app_or in Hin; destruct Hin as [Hin|Hin].
    {
      destruct (s_msgs s) eqn:Ss; [|contradiction]. destruct Hin as [<-|[]].
        rewrite Es in Ss. cbn [s_msgs] in Ss. cbn [hdr_enc].
        right; right; right; right; right; split; [auto 10|]. apply H9.
        destruct (c_led c && g_ledhook g); cbn in Ss; exact Ss. }
    apply in_app_or in Hin; destruct Hin as [Hin|Hin].
    {
      destruct (s_encs s) eqn:Ss; [|contradiction]. destruct Hin as [<-|[]].
        rewrite Es in Ss. cbn [s_encs] in Ss. cbn [hdr_enc].
        right; right; right; right; right; split; [auto 10|]. apply H10.
        destruct (c_led c && g_ledhook g); cbn in Ss; exact Ss. }
    {
      destruct (s_ident s) eqn:Ss; [|contradiction]. destruct Hin as [<-|[]].
        rewrite Es in Ss. cbn [s_ident] in Ss. cbn [hdr_enc].
        right; right; right; right; right; split; [auto 10|]. apply H11.
        destruct (c_led c && g_ledhook g); cbn in Ss; exact Ss. }
  - (* copy rectangles exist only if the client's copyRegion was not empty *)
    destruct keep0; [|constructor].
    apply Forall_forall. intros p Hin. apply in_map_iff in Hin. destruct Hin as (h & <- & Hin).
    unfold copy_hdrs in Hin. apply in_map_iff in Hin. destruct Hin as (r & <- & Hin).
    cbn [phdr_justified]. destruct (to_xywh r) as [[[x y] w] h0]. cbn [hdr_enc].
    right. right. left. split; [reflexivity|].
    rewrite Hcopy; [reflexivity|]. intro E. rewrite E in Hin. exact Hin.
  - eapply region_hdrs_justified; [exact Hp1|exact Erh|].
    intros r Hr. eapply emit_region_data_pref. exact Hr.
  - destruct lm0; [|constructor]. constructor; [|constructor]. cbn [phdr_justified hdr_enc].
    right. right. right. left. split; reflexivity.
Qed.

Lemma core_justified : forall g latest c sn c' n hs lm ovf,
  pref_ok c -> flags_ok latest c ->
  model_update_core g c sn = (c', USent n hs lm ovf) ->
  Forall (phdr_justified latest (c_named c) (negb (rgn_is_empty (sn_copy sn))) lm) hs.
Proof.
  intros g latest c sn c' n hs lm ovf Hp Hf Hm.
  unfold model_update_core in Hm.
  destruct (c_newfbsize c && c_fbpending c) eqn:Enew.
  { unfold newfb_update in Hm. injection Hm as _ Hn Hh Hl _. subst n hs lm.
    constructor; [|constructor]. cbn [phdr_justified].
    destruct Hf as (_ & H2 & H3 & _).
    destruct (c_extdesktop c) eqn:Ex; cbn [hdr_enc].
    - right. right. right. right. right. split; [tauto|]. auto.
    - right. right. right. right. left. split; [reflexivity|]. apply H2. apply andb_true_iff in Enew; tauto. }
  destruct (decide_sends g c (sn_ledval sn)) as [s c1] eqn:Ed. cbn [fst snd] in Hm.
  destruct (pl_nothing (plan_regions c1 s sn)); [inversion Hm|].
  eapply render_justified; [exact Hp|exact Hf|exact Ed| |exact Hm].
  intros Hne. destruct (sn_copy sn) eqn:Ec; [|reflexivity].
  exfalso. apply Hne. apply plan_copy_empty. exact Ec.
Qed.

Lemma caps_update : forall g latest c sn c' n hs lm ovf,
  reach g latest c ->
  model_update g c sn = (c', USent n hs lm ovf) ->
  Forall (phdr_justified latest (c_named c) (negb (rgn_is_empty (sn_copy sn))) lm) hs.
Proof.
  intros g latest c sn c' n hs lm ovf Hr Hm.
  destruct (reach_ok g latest c Hr) as [Hp Hf].
  pose proof (prelude_no_gain g c sn) as D.
  destruct (no_gain_keeps latest c _ D Hp Hf) as [Hp1 Hf1].
  assert (Hn : c_named (bpp24_prelude g c sn) = c_named c) by (destruct D as (_ & N & _); exact N).
  rewrite <- Hn. eapply core_justified; [exact Hp1|exact Hf1|exact Hm].
Qed.

(* ---- the repaired request path (d5a464d): what enters requestedRegion is never degenerate ---- *)
Lemma clip_request_nondegenerate : forall fbw fbh x y w h x' y' w' h',
  0 <= x < 65536 -> 0 <= y < 65536 -> 0 <= w < 65536 -> 0 <= h < 65536 ->
  clip_request fbw fbh x y w h = Some (x', y', w', h') ->
  x' = x /\ y' = y /\ 1 <= w' <= w /\ 1 <= h' <= h /\ x' + w' <= fbw /\ y' + h' <= fbh.
Proof.
  intros fbw fbh x y w h x' y' w' h' Hx Hy Hw Hh H. unfold clip_request in H.
  pose proof (Z.mod_pos_bound (fbw - x) 65536 ltac:(lia)) as Mw.
  pose proof (Z.mod_pos_bound (fbh - y) 65536 ltac:(lia)) as Mh.
  assert (Sw : 0 <= fbw - x < 65536 -> (fbw - x) mod 65536 = fbw - x) by (intro; apply Z.mod_small; lia).
  assert (Sh : 0 <= fbh - y < 65536 -> (fbh - y) mod 65536 = fbh - y) by (intro; apply Z.mod_small; lia).
  set (mw := (fbw - x) mod 65536) in *. set (mh := (fbh - y) mod 65536) in *.
  destruct (w >? fbw - x) eqn:E1.
  - destruct (mw >? fbw - x) eqn:E2; [discriminate|].
    destruct (h >? fbh - y) eqn:E3.
    + destruct (mh >? fbh - y) eqn:E4; [discriminate|].
      destruct ((mw =? 0) || (mh =? 0)) eqn:E5; [discriminate|]. inversion H; subst. lia.
    + destruct (h >? fbh - y) eqn:E4; [discriminate|].
      destruct ((mw =? 0) || (h =? 0)) eqn:E5; [discriminate|]. inversion H; subst. lia.
  - destruct (w >? fbw - x) eqn:E2; [discriminate|].
    destruct (h >? fbh - y) eqn:E3.
    + destruct (mh >? fbh - y) eqn:E4; [discriminate|].
      destruct ((w =? 0) || (mh =? 0)) eqn:E5; [discriminate|]. inversion H; subst. lia.
    + destruct (h >? fbh - y) eqn:E4; [discriminate|].
      destruct ((w =? 0) || (h =? 0)) eqn:E5; [discriminate|]. inversion H; subst. lia.
Qed.

Lemma clip_request_examples :
  clip_request 20 10 3 3 0 4 = None /\ clip_request 20 10 3 3 4 0 = None /\
  clip_request 20 10 20 3 5 4 = None /\ clip_request 20 10 30000 3 5 5 = None /\
  clip_request 20 10 19 9 100 100 = Some (19, 9, 1, 1) /\ clip_request 20 10 0 0 20 10 = Some (0, 0, 20, 10).
Proof. repeat split; reflexivity. Qed.

(* ---- F21 repaired (2d15d75): the extended-clipboard capability follows the latest SetEncodings ---- *)
Lemma apply_enc_extclip : forall g c e,
  c_extclip (fst (apply_enc g c e)) = true -> c_extclip c = true \/ e = enc_ExtendedClipboard.
Proof.
  intros g c e. unfold apply_enc.
  repeat match goal with
         | |- context [if ?b then _ else _] => destruct b eqn:?
         end; cbn; eqb_all; subst; auto.
Qed.

Lemma apply_encs_extclip : forall g l c,
  c_extclip (fst (apply_encs g c l)) = true -> c_extclip c = true \/ In enc_ExtendedClipboard l.
Proof.
  intros g. induction l as [|e t IH]; intros c H; cbn [apply_encs] in H; [left; exact H|].
  destruct (apply_enc g c e) as [c1 i1] eqn:E1. destruct (apply_encs g c1 t) as [c2 i2] eqn:E2. cbn [fst] in H.
  pose proof (IH c1) as P. rewrite E2 in P. cbn [fst] in P. destruct (P H) as [Q|Q].
  - pose proof (apply_enc_extclip g c e) as R. rewrite E1 in R. cbn [fst] in R.
    destruct (R Q); [left; assumption|right; left; congruence].
  - right. right. exact Q.
Qed.

Lemma set_encodings_extclip : forall g c l, g_reset_extclip g = true ->
  c_extclip (fst (set_encodings g c l)) = true -> In enc_ExtendedClipboard l.
Proof.
  intros g c l Hg. unfold set_encodings.
  pose proof (apply_encs_extclip g l (reset_caps g c)) as P.
  destruct (apply_encs g (reset_caps g c) l) as [c1 out]. cbn [fst] in *.
  set (c2 := if c_pref c1 =? -1 then if c_pref c =? -1 then set_pref c1 enc_Raw else set_pref c1 (c_pref c) else c1).
  assert (E2 : c_extclip c2 = c_extclip c1).
  { unfold c2. destruct (c_pref c1 =? -1); [destruct (c_pref c =? -1)|]; reflexivity. }
  assert (E3 : c_extclip (if c_cursorpos c2 && negb (c_cursorshape c2) then set_cursorpos c2 false else c2) = c_extclip c2).
  { destruct (c_cursorpos c2 && negb (c_cursorshape c2)); reflexivity. }
  cbn [c_extclip set_named]. intro H.
  change (c_extclip (set_named (if c_cursorpos c2 && negb (c_cursorshape c2) then set_cursorpos c2 false else c2) (l ++ c_named c)))
    with (c_extclip (if c_cursorpos c2 && negb (c_cursorshape c2) then set_cursorpos c2 false else c2)) in H.
  rewrite E3, E2 in H. destruct (P H) as [Q|Q]; [|exact Q].
  unfold reset_caps in Q. cbn [c_extclip] in Q. rewrite Hg in Q. discriminate.
Qed.
