(* C03 - the server-to-client byte stream as a grammar: a STRICT parser [parse_s2c] that tracks
   the client's pixel format, the framebuffer size last announced, the encodings the client
   advertised (latest SetEncodings list and the union of all lists) and LastRect; plus the
   handshake phases and ServerInit.  The OCaml driver runs it over every byte the real server
   wrote.  Compressed payload interiors (zlib, LZO, JPEG, PNG streams) are only length-checked;
   uncompressed structures (RRE, CoRRE, Hextile, cursors, Tight framing) are walked.
   A printer for the same grammar is given for the round-trip theorem.
   Bytes are Z in [0,256).  Only definitions in this file. *)
From Coq Require Import List ZArith Bool Lia.
From LV Require Import Gen.Consts_C03.
Import ListNotations.
Local Open Scope Z_scope.

Inductive perr := NeedMore | Bad (code : Z).
Inductive pres (A : Type) := POk (a : A) (rest : list Z) | PFail (e : perr).
Arguments POk {A}. Arguments PFail {A}.

Definition pbind {A B} (r : pres A) (f : A -> list Z -> pres B) : pres B :=
  match r with POk a rest => f a rest | PFail e => PFail e end.

(* error codes (also used by the Python side to print a reason) *)
Definition E_MSGTYPE := 10.  Definition E_ENC_NOT_ADVERTISED := 11.  Definition E_OUTSIDE := 12.
Definition E_PSEUDO_NOT_ENABLED := 13.  Definition E_LASTRECT_IN_COUNTED := 14.
Definition E_COPYSRC_OUTSIDE := 15.  Definition E_BPP := 16.  Definition E_ENC_UNKNOWN := 17.
Definition E_TIGHT_CTL := 18.  Definition E_SUPPENCS_SHAPE := 19.  Definition E_CMAP_TRUECOLOUR := 20.
Definition E_EXTCLIP_NOT_ENABLED := 21.  Definition E_RESIZE_NOT_REQUESTED := 22.
Definition E_XVP_NOT_ENABLED := 23.  Definition E_LASTRECT_NOT_ENABLED := 24.
Definition E_EXTCLIP_SHORT := 25.  Definition E_FUEL := 26.  Definition E_HS := 30.
Definition E_SERVERINIT := 31.  Definition E_HEXTILE := 27.  Definition E_NEGATIVE := 28.

(* ---------------------------------------------------------------- byte readers *)
Fixpoint dropz (l : list Z) (n : Z) : option (list Z) :=
  if n <=? 0 then Some l
  else match l with [] => None | _ :: t => dropz t (n - 1) end.

Definition skip (n : Z) (l : list Z) : pres unit :=
  if n <? 0 then PFail (Bad E_NEGATIVE)
  else match dropz l n with Some r => POk tt r | None => PFail NeedMore end.

Fixpoint takez (l : list Z) (n : Z) : option (list Z * list Z) :=
  if n <=? 0 then Some ([], l)
  else match l with
       | [] => None
       | a :: t => match takez t (n - 1) with Some (p, r) => Some (a :: p, r) | None => None end
       end.

Definition u8 (l : list Z) : pres Z :=
  match l with a :: t => POk a t | _ => PFail NeedMore end.
Definition u16 (l : list Z) : pres Z :=
  match l with a :: b :: t => POk (a * 256 + b) t | _ => PFail NeedMore end.
Definition u32 (l : list Z) : pres Z :=
  match l with a :: b :: c :: d :: t => POk (((a * 256 + b) * 256 + c) * 256 + d) t | _ => PFail NeedMore end.

Definition p16 (v : Z) : list Z := [(v / 256) mod 256; v mod 256].
Definition p32 (v : Z) : list Z := [(v / 16777216) mod 256; (v / 65536) mod 256; (v / 256) mod 256; v mod 256].

(* ---------------------------------------------------------------- parser state *)
Record pst := mkPst {
  p_bpp : Z; p_depth : Z; p_truecolour : bool; p_rmax : Z; p_gmax : Z; p_bmax : Z;
  p_fbw : Z; p_fbh : Z;            (* size last announced to this client *)
  p_latest : list Z;               (* the latest SetEncodings list ([] before the first) *)
  p_named : list Z;                (* union of all SetEncodings lists so far *)
  p_scale_requested : bool         (* the client sent SetScale / PalmVNCSetScaleFactor *)
}.

Definition pst_set_fb (s : pst) (w h : Z) : pst :=
  mkPst (p_bpp s) (p_depth s) (p_truecolour s) (p_rmax s) (p_gmax s) (p_bmax s) w h
        (p_latest s) (p_named s) (p_scale_requested s).
Definition pst_set_encodings (s : pst) (l : list Z) : pst :=
  mkPst (p_bpp s) (p_depth s) (p_truecolour s) (p_rmax s) (p_gmax s) (p_bmax s) (p_fbw s) (p_fbh s)
        l (l ++ p_named s) (p_scale_requested s).
Definition pst_set_format (s : pst) (bpp depth : Z) (tc : bool) (rmax gmax bmax : Z) : pst :=
  mkPst bpp depth tc rmax gmax bmax (p_fbw s) (p_fbh s) (p_latest s) (p_named s) (p_scale_requested s).
Definition pst_set_scale (s : pst) : pst :=
  mkPst (p_bpp s) (p_depth s) (p_truecolour s) (p_rmax s) (p_gmax s) (p_bmax s) (p_fbw s) (p_fbh s)
        (p_latest s) (p_named s) true.

Definition mem (e : Z) (l : list Z) : bool := existsb (Z.eqb e) l.

Definition bypp (s : pst) : Z := p_bpp s / 8.
(* tightUsePixelFormat24 *)
Definition tight_pix (s : pst) : Z :=
  if (p_bpp s =? 32) && (p_depth s =? 24) && (p_rmax s =? 255) && (p_gmax s =? 255) && (p_bmax s =? 255)
  then 3 else bypp s.

Definition is_pixel_enc (e : Z) : bool :=
  (e =? enc_Raw) || (e =? enc_CopyRect) || (e =? enc_RRE) || (e =? enc_CoRRE) || (e =? enc_Hextile) ||
  (e =? enc_Ultra) || (e =? enc_Zlib) || (e =? enc_ZRLE) || (e =? enc_ZYWRLE) || (e =? enc_Tight) ||
  (e =? enc_TightPng).

(* pixel sizes: 8, 16, 32 bits for every encoding; this build (LIBVNCSERVER_ALLOW24BPP) also accepts a
   24-bit client format, which only the encodings that copy translated pixels verbatim can serve *)
Definition bpp_generic_enc (e : Z) : bool :=
  (e =? enc_Raw) || (e =? enc_CopyRect) || (e =? enc_Zlib) || (e =? enc_Ultra).
Definition bpp_allowed (s : pst) (e : Z) : bool :=
  (p_bpp s =? 8) || (p_bpp s =? 16) || (p_bpp s =? 32) || ((p_bpp s =? 24) && bpp_generic_enc e).

(* "{Raw} U encodings named in some SetEncodings so far" *)
Definition enc_advertised (s : pst) (e : Z) : bool := (e =? enc_Raw) || mem e (p_named s).

(* pseudo-encodings: enabled by the LATEST SetEncodings *)
Definition pseudo_enabled (s : pst) (e : Z) : bool :=
  if e =? enc_NewFBSize then mem enc_NewFBSize (p_latest s) || mem enc_ExtDesktopSize (p_latest s)
  else mem e (p_latest s).

(* ---------------------------------------------------------------- rectangle payloads *)
Definition hdr : Type := (Z * Z * Z * Z * Z)%type.     (* x y w h encoding *)

(* Tight "compact length": 1..3 bytes, 7+7+8 bits *)
Definition compact_len (l : list Z) : pres Z :=
  pbind (u8 l) (fun b0 l1 =>
    if b0 <? 128 then POk b0 l1 else
    pbind (u8 l1) (fun b1 l2 =>
      if b1 <? 128 then POk (b0 mod 128 + b1 * 128) l2 else
      pbind (u8 l2) (fun b2 l3 => POk (b0 mod 128 + (b1 mod 128) * 128 + b2 * 16384) l3))).

(* TurboVNC extension spoken by this server (compression level 0): rfbTightNoZlib = 0x0A in the
   control nibble means basic compression whose data bytes are sent uncompressed after the
   compact length (which must then equal the data length).  Only for rfbEncodingTight. *)
(* the pixel data of a basic-compression rectangle: verbatim below TIGHT_MIN_TO_COMPRESS bytes,
   otherwise compact length + bytes (for NoZlib the length must be the data length) *)
Definition tight_data (nozlib : bool) (datalen : Z) (l : list Z) : pres unit :=
  if datalen <? TIGHT_MIN_TO_COMPRESS then skip datalen l
  else pbind (compact_len l) (fun n l2 =>
         if nozlib && negb (n =? datalen) then PFail (Bad E_TIGHT_CTL) else skip n l2).

Definition tight_basic (s : pst) (w h : Z) (explicit nozlib : bool) (l1 : list Z) : pres unit :=
  if explicit then
    pbind (u8 l1) (fun filt l2 =>
      if filt =? tightFilterPalette then
        pbind (u8 l2) (fun nc1 l3 =>
          let nc := nc1 + 1 in
          pbind (skip (nc * tight_pix s) l3) (fun _ l4 =>
            tight_data nozlib (if nc <=? 2 then ((w + 7) / 8) * h else w * h) l4))
      else if (filt =? tightFilterCopy) || (filt =? tightFilterGradient) then tight_data nozlib (w * h * tight_pix s) l2
      else PFail (Bad E_TIGHT_CTL))
  else tight_data nozlib (w * h * tight_pix s) l1.

Definition tight_body (s : pst) (enc w h : Z) (l : list Z) : pres unit :=
  pbind (u8 l) (fun ctl l1 =>
    let comp := ctl / 16 in
    if comp =? tightFill then skip (tight_pix s) l1
    else if comp =? tightJpeg then pbind (compact_len l1) (fun n l2 => skip n l2)
    else if (enc =? enc_TightPng) && (comp =? tightPng) then pbind (compact_len l1) (fun n l2 => skip n l2)
    else if (enc =? enc_Tight) && (comp =? tightNoZlib) then tight_basic s w h false true l1
    else if (enc =? enc_Tight) && (comp =? tightNoZlib + tightExplicitFilter) then tight_basic s w h true true l1
    else if comp >=? tightFill then PFail (Bad E_TIGHT_CTL)
    else tight_basic s w h (Z.testbit comp 2) false l1).

(* Hextile: 16x16 tiles, left to right, top to bottom *)
Fixpoint hextile_tiles (fuel : nat) (bp w h tx ty : Z) (l : list Z) : pres unit :=
  match fuel with
  | O => PFail (Bad E_FUEL)
  | S f =>
    if (ty >=? h) || (w <=? 0) then POk tt l
    else
      let tw := Z.min 16 (w - tx) in
      let th := Z.min 16 (h - ty) in
      pbind (u8 l) (fun sub l1 =>
        let next (l' : list Z) : pres unit :=
            if tx + 16 <? w then hextile_tiles f bp w h (tx + 16) ty l'
            else hextile_tiles f bp w h 0 (ty + 16) l' in
        if 32 <=? sub then PFail (Bad E_HEXTILE)
        else if Z.testbit sub 0 then pbind (skip (tw * th * bp) l1) (fun _ l2 => next l2)
        else
          pbind (skip (if Z.testbit sub 1 then bp else 0) l1) (fun _ l2 =>
          pbind (skip (if Z.testbit sub 2 then bp else 0) l2) (fun _ l3 =>
            if Z.testbit sub 3 then
              pbind (u8 l3) (fun n l4 =>
                pbind (skip (n * (if Z.testbit sub 4 then bp + 2 else 2)) l4) (fun _ l5 => next l5))
            else next l3)))
  end.


Definition len32_body (l : list Z) : pres unit := pbind (u32 l) (fun n l1 => skip n l1).

Definition mask_bytes (w h : Z) : Z := ((w + 7) / 8) * h.

(* result of one rectangle: its header, the stream after it, the new state, and whether it was
   the LastRect marker *)
Inductive rect_kind := RkPixel | RkPseudo | RkLast.

Definition parse_hdr (l : list Z) : pres hdr :=
  pbind (u16 l) (fun x l1 => pbind (u16 l1) (fun y l2 => pbind (u16 l2) (fun w l3 =>
  pbind (u16 l3) (fun h l4 => pbind (u32 l4) (fun e l5 => POk (x, y, w, h, e) l5))))).

(* everything after the 12-byte rectangle header *)
(* [hf]: fuel for the Hextile tile walk.  Every tile consumes at least its subencoding byte, so any
   number above the length of the stream being parsed suffices (parse_stream computes it once) *)
Definition rect_payload (hf : nat) (s : pst) (hd : hdr) (l5 : list Z) : pres (hdr * rect_kind * pst) :=
    let '(x, y, w, h, e) := hd in
    let bp := bypp s in
    let ok (k : rect_kind) (s' : pst) (r : pres unit) : pres (hdr * rect_kind * pst) :=
        pbind r (fun _ rest => POk (hd, k, s') rest) in
    if is_pixel_enc e then
      if negb (bpp_allowed s e) then PFail (Bad E_BPP)
      else if negb (enc_advertised s e) then PFail (Bad E_ENC_NOT_ADVERTISED)
      else if (x + w >? p_fbw s) || (y + h >? p_fbh s) then PFail (Bad E_OUTSIDE)
      else if e =? enc_Raw then ok RkPixel s (skip (w * h * bp) l5)
      else if e =? enc_CopyRect then
        pbind (u16 l5) (fun sx l6 => pbind (u16 l6) (fun sy l7 =>
          if (sx + w >? p_fbw s) || (sy + h >? p_fbh s) then PFail (Bad E_COPYSRC_OUTSIDE)
          else POk (hd, RkPixel, s) l7))
      else if e =? enc_RRE then
        ok RkPixel s (pbind (u32 l5) (fun n l6 => skip (bp + n * (bp + 8)) l6))
      else if e =? enc_CoRRE then
        ok RkPixel s (pbind (u32 l5) (fun n l6 => skip (bp + n * (bp + 4)) l6))
      else if e =? enc_Hextile then ok RkPixel s (hextile_tiles hf bp w h 0 0 l5)
      else if (e =? enc_Tight) || (e =? enc_TightPng) then ok RkPixel s (tight_body s e w h l5)
      else ok RkPixel s (len32_body l5)              (* Zlib, ZRLE, ZYWRLE, Ultra *)
    else if e =? enc_LastRect then
      if pseudo_enabled s e then POk (hd, RkLast, s) l5 else PFail (Bad E_LASTRECT_NOT_ENABLED)
    else if negb (pseudo_enabled s e) then
      if (e =? enc_XCursor) || (e =? enc_RichCursor) || (e =? enc_PointerPos) || (e =? enc_NewFBSize) ||
         (e =? enc_ExtDesktopSize) || (e =? enc_KeyboardLedState) || (e =? enc_SupportedMessages) ||
         (e =? enc_SupportedEncodings) || (e =? enc_ServerIdentity)
      then PFail (Bad E_PSEUDO_NOT_ENABLED) else PFail (Bad E_ENC_UNKNOWN)
    else if e =? enc_XCursor then
      ok RkPseudo s (if (w =? 0) || (h =? 0) then POk tt l5
                     else skip (sz_XCursorColors + 2 * mask_bytes w h) l5)
    else if e =? enc_RichCursor then
      ok RkPseudo s (if (w =? 0) || (h =? 0) then POk tt l5
                     else skip (w * h * bp + mask_bytes w h) l5)
    else if e =? enc_PointerPos then ok RkPseudo s (POk tt l5)
    else if e =? enc_KeyboardLedState then ok RkPseudo s (POk tt l5)
    else if e =? enc_NewFBSize then ok RkPseudo (pst_set_fb s w h) (POk tt l5)
    else if e =? enc_ExtDesktopSize then
      ok RkPseudo (pst_set_fb s w h)
         (pbind (u8 l5) (fun n l6 => skip (3 + n * sz_ExtDesktopScreen) l6))
    else if e =? enc_SupportedMessages then ok RkPseudo s (skip w l5)
    else if e =? enc_SupportedEncodings then
      if w =? 4 * h then ok RkPseudo s (skip w l5) else PFail (Bad E_SUPPENCS_SHAPE)
    else if e =? enc_ServerIdentity then ok RkPseudo s (skip w l5)
    else PFail (Bad E_ENC_UNKNOWN).

Definition parse_rect (hf : nat) (s : pst) (l : list Z) : pres (hdr * rect_kind * pst) :=
  pbind (parse_hdr l) (fun hd l5 => rect_payload hf s hd l5).

(* exactly n rectangles *)
Fixpoint parse_rects_n (n : nat) (hf : nat) (s : pst) (l : list Z) (acc : list hdr) : pres (list hdr * pst) :=
  match n with
  | O => POk (rev acc, s) l
  | S k =>
      pbind (parse_rect hf s l) (fun '(hd, kind, s') rest =>
        match kind with
        | RkLast => PFail (Bad E_LASTRECT_IN_COUNTED)
        | _ => parse_rects_n k hf s' rest (hd :: acc)
        end)
  end.

(* rectangles until the LastRect marker (announced count 0xFFFF) *)
Fixpoint parse_rects_last (fuel : nat) (hf : nat) (s : pst) (l : list Z) (acc : list hdr) : pres (list hdr * pst) :=
  match fuel with
  | O => PFail NeedMore
  | S f =>
      pbind (parse_rect hf s l) (fun '(hd, kind, s') rest =>
        match kind with
        | RkLast => POk (rev acc, s') rest
        | _ => parse_rects_last f hf s' rest (hd :: acc)
        end)
  end.

Inductive msg :=
| MFbu (announced : Z) (rects : list hdr) (lastmarker : bool)
| MCMap (first n : Z)
| MBell
| MCutText (len : Z) (ext : bool)
| MResize (w h : Z)
| MPalmResize (w h : Z)
| MXvp (version code : Z).

Definition parse_msg (hf : nat) (s : pst) (l : list Z) : pres (msg * pst) :=
  pbind (u8 l) (fun t l1 =>
    if t =? s2c_FramebufferUpdate then
      pbind (u8 l1) (fun _pad l2 => pbind (u16 l2) (fun n l3 =>
        if n =? 65535 then
          if negb (pseudo_enabled s enc_LastRect) then PFail (Bad E_LASTRECT_NOT_ENABLED)
          else pbind (parse_rects_last hf hf s l3 []) (fun '(rs, s') rest => POk (MFbu n rs true, s') rest)
        else pbind (parse_rects_n (Z.to_nat n) hf s l3 []) (fun '(rs, s') rest => POk (MFbu n rs false, s') rest)))
    else if t =? s2c_SetColourMapEntries then
      pbind (u8 l1) (fun _ l2 => pbind (u16 l2) (fun first l3 => pbind (u16 l3) (fun n l4 =>
        if p_truecolour s then PFail (Bad E_CMAP_TRUECOLOUR)
        else pbind (skip (n * 6) l4) (fun _ rest => POk (MCMap first n, s) rest))))
    else if t =? s2c_Bell then POk (MBell, s) l1
    else if t =? s2c_ServerCutText then
      pbind (skip 3 l1) (fun _ l2 => pbind (u32 l2) (fun len l3 =>
        if len <? 2147483648 then pbind (skip len l3) (fun _ rest => POk (MCutText len false, s) rest)
        else
          let n := 4294967296 - len in
          if negb (mem enc_ExtendedClipboard (p_latest s)) then PFail (Bad E_EXTCLIP_NOT_ENABLED)
          else if n <? 4 then PFail (Bad E_EXTCLIP_SHORT)
          else pbind (skip n l3) (fun _ rest => POk (MCutText n true, s) rest)))
    else if t =? s2c_ResizeFrameBuffer then
      pbind (u8 l1) (fun _ l2 => pbind (u16 l2) (fun w l3 => pbind (u16 l3) (fun h rest =>
        if p_scale_requested s then POk (MResize w h, pst_set_fb s w h) rest
        else PFail (Bad E_RESIZE_NOT_REQUESTED))))
    else if t =? s2c_PalmVNCReSizeFrameBuffer then
      pbind (u8 l1) (fun _ l2 => pbind (u16 l2) (fun _dw l3 => pbind (u16 l3) (fun _dh l4 =>
      pbind (u16 l4) (fun w l5 => pbind (u16 l5) (fun h l6 => pbind (skip 2 l6) (fun _ rest =>
        if p_scale_requested s then POk (MPalmResize w h, pst_set_fb s w h) rest
        else PFail (Bad E_RESIZE_NOT_REQUESTED)))))))
    else if t =? s2c_Xvp then
      pbind (u8 l1) (fun _ l2 => pbind (u8 l2) (fun ver l3 => pbind (u8 l3) (fun code rest =>
        if mem enc_Xvp (p_named s) then POk (MXvp ver code, s) rest else PFail (Bad E_XVP_NOT_ENABLED))))
    else PFail (Bad E_MSGTYPE)).

(* the whole available stream: complete messages, then the unparsed remainder *)
Inductive stream_end := SeClean | SeIncomplete (rest : list Z) | SeBad (code : Z) (rest : list Z).

Fixpoint parse_s2c (fuel : nat) (hf : nat) (s : pst) (l : list Z) (acc : list msg) : list msg * pst * stream_end :=
  match l with
  | [] => (rev acc, s, SeClean)
  | _ =>
    match fuel with
    | O => (rev acc, s, SeBad E_FUEL l)
    | S f =>
      match parse_msg hf s l with
      | POk (m, s') rest => parse_s2c f hf s' rest (m :: acc)
      | PFail NeedMore => (rev acc, s, SeIncomplete l)
      | PFail (Bad c) => (rev acc, s, SeBad c l)
      end
    end
  end.

Definition parse_stream (s : pst) (l : list Z) := parse_s2c (S (length l)) (S (length l)) s l [].

(* ---------------------------------------------------------------- handshake *)
Record screen_id := mkScreen {
  sc_w : Z; sc_h : Z;
  sc_bpp : Z; sc_depth : Z; sc_be : Z; sc_tc : Z; sc_rmax : Z; sc_gmax : Z; sc_bmax : Z;
  sc_rs : Z; sc_gs : Z; sc_bs : Z;
  sc_name : list Z;                 (* desktopName bytes *)
  sc_password : bool                (* authPasswdData != NULL *)
}.

Definition version_bytes (major minor : Z) : list Z :=
  [82; 70; 66; 32;                                            (* "RFB " *)
   48 + (major / 100) mod 10; 48 + (major / 10) mod 10; 48 + major mod 10; 46;
   48 + (minor / 100) mod 10; 48 + (minor / 10) mod 10; 48 + minor mod 10; 10].

Fixpoint firstn_z (n : nat) (l : list Z) : list Z :=
  match n, l with S k, a :: t => a :: firstn_z k t | _, _ => [] end.

(* rfbProcessClientInitMessage: strncpy(.., desktopName, 127) *)
Definition server_init_bytes (sc : screen_id) : list Z :=
  let name := firstn_z 127 (sc_name sc) in
  p16 (sc_w sc) ++ p16 (sc_h sc) ++
  [sc_bpp sc; sc_depth sc; sc_be sc; sc_tc sc] ++ p16 (sc_rmax sc) ++ p16 (sc_gmax sc) ++ p16 (sc_bmax sc) ++
  [sc_rs sc; sc_gs sc; sc_bs sc; 0; 0; 0] ++ p32 (Z.of_nat (length name)) ++ name.

(* reading a ServerInit back *)
Definition parse_server_init (l : list Z) : pres (Z * Z * list Z * list Z) :=
  pbind (u16 l) (fun w l1 => pbind (u16 l1) (fun h l2 =>
    match takez l2 sz_PixelFormat with
    | None => PFail NeedMore
    | Some (pf, l3) =>
        pbind (u32 l3) (fun n l4 =>
          match takez l4 n with
          | None => PFail NeedMore
          | Some (name, rest) => POk (w, h, pf, name) rest
          end)
    end)).

(* what the client did, as far as it matters for the shape of the server's answer *)
Record hs_script := mkHs {
  hs_minor : Z;          (* client's protocol minor version (major = 3) *)
  hs_choice : Z;         (* security type chosen (3.7+); ignored for 3.3 *)
  hs_auth_ok : bool;     (* the DES response was right *)
  hs_reason_len : Z      (* length of the failure reason the server uses *)
}.

Definition sec_type (sc : screen_id) : Z := if sc_password sc then secTypeVncAuth else secTypeNone.

(* the byte shapes of the handshake; challenge bytes are arbitrary: None = any byte *)
Definition any_bytes (n : nat) : list (option Z) := repeat None n.
Definition lit (l : list Z) : list (option Z) := map Some l.

Inductive hs_end := HsNormal | HsClosed.

Definition handshake_shape (sc : screen_id) (h : hs_script) : list (option Z) * hs_end :=
  let ver := lit (version_bytes protoMajor protoMinor) in
  let init := lit (server_init_bytes sc) in
  let auth_tail :=
      if hs_auth_ok h then (lit (p32 vncAuthOK) ++ init, HsNormal)
      else if hs_minor h >? 7
           then (lit (p32 vncAuthFailed) ++ lit (p32 (hs_reason_len h)) ++ any_bytes (Z.to_nat (hs_reason_len h)), HsClosed)
           else (lit (p32 vncAuthFailed), HsClosed) in
  if hs_minor h <? 7 then
    if sc_password sc then
      (ver ++ lit (p32 secTypeVncAuth) ++ any_bytes (Z.to_nat CHALLENGESIZE) ++ fst auth_tail, snd auth_tail)
    else (ver ++ lit (p32 secTypeNone) ++ init, HsNormal)
  else
    let list_ := lit [1; sec_type sc] in
    if negb (hs_choice h =? sec_type sc) then (ver ++ list_, HsClosed)
    else if sc_password sc then
      (ver ++ list_ ++ any_bytes (Z.to_nat CHALLENGESIZE) ++ fst auth_tail, snd auth_tail)
    else if (hs_minor h >? 7) && negb (hs_minor h =? 889)
      then (ver ++ list_ ++ lit (p32 vncAuthOK) ++ init, HsNormal)
      else (ver ++ list_ ++ init, HsNormal).

Fixpoint match_shape (sh : list (option Z)) (l : list Z) : option (list Z) :=
  match sh, l with
  | [], _ => Some l
  | Some b :: st, a :: t => if a =? b then match_shape st t else None
  | None :: st, _ :: t => match_shape st t
  | _ :: _, [] => None
  end.

(* the bytes the server wrote during the handshake have exactly the expected shape *)
Definition check_handshake (sc : screen_id) (h : hs_script) (l : list Z) : bool :=
  match match_shape (fst (handshake_shape sc h)) l with
  | Some [] => true
  | _ => false
  end.

(* ---------------------------------------------------------------- printer (for the round trip) *)
(* Hextile tiles *)
Inductive tile :=
| TRaw (data : list Z)
| TSub (bg fg : option (list Z)) (subs : option (bool * list (list Z))).   (* coloured?, subrect records *)

Definition optbytes (o : option (list Z)) : list Z := match o with Some l => l | None => [] end.

Definition tile_flags (t : tile) : Z :=
  match t with
  | TRaw _ => hextileRaw
  | TSub bg fg subs =>
      (match bg with Some _ => hextileBg | None => 0 end) + (match fg with Some _ => hextileFg | None => 0 end) +
      (match subs with Some (c, _) => hextileAnySub + (if c then hextileColoured else 0) | None => 0 end)
  end.

Definition print_tile (t : tile) : list Z :=
  match t with
  | TRaw d => tile_flags t :: d
  | TSub bg fg subs =>
      tile_flags t :: optbytes bg ++ optbytes fg ++
      match subs with Some (_, l) => Z.of_nat (length l) :: concat l | None => [] end
  end.

(* Tight *)
Definition pcompact (n : Z) : list Z :=
  if n <? 128 then [n]
  else if n <? 16384 then [n mod 128 + 128; n / 128]
  else [n mod 128 + 128; (n / 128) mod 128 + 128; n / 16384].

Inductive tfilter := FNone | FCopy | FGradient | FPalette (colors : list (list Z)).
Inductive tdata := DRaw (d : list Z) | DComp (d : list Z).      (* < 12 bytes verbatim / compact length + bytes *)
Inductive tbody :=
| TbFill (r : Z) (pix : list Z)
| TbJpeg (r : Z) (d : list Z)
| TbPng (r : Z) (d : list Z)
| TbBasic (r stream : Z) (nozlib : bool) (f : tfilter) (d : tdata).   (* r: the four stream-reset bits *)

Definition print_tdata (d : tdata) : list Z :=
  match d with DRaw b => b | DComp b => pcompact (Z.of_nat (length b)) ++ b end.

Definition print_tfilter (f : tfilter) : list Z :=
  match f with
  | FNone => []
  | FCopy => [tightFilterCopy]
  | FGradient => [tightFilterGradient]
  | FPalette cols => [tightFilterPalette; Z.of_nat (length cols) - 1] ++ concat cols
  end.

Definition print_tbody (t : tbody) : list Z :=
  match t with
  | TbFill r p => (tightFill * 16 + r) :: p
  | TbJpeg r d => (tightJpeg * 16 + r) :: pcompact (Z.of_nat (length d)) ++ d
  | TbPng r d => (tightPng * 16 + r) :: pcompact (Z.of_nat (length d)) ++ d
  | TbBasic r st nz f d =>
      let comp := (if nz then tightNoZlib else st) + (match f with FNone => 0 | _ => tightExplicitFilter end) in
      (comp * 16 + r) :: print_tfilter f ++ print_tdata d
  end.

(* rectangle payloads with explicit contents; [data] fields are opaque byte strings *)
Inductive body :=
| BRaw (data : list Z)
| BCopy (sx sy : Z)
| BRRE (bg : list Z) (subs : list (list Z))          (* each sub: pixel ++ 8 bytes *)
| BCoRRE (bg : list Z) (subs : list (list Z))        (* each sub: pixel ++ 4 bytes *)
| BLen32 (data : list Z)                             (* Zlib / ZRLE / ZYWRLE / Ultra *)
| BCursorX (payload : list Z)
| BCursorRich (payload : list Z)
| BEmpty                                             (* PointerPos, LED, NewFBSize *)
| BBlob (data : list Z)                              (* SupportedMessages/Encodings, ServerIdentity *)
| BExtDesktop (screens : list (list Z))              (* 16 bytes each *)
| BHextile (tiles : list tile)
| BTight (t : tbody).

Definition print_body (b : body) : list Z :=
  match b with
  | BRaw d => d
  | BCopy sx sy => p16 sx ++ p16 sy
  | BRRE bg subs => p32 (Z.of_nat (length subs)) ++ bg ++ concat subs
  | BCoRRE bg subs => p32 (Z.of_nat (length subs)) ++ bg ++ concat subs
  | BLen32 d => p32 (Z.of_nat (length d)) ++ d
  | BCursorX p => p
  | BCursorRich p => p
  | BEmpty => []
  | BBlob d => d
  | BExtDesktop scr => [Z.of_nat (length scr); 0; 0; 0] ++ concat scr
  | BHextile tiles => concat (map print_tile tiles)
  | BTight t => print_tbody t
  end.

Definition print_rect (r : hdr * body) : list Z :=
  let '((x, y, w, h, e), b) := r in p16 x ++ p16 y ++ p16 w ++ p16 h ++ p32 e ++ print_body b.

Definition print_fbu (pad : Z) (rects : list (hdr * body)) : list Z :=
  [s2c_FramebufferUpdate; pad] ++ p16 (Z.of_nat (length rects)) ++ concat (map print_rect rects).

Definition lastrect_hdr : hdr := (0, 0, 0, 0, enc_LastRect).

Definition print_fbu_last (pad : Z) (rects : list (hdr * body)) : list Z :=
  [s2c_FramebufferUpdate; pad] ++ p16 65535 ++ concat (map print_rect rects) ++ print_rect (lastrect_hdr, BEmpty).

(* printers of the other server-to-client messages *)
Definition print_bell : list Z := [s2c_Bell].
Definition print_cuttext (data : list Z) : list Z := [s2c_ServerCutText; 0; 0; 0] ++ p32 (Z.of_nat (length data)) ++ data.
Definition print_cuttext_ext (data : list Z) : list Z :=
  [s2c_ServerCutText; 0; 0; 0] ++ p32 (4294967296 - Z.of_nat (length data)) ++ data.
Definition print_cmap (first : Z) (entries : list (list Z)) : list Z :=
  [s2c_SetColourMapEntries; 0] ++ p16 first ++ p16 (Z.of_nat (length entries)) ++ concat entries.
Definition print_resize (w h : Z) : list Z := [s2c_ResizeFrameBuffer; 0] ++ p16 w ++ p16 h.
Definition print_xvp (version code : Z) : list Z := [s2c_Xvp; 0; version; code].
