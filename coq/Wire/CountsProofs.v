(* C03 - proofs about Wire/CountsModel.v: announced rectangle count = number of rectangle
   headers produced by the splitting loops, for all w, h >= 1 (no upper bound), against the
   regenerated constants (Gen/Consts_C03.v) and the re-translated rfbNumCodedRectsTight
   (Gen/Funs_C03.v). *)
From Coq Require Import List ZArith Bool Lia ZifyBool.
From LV Require Import Gen.Consts_C03 Gen.Funs_C03 Wire.CountsModel.
Import ListNotations.
Local Open Scope Z_scope.

(* ------------------------------------------------------------------ arithmetic helpers *)
Lemma quot_div : forall a b, 0 <= a -> 0 < b -> Z.quot a b = a / b.
Proof. intros. apply Z.quot_div_nonneg; lia. Qed.

Lemma div_step : forall a b, 0 <= a -> 0 < b -> (a + b) / b = a / b + 1.
Proof.
  intros a b Ha Hb. replace (a + b) with (a + 1 * b) by lia.
  rewrite Z.div_add by lia. reflexivity.
Qed.

Lemma div_small0 : forall a b, 0 <= a < b -> a / b = 0.
Proof. intros. apply Z.div_small; lia. Qed.

Lemma cdiv_pos : forall a b, 0 <= a -> 0 < b -> cdiv a b = Some (a / b).
Proof.
  intros a b Ha Hb. unfold cdiv. destruct (b =? 0) eqn:E; [lia|].
  rewrite quot_div by lia. reflexivity.
Qed.

Definition area (r : xywh) : Z := let '(_, _, w, h) := r in w * h.
Fixpoint sum_area (l : list xywh) : Z :=
  match l with [] => 0 | r :: t => area r + sum_area t end.

Lemma sum_area_app : forall a b, sum_area (a ++ b) = sum_area a + sum_area b.
Proof. induction a as [|r a IH]; intros; cbn [app sum_area]; [lia|]. rewrite IH. lia. Qed.

(* r lies inside the rectangle (X,Y,W,H) and is not degenerate *)
Definition inside (X Y W H : Z) (r : xywh) : Prop :=
  let '(x, y, w, h) := r in X <= x /\ Y <= y /\ 1 <= w /\ 1 <= h /\ x + w <= X + W /\ y + h <= Y + H.

Lemma inside_weaken : forall X Y W H X' Y' W' H' l,
  X' <= X -> Y' <= Y -> X + W <= X' + W' -> Y + H <= Y' + H' ->
  Forall (inside X Y W H) l -> Forall (inside X' Y' W' H') l.
Proof.
  intros. eapply Forall_impl; [|eassumption].
  intros [[[x y] w] h]; unfold inside; lia.
Qed.

(* ------------------------------------------------------------------ CoRRE *)
Lemma emit_corre_spec : forall mw mh, 1 <= mw -> 1 <= mh ->
  forall fuel x y w h, 1 <= w -> 1 <= h -> (Z.to_nat (w + h) < fuel)%nat ->
  exists l, emit_corre fuel mw mh x y w h = Some l /\
            Z.of_nat (length l) = ((w - 1) / mw + 1) * ((h - 1) / mh + 1) /\
            Forall (inside x y w h) l /\
            Forall (fun r => let '(_, _, w', h') := r in w' <= mw /\ h' <= mh) l /\
            sum_area l = w * h.
Proof.
  intros mw mh Hmw Hmh. induction fuel as [|f IH]; intros x y w h Hw Hh Hf; [lia|].
  cbn [emit_corre].
  destruct (h >? mh) eqn:E1.
  - destruct (IH x y w mh) as (la & Ea & La & Ia & Ma & Aa); [lia|lia|lia|].
    destruct (IH x (y + mh) w (h - mh)) as (lb & Eb & Lb & Ib & Mb & Ab); [lia|lia|lia|].
    rewrite Ea, Eb. exists (la ++ lb). split; [reflexivity|].
    split; [|split; [|split]].
    + rewrite app_length, Nat2Z.inj_add, La, Lb.
      rewrite (div_small0 (mh - 1) mh) by lia.
      replace (h - 1) with ((h - mh - 1) + mh) by lia.
      rewrite div_step by lia. lia.
    + apply Forall_app; split.
      * eapply inside_weaken; [| | | |exact Ia]; lia.
      * eapply inside_weaken; [| | | |exact Ib]; lia.
    + apply Forall_app; split; assumption.
    + rewrite sum_area_app, Aa, Ab. lia.
  - destruct (w >? mw) eqn:E2.
    + destruct (IH x y mw h) as (la & Ea & La & Ia & Ma & Aa); [lia|lia|lia|].
      destruct (IH (x + mw) y (w - mw) h) as (lb & Eb & Lb & Ib & Mb & Ab); [lia|lia|lia|].
      rewrite Ea, Eb. exists (la ++ lb). split; [reflexivity|].
      split; [|split; [|split]].
      * rewrite app_length, Nat2Z.inj_add, La, Lb.
        rewrite (div_small0 (mw - 1) mw) by lia.
        replace (w - 1) with ((w - mw - 1) + mw) by lia.
        rewrite div_step by lia. lia.
      * apply Forall_app; split.
        -- eapply inside_weaken; [| | | |exact Ia]; lia.
        -- eapply inside_weaken; [| | | |exact Ib]; lia.
      * apply Forall_app; split; assumption.
      * rewrite sum_area_app, Aa, Ab. lia.
    + exists [(x, y, w, h)]. split; [reflexivity|].
      rewrite (div_small0 (w - 1) mw) by lia. rewrite (div_small0 (h - 1) mh) by lia.
      split; [reflexivity|]. split; [|split].
      * constructor; [unfold inside; lia|constructor].
      * constructor; [lia|constructor].
      * cbn. lia.
Qed.

Lemma count_corre_emitted : forall mw mh x y w h, 1 <= mw -> 1 <= mh -> 1 <= w -> 1 <= h ->
  exists l, emit_corre (corre_fuel w h) mw mh x y w h = Some l /\
            count_corre mw mh w h = Some (Z.of_nat (length l)) /\
            Forall (inside x y w h) l /\ sum_area l = w * h.
Proof.
  intros mw mh x y w h Hmw Hmh Hw Hh.
  destruct (emit_corre_spec mw mh Hmw Hmh (corre_fuel w h) x y w h Hw Hh) as (l & E & L & I & _ & A).
  { unfold corre_fuel. lia. }
  exists l. split; [exact E|]. split; [|split; assumption].
  unfold count_corre. rewrite !cdiv_pos by lia. cbn [obind]. rewrite L. reflexivity.
Qed.

(* ------------------------------------------------------------------ Zlib / Ultra row loops *)
Lemma emit_rows_spec : forall ml, 1 <= ml ->
  forall fuel x y w rem, 0 <= rem -> 1 <= w -> (Z.to_nat rem < fuel)%nat ->
  exists l, emit_rows fuel ml x y w rem = Some l /\
            Z.of_nat (length l) = (if rem =? 0 then 0 else (rem - 1) / ml + 1) /\
            Forall (inside x y w rem) l /\
            Forall (fun r => let '(_, _, _, h') := r in h' <= ml) l /\
            sum_area l = w * rem.
Proof.
  intros ml Hml. induction fuel as [|f IH]; intros x y w rem Hrem Hw Hf; [lia|].
  cbn [emit_rows]. destruct (rem >? 0) eqn:E.
  - set (l0 := if ml <? rem then ml else rem).
    assert (Hl0 : 1 <= l0 <= rem /\ l0 <= ml) by (unfold l0; destruct (ml <? rem) eqn:?; lia).
    destruct (IH x (y + l0) w (rem - l0)) as (lb & Eb & Lb & Ib & Mb & Ab); [lia|lia|lia|].
    rewrite Eb. exists ((x, y, w, l0) :: lb). split; [reflexivity|].
    split; [|split; [|split]].
    + cbn [length]. rewrite Nat2Z.inj_succ, Lb.
      destruct (rem =? 0) eqn:R0; [lia|].
      destruct (rem - l0 =? 0) eqn:R1.
      * assert (rem <= ml) by (unfold l0 in *; destruct (ml <? rem) eqn:?; lia).
        rewrite (div_small0 (rem - 1) ml) by lia. lia.
      * assert (l0 = ml) by (unfold l0 in *; destruct (ml <? rem) eqn:?; lia).
        replace (rem - 1) with ((rem - l0 - 1) + ml) by lia.
        rewrite div_step by lia. lia.
    + constructor; [unfold inside; lia|].
      eapply inside_weaken; [| | | |exact Ib]; lia.
    + constructor; [lia|assumption].
    + cbn [sum_area area]. rewrite Ab. lia.
  - exists []. assert (rem = 0) by lia. subst rem. cbn. repeat split; try constructor; lia.
Qed.

Lemma max_size_ge : forall m w, 2 * w <= max_size m w.
Proof. intros. unfold max_size. destruct (w * 2 >? m) eqn:?; lia. Qed.

Lemma max_lines_ge2 : forall m w, 1 <= w -> exists ml, max_lines m w = Some ml /\ 2 <= ml.
Proof.
  intros m w Hw. unfold max_lines. pose proof (max_size_ge m w).
  rewrite cdiv_pos by lia. eexists; split; [reflexivity|].
  apply Z.div_le_lower_bound; lia.
Qed.

Lemma count_split_rows_emitted : forall m x y w h, 1 <= w -> 1 <= h ->
  exists l, emit_split_rows m x y w h = Some l /\
            count_split_rows m w h = Some (Z.of_nat (length l)) /\
            Forall (inside x y w h) l /\ sum_area l = w * h.
Proof.
  intros m x y w h Hw Hh. destruct (max_lines_ge2 m w Hw) as (ml & Eml & Hml).
  destruct (emit_rows_spec ml ltac:(lia) (rows_fuel h) x y w h) as (l & E & L & I & _ & A);
    [lia|lia|unfold rows_fuel; lia|].
  exists l. unfold emit_split_rows, count_split_rows. rewrite Eml. cbn [obind].
  split; [exact E|]. split; [|split; assumption].
  rewrite cdiv_pos by lia. cbn [obind]. rewrite L.
  destruct (h =? 0) eqn:?; [lia|reflexivity].
Qed.

(* the hand-mirrored macro agrees with the real macros at the regenerated sample points *)
Lemma zlib_macro_samples :
  max_size ZLIB_MAX_RECT_SIZE 1 = zlib_max_size_at_1 /\
  max_size ZLIB_MAX_RECT_SIZE 16384 = zlib_max_size_at_16384 /\
  max_size ZLIB_MAX_RECT_SIZE 16385 = zlib_max_size_at_16385 /\
  max_size ZLIB_MAX_RECT_SIZE 50000 = zlib_max_size_at_50000.
Proof. repeat split; reflexivity. Qed.

Lemma ultra_macro_samples :
  max_size ULTRA_MAX_RECT_SIZE 1 = ultra_max_size_at_1 /\
  max_size ULTRA_MAX_RECT_SIZE 16384 = ultra_max_size_at_16384 /\
  max_size ULTRA_MAX_RECT_SIZE 16385 = ultra_max_size_at_16385 /\
  max_size ULTRA_MAX_RECT_SIZE 50000 = ultra_max_size_at_50000.
Proof. repeat split; reflexivity. Qed.

(* ------------------------------------------------------------------ Tight *)
(* what the re-translated C function computes, in terms of the regenerated constants; proved
   by unfolding both: breaks if tight.c's count uses other constants than its emission *)
Lemma num_coded_spec : forall l x y w h,
  rfbNumCodedRectsTight l x y w h =
  if negb (l =? 0) && (MIN_SPLIT_RECT_SIZE <=? w * h) then 0
  else if (TIGHT_MAX_RECT_WIDTH <? w) || (TIGHT_MAX_RECT_SIZE <? w * h) then
    (Z.quot (w - 1) TIGHT_MAX_RECT_WIDTH + 1) *
    (Z.quot (h - 1) (Z.quot TIGHT_MAX_RECT_SIZE (if TIGHT_MAX_RECT_WIDTH <? w then TIGHT_MAX_RECT_WIDTH else w)) + 1)
  else 1.
Proof. intros. reflexivity. Qed.

Lemma tmw_pos : 1 <= TIGHT_MAX_RECT_WIDTH. Proof. discriminate. Qed.
Lemma tmw_le_tms : TIGHT_MAX_RECT_WIDTH <= TIGHT_MAX_RECT_SIZE. Proof. discriminate. Qed.

Lemma tight_cols_spec : forall fuel x y w dy rh dx, 1 <= rh -> 0 <= dx -> 0 <= dy ->
  (Z.to_nat (w - dx) < fuel)%nat ->
  exists l, tight_cols fuel x y w dy rh dx = Some l /\
            Z.of_nat (length l) = (if dx <? w then (w - dx - 1) / TIGHT_MAX_RECT_WIDTH + 1 else 0) /\
            Forall (inside (x + dx) (y + dy) (w - dx) rh) l /\
            sum_area l = (if dx <? w then (w - dx) * rh else 0).
Proof.
  pose proof tmw_pos as HT.
  induction fuel as [|f IH]; intros x y w dy rh dx Hrh Hdx Hdy Hf; [lia|].
  cbn [tight_cols]. destruct (dx <? w) eqn:E.
  - set (rw := if dx + TIGHT_MAX_RECT_WIDTH <? w then TIGHT_MAX_RECT_WIDTH else w - dx).
    destruct (IH x y w dy rh (dx + TIGHT_MAX_RECT_WIDTH)) as (lb & Eb & Lb & Ib & Ab); [lia|lia|lia|lia|].
    rewrite Eb. eexists; split; [reflexivity|]. split; [|split].
    + cbn [length]. rewrite Nat2Z.inj_succ, Lb.
      destruct (dx + TIGHT_MAX_RECT_WIDTH <? w) eqn:E2.
      * replace (w - dx - 1) with ((w - (dx + TIGHT_MAX_RECT_WIDTH) - 1) + TIGHT_MAX_RECT_WIDTH) by lia.
        rewrite div_step by lia. lia.
      * rewrite (div_small0 (w - dx - 1)) by lia. lia.
    + constructor.
      * unfold inside, rw. destruct (dx + TIGHT_MAX_RECT_WIDTH <? w) eqn:?; lia.
      * destruct (dx + TIGHT_MAX_RECT_WIDTH <? w) eqn:E2.
        -- eapply inside_weaken; [| | | |exact Ib]; lia.
        -- destruct lb; [constructor|]. cbn [length] in Lb. lia.
    + cbn [sum_area area]. rewrite Ab. unfold rw.
      destruct (dx + TIGHT_MAX_RECT_WIDTH <? w) eqn:?; lia.
  - exists []. repeat split; constructor.
Qed.

Lemma tight_rows_spec : forall smh, 1 <= smh -> forall fuel x y w h dy, 1 <= w -> 0 <= dy ->
  (Z.to_nat (h - dy) < fuel)%nat ->
  exists l, tight_rows fuel smh x y w h dy = Some l /\
            Z.of_nat (length l) =
              (if dy <? h then ((w - 1) / TIGHT_MAX_RECT_WIDTH + 1) * ((h - dy - 1) / smh + 1) else 0) /\
            Forall (inside x (y + dy) w (h - dy)) l /\
            sum_area l = (if dy <? h then w * (h - dy) else 0).
Proof.
  intros smh Hs. induction fuel as [|f IH]; intros x y w h dy Hw Hdy Hf; [lia|].
  cbn [tight_rows]. destruct (dy <? h) eqn:E.
  - set (rh := if dy + smh <? h then smh else h - dy).
    assert (Hrh : 1 <= rh) by (unfold rh; destruct (dy + smh <? h) eqn:?; lia).
    destruct (tight_cols_spec (rows_fuel w) x y w dy rh 0) as (la & Ea & La & Ia & Aa);
      [lia|lia|lia|unfold rows_fuel; lia|].
    destruct (IH x y w h (dy + smh)) as (lb & Eb & Lb & Ib & Ab); [lia|lia|lia|].
    rewrite Ea, Eb. eexists; split; [reflexivity|]. split; [|split].
    + rewrite app_length, Nat2Z.inj_add, La, Lb.
      destruct (0 <? w) eqn:?; [|lia]. replace (w - 0 - 1) with (w - 1) by lia.
      destruct (dy + smh <? h) eqn:E2.
      * replace (h - dy - 1) with ((h - (dy + smh) - 1) + smh) by lia.
        rewrite div_step by lia. lia.
      * rewrite (div_small0 (h - dy - 1)) by lia. lia.
    + apply Forall_app; split.
      * eapply inside_weaken; [| | | |exact Ia]; unfold rh; destruct (dy + smh <? h) eqn:?; lia.
      * destruct (dy + smh <? h) eqn:E2.
        -- eapply inside_weaken; [| | | |exact Ib]; lia.
        -- destruct lb; [constructor|]. cbn [length] in Lb. lia.
    + rewrite sum_area_app, Aa, Ab. destruct (0 <? w) eqn:?; [|lia].
      unfold rh. destruct (dy + smh <? h) eqn:?; lia.
  - exists []. repeat split; constructor.
Qed.

Lemma count_tight_simple_emitted : forall lastrect x y w h, 1 <= w -> 1 <= h ->
  tight_uses_simple lastrect w h = true ->
  exists l, emit_tight_simple x y w h = Some l /\
            count_tight lastrect x y w h = Z.of_nat (length l) /\
            Forall (inside x y w h) l /\ sum_area l = w * h.
Proof.
  intros lastrect x y w h Hw Hh Hs. pose proof tmw_pos as HT. pose proof tmw_le_tms as HTS.
  unfold count_tight. rewrite num_coded_spec.
  assert (G : negb (b2z lastrect =? 0) && (MIN_SPLIT_RECT_SIZE <=? w * h) = false).
  { unfold tight_uses_simple, b2z in *. destruct lastrect; cbn in *; lia. }
  rewrite G. unfold emit_tight_simple.
  replace (w >? TIGHT_MAX_RECT_WIDTH) with (TIGHT_MAX_RECT_WIDTH <? w) by lia.
  replace (w * h >? TIGHT_MAX_RECT_SIZE) with (TIGHT_MAX_RECT_SIZE <? w * h) by lia.
  destruct ((TIGHT_MAX_RECT_WIDTH <? w) || (TIGHT_MAX_RECT_SIZE <? w * h)) eqn:E.
  - set (smw := if TIGHT_MAX_RECT_WIDTH <? w then TIGHT_MAX_RECT_WIDTH else w).
    assert (Hsmw : 1 <= smw <= TIGHT_MAX_RECT_SIZE).
    { unfold smw. destruct (TIGHT_MAX_RECT_WIDTH <? w) eqn:?; [lia|].
      split; [lia|]. destruct (TIGHT_MAX_RECT_SIZE <? w * h) eqn:?; [nia|]. cbn in E. lia. }
    rewrite cdiv_pos by lia. cbn [obind].
    assert (Hsmh : 1 <= TIGHT_MAX_RECT_SIZE / smw) by (apply Z.div_le_lower_bound; lia).
    destruct (tight_rows_spec _ Hsmh (rows_fuel h) x y w h 0) as (l & El & Ll & Il & Al);
      [lia|lia|unfold rows_fuel; lia|].
    exists l. split; [exact El|]. split; [|split].
    + rewrite Ll. destruct (0 <? h) eqn:?; [|lia].
      fold smw. rewrite (quot_div TIGHT_MAX_RECT_SIZE smw) by lia.
      rewrite !quot_div by lia. replace (h - 0 - 1) with (h - 1) by lia. reflexivity.
    + eapply inside_weaken; [| | | |exact Il]; lia.
    + rewrite Al. destruct (0 <? h) eqn:?; lia.
  - exists [(x, y, w, h)]. split; [reflexivity|]. split; [reflexivity|]. split.
    + constructor; [unfold inside; lia|constructor].
    + cbn. lia.
Qed.

(* count 0 ("unknown") exactly when the data-dependent split is used; that needs LastRect *)
Lemma count_tight_zero_iff : forall lastrect x y w h, 1 <= w -> 1 <= h ->
  (count_tight lastrect x y w h = 0 <-> tight_uses_simple lastrect w h = false).
Proof.
  intros lastrect x y w h Hw Hh. split.
  - intro H0. destruct (tight_uses_simple lastrect w h) eqn:E; [|reflexivity].
    destruct (count_tight_simple_emitted lastrect x y w h Hw Hh E) as (l & El & Cl & Il & Al).
    rewrite H0 in Cl. destruct l; [|cbn [length] in Cl; lia]. cbn in Al. nia.
  - intro Hs. unfold count_tight. rewrite num_coded_spec.
    unfold tight_uses_simple, b2z in *. destruct lastrect; cbn in *; [|discriminate].
    destruct (MIN_SPLIT_RECT_SIZE <=? w * h) eqn:?; [reflexivity|lia].
Qed.

Lemma tight_unknown_needs_lastrect : forall lastrect w h,
  tight_uses_simple lastrect w h = false -> lastrect = true.
Proof. intros [] w h; cbn; [reflexivity|discriminate]. Qed.

(* ------------------------------------------------------------------ one region rectangle *)
Definition nondeg (r : xywh) : Prop := let '(_, _, w, h) := r in 1 <= w /\ 1 <= h.

Definition rect_count (pref : Z) (lastrect : bool) (cmw cmh : Z) (r : xywh) : option Z :=
  let '(x, y, w, h) := r in
  match classify pref with
  | EcCoRRE => count_corre cmw cmh w h
  | EcUltra => count_ultra w h
  | EcZlib => count_zlib w h
  | EcTight | EcTightPng => Some (count_tight lastrect x y w h)
  | EcOther => Some 1
  end.

Definition inside_r (R : xywh) (r : xywh) : Prop := let '(X, Y, W, H) := R in inside X Y W H r.

(* the per-rectangle theorem covering every encoding *)
Lemma emit_rect_count : forall pref lastrect cmw cmh r, 1 <= cmw -> 1 <= cmh -> nondeg r ->
  match emit_rect pref lastrect cmw cmh r with
  | EmKnown l => rect_count pref lastrect cmw cmh r = Some (Z.of_nat (length l)) /\
                 (1 <= length l)%nat /\ Forall (inside_r r) l /\ sum_area l = area r
  | EmData r' => r' = r /\ lastrect = true /\ (classify pref = EcTight \/ classify pref = EcTightPng) /\
                 rect_count pref lastrect cmw cmh r = Some 0
  | EmTrap => False
  end.
Proof.
  intros pref lastrect cmw cmh [[[x y] w] h] Hcw Hch Hr. cbn in Hr. destruct Hr as [Hw Hh].
  unfold emit_rect, rect_count. destruct (classify pref) eqn:Ec.
  - destruct (count_corre_emitted cmw cmh x y w h) as (l & E & C & I & A); try lia.
    rewrite E. cbn [of_opt]. repeat split; try assumption.
    destruct l; [cbn in A; nia|cbn; lia].
  - destruct (count_split_rows_emitted ULTRA_MAX_RECT_SIZE x y w h) as (l & E & C & I & A); try lia.
    unfold emit_ultra, count_ultra. rewrite E. cbn [of_opt]. repeat split; try assumption.
    destruct l; [cbn in A; nia|cbn; lia].
  - destruct (count_split_rows_emitted ZLIB_MAX_RECT_SIZE x y w h) as (l & E & C & I & A); try lia.
    unfold emit_zlib, count_zlib. rewrite E. cbn [of_opt]. repeat split; try assumption.
    destruct l; [cbn in A; nia|cbn; lia].
  - destruct (tight_uses_simple lastrect w h) eqn:Es.
    + destruct (count_tight_simple_emitted lastrect x y w h Hw Hh Es) as (l & E & C & I & A).
      rewrite E. cbn [of_opt]. repeat split; try assumption; [congruence|].
      destruct l; [cbn in A; nia|cbn; lia].
    + split; [reflexivity|]. split; [eapply tight_unknown_needs_lastrect; eassumption|].
      split; [left; reflexivity|]. f_equal. apply count_tight_zero_iff; assumption.
  - destruct (tight_uses_simple lastrect w h) eqn:Es.
    + destruct (count_tight_simple_emitted lastrect x y w h Hw Hh Es) as (l & E & C & I & A).
      rewrite E. cbn [of_opt]. repeat split; try assumption; [congruence|].
      destruct l; [cbn in A; nia|cbn; lia].
    + split; [reflexivity|]. split; [eapply tight_unknown_needs_lastrect; eassumption|].
      split; [right; reflexivity|]. f_equal. apply count_tight_zero_iff; assumption.
  - assert (K : forall l, l = [(x, y, w, h)] ->
              Some 1 = Some (Z.of_nat (length l)) /\ (1 <= length l)%nat /\
              Forall (inside_r (x, y, w, h)) l /\ sum_area l = area (x, y, w, h)).
    { intros l ->. split; [reflexivity|]. split; [cbn; lia|]. split; [|cbn; lia].
      constructor; [cbn; lia|constructor]. }
    destruct ((pref =? enc_Raw) || (pref =? -1)) eqn:?.
    + apply K. unfold emit_raw. destruct ((h =? 0) || (w =? 0)) eqn:?; [lia|reflexivity].
    + apply K. reflexivity.
Qed.

(* ------------------------------------------------------------------ a whole update *)
Fixpoint sum_exact (pref : Z) (lastrect : bool) (cmw cmh : Z) (l : list xywh) : option Z :=
  match l with
  | [] => Some 0
  | r :: t => obind (rect_count pref lastrect cmw cmh r) (fun n =>
              obind (sum_exact pref lastrect cmw cmh t) (fun m => Some (n + m)))
  end.

Lemma emitted_len_sum : forall pref lastrect cmw cmh region k, 1 <= cmw -> 1 <= cmh ->
  Forall nondeg region ->
  emitted_len (emit_region pref lastrect cmw cmh region) = Some k ->
  sum_exact pref lastrect cmw cmh region = Some k /\ Z.of_nat (length region) <= k /\
  Forall (fun r => rect_count pref lastrect cmw cmh r <> Some 0) region.
Proof.
  intros pref lastrect cmw cmh region. induction region as [|r t IH]; intros k Hcw Hch Hnd Hk.
  - cbn in *. inversion Hk. repeat split; [lia|constructor].
  - inversion Hnd as [|? ? Hr Ht]; subst. cbn [emit_region emitted_len] in Hk.
    pose proof (emit_rect_count pref lastrect cmw cmh r Hcw Hch Hr) as Hrc.
    destruct (emit_rect pref lastrect cmw cmh r) as [l| |]; try discriminate.
    destruct Hrc as (C & L1 & _ & _).
    destruct (emitted_len (emit_region pref lastrect cmw cmh t)) as [kt|] eqn:Et; [|discriminate].
    cbn [obind] in Hk. inversion Hk; subst k.
    destruct (IH kt Hcw Hch Ht eq_refl) as (S1 & S2 & S3).
    cbn [sum_exact length]. rewrite C, S1. cbn [obind]. repeat split; [lia|].
    constructor; [rewrite C; intro Q; inversion Q; lia|assumption].
Qed.

Lemma sum_counts_acc : forall f l acc,
  sum_counts f l acc = obind (sum_counts f l 0) (fun s => Some (acc + s)).
Proof.
  intros f. induction l as [|r t IH]; intros acc; cbn [sum_counts obind]; [f_equal; lia|].
  destruct (f r) as [n|]; cbn [obind]; [|reflexivity].
  rewrite (IH (acc + n)), (IH (0 + n)).
  destruct (sum_counts f t 0); cbn [obind]; [f_equal; lia|reflexivity].
Qed.

Lemma sum_tight_exact : forall lastrect l acc s,
  Forall (fun '(x, y, w, h) => count_tight lastrect x y w h <> 0) l ->
  sum_exact enc_Tight lastrect 1 1 l = Some s ->
  sum_tight lastrect l acc = acc + s.
Proof.
  intros lastrect. induction l as [|[[[x y] w] h] t IH]; intros acc s Hnz Hs.
  - cbn in *. inversion Hs. lia.
  - inversion Hnz as [|? ? H1 H2]; subst. cbn [sum_tight].
    destruct (count_tight lastrect x y w h =? 0) eqn:E; [lia|].
    cbn [sum_exact rect_count] in Hs. change (classify enc_Tight) with EcTight in Hs. cbn [obind] in Hs.
    destruct (sum_exact enc_Tight lastrect 1 1 t) as [m|] eqn:Em; [|discriminate].
    cbn [obind] in Hs. inversion Hs; subst s. rewrite (IH _ m H2 eq_refl). lia.
Qed.

(* n_region_rects computes the exact sum whenever no rectangle is "unknown" *)
Lemma n_region_exact : forall pref lastrect cmw cmh region s,
  sum_exact pref lastrect cmw cmh region = Some s ->
  Forall (fun r => rect_count pref lastrect cmw cmh r <> Some 0) region ->
  n_region_rects pref lastrect cmw cmh region = Some s.
Proof.
  intros pref lastrect cmw cmh region. unfold n_region_rects.
  assert (G : forall f, (forall r, rect_count pref lastrect cmw cmh r = f r) ->
              forall l s, sum_exact pref lastrect cmw cmh l = Some s -> sum_counts f l 0 = Some s).
  { intros f Hf. induction l as [|r t IH]; intros s Hs; cbn [sum_exact sum_counts] in *; [assumption|].
    rewrite <- Hf. destruct (rect_count pref lastrect cmw cmh r) as [n|]; [|discriminate]. cbn [obind] in *.
    destruct (sum_exact pref lastrect cmw cmh t) as [m|]; [|discriminate]. cbn [obind] in Hs.
    rewrite sum_counts_acc, (IH m eq_refl). cbn [obind]. inversion Hs. f_equal; lia. }
  destruct (classify pref) eqn:Ec; intros s Hs Hnz.
  - apply G; [|assumption]. intros [[[x y] w] h]. unfold rect_count. rewrite Ec. reflexivity.
  - apply G; [|assumption]. intros [[[x y] w] h]. unfold rect_count. rewrite Ec. reflexivity.
  - apply G; [|assumption]. intros [[[x y] w] h]. unfold rect_count. rewrite Ec. reflexivity.
  - f_equal. replace s with (0 + s) by lia.
    assert (T : forall l s0, sum_exact pref lastrect cmw cmh l = Some s0 ->
                Forall (fun r => rect_count pref lastrect cmw cmh r <> Some 0) l ->
                forall acc, sum_tight lastrect l acc = acc + s0).
    { induction l as [|[[[x y] w] h] t IH]; intros s0 Hs0 Hz acc.
      - cbn in *. inversion Hs0. lia.
      - inversion Hz as [|? ? H1 H2]; subst. cbn [sum_tight]. cbn [sum_exact] in Hs0.
        unfold rect_count in Hs0, H1. rewrite Ec in Hs0, H1. cbn [obind] in Hs0.
        destruct (count_tight lastrect x y w h =? 0) eqn:E; [exfalso; apply H1; f_equal; lia|].
        destruct (sum_exact pref lastrect cmw cmh t) as [m|] eqn:Em; [|discriminate].
        cbn [obind] in Hs0. inversion Hs0; subst s0. rewrite (IH m eq_refl H2). lia. }
    apply T; assumption.
  - f_equal. replace s with (0 + s) by lia.
    assert (T : forall l s0, sum_exact pref lastrect cmw cmh l = Some s0 ->
                Forall (fun r => rect_count pref lastrect cmw cmh r <> Some 0) l ->
                forall acc, sum_tight lastrect l acc = acc + s0).
    { induction l as [|[[[x y] w] h] t IH]; intros s0 Hs0 Hz acc.
      - cbn in *. inversion Hs0. lia.
      - inversion Hz as [|? ? H1 H2]; subst. cbn [sum_tight]. cbn [sum_exact] in Hs0.
        unfold rect_count in Hs0, H1. rewrite Ec in Hs0, H1. cbn [obind] in Hs0.
        destruct (count_tight lastrect x y w h =? 0) eqn:E; [exfalso; apply H1; f_equal; lia|].
        destruct (sum_exact pref lastrect cmw cmh t) as [m|] eqn:Em; [|discriminate].
        cbn [obind] in Hs0. inversion Hs0; subst s0. rewrite (IH m eq_refl H2). lia. }
    apply T; assumption.
  - f_equal. clear Hnz. revert s Hs. induction region as [|[[[x y] w] h] t IH]; intros s Hs.
    + cbn in *. inversion Hs. reflexivity.
    + cbn [sum_exact] in Hs. unfold rect_count in Hs at 1. rewrite Ec in Hs. cbn [obind] in Hs.
      destruct (sum_exact pref lastrect cmw cmh t) as [m|]; [|discriminate]. cbn [obind] in Hs.
      assert (Hs' : s = 1 + m) by congruence. subst s. clear Hs. cbn [length]. rewrite Nat2Z.inj_succ, (IH m eq_refl). lia.
Qed.

Lemma bbox_nondeg : forall r t, nondeg r -> Forall nondeg t -> nondeg (bbox_of (r :: t)).
Proof.
  intros [[[x y] w] h] t Hr Ht. cbn in Hr. destruct Hr as [Hw Hh]. unfold bbox_of.
  assert (G : forall l x1 y1 x2 y2, Forall nondeg l -> x1 + 1 <= x2 -> y1 + 1 <= y2 ->
              let '(a, b, c, d) := fold_left bbox_step l (x1, y1, x2, y2) in
              a + 1 <= c /\ b + 1 <= d).
  { induction l as [|[[[x' y'] w'] h'] l IH]; intros x1 y1 x2 y2 Hl H1 H2; cbn [fold_left bbox_step]; [lia|].
    inversion Hl as [|? ? Hr' Hl']; subst. cbn in Hr'. apply IH; [assumption|lia|lia]. }
  specialize (G t x y (x + w) (y + h) Ht ltac:(lia) ltac:(lia)).
  destruct (fold_left bbox_step t (x, y, x + w, y + h)) as [[[a b] c] d]. unfold nondeg. lia.
Qed.

(* C03_update_count: the announced count is the number of rectangle headers that follow *)
Lemma update_count : forall pref lastrect cmw cmh maxrects region ncopy npseudo n region' lm k,
  1 <= cmw -> 1 <= cmh -> Forall nondeg region -> 0 <= ncopy -> 0 <= npseudo ->
  announce pref lastrect cmw cmh maxrects region ncopy npseudo = Some (n, region', lm) ->
  emitted_len (emit_region pref lastrect cmw cmh region) = Some k ->
  k <> 65535 ->
  exists k', emitted_len (emit_region pref lastrect cmw cmh region') = Some k' /\
             (ncopy + k' + npseudo < 65536 -> n = ncopy + k' + npseudo) /\ lm = false /\ 1 <= k' + b2z (k =? 0) /\ k' <= k.
Proof.
  intros pref lastrect cmw cmh maxrects region ncopy npseudo n region' lm k
         Hcw Hch Hnd Hnc Hnp Ha Hk Hk5.
  destruct (emitted_len_sum _ _ _ _ _ _ Hcw Hch Hnd Hk) as (S1 & S2 & S3).
  pose proof (n_region_exact _ _ _ _ _ _ S1 S3) as Hn.
  unfold announce in Ha. rewrite Hn in Ha. cbn [obind] in Ha.
  destruct (k =? 65535) eqn:E5; [lia|].
  destruct ((maxrects >? 0) && negb (exempt_from_coalescing pref) && (k >? maxrects)) eqn:Eco.
  - inversion Ha; subst n region' lm.
    destruct region as [|r t]; [cbn in Hk; inversion Hk; lia|].
    inversion Hnd as [|? ? Hr Ht]; subst.
    pose proof (bbox_nondeg r t Hr Ht) as Hb.
    pose proof (emit_rect_count pref lastrect cmw cmh (bbox_of (r :: t)) Hcw Hch Hb) as Hrc.
    assert (Ec : classify pref = EcOther).
    { unfold exempt_from_coalescing in Eco. destruct (classify pref); cbn in Eco; try lia; reflexivity. }
    cbn [bbox_region emit_region emitted_len]. unfold emit_rect in *. destruct (bbox_of (r :: t)) as [[[bx by_] bw] bh].
    rewrite Ec in *.
    destruct ((pref =? enc_Raw) || (pref =? -1)) eqn:?.
    + unfold emit_raw in *. destruct Hb. destruct ((bh =? 0) || (bw =? 0)) eqn:?; [lia|].
      exists 1. split; [reflexivity|]. split; [intro; unfold wrap16; rewrite Z.mod_small; lia|]. split; [reflexivity|].
      cbn [length] in S2. unfold b2z. destruct (k =? 0) eqn:?; lia.
    + exists 1. split; [reflexivity|]. split; [intro; unfold wrap16; rewrite Z.mod_small; lia|]. split; [reflexivity|].
      cbn [length] in S2. unfold b2z. destruct (k =? 0) eqn:?; lia.
  - inversion Ha; subst n region' lm. exists k. split; [assumption|].
    split; [intro; unfold wrap16; rewrite Z.mod_small; lia|]. split; [reflexivity|].
    unfold b2z. destruct (k =? 0) eqn:?; lia.
Qed.

(* LastRect mode is entered only with the capability -- or by the 65535 collision (F5) *)
Lemma lastrect_mode : forall pref lastrect cmw cmh maxrects region ncopy npseudo n region',
  1 <= cmw -> 1 <= cmh -> Forall nondeg region ->
  announce pref lastrect cmw cmh maxrects region ncopy npseudo = Some (n, region', true) ->
  n = 65535 /\ region' = region /\
  ((lastrect = true /\ (classify pref = EcTight \/ classify pref = EcTightPng)) \/
   emitted_len (emit_region pref lastrect cmw cmh region) = Some 65535).
Proof.
  intros pref lastrect cmw cmh maxrects region ncopy npseudo n region' Hcw Hch Hnd Ha.
  unfold announce in Ha.
  destruct (n_region_rects pref lastrect cmw cmh region) as [m|] eqn:En; [|discriminate].
  cbn [obind] in Ha. destruct (m =? 65535) eqn:E5.
  2:{ destruct ((maxrects >? 0) && negb (exempt_from_coalescing pref) && (m >? maxrects)); inversion Ha. }
  injection Ha as Hn1 Hr1. subst n region'. split; [reflexivity|]. split; [reflexivity|].
  destruct (emitted_len (emit_region pref lastrect cmw cmh region)) as [k|] eqn:Ek.
  - right. destruct (emitted_len_sum _ _ _ _ _ _ Hcw Hch Hnd Ek) as (S1 & S2 & S3).
    rewrite (n_region_exact _ _ _ _ _ _ S1 S3) in En. inversion En. f_equal. lia.
  - left. clear En E5. induction region as [|r t IH]; [discriminate|].
    inversion Hnd as [|? ? Hr Ht]; subst. cbn [emit_region emitted_len] in Ek.
    pose proof (emit_rect_count pref lastrect cmw cmh r Hcw Hch Hr) as Hrc.
    destruct (emit_rect pref lastrect cmw cmh r) as [l|r'|]; [| |contradiction].
    + destruct (emitted_len (emit_region pref lastrect cmw cmh t)); [discriminate|]. apply IH; auto.
    + destruct Hrc as (_ & L & C & _). auto.
Qed.

(* every emitted rectangle lies inside its region rectangle (all encodings) *)
Lemma emit_region_inside : forall pref lastrect cmw cmh region, 1 <= cmw -> 1 <= cmh ->
  Forall nondeg region ->
  Forall2 (fun r e => match e with
                      | EmKnown l => Forall (inside_r r) l /\ sum_area l = area r
                      | EmData r' => r' = r
                      | EmTrap => False end)
          region (emit_region pref lastrect cmw cmh region).
Proof.
  intros pref lastrect cmw cmh region Hcw Hch. induction region as [|r t IH]; intros Hnd; cbn [emit_region].
  - constructor.
  - inversion Hnd as [|? ? Hr Ht]; subst. constructor; [|auto].
    pose proof (emit_rect_count pref lastrect cmw cmh r Hcw Hch Hr) as Hrc.
    destruct (emit_rect pref lastrect cmw cmh r); [tauto|tauto|contradiction].
Qed.

(* ------------------------------------------------------------------ refutations (witnesses) *)
(* F4: a degenerate region rectangle (zero-width request) is counted but Raw sends nothing *)
Lemma zero_dim_witness :
  announce enc_Raw false 48 48 50 [(5, 5, 0, 3)] 0 0 = Some (1, [(5, 5, 0, 3)], false) /\
  emitted_len (emit_region enc_Raw false 48 48 [(5, 5, 0, 3)]) = Some 0.
Proof. split; reflexivity. Qed.

(* F4 variant: with Zlib / Ultra the count computation divides by zero *)
Lemma zero_width_trap_witness :
  announce enc_Zlib false 48 48 50 [(5, 5, 0, 3)] 0 0 = None /\
  announce enc_Ultra false 48 48 50 [(5, 5, 0, 3)] 0 0 = None.
Proof. split; reflexivity. Qed.

(* F5: 65536 one-pixel rectangles with coalescing off announce 0; 65535 announce the LastRect
   sentinel although the client never enabled LastRect *)
Lemma unit_region_len : forall n,
  emitted_len (emit_region enc_Raw false 48 48 (repeat (0, 0, 1, 1) n)) = Some (Z.of_nat n).
Proof.
  induction n as [|n IH]; [reflexivity|]. cbn [repeat emit_region emitted_len].
  change (emit_rect enc_Raw false 48 48 (0, 0, 1, 1)) with (EmKnown [(0, 0, 1, 1)]).
  rewrite IH. cbn [obind length]. f_equal. lia.
Qed.

Lemma unit_region_announce : forall m, 0 <= m ->
  announce enc_Raw false 48 48 0 (repeat (0, 0, 1, 1) (Z.to_nat m)) 0 0 =
  if m =? 65535 then Some (65535, repeat (0, 0, 1, 1) (Z.to_nat m), true)
  else Some (wrap16 (0 + m + 0), repeat (0, 0, 1, 1) (Z.to_nat m), false).
Proof.
  intros m Hm. unfold announce, n_region_rects. change (classify enc_Raw) with EcOther.
  cbn [obind]. rewrite repeat_length, Z2Nat.id by lia.
  change (0 >? 0) with false. cbn [andb]. reflexivity.
Qed.

Lemma count_wrap_witness :
  let region := repeat (0, 0, 1, 1) (Z.to_nat 65536) in
  (exists r', announce enc_Raw false 48 48 0 region 0 0 = Some (0, r', false)) /\
  emitted_len (emit_region enc_Raw false 48 48 region) = Some 65536.
Proof.
  cbv zeta. split.
  - eexists. rewrite unit_region_announce by lia. reflexivity.
  - rewrite unit_region_len, Z2Nat.id by lia. reflexivity.
Qed.

Lemma count_sentinel_witness :
  let region := repeat (0, 0, 1, 1) (Z.to_nat 65535) in
  (exists r', announce enc_Raw false 48 48 0 region 0 0 = Some (65535, r', true)) /\
  emitted_len (emit_region enc_Raw false 48 48 region) = Some 65535.
Proof.
  cbv zeta. split.
  - eexists. rewrite unit_region_announce by lia. reflexivity.
  - rewrite unit_region_len, Z2Nat.id by lia. reflexivity.
Qed.

(* F6 repaired (e68aae9): with the flush, no write of rfbSendCopyRegion leaves updateBuf, for any
   number of copy rectangles and any starting fill level *)
Lemma copy_rect_bytes_fit : 0 < copy_rect_bytes <= UPDATE_BUF_SIZE.
Proof. split; [reflexivity|discriminate]. Qed.

Lemma copy_peak_inside : forall n u, 0 <= u <= UPDATE_BUF_SIZE ->
  0 <= copy_peak n u <= UPDATE_BUF_SIZE /\ 0 <= copy_ublen n u <= UPDATE_BUF_SIZE.
Proof.
  pose proof copy_rect_bytes_fit as F.
  induction n as [|k IH]; intros u Hu; cbn [copy_peak copy_ublen]; [lia|].
  set (v := (if u + copy_rect_bytes >? UPDATE_BUF_SIZE then 0 else u) + copy_rect_bytes).
  assert (Hv : 0 <= v <= UPDATE_BUF_SIZE) by (unfold v; destruct (u + copy_rect_bytes >? UPDATE_BUF_SIZE) eqn:?; lia).
  destruct (IH v Hv) as [P Q]. split; [lia|exact Q].
Qed.

Lemma copy_peak_example :
  copy_peak (Z.to_nat 2080) sz_FramebufferUpdateMsg = 32756 /\ copy_ublen (Z.to_nat 2080) sz_FramebufferUpdateMsg = 528.
Proof. split; vm_compute; reflexivity. Qed.

(* ------------------------------------------------------------------ the repaired count stage (F5) *)
Lemma tight_known_emitted : forall pref lastrect cmw cmh region, 1 <= cmw -> 1 <= cmh -> Forall nondeg region ->
  tight_unknown pref lastrect region = false ->
  exists k, emitted_len (emit_region pref lastrect cmw cmh region) = Some k /\
            n_region_rects pref lastrect cmw cmh region = Some k /\ Z.of_nat (length region) <= k.
Proof.
  intros pref lastrect cmw cmh region Hcw Hch Hnd Hu.
  assert (E : exists k, emitted_len (emit_region pref lastrect cmw cmh region) = Some k).
  { induction region as [|r t IH]; [exists 0; reflexivity|].
    inversion Hnd as [|? ? Hr Ht]; subst. cbn [emit_region emitted_len].
    assert (Hu' : tight_unknown pref lastrect t = false).
    { unfold tight_unknown in *. destruct (is_tight_class pref); [|reflexivity]. cbn [andb existsb] in *.
      apply orb_false_iff in Hu. tauto. }
    destruct (IH Ht Hu') as [kt Ekt]. rewrite Ekt.
    pose proof (emit_rect_count pref lastrect cmw cmh r Hcw Hch Hr) as Hrc.
    destruct (emit_rect pref lastrect cmw cmh r) as [l|r'|]; [eexists; reflexivity| |contradiction].
    exfalso. destruct Hrc as (-> & _ & Hc & Hz). destruct r as [[[x y] w] h].
    unfold tight_unknown, is_tight_class in Hu. unfold rect_count in Hz.
    destruct Hc as [Hc|Hc]; rewrite Hc in *; cbn [andb existsb] in Hu; apply orb_false_iff in Hu;
      destruct Hu as [Hu _]; inversion Hz as [Hz']; rewrite Hz' in Hu; discriminate. }
  destruct E as [k Ek]. exists k. split; [exact Ek|].
  destruct (emitted_len_sum _ _ _ _ _ _ Hcw Hch Hnd Ek) as (S1 & S2 & S3).
  split; [apply (n_region_exact _ _ _ _ _ _ S1 S3)|exact S2].
Qed.

Lemma tight_unknown_lastrect : forall pref lastrect region, Forall nondeg region ->
  tight_unknown pref lastrect region = true -> lastrect = true /\ is_tight_class pref = true.
Proof.
  intros pref lastrect region Hnd Hu. unfold tight_unknown in Hu. apply andb_true_iff in Hu. destruct Hu as [Ht Hex].
  split; [|exact Ht]. apply existsb_exists in Hex. destruct Hex as ([[[x y] w] h] & Hin & Hz).
  rewrite Forall_forall in Hnd. specialize (Hnd _ Hin). cbn in Hnd. destruct Hnd as [Hw Hh].
  apply (tight_unknown_needs_lastrect lastrect w h). apply (count_tight_zero_iff lastrect x y w h Hw Hh). lia.
Qed.

Lemma bbox_region_nondeg : forall l, Forall nondeg l -> Forall nondeg (bbox_region l).
Proof.
  intros [|r t] H; cbn [bbox_region]; [constructor|]. inversion H; subst.
  constructor; [apply bbox_nondeg; assumption|constructor].
Qed.

Lemma finish_is_announce : forall pref lastrect cmw cmh maxrects npseudo region1 k1 nc keep,
  n_region_rects pref lastrect cmw cmh region1 = Some k1 -> k1 <> 65535 ->
  finish_count pref maxrects npseudo region1 k1 false nc keep =
  match announce pref lastrect cmw cmh maxrects region1 nc npseudo with
  | Some (n, r, lm) => Some (n, r, lm, keep)
  | None => None
  end.
Proof.
  intros. unfold finish_count, announce. rewrite H. cbn [obind]. destruct (k1 =? 65535) eqn:E; [lia|].
  destruct ((maxrects >? 0) && negb (exempt_from_coalescing pref) && (k1 >? maxrects)); reflexivity.
Qed.

(* one stage of the repaired count: region1 is what will be emitted, nc the number of CopyRect rectangles
   that are still sent as such *)
Lemma stage_ok : forall pref lastrect cmw cmh maxrects npseudo region1 n1 lrm1 nc keep n region' lm keep',
  1 <= cmw -> 1 <= cmh -> Forall nondeg region1 -> 0 <= nc -> 0 <= npseudo <= 6 ->
  count_stage pref lastrect cmw cmh region1 = Some (n1, lrm1) ->
  (lrm1 = false -> nc + n1 + 6 < 65535) ->
  finish_count pref maxrects npseudo region1 n1 lrm1 nc keep = Some (n, region', lm, keep') ->
  keep' = keep /\
  (lm = true -> n = 65535 /\ lastrect = true /\ is_tight_class pref = true) /\
  (lm = false -> exists k, emitted_len (emit_region pref lastrect cmw cmh region') = Some k /\
                           n = nc + k + npseudo /\ n < 65535).
Proof.
  intros pref lastrect cmw cmh maxrects npseudo region1 n1 lrm1 nc keep n region' lm keep'
         Hcw Hch Hnd Hnc Hnp Hc Hb Hf.
  unfold count_stage in Hc. destruct (tight_unknown pref lastrect region1) eqn:Eu.
  - inversion Hc; subst n1 lrm1. cbn [finish_count] in Hf. inversion Hf; subst n region' lm keep'.
    destruct (tight_unknown_lastrect pref lastrect region1 Hnd Eu) as [L T].
    split; [reflexivity|]. split; [intros _; auto|discriminate].
  - destruct (tight_known_emitted pref lastrect cmw cmh region1 Hcw Hch Hnd Eu) as (k & Ek & En & Hlen).
    rewrite En in Hc. cbn [obind] in Hc. inversion Hc; subst n1 lrm1. specialize (Hb eq_refl).
    rewrite (finish_is_announce pref lastrect cmw cmh maxrects npseudo region1 k nc keep En ltac:(lia)) in Hf.
    destruct (announce pref lastrect cmw cmh maxrects region1 nc npseudo) as [[[n' r'] lm']|] eqn:Ea; [|discriminate].
    inversion Hf; subst n' r' lm' keep'.
    destruct (update_count pref lastrect cmw cmh maxrects region1 nc npseudo n region' lm k Hcw Hch Hnd Hnc
                           ltac:(lia) Ea Ek ltac:(lia)) as (k' & Ek' & Hn & Hlm & _ & Hle).
    split; [reflexivity|]. split; [intro Q; rewrite Q in Hlm; discriminate|].
    intros _. exists k'. split; [exact Ek'|]. rewrite Hn by lia. lia.
Qed.

(* C03_update_count for the count stage with BOTH repairs (two_stage = true): no hypothesis on the number of
   rectangles of the update region nor on the number of copy rectangles; the empty region is covered.
   The one remaining hypothesis: the splitting of ONE rectangle (the bounding box of everything) by the
   preferred encoding plus the six possible pseudo-rectangles fits the 16-bit field. *)
Lemma update_count_fixed : forall pref lastrect cmw cmh maxrects region copyl npseudo n region' lm keep,
  1 <= cmw -> 1 <= cmh -> Forall nondeg region -> Forall nondeg copyl -> 0 <= npseudo <= 6 ->
  (forall n2 lrm2, count_stage pref lastrect cmw cmh (bbox_region (bbox_region region ++ copyl)) = Some (n2, lrm2) ->
                   lrm2 = false -> n2 + 6 < 65535) ->
  announce_fixed true pref lastrect cmw cmh maxrects region copyl npseudo = Some (n, region', lm, keep) ->
  (lm = true -> n = 65535 /\ lastrect = true /\ is_tight_class pref = true) /\
  (lm = false -> exists k, emitted_len (emit_region pref lastrect cmw cmh region') = Some k /\
                           n = (if keep then Z.of_nat (length copyl) else 0) + k + npseudo /\ n < 65535).
Proof.
  intros pref lastrect cmw cmh maxrects region copyl npseudo n region' lm keep Hcw Hch Hnd Hndc Hnp Hbb Ha.
  unfold announce_fixed in Ha.
  destruct (count_stage pref lastrect cmw cmh region) as [[n0 lrm0]|] eqn:E0; [|discriminate]. cbn [obind] in Ha.
  destruct (lrm0 || (Z.of_nat (length copyl) + n0 + 6 <? 65535)) eqn:B0.
  - assert (Hb0 : lrm0 = false -> Z.of_nat (length copyl) + n0 + 6 < 65535)
      by (intro Q; rewrite Q in B0; cbn [orb] in B0; lia).
    destruct (stage_ok pref lastrect cmw cmh maxrects npseudo region n0 lrm0 (Z.of_nat (length copyl)) true n region' lm keep
                       Hcw Hch Hnd ltac:(lia) Hnp E0 Hb0 Ha) as (-> & A & B). split; assumption.
  - pose proof (bbox_region_nondeg region Hnd) as Hnd1.
    destruct (count_stage pref lastrect cmw cmh (bbox_region region)) as [[n1 lrm1]|] eqn:E1; [|discriminate].
    cbn [obind negb orb] in Ha.
    destruct (lrm1 || false || (Z.of_nat (length copyl) + n1 + 6 <? 65535)) eqn:B1.
    + assert (Hb1 : lrm1 = false -> Z.of_nat (length copyl) + n1 + 6 < 65535)
        by (intro Q; rewrite Q in B1; cbn [orb] in B1; lia).
      destruct (stage_ok pref lastrect cmw cmh maxrects npseudo (bbox_region region) n1 lrm1 (Z.of_nat (length copyl)) true
                         n region' lm keep Hcw Hch Hnd1 ltac:(lia) Hnp E1 Hb1 Ha) as (-> & A & B). split; assumption.
    + assert (Hnd2 : Forall nondeg (bbox_region (bbox_region region ++ copyl)))
        by (apply bbox_region_nondeg; apply Forall_app; split; assumption).
      destruct (count_stage pref lastrect cmw cmh (bbox_region (bbox_region region ++ copyl))) as [[n2 lrm2]|] eqn:E2;
        [|discriminate]. cbn [obind] in Ha.
      assert (Hb2 : lrm2 = false -> 0 + n2 + 6 < 65535) by (intro Q; specialize (Hbb n2 lrm2 eq_refl Q); lia).
      destruct (stage_ok pref lastrect cmw cmh maxrects npseudo (bbox_region (bbox_region region ++ copyl)) n2 lrm2 0 false
                         n region' lm keep Hcw Hch Hnd2 ltac:(lia) Hnp E2 Hb2 Ha) as (-> & A & B).
      split; assumption.
Qed.

(* the first repair alone (dccedf3, two_stage = false) still wraps when the COPY rectangles reach the field
   size: 65534 copy rectangles + 1 pseudo... announce the LastRect sentinel, 65536 announce 0 (finding F24) *)
Lemma unit_list_len : forall m, 0 <= m -> Z.of_nat (length (repeat (0, 0, 1, 1) (Z.to_nat m))) = m.
Proof. intros. rewrite repeat_length, Z2Nat.id; lia. Qed.

Lemma count_wrap_copy_witness :
  announce_fixed false enc_Raw false 48 48 50 [] (repeat (0, 0, 1, 1) (Z.to_nat 65535)) 0 = Some (65535, [], false, true) /\
  announce_fixed false enc_Raw false 48 48 50 [] (repeat (0, 0, 1, 1) (Z.to_nat 65536)) 0 = Some (0, [], false, true) /\
  (exists r k, announce_fixed true enc_Raw false 48 48 50 [] (repeat (0, 0, 1, 1) (Z.to_nat 65536)) 0 = Some (1, [r], false, false) /\
               emitted_len (emit_region enc_Raw false 48 48 [r]) = Some k /\ k = 1).
Proof.
  unfold announce_fixed. change (count_stage enc_Raw false 48 48 []) with (Some (0, false)). cbn [obind bbox_region app].
  rewrite !unit_list_len by lia. cbn [orb negb].
  change (65535 + 0 + 6 <? 65535) with false. change (65536 + 0 + 6 <? 65535) with false. cbv iota.
  change (count_stage enc_Raw false 48 48 []) with (Some (0, false)). cbn [obind orb negb].
  change (65535 + 0 + 6 <? 65535) with false. change (65536 + 0 + 6 <? 65535) with false. cbv iota.
  split; [reflexivity|]. split; [reflexivity|].
  assert (E : bbox_region (repeat (0, 0, 1, 1) (Z.to_nat 65536)) = [(0, 0, 1, 1)]).
  { assert (G : forall n acc, acc = (0, 0, 1, 1) -> fold_left bbox_step (repeat (0, 0, 1, 1) n) acc = (0, 0, 1, 1))
      by (induction n; intros acc ->; [reflexivity|cbn [repeat fold_left]; apply IHn; reflexivity]).
    change (Z.to_nat 65536) with (S (Z.to_nat 65535)). cbn [repeat bbox_region bbox_of]. rewrite G by reflexivity. reflexivity. }
  rewrite E. exists (0, 0, 1, 1), 1. repeat split; reflexivity.
Qed.

Lemma announce_fixed_examples :
  (exists r', announce_fixed true enc_Raw false 48 48 0 (repeat (0, 0, 1, 1) (Z.to_nat 300)) (repeat (5, 5, 1, 1) (Z.to_nat 100)) 0
              = Some (400, r', false, true)) /\
  announce_fixed true enc_Tight true 48 48 50 [(0, 0, 64, 64)] [] 0 = Some (65535, [(0, 0, 64, 64)], true, true) /\
  announce_fixed true enc_CoRRE false 48 48 50 [(0, 0, 100, 50); (0, 50, 10, 10)] [(1, 1, 2, 2); (3, 3, 1, 1)] 1
    = Some (10, [(0, 0, 100, 50); (0, 50, 10, 10)], false, true) /\
  announce_fixed true enc_Raw false 48 48 50 [] [] 3 = Some (3, [], false, true).
Proof. split; [eexists; vm_compute; reflexivity|repeat split; reflexivity]. Qed.
