(* C03 - the SetEncodings capability state machine (rfbProcessClientNormalMessage, case
   rfbSetEncodings) and the per-update decisions of rfbSendFramebufferUpdate that depend on it.
   Mirror: same order of tests as the C switch; encodings are the unsigned 32-bit numbers.
   This build has zlib, libjpeg and libpng, so all ten pixel encodings are selectable.
   Only definitions in this file. *)
From Coq Require Import List ZArith Bool Lia.
From LV Require Import Gen.Consts_C03.
Import ListNotations.
Local Open Scope Z_scope.

Record caps : Type := mkCaps {
  c_pref : Z;                (* cl->preferredEncoding; -1 = none chosen yet *)
  c_copyrect : bool;         (* useCopyRect *)
  c_newfbsize : bool;        (* useNewFBSize *)
  c_extdesktop : bool;       (* useExtDesktopSize *)
  c_cursor_changed : bool;   (* cursorWasChanged *)
  c_richcursor : bool;       (* useRichCursorEncoding *)
  c_cursorpos : bool;        (* enableCursorPosUpdates *)
  c_cursorshape : bool;      (* enableCursorShapeUpdates *)
  c_lastrect : bool;         (* enableLastRectEncoding *)
  c_led : bool;              (* enableKeyboardLedState *)
  c_suppmsgs : bool;         (* enableSupportedMessages *)
  c_suppencs : bool;         (* enableSupportedEncodings *)
  c_ident : bool;            (* enableServerIdentity *)
  c_quality : Z;             (* tightQualityLevel *)
  c_zliblevel : Z;           (* zlibCompressLevel *)
  c_cursor_moved : bool;     (* cursorWasMoved *)
  c_extclip : bool;          (* enableExtendedClipboard -- never reset by SetEncodings *)
  c_ready : bool;            (* readyForSetColourMapEntries *)
  c_fbpending : bool;        (* newFBSizePending *)
  c_lastled : Z;             (* lastKeyboardLedState *)
  c_xvp : bool;              (* ghost: an xvp init message was sent at some point *)
  c_named : list Z           (* ghost: every number named in any SetEncodings so far *)
}.

(* rfbNewClient *)
Definition caps_init : caps :=
  mkCaps (-1) false false false false false false false false false false false false
         (-1) zlibCompressLevel_default false false false false (-1) false [].

(* application configuration that the switch consults *)
Record cfg : Type := mkCfg {
  g_dont_convert_rich : bool;   (* screen->dontConvertRichCursorToXCursor *)
  g_xvp : bool;                 (* screen->xvpHook != NULL *)
  g_utf8 : bool;                (* screen->setXCutTextUTF8 != NULL *)
  g_ledhook : bool;             (* screen->getKeyboardLedStateHook != NULL *)
  g_reset_extclip : bool;       (* the source resets enableExtendedClipboard in SetEncodings (repair of
                                   F21, notes/fix_C03_3.diff); decided from the source text on every run *)
  g_raw_for_24bpp : bool;       (* repair of F23 (notes/fix_C03_4.diff) present in the source *)
  g_wrap_coalesce : bool;       (* repair of F5 (notes/fix_C03_5.diff, dccedf3) present in the source *)
  g_wrap_copy : bool            (* second stage of that repair (notes/fix_C03_6.diff, F24) present in the source *)
}.

(* messages written immediately while the SetEncodings list is being read *)
Inductive imm := ImmXvpInit | ImmExtClipCaps.

Definition is_pixel_enc (e : Z) : bool :=
  (e =? enc_Raw) || (e =? enc_RRE) || (e =? enc_CoRRE) || (e =? enc_Hextile) || (e =? enc_Ultra) ||
  (e =? enc_Zlib) || (e =? enc_ZRLE) || (e =? enc_ZYWRLE) || (e =? enc_Tight) || (e =? enc_TightPng).

(* "Reset all flags to defaults" *)
Definition reset_caps (g : cfg) (c : caps) : caps :=
  mkCaps (-1) false false false false false false false false false false false false
         (-1) (c_zliblevel c) (c_cursor_moved c) (if g_reset_extclip g then false else c_extclip c)
         (c_ready c) (c_fbpending c) (c_lastled c) (c_xvp c) (c_named c).

Definition set_pref c v := mkCaps v (c_copyrect c) (c_newfbsize c) (c_extdesktop c) (c_cursor_changed c)
  (c_richcursor c) (c_cursorpos c) (c_cursorshape c) (c_lastrect c) (c_led c) (c_suppmsgs c) (c_suppencs c)
  (c_ident c) (c_quality c) (c_zliblevel c) (c_cursor_moved c) (c_extclip c) (c_ready c) (c_fbpending c)
  (c_lastled c) (c_xvp c) (c_named c).
Definition set_copyrect c v := mkCaps (c_pref c) v (c_newfbsize c) (c_extdesktop c) (c_cursor_changed c)
  (c_richcursor c) (c_cursorpos c) (c_cursorshape c) (c_lastrect c) (c_led c) (c_suppmsgs c) (c_suppencs c)
  (c_ident c) (c_quality c) (c_zliblevel c) (c_cursor_moved c) (c_extclip c) (c_ready c) (c_fbpending c)
  (c_lastled c) (c_xvp c) (c_named c).
Definition set_newfbsize c v := mkCaps (c_pref c) (c_copyrect c) v (c_extdesktop c) (c_cursor_changed c)
  (c_richcursor c) (c_cursorpos c) (c_cursorshape c) (c_lastrect c) (c_led c) (c_suppmsgs c) (c_suppencs c)
  (c_ident c) (c_quality c) (c_zliblevel c) (c_cursor_moved c) (c_extclip c) (c_ready c) (c_fbpending c)
  (c_lastled c) (c_xvp c) (c_named c).
Definition set_extdesktop c v := mkCaps (c_pref c) (c_copyrect c) (c_newfbsize c) v (c_cursor_changed c)
  (c_richcursor c) (c_cursorpos c) (c_cursorshape c) (c_lastrect c) (c_led c) (c_suppmsgs c) (c_suppencs c)
  (c_ident c) (c_quality c) (c_zliblevel c) (c_cursor_moved c) (c_extclip c) (c_ready c) (c_fbpending c)
  (c_lastled c) (c_xvp c) (c_named c).
Definition set_cursor_changed c v := mkCaps (c_pref c) (c_copyrect c) (c_newfbsize c) (c_extdesktop c) v
  (c_richcursor c) (c_cursorpos c) (c_cursorshape c) (c_lastrect c) (c_led c) (c_suppmsgs c) (c_suppencs c)
  (c_ident c) (c_quality c) (c_zliblevel c) (c_cursor_moved c) (c_extclip c) (c_ready c) (c_fbpending c)
  (c_lastled c) (c_xvp c) (c_named c).
Definition set_richcursor c v := mkCaps (c_pref c) (c_copyrect c) (c_newfbsize c) (c_extdesktop c) (c_cursor_changed c)
  v (c_cursorpos c) (c_cursorshape c) (c_lastrect c) (c_led c) (c_suppmsgs c) (c_suppencs c)
  (c_ident c) (c_quality c) (c_zliblevel c) (c_cursor_moved c) (c_extclip c) (c_ready c) (c_fbpending c)
  (c_lastled c) (c_xvp c) (c_named c).
Definition set_cursorpos c v := mkCaps (c_pref c) (c_copyrect c) (c_newfbsize c) (c_extdesktop c) (c_cursor_changed c)
  (c_richcursor c) v (c_cursorshape c) (c_lastrect c) (c_led c) (c_suppmsgs c) (c_suppencs c)
  (c_ident c) (c_quality c) (c_zliblevel c) (c_cursor_moved c) (c_extclip c) (c_ready c) (c_fbpending c)
  (c_lastled c) (c_xvp c) (c_named c).
Definition set_cursorshape c v := mkCaps (c_pref c) (c_copyrect c) (c_newfbsize c) (c_extdesktop c) (c_cursor_changed c)
  (c_richcursor c) (c_cursorpos c) v (c_lastrect c) (c_led c) (c_suppmsgs c) (c_suppencs c)
  (c_ident c) (c_quality c) (c_zliblevel c) (c_cursor_moved c) (c_extclip c) (c_ready c) (c_fbpending c)
  (c_lastled c) (c_xvp c) (c_named c).
Definition set_lastrect c v := mkCaps (c_pref c) (c_copyrect c) (c_newfbsize c) (c_extdesktop c) (c_cursor_changed c)
  (c_richcursor c) (c_cursorpos c) (c_cursorshape c) v (c_led c) (c_suppmsgs c) (c_suppencs c)
  (c_ident c) (c_quality c) (c_zliblevel c) (c_cursor_moved c) (c_extclip c) (c_ready c) (c_fbpending c)
  (c_lastled c) (c_xvp c) (c_named c).
Definition set_led c v := mkCaps (c_pref c) (c_copyrect c) (c_newfbsize c) (c_extdesktop c) (c_cursor_changed c)
  (c_richcursor c) (c_cursorpos c) (c_cursorshape c) (c_lastrect c) v (c_suppmsgs c) (c_suppencs c)
  (c_ident c) (c_quality c) (c_zliblevel c) (c_cursor_moved c) (c_extclip c) (c_ready c) (c_fbpending c)
  (c_lastled c) (c_xvp c) (c_named c).
Definition set_suppmsgs c v := mkCaps (c_pref c) (c_copyrect c) (c_newfbsize c) (c_extdesktop c) (c_cursor_changed c)
  (c_richcursor c) (c_cursorpos c) (c_cursorshape c) (c_lastrect c) (c_led c) v (c_suppencs c)
  (c_ident c) (c_quality c) (c_zliblevel c) (c_cursor_moved c) (c_extclip c) (c_ready c) (c_fbpending c)
  (c_lastled c) (c_xvp c) (c_named c).
Definition set_suppencs c v := mkCaps (c_pref c) (c_copyrect c) (c_newfbsize c) (c_extdesktop c) (c_cursor_changed c)
  (c_richcursor c) (c_cursorpos c) (c_cursorshape c) (c_lastrect c) (c_led c) (c_suppmsgs c) v
  (c_ident c) (c_quality c) (c_zliblevel c) (c_cursor_moved c) (c_extclip c) (c_ready c) (c_fbpending c)
  (c_lastled c) (c_xvp c) (c_named c).
Definition set_ident c v := mkCaps (c_pref c) (c_copyrect c) (c_newfbsize c) (c_extdesktop c) (c_cursor_changed c)
  (c_richcursor c) (c_cursorpos c) (c_cursorshape c) (c_lastrect c) (c_led c) (c_suppmsgs c) (c_suppencs c)
  v (c_quality c) (c_zliblevel c) (c_cursor_moved c) (c_extclip c) (c_ready c) (c_fbpending c)
  (c_lastled c) (c_xvp c) (c_named c).
Definition set_quality c v := mkCaps (c_pref c) (c_copyrect c) (c_newfbsize c) (c_extdesktop c) (c_cursor_changed c)
  (c_richcursor c) (c_cursorpos c) (c_cursorshape c) (c_lastrect c) (c_led c) (c_suppmsgs c) (c_suppencs c)
  (c_ident c) v (c_zliblevel c) (c_cursor_moved c) (c_extclip c) (c_ready c) (c_fbpending c)
  (c_lastled c) (c_xvp c) (c_named c).
Definition set_zliblevel c v := mkCaps (c_pref c) (c_copyrect c) (c_newfbsize c) (c_extdesktop c) (c_cursor_changed c)
  (c_richcursor c) (c_cursorpos c) (c_cursorshape c) (c_lastrect c) (c_led c) (c_suppmsgs c) (c_suppencs c)
  (c_ident c) (c_quality c) v (c_cursor_moved c) (c_extclip c) (c_ready c) (c_fbpending c)
  (c_lastled c) (c_xvp c) (c_named c).
Definition set_cursor_moved c v := mkCaps (c_pref c) (c_copyrect c) (c_newfbsize c) (c_extdesktop c) (c_cursor_changed c)
  (c_richcursor c) (c_cursorpos c) (c_cursorshape c) (c_lastrect c) (c_led c) (c_suppmsgs c) (c_suppencs c)
  (c_ident c) (c_quality c) (c_zliblevel c) v (c_extclip c) (c_ready c) (c_fbpending c)
  (c_lastled c) (c_xvp c) (c_named c).
Definition set_extclip c v := mkCaps (c_pref c) (c_copyrect c) (c_newfbsize c) (c_extdesktop c) (c_cursor_changed c)
  (c_richcursor c) (c_cursorpos c) (c_cursorshape c) (c_lastrect c) (c_led c) (c_suppmsgs c) (c_suppencs c)
  (c_ident c) (c_quality c) (c_zliblevel c) (c_cursor_moved c) v (c_ready c) (c_fbpending c)
  (c_lastled c) (c_xvp c) (c_named c).
Definition set_ready c v := mkCaps (c_pref c) (c_copyrect c) (c_newfbsize c) (c_extdesktop c) (c_cursor_changed c)
  (c_richcursor c) (c_cursorpos c) (c_cursorshape c) (c_lastrect c) (c_led c) (c_suppmsgs c) (c_suppencs c)
  (c_ident c) (c_quality c) (c_zliblevel c) (c_cursor_moved c) (c_extclip c) v (c_fbpending c)
  (c_lastled c) (c_xvp c) (c_named c).
Definition set_fbpending c v := mkCaps (c_pref c) (c_copyrect c) (c_newfbsize c) (c_extdesktop c) (c_cursor_changed c)
  (c_richcursor c) (c_cursorpos c) (c_cursorshape c) (c_lastrect c) (c_led c) (c_suppmsgs c) (c_suppencs c)
  (c_ident c) (c_quality c) (c_zliblevel c) (c_cursor_moved c) (c_extclip c) (c_ready c) v
  (c_lastled c) (c_xvp c) (c_named c).
Definition set_lastled c v := mkCaps (c_pref c) (c_copyrect c) (c_newfbsize c) (c_extdesktop c) (c_cursor_changed c)
  (c_richcursor c) (c_cursorpos c) (c_cursorshape c) (c_lastrect c) (c_led c) (c_suppmsgs c) (c_suppencs c)
  (c_ident c) (c_quality c) (c_zliblevel c) (c_cursor_moved c) (c_extclip c) (c_ready c) (c_fbpending c)
  v (c_xvp c) (c_named c).
Definition set_xvp c v := mkCaps (c_pref c) (c_copyrect c) (c_newfbsize c) (c_extdesktop c) (c_cursor_changed c)
  (c_richcursor c) (c_cursorpos c) (c_cursorshape c) (c_lastrect c) (c_led c) (c_suppmsgs c) (c_suppencs c)
  (c_ident c) (c_quality c) (c_zliblevel c) (c_cursor_moved c) (c_extclip c) (c_ready c) (c_fbpending c)
  (c_lastled c) v (c_named c).
Definition set_named c v := mkCaps (c_pref c) (c_copyrect c) (c_newfbsize c) (c_extdesktop c) (c_cursor_changed c)
  (c_richcursor c) (c_cursorpos c) (c_cursorshape c) (c_lastrect c) (c_led c) (c_suppmsgs c) (c_suppencs c)
  (c_ident c) (c_quality c) (c_zliblevel c) (c_cursor_moved c) (c_extclip c) (c_ready c) (c_fbpending c)
  (c_lastled c) (c_xvp c) v.

Definition in_range (lo hi e : Z) : bool := (lo <=? e) && (e <=? hi).

(* one iteration of "for (i = 0; i < msg.se.nEncodings; i++) switch (enc)" *)
Definition apply_enc (g : cfg) (c : caps) (e : Z) : caps * list imm :=
  if e =? enc_CopyRect then (set_copyrect c true, [])
  else if is_pixel_enc e then ((if c_pref c =? -1 then set_pref c e else c), [])
  else if e =? enc_XCursor then
    (if g_dont_convert_rich g then c else set_cursor_changed (set_cursorshape c true) true, [])
  else if e =? enc_RichCursor then
    (set_cursor_changed (set_richcursor (set_cursorshape c true) true) true, [])
  else if e =? enc_PointerPos then
    ((if c_cursorpos c then c else set_cursor_moved (set_cursorpos c true) true), [])
  else if e =? enc_LastRect then (set_lastrect c true, [])
  else if e =? enc_NewFBSize then (set_newfbsize c true, [])
  else if e =? enc_ExtDesktopSize then
    ((if c_extdesktop c then c else set_newfbsize (set_extdesktop c true) true), [])
  else if e =? enc_KeyboardLedState then (set_led c true, [])
  else if e =? enc_SupportedMessages then (set_suppmsgs c true, [])
  else if e =? enc_SupportedEncodings then (set_suppencs c true, [])
  else if e =? enc_ServerIdentity then (set_ident c true, [])
  else if e =? enc_Xvp then (if g_xvp g then (set_xvp c true, [ImmXvpInit]) else (c, []))
  else if e =? enc_ExtendedClipboard then
    (if g_utf8 g then (set_extclip c true, [ImmExtClipCaps]) else (c, []))
  else if in_range enc_CompressLevel0 enc_CompressLevel9 e then (set_zliblevel c (e mod 16), [])
  else if in_range enc_QualityLevel0 enc_QualityLevel9 e then (set_quality c (e mod 16), [])
  else (c, []).

Fixpoint apply_encs (g : cfg) (c : caps) (l : list Z) : caps * list imm :=
  match l with
  | [] => (c, [])
  | e :: t =>
      let '(c1, i1) := apply_enc g c e in
      let '(c2, i2) := apply_encs g c1 t in
      (c2, i1 ++ i2)
  end.

(* the whole rfbSetEncodings case (all nEncodings entries were readable) *)
Definition set_encodings (g : cfg) (c : caps) (l : list Z) : caps * list imm :=
  let last := c_pref c in                       (* lastPreferredEncoding (-1 if none) *)
  let '(c1, out) := apply_encs g (reset_caps g c) l in
  let c2 := if c_pref c1 =? -1
            then (if last =? -1 then set_pref c1 enc_Raw else set_pref c1 last)
            else c1 in
  let c3 := if c_cursorpos c2 && negb (c_cursorshape c2) then set_cursorpos c2 false else c2 in
  (set_named c3 (l ++ c_named c), out).

(* ---------------------------------------------------------------- per-update decisions *)
(* the six "send..." locals at the top of rfbSendFramebufferUpdate and their side effects on
   the client state; [ledval] = what getKeyboardLedStateHook returns now (if the hook exists) *)
Record sends := mkSends {
  s_shape : bool; s_pos : bool; s_led : bool; s_msgs : bool; s_encs : bool; s_ident : bool }.

Definition decide_sends (g : cfg) (c : caps) (ledval : Z) : sends * caps :=
  let shape := c_cursorshape c && c_cursor_changed c && c_ready c in
  let pos := c_cursorpos c && c_cursor_moved c in
  let led := c_led c && g_ledhook g && negb (ledval =? c_lastled c) in
  let c1 := if c_led c && g_ledhook g then set_lastled c ledval else c in
  let msgs := c_suppmsgs c1 in
  let c2 := set_suppmsgs c1 false in
  let encs := c_suppencs c2 in
  let c3 := set_suppencs c2 false in
  let ident := c_ident c3 in
  let c4 := set_ident c3 false in
  (mkSends shape pos led msgs encs ident, c4).

Definition any_send (s : sends) : bool :=
  s_shape s || s_pos s || s_led s || s_msgs s || s_encs s || s_ident s.

Definition b2z (b : bool) : Z := if b then 1 else 0.

Definition n_pseudo (s : sends) : Z :=
  b2z (s_shape s) + b2z (s_pos s) + b2z (s_led s) + b2z (s_msgs s) + b2z (s_encs s) + b2z (s_ident s).

(* the encoding numbers that may legitimately appear in rectangle headers for this state *)
Definition pixel_enc_allowed (c : caps) (e : Z) : bool :=
  (e =? enc_Raw) || (existsb (Z.eqb e) (c_named c) && is_pixel_enc e).

(* ---------------------------------------------------------------- other events that change the state *)
(* rectSwapIfLEAndClip for an unscaled client (uint16_t *w compared with the int width - x, the
   assignment wraps) followed by the repair of F4 (commit d5a464d: "ignore framebuffer update
   requests of zero width or height").  None = the request is dropped without any effect. *)
Definition clip_request (fbw fbh x y w h : Z) : option (Z * Z * Z * Z) :=
  let w1 := if w >? fbw - x then (fbw - x) mod 65536 else w in
  if w1 >? fbw - x then None
  else
    let h1 := if h >? fbh - y then (fbh - y) mod 65536 else h in
    if h1 >? fbh - y then None
    else if (w1 =? 0) || (h1 =? 0) then None
    else Some (x, y, w1, h1).

Definition fur_accepted (fbw fbh x y w h : Z) : bool :=
  match clip_request fbw fbh x y w h with Some _ => true | None => false end.

(* case rfbFramebufferUpdateRequest; [accepted] = the request survived clip_request *)
Definition on_fur (c : caps) (accepted incremental : bool) : caps :=
  if accepted then
    let c1 := set_ready c true in
    if negb incremental && c_extdesktop c1 then set_fbpending c1 true else c1
  else c.

(* case rfbSetPixelFormat *)
Definition on_pixfmt (c : caps) : caps := set_ready c true.

(* rfbDefaultPtrAddEvent called for ANOTHER client, pointer position really changed *)
Definition on_ptr_moved (c : caps) : caps := if c_cursorpos c then set_cursor_moved c true else c.

(* rfbSetCursor *)
Definition on_set_cursor (c : caps) : caps := set_cursor_changed c true.

(* rfbNewFramebuffer *)
Definition on_newfb (c : caps) : caps := if c_newfbsize c then set_fbpending c true else c.

(* case rfbSetDesktopSize, the application's hook refused: "Force ExtendedDesktopSize message to be sent
   with result code in case of error" (a success only takes effect through rfbNewFramebuffer) *)
Definition on_sds_fail (c : caps) : caps := set_fbpending c true.

(* case rfbSetScale: rfbScalingSetup sets newFBSizePending; rfbSendNewScaleSize clears it and
   writes a ResizeFrameBuffer message unless NewFBSize will announce the size.
   Result: new state, "a ResizeFrameBuffer message is written now" *)
Definition on_setscale (c : caps) : caps * bool :=
  if c_newfbsize c then (set_fbpending c true, false) else (set_fbpending c false, true).
