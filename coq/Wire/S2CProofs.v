(* C03 - proofs about the strict parser of Wire/S2CModel.v: printing a well-formed message and
   parsing it back gives the message and exactly the rest of the stream (the grammar is
   unambiguous, every length field is honoured).  Covered payload shapes: Raw, CopyRect, RRE,
   CoRRE, the length-prefixed family (Zlib / ZRLE / ZYWRLE / Ultra), cursors, PointerPos, LED,
   NewFBSize, ExtDesktopSize, SupportedMessages / SupportedEncodings / ServerIdentity, and the
   LastRect-terminated form.  Hextile and Tight payload walkers are exercised by the
   correspondence run only. *)
From Coq Require Import List ZArith Bool Lia ZifyBool.
From LV Require Import Gen.Consts_C03 Wire.S2CModel.
Import ListNotations.
Local Open Scope Z_scope.

Ltac Zify.zify_post_hook ::= Z.to_euclidean_division_equations.

(* ------------------------------------------------------------------ bytes *)
Lemma u16_p16 : forall v rest, 0 <= v < 65536 -> u16 (p16 v ++ rest) = POk v rest.
Proof. intros v rest H. unfold u16, p16. cbn [app]. f_equal. lia. Qed.

Lemma u32_p32 : forall v rest, 0 <= v < 4294967296 -> u32 (p32 v ++ rest) = POk v rest.
Proof. intros v rest H. unfold u32, p32. cbn [app]. f_equal. lia. Qed.

Lemma dropz_app : forall d rest, dropz (d ++ rest) (Z.of_nat (length d)) = Some rest.
Proof.
  induction d as [|a d IH]; intros rest.
  - destruct rest; reflexivity.
  - cbn [length app dropz]. destruct (Z.of_nat (S (length d)) <=? 0) eqn:E; [lia|].
    replace (Z.of_nat (S (length d)) - 1) with (Z.of_nat (length d)) by lia. apply IH.
Qed.

Lemma skip_app : forall n d rest, n = Z.of_nat (length d) -> skip n (d ++ rest) = POk tt rest.
Proof.
  intros n d rest ->. unfold skip. destruct (Z.of_nat (length d) <? 0) eqn:E; [lia|].
  rewrite dropz_app. reflexivity.
Qed.

Lemma takez_app : forall d rest, takez (d ++ rest) (Z.of_nat (length d)) = Some (d, rest).
Proof.
  induction d as [|a d IH]; intros rest.
  - destruct rest; reflexivity.
  - cbn [length app takez]. destruct (Z.of_nat (S (length d)) <=? 0) eqn:E; [lia|].
    replace (Z.of_nat (S (length d)) - 1) with (Z.of_nat (length d)) by lia. rewrite IH. reflexivity.
Qed.

Definition r16 (v : Z) : Prop := 0 <= v < 65536.
Definition r32 (v : Z) : Prop := 0 <= v < 4294967296.
Ltac rconst := (unfold r16, r32; vm_compute; split; [discriminate|reflexivity]).

Lemma parse_hdr_print : forall x y w h e tail, r16 x -> r16 y -> r16 w -> r16 h -> r32 e ->
  parse_hdr (p16 x ++ p16 y ++ p16 w ++ p16 h ++ p32 e ++ tail) = POk (x, y, w, h, e) tail.
Proof.
  intros x y w h e tail Hx Hy Hw Hh He. unfold parse_hdr.
  rewrite u16_p16 by exact Hx. cbn [pbind]. rewrite u16_p16 by exact Hy. cbn [pbind].
  rewrite u16_p16 by exact Hw. cbn [pbind]. rewrite u16_p16 by exact Hh. cbn [pbind].
  rewrite u32_p32 by exact He. reflexivity.
Qed.

(* ------------------------------------------------------------------ well-formed rectangles *)
Definition bpp_ok (s : pst) : Prop := p_bpp s = 8 \/ p_bpp s = 16 \/ p_bpp s = 32.

Definition pixel_ok (s : pst) (x y w h e : Z) : Prop :=
  r16 x /\ r16 y /\ r16 w /\ r16 h /\ bpp_ok s /\ enc_advertised s e = true /\
  x + w <= p_fbw s /\ y + h <= p_fbh s.

Definition len_is (d : list Z) (n : Z) : Prop := Z.of_nat (length d) = n.

(* ---- Hextile: the tile list follows the 16x16 grid walk ---- *)
Definition optlen (o : option (list Z)) (n : Z) : Prop := match o with Some l => len_is l n | None => True end.

Definition tile_ok (bp tw th : Z) (t : tile) : Prop :=
  match t with
  | TRaw d => len_is d (tw * th * bp)
  | TSub bg fg subs =>
      optlen bg bp /\ optlen fg bp /\
      match subs with
      | Some (c, l) => Z.of_nat (length l) < 256 /\ Forall (fun r => len_is r (if c then bp + 2 else 2)) l
      | None => True
      end
  end.

Inductive tiles_ok (bp w h : Z) : Z -> Z -> list tile -> Prop :=
| TO_done : forall tx ty, ty >= h \/ w <= 0 -> tiles_ok bp w h tx ty []
| TO_step : forall tx ty t rest, ty < h -> 0 < w ->
    tile_ok bp (Z.min 16 (w - tx)) (Z.min 16 (h - ty)) t ->
    tiles_ok bp w h (if tx + 16 <? w then tx + 16 else 0) (if tx + 16 <? w then ty else ty + 16) rest ->
    tiles_ok bp w h tx ty (t :: rest).

(* ---- Tight ---- *)
Definition r22 (n : Z) : Prop := 0 <= n < 4194304.
Definition nib (r : Z) : Prop := 0 <= r < 16.

Definition tight_datalen (s : pst) (w h : Z) (f : tfilter) : Z :=
  match f with
  | FPalette cols => if Z.of_nat (length cols) <=? 2 then ((w + 7) / 8) * h else w * h
  | _ => w * h * tight_pix s
  end.

Definition tfilter_ok (s : pst) (f : tfilter) : Prop :=
  match f with
  | FPalette cols => 1 <= Z.of_nat (length cols) <= 256 /\ Forall (fun c => len_is c (tight_pix s)) cols
  | _ => True
  end.

Definition tdata_ok (nozlib : bool) (datalen : Z) (d : tdata) : Prop :=
  match d with
  | DRaw b => datalen < TIGHT_MIN_TO_COMPRESS /\ len_is b datalen
  | DComp b => TIGHT_MIN_TO_COMPRESS <= datalen /\ r22 (Z.of_nat (length b)) /\
               (nozlib = true -> len_is b datalen)
  end.

Definition tbody_ok (s : pst) (e w h : Z) (t : tbody) : Prop :=
  match t with
  | TbFill r p => nib r /\ len_is p (tight_pix s)
  | TbJpeg r d => nib r /\ r22 (Z.of_nat (length d))
  | TbPng r d => nib r /\ r22 (Z.of_nat (length d)) /\ e = enc_TightPng
  | TbBasic r st nz f d =>
      nib r /\ (st = 0 \/ st = 1 \/ st = 2 \/ st = 3) /\ (nz = true -> e = enc_Tight) /\
      tfilter_ok s f /\ tdata_ok nz (tight_datalen s w h f) d
  end.

(* wf_rect s (hd, body) kind s' : the rectangle is one the grammar allows in state s *)
Inductive wf_rect (s : pst) : hdr * body -> rect_kind -> pst -> Prop :=
| W_raw : forall x y w h d, pixel_ok s x y w h enc_Raw -> len_is d (w * h * bypp s) ->
    wf_rect s ((x, y, w, h, enc_Raw), BRaw d) RkPixel s
| W_copy : forall x y w h sx sy, pixel_ok s x y w h enc_CopyRect -> r16 sx -> r16 sy ->
    sx + w <= p_fbw s -> sy + h <= p_fbh s ->
    wf_rect s ((x, y, w, h, enc_CopyRect), BCopy sx sy) RkPixel s
| W_rre : forall x y w h bg subs, pixel_ok s x y w h enc_RRE -> len_is bg (bypp s) ->
    Forall (fun sub => len_is sub (bypp s + 8)) subs -> r32 (Z.of_nat (length subs)) ->
    wf_rect s ((x, y, w, h, enc_RRE), BRRE bg subs) RkPixel s
| W_corre : forall x y w h bg subs, pixel_ok s x y w h enc_CoRRE -> len_is bg (bypp s) ->
    Forall (fun sub => len_is sub (bypp s + 4)) subs -> r32 (Z.of_nat (length subs)) ->
    wf_rect s ((x, y, w, h, enc_CoRRE), BCoRRE bg subs) RkPixel s
| W_len32 : forall x y w h e d, pixel_ok s x y w h e ->
    e = enc_Zlib \/ e = enc_ZRLE \/ e = enc_ZYWRLE \/ e = enc_Ultra -> r32 (Z.of_nat (length d)) ->
    wf_rect s ((x, y, w, h, e), BLen32 d) RkPixel s
| W_xcursor : forall x y w h p, r16 x -> r16 y -> r16 w -> r16 h -> pseudo_enabled s enc_XCursor = true ->
    len_is p (if (w =? 0) || (h =? 0) then 0 else sz_XCursorColors + 2 * mask_bytes w h) ->
    wf_rect s ((x, y, w, h, enc_XCursor), BCursorX p) RkPseudo s
| W_richcursor : forall x y w h p, r16 x -> r16 y -> r16 w -> r16 h -> pseudo_enabled s enc_RichCursor = true ->
    len_is p (if (w =? 0) || (h =? 0) then 0 else w * h * bypp s + mask_bytes w h) ->
    wf_rect s ((x, y, w, h, enc_RichCursor), BCursorRich p) RkPseudo s
| W_pointerpos : forall x y, r16 x -> r16 y -> pseudo_enabled s enc_PointerPos = true ->
    wf_rect s ((x, y, 0, 0, enc_PointerPos), BEmpty) RkPseudo s
| W_led : forall x, r16 x -> pseudo_enabled s enc_KeyboardLedState = true ->
    wf_rect s ((x, 0, 0, 0, enc_KeyboardLedState), BEmpty) RkPseudo s
| W_newfbsize : forall w h, r16 w -> r16 h -> pseudo_enabled s enc_NewFBSize = true ->
    wf_rect s ((0, 0, w, h, enc_NewFBSize), BEmpty) RkPseudo (pst_set_fb s w h)
| W_extdesktop : forall x y w h scr, r16 x -> r16 y -> r16 w -> r16 h ->
    pseudo_enabled s enc_ExtDesktopSize = true ->
    Forall (fun sc => len_is sc sz_ExtDesktopScreen) scr -> 0 <= Z.of_nat (length scr) < 256 ->
    wf_rect s ((x, y, w, h, enc_ExtDesktopSize), BExtDesktop scr) RkPseudo (pst_set_fb s w h)
| W_suppmsgs : forall w d, r16 w -> pseudo_enabled s enc_SupportedMessages = true -> len_is d w ->
    wf_rect s ((0, 0, w, 0, enc_SupportedMessages), BBlob d) RkPseudo s
| W_suppencs : forall h d, r16 (4 * h) -> r16 h -> pseudo_enabled s enc_SupportedEncodings = true -> len_is d (4 * h) ->
    wf_rect s ((0, 0, 4 * h, h, enc_SupportedEncodings), BBlob d) RkPseudo s
| W_ident : forall w d, r16 w -> pseudo_enabled s enc_ServerIdentity = true -> len_is d w ->
    wf_rect s ((0, 0, w, 0, enc_ServerIdentity), BBlob d) RkPseudo s
| W_hextile : forall x y w h tiles, pixel_ok s x y w h enc_Hextile -> tiles_ok (bypp s) w h 0 0 tiles ->
    wf_rect s ((x, y, w, h, enc_Hextile), BHextile tiles) RkPixel s
| W_tight : forall x y w h e t, pixel_ok s x y w h e -> e = enc_Tight \/ e = enc_TightPng -> tbody_ok s e w h t ->
    wf_rect s ((x, y, w, h, e), BTight t) RkPixel s.

Lemma concat_len : forall (subs : list (list Z)) k, Forall (fun sub => len_is sub k) subs ->
  Z.of_nat (length (concat subs)) = Z.of_nat (length subs) * k.
Proof.
  induction subs as [|a t IH]; intros k H; cbn [concat length]; [lia|].
  inversion H as [|? ? Ha Ht]; subst. rewrite app_length, Nat2Z.inj_add, (IH k Ht).
  unfold len_is in Ha. lia.
Qed.

Lemma pixel_checks : forall s x y w h e, pixel_ok s x y w h e ->
  negb (bpp_allowed s e) = false /\
  negb (enc_advertised s e) = false /\ ((x + w >? p_fbw s) || (y + h >? p_fbh s)) = false.
Proof.
  intros s x y w h e (_ & _ & _ & _ & Hb & Ha & Hx & Hy). rewrite Ha. unfold bpp_allowed.
  destruct Hb as [Hb|[Hb|Hb]]; rewrite Hb; repeat split; cbn; lia.
Qed.

(* ---- compact lengths (1..3 bytes; boundaries 127/128 and 16383/16384) ---- *)
Lemma compact_print : forall n rest, r22 n -> compact_len (pcompact n ++ rest) = POk n rest.
Proof.
  intros n rest [H0 H1]. unfold pcompact, compact_len.
  destruct (n <? 128) eqn:E1.
  - cbn [app u8 pbind]. rewrite E1. reflexivity.
  - destruct (n <? 16384) eqn:E2.
    + cbn [app u8 pbind]. destruct (n mod 128 + 128 <? 128) eqn:E3; [lia|]. cbn [u8 pbind].
      destruct (n / 128 <? 128) eqn:E4; [|lia]. f_equal. lia.
    + cbn [app u8 pbind]. destruct (n mod 128 + 128 <? 128) eqn:E3; [lia|]. cbn [u8 pbind].
      destruct ((n / 128) mod 128 + 128 <? 128) eqn:E4; [lia|]. cbn [u8 pbind]. f_equal. lia.
Qed.

Lemma compact_examples :
  pcompact 127 = [127] /\ pcompact 128 = [128; 1] /\ pcompact 16383 = [255; 127] /\ pcompact 16384 = [128; 128; 1] /\
  pcompact 4194303 = [255; 255; 255].
Proof. repeat split; reflexivity. Qed.

(* ---- Hextile ---- *)
Definition is_some {A} (o : option A) : bool := match o with Some _ => true | None => false end.

Lemma tile_flags_bits : forall bg fg subs,
  let f := tile_flags (TSub bg fg subs) in
  (32 <=? f) = false /\ Z.testbit f 0 = false /\ Z.testbit f 1 = is_some bg /\ Z.testbit f 2 = is_some fg /\
  Z.testbit f 3 = is_some subs /\ Z.testbit f 4 = match subs with Some (c, _) => c | None => false end.
Proof. intros [bg|] [fg|] [[[] l]|]; vm_compute; repeat split; reflexivity. Qed.

Lemma skip_opt : forall o bp rest, optlen o bp ->
  skip (if is_some o then bp else 0) (optbytes o ++ rest) = POk tt rest.
Proof.
  intros [l|] bp rest H; cbn [is_some optbytes optlen] in *.
  - apply skip_app. symmetry. exact H.
  - destruct rest; reflexivity.
Qed.

Lemma hextile_print : forall bp w h tx ty ts, tiles_ok bp w h tx ty ts ->
  forall fuel rest, (length (concat (map print_tile ts)) < fuel)%nat ->
  hextile_tiles fuel bp w h tx ty (concat (map print_tile ts) ++ rest) = POk tt rest.
Proof.
  intros bp w h tx ty ts H. induction H as [tx ty Hd|tx ty t ts' Hty Hw Ht Hrest IH]; intros fuel rest Hf.
  - destruct fuel; [cbn in Hf; lia|]. cbn [map concat app hextile_tiles].
    destruct ((ty >=? h) || (w <=? 0)) eqn:E; [reflexivity|lia].
  - destruct fuel; [lia|]. cbn [map concat]. rewrite <- app_assoc. cbn [hextile_tiles].
    destruct ((ty >=? h) || (w <=? 0)) eqn:E; [lia|].
    cbn [map concat] in Hf. rewrite app_length in Hf.
    assert (Next : forall l', l' = concat (map print_tile ts') ++ rest ->
              (if tx + 16 <? w then hextile_tiles fuel bp w h (tx + 16) ty l'
               else hextile_tiles fuel bp w h 0 (ty + 16) l') = POk tt rest).
    { intros l' ->. destruct (tx + 16 <? w); apply IH; destruct t; cbn [print_tile length] in Hf; lia. }
    destruct t as [d|bg fg subs].
    + cbn [print_tile tile_flags app u8 pbind]. change (32 <=? hextileRaw) with false.
      change (Z.testbit hextileRaw 0) with true. cbv iota.
      cbn [tile_ok] in Ht. rewrite skip_app by (symmetry; exact Ht). cbn [pbind]. apply Next. reflexivity.
    + destruct (tile_flags_bits bg fg subs) as (F5 & F0 & F1 & F2 & F3 & F4). cbv zeta in *.
      cbn [print_tile app u8 pbind]. set (f := tile_flags (TSub bg fg subs)) in *.
      rewrite F5, F0, F1, F2, F3, F4. cbv iota.
      cbn [tile_ok] in Ht. destruct Ht as (Hbg & Hfg & Hsub).
      rewrite <- !app_assoc. rewrite skip_opt by exact Hbg. cbn [pbind].
      rewrite skip_opt by exact Hfg. cbn [pbind].
      destruct subs as [[c l]|]; cbn [is_some].
      * destruct Hsub as [Hn Hl]. cbn [app u8 pbind].
        rewrite skip_app; [cbn [pbind]; apply Next; reflexivity|].
        rewrite (concat_len l _ Hl). reflexivity.
      * cbn [app]. apply Next. reflexivity.
Qed.

(* ---- Tight ---- *)
Lemma ctl_nibble : forall c r, nib r -> (c * 16 + r) / 16 = c.
Proof. intros c r [H0 H1]. lia. Qed.

Lemma tight_data_print : forall nz datalen d rest, tdata_ok nz datalen d ->
  tight_data nz datalen (print_tdata d ++ rest) = POk tt rest.
Proof.
  intros nz datalen [b|b] rest H; cbn [tdata_ok print_tdata] in *; unfold tight_data.
  - destruct H as [Hs Hl]. destruct (datalen <? TIGHT_MIN_TO_COMPRESS) eqn:E; [|lia].
    apply skip_app. symmetry. exact Hl.
  - destruct H as (Hs & Hr & Hz). destruct (datalen <? TIGHT_MIN_TO_COMPRESS) eqn:E; [lia|].
    rewrite <- app_assoc. rewrite compact_print by exact Hr. cbn [pbind].
    destruct nz; cbn [andb].
    + pose proof (Hz eq_refl) as Hz'. unfold len_is in Hz'. rewrite Hz'. rewrite Z.eqb_refl. cbn [negb].
      apply skip_app. symmetry. exact Hz'.
    + apply skip_app. reflexivity.
Qed.

Lemma tight_basic_print : forall s w h nz f d rest, tfilter_ok s f -> tdata_ok nz (tight_datalen s w h f) d ->
  tight_basic s w h (match f with FNone => false | _ => true end) nz (print_tfilter f ++ print_tdata d ++ rest) =
  POk tt rest.
Proof.
  intros s w h nz f d rest Hf Hd. unfold tight_basic. destruct f as [| | |cols]; cbn [print_tfilter app tight_datalen] in *.
  - apply tight_data_print. exact Hd.
  - cbn [u8 pbind]. change (tightFilterCopy =? tightFilterPalette) with false.
    change ((tightFilterCopy =? tightFilterCopy) || (tightFilterCopy =? tightFilterGradient)) with true. cbv iota.
    apply tight_data_print. exact Hd.
  - cbn [u8 pbind]. change (tightFilterGradient =? tightFilterPalette) with false.
    change ((tightFilterGradient =? tightFilterCopy) || (tightFilterGradient =? tightFilterGradient)) with true. cbv iota.
    apply tight_data_print. exact Hd.
  - cbn [u8 pbind]. change (tightFilterPalette =? tightFilterPalette) with true. cbv iota. cbn [u8 pbind].
    destruct Hf as [Hn Hc].
    replace (Z.of_nat (length cols) - 1 + 1) with (Z.of_nat (length cols)) by lia.
    rewrite skip_app by (rewrite (concat_len cols _ Hc); reflexivity). cbn [pbind].
    apply tight_data_print. exact Hd.
Qed.

Lemma tight_print : forall s e w h t rest, e = enc_Tight \/ e = enc_TightPng -> tbody_ok s e w h t ->
  tight_body s e w h (print_tbody t ++ rest) = POk tt rest.
Proof.
  intros s e w h t rest He Ht. unfold tight_body.
  destruct t as [r p|r d|r d|r st nz f d]; cbn [print_tbody tbody_ok app u8 pbind] in *.
  - destruct Ht as [Hr Hp]. rewrite (ctl_nibble tightFill r Hr). change (tightFill =? tightFill) with true. cbv iota.
    apply skip_app. symmetry. exact Hp.
  - destruct Ht as [Hr Hd]. rewrite (ctl_nibble tightJpeg r Hr). change (tightJpeg =? tightFill) with false.
    change (tightJpeg =? tightJpeg) with true. cbv iota. rewrite <- app_assoc. rewrite compact_print by exact Hd. cbn [pbind].
    apply skip_app. reflexivity.
  - destruct Ht as (Hr & Hd & Ee). subst e. rewrite (ctl_nibble tightPng r Hr). change (tightPng =? tightFill) with false.
    change (tightPng =? tightJpeg) with false.
    change ((enc_TightPng =? enc_TightPng) && (tightPng =? tightPng)) with true. cbv iota.
    rewrite <- app_assoc. rewrite compact_print by exact Hd. cbn [pbind]. apply skip_app. reflexivity.
  - destruct Ht as (Hr & Hst & Hnz & Hf & Hd). rewrite ctl_nibble by exact Hr. rewrite <- app_assoc.
    destruct nz.
    + rewrite (Hnz eq_refl) in *. destruct f as [| | |cols];
        [change (tightNoZlib + 0) with 10|change (tightNoZlib + tightExplicitFilter) with 14 ..];
        change ((enc_Tight =? enc_TightPng)) with false; cbn [andb];
        repeat match goal with |- context [?a =? ?b] => let v := eval vm_compute in (a =? b) in change (a =? b) with v end;
        cbn [andb]; cbv iota;
        first [ exact (tight_basic_print s w h true FNone d rest Hf Hd)
              | exact (tight_basic_print s w h true FCopy d rest Hf Hd)
              | exact (tight_basic_print s w h true FGradient d rest Hf Hd)
              | exact (tight_basic_print s w h true (FPalette cols) d rest Hf Hd) ].
    + assert (Hand : forall b, b && false = false) by (intros []; reflexivity).
      destruct Hst as [Es|[Es|[Es|Es]]]; subst st; destruct f as [| | |cols]; cbn [Z.add];
        repeat match goal with |- context [?a + ?b] => let v := eval vm_compute in (a + b) in change (a + b) with v end;
        repeat match goal with |- context [Z.eqb ?a ?b] =>
                 lazymatch a with e => fail | _ => let v := eval vm_compute in (Z.eqb a b) in change (Z.eqb a b) with v end end;
        rewrite ?Hand; cbv iota;
        repeat match goal with |- context [?a >=? ?b] => let v := eval vm_compute in (a >=? b) in change (a >=? b) with v end;
        repeat match goal with |- context [Z.testbit ?a ?b] => let v := eval vm_compute in (Z.testbit a b) in change (Z.testbit a b) with v end;
        cbv iota;
        first [ exact (tight_basic_print s w h false FNone d rest Hf Hd)
              | exact (tight_basic_print s w h false FCopy d rest Hf Hd)
              | exact (tight_basic_print s w h false FGradient d rest Hf Hd)
              | exact (tight_basic_print s w h false (FPalette cols) d rest Hf Hd) ].
Qed.

Theorem parse_rect_print : forall hf s r k s' rest, wf_rect s r k s' ->
  (length (print_rect r ++ rest) < hf)%nat ->
  parse_rect hf s (print_rect r ++ rest) = POk (fst r, k, s') rest.
Proof.
  intros hf s r k s' rest H Hlen. unfold parse_rect.
  destruct H as [x y w h d Hp Hl | x y w h sx sy Hp Hsx Hsy Hbx Hby | x y w h bg subs Hp Hbg Hsubs Hn
                | x y w h bg subs Hp Hbg Hsubs Hn | x y w h e d Hp He Hn
                | x y w h p Hx Hy Hw Hh Hen Hl | x y w h p Hx Hy Hw Hh Hen Hl | x y Hx Hy Hen | x Hx Hen
                | w h Hw Hh Hen | x y w h scr Hx Hy Hw Hh Hen Hscr Hn | w d Hw Hen Hl | h d Hw4 Hh Hen Hl
                | w d Hw Hen Hl | x y w h tiles Hp Htiles | x y w h e t Hp He Ht];
    cbn [print_rect fst]; rewrite <- !app_assoc.
  - (* Raw *)
    destruct Hp as (Hx & Hy & Hw & Hh & Hrest). rewrite parse_hdr_print; auto; [|rconst]. cbn [pbind].
    destruct (pixel_checks s x y w h enc_Raw (conj Hx (conj Hy (conj Hw (conj Hh Hrest))))) as (C1 & C2 & C3).
    unfold rect_payload. change (is_pixel_enc enc_Raw) with true. cbv iota. rewrite C1, C2, C3.
    change (enc_Raw =? enc_Raw) with true. cbv iota. cbn [print_body].
    rewrite skip_app by (symmetry; exact Hl). reflexivity.
  - (* CopyRect *)
    destruct Hp as (Hx & Hy & Hw & Hh & Hrest). rewrite parse_hdr_print; auto; [|rconst]. cbn [pbind].
    destruct (pixel_checks s x y w h enc_CopyRect (conj Hx (conj Hy (conj Hw (conj Hh Hrest))))) as (C1 & C2 & C3).
    unfold rect_payload. change (is_pixel_enc enc_CopyRect) with true. cbv iota. rewrite C1, C2, C3.
    change (enc_CopyRect =? enc_Raw) with false. change (enc_CopyRect =? enc_CopyRect) with true. cbv iota.
    cbn [print_body]. rewrite <- app_assoc. rewrite u16_p16 by exact Hsx. cbn [pbind].
    rewrite u16_p16 by exact Hsy. cbn [pbind].
    destruct ((sx + w >? p_fbw s) || (sy + h >? p_fbh s)) eqn:E; [lia|]. reflexivity.
  - (* RRE *)
    destruct Hp as (Hx & Hy & Hw & Hh & Hrest). rewrite parse_hdr_print; auto; [|rconst]. cbn [pbind].
    destruct (pixel_checks s x y w h enc_RRE (conj Hx (conj Hy (conj Hw (conj Hh Hrest))))) as (C1 & C2 & C3).
    unfold rect_payload. change (is_pixel_enc enc_RRE) with true. cbv iota. rewrite C1, C2, C3.
    change (enc_RRE =? enc_Raw) with false. change (enc_RRE =? enc_CopyRect) with false.
    change (enc_RRE =? enc_RRE) with true. cbv iota. cbn [print_body]. rewrite <- app_assoc.
    rewrite u32_p32 by exact Hn. cbn [pbind].
    rewrite skip_app; [reflexivity|].
    rewrite app_length, Nat2Z.inj_add, (concat_len subs (bypp s + 8) Hsubs). unfold len_is in Hbg. lia.
  - (* CoRRE *)
    destruct Hp as (Hx & Hy & Hw & Hh & Hrest). rewrite parse_hdr_print; auto; [|rconst]. cbn [pbind].
    destruct (pixel_checks s x y w h enc_CoRRE (conj Hx (conj Hy (conj Hw (conj Hh Hrest))))) as (C1 & C2 & C3).
    unfold rect_payload. change (is_pixel_enc enc_CoRRE) with true. cbv iota. rewrite C1, C2, C3.
    change (enc_CoRRE =? enc_Raw) with false. change (enc_CoRRE =? enc_CopyRect) with false.
    change (enc_CoRRE =? enc_RRE) with false. change (enc_CoRRE =? enc_CoRRE) with true. cbv iota.
    cbn [print_body]. rewrite <- app_assoc.
    rewrite u32_p32 by exact Hn. cbn [pbind].
    rewrite skip_app; [reflexivity|].
    rewrite app_length, Nat2Z.inj_add, (concat_len subs (bypp s + 4) Hsubs). unfold len_is in Hbg. lia.
  - (* Zlib / ZRLE / ZYWRLE / Ultra *)
    destruct Hp as (Hx & Hy & Hw & Hh & Hrest).
    assert (He32 : r32 e) by (destruct He as [E1|[E1|[E1|E1]]]; subst e; rconst).
    rewrite parse_hdr_print; auto. cbn [pbind].
    destruct (pixel_checks s x y w h e (conj Hx (conj Hy (conj Hw (conj Hh Hrest))))) as (C1 & C2 & C3).
    unfold rect_payload.
    assert (P : is_pixel_enc e = true /\ (e =? enc_Raw) = false /\ (e =? enc_CopyRect) = false /\
                (e =? enc_RRE) = false /\ (e =? enc_CoRRE) = false /\ (e =? enc_Hextile) = false /\
                ((e =? enc_Tight) || (e =? enc_TightPng)) = false)
      by (destruct He as [E1|[E1|[E1|E1]]]; subst e; repeat split; reflexivity).
    destruct P as (P0 & P1 & P2 & P3 & P4 & P5 & P6).
    rewrite P0, C1, C2, C3, P1, P2, P3, P4, P5, P6. cbn [print_body]. unfold len32_body.
    rewrite <- app_assoc. rewrite u32_p32 by exact Hn. cbn [pbind].
    rewrite skip_app by reflexivity. reflexivity.
  - (* XCursor *)
    rewrite parse_hdr_print; auto; try rconst. cbn [pbind]. unfold rect_payload.
    change (is_pixel_enc enc_XCursor) with false. change (enc_XCursor =? enc_LastRect) with false. cbv iota.
    rewrite Hen. cbn [negb].  change (enc_XCursor =? enc_XCursor) with true. cbv iota.
    cbn [print_body]. destruct ((w =? 0) || (h =? 0)) eqn:E.
    + destruct p; [reflexivity|]. unfold len_is in Hl. cbn [length] in Hl. lia.
    + rewrite skip_app by (symmetry; exact Hl). reflexivity.
  - (* RichCursor *)
    rewrite parse_hdr_print; auto; try rconst. cbn [pbind]. unfold rect_payload.
    change (is_pixel_enc enc_RichCursor) with false. change (enc_RichCursor =? enc_LastRect) with false. cbv iota.
    rewrite Hen. cbn [negb]. change (enc_RichCursor =? enc_XCursor) with false. change (enc_RichCursor =? enc_RichCursor) with true. cbv iota.
    cbn [print_body]. destruct ((w =? 0) || (h =? 0)) eqn:E.
    + destruct p; [reflexivity|]. unfold len_is in Hl. cbn [length] in Hl. lia.
    + rewrite skip_app by (symmetry; exact Hl). reflexivity.
  - (* PointerPos *)
    rewrite parse_hdr_print; auto; try rconst. cbn [pbind]. unfold rect_payload.
    change (is_pixel_enc enc_PointerPos) with false. change (enc_PointerPos =? enc_LastRect) with false. cbv iota.
    rewrite Hen. cbn [negb]. change (enc_PointerPos =? enc_XCursor) with false. change (enc_PointerPos =? enc_RichCursor) with false. change (enc_PointerPos =? enc_PointerPos) with true. cbv iota.
    reflexivity.
  - (* KeyboardLedState *)
    rewrite parse_hdr_print; auto; try rconst. cbn [pbind]. unfold rect_payload.
    change (is_pixel_enc enc_KeyboardLedState) with false. change (enc_KeyboardLedState =? enc_LastRect) with false. cbv iota.
    rewrite Hen. cbn [negb]. change (enc_KeyboardLedState =? enc_XCursor) with false. change (enc_KeyboardLedState =? enc_RichCursor) with false. change (enc_KeyboardLedState =? enc_PointerPos) with false. change (enc_KeyboardLedState =? enc_KeyboardLedState) with true. cbv iota.
    reflexivity.
  - (* NewFBSize *)
    rewrite parse_hdr_print; auto; try rconst. cbn [pbind]. unfold rect_payload.
    change (is_pixel_enc enc_NewFBSize) with false. change (enc_NewFBSize =? enc_LastRect) with false. cbv iota.
    rewrite Hen. cbn [negb]. change (enc_NewFBSize =? enc_XCursor) with false. change (enc_NewFBSize =? enc_RichCursor) with false. change (enc_NewFBSize =? enc_PointerPos) with false. change (enc_NewFBSize =? enc_KeyboardLedState) with false. change (enc_NewFBSize =? enc_NewFBSize) with true. cbv iota.
    reflexivity.
  - (* ExtDesktopSize *)
    rewrite parse_hdr_print; auto; try rconst. cbn [pbind]. unfold rect_payload.
    change (is_pixel_enc enc_ExtDesktopSize) with false. change (enc_ExtDesktopSize =? enc_LastRect) with false. cbv iota.
    rewrite Hen. cbn [negb]. change (enc_ExtDesktopSize =? enc_XCursor) with false. change (enc_ExtDesktopSize =? enc_RichCursor) with false. change (enc_ExtDesktopSize =? enc_PointerPos) with false. change (enc_ExtDesktopSize =? enc_KeyboardLedState) with false. change (enc_ExtDesktopSize =? enc_NewFBSize) with false. change (enc_ExtDesktopSize =? enc_ExtDesktopSize) with true. cbv iota.
    cbn [print_body app u8 pbind].
    change (0 :: 0 :: 0 :: concat scr ++ rest) with (([0; 0; 0] ++ concat scr) ++ rest).
    rewrite skip_app; [reflexivity|].
    rewrite app_length, Nat2Z.inj_add, (concat_len scr sz_ExtDesktopScreen Hscr). cbn [length]. lia.
  - (* SupportedMessages *)
    rewrite parse_hdr_print; auto; try rconst. cbn [pbind]. unfold rect_payload.
    change (is_pixel_enc enc_SupportedMessages) with false. change (enc_SupportedMessages =? enc_LastRect) with false. cbv iota.
    rewrite Hen. cbn [negb]. change (enc_SupportedMessages =? enc_XCursor) with false. change (enc_SupportedMessages =? enc_RichCursor) with false. change (enc_SupportedMessages =? enc_PointerPos) with false. change (enc_SupportedMessages =? enc_KeyboardLedState) with false. change (enc_SupportedMessages =? enc_NewFBSize) with false. change (enc_SupportedMessages =? enc_ExtDesktopSize) with false. change (enc_SupportedMessages =? enc_SupportedMessages) with true. cbv iota.
    cbn [print_body]. rewrite skip_app by (symmetry; exact Hl). reflexivity.
  - (* SupportedEncodings *)
    rewrite parse_hdr_print; auto; try rconst. cbn [pbind]. unfold rect_payload.
    change (is_pixel_enc enc_SupportedEncodings) with false. change (enc_SupportedEncodings =? enc_LastRect) with false. cbv iota.
    rewrite Hen. cbn [negb]. change (enc_SupportedEncodings =? enc_XCursor) with false. change (enc_SupportedEncodings =? enc_RichCursor) with false. change (enc_SupportedEncodings =? enc_PointerPos) with false. change (enc_SupportedEncodings =? enc_KeyboardLedState) with false. change (enc_SupportedEncodings =? enc_NewFBSize) with false. change (enc_SupportedEncodings =? enc_ExtDesktopSize) with false. change (enc_SupportedEncodings =? enc_SupportedMessages) with false. change (enc_SupportedEncodings =? enc_SupportedEncodings) with true. cbv iota.
    rewrite Z.eqb_refl. cbn [print_body]. rewrite skip_app by (symmetry; exact Hl). reflexivity.
  - (* ServerIdentity *)
    rewrite parse_hdr_print; auto; try rconst. cbn [pbind]. unfold rect_payload.
    change (is_pixel_enc enc_ServerIdentity) with false. change (enc_ServerIdentity =? enc_LastRect) with false. cbv iota.
    rewrite Hen. cbn [negb]. change (enc_ServerIdentity =? enc_XCursor) with false. change (enc_ServerIdentity =? enc_RichCursor) with false. change (enc_ServerIdentity =? enc_PointerPos) with false. change (enc_ServerIdentity =? enc_KeyboardLedState) with false. change (enc_ServerIdentity =? enc_NewFBSize) with false. change (enc_ServerIdentity =? enc_ExtDesktopSize) with false. change (enc_ServerIdentity =? enc_SupportedMessages) with false. change (enc_ServerIdentity =? enc_SupportedEncodings) with false. change (enc_ServerIdentity =? enc_ServerIdentity) with true. cbv iota.
    cbn [print_body]. rewrite skip_app by (symmetry; exact Hl). reflexivity.
  - (* Hextile *)
    destruct Hp as (Hx & Hy & Hw & Hh & Hrest). rewrite parse_hdr_print; auto; [|rconst]. cbn [pbind].
    destruct (pixel_checks s x y w h enc_Hextile (conj Hx (conj Hy (conj Hw (conj Hh Hrest))))) as (C1 & C2 & C3).
    unfold rect_payload. change (is_pixel_enc enc_Hextile) with true. cbv iota. rewrite C1, C2, C3.
    change (enc_Hextile =? enc_Raw) with false. change (enc_Hextile =? enc_CopyRect) with false.
    change (enc_Hextile =? enc_RRE) with false. change (enc_Hextile =? enc_CoRRE) with false.
    change (enc_Hextile =? enc_Hextile) with true. cbv iota. cbn [print_body].
    rewrite (hextile_print _ _ _ _ _ _ Htiles); [reflexivity|].
    cbn [print_rect print_body] in Hlen. rewrite !app_length in Hlen. lia.
  - (* Tight / TightPng *)
    destruct Hp as (Hx & Hy & Hw & Hh & Hrest).
    assert (He32 : r32 e) by (destruct He as [E1|E1]; subst e; rconst).
    rewrite parse_hdr_print; auto. cbn [pbind].
    destruct (pixel_checks s x y w h e (conj Hx (conj Hy (conj Hw (conj Hh Hrest))))) as (C1 & C2 & C3).
    unfold rect_payload.
    assert (P : is_pixel_enc e = true /\ (e =? enc_Raw) = false /\ (e =? enc_CopyRect) = false /\
                (e =? enc_RRE) = false /\ (e =? enc_CoRRE) = false /\ (e =? enc_Hextile) = false /\
                ((e =? enc_Tight) || (e =? enc_TightPng)) = true)
      by (destruct He as [E1|E1]; subst e; repeat split; reflexivity).
    destruct P as (P0 & P1 & P2 & P3 & P4 & P5 & P6).
    rewrite P0, C1, C2, C3, P1, P2, P3, P4, P5, P6. cbn [print_body].
    rewrite (tight_print s e w h t rest He Ht). reflexivity.
Qed.

(* ------------------------------------------------------------------ lists of rectangles *)
Inductive wf_rects : pst -> list (hdr * body) -> pst -> Prop :=
| WR_nil : forall s, wf_rects s [] s
| WR_cons : forall s r k s1 t s2, wf_rect s r k s1 -> k <> RkLast -> wf_rects s1 t s2 -> wf_rects s (r :: t) s2.

Lemma wf_rect_not_last : forall s r k s', wf_rect s r k s' -> k <> RkLast.
Proof. intros s r k s' H. inversion H; discriminate. Qed.

Lemma parse_rects_n_print : forall rs hf s s' acc rest, wf_rects s rs s' ->
  (length (concat (map print_rect rs) ++ rest) < hf)%nat ->
  parse_rects_n (length rs) hf s (concat (map print_rect rs) ++ rest) acc =
  POk (rev acc ++ map fst rs, s') rest.
Proof.
  induction rs as [|r t IH]; intros hf s s' acc rest H Hlen; inversion H as [|s0 r0 k s1 t0 s2 Hr Hk Ht]; subst.
  - cbn. rewrite app_nil_r. reflexivity.
  - cbn [length parse_rects_n map concat]. cbn [map concat] in Hlen. rewrite <- app_assoc in *.
    rewrite (parse_rect_print hf s r k s1 _ Hr Hlen). cbn [pbind].
    assert (Hlen' : (length (concat (map print_rect t) ++ rest) < hf)%nat)
      by (rewrite app_length in Hlen; lia).
    destruct k; [| |contradiction]; rewrite (IH hf s1 s' (fst r :: acc) rest Ht Hlen'); cbn [rev];
      rewrite <- app_assoc; reflexivity.
Qed.

Lemma lastrect_marker_parse : forall hf s rest, pseudo_enabled s enc_LastRect = true ->
  parse_rect hf s (print_rect (lastrect_hdr, BEmpty) ++ rest) = POk (lastrect_hdr, RkLast, s) rest.
Proof.
  intros hf s rest H. unfold parse_rect, lastrect_hdr. cbn [print_rect]. rewrite <- !app_assoc.
  rewrite parse_hdr_print; try rconst. cbn [pbind]. unfold rect_payload.
  change (is_pixel_enc enc_LastRect) with false. change (enc_LastRect =? enc_LastRect) with true. cbv iota.
  rewrite H. reflexivity.
Qed.

Lemma wf_rects_keep_latest : forall s rs s', wf_rects s rs s' -> p_latest s' = p_latest s.
Proof.
  intros s rs s' H. induction H as [|s r k s1 t s2 Hr Hk Ht IH]; [reflexivity|]. rewrite IH.
  destruct Hr; reflexivity.
Qed.

Lemma parse_rects_last_print : forall rs hf s s' acc rest fuel, wf_rects s rs s' ->
  pseudo_enabled s enc_LastRect = true -> (length rs < fuel)%nat ->
  (length (concat (map print_rect rs) ++ print_rect (lastrect_hdr, BEmpty) ++ rest) < hf)%nat ->
  parse_rects_last fuel hf s (concat (map print_rect rs) ++ print_rect (lastrect_hdr, BEmpty) ++ rest) acc =
  POk (rev acc ++ map fst rs, s') rest.
Proof.
  induction rs as [|r t IH]; intros hf s s' acc rest fuel H Hl Hf Hlen; inversion H as [|s0 r0 k s1 t0 s2 Hr Hk Ht]; subst.
  - destruct fuel; [cbn in Hf; lia|]. cbn [map concat app parse_rects_last].
    rewrite (lastrect_marker_parse hf s' rest Hl). cbn [pbind]. rewrite app_nil_r. reflexivity.
  - destruct fuel; [cbn in Hf; lia|]. cbn [map concat parse_rects_last]. cbn [map concat] in Hlen. rewrite <- app_assoc in *.
    rewrite (parse_rect_print hf s r k s1 _ Hr Hlen). cbn [pbind].
    assert (Hlen' : (length (concat (map print_rect t) ++ print_rect (lastrect_hdr, BEmpty) ++ rest) < hf)%nat)
      by (rewrite app_length in Hlen; lia).
    assert (Hl1 : pseudo_enabled s1 enc_LastRect = true).
    { unfold pseudo_enabled in *. change (enc_LastRect =? enc_NewFBSize) with false in *. cbv iota in *.
      replace (p_latest s1) with (p_latest s); [exact Hl|].
      destruct Hr; reflexivity. }
    destruct k; [| |contradiction]; rewrite (IH hf s1 s' (fst r :: acc) rest fuel Ht Hl1 ltac:(cbn in Hf; lia) Hlen');
      cbn [rev]; rewrite <- app_assoc; reflexivity.
Qed.

(* ------------------------------------------------------------------ whole messages *)
Theorem parse_print_fbu : forall hf s rs s' pad rest, wf_rects s rs s' -> Z.of_nat (length rs) < 65535 ->
  (length (print_fbu pad rs ++ rest) < hf)%nat ->
  parse_msg hf s (print_fbu pad rs ++ rest) = POk (MFbu (Z.of_nat (length rs)) (map fst rs) false, s') rest.
Proof.
  intros hf s rs s' pad rest H Hn Hlen. unfold print_fbu, parse_msg in *. cbn [app u8 pbind].
  change (s2c_FramebufferUpdate =? s2c_FramebufferUpdate) with true. cbv iota. cbn [u8 pbind].
  rewrite <- app_assoc. rewrite u16_p16 by (unfold r16; lia). cbn [pbind].
  destruct (Z.of_nat (length rs) =? 65535) eqn:E; [lia|].
  rewrite Nat2Z.id. rewrite (parse_rects_n_print rs hf s s' [] rest H); [reflexivity|].
  cbn [app length] in Hlen. rewrite <- app_assoc, app_length in Hlen. lia.
Qed.

Theorem parse_print_fbu_last : forall hf s rs s' pad rest, wf_rects s rs s' ->
  pseudo_enabled s enc_LastRect = true ->
  (length (print_fbu_last pad rs ++ rest) < hf)%nat ->
  parse_msg hf s (print_fbu_last pad rs ++ rest) = POk (MFbu 65535 (map fst rs) true, s') rest.
Proof.
  intros hf s rs s' pad rest H Hl Hlen. unfold print_fbu_last, parse_msg in *. cbn [app u8 pbind].
  change (s2c_FramebufferUpdate =? s2c_FramebufferUpdate) with true. cbv iota. cbn [u8 pbind].
  rewrite <- app_assoc. rewrite u16_p16 by (unfold r16; lia). cbn [pbind].
  change (65535 =? 65535) with true. cbv iota. rewrite Hl. cbn [negb].
  rewrite <- app_assoc.
  assert (G : forall l : list (hdr * body), (length l <= length (concat (map print_rect l)))%nat).
  { induction l as [|[[[[[x y] w] h] e] b] t IH]; [cbn; lia|].
    cbn [map concat]. rewrite app_length. cbn [print_rect]. rewrite !app_length. cbn [p16 p32 length]. lia. }
  assert (Hlen2 : (length (concat (map print_rect rs) ++ print_rect (lastrect_hdr, BEmpty) ++ rest) < hf)%nat).
  { cbn [app length] in Hlen. rewrite <- !app_assoc, app_length in Hlen. cbn [p16 length] in Hlen. lia. }
  rewrite (parse_rects_last_print rs hf s s' [] rest hf H Hl); [reflexivity| |exact Hlen2].
  specialize (G rs). rewrite app_length in Hlen2. lia.
Qed.

(* a whole stream of counted updates parses back message by message *)
Theorem parse_stream_two : forall s rs1 s1 rs2 s2 pad1 pad2,
  wf_rects s rs1 s1 -> wf_rects s1 rs2 s2 -> Z.of_nat (length rs1) < 65535 -> Z.of_nat (length rs2) < 65535 ->
  parse_stream s (print_fbu pad1 rs1 ++ print_fbu pad2 rs2) =
  ([MFbu (Z.of_nat (length rs1)) (map fst rs1) false; MFbu (Z.of_nat (length rs2)) (map fst rs2) false], s2, SeClean).
Proof.
  intros s rs1 s1 rs2 s2 pad1 pad2 H1 H2 L1 L2. unfold parse_stream.
  assert (G : forall hf, (length (print_fbu pad1 rs1 ++ print_fbu pad2 rs2) < hf)%nat ->
            parse_s2c (S (length (print_fbu pad1 rs1 ++ print_fbu pad2 rs2))) hf s
                      (print_fbu pad1 rs1 ++ print_fbu pad2 rs2) [] =
            ([MFbu (Z.of_nat (length rs1)) (map fst rs1) false; MFbu (Z.of_nat (length rs2)) (map fst rs2) false], s2, SeClean)).
  { intros hf Hhf.
    assert (Hb : (length (print_fbu pad2 rs2 ++ []) < hf)%nat) by (rewrite app_nil_r; rewrite app_length in Hhf; lia).
    remember (print_fbu pad1 rs1 ++ print_fbu pad2 rs2) as l eqn:El.
    assert (Hl : (2 <= length l)%nat).
    { subst l. unfold print_fbu. rewrite !app_length. cbn [length]. lia. }
    destruct l as [|a l']; [cbn in Hl; lia|]. cbn [length parse_s2c].
    rewrite El. rewrite (parse_print_fbu hf s rs1 s1 pad1 _ H1 L1) by (rewrite <- El; exact Hhf).
    remember (print_fbu pad2 rs2) as l2 eqn:El2.
    destruct l2 as [|b l2']; [unfold print_fbu in El2; discriminate|].
    destruct l' as [|a' l'']; [cbn in Hl; lia|]. cbn [length parse_s2c].
    rewrite El2. rewrite <- (app_nil_r (print_fbu pad2 rs2)).
    rewrite (parse_print_fbu hf s1 rs2 s2 pad2 [] H2 L2); [reflexivity|].
    rewrite El2 in Hb. exact Hb. }
  apply G. lia.
Qed.

(* ------------------------------------------------------------------ ServerInit *)
Definition byte (v : Z) : Prop := 0 <= v < 256.

Lemma firstn_z_len : forall n l, (length (firstn_z n l) <= n)%nat.
Proof. induction n; intros [|a l]; cbn; try lia. specialize (IHn l). lia. Qed.

Theorem server_init_roundtrip : forall sc rest,
  r16 (sc_w sc) -> r16 (sc_h sc) -> r16 (sc_rmax sc) -> r16 (sc_gmax sc) -> r16 (sc_bmax sc) ->
  parse_server_init (server_init_bytes sc ++ rest) =
  POk (sc_w sc, sc_h sc,
       [sc_bpp sc; sc_depth sc; sc_be sc; sc_tc sc] ++ p16 (sc_rmax sc) ++ p16 (sc_gmax sc) ++ p16 (sc_bmax sc) ++
       [sc_rs sc; sc_gs sc; sc_bs sc; 0; 0; 0],
       firstn_z 127 (sc_name sc)) rest /\
  (length (firstn_z 127 (sc_name sc)) <= 127)%nat.
Proof.
  intros sc rest Hw Hh Hr Hg Hb. split; [|apply firstn_z_len].
  unfold parse_server_init, server_init_bytes. rewrite <- !app_assoc.
  rewrite u16_p16 by exact Hw. cbn [pbind]. rewrite u16_p16 by exact Hh. cbn [pbind].
  set (pf := [sc_bpp sc; sc_depth sc; sc_be sc; sc_tc sc] ++ p16 (sc_rmax sc) ++ p16 (sc_gmax sc) ++ p16 (sc_bmax sc) ++
             [sc_rs sc; sc_gs sc; sc_bs sc; 0; 0; 0]).
  set (name := firstn_z 127 (sc_name sc)).
  change ([sc_bpp sc; sc_depth sc; sc_be sc; sc_tc sc] ++ p16 (sc_rmax sc) ++ p16 (sc_gmax sc) ++ p16 (sc_bmax sc) ++
          [sc_rs sc; sc_gs sc; sc_bs sc; 0; 0; 0] ++ p32 (Z.of_nat (length name)) ++ name ++ rest)
    with (pf ++ p32 (Z.of_nat (length name)) ++ name ++ rest).
  change sz_PixelFormat with (Z.of_nat (length pf)). rewrite takez_app.
  pose proof (firstn_z_len 127 (sc_name sc)) as Hn. fold name in Hn.
  rewrite u32_p32 by (unfold r32; lia). cbn [pbind]. rewrite takez_app. reflexivity.
Qed.

(* ------------------------------------------------------------------ handshake shapes *)
Lemma match_lit : forall l rest, match_shape (lit l) (l ++ rest) = Some rest.
Proof.
  induction l as [|a l IH]; intros rest; cbn [lit map app match_shape]; [reflexivity|].
  rewrite Z.eqb_refl. apply IH.
Qed.

Lemma match_app : forall sh1 sh2 l r1, match_shape sh1 l = Some r1 ->
  match_shape (sh1 ++ sh2) l = match_shape sh2 r1.
Proof.
  induction sh1 as [|[b|] sh1 IH]; intros sh2 l r1 H; cbn [app match_shape] in *.
  - inversion H. reflexivity.
  - destruct l as [|a t]; [discriminate|]. destruct (a =? b); [|discriminate]. apply IH. exact H.
  - destruct l as [|a t]; [discriminate|]. apply IH. exact H.
Qed.

Lemma match_any : forall d rest, match_shape (any_bytes (length d)) (d ++ rest) = Some rest.
Proof. induction d as [|a d IH]; intros rest; cbn; [reflexivity|apply IH]. Qed.

Lemma match_lit_app : forall a sh l, match_shape (lit a ++ sh) (a ++ l) = match_shape sh l.
Proof. intros a sh l. erewrite match_app by apply match_lit. reflexivity. Qed.

Lemma match_any_app : forall d sh l, match_shape (any_bytes (length d) ++ sh) (d ++ l) = match_shape sh l.
Proof. intros d sh l. erewrite match_app by apply match_any. reflexivity. Qed.

Lemma match_lit_end : forall a, match_shape (lit a) a = Some [].
Proof. intros a. rewrite <- (app_nil_r a) at 2. apply match_lit. Qed.

Lemma match_any_end : forall d, match_shape (any_bytes (length d)) d = Some [].
Proof. intros d. rewrite <- (app_nil_r d) at 2. apply match_any. Qed.

Ltac shape_done := repeat (rewrite match_lit_app || rewrite match_any_app);
                   (rewrite match_lit_end || rewrite match_any_end); reflexivity.

(* the four protocol variants without a password: exactly version, security information,
   (SecurityResult for 3.8 only), ServerInit *)
Theorem handshake_shapes_none : forall sc choice ok rl, sc_password sc = false ->
  let ver := version_bytes protoMajor protoMinor in
  let init := server_init_bytes sc in
  check_handshake sc (mkHs 3 choice ok rl) (ver ++ p32 secTypeNone ++ init) = true /\
  check_handshake sc (mkHs 7 secTypeNone ok rl) (ver ++ [1; secTypeNone] ++ init) = true /\
  check_handshake sc (mkHs 8 secTypeNone ok rl) (ver ++ [1; secTypeNone] ++ p32 vncAuthOK ++ init) = true /\
  check_handshake sc (mkHs 889 secTypeNone ok rl) (ver ++ [1; secTypeNone] ++ init) = true.
Proof.
  intros sc choice ok rl Hp. cbv zeta.
  unfold check_handshake, handshake_shape, sec_type. rewrite Hp. cbn [fst hs_minor hs_choice].
  repeat split.
  - change (3 <? 7) with true. cbv iota. cbn [fst]. shape_done.
  - change (7 <? 7) with false. change (secTypeNone =? secTypeNone) with true. cbn [negb fst]. cbv iota.
    change ((7 >? 7) && negb (7 =? 889)) with false. cbv iota. cbn [fst].
    change (lit [1; secTypeNone] ++ lit (server_init_bytes sc)) with (lit [1; secTypeNone] ++ lit (server_init_bytes sc)).
    shape_done.
  - change (8 <? 7) with false. change (secTypeNone =? secTypeNone) with true. cbn [negb fst]. cbv iota.
    change ((8 >? 7) && negb (8 =? 889)) with true. cbv iota. cbn [fst]. shape_done.
  - change (889 <? 7) with false. change (secTypeNone =? secTypeNone) with true. cbn [negb fst]. cbv iota.
    change ((889 >? 7) && negb (889 =? 889)) with false. cbv iota. cbn [fst]. shape_done.
Qed.

(* with a password: challenge (any 16 bytes), result word, and for a failure the reason string
   only for minor > 7; ServerInit only after a correct response *)
Theorem handshake_shapes_vncauth : forall sc minor chal reason, sc_password sc = true -> 7 <= minor ->
  length chal = Z.to_nat CHALLENGESIZE ->
  let ver := version_bytes protoMajor protoMinor in
  let init := server_init_bytes sc in
  check_handshake sc (mkHs minor secTypeVncAuth true 0)
                  (ver ++ [1; secTypeVncAuth] ++ chal ++ p32 vncAuthOK ++ init) = true /\
  (7 < minor -> check_handshake sc (mkHs minor secTypeVncAuth false (Z.of_nat (length reason)))
                  (ver ++ [1; secTypeVncAuth] ++ chal ++ p32 vncAuthFailed ++ p32 (Z.of_nat (length reason)) ++ reason) = true) /\
  (minor = 7 -> check_handshake sc (mkHs minor secTypeVncAuth false 0)
                  (ver ++ [1; secTypeVncAuth] ++ chal ++ p32 vncAuthFailed) = true).
Proof.
  intros sc minor chal reason Hp Hm Hc. cbv zeta.
  unfold check_handshake, handshake_shape, sec_type. rewrite Hp. cbn [fst hs_minor hs_choice hs_auth_ok hs_reason_len].
  destruct (minor <? 7) eqn:E; [lia|]. change (secTypeVncAuth =? secTypeVncAuth) with true. cbn [negb fst]. cbv iota.
  rewrite <- Hc. repeat split.
  - cbn [fst]. shape_done.
  - intro H7. destruct (minor >? 7) eqn:E7; [|lia]. cbn [fst]. rewrite Nat2Z.id. shape_done.
  - intro H7. subst minor. change (7 >? 7) with false. cbv iota. cbn [fst]. shape_done.
Qed.

(* 3.3 with a password: the 32-bit security word, then the challenge *)
Theorem handshake_shapes_33_vncauth : forall sc chal choice, sc_password sc = true ->
  length chal = Z.to_nat CHALLENGESIZE ->
  let ver := version_bytes protoMajor protoMinor in
  check_handshake sc (mkHs 3 choice true 0) (ver ++ p32 secTypeVncAuth ++ chal ++ p32 vncAuthOK ++ server_init_bytes sc) = true /\
  check_handshake sc (mkHs 3 choice false 0) (ver ++ p32 secTypeVncAuth ++ chal ++ p32 vncAuthFailed) = true.
Proof.
  intros sc chal choice Hp Hc. cbv zeta.
  unfold check_handshake, handshake_shape. rewrite Hp. cbn [fst hs_minor hs_auth_ok].
  change (3 <? 7) with true. cbv iota. rewrite <- Hc. split.
  - cbn [fst]. shape_done.
  - change (3 >? 7) with false. cbv iota. cbn [fst]. shape_done.
Qed.

(* a security type that was not offered: the connection is closed after the list *)
Theorem handshake_wrong_choice_closed : forall sc minor choice ok rl, 7 <= minor -> choice <> sec_type sc ->
  handshake_shape sc (mkHs minor choice ok rl) =
  (lit (version_bytes protoMajor protoMinor) ++ lit [1; sec_type sc], HsClosed).
Proof.
  intros sc minor choice ok rl Hm Hc. unfold handshake_shape. cbn [hs_minor hs_choice].
  destruct (minor <? 7) eqn:E; [lia|].
  destruct (choice =? sec_type sc) eqn:E2; [lia|]. reflexivity.
Qed.

(* ------------------------------------------------------------------ a concrete well-formed update *)
Definition ex_state : pst :=
  mkPst 8 8 true 7 7 3 20 10 [enc_Hextile; enc_CopyRect; enc_PointerPos] [enc_Hextile; enc_CopyRect; enc_PointerPos] false.
Definition ex_rects : list (hdr * body) :=
  [((3, 4, 0, 0, enc_PointerPos), BEmpty); ((1, 1, 2, 2, enc_CopyRect), BCopy 5 5); ((0, 0, 2, 1, enc_Raw), BRaw [7; 9])].

Lemma ex_rects_wf : wf_rects ex_state ex_rects ex_state.
Proof.
  unfold ex_rects.
  eapply WR_cons; [apply W_pointerpos; [unfold r16; lia|unfold r16; lia|reflexivity]|discriminate|].
  eapply WR_cons; [apply W_copy|discriminate|].
  - unfold pixel_ok, r16, bpp_ok. cbn. repeat split; try lia; try (left; reflexivity).
  - unfold r16; lia.
  - unfold r16; lia.
  - cbn; lia.
  - cbn; lia.
  - eapply WR_cons; [apply W_raw|discriminate|apply WR_nil].
    + unfold pixel_ok, r16, bpp_ok. cbn. repeat split; try lia; try (left; reflexivity).
    + reflexivity.
Qed.

Lemma ex_rects_parse :
  parse_stream ex_state (print_fbu 0 ex_rects) =
  ([MFbu 3 [(3, 4, 0, 0, enc_PointerPos); (1, 1, 2, 2, enc_CopyRect); (0, 0, 2, 1, enc_Raw)] false], ex_state, SeClean).
Proof. reflexivity. Qed.

(* ------------------------------------------------------------------ a concrete Hextile + Tight update *)
Definition ex2_state : pst :=
  mkPst 32 24 true 255 255 255 40 40 [enc_Hextile; enc_Tight] [enc_Hextile; enc_Tight] false.
Definition ex2_rects : list (hdr * body) :=
  [((0, 0, 17, 2, enc_Hextile),
    BHextile [TSub (Some [1; 2; 3; 4]) None (Some (true, [[9; 9; 9; 9; 0; 0]; [8; 8; 8; 8; 17; 0]])); TRaw [1; 1; 1; 1; 2; 2; 2; 2]]);
   ((0, 0, 4, 4, enc_Tight), BTight (TbBasic 0 1 false (FPalette [[1; 2; 3]; [4; 5; 6]]) (DRaw [10; 20; 30; 40])));
   ((4, 0, 4, 4, enc_Tight), BTight (TbFill 0 [7; 7; 7]));
   ((8, 0, 16, 16, enc_Tight), BTight (TbJpeg 0 (repeat 5 130)));
   ((0, 8, 2, 2, enc_Tight), BTight (TbBasic 3 2 false FNone (DComp [1; 2; 3; 4; 5])))].

Lemma ex2_rects_wf : wf_rects ex2_state ex2_rects ex2_state.
Proof.
  assert (PO : forall x y w h e, 0 <= x < 100 -> 0 <= y < 100 -> 0 <= w < 100 -> 0 <= h < 100 ->
               x + w <= 40 -> y + h <= 40 -> enc_advertised ex2_state e = true -> pixel_ok ex2_state x y w h e).
  { intros. unfold pixel_ok, r16, bpp_ok. cbn [p_bpp p_fbw p_fbh ex2_state]. repeat split; try lia; try assumption. }
  unfold ex2_rects.
  eapply WR_cons; [apply W_hextile; [apply PO; try lia; reflexivity|]|discriminate|].
  { assert (B : bypp ex2_state = 4) by reflexivity. rewrite B.
    apply TO_step; [lia|lia| |].
    - cbn [tile_ok optlen]. unfold len_is. split; [reflexivity|]. split; [exact I|]. split; [cbn; lia|].
      constructor; [reflexivity|]. constructor; [reflexivity|constructor].
    - change (0 + 16 <? 17) with true. cbv iota.
      apply TO_step; [lia|lia|reflexivity|]. change (0 + 16 + 16 <? 17) with false. cbv iota.
      apply TO_done. left. lia. }
  eapply WR_cons; [apply W_tight; [apply PO; try lia; reflexivity|left; reflexivity|]|discriminate|].
  { cbn. unfold nib. repeat split; try lia; try discriminate; auto. repeat constructor. }
  eapply WR_cons; [apply W_tight; [apply PO; try lia; reflexivity|left; reflexivity|]|discriminate|].
  { cbn. unfold nib. repeat split; lia. }
  eapply WR_cons; [apply W_tight; [apply PO; try lia; reflexivity|left; reflexivity|]|discriminate|].
  { cbn [tbody_ok]. unfold nib, r22. rewrite repeat_length. repeat split; lia. }
  eapply WR_cons; [apply W_tight; [apply PO; try lia; reflexivity|left; reflexivity|]|discriminate|apply WR_nil].
  { cbn. unfold nib, r22. repeat split; try lia; try discriminate; auto. }
Qed.

Lemma ex2_rects_parse :
  parse_stream ex2_state (print_fbu 0 ex2_rects) =
  ([MFbu 5 (map fst ex2_rects) false], ex2_state, SeClean).
Proof. vm_compute. reflexivity. Qed.

(* ------------------------------------------------------------------ the other message types *)
Theorem parse_print_other : forall hf s rest,
  parse_msg hf s (print_bell ++ rest) = POk (MBell, s) rest /\
  (forall d, Z.of_nat (length d) < 2147483648 ->
     parse_msg hf s (print_cuttext d ++ rest) = POk (MCutText (Z.of_nat (length d)) false, s) rest) /\
  (forall d, mem enc_ExtendedClipboard (p_latest s) = true -> 4 <= Z.of_nat (length d) <= 2147483648 ->
     parse_msg hf s (print_cuttext_ext d ++ rest) = POk (MCutText (Z.of_nat (length d)) true, s) rest) /\
  (forall first entries, p_truecolour s = false -> r16 first -> r16 (Z.of_nat (length entries)) ->
     Forall (fun e => len_is e 6) entries ->
     parse_msg hf s (print_cmap first entries ++ rest) = POk (MCMap first (Z.of_nat (length entries)), s) rest) /\
  (forall w h, p_scale_requested s = true -> r16 w -> r16 h ->
     parse_msg hf s (print_resize w h ++ rest) = POk (MResize w h, pst_set_fb s w h) rest) /\
  (forall v c, mem enc_Xvp (p_named s) = true ->
     parse_msg hf s (print_xvp v c ++ rest) = POk (MXvp v c, s) rest).
Proof.
  intros hf s rest. split; [reflexivity|]. split; [|split; [|split; [|split]]].
  - intros d Hd. unfold print_cuttext, parse_msg. cbn [app u8 pbind].
    change (s2c_ServerCutText =? s2c_FramebufferUpdate) with false. change (s2c_ServerCutText =? s2c_SetColourMapEntries) with false.
    change (s2c_ServerCutText =? s2c_Bell) with false. change (s2c_ServerCutText =? s2c_ServerCutText) with true. cbv iota.
    change (skip 3 (0 :: 0 :: 0 :: (p32 (Z.of_nat (length d)) ++ d) ++ rest)) with (POk tt ((p32 (Z.of_nat (length d)) ++ d) ++ rest)).
    cbn [pbind]. rewrite <- app_assoc. rewrite u32_p32 by (unfold r32; lia). cbn [pbind].
    destruct (Z.of_nat (length d) <? 2147483648) eqn:E; [|lia]. rewrite skip_app by reflexivity. reflexivity.
  - intros d Hm Hd. unfold print_cuttext_ext, parse_msg. cbn [app u8 pbind].
    change (s2c_ServerCutText =? s2c_FramebufferUpdate) with false. change (s2c_ServerCutText =? s2c_SetColourMapEntries) with false.
    change (s2c_ServerCutText =? s2c_Bell) with false. change (s2c_ServerCutText =? s2c_ServerCutText) with true. cbv iota.
    change (skip 3 (0 :: 0 :: 0 :: (p32 (4294967296 - Z.of_nat (length d)) ++ d) ++ rest))
      with (POk tt ((p32 (4294967296 - Z.of_nat (length d)) ++ d) ++ rest)).
    cbn [pbind]. rewrite <- app_assoc. rewrite u32_p32 by (unfold r32; lia). cbn [pbind].
    destruct (4294967296 - Z.of_nat (length d) <? 2147483648) eqn:E; [lia|]. cbv zeta. rewrite Hm. cbn [negb].
    replace (4294967296 - (4294967296 - Z.of_nat (length d))) with (Z.of_nat (length d)) by lia.
    destruct (Z.of_nat (length d) <? 4) eqn:E4; [lia|]. rewrite skip_app by reflexivity. reflexivity.
  - intros first entries Htc Hf Hn He. unfold print_cmap, parse_msg. cbn [app u8 pbind].
    change (s2c_SetColourMapEntries =? s2c_FramebufferUpdate) with false.
    change (s2c_SetColourMapEntries =? s2c_SetColourMapEntries) with true. cbv iota. cbn [u8 pbind].
    rewrite <- !app_assoc. rewrite u16_p16 by exact Hf. cbn [pbind]. rewrite u16_p16 by exact Hn. cbn [pbind].
    rewrite Htc. rewrite skip_app by (rewrite (concat_len entries 6 He); reflexivity). reflexivity.
  - intros w h Hs Hw Hh. unfold print_resize, parse_msg. cbn [app u8 pbind].
    change (s2c_ResizeFrameBuffer =? s2c_FramebufferUpdate) with false. change (s2c_ResizeFrameBuffer =? s2c_SetColourMapEntries) with false.
    change (s2c_ResizeFrameBuffer =? s2c_Bell) with false. change (s2c_ResizeFrameBuffer =? s2c_ServerCutText) with false.
    change (s2c_ResizeFrameBuffer =? s2c_ResizeFrameBuffer) with true. cbv iota. cbn [u8 pbind].
    rewrite <- app_assoc. rewrite u16_p16 by exact Hw. cbn [pbind]. rewrite u16_p16 by exact Hh. cbn [pbind].
    rewrite Hs. reflexivity.
  - intros v c Hm. unfold print_xvp, parse_msg. cbn [app u8 pbind].
    change (s2c_Xvp =? s2c_FramebufferUpdate) with false. change (s2c_Xvp =? s2c_SetColourMapEntries) with false.
    change (s2c_Xvp =? s2c_Bell) with false. change (s2c_Xvp =? s2c_ServerCutText) with false.
    change (s2c_Xvp =? s2c_ResizeFrameBuffer) with false. change (s2c_Xvp =? s2c_PalmVNCReSizeFrameBuffer) with false.
    change (s2c_Xvp =? s2c_Xvp) with true. cbv iota. cbn [u8 pbind]. rewrite Hm. reflexivity.
Qed.
