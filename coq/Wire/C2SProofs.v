(* C04 - proofs about the mirror model Wire/C2S.v *)
From LV Require Import Wire.C2S.
Require Import ZifyBool.
Local Open Scope Z_scope.

(* ------------------------------------------------------------------------------------------ *)
(** * rectSwapIfLEAndClip *)

Lemma u16_range : forall v, 0 <= u16 v < 65536.
Proof. intro v. unfold u16. apply Z.mod_pos_bound. lia. Qed.

Lemma clip_inside : forall W H x1 y1 w1 h1 x y w h,
  clip W H x1 y1 w1 h1 = Some (x, y, w, h) ->
  0 <= x < 65536 /\ 0 <= y < 65536 /\ 0 <= w < 65536 /\ 0 <= h < 65536 /\ x + w <= W /\ y + h <= H.
Proof.
  intros W H x1 y1 w1 h1 x y w h Hc. unfold clip in Hc.
  pose proof (u16_range x1) as Hx. pose proof (u16_range y1) as Hy.
  pose proof (u16_range w1) as Hw. pose proof (u16_range h1) as Hh.
  pose proof (u16_range (W - u16 x1)) as Hw2. pose proof (u16_range (H - u16 y1)) as Hh2.
  destruct (u16 w1 >? W - u16 x1) eqn:E1.
  - destruct (u16 (W - u16 x1) >? W - u16 x1) eqn:E2; [discriminate|].
    destruct (u16 h1 >? H - u16 y1) eqn:E3.
    + destruct (u16 (H - u16 y1) >? H - u16 y1) eqn:E4; [discriminate|].
      inversion Hc; subst. lia.
    + destruct (u16 h1 >? H - u16 y1) eqn:E4; [discriminate|].
      inversion Hc; subst. lia.
  - destruct (u16 w1 >? W - u16 x1) eqn:E2; [discriminate|].
    destruct (u16 h1 >? H - u16 y1) eqn:E3.
    + destruct (u16 (H - u16 y1) >? H - u16 y1) eqn:E4; [discriminate|].
      inversion Hc; subst. lia.
    + destruct (u16 h1 >? H - u16 y1) eqn:E4; [discriminate|].
      inversion Hc; subst. lia.
Qed.

(* what it computes when nothing wraps: the intersection with the screen *)
Lemma clip_spec : forall W H x y w h,
  0 <= W < 65536 -> 0 <= H < 65536 ->
  0 <= x < 65536 -> 0 <= y < 65536 -> 0 <= w < 65536 -> 0 <= h < 65536 ->
  clip W H x y w h = if (x >? W) || (y >? H) then None
                     else Some (x, y, Z.min w (W - x), Z.min h (H - y)).
Proof.
  intros W H x y w h HW HH Hx Hy Hw Hh. unfold clip, u16.
  rewrite (Z.mod_small x), (Z.mod_small y), (Z.mod_small w), (Z.mod_small h) by lia.
  destruct (x >? W) eqn:Ex; cbn [orb].
  - (* x beyond the right edge: W - x < 0, wraps to a large value, rejected *)
    assert (Hm : (W - x) mod 65536 = W - x + 65536).
    { symmetry. apply Z.mod_unique_pos with (q := -1); lia. }
    destruct (w >? W - x) eqn:E1; [|lia].
    rewrite Hm. destruct (W - x + 65536 >? W - x) eqn:E2; [reflexivity|lia].
  - destruct (w >? W - x) eqn:E1.
    + rewrite (Z.mod_small (W - x)) by lia.
      destruct (W - x >? W - x) eqn:E2; [lia|].
      destruct (y >? H) eqn:Ey; cbn [orb].
      * assert (Hm : (H - y) mod 65536 = H - y + 65536).
        { symmetry. apply Z.mod_unique_pos with (q := -1); lia. }
        destruct (h >? H - y) eqn:E3; [|lia].
        rewrite Hm. destruct (H - y + 65536 >? H - y) eqn:E4; [reflexivity|lia].
      * destruct (h >? H - y) eqn:E3.
        -- rewrite (Z.mod_small (H - y)) by lia.
           destruct (H - y >? H - y) eqn:E4; [lia|]. f_equal. f_equal; [f_equal|]; lia.
        -- destruct (h >? H - y) eqn:E4; [discriminate|]. f_equal. f_equal; [f_equal|]; lia.
    + destruct (w >? W - x) eqn:E2; [discriminate|].
      destruct (y >? H) eqn:Ey; cbn [orb].
      * assert (Hm : (H - y) mod 65536 = H - y + 65536).
        { symmetry. apply Z.mod_unique_pos with (q := -1); lia. }
        destruct (h >? H - y) eqn:E3; [|lia].
        rewrite Hm. destruct (H - y + 65536 >? H - y) eqn:E4; [reflexivity|lia].
      * destruct (h >? H - y) eqn:E3.
        -- rewrite (Z.mod_small (H - y)) by lia.
           destruct (H - y >? H - y) eqn:E4; [lia|]. f_equal. f_equal; [f_equal|]; lia.
        -- destruct (h >? H - y) eqn:E4; [discriminate|]. f_equal. f_equal; [f_equal|]; lia.
Qed.

(* ------------------------------------------------------------------------------------------ *)
(** * Generic facts about [run]: a predicate on the effect nodes of a program carries over to the
      effects of every run.  [pre l] is what the continuation of a read may assume about the bytes
      it receives (they come from the peer). *)

Definition bytes_ok (l : list Z) : Prop := Forall (fun b => 0 <= b < 256) l.

Fixpoint evs_bytes_ok (l : list event) : Prop :=
  match l with
  | [] => True
  | EData d :: r => bytes_ok d /\ evs_bytes_ok r
  | _ :: r => evs_bytes_ok r
  end.

Definition reader_bytes_ok (r : reader) : Prop := bytes_ok (r_avail r) /\ evs_bytes_ok (r_evs r).

Lemma bytes_ok_app : forall a b, bytes_ok a -> bytes_ok b -> bytes_ok (a ++ b).
Proof. intros. apply Forall_app; auto. Qed.
Lemma bytes_ok_firstn : forall n l, bytes_ok l -> bytes_ok (firstn n l).
Proof.
  induction n; intros l H; cbn; [constructor|]. destruct l; [constructor|].
  inversion H; subst. constructor; auto. apply IHn; auto.
Qed.
Lemma bytes_ok_skipn : forall n l, bytes_ok l -> bytes_ok (skipn n l).
Proof.
  induction n; intros l H; cbn; auto. destruct l; [constructor|]. inversion H; subst. apply IHn; auto.
Qed.

Lemma rd_loop_bytes : forall tmo evs need acc paused st ws o,
  rd_loop tmo evs need acc paused st ws = o ->
  bytes_ok acc -> evs_bytes_ok evs ->
  reader_bytes_ok (ro_rd o) /\ (forall l, ro_res o = ROk l -> bytes_ok l).
Proof.
  intros tmo evs. induction evs as [|e r IH]; intros need acc paused st ws o Ho Hacc Hev; cbn in Ho.
  - subst o. cbn. split; [split; [constructor|exact I]|]. intros l H; discriminate.
  - destruct e.
    + destruct Hev as [Hd Hr].
      destruct (need <=? length l)%nat.
      * subst o. cbn. split.
        -- split; cbn; [apply bytes_ok_skipn; auto|auto].
        -- intros l0 H. inversion H; subst. apply bytes_ok_app; auto. apply bytes_ok_firstn; auto.
      * eapply IH; eauto. apply bytes_ok_app; auto.
    + destruct (tmo <=? paused + t).
      * subst o. cbn. split; [split; [constructor|exact Hev]|]. intros l H; discriminate.
      * eapply IH; eauto.
    + subst o. cbn. split; [split; [constructor|exact Hev]|]. intros l H; discriminate.
    + subst o. cbn. split; [split; [constructor|exact Hev]|]. intros l H; discriminate.
    + eapply IH; eauto.
Qed.

Lemma take_z_spec : forall l n, 0 <= n ->
  take_z n l = if (Z.to_nat n <=? length l)%nat
               then Some (firstn (Z.to_nat n) l, skipn (Z.to_nat n) l) else None.
Proof.
  induction l as [|b r IH]; intros n Hn; cbn [take_z].
  - destruct (n =? 0) eqn:E.
    + assert (n = 0) by lia. subst. reflexivity.
    + destruct (Z.to_nat n) eqn:E2; [lia|]. reflexivity.
  - destruct (n =? 0) eqn:E.
    + assert (n = 0) by lia. subst. reflexivity.
    + rewrite IH by lia. replace (Z.to_nat n) with (S (Z.to_nat (n - 1))) by lia.
      cbn [length Nat.leb firstn skipn]. destruct (Z.to_nat (n - 1) <=? length r)%nat; reflexivity.
Qed.

Lemma read_exact_eq : forall tmo n r, read_exact tmo n r = read_exact_ref tmo n r.
Proof.
  intros tmo n r. unfold read_exact, read_exact_ref.
  destruct (n <=? 0) eqn:E0; [reflexivity|]. destruct (r_dead r); [reflexivity|].
  rewrite take_z_spec by lia.
  set (tot := (length (r_avail r) + ev_bytes (r_evs r))%nat).
  destruct (Z.to_nat n <=? length (r_avail r))%nat eqn:E1.
  - apply Nat.leb_le in E1.
    assert (Hneed : Z.to_nat (Z.min n (Z.of_nat (S tot))) = Z.to_nat n) by (unfold tot; lia).
    rewrite Hneed. apply Nat.leb_le in E1. rewrite E1. reflexivity.
  - apply Nat.leb_gt in E1.
    assert (E2 : (Z.to_nat (Z.min n (Z.of_nat (S tot))) <=? length (r_avail r))%nat = false).
    { apply Nat.leb_gt. unfold tot. lia. }
    rewrite E2. reflexivity.
Qed.

Lemma read_exact_bytes : forall tmo n r,
  reader_bytes_ok r ->
  reader_bytes_ok (ro_rd (read_exact tmo n r)) /\
  (forall l, ro_res (read_exact tmo n r) = ROk l -> bytes_ok l).
Proof.
  intros tmo n r [Ha He]. rewrite read_exact_eq. unfold read_exact_ref.
  destruct (n <=? 0).
  { cbn. split; [split; auto|]. intros l H; inversion H; constructor. }
  destruct (r_dead r).
  { cbn. split; [split; auto|]. intros l H; discriminate. }
  destruct (_ <=? length (r_avail r))%nat.
  { cbn. split; [split; cbn; [apply bytes_ok_skipn; auto|auto]|].
    intros l H; inversion H; subst. apply bytes_ok_firstn; auto. }
  destruct (r_eof r).
  { cbn. split; [split; cbn; [constructor|auto]|]. intros l H; discriminate. }
  destruct (r_reset r).
  { cbn. split; [split; cbn; [constructor|auto]|]. intros l H; discriminate. }
  eapply rd_loop_bytes; eauto.
Qed.

Lemma kill_bytes : forall r, reader_bytes_ok r -> reader_bytes_ok (kill r).
Proof. intros r [A B]. split; cbn; auto. Qed.

Section RunPred.
  Variable Qn : effect -> Prop.         (* what every effect node (Em) of the program satisfies *)
  Variable Q : effect -> Prop.          (* what every effect of a run then satisfies *)
  Hypothesis Qn_Q : forall e, Qn e -> Q e.
  Hypothesis Q_wait : forall t, Q (Wait t).
  Hypothesis Q_close : Q Close.
  Hypothesis Q_write : forall n, Q (Write n).

  Inductive eff_ok {A : Type} : prog A -> Prop :=
  | eo_ret : forall a, eff_ok (Ret a)
  | eo_rd : forall n sf k, (forall l, bytes_ok l -> eff_ok (k l)) -> eff_ok (Rd n sf k)
  | eo_wr : forall n k, (forall b, eff_ok (k b)) -> eff_ok (Wr n k)
  | eo_em : forall e k, Qn e -> eff_ok k -> eff_ok (Em e k).

  Lemma Forall_map_wait : forall ws, Forall Q (map Wait ws).
  Proof. induction ws; cbn; constructor; auto. Qed.

  Lemma stall_waits_ok : forall c, Forall Q (stall_waits c).
  Proof. intro c. unfold stall_waits. induction (stall_slices c); cbn; constructor; auto. Qed.

  Lemma run_eff_ok : forall A c (p : prog A) r v r' eff,
    eff_ok p -> reader_bytes_ok r -> run c p r = (v, r', eff) ->
    Forall Q eff /\ reader_bytes_ok r'.
  Proof.
    intros A c p. induction p as [a|n sf k IH|n k IH|e k IH]; intros r v r' eff Hok Hr Hrun; cbn in Hrun.
    - inversion Hrun; subst. split; [constructor|auto].
    - inversion Hok as [|n0 sf0 k0 Hk| |]; subst.
      destruct (read_exact_bytes (timeout_of c) n r Hr) as [Hr1 Hl].
      destruct (ro_res (read_exact (timeout_of c) n r)) eqn:Eres.
      + destruct (run c (k l) (ro_rd (read_exact (timeout_of c) n r))) as [[v1 r1] e1] eqn:E1.
        inversion Hrun; subst.
        destruct (IH l _ _ _ _ (Hk l (Hl l eq_refl)) Hr1 E1) as [F1 R1].
        split; auto. apply Forall_app; split; auto. apply Forall_map_wait.
      + inversion Hrun; subst. split; [|apply kill_bytes; auto].
        apply Forall_app; split; [apply Forall_map_wait|constructor; auto].
      + inversion Hrun; subst. split; [|apply kill_bytes; auto].
        apply Forall_app; split; [apply Forall_map_wait|constructor; auto].
    - inversion Hok as [| |n0 k0 Hk|]; subst.
      destruct (n <=? 0).
      { destruct (run c (k true) r) as [[v1 r1] e1] eqn:E1. inversion Hrun; subst. eapply IH; eauto. }
      destruct (r_dead r).
      { destruct (run c (k false) r) as [[v1 r1] e1] eqn:E1. inversion Hrun; subst. eapply IH; eauto. }
      destruct (r_stalled r).
      { destruct (run c (k false) r) as [[v1 r1] e1] eqn:E1. inversion Hrun; subst.
        destruct (IH false _ _ _ _ (Hk false) Hr E1) as [F1 R1]. split; auto.
        apply Forall_app; split; auto. apply stall_waits_ok. }
      destruct (run c (k true) r) as [[v1 r1] e1] eqn:E1. inversion Hrun; subst.
      destruct (IH true _ _ _ _ (Hk true) Hr E1) as [F1 R1]. split; auto.
    - inversion Hok as [| | |e0 k0 Hq Hk]; subst.
      destruct (is_div0 e || is_bad_index e || is_opaque e).
      { inversion Hrun; subst. split; [constructor; auto|auto]. }
      destruct (run c k (if is_close e then kill r else r)) as [[v1 r1] e1] eqn:E1.
      inversion Hrun; subst.
      assert (Hr2 : reader_bytes_ok (if is_close e then kill r else r)).
      { destruct (is_close e); auto. }
      destruct (IH _ _ _ _ Hk Hr2 E1) as [F1 R1]. split; auto.
  Qed.
End RunPred.

(* ------------------------------------------------------------------------------------------ *)
(** * Handlers: every allocation is bounded, no division by zero, every buffer index in range *)

Ltac Zify.zify_post_hook ::= Z.div_mod_to_equations.

Definition fb_bytes (c : cfg) : Z := pad4 (cf_w c * (cf_bpp c / 8)) * cf_h c.

(* the configurations the model is claimed for: a screen the protocol can describe (16-bit dimensions),
   one of the two server depths the correspondence run compares (8 and 32 bits per pixel; 16 is run under
   the sanitizers only), a frame buffer whose size fits the C int sizeInBytes *)
Definition cfg_ok (c : cfg) : Prop :=
  0 < cf_w c /\ 0 < cf_h c /\ 0 <= cf_bpp c /\ 0 <= cf_wait c /\
  cf_w c <= 65535 /\ cf_h c <= 65535 /\ (cf_bpp c = 8 \/ cf_bpp c = 32) /\ fb_bytes c <= c04_int_max.

(* the largest allocation one message may cause *)
Definition msg_bound (c : cfg) : Z :=
  if cf_ft c then c04_int_max + 1 else Z.max c04_cut_text_limit (Z.max c04_ext_clip_limit c04_ext_cut_msg_limit).
Definition alloc_bound (c : cfg) : Z :=
  Z.max (msg_bound c) (Z.max c04_sizeof_screen (fb_bytes c)).

Definition is_wait (e : effect) : bool := match e with Wait _ => true | _ => false end.

Definition q_alloc (c : cfg) (e : effect) : Prop :=
  match e with Alloc n => n <= alloc_bound c | _ => True end.

(* no division by zero, no index out of range, (and nothing else required) *)
Definition q_safe (e : effect) : Prop := is_div0 e = false /\ is_bad_index e = false.

Definition q_both (c : cfg) (e : effect) : Prop := q_alloc c e /\ q_safe e.
(* what the handlers' own effect nodes satisfy: additionally they are never Waits (waits only come
   from the reads and writes) *)
Definition q_node (c : cfg) (e : effect) : Prop := q_both c e /\ is_wait e = false.

Lemma pad4_eq : forall v, pad4 v = 4 * ((v + 3) / 4).
Proof. intro v. unfold pad4. destruct (v mod 4 =? 0) eqn:E; lia. Qed.
Lemma pad4_mono : forall a b, a <= b -> pad4 a <= pad4 b.
Proof. intros a b H. rewrite !pad4_eq. assert ((a + 3) / 4 <= (b + 3) / 4) by (apply Z.div_le_mono; lia). lia. Qed.
Lemma pad4_nonneg : forall a, 0 <= a -> 0 <= pad4 a.
Proof. intros a H. rewrite pad4_eq. assert (0 <= (a + 3) / 4) by (apply Z.div_pos; lia). lia. Qed.

Lemma nthb_range : forall l i, bytes_ok l -> 0 <= nthb l i < 256.
Proof.
  intros l i H. unfold nthb. revert i. induction H; intro i; destruct i; cbn; try lia; auto.
Qed.

Lemma scaled_fb_le : forall c f, cfg_ok c -> 1 <= f ->
  0 <= pad4 (cf_w c / f * (cf_bpp c / 8)) * (cf_h c / f) <= fb_bytes c.
Proof.
  intros c f (HW & HH & HB & _) Hf. unfold fb_bytes.
  assert (0 <= cf_w c / f <= cf_w c).
  { split; [apply Z.div_pos; lia|]. apply Z.div_le_upper_bound; nia. }
  assert (0 <= cf_h c / f <= cf_h c).
  { split; [apply Z.div_pos; lia|]. apply Z.div_le_upper_bound; nia. }
  assert (0 <= cf_bpp c / 8) by (apply Z.div_pos; lia).
  assert (0 <= pad4 (cf_w c / f * (cf_bpp c / 8)) <= pad4 (cf_w c * (cf_bpp c / 8))).
  { split; [apply pad4_nonneg; nia|apply pad4_mono; nia]. }
  nia.
Qed.

Lemma be_acc_nonneg : forall l a, 0 <= a -> bytes_ok l -> 0 <= be_acc a l.
Proof. induction l as [|b r IH]; intros a Ha Hl; cbn; auto. inversion Hl; subst. apply IH; auto. nia. Qed.
Lemma be_nonneg : forall l, bytes_ok l -> 0 <= be l.
Proof. intros. apply be_acc_nonneg; auto. lia. Qed.
Lemma bytes_ok_sub : forall l a n, bytes_ok l -> bytes_ok (sub l a n).
Proof. intros. unfold sub. apply bytes_ok_firstn. apply bytes_ok_skipn. auto. Qed.

Lemma popcount16_from_nonneg : forall v n, 0 <= popcount16_from v n.
Proof. induction n; cbn [popcount16_from]; [lia|]. destruct (testbit v (Z.of_nat n)); lia. Qed.
Lemma popcount16_from_bit0 : forall v n, (0 < n)%nat -> testbit v 0 = true -> 1 <= popcount16_from v n.
Proof.
  induction n; intros Hn Hb; [lia|]. cbn [popcount16_from].
  destruct n.
  - cbn [Z.of_nat]. rewrite Hb. cbn. lia.
  - pose proof (IHn ltac:(lia) Hb). destruct (testbit v (Z.of_nat (S n))); lia.
Qed.

Section HandlerProofs.
  Variable o_corr_f : Z -> Z -> Z -> Z -> Z -> Z -> Z -> Z -> rect4.
  Variable o_scale : Z -> Z -> Z -> Z.
  Variable o_inflate : Z -> list Z -> zres.
  Variable o_pw : list Z -> bool.
  Variable c : cfg.
  Hypothesis Hc : cfg_ok c.

  Let Q := q_node c.
  Lemma Q_close : Q Close. Proof. split; [split; [exact I|split; reflexivity]|reflexivity]. Qed.
  Lemma Q_write : forall n, Q (Write n). Proof. intro; split; [split; [exact I|split; reflexivity]|reflexivity]. Qed.
  Lemma Q_cb : forall x, Q (Callback x). Proof. intro; split; [split; [exact I|split; reflexivity]|reflexivity]. Qed.
  Lemma Q_opaque : Q Opaque. Proof. split; [split; [exact I|split; reflexivity]|reflexivity]. Qed.
  Lemma Q_alloc : forall n, n <= alloc_bound c -> Q (Alloc n).
  Proof. intros n H; split; [split; [exact H|split; reflexivity]|reflexivity]. Qed.
  Lemma Q_index : forall size i, 0 <= i < size -> Q (Index size i).
  Proof.
    intros size i H; split; [|reflexivity]. split; [exact I|split; [reflexivity|]]. cbn.
    destruct (0 <=? i) eqn:A; destruct (i <? size) eqn:B; cbn; try reflexivity; lia.
  Qed.

  Lemma Q_div : forall a b, b <> 0 -> Q (Div a b).
  Proof.
    intros a b H; split; [|reflexivity]. split; [exact I|split; [|reflexivity]]. cbn. lia.
  Qed.

  Lemma bound_ge_small : forall n, n <= c04_sizeof_screen -> n <= alloc_bound c.
  Proof.
    intros n H. unfold alloc_bound. lia.
  Qed.

  Lemma bound_ge_text : forall n, n <= c04_text_max -> n <= alloc_bound c.
  Proof.
    intros n H. unfold alloc_bound, msg_bound.
    assert (c04_text_max <= c04_cut_text_limit <= c04_int_max) by (vm_compute; split; discriminate).
    destruct (cf_ft c); lia.
  Qed.

  Ltac eo_step :=
    first
      [ apply eo_ret
      | apply eo_rd; intros ? ?
      | apply eo_wr; intros ?
      | apply eo_em
      | match goal with
        | |- eff_ok _ (if ?b then _ else _) => destruct b eqn:?
        | |- eff_ok _ (match ?x with _ => _ end) => destruct x eqn:?
        | |- Q (Callback _) => apply Q_cb
        | |- Q Close => apply Q_close
        | |- Q Opaque => apply Q_opaque
        | |- Q (Write _) => apply Q_write
        end ].
  Ltac eo := unfold rd_msg, rd, wr_or_close, closeP; repeat eo_step.

  Lemma msg_index_ok : forall sz, 1 <= sz <= c04_sizeof_msg -> Q (Index c04_sizeof_msg (sz - 1)).
  Proof. intros sz H. apply Q_index. lia. Qed.

  Ltac szok := apply msg_index_ok; vm_compute; split; discriminate.

  Lemma ok_server_init : forall s, eff_ok Q (server_init c s).
  Proof. intro s. unfold server_init. eo. Qed.
  Lemma ok_send_challenge : forall s, eff_ok Q (send_challenge s).
  Proof. intro s. unfold send_challenge. eo. Qed.
  Lemma ok_proto_version : forall s, eff_ok Q (proto_version c s).
  Proof. intro s. unfold proto_version. eo. apply Q_index. vm_compute. split; [discriminate|reflexivity]. Qed.
  Lemma ok_security_type : forall s, eff_ok Q (security_type c s).
  Proof. intro s. unfold security_type. eo. Qed.
  Lemma ok_auth_msg : forall s, eff_ok Q (auth_msg o_pw s).
  Proof.
    intro s. unfold auth_msg. eo. apply Q_alloc. apply bound_ge_small. vm_compute; discriminate.
  Qed.
  Lemma ok_init_msg : forall s, eff_ok Q (init_msg c s).
  Proof. intro s. unfold init_msg. eo. Qed.

  Lemma ok_SetPixelFormat : forall s, eff_ok Q (h_SetPixelFormat c s).
  Proof. intro s. unfold h_SetPixelFormat. eo. szok. Qed.
  Lemma ok_FixColourMapEntries : forall s, eff_ok Q (h_FixColourMapEntries s).
  Proof. intro s. unfold h_FixColourMapEntries. eo. szok. Qed.
  Lemma ok_KeyEvent : forall s, eff_ok Q (h_KeyEvent c s).
  Proof. intro s. unfold h_KeyEvent. eo. szok. Qed.
  Lemma ok_PointerEvent : forall s, eff_ok Q (h_PointerEvent o_scale c s).
  Proof. intro s. unfold h_PointerEvent. eo. szok. Qed.
  Lemma ok_SetSW : forall s, eff_ok Q (h_SetSW s).
  Proof. intro s. unfold h_SetSW. eo. szok. Qed.
  Lemma ok_SetServerInput : forall s, eff_ok Q (h_SetServerInput s).
  Proof. intro s. unfold h_SetServerInput. eo. szok. Qed.
  Lemma ok_Xvp : forall s, eff_ok Q (h_Xvp c s).
  Proof. intro s. unfold h_Xvp. eo. szok. Qed.

  Lemma ok_FUR : forall s, eff_ok Q (h_FUR o_corr_f c s).
  Proof.
    intro s. unfold h_FUR. eo. szok.
  Qed.

  Lemma ok_TextChat : forall s, eff_ok Q (h_TextChat s).
  Proof.
    intro s. unfold h_TextChat. eo. szok.
    apply Q_alloc. apply bound_ge_text. lia.
  Qed.

  Lemma ok_ext_provide : forall steps s first, eff_ok Q (ext_provide c s steps first).
  Proof.
    induction steps as [|[size ok] r IH]; intros s first; cbn [ext_provide]; [apply eo_ret|].
    eo; try apply IH.
    all: apply Q_alloc; unfold alloc_bound, msg_bound; destruct (cf_ft c);
      [assert (c04_ext_clip_limit <= c04_int_max) by (vm_compute; discriminate); lia | lia].
  Qed.

  Lemma ok_ClientCutText : forall s, eff_ok Q (h_ClientCutText o_inflate c s).
  Proof.
    intro s. unfold h_ClientCutText. eo; try apply ok_ext_provide. szok.
    - match goal with Hlen : cut_refused ?e ?len = false |- _ =>
        remember len as L eqn:EL; clear EL; remember e as E eqn:EE; clear EE; unfold cut_refused in Hlen end.
      apply Q_alloc. unfold alloc_bound, msg_bound.
      assert (1 <= c04_cut_text_limit <= c04_int_max) by (vm_compute; split; discriminate).
      assert (1 <= c04_ext_cut_msg_limit <= c04_int_max) by (vm_compute; split; discriminate).
      destruct (cf_ft c); destruct (L =? 0) eqn:?; destruct E; cbn [andb] in *;
        try (destruct (L <=? c04_ext_cut_msg_limit) eqn:?); lia.
    - apply Q_index. lia.
    - apply Q_index.
      match goal with Ht : testbit ?f 0 = true |- _ => pose proof (popcount16_from_bit0 f 16 ltac:(lia) Ht) as Hp end.
      unfold popcount16 in *. lia.
  Qed.

  Lemma ok_FileTransfer : forall s, eff_ok Q (h_FileTransfer c s).
  Proof.
    intro s. unfold h_FileTransfer, ft_rest. eo. szok.
    - apply Q_alloc. unfold alloc_bound, msg_bound.
      match goal with H : negb (cf_ft c) = false |- _ => destruct (cf_ft c); [|discriminate H] end. lia.
    - apply Q_index.
      match goal with H : bytes_ok ?m |- context [be (sub ?m 7 4)] => pose proof (be_nonneg _ (bytes_ok_sub m 7 4 H)) end. lia.
  Qed.

  Lemma ok_index_all : forall n size k, (Z.of_nat n <= size) -> eff_ok Q k -> eff_ok Q (index_all size n k).
  Proof.
    induction n; intros size k Hn Hk; cbn [index_all]; auto.
    apply IHn; [lia|]. apply eo_em; auto. apply Q_index. lia.
  Qed.

  Lemma ok_SetDesktopSize : forall s, eff_ok Q (h_SetDesktopSize c s).
  Proof.
    intro s. unfold h_SetDesktopSize. eo. szok.
    - apply Q_alloc. apply bound_ge_text.
      match goal with H : bytes_ok ?m |- context [nthb ?m 5] => pose proof (nthb_range m 5 H) end.
      assert (255 * c04_sz_ExtDesktopScreen <= c04_text_max /\ 0 <= c04_sz_ExtDesktopScreen) by (vm_compute; split; discriminate).
      nia.
    - apply ok_index_all.
      + match goal with H : bytes_ok ?m |- context [nthb ?m 5] => pose proof (nthb_range m 5 H) end. lia.
      + eo.
  Qed.

  Lemma ok_enc_loop : forall n s last e, eff_ok Q (enc_loop c n s last e).
  Proof.
    induction n as [|m IH]; intros s last e; cbn [enc_loop]; [apply eo_ret|].
    apply eo_rd; intros b Hb.
    repeat match goal with
           | |- eff_ok _ (if ?b then _ else _) => destruct b eqn:?
           end; try apply IH.
    - apply eo_wr; intros ok. destruct ok; [apply IH|]. apply eo_em; [apply Q_close|apply IH].
    - apply eo_wr; intros ok. destruct ok; [apply IH|]. unfold closeP. eo.
    - apply eo_em; [|apply IH]. apply Q_index.
      match goal with H : (_ && _) = true |- _ => apply andb_prop in H; destruct H end.
      (* the quality range of rfbproto.h and the length of tight2turbo_qual[], both regenerated *)
      assert (Hq0 : c04_e_QualityLevel0 mod 16 = 0 /\ c04_e_QualityLevel9 - c04_e_QualityLevel0 < Z.of_nat (length c04_turbo_qual) <= 16)
        by (vm_compute; repeat split; congruence).
      destruct Hq0 as (Hq0 & Hq1 & Hq2). lia.
  Qed.

  Lemma ok_SetEncodings : forall s, eff_ok Q (h_SetEncodings c s).
  Proof. intro s. unfold h_SetEncodings. eo. szok. apply ok_enc_loop. Qed.

  Lemma ok_do_scale : forall s f, 1 <= f -> eff_ok Q (do_scale c s f).
  Proof.
    intros s f Hf. unfold do_scale. eo.
    all: try (apply Q_alloc; apply bound_ge_small; lia).
    apply Q_alloc. pose proof (scaled_fb_le c f Hc Hf) as Hb. unfold alloc_bound. lia.
  Qed.

  Lemma ok_SetScale : forall palm s, eff_ok Q (h_SetScale c palm s).
  Proof.
    intros palm s. unfold h_SetScale. eo. szok.
    - apply Q_div. lia.
    - apply Q_div. lia.
    - apply ok_do_scale.
      match goal with H : bytes_ok ?m |- context [nthb ?m 0] => pose proof (nthb_range m 0 H) end. lia.
  Qed.

  Lemma ok_normal_msg : forall s, eff_ok Q (normal_msg o_corr_f o_scale o_inflate c s).
  Proof.
    intro s. unfold normal_msg. apply eo_rd; intros t Ht.
    repeat match goal with |- eff_ok _ (if ?b then _ else _) => destruct b eqn:? end.
    - apply ok_SetPixelFormat. - apply ok_FixColourMapEntries. - apply ok_SetEncodings.
    - apply ok_FUR. - apply ok_KeyEvent. - apply ok_PointerEvent. - apply ok_FileTransfer.
    - apply ok_SetSW. - apply ok_SetServerInput. - apply ok_TextChat. - apply ok_ClientCutText.
    - apply ok_SetScale. - apply ok_SetScale. - apply ok_Xvp. - apply ok_SetDesktopSize.
    - unfold closeP. eo.
  Qed.

  Lemma ok_message : forall s, eff_ok Q (message o_corr_f o_scale o_inflate o_pw c s).
  Proof.
    intro s. unfold message.
    repeat match goal with |- eff_ok _ (if ?b then _ else _) => destruct b eqn:? end.
    - apply ok_proto_version. - apply ok_security_type. - apply ok_auth_msg. - apply ok_init_msg.
    - apply ok_normal_msg.
  Qed.

  (* every effect of one rfbProcessClientMessage call is a bounded allocation / a safe access *)
  Lemma process_message_ok : forall s r v r' eff,
    reader_bytes_ok r ->
    process_message o_corr_f o_scale o_inflate o_pw c s r = (v, r', eff) ->
    Forall (q_both c) eff /\ reader_bytes_ok r'.
  Proof.
    intros s r v r' eff Hr H. unfold process_message in H.
    eapply (run_eff_ok (q_node c) (q_both c)); eauto using ok_message.
    - intros e [He _]; exact He.
    - intro t; split; [exact I|split; reflexivity].
    - split; [exact I|split; reflexivity].
    - intro n; split; [exact I|split; reflexivity].
  Qed.
End HandlerProofs.


(* ------------------------------------------------------------------------------------------ *)
(** * Waits: each bounded by the configured client-wait time, their number by the bytes consumed *)

Fixpoint evs_wf (l : list event) : Prop :=
  match l with
  | [] => True
  | EData d :: r => d <> [] /\ evs_wf r
  | EPause t :: r => 0 < t /\ evs_wf r
  | _ :: r => evs_wf r
  end.

Fixpoint stall_free (l : list event) : Prop :=
  match l with [] => True | EStall :: _ => False | _ :: r => stall_free r end.

Definition rbytes (r : reader) : nat := (length (r_avail r) + ev_bytes (r_evs r))%nat.

Definition count_wait (l : list effect) : nat := length (filter is_wait l).
Fixpoint sum_wait (l : list effect) : Z :=
  match l with [] => 0 | Wait t :: r => t + sum_wait r | _ :: r => sum_wait r end.

Definition wait_le (B : Z) (e : effect) : Prop := match e with Wait t => 0 <= t <= B | _ => True end.

Lemma rd_loop_waits : forall tmo evs need acc paused st ws,
  0 < tmo -> evs_wf evs -> 0 <= paused < tmo -> Forall (fun t => 0 <= t <= tmo) ws ->
  Forall (fun t => 0 <= t <= tmo) (ro_waits (rd_loop tmo evs need acc paused st ws)).
Proof.
  intros tmo evs. induction evs as [|e r IH]; intros need acc paused st ws Ht Hwf Hp Hws; cbn.
  - apply Forall_app; split; auto. constructor; [lia|constructor].
  - destruct e; cbn in Hwf.
    + destruct Hwf as [Hd Hr]. destruct (need <=? length l)%nat; cbn.
      * apply Forall_app; split; auto. constructor; [lia|constructor].
      * apply IH; auto; [lia|]. apply Forall_app; split; auto. constructor; [lia|constructor].
    + destruct Hwf as [Hd Hr]. destruct (tmo <=? paused + t) eqn:E; cbn.
      * apply Forall_app; split; auto. constructor; [lia|constructor].
      * apply IH; auto. lia.
    + apply Forall_app; split; auto. constructor; [lia|constructor].
    + apply Forall_app; split; auto. constructor; [lia|constructor].
    + apply IH; auto.
Qed.

Lemma read_exact_waits : forall tmo n r,
  0 < tmo -> evs_wf (r_evs r) ->
  Forall (fun t => 0 <= t <= tmo) (ro_waits (read_exact tmo n r)).
Proof.
  intros tmo n r Ht Hwf. rewrite read_exact_eq. unfold read_exact_ref.
  repeat match goal with |- context [if ?b then _ else _] => destruct b end; cbn; try (constructor; fail).
  apply rd_loop_waits; auto; try lia.
Qed.

Lemma rd_loop_evs_wf : forall tmo evs need acc paused st ws,
  evs_wf evs -> evs_wf (r_evs (ro_rd (rd_loop tmo evs need acc paused st ws))).
Proof.
  intros tmo evs. induction evs as [|e r IH]; intros need acc paused st ws Hwf; cbn; auto.
  destruct e; cbn in Hwf.
  - destruct Hwf. destruct (need <=? length l)%nat; cbn; auto.
  - destruct Hwf. destruct (tmo <=? paused + t); cbn; auto.
  - cbn; auto.
  - cbn; auto.
  - auto.
Qed.

Lemma read_exact_evs_wf : forall tmo n r,
  evs_wf (r_evs r) -> evs_wf (r_evs (ro_rd (read_exact tmo n r))).
Proof.
  intros tmo n r Hwf. rewrite read_exact_eq. unfold read_exact_ref.
  repeat match goal with |- context [if ?b then _ else _] => destruct b end; cbn; auto.
  apply rd_loop_evs_wf; auto.
Qed.

Lemma eff_ok_mono : forall (P P' : effect -> Prop) A (p : prog A),
  (forall e, P e -> P' e) -> eff_ok P p -> eff_ok P' p.
Proof.
  intros P P' A p HPP. induction p as [a|n sf k IH|n k IH|e k IH]; intro Hok; inversion Hok; subst; constructor; auto.
Qed.

Definition no_wait (e : effect) : Prop := is_wait e = false.

Lemma map_wait_le : forall B B' ws,
  Forall (fun t => 0 <= t <= B') ws -> B' <= B -> Forall (wait_le B) (map Wait ws).
Proof.
  intros B B' ws H HB. induction H; cbn; constructor; auto. cbn. lia.
Qed.

(* each wait of a run is within max(client-wait time, one write slice) *)
Lemma run_wait_each : forall A c (p : prog A) r v r' eff,
  cfg_ok c -> eff_ok no_wait p -> evs_wf (r_evs r) -> reader_bytes_ok r -> run c p r = (v, r', eff) ->
  Forall (wait_le (Z.max (timeout_of c) c04_write_slice_ms)) eff /\ evs_wf (r_evs r').
Proof.
  intros A c p. induction p as [a|n sf k IH|n k IH|e k IH]; intros r v r' eff Hc Hnw Hwf Hr Hrun; cbn in Hrun.
  - inversion Hrun; subst. split; [constructor|auto].
  - inversion Hnw as [|n0 sf0 k0 Hk| |]; subst.
    assert (Ht : 0 < timeout_of c).
    { unfold timeout_of. destruct Hc as (_ & _ & _ & Hw). destruct (cf_wait c =? 0) eqn:E; [vm_compute; reflexivity|lia]. }
    pose proof (read_exact_waits (timeout_of c) n r Ht Hwf) as Hws.
    pose proof (read_exact_evs_wf (timeout_of c) n r Hwf) as Hwf1.
    assert (Hmap : Forall (wait_le (Z.max (timeout_of c) c04_write_slice_ms)) (map Wait (ro_waits (read_exact (timeout_of c) n r)))).
    { eapply map_wait_le; eauto. lia. }
    destruct (ro_res (read_exact (timeout_of c) n r)) eqn:Eres.
    + destruct (run c (k l) (ro_rd (read_exact (timeout_of c) n r))) as [[v1 r1] e1] eqn:E1.
      inversion Hrun; subst.
      destruct (read_exact_bytes (timeout_of c) n r Hr) as [Hr1 Hl]. rewrite Eres in Hl.
      destruct (IH l _ _ _ _ Hc (Hk l (Hl l eq_refl)) Hwf1 Hr1 E1) as [F1 W1].
      split; auto. apply Forall_app; split; auto.
    + inversion Hrun; subst. split; [|exact Hwf1]. apply Forall_app; split; auto. constructor; [exact I|constructor].
    + inversion Hrun; subst. split; [|exact Hwf1]. apply Forall_app; split; auto. constructor; [exact I|constructor].
  - inversion Hnw as [| |n0 k0 Hk|]; subst.
    destruct (n <=? 0).
    { destruct (run c (k true) r) as [[v1 r1] e1] eqn:E1. inversion Hrun; subst. eapply IH; eauto. }
    destruct (r_dead r).
    { destruct (run c (k false) r) as [[v1 r1] e1] eqn:E1. inversion Hrun; subst. eapply IH; eauto. }
    destruct (r_stalled r).
    { destruct (run c (k false) r) as [[v1 r1] e1] eqn:E1. inversion Hrun; subst.
      destruct (IH false _ _ _ _ Hc (Hk false) Hwf Hr E1) as [F1 W1]. split; auto.
      apply Forall_app; split; auto. unfold stall_waits.
      assert (0 <= c04_write_slice_ms) by (vm_compute; discriminate).
      induction (stall_slices c); cbn; constructor; auto. cbn. lia. }
    destruct (run c (k true) r) as [[v1 r1] e1] eqn:E1. inversion Hrun; subst.
    destruct (IH true _ _ _ _ Hc (Hk true) Hwf Hr E1) as [F1 W1]. split; auto. constructor; [exact I|auto].
  - inversion Hnw as [| | |e0 k0 Hq Hk]; subst.
    assert (He : wait_le (Z.max (timeout_of c) c04_write_slice_ms) e).
    { destruct e; cbn; try exact I. discriminate Hq. }
    destruct (is_div0 e || is_bad_index e || is_opaque e) eqn:Ebad.
    { inversion Hrun; subst. split; auto. }
    destruct (run c k (if is_close e then kill r else r)) as [[v1 r1] e1] eqn:E1.
    inversion Hrun; subst.
    assert (Hwf2 : evs_wf (r_evs (if is_close e then kill r else r))) by (destruct (is_close e); auto).
    assert (Hr2 : reader_bytes_ok (if is_close e then kill r else r)) by (destruct (is_close e); auto).
    destruct (IH _ _ _ _ Hc Hk Hwf2 Hr2 E1) as [F1 W1]. split; auto.
Qed.

Lemma rd_loop_count : forall tmo evs need acc paused st ws,
  evs_wf evs -> (0 < need)%nat ->
  (length (ro_waits (rd_loop tmo evs need acc paused st ws)) + rbytes (ro_rd (rd_loop tmo evs need acc paused st ws))
   <= length ws + ev_bytes evs +
      match ro_res (rd_loop tmo evs need acc paused st ws) with ROk _ => 0 | _ => 1 end)%nat.
Proof.
  intros tmo evs. induction evs as [|e r IH]; intros need acc paused st ws Hwf Hn; cbn [rd_loop].
  - cbn. rewrite app_length. cbn. unfold rbytes. cbn. lia.
  - destruct e; cbn in Hwf.
    + destruct Hwf as [Hd Hr]. assert (0 < length l)%nat by (destruct l; [congruence|cbn; lia]).
      destruct (need <=? length l)%nat eqn:E.
      * cbn. rewrite app_length. unfold rbytes. cbn. rewrite skipn_length.
        apply Nat.leb_le in E. lia.
      * apply Nat.leb_gt in E.
        specialize (IH (need - length l)%nat (acc ++ l) 0 st (ws ++ [paused]) Hr ltac:(lia)).
        rewrite app_length in IH. cbn in IH. cbn [ev_bytes]. lia.
    + destruct Hwf as [Hd Hr]. destruct (tmo <=? paused + t).
      * cbn. rewrite app_length. unfold rbytes. cbn. lia.
      * specialize (IH need acc (paused + t) st ws Hr Hn). cbn [ev_bytes]. lia.
    + cbn. rewrite app_length. unfold rbytes. cbn. lia.
    + cbn. rewrite app_length. unfold rbytes. cbn. lia.
    + specialize (IH need acc paused true ws Hwf Hn). cbn [ev_bytes]. lia.
Qed.

Lemma read_exact_count : forall tmo n r,
  evs_wf (r_evs r) ->
  (length (ro_waits (read_exact tmo n r)) + rbytes (ro_rd (read_exact tmo n r))
   <= rbytes r + match ro_res (read_exact tmo n r) with ROk _ => 0 | _ => 1 end)%nat.
Proof.
  intros tmo n r Hwf. rewrite read_exact_eq. unfold read_exact_ref.
  destruct (n <=? 0); [cbn; lia|].
  destruct (r_dead r); [cbn; lia|].
  set (need := Z.to_nat (Z.min n (Z.of_nat (S (length (r_avail r) + ev_bytes (r_evs r)))))).
  destruct (need <=? length (r_avail r))%nat eqn:E.
  { cbn. unfold rbytes. cbn. rewrite skipn_length. lia. }
  apply Nat.leb_gt in E.
  destruct (r_eof r); [cbn; unfold rbytes; cbn; lia|].
  destruct (r_reset r); [cbn; unfold rbytes; cbn; lia|].
  pose proof (rd_loop_count tmo (r_evs r) (need - length (r_avail r)) (r_avail r) 0 (r_stalled r) [] Hwf ltac:(lia)) as H.
  cbn [length] in H. unfold rbytes at 2. lia.
Qed.

(* a peer that keeps reading: no EStall anywhere *)
Definition quiet (r : reader) : Prop := r_stalled r = false /\ stall_free (r_evs r).

Lemma rd_loop_quiet : forall tmo evs need acc paused ws,
  stall_free evs -> quiet (ro_rd (rd_loop tmo evs need acc paused false ws)).
Proof.
  intros tmo evs. induction evs as [|e r IH]; intros need acc paused ws Hs; cbn [rd_loop].
  - split; cbn; auto.
  - destruct e; cbn in Hs; try contradiction.
    + destruct (need <=? length l)%nat; [split; cbn; auto|apply IH; auto].
    + destruct (tmo <=? paused + t); [split; cbn; auto|apply IH; auto].
    + split; cbn; auto.
    + split; cbn; auto.
Qed.

Lemma read_exact_quiet : forall tmo n r, quiet r -> quiet (ro_rd (read_exact tmo n r)).
Proof.
  intros tmo n r [Hs Hf]. rewrite read_exact_eq. unfold read_exact_ref.
  repeat match goal with |- context [if ?b then _ else _] => destruct b end; cbn; try (split; cbn; auto; fail).
  rewrite Hs. apply rd_loop_quiet; auto.
Qed.

Lemma count_wait_app : forall a b, count_wait (a ++ b) = (count_wait a + count_wait b)%nat.
Proof. intros. unfold count_wait. rewrite filter_app, app_length. reflexivity. Qed.
Lemma count_wait_map : forall ws, count_wait (map Wait ws) = length ws.
Proof. unfold count_wait. induction ws; cbn; auto. Qed.

(* the number of blocking waits of one call is at most the number of bytes it consumed, plus one *)
Lemma run_wait_count : forall A c (p : prog A) r v r' eff,
  eff_ok no_wait p -> evs_wf (r_evs r) -> reader_bytes_ok r -> quiet r -> run c p r = (v, r', eff) ->
  (count_wait eff + rbytes r' <= rbytes r + 1)%nat.
Proof.
  intros A c p. induction p as [a|n sf k IH|n k IH|e k IH]; intros r v r' eff Hnw Hwf Hr Hq Hrun; cbn in Hrun.
  - inversion Hrun; subst. cbn. lia.
  - inversion Hnw as [|n0 sf0 k0 Hk| |]; subst.
    pose proof (read_exact_count (timeout_of c) n r Hwf) as Hcnt.
    pose proof (read_exact_evs_wf (timeout_of c) n r Hwf) as Hwf1.
    pose proof (read_exact_quiet (timeout_of c) n r Hq) as Hq1.
    destruct (read_exact_bytes (timeout_of c) n r Hr) as [Hr1 Hl].
    destruct (ro_res (read_exact (timeout_of c) n r)) eqn:Eres.
    + destruct (run c (k l) (ro_rd (read_exact (timeout_of c) n r))) as [[v1 r1] e1] eqn:E1.
      inversion Hrun; subst.
      pose proof (IH l _ _ _ _ (Hk l (Hl l eq_refl)) Hwf1 Hr1 Hq1 E1) as H1.
      rewrite count_wait_app, count_wait_map. lia.
    + inversion Hrun; subst. rewrite count_wait_app, count_wait_map. cbn. unfold rbytes in *. cbn. lia.
    + inversion Hrun; subst. rewrite count_wait_app, count_wait_map. cbn. unfold rbytes in *. cbn. lia.
  - inversion Hnw as [| |n0 k0 Hk|]; subst. destruct Hq as [Hs Hf]. rewrite Hs in Hrun.
    destruct (n <=? 0).
    { destruct (run c (k true) r) as [[v1 r1] e1] eqn:E1. inversion Hrun; subst. eapply IH; eauto. split; auto. }
    destruct (r_dead r).
    { destruct (run c (k false) r) as [[v1 r1] e1] eqn:E1. inversion Hrun; subst. eapply IH; eauto. split; auto. }
    destruct (run c (k true) r) as [[v1 r1] e1] eqn:E1. inversion Hrun; subst.
    pose proof (IH true _ _ _ _ (Hk true) Hwf Hr (conj Hs Hf) E1) as H1.
    unfold count_wait in *. cbn. lia.
  - inversion Hnw as [| | |e0 k0 Hqe Hk]; subst.
    destruct (is_div0 e || is_bad_index e || is_opaque e) eqn:Ebad.
    { inversion Hrun; subst. unfold count_wait. cbn. rewrite Hqe. cbn. lia. }
    destruct (run c k (if is_close e then kill r else r)) as [[v1 r1] e1] eqn:E1.
    inversion Hrun; subst.
    assert (H2 : evs_wf (r_evs (if is_close e then kill r else r)) /\ reader_bytes_ok (if is_close e then kill r else r)
                 /\ quiet (if is_close e then kill r else r) /\ rbytes (if is_close e then kill r else r) = rbytes r).
    { destruct (is_close e); auto. }
    destruct H2 as (A1 & A2 & A3 & A4).
    pose proof (IH _ _ _ _ Hk A1 A2 A3 E1) as H1.
    unfold count_wait in *. cbn. rewrite Hqe. cbn. lia.
Qed.

Lemma sum_wait_le : forall B eff, 0 <= B -> Forall (wait_le B) eff ->
  sum_wait eff <= Z.of_nat (count_wait eff) * B.
Proof.
  intros B eff HB H. induction H as [|e l He Hl IH]; cbn; [lia|].
  unfold count_wait in *. destruct e; cbn [sum_wait filter is_wait length wait_le] in *; try lia; try nia.
Qed.

(* ------------------------------------------------------------------------------------------ *)
(** * State invariant: the scaled screen is never degenerate, requested rectangles lie inside the
      screen.  Holds along every session of the repaired variant ([cf_fix_scale]); the unrepaired
      one breaks it with SetScale factor > width (F2). *)

Inductive ret_ok {A : Type} (P : A -> Prop) : prog A -> Prop :=
| rk_ret : forall a, P a -> ret_ok P (Ret a)
| rk_rd : forall n sf k, P sf -> (forall l, bytes_ok l -> ret_ok P (k l)) -> ret_ok P (Rd n sf k)
| rk_wr : forall n k, (forall b, ret_ok P (k b)) -> ret_ok P (Wr n k)
| rk_em : forall e k, ret_ok P k -> ret_ok P (Em e k).

Lemma run_ret_ok : forall A (P : A -> Prop) c (p : prog A) r a r' eff,
  ret_ok P p -> reader_bytes_ok r -> run c p r = (Some a, r', eff) -> P a.
Proof.
  intros A P c p. induction p as [a0|n sf k IH|n k IH|e k IH]; intros r a r' eff Hok Hr Hrun; cbn in Hrun.
  - inversion Hok; subst. inversion Hrun; subst. auto.
  - inversion Hok as [|n0 sf0 k0 Hsf Hk| |]; subst.
    destruct (read_exact_bytes (timeout_of c) n r Hr) as [Hr1 Hl].
    destruct (ro_res (read_exact (timeout_of c) n r)) eqn:Eres.
    + destruct (run c (k l) (ro_rd (read_exact (timeout_of c) n r))) as [[v1 r1] e1] eqn:E1.
      inversion Hrun; subst. eapply IH; eauto.
    + inversion Hrun; subst. auto.
    + inversion Hrun; subst. auto.
  - inversion Hok as [| |n0 k0 Hk|]; subst.
    repeat match type of Hrun with context [if ?b then _ else _] => destruct b end;
      match type of Hrun with context [run c (k ?b) r] =>
        destruct (run c (k b) r) as [[v1 r1] e1] eqn:E1; inversion Hrun; subst; eapply IH; eauto end.
  - inversion Hok as [| | |e0 k0 Hk]; subst.
    destruct (is_div0 e || is_bad_index e || is_opaque e); [discriminate|].
    destruct (run c k (if is_close e then kill r else r)) as [[v1 r1] e1] eqn:E1.
    inversion Hrun; subst.
    assert (Hr2 : reader_bytes_ok (if is_close e then kill r else r)) by (destruct (is_close e); auto).
    eapply (IH _ _ _ _ Hk Hr2 E1).
Qed.

Definition rect_in (W H : Z) (q : rect4) : Prop :=
  let '(x, y, w, h) := q in 0 <= x /\ 0 <= y /\ 0 < w /\ 0 < h /\ x + w <= W /\ y + h <= H.
Definition dims_ok (W H : Z) (d : Z * Z) : Prop := 0 < fst d <= W /\ 0 < snd d <= H.

Definition inv (c : cfg) (s : cstate) : Prop :=
  dims_ok (cf_w c) (cf_h c) (s_sw s, s_sh s) /\
  Forall (dims_ok (cf_w c) (cf_h c)) (s_scaled s) /\
  Forall (rect_in (cf_w c) (cf_h c)) (s_req s).

Lemma inv_init : forall c, cfg_ok c -> inv c (init_state c).
Proof. intros c (HW & HH & _). repeat split; cbn; try lia; constructor. Qed.

Lemma mem2_dims : forall W H w h l, Forall (dims_ok W H) l -> mem2 w h l = true -> dims_ok W H (w, h).
Proof.
  intros W H w h l Hl. induction Hl as [|[a b] l Hd Hl IH]; cbn; [discriminate|].
  intro Hm. apply orb_prop in Hm. destruct Hm as [Hm|Hm]; auto.
  apply andb_prop in Hm. destruct Hm. assert (a = w) by lia. assert (b = h) by lia. subst. exact Hd.
Qed.

Section InvProofs.
  Variable o_corr_f : Z -> Z -> Z -> Z -> Z -> Z -> Z -> Z -> rect4.
  Variable o_scale : Z -> Z -> Z -> Z.
  Variable o_inflate : Z -> list Z -> zres.
  Variable o_pw : list Z -> bool.
  Variable c : cfg.
  Hypothesis Hc : cfg_ok c.
  Hypothesis Hfix : cf_fix_scale c = true.
  Hypothesis Hfur : cf_fix_fur c = true.

  Let P := inv c.

  Ltac ro_step :=
    first
      [ apply rk_ret
      | apply rk_rd; [|intros ? ?]
      | apply rk_wr; intros ?
      | apply rk_em
      | progress cbv zeta
      | progress unfold rd_msg, rd, wr_or_close, closeP
      | match goal with
        | |- ret_ok _ (if ?b then _ else _) => destruct b eqn:?
        | |- ret_ok _ (match ?x with _ => _ end) => destruct x eqn:?
        end ].
  Ltac ro := unfold rd_msg, rd, wr_or_close, closeP; repeat ro_step.

  Lemma inv_enc_loop : forall n s last e, P s -> ret_ok P (enc_loop c n s last e).
  Proof.
    induction n as [|m IH]; intros s last e Hs; cbn [enc_loop]; [apply rk_ret; exact Hs|].
    apply rk_rd; [exact Hs|]. intros b Hb.
    repeat match goal with |- ret_ok _ (if ?b then _ else _) => destruct b eqn:? end; try (apply IH; exact Hs).
    - apply rk_wr; intros ok. destruct ok; [apply IH; exact Hs|]. apply rk_em. apply IH; exact Hs.
    - apply rk_wr; intros ok. destruct ok; [apply IH; exact Hs|]. unfold closeP. apply rk_em. apply rk_ret. exact Hs.
    - apply rk_em. apply IH; exact Hs.
  Qed.

  Lemma inv_ext_provide : forall steps s first, P s -> ret_ok P (ext_provide c s steps first).
  Proof.
    induction steps as [|[size ok] r IH]; intros s first Hs; cbn [ext_provide]; [apply rk_ret; exact Hs|].
    ro; try exact Hs; apply IH; exact Hs.
  Qed.

  Lemma inv_index_all : forall n size k, ret_ok P k -> ret_ok P (index_all size n k).
  Proof. induction n; intros size k Hk; cbn [index_all]; auto. apply IHn. apply rk_em; auto. Qed.

  Lemma inv_do_scale : forall s f, 1 <= f -> P s -> ret_ok P (do_scale c s f).
  Proof.
    intros s f Hf Hs. destruct Hs as (Hd & Hl & Hq). destruct Hc as (HW & HH & _).
    pose proof Hd as [[Hd1 Hd2] [Hd3 Hd4]]. cbn [fst snd] in Hd1, Hd2, Hd3, Hd4.
    assert (Hw : 0 <= cf_w c / f <= cf_w c).
    { split; [apply Z.div_pos; lia|apply Z.div_le_upper_bound; nia]. }
    assert (Hh : 0 <= cf_h c / f <= cf_h c).
    { split; [apply Z.div_pos; lia|apply Z.div_le_upper_bound; nia]. }
    unfold do_scale. rewrite Hfix. ro; try (repeat split; cbn; auto; fail).
    all: try match goal with
         | H : (_ || _) = true |- _ =>
             apply orb_prop in H; destruct H as [H|H];
             [apply andb_prop in H; destruct H; repeat split; cbn; auto; lia
             |pose proof (mem2_dims _ _ _ _ _ Hl H) as [? ?]; repeat split; cbn in *; auto]
         end.
    all: try match goal with
         | H : (_ || _) = false |- _ => apply orb_false_elim in H; destruct H end.
    all: repeat split; cbn; auto; try lia.
    all: try (constructor; auto; split; cbn; lia).
  Qed.

  Lemma inv_message : forall s, P s -> ret_ok P (message o_corr_f o_scale o_inflate o_pw c s).
  Proof.
    intros s Hs. unfold message, proto_version, security_type, auth_msg, init_msg, normal_msg, server_init, send_challenge.
    ro; try exact Hs.
    all: try (apply inv_enc_loop; exact Hs).
    all: try (apply inv_ext_provide; exact Hs).
    all: try (apply inv_index_all; ro; try exact Hs; destruct (Z.odd _); exact Hs).
    all: try (apply inv_do_scale;
              [match goal with H : bytes_ok ?m |- context [nthb ?m 0] => pose proof (nthb_range m 0 H) end; lia | exact Hs]).
    (* FramebufferUpdateRequest: the clipped rectangle lies inside the screen (clip_inside) *)
    all: match goal with H : clip _ _ _ _ _ _ = Some _ |- _ => apply clip_inside in H end.
    all: match goal with H : cf_fix_fur c && _ = false |- _ => rewrite Hfur in H; cbn [andb] in H;
                                                             apply orb_false_elim in H; destruct H end.
    all: destruct Hs as (Hd & Hl & Hq); split; [exact Hd|split; [exact Hl|]]; cbn; apply Forall_app; split; [exact Hq|].
    all: constructor; [|constructor]; cbn; lia.
  Qed.

  Lemma process_message_inv : forall s r s' r' eff,
    P s -> reader_bytes_ok r ->
    process_message o_corr_f o_scale o_inflate o_pw c s r = (Some s', r', eff) -> P s'.
  Proof.
    intros s r s' r' eff Hs Hr H. unfold process_message in H.
    eapply run_ret_ok; eauto using inv_message.
  Qed.
End InvProofs.

(* ------------------------------------------------------------------------------------------ *)
(** * The update: no division by zero, no access outside the rectangle buffer - provided the
      scaled screen is not degenerate (the invariant above) *)

(* what is assumed of the floating point part of rfbScaledCorrection: a rectangle inside the source
   screen is mapped to a corner inside the target screen and to non-negative extents *)
Definition fpu_ok (f : Z -> Z -> Z -> Z -> Z -> Z -> Z -> Z -> rect4) : Prop :=
  forall fw fh tw th x y w h,
    0 < tw <= 65535 -> 0 < th <= 65535 ->
    0 <= x -> 0 < w -> x + w <= fw -> 0 <= y -> 0 < h -> y + h <= fh ->
    let '(x2, y2, w2, h2) := f fw fh tw th x y w h in
    0 <= x2 < tw /\ 0 <= y2 < th /\ 0 <= w2 <= 65536 /\ 0 <= h2 <= 65536.

Lemma wrap32_small : forall v, -2147483648 <= v < 2147483648 -> wrap32 v = v.
Proof. intros v H. unfold wrap32. rewrite Z.mod_small; lia. Qed.

Lemma o_corr_pos : forall f fw fh tw th x y w h,
  fpu_ok f ->
  0 < tw <= 65535 -> 0 < th <= 65535 ->
  0 <= x -> 0 < w -> x + w <= fw -> 0 <= y -> 0 < h -> y + h <= fh ->
  let '(x', y', w', h') := o_corr f fw fh tw th x y w h in 1 <= w' <= tw /\ 1 <= h' <= th.
Proof.
  intros f fw fh tw th x y w h Hf Htw Hth Hx Hw Hxw Hy Hh Hyh.
  specialize (Hf fw fh tw th x y w h Htw Hth Hx Hw Hxw Hy Hh Hyh).
  unfold o_corr. destruct (f fw fh tw th x y w h) as [[[x2 y2] w2] h2].
  destruct Hf as (Hx2 & Hy2 & Hw2 & Hh2).
  set (w3 := if w2 =? 0 then 1 else w2). set (h3 := if h2 =? 0 then 1 else h2).
  assert (1 <= w3 <= 65536) by (unfold w3; destruct (w2 =? 0) eqn:E; lia).
  assert (1 <= h3 <= 65536) by (unfold h3; destruct (h2 =? 0) eqn:E; lia).
  rewrite (wrap32_small (x2 + w3)), (wrap32_small (tw - x2)), (wrap32_small (y2 + h3)), (wrap32_small (th - y2)) by lia.
  destruct (x2 + w3 >? tw) eqn:E1; destruct (y2 + h3 >? th) eqn:E2; lia.
Qed.

Lemma max_size_quot : forall M w, 1 <= w -> 0 <= M -> 2 <= Z.quot (max_size M w) w.
Proof.
  intros M w Hw HM. unfold max_size.
  assert (2 * w <= (if w * 2 >? M then w * 2 else M)) by (destruct (w * 2 >? M) eqn:E; lia).
  apply Z.quot_le_lower_bound; lia.
Qed.

Section UpdateProofs.
  Variable o_corr_f : Z -> Z -> Z -> Z -> Z -> Z -> Z -> Z -> rect4.
  Variable c : cfg.
  Hypothesis Hc : cfg_ok c.
  Hypothesis HW : cf_w c <= 65535.
  Hypothesis HH : cf_h c <= 65535.
  Hypothesis Hfpu : fpu_ok o_corr_f.

  Lemma q_safe_index : forall size i, 0 <= i < size -> q_safe (Index size i).
  Proof.
    intros size i H. split; [reflexivity|]. cbn.
    destruct (0 <=? i) eqn:A; destruct (i <? size) eqn:B; cbn; try reflexivity; lia.
  Qed.
  Lemma q_safe_div : forall a b, b <> 0 -> q_safe (Div a b).
  Proof. intros a b H. split; [|reflexivity]. cbn. lia. Qed.

  (* one rectangle: any non-empty rectangle inside the screen *)
  Lemma rect_prog_safe : forall B s q (k : option Z -> prog B),
    inv c s -> rect_in (cf_w c) (cf_h c) q ->
    (forall n, eff_ok q_safe (k n)) -> eff_ok q_safe (rect_prog o_corr_f c s q k).
  Proof.
    intros B s [[[x y] w] h] k (Hd & Hl & Hq) Hrect Hk. cbn in Hrect. unfold rect_prog.
    destruct Hd as [[D1 D2] [D3 D4]]. cbn [fst snd] in *.
    assert (Hpos : let '(x', y', w', h') :=
                     (if scaled c s then o_corr o_corr_f (cf_w c) (cf_h c) (s_sw s) (s_sh s) x y w h else (x, y, w, h))
                   in 1 <= w' <= s_sw s /\ 1 <= h' <= s_sh s).
    { destruct (scaled c s) eqn:Esc.
      - apply o_corr_pos; auto; lia.
      - unfold scaled in Esc. apply negb_false_iff in Esc. apply andb_prop in Esc. destruct Esc.
        assert (s_sw s = cf_w c) by lia. assert (s_sh s = cf_h c) by lia. lia. }
    destruct (if scaled c s then o_corr o_corr_f (cf_w c) (cf_h c) (s_sw s) (s_sh s) x y w h else (x, y, w, h))
      as [[[x' y'] w'] h'].
    destruct Hpos as [Hw' Hh'].
    assert (Hcm : c04_corre_max <> 0) by (vm_compute; discriminate).
    assert (Hum : 0 <= c04_ultra_max_rect) by (vm_compute; discriminate).
    assert (Hzm : 0 <= c04_zlib_max_rect) by (vm_compute; discriminate).
    assert (Harea : 1 <= w' * h' <= s_sw s * s_sh s) by nia.
    repeat match goal with |- eff_ok _ (if ?b then _ else _) => destruct b end.
    - constructor; [apply q_safe_index; lia|]. constructor; [apply q_safe_index; lia|apply Hk].
    - constructor; [apply q_safe_div; auto|]. constructor; [apply q_safe_div; auto|].
      constructor; [apply q_safe_index; lia|]. constructor; [apply q_safe_index; lia|apply Hk].
    - pose proof (max_size_quot c04_ultra_max_rect w' ltac:(lia) Hum).
      constructor; [apply q_safe_div; lia|]. constructor; [apply q_safe_div; lia|]. apply Hk.
    - pose proof (max_size_quot c04_zlib_max_rect w' ltac:(lia) Hzm).
      constructor; [apply q_safe_div; lia|]. constructor; [apply q_safe_div; lia|]. apply Hk.
    - apply Hk.
    - apply Hk.
  Qed.

  Lemma rects_prog_safe : forall s l,
    inv c s -> Forall (rect_in (cf_w c) (cf_h c)) l -> eff_ok q_safe (rects_prog o_corr_f c s l).
  Proof.
    intros s l Hi Hl. induction Hl as [|q t Hq Ht IH]; cbn [rects_prog]; [constructor|].
    apply rect_prog_safe; auto.
  Qed.

  Lemma update_prog_safe : forall s, inv c s -> eff_ok q_safe (update_prog o_corr_f c s).
  Proof.
    intros s Hi. pose proof Hi as (Hd & Hl & Hq). unfold update_prog.
    destruct (s_closed s || negb (s_state s =? c04_st_Normal)); [constructor|].
    destruct (s_req s) as [|[[[x y] w] h] rest] eqn:Ereq; [constructor|].
    destruct rest; [|constructor].
    inversion Hq as [|q l Hrect _]; subst.
    destruct ((w <? 0) || (h <=? 0)); [constructor|].
    destruct ((w =? 0) && negb ((0 <? x) && (x <? cf_w c))); [constructor|].
    destruct (s_newfb s && s_pending s).
    { constructor. intro ok. destruct ok; [constructor|]. constructor; [split; reflexivity|constructor]. }
    apply rect_prog_safe; auto.
    intros [n|]; [|constructor].
    destruct (s_odd s); [constructor|].
    constructor. intro ok. destruct ok; [constructor|]. constructor; [split; reflexivity|constructor].
  Qed.

  Lemma run_safe : forall A (p : prog A) r v r' eff,
    eff_ok q_safe p -> reader_bytes_ok r -> run c p r = (v, r', eff) -> Forall q_safe eff.
  Proof.
    intros A p r v r' eff Hok Hr H.
    refine (proj1 (run_eff_ok q_safe q_safe (fun e He => He) _ _ _ A c p r v r' eff Hok Hr H)).
    - intro t; split; reflexivity.
    - split; reflexivity.
    - intro n; split; reflexivity.
  Qed.

  Lemma update_safe : forall s r v r' eff,
    inv c s -> reader_bytes_ok r -> update o_corr_f c s r = (v, r', eff) -> Forall q_safe eff.
  Proof. intros s r v r' eff Hi Hr H. exact (run_safe _ _ r v r' eff (update_prog_safe s Hi) Hr H). Qed.

  Lemma update_all_safe : forall s r v r' eff,
    inv c s -> reader_bytes_ok r -> update_all o_corr_f c s r = (v, r', eff) -> Forall q_safe eff.
  Proof.
    intros s r v r' eff Hi Hr H.
    exact (run_safe _ _ r v r' eff (rects_prog_safe s (s_req s) Hi (proj2 (proj2 Hi))) Hr H).
  Qed.

  (* any rectangle whatsoever of any decomposition of the update region *)
  Lemma any_rect_safe : forall s q r v r' eff,
    inv c s -> rect_in (cf_w c) (cf_h c) q -> reader_bytes_ok r ->
    run c (rect_prog o_corr_f c s q (fun _ => Ret tt)) r = (v, r', eff) -> Forall q_safe eff.
  Proof.
    intros s q r v r' eff Hi Hq Hr H.
    exact (run_safe _ _ r v r' eff (rect_prog_safe unit s q _ Hi Hq (fun _ => eo_ret _ tt)) Hr H).
  Qed.
End UpdateProofs.

(* ------------------------------------------------------------------------------------------ *)
(** * Summary lemmas about one rfbProcessClientMessage call *)

Section Summary.
  Variable o_corr_f : Z -> Z -> Z -> Z -> Z -> Z -> Z -> Z -> rect4.
  Variable o_scale : Z -> Z -> Z -> Z.
  Variable o_inflate : Z -> list Z -> zres.
  Variable o_pw : list Z -> bool.

  Lemma message_no_wait : forall c s, cfg_ok c ->
    eff_ok no_wait (message o_corr_f o_scale o_inflate o_pw c s).
  Proof.
    intros c s Hc. eapply eff_ok_mono; [|apply ok_message; exact Hc].
    intros e [_ H]; exact H.
  Qed.

  Lemma alloc_bound_msg : forall c s r v r' eff n,
    cfg_ok c -> reader_bytes_ok r ->
    process_message o_corr_f o_scale o_inflate o_pw c s r = (v, r', eff) ->
    In (Alloc n) eff -> n <= alloc_bound c.
  Proof.
    intros c s r v r' eff n Hc Hr H Hin.
    destruct (process_message_ok o_corr_f o_scale o_inflate o_pw c Hc s r v r' eff Hr H) as [F _].
    rewrite Forall_forall in F. destruct (F _ Hin) as [Ha _]. exact Ha.
  Qed.

  (* the bound in figures: 1 MiB + 1 KiB of (compressed extended) cut-text message (2 GiB when file transfer is permitted), or a
     (scaled) frame buffer of the configured screen.  The limits themselves are the regenerated constants; this
     lemma is the sanity check that they are still the documented ones (a limit raised in the source breaks it) *)
  Lemma alloc_bound_value : forall c, cfg_ok c ->
    alloc_bound c <= (if cf_ft c then 2147483648 else 1049600) + fb_bytes c.
  Proof.
    intros c (HW & HH & HB & _). unfold alloc_bound, msg_bound.
    assert (0 <= fb_bytes c).
    { unfold fb_bytes. assert (0 <= cf_bpp c / 8) by (apply Z.div_pos; lia).
      assert (0 <= pad4 (cf_w c * (cf_bpp c / 8))) by (apply pad4_nonneg; nia). nia. }
    assert (c04_int_max + 1 = 2147483648) by reflexivity.
    assert (Z.max c04_cut_text_limit (Z.max c04_ext_clip_limit c04_ext_cut_msg_limit) <= 1049600) by (vm_compute; discriminate).
    assert (c04_sizeof_screen <= 1048576) by (vm_compute; discriminate).
    destruct (cf_ft c); lia.
  Qed.

  Lemma parse_safe_msg : forall c s r v r' eff e,
    cfg_ok c -> reader_bytes_ok r ->
    process_message o_corr_f o_scale o_inflate o_pw c s r = (v, r', eff) ->
    In e eff -> is_div0 e = false /\ is_bad_index e = false.
  Proof.
    intros c s r v r' eff e Hc Hr H Hin.
    destruct (process_message_ok o_corr_f o_scale o_inflate o_pw c Hc s r v r' eff Hr H) as [F _].
    rewrite Forall_forall in F. destruct (F _ Hin) as [_ Hs]. exact Hs.
  Qed.

  (* a file-transfer message on a screen that does not permit it allocates nothing *)
  Definition not_alloc (e : effect) : Prop := match e with Alloc _ => False | _ => True end.
  Lemma ft_denied_no_alloc : forall c s r v r' eff,
    cf_ft c = false -> reader_bytes_ok r ->
    run c (h_FileTransfer c s) r = (v, r', eff) -> Forall not_alloc eff.
  Proof.
    intros c s r v r' eff Hft Hr H.
    eapply (run_eff_ok not_alloc not_alloc); eauto; try (intros; exact I).
    unfold h_FileTransfer, rd_msg, rd, closeP. rewrite Hft. cbn [negb].
    constructor; [exact I|]. constructor. intros l Hl. constructor; [exact I|constructor].
  Qed.

  Lemma wait_bound_msg : forall c s r v r' eff,
    cfg_ok c -> evs_wf (r_evs r) -> reader_bytes_ok r ->
    process_message o_corr_f o_scale o_inflate o_pw c s r = (v, r', eff) ->
    let B := Z.max (timeout_of c) c04_write_slice_ms in
    Forall (wait_le B) eff /\
    (quiet r -> (count_wait eff + rbytes r' <= rbytes r + 1)%nat /\
                sum_wait eff <= Z.of_nat (count_wait eff) * B).
  Proof.
    intros c s r v r' eff Hc Hwf Hr H B. unfold process_message in H.
    pose proof (message_no_wait c s Hc) as Hnw.
    destruct (run_wait_each _ c _ r v r' eff Hc Hnw Hwf Hr H) as [F _].
    split; [exact F|]. intro Hq. split.
    - eapply run_wait_count; eauto.
    - apply sum_wait_le; auto. unfold B. assert (0 <= c04_write_slice_ms) by (vm_compute; discriminate). lia.
  Qed.
End Summary.

(* ------------------------------------------------------------------------------------------ *)
(** * Connection set-up: the 4-byte peek *)

Lemma pk_nap_no_wedge : forall tmo evs avail el eof reset st ws,
  po_res (pk_nap tmo evs avail el eof reset st ws) <> PWedge.
Proof.
  intros tmo evs. induction evs as [|e r IH]; intros; cbn [pk_nap]; [cbn; discriminate|].
  destruct e; repeat match goal with |- context [if ?b then _ else _] => destruct b end; cbn; try discriminate; apply IH.
Qed.

Lemma pk_wait_fixed_no_wedge : forall tmo evs paused st ws,
  po_res (pk_wait_fixed tmo evs paused st ws) <> PWedge.
Proof.
  intros tmo evs. induction evs as [|e r IH]; intros; cbn [pk_wait_fixed]; [cbn; discriminate|].
  destruct e; repeat match goal with |- context [if ?b then _ else _] => destruct b end; cbn; try discriminate;
    try apply IH; apply pk_nap_no_wedge.
Qed.

Lemma peek4_fixed_no_wedge : forall tmo r, po_res (peek4 true tmo r) <> PWedge.
Proof.
  intros tmo r. unfold peek4.
  repeat match goal with |- context [if ?b then _ else _] => destruct b end; cbn; try discriminate;
    try apply pk_nap_no_wedge; apply pk_wait_fixed_no_wedge.
Qed.

Lemma connect_fixed_no_wedge : forall c r, cf_fix_peek c = true -> fst (fst (connect c r)) <> CWedge.
Proof.
  intros c r Hf. unfold connect. rewrite Hf.
  pose proof (peek4_fixed_no_wedge c04_ws_connect_wait r) as Hp.
  destruct (po_res (peek4 true c04_ws_connect_wait r)); try congruence;
    repeat match goal with |- context [if ?b then _ else _] => destruct b end; cbn; discriminate.
Qed.

(* ------------------------------------------------------------------------------------------ *)
(** * Witnesses: the faithful (unrepaired) model violates the property *)

(* an exact-arithmetic stand-in for the doubles of rfbScaledCorrection *)
Definition corr_q (fw fh tw th x y w h : Z) : rect4 :=
  if (fw =? 0) || (fh =? 0) then (0, 0, 0, 0)
  else (x * tw / fw, y * th / fh,
        (w * tw + (x * tw) mod fw + fw - 1) / fw, (h * th + (y * th) mod fh + fh - 1) / fh).
Definition scale_q (from to v : Z) : Z := if from =? 0 then 0 else v * to / from.
Definition inflate_none (flags : Z) (d : list Z) : zres := ZBad.
Definition pw_none (l : list Z) : bool := false.

Definition cfg_w (W H : Z) (fixscale fixpeek : bool) : cfg :=
  mkCfg W H 32 false false false false 0 false false 5 fixscale fixpeek false.
Definition cfg_fixed (W H : Z) : cfg := mkCfg W H 32 false false false false 0 false false 5 true true true.
Lemma cfg_ok_w48 : forall fs fp, cfg_ok (cfg_w 4 8 fs fp).
Proof. intros. unfold cfg_ok. cbn. repeat split; try lia; try (vm_compute; congruence); right; reflexivity. Qed.
Lemma cfg_ok_fixed48 : cfg_ok (cfg_fixed 4 8).
Proof. unfold cfg_ok. cbn. repeat split; try lia; try (vm_compute; congruence); right; reflexivity. Qed.

(* connect, process every message the peer sends, then let the application modify the screen:
   effects of the update *)
Definition session (c : cfg) (evs : list event) : option (list effect) :=
  let r0 := mkReader [] evs false false false false in
  match connect c r0 with
  | (COk, r1, _) =>
      match run_conn corr_q scale_q inflate_none pw_none c (conn_fuel r1) (init_state c) r1 with
      | (_, Some s, r2, _) => let '(_, _, eff) := update corr_q c s r2 in Some eff
      | _ => None
      end
  | _ => None
  end.

Definition f2_stream : list event :=
  [EData [82; 70; 66; 32; 48; 48; 51; 46; 48; 48; 56; 10]; EData [1]; EData [1];   (* RFB 003.008, None, ClientInit *)
   EData [2; 0; 0; 1; 0; 0; 0; 6];                                                   (* SetEncodings [Zlib] *)
   EData [3; 0; 0; 0; 0; 0; 0; 4; 0; 8];                                             (* FramebufferUpdateRequest 0,0,4,8 *)
   EData [8; 5; 0; 0]].                                                              (* SetScale 5 on a 4x8 screen *)

Lemma f2_witness : session (cfg_w 4 8 false false) f2_stream = Some [Div 32768 0].
Proof. vm_compute. reflexivity. Qed.

Lemma f2_fixed : session (cfg_w 4 8 true false) f2_stream =
                 Some [Div 32768 4; Div 7 8192; Write 4].
Proof. vm_compute. reflexivity. Qed.

(* F22: no scaling needed - an update request of zero width in Zlib *)
Definition f22_stream : list event :=
  [EData [82; 70; 66; 32; 48; 48; 51; 46; 48; 48; 56; 10]; EData [1]; EData [1];
   EData [2; 0; 0; 1; 0; 0; 0; 6];                                                   (* SetEncodings [Zlib] *)
   EData [3; 0; 0; 1; 0; 2; 0; 0; 0; 3]].                                            (* FramebufferUpdateRequest 1,2,0,3 *)
Lemma f22_witness : session (cfg_w 4 8 false false) f22_stream = Some [Div 32768 0].
Proof. vm_compute. reflexivity. Qed.
Lemma f22_fixed : session (cfg_fixed 4 8) f22_stream = Some [].
Proof. vm_compute. reflexivity. Qed.

Definition f2_stream_rre : list event :=
  [EData [82; 70; 66; 32; 48; 48; 51; 46; 48; 48; 56; 10]; EData [1]; EData [1];
   EData [2; 0; 0; 1; 0; 0; 0; 2]; EData [3; 0; 0; 0; 0; 0; 0; 4; 0; 8]; EData [8; 5; 0; 0]].
Lemma f2_witness_rre : session (cfg_w 4 8 false false) f2_stream_rre = Some [Index 0 0].
Proof. vm_compute. reflexivity. Qed.

(* slow drip: a key event delivered one byte every 19999 ms *)
Definition drip_reader : reader :=
  mkReader [4] [EPause 19999; EData [1]; EPause 19999; EData [0]; EPause 19999; EData [0]; EPause 19999; EData [0];
                EPause 19999; EData [0]; EPause 19999; EData [0]; EPause 19999; EData [65]] false false false false.

Lemma drip_witness :
  let c := cfg_w 4 8 false false in
  let '(v, r', eff) := process_message corr_q scale_q inflate_none pw_none c
                                       (set_state (init_state c) c04_st_Normal) drip_reader in
  sum_wait eff = 139993 /\ timeout_of c = 20000 /\
  v = Some (set_state (init_state c) c04_st_Normal).
Proof. vm_compute. repeat split; reflexivity. Qed.

(* one byte, then the peer goes away (or stays silent): the peek never returns *)
Lemma wedge_witness :
  fst (fst (connect (cfg_w 4 8 false false) (mkReader [] [EData [82]; EEof] false false false false))) = CWedge /\
  fst (fst (connect (cfg_w 4 8 false false) (mkReader [] [EPause 50; EData [82; 70; 66]] false false false false))) = CWedge.
Proof. vm_compute. split; reflexivity. Qed.

(* ------------------------------------------------------------------------------------------ *)
(** * Whole sessions of the repaired variant keep the invariant, hence their updates are safe *)

Lemma top_feed_bytes : forall evs st r st',
  evs_bytes_ok evs -> top_feed evs st = (Some r, st') -> reader_bytes_ok r.
Proof.
  induction evs as [|e l IH]; intros st r st' Hb H; cbn in H; [discriminate|].
  destruct e; cbn in Hb.
  - destruct Hb. inversion H; subst. split; cbn; auto.
  - eapply IH; eauto.
  - inversion H; subst. split; cbn; auto. constructor.
  - inversion H; subst. split; cbn; auto. constructor.
  - eapply IH; eauto.
Qed.

Section SessionProofs.
  Variable o_corr_f : Z -> Z -> Z -> Z -> Z -> Z -> Z -> Z -> rect4.
  Variable o_scale : Z -> Z -> Z -> Z.
  Variable o_inflate : Z -> list Z -> zres.
  Variable o_pw : list Z -> bool.
  Variable c : cfg.
  Hypothesis Hc : cfg_ok c.
  Hypothesis Hfix : cf_fix_scale c = true.
  Hypothesis Hfur : cf_fix_fur c = true.

  Lemma run_conn_inv : forall fuel s r obs s' r' ok,
    inv c s -> reader_bytes_ok r ->
    run_conn o_corr_f o_scale o_inflate o_pw c fuel s r = (obs, Some s', r', ok) ->
    inv c s' /\ reader_bytes_ok r'.
  Proof.
    induction fuel as [|f IH]; intros s r obs s' r' ok Hi Hr H; cbn [run_conn] in H.
    - inversion H; subst. auto.
    - destruct (s_closed s || r_dead r); [inversion H; subst; auto|].
      assert (Hgo : forall r1, reader_bytes_ok r1 ->
                (let ty := match r_avail r1 with b :: _ => b | [] => -1 end in
                 let '(v, r2, e) := process_message o_corr_f o_scale o_inflate o_pw c s r1 in
                 match v with
                 | None => ([mkObs ty None e], None, r2, true)
                 | Some s'0 => let '(l, v', r3, ok0) := run_conn o_corr_f o_scale o_inflate o_pw c f s'0 r2 in
                               (mkObs ty (Some s'0) e :: l, v', r3, ok0)
                 end) = (obs, Some s', r', ok) -> inv c s' /\ reader_bytes_ok r').
      { intros r1 Hr1 H1. cbv zeta in H1.
        destruct (process_message o_corr_f o_scale o_inflate o_pw c s r1) as [[v r2] e] eqn:Epm.
        destruct v as [s1|]; [|inversion H1].
        destruct (run_conn o_corr_f o_scale o_inflate o_pw c f s1 r2) as [[[l v'] r3] ok0] eqn:Erc.
        inversion H1; subst.
        pose proof (process_message_inv o_corr_f o_scale o_inflate o_pw c Hc Hfix Hfur _ _ _ _ _ Hi Hr1 Epm) as Hi1.
        destruct (process_message_ok o_corr_f o_scale o_inflate o_pw c Hc _ _ _ _ _ Hr1 Epm) as [_ Hr2].
        eapply IH; eauto. }
      destruct (r_avail r) eqn:Eav.
      + destruct (r_eof r || r_reset r).
        * apply (Hgo r Hr). cbv zeta. rewrite Eav. exact H.
        * destruct (top_feed (r_evs r) (r_stalled r)) as [[r1|] st'] eqn:Etf.
          -- apply (Hgo r1); [destruct Hr as [_ He]; eapply top_feed_bytes; eauto|exact H].
          -- inversion H; subst. split; auto. split; cbn; auto. constructor.
      + apply (Hgo r Hr). cbv zeta. rewrite Eav. exact H.
  Qed.
End SessionProofs.

(* ------------------------------------------------------------------------------------------ *)
(** * Final forms used by Props/Properties_C04.v *)

(* with the limits the source has (regenerated constants) *)
Lemma alloc_bound_final : forall o_corr_f o_scale o_inflate o_pw c s r v r' eff n,
  cfg_ok c -> reader_bytes_ok r ->
  process_message o_corr_f o_scale o_inflate o_pw c s r = (v, r', eff) ->
  In (Alloc n) eff ->
  n <= alloc_bound c.
Proof.
  intros o_corr_f o_scale o_inflate o_pw c s r v r' eff n Hc Hr H Hin.
  exact (alloc_bound_msg o_corr_f o_scale o_inflate o_pw c s r v r' eff n Hc Hr H Hin).
Qed.

(* ... and those limits are the fixed, documented ones *)
Lemma alloc_bound_fixed : forall c, cfg_ok c ->
  alloc_bound c <= (if cf_ft c then 2147483648 else 1049600) + fb_bytes c /\
  c04_cut_text_limit <= 2 ^ 20 /\ c04_ext_clip_limit <= 2 ^ 20 + 1 /\ c04_ext_cut_msg_limit <= 2 ^ 20 + 1024.
Proof.
  intros c Hc. split; [exact (alloc_bound_value corr_q scale_q inflate_none c Hc)|].
  repeat split; vm_compute; discriminate.
Qed.

Lemma scaled_inv_fixed : forall o_corr_f o_scale o_inflate o_pw c fuel r obs s' r' ok,
  cfg_ok c -> cf_fix_scale c = true -> cf_fix_fur c = true -> reader_bytes_ok r ->
  run_conn o_corr_f o_scale o_inflate o_pw c fuel (init_state c) r = (obs, Some s', r', ok) ->
  inv c s' /\ reader_bytes_ok r'.
Proof.
  intros o_corr_f o_scale o_inflate o_pw c fuel r obs s' r' ok Hc Hfix Hfur Hr H.
  exact (run_conn_inv o_corr_f o_scale o_inflate o_pw c Hc Hfix Hfur fuel (init_state c) r obs s' r' ok (inv_init c Hc) Hr H).
Qed.

Lemma no_div_zero_refuted :
  exists c evs eff, cfg_ok c /\ cf_fix_scale c = false /\ evs_wf evs /\ evs_bytes_ok evs /\
                    session c evs = Some eff /\ exists a, In (Div a 0) eff.
Proof.
  exists (cfg_w 4 8 false false), f2_stream, [Div 32768 0].
  split; [apply cfg_ok_w48|].
  split; [reflexivity|]. split; [cbn; repeat split; discriminate|].
  split; [cbn; unfold bytes_ok; repeat split; repeat constructor; lia|].
  split; [exact f2_witness|]. exists 32768. left; reflexivity.
Qed.

Lemma index_safe_update_refuted :
  exists c evs eff, cfg_ok c /\ cf_fix_scale c = false /\ evs_wf evs /\
                    session c evs = Some eff /\ In (Index 0 0) eff.
Proof.
  exists (cfg_w 4 8 false false), f2_stream_rre, [Index 0 0].
  split; [apply cfg_ok_w48|].
  split; [reflexivity|]. split; [cbn; repeat split; discriminate|].
  split; [exact f2_witness_rre|]. left; reflexivity.
Qed.

Lemma total_wait_refuted :
  exists c s r, cfg_ok c /\ evs_wf (r_evs r) /\ reader_bytes_ok r /\ quiet r /\
    let '(v, _, eff) := process_message corr_q scale_q inflate_none pw_none c s r in
    v = Some s /\ sum_wait eff > 6 * timeout_of c.
Proof.
  exists (cfg_w 4 8 false false), (set_state (init_state (cfg_w 4 8 false false)) c04_st_Normal), drip_reader.
  split; [apply cfg_ok_w48|].
  split; [cbn; repeat split; try discriminate; lia|].
  split; [split; cbn; unfold bytes_ok; repeat split; repeat constructor; lia|].
  split; [split; cbn; auto|].
  pose proof drip_witness as H. cbv zeta in H.
  destruct (process_message corr_q scale_q inflate_none pw_none (cfg_w 4 8 false false)
              (set_state (init_state (cfg_w 4 8 false false)) c04_st_Normal) drip_reader) as [[v r'] eff].
  destruct H as (Hs & Ht & Hv). split; [exact Hv|]. rewrite Hs, Ht. reflexivity.
Qed.

Lemma peek_wedge_refuted :
  exists c r, cf_fix_peek c = false /\ evs_wf (r_evs r) /\ fst (fst (connect c r)) = CWedge.
Proof.
  exists (cfg_w 4 8 false false), (mkReader [] [EData [82]; EEof] false false false false).
  split; [reflexivity|]. split; [cbn; repeat split; discriminate|]. exact (proj1 wedge_witness).
Qed.

Lemma no_div_zero_refuted_fur :
  exists c evs eff, cfg_ok c /\ cf_fix_fur c = false /\ evs_wf evs /\ evs_bytes_ok evs /\
                    session c evs = Some eff /\ exists a, In (Div a 0) eff.
Proof.
  exists (cfg_w 4 8 true true), f22_stream, [Div 32768 0].
  split; [apply cfg_ok_w48|].
  split; [reflexivity|]. split; [cbn; repeat split; discriminate|].
  split; [cbn; unfold bytes_ok; repeat split; repeat constructor; lia|].
  split; [vm_compute; reflexivity|]. exists 32768. left; reflexivity.
Qed.

(* ------------------------------------------------------------------------------------------ *)
(** * The fuel of the event loop suffices *)

Definition mu (r : reader) : nat := (rbytes r + length (r_evs r))%nat.

Lemma rd_loop_mu : forall tmo evs need acc paused st ws,
  (0 < need)%nat ->
  let o := rd_loop tmo evs need acc paused st ws in
  (mu (ro_rd o) <= ev_bytes evs + length evs)%nat /\
  (forall l, ro_res o = ROk l -> (mu (ro_rd o) < ev_bytes evs + length evs)%nat).
Proof.
  intros tmo evs. induction evs as [|e r IH]; intros need acc paused st ws Hn; cbn zeta; cbn [rd_loop].
  - unfold mu, rbytes. cbn. split; [lia|]. intros l H; discriminate.
  - destruct e.
    + destruct (need <=? length l)%nat eqn:E.
      * apply Nat.leb_le in E. unfold mu, rbytes. cbn. rewrite skipn_length. split; [lia|]. intros; lia.
      * apply Nat.leb_gt in E. specialize (IH (need - length l)%nat (acc ++ l) 0 st (ws ++ [paused]) ltac:(lia)).
        cbn zeta in IH. destruct IH as [I1 I2]. cbn [ev_bytes length]. split; [lia|]. intros l0 H. specialize (I2 l0 H). lia.
    + destruct (tmo <=? paused + t).
      * unfold mu, rbytes. cbn. split; [lia|]. intros l H; discriminate.
      * specialize (IH need acc (paused + t) st ws Hn). cbn zeta in IH. destruct IH as [I1 I2].
        cbn [ev_bytes length]. split; [lia|]. intros l0 H. specialize (I2 l0 H). lia.
    + unfold mu, rbytes. cbn. split; [lia|]. intros l H; discriminate.
    + unfold mu, rbytes. cbn. split; [lia|]. intros l H; discriminate.
    + specialize (IH need acc paused true ws Hn). cbn zeta in IH. destruct IH as [I1 I2].
      cbn [ev_bytes length]. split; [lia|]. intros l0 H. specialize (I2 l0 H). lia.
Qed.

Lemma read_exact_mu : forall tmo n r,
  (mu (ro_rd (read_exact tmo n r)) <= mu r)%nat /\
  (0 < n -> forall l, ro_res (read_exact tmo n r) = ROk l -> (mu (ro_rd (read_exact tmo n r)) < mu r)%nat).
Proof.
  intros tmo n r. rewrite read_exact_eq. unfold read_exact_ref.
  destruct (n <=? 0) eqn:E0; [cbn; split; [lia|intros; lia]|].
  destruct (r_dead r); [cbn; split; [lia|intros ? l H; discriminate]|].
  set (need := Z.to_nat (Z.min n (Z.of_nat (S (length (r_avail r) + ev_bytes (r_evs r)))))).
  assert (Hneed : (0 < need)%nat) by (unfold need; lia).
  destruct (need <=? length (r_avail r))%nat eqn:E.
  { apply Nat.leb_le in E. unfold mu, rbytes. cbn. rewrite skipn_length. split; [lia|intros; lia]. }
  apply Nat.leb_gt in E.
  destruct (r_eof r); [unfold mu, rbytes; cbn; split; [lia|intros ? l H; discriminate]|].
  destruct (r_reset r); [unfold mu, rbytes; cbn; split; [lia|intros ? l H; discriminate]|].
  pose proof (rd_loop_mu tmo (r_evs r) (need - length (r_avail r)) (r_avail r) 0 (r_stalled r) [] ltac:(lia)) as [I1 I2].
  unfold mu at 2 4, rbytes. split; [lia|]. intros _ l H. specialize (I2 l H). lia.
Qed.

Lemma run_mu : forall A c (p : prog A) r v r' eff, run c p r = (v, r', eff) -> (mu r' <= mu r)%nat.
Proof.
  intros A c p. induction p as [a|n sf k IH|n k IH|e k IH]; intros r v r' eff H; cbn in H.
  - inversion H; subst. lia.
  - destruct (read_exact_mu (timeout_of c) n r) as [M1 _].
    destruct (ro_res (read_exact (timeout_of c) n r)).
    + destruct (run c (k l) (ro_rd (read_exact (timeout_of c) n r))) as [[v1 r1] e1] eqn:E1.
      inversion H; subst. specialize (IH _ _ _ _ _ E1). lia.
    + inversion H; subst. exact M1.
    + inversion H; subst. exact M1.
  - repeat match type of H with context [if ?b then _ else _] => destruct b end;
      match type of H with context [run c (k ?b) r] =>
        destruct (run c (k b) r) as [[v1 r1] e1] eqn:E1; inversion H; subst; eapply IH; eauto end.
  - destruct (is_div0 e || is_bad_index e || is_opaque e); [inversion H; subst; lia|].
    destruct (run c k (if is_close e then kill r else r)) as [[v1 r1] e1] eqn:E1.
    inversion H; subst. specialize (IH _ _ _ _ E1). destruct (is_close e); exact IH.
Qed.

Section FuelProofs.
  Variable o_corr_f : Z -> Z -> Z -> Z -> Z -> Z -> Z -> Z -> rect4.
  Variable o_scale : Z -> Z -> Z -> Z.
  Variable o_inflate : Z -> list Z -> zres.
  Variable o_pw : list Z -> bool.
  Variable c : cfg.

  (* every message handler begins by reading at least one byte; if that fails the client is closed *)
  Lemma message_first_read : forall s, exists n k,
    0 < n /\ message o_corr_f o_scale o_inflate o_pw c s = Rd n (set_closed s) k.
  Proof.
    intro s. unfold message.
    repeat match goal with |- context [if ?b then _ else _] => destruct b end;
      unfold proto_version, security_type, auth_msg, init_msg, normal_msg, rd;
      eexists; eexists; (split; [|reflexivity]); vm_compute; reflexivity.
  Qed.

  (* one call consumes something of the peer's input, or leaves the client closed *)
  Lemma process_message_progress : forall s r v r' eff,
    process_message o_corr_f o_scale o_inflate o_pw c s r = (v, r', eff) ->
    (mu r' <= mu r)%nat /\
    match v with Some s' => s_closed s' = true \/ (mu r' < mu r)%nat | None => True end.
  Proof.
    intros s r v r' eff H. unfold process_message in H.
    split; [eapply run_mu; eauto|].
    destruct (message_first_read s) as (n & k & Hn & Hm). rewrite Hm in H. cbn in H.
    destruct (read_exact_mu (timeout_of c) n r) as [M1 M2].
    destruct (ro_res (read_exact (timeout_of c) n r)) eqn:Eres.
    - destruct (run c (k l) (ro_rd (read_exact (timeout_of c) n r))) as [[v1 r1] e1] eqn:E1.
      inversion H; subst. destruct v; auto. right.
      pose proof (run_mu _ _ _ _ _ _ _ E1). specialize (M2 Hn l eq_refl). lia.
    - inversion H; subst. left. reflexivity.
    - inversion H; subst. left. reflexivity.
  Qed.

  Lemma top_feed_mu : forall evs st r st', top_feed evs st = (Some r, st') ->
    (mu r < ev_bytes evs + length evs)%nat.
  Proof.
    induction evs as [|e l IH]; intros st r st' H; cbn in H; [discriminate|].
    destruct e; cbn [ev_bytes length].
    - inversion H; subst. unfold mu, rbytes. cbn. lia.
    - specialize (IH _ _ _ H). lia.
    - inversion H; subst. unfold mu, rbytes. cbn. lia.
    - inversion H; subst. unfold mu, rbytes. cbn. lia.
    - specialize (IH _ _ _ H). lia.
  Qed.

  Lemma run_conn_fuel : forall fuel s r,
    (mu r + 2 <= fuel)%nat ->
    snd (run_conn o_corr_f o_scale o_inflate o_pw c fuel s r) = true.
  Proof.
    induction fuel as [|f IH]; intros s r Hf; [lia|]. cbn [run_conn].
    destruct (s_closed s || r_dead r) eqn:Ecl; [reflexivity|].
    assert (Hgo : forall r1, (mu r1 <= mu r)%nat ->
              snd (let ty := match r_avail r1 with b :: _ => b | [] => -1 end in
                   let '(v, r2, e) := process_message o_corr_f o_scale o_inflate o_pw c s r1 in
                   match v with
                   | None => ([mkObs ty None e], None, r2, true)
                   | Some s'0 => let '(l, v', r3, ok0) := run_conn o_corr_f o_scale o_inflate o_pw c f s'0 r2 in
                                 (mkObs ty (Some s'0) e :: l, v', r3, ok0)
                   end) = true).
    { intros r1 Hr1. cbv zeta.
      destruct (process_message o_corr_f o_scale o_inflate o_pw c s r1) as [[v r2] e] eqn:Epm.
      destruct (process_message_progress _ _ _ _ _ Epm) as [P1 P2].
      destruct v as [s1|]; [|reflexivity].
      destruct (run_conn o_corr_f o_scale o_inflate o_pw c f s1 r2) as [[[l v'] r3] ok0] eqn:Erc. cbn.
      destruct P2 as [Hcl|Hlt].
      - destruct f; [lia|]. cbn [run_conn] in Erc. rewrite Hcl in Erc. cbn [orb] in Erc. inversion Erc; reflexivity.
      - pose proof (IH s1 r2 ltac:(lia)) as Hi. rewrite Erc in Hi. exact Hi. }
    destruct (r_avail r) eqn:Eav.
    - destruct (r_eof r || r_reset r).
      + specialize (Hgo r ltac:(lia)). cbv zeta in Hgo. rewrite Eav in Hgo. exact Hgo.
      + destruct (top_feed (r_evs r) (r_stalled r)) as [[r1|] st'] eqn:Etf; [|reflexivity].
        pose proof (top_feed_mu _ _ _ _ Etf) as Hm.
        apply Hgo. unfold mu at 2, rbytes. rewrite Eav. cbn. lia.
    - specialize (Hgo r ltac:(lia)). cbv zeta in Hgo. rewrite Eav in Hgo. exact Hgo.
  Qed.

  Lemma conn_fuel_suffices : forall s r,
    snd (run_conn o_corr_f o_scale o_inflate o_pw c (conn_fuel r) s r) = true.
  Proof. intros s r. apply run_conn_fuel. unfold conn_fuel, mu, rbytes. lia. Qed.
End FuelProofs.

(* ------------------------------------------------------------------------------------------ *)
(** * The code as repaired (commits 8e7b6f1, efc6f84, d5a464d): the positive statements *)

(* the three repairs are present in the source this development was regenerated from: the constants
   below exist only if tools/gen_consts.py found the repaired text (otherwise generation fails and the
   property is reported as no longer shown) *)
Lemma source_is_repaired :
  c04_src_scale_rejects_width0 = 0 /\ c04_src_peek_short_count = 0 /\ c04_src_fur_ignores_empty = 0.
Proof. repeat split; reflexivity. Qed.

(* configurations describing that source *)
Definition repaired (c : cfg) : Prop :=
  cf_fix_scale c = true /\ cf_fix_peek c = true /\ cf_fix_fur c = true.

(* along every session, every update divides by nothing zero and reads inside its buffers *)
Lemma no_div_zero_sessions : forall o_corr_f o_scale o_inflate o_pw c fuel r obs s' r' ok v r'' eff,
  cfg_ok c -> cf_w c <= 65535 -> cf_h c <= 65535 -> fpu_ok o_corr_f -> repaired c ->
  reader_bytes_ok r ->
  run_conn o_corr_f o_scale o_inflate o_pw c fuel (init_state c) r = (obs, Some s', r', ok) ->
  update o_corr_f c s' r' = (v, r'', eff) ->
  Forall q_safe eff.
Proof.
  intros o_corr_f o_scale o_inflate o_pw c fuel r obs s' r' ok v r'' eff Hc HW HH Hfpu (Hs & _ & Hf) Hr Hrun Hup.
  destruct (scaled_inv_fixed o_corr_f o_scale o_inflate o_pw c fuel r obs s' r' ok Hc Hs Hf Hr Hrun) as [Hi Hr'].
  exact (update_safe o_corr_f c HW HH Hfpu s' r' v r'' eff Hi Hr' Hup).
Qed.

Lemma connect_terminates : forall c r, repaired c -> fst (fst (connect c r)) <> CWedge.
Proof. intros c r (_ & Hp & _). apply connect_fixed_no_wedge; exact Hp. Qed.

(* the waits of connection set-up are bounded too: the peek (tmo = 100 ms) and the version write *)
Lemma pk_nap_waits : forall tmo evs avail el eof reset st ws,
  0 < tmo -> evs_wf evs -> 0 <= el < tmo -> Forall (fun t => 0 <= t <= tmo) ws ->
  Forall (fun t => 0 <= t <= tmo) (po_waits (pk_nap tmo evs avail el eof reset st ws)).
Proof.
  intros tmo evs. induction evs as [|e r IH]; intros avail el eof reset st ws Ht Hwf Hel Hws; cbn [pk_nap].
  - cbn. apply Forall_app; split; auto. constructor; [lia|constructor].
  - destruct e; cbn in Hwf.
    + destruct Hwf as [Hd Hr].
      destruct (4 <=? length (avail ++ l))%nat; cbn.
      * apply Forall_app; split; auto. constructor; [lia|constructor].
      * destruct (tmo <=? el + 1) eqn:E; cbn.
        -- apply Forall_app; split; auto. constructor; [lia|constructor].
        -- apply IH; auto. lia.
    + destruct Hwf as [Hd Hr]. destruct (tmo <=? el + t) eqn:E; cbn.
      * apply Forall_app; split; auto. constructor; [lia|constructor].
      * apply IH; auto. lia.
    + destruct (tmo <=? el + 1) eqn:E; cbn.
      * apply Forall_app; split; auto. constructor; [lia|constructor].
      * apply IH; auto. lia.
    + destruct (tmo <=? el + 1) eqn:E; cbn.
      * apply Forall_app; split; auto. constructor; [lia|constructor].
      * apply IH; auto. lia.
    + apply IH; auto.
Qed.

Lemma pk_wait_fixed_waits : forall tmo evs paused st ws,
  0 < tmo -> evs_wf evs -> 0 <= paused < tmo -> Forall (fun t => 0 <= t <= tmo) ws ->
  Forall (fun t => 0 <= t <= tmo) (po_waits (pk_wait_fixed tmo evs paused st ws)).
Proof.
  intros tmo evs. induction evs as [|e r IH]; intros paused st ws Ht Hwf Hp Hws; cbn [pk_wait_fixed].
  - cbn. apply Forall_app; split; auto. constructor; [lia|constructor].
  - destruct e; cbn in Hwf.
    + destruct Hwf as [Hd Hr]. destruct (4 <=? length l)%nat; cbn.
      * apply Forall_app; split; auto. constructor; [lia|constructor].
      * apply pk_nap_waits; auto; [lia|]. apply Forall_app; split; auto. constructor; [lia|constructor].
    + destruct Hwf as [Hd Hr]. destruct (tmo <=? paused + t) eqn:E; cbn.
      * apply Forall_app; split; auto. constructor; [lia|constructor].
      * apply IH; auto. lia.
    + cbn. apply Forall_app; split; auto. constructor; [lia|constructor].
    + cbn. apply Forall_app; split; auto. constructor; [lia|constructor].
    + apply IH; auto.
Qed.

Lemma peek4_fixed_waits : forall tmo r,
  0 < tmo -> evs_wf (r_evs r) ->
  Forall (fun t => 0 <= t <= tmo) (po_waits (peek4 true tmo r)).
Proof.
  intros tmo r Ht Hwf. unfold peek4.
  repeat match goal with |- context [if ?b then _ else _] => destruct b end; cbn; try (constructor; fail).
  - apply pk_nap_waits; auto; try lia.
  - apply pk_wait_fixed_waits; auto; try lia.
Qed.

Lemma connect_wait_bound : forall c r st r' eff,
  cfg_ok c -> repaired c -> evs_wf (r_evs r) -> connect c r = (st, r', eff) ->
  Forall (wait_le (Z.max c04_ws_connect_wait c04_write_slice_ms)) eff.
Proof.
  intros c r st r' eff Hc (_ & Hp & _) Hwf H. unfold connect in H. rewrite Hp in H.
  assert (Ht : 0 < c04_ws_connect_wait) by (vm_compute; reflexivity).
  pose proof (peek4_fixed_waits c04_ws_connect_wait r Ht Hwf) as Hws.
  set (B := Z.max c04_ws_connect_wait c04_write_slice_ms) in *.
  assert (Hmap : Forall (wait_le B) (map Wait (po_waits (peek4 true c04_ws_connect_wait r)))).
  { eapply map_wait_le; eauto. unfold B. lia. }
  assert (Hst : Forall (wait_le B) (stall_waits c)).
  { unfold stall_waits. assert (0 <= c04_write_slice_ms) by (vm_compute; discriminate).
    induction (stall_slices c); cbn; constructor; auto. cbn. unfold B. lia. }
  destruct (po_res (peek4 true c04_ws_connect_wait r));
    repeat match type of H with context [if ?b then _ else _] => destruct b end;
    inversion H; subst; cbn [app];
    repeat first [ exact Hmap | exact Hst | apply Forall_app; split
                 | apply Forall_cons; [exact I|] | apply Forall_nil ].
Qed.

(* ------------------------------------------------------------------------------------------ *)
(** * fpu_ok is satisfiable by the exact-arithmetic correction *)
Lemma fpu_ok_corr_q : fpu_ok corr_q.
Proof.
  unfold fpu_ok, corr_q. intros fw fh tw th x y w h Htw Hth Hx Hw Hxw Hy Hh Hyh.
  assert (Hfw : 0 < fw) by lia. assert (Hfh : 0 < fh) by lia.
  destruct ((fw =? 0) || (fh =? 0)) eqn:E; [lia|].
  (* x direction *)
  pose proof (Z.div_mod (x * tw) fw ltac:(lia)) as Dx. pose proof (Z.mod_pos_bound (x * tw) fw Hfw) as Mx.
  set (qx := x * tw / fw) in *. set (rx := (x * tw) mod fw) in *.
  assert (Hqx : 0 <= qx < tw) by (split; nia).
  assert (Hwx : 0 <= (w * tw + rx + fw - 1) / fw <= 65536).
  { split; [apply Z.div_pos; nia|].
    assert ((w * tw + rx + fw - 1) / fw <= tw - qx).
    { apply Z.lt_succ_r. apply Z.div_lt_upper_bound; [lia|]. nia. }
    lia. }
  (* y direction *)
  pose proof (Z.div_mod (y * th) fh ltac:(lia)) as Dy. pose proof (Z.mod_pos_bound (y * th) fh Hfh) as My.
  set (qy := y * th / fh) in *. set (ry := (y * th) mod fh) in *.
  assert (Hqy : 0 <= qy < th) by (split; nia).
  assert (Hhy : 0 <= (h * th + ry + fh - 1) / fh <= 65536).
  { split; [apply Z.div_pos; nia|].
    assert ((h * th + ry + fh - 1) / fh <= th - qy).
    { apply Z.lt_succ_r. apply Z.div_lt_upper_bound; [lia|]. nia. }
    lia. }
  repeat split; lia.
Qed.

(* ------------------------------------------------------------------------------------------ *)
(** * Second refutation of "one call returns within the client-wait time" (write side): a failed VNC
      authentication of a 3.8 client that stopped reading costs two full write time-outs (the result word,
      then the reason string), 2 x 20000 ms. *)
Definition cfg_pw48 : cfg := mkCfg 4 8 32 true false false false 0 false false 5 true true true.
Definition stalled_auth_reader : reader :=
  mkReader [0; 1; 2; 3; 4; 5; 6; 7; 8; 9; 10; 11; 12; 13; 14; 15] [] false false true false.
Definition auth_state : cstate := set_minor (set_state (init_state cfg_pw48) c04_st_Authentication) 8.

Lemma stalled_auth_witness :
  let '(v, _, eff) := process_message corr_q scale_q inflate_none pw_none cfg_pw48 auth_state stalled_auth_reader in
  sum_wait eff = 40000 /\ timeout_of cfg_pw48 = 20000 /\ In Close eff /\
  Forall (wait_le (Z.max (timeout_of cfg_pw48) c04_write_slice_ms)) eff.
Proof. vm_compute. repeat split; try reflexivity; try (right; right; right; right; right; right; right; right; right; left; reflexivity);
       repeat constructor; try discriminate. Qed.

(* sessions, every rectangle requested since the last update (any number of requests) *)
Lemma no_div_zero_sessions_all : forall o_corr_f o_scale o_inflate o_pw c fuel r obs s' r' ok v r'' eff,
  cfg_ok c -> fpu_ok o_corr_f -> repaired c -> reader_bytes_ok r ->
  run_conn o_corr_f o_scale o_inflate o_pw c fuel (init_state c) r = (obs, Some s', r', ok) ->
  update_all o_corr_f c s' r' = (v, r'', eff) ->
  Forall q_safe eff.
Proof.
  intros o_corr_f o_scale o_inflate o_pw c fuel r obs s' r' ok v r'' eff Hc Hfpu (Hs & _ & Hf) Hr Hrun Hup.
  destruct (scaled_inv_fixed o_corr_f o_scale o_inflate o_pw c fuel r obs s' r' ok Hc Hs Hf Hr Hrun) as [Hi Hr'].
  destruct Hc as (_ & _ & _ & _ & HW & HH & _).
  exact (update_all_safe o_corr_f c HW HH Hfpu s' r' v r'' eff Hi Hr' Hup).
Qed.

Lemma total_wait_refuted_stalled_auth :
  exists c s r, cfg_ok c /\ reader_bytes_ok r /\ r_stalled r = true /\
    let '(_, _, eff) := process_message corr_q scale_q inflate_none pw_none c s r in
    sum_wait eff = 2 * timeout_of c /\
    Forall (wait_le (Z.max (timeout_of c) c04_write_slice_ms)) eff.
Proof.
  exists cfg_pw48, auth_state, stalled_auth_reader.
  split; [unfold cfg_ok; cbn; repeat split; try lia; try (vm_compute; congruence); right; reflexivity|].
  split; [split; cbn; unfold bytes_ok; repeat constructor; lia|].
  split; [reflexivity|].
  pose proof stalled_auth_witness as H. cbv zeta in H.
  destruct (process_message corr_q scale_q inflate_none pw_none cfg_pw48 auth_state stalled_auth_reader) as [[v r'] eff].
  destruct H as (Hs & Ht & _ & Hf). split; [rewrite Hs, Ht; reflexivity|exact Hf].
Qed.
