(* C04 - client-to-server side of the server: mirror model (definitions only).

   Mirrors, as read in /repo/src/libvncserver:
     sockets.c   rfbReadExactTimeout / rfbPeekExactTimeout / rfbWriteExact   -> [read_exact], [peek4], [run] (Wr)
     websockets.c webSocketsCheck (the 4-byte peek every TCP connection goes through) -> [connect_prog]
     rfbserver.c rfbProcessClientMessage and every handler of rfbProcessClientNormalMessage,
                 rfbProcessClientProtocolVersion, rfbProcessClientInitMessage,
                 rectSwapIfLEAndClip, the rectangle-count part of rfbSendFramebufferUpdate
     auth.c      rfbAuthNewClient, rfbProcessClientSecurityType, rfbAuthProcessClientMessage
     translate.c rfbSetTranslateFunction (bits-per-pixel validation)
     scale.c     rfbScalingSetup / rfbScaledScreenAllocate / rfbSendNewScaleSize

   The handlers are written as programs ([prog]) over the primitive steps "read exactly n bytes"
   (on failure: rfbCloseClient and return), "write n bytes" and "emit an effect"; [run] interprets a
   program against a [reader]: the peer seen as a list of events (data segments, pauses, end of
   stream, reset, "stops reading from now on").  One [run] = one rfbProcessClientMessage call.

   External code is a Section variable: the floating-point unit (rfbScaledCorrection, ScaleX/Y),
   zlib's inflate (extended clipboard), the password check. *)
From Coq Require Export List ZArith Bool Lia.
From LV Require Export Gen.Consts_C04.
Export ListNotations.
Local Open Scope Z_scope.

(* ------------------------------------------------------------------------------------------ *)
(** * Bytes *)

Fixpoint be_acc (acc : Z) (l : list Z) : Z :=
  match l with [] => acc | b :: r => be_acc (acc * 256 + b) r end.
Definition be (l : list Z) : Z := be_acc 0 l.            (* big-endian value of a byte string *)

Definition nthb (l : list Z) (i : nat) : Z := nth i l 0. (* only used on strings of checked length *)
Definition sub (l : list Z) (off len : nat) : list Z := firstn len (skipn off l).

Definition u16 (v : Z) : Z := v mod 65536.
Definition u32 (v : Z) : Z := v mod 4294967296.

(* checksum printed by the harness callbacks *)
Fixpoint sum_acc (a : Z) (l : list Z) : Z :=
  match l with [] => a | b :: r => sum_acc ((a * 31 + b) mod 1000003) r end.
Definition bsum (l : list Z) : Z := sum_acc 0 l.

Definition testbit (v : Z) (i : Z) : bool := Z.odd (v / 2 ^ i).
Fixpoint popcount16_from (v : Z) (n : nat) : Z :=
  match n with O => 0 | S m => (if testbit v (Z.of_nat m) then 1 else 0) + popcount16_from v m end.
Definition popcount16 (v : Z) : Z := popcount16_from v 16.

(* ------------------------------------------------------------------------------------------ *)
(** * The peer: events, reader, rfbReadExactTimeout *)

Inductive event :=
| EData (l : list Z)     (* a TCP segment (never empty) *)
| EPause (t : Z)         (* the peer is silent for t ms (t > 0) *)
| EEof                   (* orderly shutdown *)
| EReset                 (* connection reset *)
| EStall.                (* from now on the peer does not read any more *)

Record reader := mkReader {
  r_avail : list Z;      (* bytes in the socket buffer *)
  r_evs : list event;    (* what the peer will do next *)
  r_eof : bool; r_reset : bool;
  r_stalled : bool;
  r_dead : bool          (* rfbCloseClient has run: cl->sock == -1 *)
}.

Inductive rres := ROk (l : list Z) | RGone | RErr.

Record rd_out := mkRdOut { ro_res : rres; ro_rd : reader; ro_waits : list Z }.

(* the loop of rfbReadExactTimeout once the socket buffer is empty: read -> EAGAIN -> select(tmo).
   [paused]: silence accumulated in the current select; [ws]: durations of the selects so far *)
Fixpoint rd_loop (tmo : Z) (evs : list event) (need : nat) (acc : list Z) (paused : Z)
         (stalled : bool) (ws : list Z) : rd_out :=
  match evs with
  | [] => mkRdOut RErr (mkReader [] [] false false stalled false) (ws ++ [tmo])
  | EStall :: r => rd_loop tmo r need acc paused true ws
  | EPause t :: r =>
      if tmo <=? paused + t
      then mkRdOut RErr (mkReader [] evs false false stalled false) (ws ++ [tmo])
      else rd_loop tmo r need acc (paused + t) stalled ws
  | EData l :: r =>
      if (need <=? length l)%nat
      then mkRdOut (ROk (acc ++ firstn need l)) (mkReader (skipn need l) r false false stalled false)
                   (ws ++ [paused])
      else rd_loop tmo r (need - length l) (acc ++ l) 0 stalled (ws ++ [paused])
  | EEof :: r => mkRdOut RGone (mkReader [] r true false stalled false) (ws ++ [paused])
  | EReset :: r => mkRdOut RErr (mkReader [] r false true stalled false) (ws ++ [paused])
  end.

Fixpoint ev_bytes (l : list event) : nat :=
  match l with [] => O | EData d :: r => (length d + ev_bytes r)%nat | _ :: r => ev_bytes r end.

(* rfbReadExactTimeout(cl, buf, n, tmo).  A request for more bytes than the peer will ever send
   behaves like a request for one byte more than that (the count is capped only to keep the model
   computable: lengths go up to 2^31). *)
Definition read_exact_ref (tmo : Z) (n : Z) (r : reader) : rd_out :=
  if n <=? 0 then mkRdOut (ROk []) r []
  else if r_dead r then mkRdOut RErr r []
  else
    let need := Z.to_nat (Z.min n (Z.of_nat (S (length (r_avail r) + ev_bytes (r_evs r))))) in
    if (need <=? length (r_avail r))%nat
    then mkRdOut (ROk (firstn need (r_avail r)))
                 (mkReader (skipn need (r_avail r)) (r_evs r) (r_eof r) (r_reset r) (r_stalled r) false) []
    else if r_eof r then mkRdOut RGone (mkReader [] (r_evs r) true (r_reset r) (r_stalled r) false) []
    else if r_reset r then mkRdOut RErr (mkReader [] (r_evs r) false true (r_stalled r) false) []
    else rd_loop tmo (r_evs r) (need - length (r_avail r)) (r_avail r) 0 (r_stalled r) [].

(* the same function, arranged so that the common case (the bytes are already in the socket buffer)
   costs O(n) instead of O(buffer): this is the one the handlers and the extracted driver use;
   [read_exact_eq] in C2SProofs.v shows the two are equal *)
Fixpoint take_z (n : Z) (l : list Z) : option (list Z * list Z) :=
  match l with
  | [] => if n =? 0 then Some ([], []) else None
  | b :: r => if n =? 0 then Some ([], l)
              else match take_z (n - 1) r with Some (h, t) => Some (b :: h, t) | None => None end
  end.

Definition read_exact (tmo : Z) (n : Z) (r : reader) : rd_out :=
  if n <=? 0 then mkRdOut (ROk []) r []
  else if r_dead r then mkRdOut RErr r []
  else match take_z n (r_avail r) with
       | Some (h, t) => mkRdOut (ROk h) (mkReader t (r_evs r) (r_eof r) (r_reset r) (r_stalled r) false) []
       | None =>
           let need := Z.to_nat (Z.min n (Z.of_nat (S (length (r_avail r) + ev_bytes (r_evs r))))) in
           if r_eof r then mkRdOut RGone (mkReader [] (r_evs r) true (r_reset r) (r_stalled r) false) []
           else if r_reset r then mkRdOut RErr (mkReader [] (r_evs r) false true (r_stalled r) false) []
           else rd_loop tmo (r_evs r) (need - length (r_avail r)) (r_avail r) 0 (r_stalled r) []
       end.

(* what the event loop does between two rfbProcessEvents calls when the socket buffer is empty:
   time passes (pauses are skipped, outside any wait) until the next segment / eof / reset *)
Fixpoint top_feed (evs : list event) (stalled : bool) : option reader * bool :=
  match evs with
  | [] => (None, stalled)
  | EStall :: r => top_feed r true
  | EPause _ :: r => top_feed r stalled
  | EData l :: r => (Some (mkReader l r false false stalled false), stalled)
  | EEof :: r => (Some (mkReader [] r true false stalled false), stalled)
  | EReset :: r => (Some (mkReader [] r false true stalled false), stalled)
  end.

(* ------------------------------------------------------------------------------------------ *)
(** * rfbPeekExactTimeout(cl, buf, 4, tmo) as used by webSocketsCheck *)

Inductive pres :=
| POk (l : list Z)        (* 4 bytes peeked (not consumed) *)
| PPartial (l : list Z)   (* "n" (0<n<4) returned as if it were a success: stale errno *)
| PTimeout | PGone | PErr
| PWedge.                 (* the loop never terminates *)

Record pk_out := mkPkOut { po_res : pres; po_rd : reader; po_waits : list Z }.

(* busy phase: 0 < |avail| < 4, errno == EAGAIN from an earlier recv: select returns at once,
   recv returns the same short count ... until more data arrives.  Pauses are busy-waited. *)
Fixpoint pk_busy (evs : list event) (avail : list Z) (paused : Z) (stalled : bool) (ws : list Z) : pk_out :=
  match evs with
  | EStall :: r => pk_busy r avail paused true ws
  | EPause t :: r => pk_busy r avail (paused + t) stalled ws
  | EData l :: r =>
      let avail' := avail ++ l in
      if (4 <=? length avail')%nat
      then mkPkOut (POk (firstn 4 avail')) (mkReader avail' r false false stalled false) (ws ++ [paused])
      else pk_busy r avail' 0 stalled (ws ++ [paused])
  | _ => mkPkOut PWedge (mkReader avail evs false false stalled false) ws
  end.

(* waiting phase: nothing in the buffer, recv -> EAGAIN -> select(tmo) *)
Fixpoint pk_wait (tmo : Z) (evs : list event) (paused : Z) (stalled : bool) (ws : list Z) : pk_out :=
  match evs with
  | [] => mkPkOut PTimeout (mkReader [] [] false false stalled false) (ws ++ [tmo])
  | EStall :: r => pk_wait tmo r paused true ws
  | EPause t :: r =>
      if tmo <=? paused + t
      then mkPkOut PTimeout (mkReader [] evs false false stalled false) (ws ++ [tmo])
      else pk_wait tmo r (paused + t) stalled ws
  | EData l :: r =>
      if (4 <=? length l)%nat
      then mkPkOut (POk (firstn 4 l)) (mkReader l r false false stalled false) (ws ++ [paused])
      else pk_busy r l 0 stalled (ws ++ [paused])
  | EEof :: r => mkPkOut PGone (mkReader [] r true false stalled false) (ws ++ [paused])
  | EReset :: r => mkPkOut PErr (mkReader [] r false true stalled false) (ws ++ [paused])
  end.

(* [fixed]: the partial-peek loop repaired (notes/fix_C04_2.diff): while fewer than 4 bytes are
   there the loop naps in 1 ms steps (select with no descriptors) and gives up with ETIMEDOUT - i.e.
   "normal socket connection" - after tmo naps, instead of spinning on a select() that returns at
   once.  One nap = 1 ms; an arriving segment / eof / reset takes one nap.  The naps of one peek
   are reported as one wait.  Invariant: |avail| < 4 and elapsed < tmo. *)
Fixpoint pk_nap (tmo : Z) (evs : list event) (avail : list Z) (elapsed : Z) (eof reset stalled : bool)
         (ws : list Z) : pk_out :=
  match evs with
  | [] => mkPkOut PTimeout (mkReader avail [] eof reset stalled false) (ws ++ [tmo])
  | EStall :: r => pk_nap tmo r avail elapsed eof reset true ws
  | EPause t :: r =>
      if tmo <=? elapsed + t
      then mkPkOut PTimeout
             (mkReader avail (if elapsed + t - tmo >? 0 then EPause (elapsed + t - tmo) :: r else r) eof reset stalled false)
             (ws ++ [tmo])
      else pk_nap tmo r avail (elapsed + t) eof reset stalled ws
  | EData l :: r =>
      let avail' := avail ++ l in
      if (4 <=? length avail')%nat
      then mkPkOut (POk (firstn 4 avail')) (mkReader avail' r eof reset stalled false) (ws ++ [elapsed + 1])
      else if tmo <=? elapsed + 1
      then mkPkOut PTimeout (mkReader avail' r eof reset stalled false) (ws ++ [elapsed + 1])
      else pk_nap tmo r avail' (elapsed + 1) eof reset stalled ws
  | EEof :: r =>
      if tmo <=? elapsed + 1
      then mkPkOut PTimeout (mkReader avail r true reset stalled false) (ws ++ [elapsed + 1])
      else pk_nap tmo r avail (elapsed + 1) true reset stalled ws
  | EReset :: r =>
      if tmo <=? elapsed + 1
      then mkPkOut PTimeout (mkReader avail r eof true stalled false) (ws ++ [elapsed + 1])
      else pk_nap tmo r avail (elapsed + 1) eof true stalled ws
  end.

Fixpoint pk_wait_fixed (tmo : Z) (evs : list event) (paused : Z) (stalled : bool) (ws : list Z) : pk_out :=
  match evs with
  | [] => mkPkOut PTimeout (mkReader [] [] false false stalled false) (ws ++ [tmo])
  | EStall :: r => pk_wait_fixed tmo r paused true ws
  | EPause t :: r =>
      if tmo <=? paused + t
      then mkPkOut PTimeout (mkReader [] evs false false stalled false) (ws ++ [tmo])
      else pk_wait_fixed tmo r (paused + t) stalled ws
  | EData l :: r =>
      if (4 <=? length l)%nat
      then mkPkOut (POk (firstn 4 l)) (mkReader l r false false stalled false) (ws ++ [paused])
      else pk_nap tmo r l 0 false false stalled (ws ++ [paused])
  | EEof :: r => mkPkOut PGone (mkReader [] r true false stalled false) (ws ++ [paused])
  | EReset :: r => mkPkOut PErr (mkReader [] r false true stalled false) (ws ++ [paused])
  end.

Definition peek4 (fixed : bool) (tmo : Z) (r : reader) : pk_out :=
  let n := length (r_avail r) in
  if (4 <=? n)%nat then mkPkOut (POk (firstn 4 (r_avail r))) r []
  else if (0 <? n)%nat then
    (* data already there when rfbNewClient runs, fewer than 4 bytes: first recv is short, errno
       is not EAGAIN: the count is returned as a success *)
    if fixed then pk_nap tmo (r_evs r) (r_avail r) 0 (r_eof r) (r_reset r) (r_stalled r) []
    else mkPkOut (PPartial (r_avail r)) r []
  else if r_eof r then mkPkOut PGone r []
  else if r_reset r then mkPkOut PErr r []
  else if fixed then pk_wait_fixed tmo (r_evs r) 0 (r_stalled r) []
  else pk_wait tmo (r_evs r) 0 (r_stalled r) [].

(* ------------------------------------------------------------------------------------------ *)
(** * Effects and handler programs *)

Inductive callback :=
| CbKbd (down key : Z) | CbPtr (mask x y : Z) | CbCut (len sum : Z) | CbUtf8 (len : Z)
| CbChat (len sum : Z) | CbXvp (v c : Z) | CbDsz (w h n sum : Z) | CbSW (x y : Z) | CbSI (st : Z)
| CbFur (inc x y w h : Z).

Inductive effect :=
| Alloc (n : Z)            (* malloc/calloc of n bytes *)
| Wait (t : Z)             (* one select() inside rfbReadExact/rfbWriteExact that lasted t ms *)
| Close                    (* rfbCloseClient *)
| Callback (c : callback)
| Div (a b : Z)            (* integer division a / b executed *)
| Index (size i : Z)       (* element i of a buffer of [size] elements accessed *)
| Write (n : Z)            (* n bytes handed to the socket *)
| Opaque.                  (* behaviour from here on is outside the model (a file-transfer reply to a peer that stopped reading) *)

Inductive prog (A : Type) : Type :=
| Ret : A -> prog A
| Rd : Z -> A -> (list Z -> prog A) -> prog A     (* rfbReadExact n; failure: Close, result = 2nd arg *)
| Wr : Z -> (bool -> prog A) -> prog A            (* rfbWriteExact n; continuation gets "succeeded" *)
| Em : effect -> prog A -> prog A.
Arguments Ret {A}. Arguments Rd {A}. Arguments Wr {A}. Arguments Em {A}.

Record cfg := mkCfg {
  cf_w : Z; cf_h : Z; cf_bpp : Z;          (* screen geometry, server bits per pixel (8 or 32) *)
  cf_pw : bool;                            (* password configured *)
  cf_ft : bool;                            (* permitFileTransfer *)
  cf_xvp : bool; cf_utf8 : bool;           (* xvpHook / setXCutTextUTF8 installed *)
  cf_wait : Z;                             (* screen->maxClientWait (0: default) *)
  cf_view : bool;                          (* clients are view-only *)
  cf_dsz : bool;                           (* application installs a setDesktopSizeHook *)
  cf_namelen : Z;                          (* strlen(desktopName) *)
  cf_fix_scale : bool;                     (* source carries the F2 repair (zero scaled width rejected) *)
  cf_fix_peek : bool;                      (* source carries the partial-peek repair *)
  cf_fix_fur : bool                        (* source ignores empty FramebufferUpdateRequests (F22/F4 repair) *)
}.

Definition timeout_of (c : cfg) : Z := if cf_wait c =? 0 then c04_default_max_wait else cf_wait c.

(* rfbWriteExact against a peer that does not read: select(5 s) slices until >= timeout *)
Definition stall_slices (c : cfg) : nat :=
  Z.to_nat (Z.max 1 ((timeout_of c + c04_write_slice_ms - 1) / c04_write_slice_ms)).
Definition stall_waits (c : cfg) : list effect := repeat (Wait c04_write_slice_ms) (stall_slices c).

Definition kill (r : reader) : reader :=
  mkReader (r_avail r) (r_evs r) (r_eof r) (r_reset r) (r_stalled r) true.

Definition is_div0 (e : effect) : bool := match e with Div _ b => b =? 0 | _ => false end.
Definition is_bad_index (e : effect) : bool :=
  match e with Index size i => negb ((0 <=? i) && (i <? size)) | _ => false end.
Definition is_close (e : effect) : bool := match e with Close => true | _ => false end.
Definition is_opaque (e : effect) : bool := match e with Opaque => true | _ => false end.

(* one rfbProcessClientMessage call.  Result value None: the process died (division by zero,
   access outside a buffer) or left the model (Opaque). *)
Fixpoint run {A : Type} (c : cfg) (p : prog A) (r : reader) : option A * reader * list effect :=
  match p with
  | Ret a => (Some a, r, [])
  | Rd n sf k =>
      let o := read_exact (timeout_of c) n r in
      match ro_res o with
      | ROk l => let '(v, r', e) := run c (k l) (ro_rd o) in (v, r', map Wait (ro_waits o) ++ e)
      | _ => (Some sf, kill (ro_rd o), map Wait (ro_waits o) ++ [Close])
      end
  | Wr n k =>
      if n <=? 0 then let '(v, r', e) := run c (k true) r in (v, r', e)
      else if r_dead r then let '(v, r', e) := run c (k false) r in (v, r', e)
      else if r_stalled r then let '(v, r', e) := run c (k false) r in (v, r', stall_waits c ++ e)
      else let '(v, r', e) := run c (k true) r in (v, r', Write n :: e)
  | Em e k =>
      if is_div0 e || is_bad_index e || is_opaque e then (None, r, [e])
      else let '(v, r', es) := run c k (if is_close e then kill r else r) in (v, r', e :: es)
  end.

(* ------------------------------------------------------------------------------------------ *)
(** * Per-client state *)

Definition rect4 : Type := (Z * Z * Z * Z)%type.   (* x, y, w, h *)

Record cstate := mkSt {
  s_state : Z;                 (* cl->state (RFB_* codes of rfb.h) *)
  s_closed : bool;
  s_minor : Z;                 (* cl->protocolMinorVersion *)
  s_sw : Z; s_sh : Z;          (* cl->scaledScreen->width/height *)
  s_scaled : list (Z * Z);     (* scaled screens allocated so far (screen->scaledScreenNext chain) *)
  s_pref : Z;                  (* cl->preferredEncoding as unsigned 32, -1: none yet *)
  s_ready : bool;              (* readyForSetColourMapEntries *)
  s_extclip : bool; s_extcap : Z;
  s_newfb : bool; s_extds : bool; s_pending : bool;   (* useNewFBSize useExtDesktopSize newFBSizePending *)
  s_curshape : bool; s_curpos : bool; s_curchanged : bool; s_curmoved : bool;
  s_lastrect : bool; s_supmsg : bool; s_supenc : bool; s_srvid : bool;
  s_palm : bool;
  s_req : list rect4;          (* rectangles or-ed into requestedRegion since the last update *)
  s_odd : bool                 (* client format is 24 bpp: accepted, but which encoders then serve the client is not mirrored *)
}.

Definition init_state (c : cfg) : cstate :=
  mkSt c04_st_ProtocolVersion false 0 (cf_w c) (cf_h c) [] (-1) false false 452984839
       false false false false false false false false false false false false [] false.
(* 452984839 = 0x1B000007: initial extClipboardUserCap (rfbNewTCPOrUDPClient) *)

Definition set_closed (s : cstate) : cstate :=
  mkSt (s_state s) true (s_minor s) (s_sw s) (s_sh s) (s_scaled s) (s_pref s) (s_ready s) (s_extclip s) (s_extcap s)
       (s_newfb s) (s_extds s) (s_pending s) (s_curshape s) (s_curpos s) (s_curchanged s) (s_curmoved s)
       (s_lastrect s) (s_supmsg s) (s_supenc s) (s_srvid s) (s_palm s) (s_req s) (s_odd s).
Definition set_state (s : cstate) (st : Z) : cstate :=
  mkSt st (s_closed s) (s_minor s) (s_sw s) (s_sh s) (s_scaled s) (s_pref s) (s_ready s) (s_extclip s) (s_extcap s)
       (s_newfb s) (s_extds s) (s_pending s) (s_curshape s) (s_curpos s) (s_curchanged s) (s_curmoved s)
       (s_lastrect s) (s_supmsg s) (s_supenc s) (s_srvid s) (s_palm s) (s_req s) (s_odd s).
Definition set_minor (s : cstate) (m : Z) : cstate :=
  mkSt (s_state s) (s_closed s) m (s_sw s) (s_sh s) (s_scaled s) (s_pref s) (s_ready s) (s_extclip s) (s_extcap s)
       (s_newfb s) (s_extds s) (s_pending s) (s_curshape s) (s_curpos s) (s_curchanged s) (s_curmoved s)
       (s_lastrect s) (s_supmsg s) (s_supenc s) (s_srvid s) (s_palm s) (s_req s) (s_odd s).
Definition set_odd (s : cstate) (b : bool) : cstate :=
  mkSt (s_state s) (s_closed s) (s_minor s) (s_sw s) (s_sh s) (s_scaled s) (s_pref s) (s_ready s) (s_extclip s) (s_extcap s)
       (s_newfb s) (s_extds s) (s_pending s) (s_curshape s) (s_curpos s) (s_curchanged s) (s_curmoved s)
       (s_lastrect s) (s_supmsg s) (s_supenc s) (s_srvid s) (s_palm s) (s_req s) b.
Definition set_ready (s : cstate) : cstate :=
  mkSt (s_state s) (s_closed s) (s_minor s) (s_sw s) (s_sh s) (s_scaled s) (s_pref s) true (s_extclip s) (s_extcap s)
       (s_newfb s) (s_extds s) (s_pending s) (s_curshape s) (s_curpos s) (s_curchanged s) (s_curmoved s)
       (s_lastrect s) (s_supmsg s) (s_supenc s) (s_srvid s) (s_palm s) (s_req s) (s_odd s).
Definition set_extclip (s : cstate) (b : bool) (cap : Z) : cstate :=
  mkSt (s_state s) (s_closed s) (s_minor s) (s_sw s) (s_sh s) (s_scaled s) (s_pref s) (s_ready s) b cap
       (s_newfb s) (s_extds s) (s_pending s) (s_curshape s) (s_curpos s) (s_curchanged s) (s_curmoved s)
       (s_lastrect s) (s_supmsg s) (s_supenc s) (s_srvid s) (s_palm s) (s_req s) (s_odd s).
Definition set_pending (s : cstate) (b : bool) : cstate :=
  mkSt (s_state s) (s_closed s) (s_minor s) (s_sw s) (s_sh s) (s_scaled s) (s_pref s) (s_ready s) (s_extclip s) (s_extcap s)
       (s_newfb s) (s_extds s) b (s_curshape s) (s_curpos s) (s_curchanged s) (s_curmoved s)
       (s_lastrect s) (s_supmsg s) (s_supenc s) (s_srvid s) (s_palm s) (s_req s) (s_odd s).
Definition set_palm (s : cstate) : cstate :=
  mkSt (s_state s) (s_closed s) (s_minor s) (s_sw s) (s_sh s) (s_scaled s) (s_pref s) (s_ready s) (s_extclip s) (s_extcap s)
       (s_newfb s) (s_extds s) (s_pending s) (s_curshape s) (s_curpos s) (s_curchanged s) (s_curmoved s)
       (s_lastrect s) (s_supmsg s) (s_supenc s) (s_srvid s) true (s_req s) (s_odd s).
Definition set_scale (s : cstate) (w h : Z) (l : list (Z * Z)) : cstate :=
  mkSt (s_state s) (s_closed s) (s_minor s) w h l (s_pref s) (s_ready s) (s_extclip s) (s_extcap s)
       (s_newfb s) (s_extds s) true (s_curshape s) (s_curpos s) (s_curchanged s) (s_curmoved s)
       (s_lastrect s) (s_supmsg s) (s_supenc s) (s_srvid s) (s_palm s) (s_req s) (s_odd s).
Definition set_scaled_list (s : cstate) (l : list (Z * Z)) : cstate :=
  mkSt (s_state s) (s_closed s) (s_minor s) (s_sw s) (s_sh s) l (s_pref s) (s_ready s) (s_extclip s) (s_extcap s)
       (s_newfb s) (s_extds s) (s_pending s) (s_curshape s) (s_curpos s) (s_curchanged s) (s_curmoved s)
       (s_lastrect s) (s_supmsg s) (s_supenc s) (s_srvid s) (s_palm s) (s_req s) (s_odd s).
Definition add_req (s : cstate) (r : rect4) (pend : bool) : cstate :=
  mkSt (s_state s) (s_closed s) (s_minor s) (s_sw s) (s_sh s) (s_scaled s) (s_pref s) true (s_extclip s) (s_extcap s)
       (s_newfb s) (s_extds s) pend (s_curshape s) (s_curpos s) (s_curchanged s) (s_curmoved s)
       (s_lastrect s) (s_supmsg s) (s_supenc s) (s_srvid s) (s_palm s) (s_req s ++ [r]) (s_odd s).

Definition closeP (s : cstate) : prog cstate := Em Close (Ret (set_closed s)).
(* read with the standard failure path *)
Definition rd (n : Z) (s : cstate) (k : list Z -> prog cstate) : prog cstate := Rd n (set_closed s) k.
(* a fixed-size message body is read into the union rfbClientToServerMsg at offset 1 *)
Definition rd_msg (sz : Z) (s : cstate) (k : list Z -> prog cstate) : prog cstate :=
  Em (Index c04_sizeof_msg (sz - 1)) (rd (sz - 1) s k).
(* write; failure closes *)
Definition wr_or_close (n : Z) (s : cstate) (k : prog cstate) : prog cstate :=
  Wr n (fun ok => if ok then k else closeP s).

(* ------------------------------------------------------------------------------------------ *)
(** * rectSwapIfLEAndClip: the uint16_t arithmetic after rfbScaledCorrection *)

(* x1 y1 w1 h1: the four ints after the (floating point) correction; W H: cl->screen->width/height *)
Definition clip (W H x1 y1 w1 h1 : Z) : option rect4 :=
  let x := u16 x1 in let y := u16 y1 in let w := u16 w1 in let h := u16 h1 in
  let w' := if w >? W - x then u16 (W - x) else w in
  if w' >? W - x then None else
  let h' := if h >? H - y then u16 (H - y) else h in
  if h' >? H - y then None else Some (x, y, w', h').

(* ------------------------------------------------------------------------------------------ *)
(** * sscanf(pv, "RFB %03d.%03d\n", &major, &minor) == 2 *)

Definition is_space (b : Z) : bool := (b =? 32) || ((9 <=? b) && (b <=? 13)).
Definition is_digit (b : Z) : bool := (48 <=? b) && (b <=? 57).

Fixpoint skip_ws (l : list Z) : list Z :=
  match l with b :: r => if is_space b then skip_ws r else l | [] => [] end.

(* up to [w] digits *)
Fixpoint digits (w : nat) (l : list Z) (acc : Z) (n : nat) : Z * nat * list Z :=
  match w, l with
  | S w', b :: r => if is_digit b then digits w' r (acc * 10 + (b - 48)) (S n) else (acc, n, l)
  | _, _ => (acc, n, l)
  end.

(* %03d : optional white space, optional sign (counts in the width), at least one digit *)
Definition scan_d3 (l : list Z) : option (Z * list Z) :=
  let l := skip_ws l in
  match l with
  | b :: r =>
      if (b =? 45) || (b =? 43) then
        let '(v, n, rest) := digits 2 r 0 0 in
        if (0 <? n)%nat then Some (if b =? 45 then - v else v, rest) else None
      else
        let '(v, n, rest) := digits 3 l 0 0 in
        if (0 <? n)%nat then Some (v, rest) else None
  | [] => None
  end.

(* the C string ends at the first NUL *)
Fixpoint cstr (l : list Z) : list Z :=
  match l with b :: r => if b =? 0 then [] else b :: cstr r | [] => [] end.

Definition parse_version (pv : list Z) : option (Z * Z) :=
  match cstr pv with
  | 82 :: 70 :: 66 :: r =>                    (* "RFB" *)
      match scan_d3 (skip_ws r) with
      | Some (major, r1) =>
          match r1 with
          | 46 :: r2 =>                       (* "." *)
              match scan_d3 r2 with Some (minor, _) => Some (major, minor) | None => None end
          | _ => None
          end
      | None => None
      end
  | _ => None
  end.

(* ------------------------------------------------------------------------------------------ *)
Section Handlers.
  (* the floating-point unit: the double arithmetic of rfbScaledCorrection(from,to,&x,&y,&w,&h), i.e.
     the four values (int)x2, (int)y2, (int)w2, (int)h2, and ScaleX/ScaleY *)
  Variable o_corr_f : Z -> Z -> Z -> Z -> Z -> Z -> Z -> Z -> rect4.   (* fw fh tw th x y w h *)
  Variable o_scale : Z -> Z -> Z -> Z.                                (* from to v *)
  (* zlib: result of the inflate calls of rfbProcessExtendedServerCutTextData on (flags, data) *)
  Inductive zres := ZBad | ZSteps (l : list (Z * bool)).  (* per format: size (-1: header not inflated), body ok *)
  Variable o_inflate : Z -> list Z -> zres.
  (* screen->passwordCheck on the 16-byte response *)
  Variable o_pw : list Z -> bool.

  Variable c : cfg.

  (* the integer tail of rfbScaledCorrection (int arithmetic wraps at 32 bits in practice; the
     additions below stay far from that for 16-bit inputs unless the doubles were inf/NaN) *)
  Definition wrap32 (v : Z) : Z := (v + 2147483648) mod 4294967296 - 2147483648.
  Definition o_corr (fw fh tw th x y w h : Z) : rect4 :=
    let '(x2, y2, w2, h2) := o_corr_f fw fh tw th x y w h in
    let w3 := if w2 =? 0 then 1 else w2 in
    let h3 := if h2 =? 0 then 1 else h2 in
    let w4 := if wrap32 (x2 + w3) >? tw then wrap32 (tw - x2) else w3 in
    let h4 := if wrap32 (y2 + h3) >? th then wrap32 (th - y2) else h3 in
    (x2, y2, w4, h4).

  Definition scaled (s : cstate) : bool := negb ((s_sw s =? cf_w c) && (s_sh s =? cf_h c)).

  (* ---- handshake ---- *)

  Definition server_init (s : cstate) : prog cstate :=
    wr_or_close (c04_sz_ServerInit + cf_namelen c) s (Ret (set_state s c04_st_Normal)).

  Definition init_msg (s : cstate) : prog cstate :=
    rd c04_sz_ClientInit s (fun _ => server_init s).

  Definition send_challenge (s : cstate) : prog cstate :=
    wr_or_close c04_challenge s (Ret (set_state s c04_st_Authentication)).

  Definition proto_version (s : cstate) : prog cstate :=
    rd c04_sz_ProtocolVersion s (fun pv =>
      Em (Index c04_sizeof_pv c04_sz_ProtocolVersion)               (* pv[sz_rfbProtocolVersionMsg] = 0 *)
      (match parse_version pv with
      | None => closeP s
      | Some (major, minor) =>
          if negb (major =? c04_proto_major) then closeP s else
          let s := set_minor s minor in
          if minor <? 7 then
            (* rfbSendSecurityType *)
            wr_or_close 4 s (if cf_pw c then send_challenge s else Ret (set_state s c04_st_Initialisation))
          else
            (* rfbSendSecurityTypeList: count byte + one type *)
            wr_or_close 2 s (Ret (set_state s c04_st_SecurityType))
      end)).

  Definition security_type (s : cstate) : prog cstate :=
    rd 1 s (fun b =>
      let t := nthb b 0 in
      if cf_pw c then
        if t =? c04_sec_VncAuth then send_challenge s else closeP s
      else if t =? c04_sec_None then
        let k := if s_minor s =? 889 then server_init s
                 else Ret (set_state s c04_st_Initialisation) in
        if (7 <? s_minor s) && negb (s_minor s =? 889) then wr_or_close 4 s k else k
      else closeP s).

  Definition auth_msg (s : cstate) : prog cstate :=
    rd c04_challenge s (fun resp =>
      if o_pw resp then wr_or_close 4 s (Ret (set_state s c04_st_Initialisation))
      else
        Wr 4 (fun _ =>
          if 7 <? s_minor s
          then Em (Alloc 26) (Wr 26 (fun _ => closeP s))     (* rfbClientSendString("password check failed!") *)
          else closeP s)).

  (* ---- normal messages ---- *)

  Definition bpp_ok (b : Z) : bool := (b =? 8) || (b =? 16) || ((c04_allow24 =? 1) && (b =? 24)) || (b =? 32).

  Definition h_SetPixelFormat (s : cstate) : prog cstate :=
    rd_msg c04_sz_SetPixelFormat s (fun m =>
      (* m: pad pad pad | bpp depth bigEndian trueColour rmax(2) gmax(2) bmax(2) rs gs bs pad(3) *)
      let bpp := nthb m 3 in let tc := negb (nthb m 6 =? 0) in
      let s := set_ready s in
      if negb (bpp_ok (cf_bpp c)) then closeP s
      else if negb (bpp_ok bpp) then closeP s
      else if negb tc && negb (bpp =? 8) then closeP s
      else
        (* 24 bpp is accepted (LIBVNCSERVER_ALLOW24BPP); which encoders then serve the client is not mirrored:
           the update still computes its rectangle count (divisions included), only the count is unknown *)
        let s := set_odd s (bpp =? 24) in
        if negb tc then
          (* rfbSetClientColourMapBGR233 *)
          wr_or_close (c04_sz_SetColourMapEntries + 256 * 3 * 2) s (Ret s)
        else Ret s).

  Definition h_FixColourMapEntries (s : cstate) : prog cstate :=
    rd_msg c04_sz_FixColourMapEntries s (fun _ => closeP s).

  (* SetEncodings: flags reset, then one 4-byte read per announced encoding *)
  Record encst := mkEnc {
    e_pref : Z; e_newfb : bool; e_extds : bool; e_curshape : bool; e_curpos : bool;
    e_curchanged : bool; e_curmoved : bool; e_lastrect : bool; e_supmsg : bool; e_supenc : bool;
    e_srvid : bool; e_extclip : bool
  }.

  Definition is_pixel_enc (e : Z) : bool :=
    (e =? c04_e_Raw) || (e =? c04_e_RRE) || (e =? c04_e_CoRRE) || (e =? c04_e_Hextile) || (e =? c04_e_Ultra) ||
    (e =? c04_e_Zlib) || (e =? c04_e_ZRLE) || (e =? c04_e_ZYWRLE) || (e =? c04_e_Tight) || (e =? c04_e_TightPng).

  Definition enc_finish (s : cstate) (last : Z) (e : encst) : cstate :=
    let pref := if e_pref e =? -1 then (if last =? -1 then c04_e_Raw else last) else e_pref e in
    let curpos := if e_curpos e && negb (e_curshape e) then false else e_curpos e in
    mkSt (s_state s) (s_closed s) (s_minor s) (s_sw s) (s_sh s) (s_scaled s) pref (s_ready s)
         (e_extclip e) (s_extcap s) (e_newfb e) (e_extds e) (s_pending s) (e_curshape e) curpos
         (e_curchanged e) (e_curmoved e) (e_lastrect e) (e_supmsg e) (e_supenc e) (e_srvid e)
         (s_palm s) (s_req s) (s_odd s).

  Definition enc_with (e : encst) pref newfb extds curshape curpos curchanged curmoved lastrect supmsg supenc srvid extclip :=
    mkEnc pref newfb extds curshape curpos curchanged curmoved lastrect supmsg supenc srvid extclip.

  Fixpoint enc_loop (n : nat) (s : cstate) (last : Z) (e : encst) : prog cstate :=
    match n with
    | O => Ret (enc_finish s last e)
    | S m =>
      Rd 4 (set_closed (enc_finish s last e)) (fun b =>
        let enc := be b in
        let next e' := enc_loop m s last e' in
        if enc =? c04_e_CopyRect then next e
        else if is_pixel_enc enc then
          next (if e_pref e =? -1
                then enc_with e enc (e_newfb e) (e_extds e) (e_curshape e) (e_curpos e) (e_curchanged e) (e_curmoved e) (e_lastrect e) (e_supmsg e) (e_supenc e) (e_srvid e) (e_extclip e)
                else e)
        else if (enc =? c04_e_XCursor) || (enc =? c04_e_RichCursor) then
          next (enc_with e (e_pref e) (e_newfb e) (e_extds e) true (e_curpos e) true (e_curmoved e) (e_lastrect e) (e_supmsg e) (e_supenc e) (e_srvid e) (e_extclip e))
        else if enc =? c04_e_PointerPos then
          next (if e_curpos e then e else
                enc_with e (e_pref e) (e_newfb e) (e_extds e) (e_curshape e) true (e_curchanged e) true (e_lastrect e) (e_supmsg e) (e_supenc e) (e_srvid e) (e_extclip e))
        else if enc =? c04_e_LastRect then
          next (enc_with e (e_pref e) (e_newfb e) (e_extds e) (e_curshape e) (e_curpos e) (e_curchanged e) (e_curmoved e) true (e_supmsg e) (e_supenc e) (e_srvid e) (e_extclip e))
        else if enc =? c04_e_NewFBSize then
          next (enc_with e (e_pref e) true (e_extds e) (e_curshape e) (e_curpos e) (e_curchanged e) (e_curmoved e) (e_lastrect e) (e_supmsg e) (e_supenc e) (e_srvid e) (e_extclip e))
        else if enc =? c04_e_ExtDesktopSize then
          next (if e_extds e then e else
                enc_with e (e_pref e) true true (e_curshape e) (e_curpos e) (e_curchanged e) (e_curmoved e) (e_lastrect e) (e_supmsg e) (e_supenc e) (e_srvid e) (e_extclip e))
        else if enc =? c04_e_KeyboardLedState then next e
        else if enc =? c04_e_SupportedMessages then
          next (enc_with e (e_pref e) (e_newfb e) (e_extds e) (e_curshape e) (e_curpos e) (e_curchanged e) (e_curmoved e) (e_lastrect e) true (e_supenc e) (e_srvid e) (e_extclip e))
        else if enc =? c04_e_SupportedEncodings then
          next (enc_with e (e_pref e) (e_newfb e) (e_extds e) (e_curshape e) (e_curpos e) (e_curchanged e) (e_curmoved e) (e_lastrect e) (e_supmsg e) true (e_srvid e) (e_extclip e))
        else if enc =? c04_e_ServerIdentity then
          next (enc_with e (e_pref e) (e_newfb e) (e_extds e) (e_curshape e) (e_curpos e) (e_curchanged e) (e_curmoved e) (e_lastrect e) (e_supmsg e) (e_supenc e) true (e_extclip e))
        else if enc =? c04_e_Xvp then
          if cf_xvp c
          then (* rfbSendXvp: a failed write closes the client but the loop goes on *)
               Wr c04_sz_Xvp (fun ok => if ok then next e else Em Close (enc_loop m (set_closed s) last e))
          else next e
        else if enc =? c04_e_ExtendedClipboard then
          if cf_utf8 c
          then let e' := enc_with e (e_pref e) (e_newfb e) (e_extds e) (e_curshape e) (e_curpos e) (e_curchanged e) (e_curmoved e) (e_lastrect e) (e_supmsg e) (e_supenc e) (e_srvid e) true in
               Wr 16 (fun ok => if ok then next e' else closeP (enc_finish s last e'))
          else next e
        else if (c04_e_QualityLevel0 <=? enc) && (enc <=? c04_e_QualityLevel9) then
          (* rfbEncodingQualityLevel0..9: tight2turbo_qual[enc & 0x0F], tight2turbo_subsamp[..] *)
          Em (Index (Z.of_nat (length c04_turbo_qual)) (enc mod 16)) (next e)
        else next e)
    end.

  Definition h_SetEncodings (s : cstate) : prog cstate :=
    rd_msg c04_sz_SetEncodings s (fun m =>
      let n := be (sub m 1 2) in
      let last := s_pref s in
      enc_loop (Z.to_nat n) s last
        (* every capability flag is reset, enableExtendedClipboard included (commit 2d15d75) *)
        (mkEnc (-1) false false false false false (s_curmoved s) false false false false false)).

  Definition h_FUR (s : cstate) : prog cstate :=
    rd_msg c04_sz_FUR s (fun m =>
      let inc := if nthb m 0 =? 0 then 0 else 1 in
      let x := be (sub m 1 2) in let y := be (sub m 3 2) in
      let w := be (sub m 5 2) in let h := be (sub m 7 2) in
      let '(x1, y1, w1, h1) :=
          if scaled s then o_corr (s_sw s) (s_sh s) (cf_w c) (cf_h c) x y w h else (x, y, w, h) in
      match clip (cf_w c) (cf_h c) x1 y1 w1 h1 with
      | None => Ret s
      | Some (cx, cy, cw, ch) =>
          if cf_fix_fur c && ((cw =? 0) || (ch =? 0)) then Ret s else
          Em (Callback (CbFur inc cx cy cw ch))
             (Ret (add_req s (cx, cy, cw, ch)
                           (if (inc =? 0) && s_extds s then true else s_pending s)))
      end).

  Definition h_KeyEvent (s : cstate) : prog cstate :=
    rd_msg c04_sz_KeyEvent s (fun m =>
      if cf_view c then Ret s
      else Em (Callback (CbKbd (if nthb m 0 =? 0 then 0 else 1) (be (sub m 3 4)))) (Ret s)).

  Definition h_PointerEvent (s : cstate) : prog cstate :=
    rd_msg c04_sz_PointerEvent s (fun m =>
      if cf_view c then Ret s
      else
        let x := be (sub m 1 2) in let y := be (sub m 3 2) in
        let sx := if scaled s then o_scale (s_sw s) (cf_w c) x else x in
        let sy := if scaled s then o_scale (s_sh s) (cf_h c) y else y in
        Em (Callback (CbPtr (nthb m 0) sx sy)) (Ret s)).

  (* rfbProcessExtendedServerCutTextData: one (size header, body) pair per set format bit *)
  Fixpoint ext_provide (s : cstate) (steps : list (Z * bool)) (first : bool) : prog cstate :=
    match steps with
    | [] => Ret s
    | (size, ok) :: r =>
        if size <? 0 then closeP s                      (* first inflate did not return Z_OK *)
        else if size >? c04_ext_clip_limit then closeP s
        else Em (Alloc size)
               (if negb ok then closeP s
                else if first && negb (cf_view c) && cf_utf8 c
                     then Em (Callback (CbUtf8 size)) (ext_provide s r false)
                     else ext_provide s r false)
    end.

  (* the length check of rfbProcessClientNormalMessage: the compressed message of the extended format may be
     slightly larger than the 1 MB its inflated records are limited to (59a8ab5); the classic form keeps 1 MB *)
  Definition cut_refused (ext : bool) (len : Z) : bool :=
    if ext && (len <=? c04_ext_cut_msg_limit) then false else len >? c04_cut_text_limit.

  Definition h_ClientCutText (s : cstate) : prog cstate :=
    rd_msg c04_sz_ClientCutText s (fun m =>
      let len0 := be (sub m 3 4) in
      let ext := s_extclip s && (2147483648 <=? len0) in
      let len := if ext then u32 (- len0) else len0 in
      if cut_refused ext len then closeP s
      else
        Em (Alloc (if len =? 0 then 1 else len))
        (rd len s (fun str =>
          if ext then
            if len <? 4 then closeP s
            else
              let flags := be (firstn 4 str) in
              Em (Index len 3)                                           (* memcpy(&flags, str, 4) *)
              (if testbit flags 24 then                                  (* Caps *)
                let formats := popcount16 flags in
                if negb (formats =? 0) && negb (len =? 4 + formats * 4) then closeP (set_extclip s (s_extclip s) flags)
                else if testbit flags 0
                     then Em (Index len 7)                               (* memcpy(&maxUnsolicited, str + 4, 4) *)
                             (Ret (set_extclip s (if formats =? 0 then false else true) flags))
                     else Ret (set_extclip s false flags)
              else if testbit flags 25 then Ret s                        (* Request: the server holds no data *)
              else if testbit flags 26 then Ret s                        (* Peek *)
              else if testbit flags 28 then                              (* Provide *)
                match o_inflate flags (skipn 4 str) with
                | ZBad => closeP s
                | ZSteps steps => ext_provide s steps (testbit flags 0)
                end
              else Ret s)
          else if cf_view c then Ret s
          else Em (Callback (CbCut len (bsum str))) (Ret s)))).

  Definition h_TextChat (s : cstate) : prog cstate :=
    rd_msg c04_sz_TextChat s (fun m =>
      let len := be (sub m 3 4) in
      if (len =? c04_chat_open) || (len =? c04_chat_close) || (len =? c04_chat_finished)
      then Em (Callback (CbChat len 0)) (Ret s)
      else if (0 <? len) && (len <? c04_text_max) then
        Em (Alloc len) (rd len s (fun str => Em (Callback (CbChat len (bsum str))) (Ret s)))
      else closeP s).

  (* rfbProcessFileTransfer: which content types read a variable part; everything after the reads
     (filesystem, replies) cannot close the connection unless a write fails *)
  Definition ft_reads_buffer (ctype cparam : Z) : bool :=
    ((ctype =? 1) && (cparam =? 1)) || (ctype =? 3) || (ctype =? 8) || (ctype =? 5) || (ctype =? 10).

  (* what follows the reads of a file-transfer message (filesystem work, replies) changes nothing the model
     tracks and closes the client only when a reply cannot be written: against a peer that reads, the model
     goes on; against one that stopped reading it is not known which of the content types write - Opaque *)
  Definition ft_rest (s : cstate) : prog cstate :=
    Wr 1 (fun ok => if ok then Ret s else Em Opaque (Ret s)).

  Definition h_FileTransfer (s : cstate) : prog cstate :=
    rd_msg c04_sz_FileTransfer s (fun m =>
      let ctype := nthb m 0 in let cparam := nthb m 1 in
      let len := be (sub m 7 4) in
      if negb (cf_ft c) then closeP s
      else if ft_reads_buffer ctype cparam then
        if len >? c04_int_max then closeP s
        else if len =? 0 then Ret s
        else Em (Alloc (len + 1))
               (Em (Index (len + 1) len)                            (* buffer[length] = 0 *)
               (rd len s (fun _ =>
                  if ctype =? 8 then rd 4 s (fun _ => ft_rest s) else ft_rest s)))
      else ft_rest s).

  Definition pad4 (v : Z) : Z := if v mod 4 =? 0 then v else v + 4 - v mod 4.
  Fixpoint mem2 (w h : Z) (l : list (Z * Z)) : bool :=
    match l with [] => false | (a, b) :: r => ((a =? w) && (b =? h)) || mem2 w h r end.

  (* rfbScalingSetup + rfbSendNewScaleSize *)
  Definition do_scale (s : cstate) (factor : Z) : prog cstate :=
    let w := cf_w c / factor in let h := cf_h c / factor in
    let send s' :=
        if s_newfb s' && s_pending s' then Ret s'
        else let s'' := set_pending s' false in
             wr_or_close (if s_palm s' then c04_sz_PalmResize else c04_sz_ResizeFrameBuffer) s'' (Ret s'') in
    if ((w =? cf_w c) && (h =? cf_h c)) || mem2 w h (s_scaled s) then send (set_scale s w h (s_scaled s))
    else
      (* rfbScaledScreenAllocate *)
      Em (Alloc c04_sizeof_screen)
        (if (h =? 0) || (cf_fix_scale c && (w =? 0)) then send s
         else Em (Alloc (pad4 (w * (cf_bpp c / 8)) * h))
                 (send (set_scale s w h ((w, h) :: s_scaled s)))).

  Definition h_SetScale (palm : bool) (s : cstate) : prog cstate :=
    let s := if palm then set_palm s else s in
    rd_msg c04_sz_SetScale s (fun m =>
      let f := nthb m 0 in
      if f =? 0 then closeP s
      else Em (Div (cf_w c) f) (Em (Div (cf_h c) f) (do_scale s f))).   (* width/scale, height/scale *)

  Definition h_Xvp (s : cstate) : prog cstate :=
    rd_msg c04_sz_Xvp s (fun m =>
      let v := nthb m 1 in let code := nthb m 2 in
      if negb (v =? 1) then Wr c04_sz_Xvp (fun ok => if ok then Ret s else closeP s)
      else if cf_xvp c then
        Em (Callback (CbXvp v code))
           (if Z.odd code then Ret s else Wr c04_sz_Xvp (fun ok => if ok then Ret s else closeP s))
      else Ret s).

  (* checksum over the byte-swapped rfbExtDesktopScreen records, as computed by the harness hook *)
  Fixpoint dsz_sum (n : nat) (l : list Z) (a : Z) : Z :=
    match n with
    | O => a
    | S m =>
        let rec := firstn 16 l in
        let v := be (sub rec 0 4) + be (sub rec 4 2) + be (sub rec 6 2) + be (sub rec 8 2) + be (sub rec 10 2) + be (sub rec 12 4) in
        dsz_sum m (skipn 16 l) ((a * 31 + v) mod 1000003)
    end.
  Fixpoint index_all (size : Z) (n : nat) (k : prog cstate) : prog cstate :=
    match n with O => k | S m => index_all size m (Em (Index size (Z.of_nat m)) k) end.

  Definition h_SetDesktopSize (s : cstate) : prog cstate :=
    rd_msg c04_sz_SetDesktopSize s (fun m =>
      let w := be (sub m 1 2) in let h := be (sub m 3 2) in let n := nthb m 5 in
      if n =? 0 then Ret s
      else Em (Alloc (n * c04_sz_ExtDesktopScreen))
             (rd (n * c04_sz_ExtDesktopScreen) s (fun scr =>
                index_all n (Z.to_nat n)
                  (if cf_dsz c
                   then Em (Callback (CbDsz w h n (dsz_sum (Z.to_nat n) scr 0)))
                           (Ret (if Z.odd w then set_pending s true else s))
                   else Ret (set_pending s true))))).

  Definition h_SetSW (s : cstate) : prog cstate :=
    rd_msg c04_sz_SetSW s (fun m => Em (Callback (CbSW (be (sub m 1 2)) (be (sub m 3 2)))) (Ret s)).
  Definition h_SetServerInput (s : cstate) : prog cstate :=
    rd_msg c04_sz_SetServerInput s (fun m => Em (Callback (CbSI (nthb m 0))) (Ret s)).

  Definition normal_msg (s : cstate) : prog cstate :=
    rd 1 s (fun t =>
      let ty := nthb t 0 in
      if ty =? c04_m_SetPixelFormat then h_SetPixelFormat s
      else if ty =? c04_m_FixColourMapEntries then h_FixColourMapEntries s
      else if ty =? c04_m_SetEncodings then h_SetEncodings s
      else if ty =? c04_m_FUR then h_FUR s
      else if ty =? c04_m_KeyEvent then h_KeyEvent s
      else if ty =? c04_m_PointerEvent then h_PointerEvent s
      else if ty =? c04_m_FileTransfer then h_FileTransfer s
      else if ty =? c04_m_SetSW then h_SetSW s
      else if ty =? c04_m_SetServerInput then h_SetServerInput s
      else if ty =? c04_m_TextChat then h_TextChat s
      else if ty =? c04_m_ClientCutText then h_ClientCutText s
      else if ty =? c04_m_PalmSetScale then h_SetScale true s
      else if ty =? c04_m_SetScale then h_SetScale false s
      else if ty =? c04_m_Xvp then h_Xvp s
      else if ty =? c04_m_SetDesktopSize then h_SetDesktopSize s
      else closeP s).

  (* rfbProcessClientMessage *)
  Definition message (s : cstate) : prog cstate :=
    if s_state s =? c04_st_ProtocolVersion then proto_version s
    else if s_state s =? c04_st_SecurityType then security_type s
    else if s_state s =? c04_st_Authentication then auth_msg s
    else if s_state s =? c04_st_Initialisation then init_msg s
    else normal_msg s.

  Definition process_message (s : cstate) (r : reader) : option cstate * reader * list effect :=
    run c (message s) r.

  (* ---- connection set-up: rfbNewTCPOrUDPClient -> webSocketsCheck -> version string ---- *)
  Inductive cres := COk | CClosed | CWedge | CWebSocket.

  Definition connect (r : reader) : cres * reader * list effect :=
    let o := peek4 (cf_fix_peek c) c04_ws_connect_wait r in
    let ws := Alloc c04_sizeof_client :: map Wait (po_waits o) in
    let version r' :=   (* rfbWriteExact(pv, 12) *)
        if r_stalled r' then (CClosed, kill r', ws ++ stall_waits c ++ [Close])
        else (COk, r', ws ++ [Write c04_sz_ProtocolVersion]) in
    match po_res o with
    | PWedge => (CWedge, po_rd o, ws)
    | PTimeout => version (po_rd o)
    | PGone | PErr => (CClosed, kill (po_rd o), ws ++ [Close])
    | POk b =>
        if (nthb b 0 =? 82) && (nthb b 1 =? 70) && (nthb b 2 =? 66) && (nthb b 3 =? 32) then version (po_rd o)
        else if (nthb b 0 =? 22) || (nthb b 0 =? 128) then (CClosed, kill (po_rd o), ws ++ [Close])  (* TLS, no certificate *)
        else if (nthb b 0 =? 71) && (nthb b 1 =? 69) && (nthb b 2 =? 84) && (nthb b 3 =? 32) then (CWebSocket, po_rd o, ws)
        else (CClosed, kill (po_rd o), ws ++ [Close])
    | PPartial b =>
        (* bbuf[n..3] is uninitialised stack: the comparison with "RFB " / "GET " is taken to fail *)
        (CClosed, kill (po_rd o), ws ++ [Close])
    end.

  (* ---- the event loop on one connection ("run" of the harness) ---- *)
  Inductive step_obs := mkObs (ty : Z) (st : option cstate) (eff : list effect).   (* ty: first byte of the message, -1: none *)

  Fixpoint run_conn (fuel : nat) (s : cstate) (r : reader) : list step_obs * option cstate * reader * bool :=
    match fuel with
    | O => ([], Some s, r, false)
    | S f =>
      (* closed, or the socket is gone (cl->sock == -1): the client is reaped *)
      if s_closed s || r_dead r then ([], Some s, r, true) else
      let go r1 :=
          let ty := match r_avail r1 with b :: _ => b | [] => -1 end in
          let '(v, r2, e) := process_message s r1 in
          match v with
          | None => ([mkObs ty None e], None, r2, true)
          | Some s' => let '(l, v', r3, ok) := run_conn f s' r2 in (mkObs ty (Some s') e :: l, v', r3, ok)
          end in
      match r_avail r with
      | _ :: _ => go r
      | [] =>
          if r_eof r || r_reset r then go r
          else match top_feed (r_evs r) (r_stalled r) with
               | (None, st') => ([], Some s, mkReader [] [] false false st' (r_dead r), true)
               | (Some r1, _) => go r1
               end
      end
    end.

  Definition conn_fuel (r : reader) : nat := S (S (length (r_avail r) + ev_bytes (r_evs r) + length (r_evs r))).

  (* ---- the rectangle-count part of rfbSendFramebufferUpdate for a one-rectangle update ---- *)
  Definition max_size (maxrect w : Z) : Z := if w * 2 >? maxrect then w * 2 else maxrect.

  Inductive upd := UNone | UCount (n : Z) | UUnknown.

  (* what rfbSendFramebufferUpdate computes for ONE rectangle (x, y, w, h) of the update region: the
     correction to the scaled screen, the rectangle count of the preferred encoding (divisions), the
     first and last pixel of the rectangle buffer of RRE / CoRRE.  [k] receives the count (None: Tight,
     whose count is rfbNumCodedRectsTight, C03's translated function). *)
  Definition rect_prog {B : Type} (s : cstate) (q : rect4) (k : option Z -> prog B) : prog B :=
    let '(x, y, w, h) := q in
    let '(x', y', w', h') :=
        if scaled s then o_corr (cf_w c) (cf_h c) (s_sw s) (s_sh s) x y w h else (x, y, w, h) in
    let p := s_pref s in
    if p =? c04_e_RRE then
      (* rfbSendRectEncodingRRE copies the w' x h' rectangle into a buffer sized for the scaled screen and
         getBgColour reads its pixel 0 *)
      Em (Index (s_sw s * s_sh s) 0) (Em (Index (s_sw s * s_sh s) (w' * h' - 1)) (k (Some 1)))
    else if p =? c04_e_CoRRE then
      Em (Div (w' - 1) c04_corre_max) (Em (Div (h' - 1) c04_corre_max)
        (Em (Index (s_sw s * s_sh s) 0) (Em (Index (s_sw s * s_sh s) (w' * h' - 1))
          (k (Some ((Z.quot (w' - 1) c04_corre_max + 1) * (Z.quot (h' - 1) c04_corre_max + 1)))))))
    else if p =? c04_e_Ultra then
      Em (Div (max_size c04_ultra_max_rect w') w')
        (Em (Div (h' - 1) (Z.quot (max_size c04_ultra_max_rect w') w'))
           (k (Some (Z.quot (h' - 1) (Z.quot (max_size c04_ultra_max_rect w') w') + 1))))
    else if p =? c04_e_Zlib then
      Em (Div (max_size c04_zlib_max_rect w') w')
        (Em (Div (h' - 1) (Z.quot (max_size c04_zlib_max_rect w') w'))
           (k (Some (Z.quot (h' - 1) (Z.quot (max_size c04_zlib_max_rect w') w') + 1))))
    else if (p =? c04_e_Tight) || (p =? c04_e_TightPng) then k None
    else k (Some 1).

  (* the same for every rectangle of a list (whatever decomposition of the update region) *)
  Fixpoint rects_prog (s : cstate) (l : list rect4) : prog unit :=
    match l with
    | [] => Ret tt
    | q :: t => rect_prog s q (fun _ => rects_prog s t)
    end.

  (* update region = the single requested rectangle (whole screen modified by the application): this is
     what the correspondence run compares (announced rectangle count) *)
  Definition update_prog (s : cstate) : prog (cstate * upd) :=
    if s_closed s || negb (s_state s =? c04_st_Normal) then Ret (s, UNone) else
    match s_req s with
    | [] => Ret (s, UNone)
    | [(x, y, w, h)] =>
      (* a request of zero width strictly inside the screen still yields a one-rectangle update region
         of zero width (the span arithmetic of rfbregion.c keeps it); zero height and the other
         degenerate placements depend on the history of the region and are left to the region
         model (C11) *)
      if (w <? 0) || (h <=? 0) then Ret (s, UUnknown) else
      if (w =? 0) && negb ((0 <? x) && (x <? cf_w c)) then Ret (s, UUnknown) else
      if s_newfb s && s_pending s then
        Wr 4 (fun ok => if ok then Ret (set_pending s false, UCount 1)
                        else Em Close (Ret (set_closed (set_pending s false), UNone))) else
      let extra := (if s_curshape s && s_curchanged s && s_ready s then 1 else 0) +
                   (if s_curpos s && s_curmoved s then 1 else 0) +
                   (if s_supmsg s then 1 else 0) + (if s_supenc s then 1 else 0) + (if s_srvid s then 1 else 0) in
      let s' := mkSt (s_state s) (s_closed s) (s_minor s) (s_sw s) (s_sh s) (s_scaled s) (s_pref s) (s_ready s)
                     (s_extclip s) (s_extcap s) (s_newfb s) (s_extds s) (s_pending s) (s_curshape s) (s_curpos s)
                     (if s_curshape s && s_ready s then false else s_curchanged s)
                     (if s_curpos s then false else s_curmoved s)
                     (s_lastrect s) false false false (s_palm s) [] (s_odd s) in
      rect_prog s (x, y, w, h) (fun n =>
        match n with
        | None => Ret (s', UUnknown)
        | Some n =>
            (* 24-bpp clients: the count is computed, but not every encoder then sends *)
            if s_odd s then Ret (s', UUnknown) else
            (* the update is written to the socket: a peer that stopped reading gets nothing and is closed *)
            Wr 4 (fun ok => if ok then Ret (s', UCount (u16 (n + extra)))
                            else Em Close (Ret (set_closed s', UNone)))
        end)
    | _ => Ret (s, UUnknown)
    end.

  (* every rectangle requested since the last update, one by one: the statement about updates of sessions
     with several requests *)
  Definition update_all (s : cstate) (r : reader) := run c (rects_prog s (s_req s)) r.

  Definition update (s : cstate) (r : reader) := run c (update_prog s) r.

End Handlers.
