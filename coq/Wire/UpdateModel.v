(* C03 - mirror of rfbSendFramebufferUpdate (rfbserver.c) for an unscaled client: which
   rectangle headers are written, in which order, and which count is announced.  Region
   arithmetic is the C11 mirror (Region/RegionDefs.v); counting/splitting is Wire/CountsModel.v;
   capability flags are Wire/CapsModel.v.  The input [snap] is the client's bookkeeping state at
   entry (observed by the harness in screen->displayHook, which is the first statement of the
   function); the capability state is NOT an input: it is the model's own, driven by the
   client's messages.  Only definitions in this file. *)
From Coq Require Import List ZArith Bool Lia.
From LV Require Import Gen.Consts_C03 Gen.Funs_C03 Region.RegionDefs Wire.CountsModel Wire.CapsModel.
Import ListNotations.
Local Open Scope Z_scope.

(* rebuild the span structure from the rectangles in iteration order (bands are maximal runs
   of equal y-range) *)
Fixpoint region_of_rects (l : list RegionDefs.rect) : region :=
  match l with
  | [] => []
  | (x1, y1, x2, y2) :: t =>
      match region_of_rects t with
      | (ys, ye, xs) :: rest =>
          if (ys =? y1) && (ye =? y2) then (ys, ye, (x1, x2, tt) :: xs) :: rest
          else (y1, y2, [(x1, x2, tt)]) :: (ys, ye, xs) :: rest
      | [] => [(y1, y2, [(x1, x2, tt)])]
      end
  end.

Definition to_xywh (r : RegionDefs.rect) : xywh := let '(x1, y1, x2, y2) := r in (x1, y1, x2 - x1, y2 - y1).

Record cursor_geom := mkCursor { cu_xhot : Z; cu_yhot : Z; cu_w : Z; cu_h : Z; cu_empty : bool }.

Record snap := mkSnap {
  sn_mod : region; sn_req : region; sn_copy : region;
  sn_dx : Z; sn_dy : Z;
  sn_clx : Z; sn_cly : Z;          (* cl->cursorX/Y *)
  sn_scx : Z; sn_scy : Z;          (* screen->cursorX/Y *)
  sn_cursor : option cursor_geom;  (* screen->cursor *)
  sn_ledval : Z;                   (* value the LED hook returns now *)
  sn_fbw : Z; sn_fbh : Z;          (* screen (= scaledScreen) size *)
  sn_maxrects : Z; sn_cmw : Z; sn_cmh : Z;
  sn_nscreens : Z;                 (* numberOfExtDesktopScreensHook *)
  sn_bpp : Z;                      (* cl->format.bitsPerPixel *)
  sn_rdsc : Z;                     (* cl->requestedDesktopSizeChange: 0 generic, 1 this client, 2 another client *)
  sn_dserr : Z                     (* cl->lastDesktopSizeChangeError *)
}.

Definition hdr : Type := (Z * Z * Z * Z * Z)%type.     (* x y w h encoding *)

Inductive phdr :=
| PH (h : hdr)                 (* exactly this header (encoding: see hdr_matches) *)
| PData (r : xywh) (enc : Z).  (* Tight rectangles tiling r, data dependent *)

Inductive upd_out :=
| UNone                                   (* returns without writing *)
| UTrap (why : Z)                         (* 1 = division by zero *)
| USent (announced : Z) (hdrs : list phdr) (lastmarker : bool) (overflow : bool).   (* overflow: always false since e68aae9 *)

(* rfbRedrawAfterHideCursor(cl, updateRegion) *)
Definition redraw_cursor (cur : option cursor_geom) (cx cy fbw fbh : Z) (upd : region) : region :=
  match cur with
  | None => upd
  | Some c =>
      let x := cx - cu_xhot c in
      let y := cy - cu_yhot c in
      let '(b, x1, y1, x2, y2) := sraClipRect2 x y (x + cu_w c) (y + cu_h c) 0 0 fbw fbh in
      if b then rgn_or upd (rgn_create_rect x1 y1 x2 y2) else upd
  end.

Definition wire16 (v : Z) : Z := v mod 65536.      (* Swap16IfLE of an int: low 16 bits *)

Definition cursor_shape_hdr (c : caps) (cur : option cursor_geom) : hdr :=
  let e := if c_richcursor c then enc_RichCursor else enc_XCursor in
  match cur with
  | Some g => if (cu_w g =? 0) || (cu_h g =? 0) || cu_empty g then (0, 0, 0, 0, e)     (* cu_empty: 1x1 and transparent *)
              else (wire16 (cu_xhot g), wire16 (cu_yhot g), wire16 (cu_w g), wire16 (cu_h g), e)
  | None => (0, 0, 0, 0, e)
  end.

Definition pseudo_hdrs (c : caps) (s : sends) (sn : snap) (lastled : Z) : list hdr :=
  (if s_shape s then [cursor_shape_hdr c (sn_cursor sn)] else []) ++
  (if s_pos s then [(wire16 (sn_scx sn), wire16 (sn_scy sn), 0, 0, enc_PointerPos)] else []) ++
  (if s_led s then [(wire16 lastled, 0, 0, 0, enc_KeyboardLedState)] else []) ++
  (if s_msgs s then [(0, 0, sz_SupportedMessages, 0, enc_SupportedMessages)] else []) ++
  (if s_encs s then [(0, 0, 0, 0, enc_SupportedEncodings)] else []) ++     (* w = 4*h: build dependent *)
  (if s_ident s then [(0, 0, 0, 0, enc_ServerIdentity)] else []).          (* w = strlen+1 *)

(* how a predicted header is compared with a parsed one *)
Definition hdr_matches (p a : hdr) : bool :=
  let '(px, py, pw, ph, pe) := p in
  let '(ax, ay, aw, ah, ae) := a in
  if pe =? enc_SupportedEncodings then (ae =? pe) && (ax =? 0) && (ay =? 0) && (aw =? 4 * ah) && (1 <=? ah)
  else if pe =? enc_ServerIdentity then (ae =? pe) && (ax =? 0) && (ay =? 0) && (ah =? 0) && (1 <=? aw)
  else (ax =? px) && (ay =? py) && (aw =? pw) && (ah =? ph) &&
       ((ae =? pe) ||
        ((ae =? enc_Raw) && ((pe =? enc_RRE) || (pe =? enc_CoRRE) || (pe =? enc_Zlib) || (pe =? -1)))).

Definition copy_hdrs (l : list RegionDefs.rect) : list hdr :=
  map (fun r => let '(x, y, w, h) := to_xywh r in (wire16 x, wire16 y, wire16 w, wire16 h, enc_CopyRect)) l.

Definition data_enc (pref : Z) : Z := if pref =? -1 then enc_Raw else pref.

Fixpoint region_hdrs (pref : Z) (l : list emitted) : option (list phdr) :=
  match l with
  | [] => Some []
  | EmKnown rs :: t =>
      match region_hdrs pref t with
      | Some r => Some (map (fun '(x, y, w, h) => PH (wire16 x, wire16 y, wire16 w, wire16 h, data_enc pref)) rs ++ r)
      | None => None
      end
  | EmData r :: t =>
      match region_hdrs pref t with Some r' => Some (PData r pref :: r') | None => None end
  | EmTrap :: _ => None
  end.

(* the region stage of rfbSendFramebufferUpdate: what will be sent as pixel data / as copies *)
Record plan := mkPlan {
  pl_nothing : bool;                    (* the early "return TRUE" (nothing to send) *)
  pl_region : list xywh;                (* updateRegion, in iteration order *)
  pl_copy : list RegionDefs.rect        (* updateCopyRegion, in the order rfbSendCopyRegion walks it *)
}.

(* 0013b67 (F22): after the cursor redraw,  tmp = updateRegion - requested;  if non-empty:
   modifiedRegion |= tmp (bookkeeping, C02) and updateRegion &= requested *)
Definition clip_to_requested (upd req : region) : region :=
  if snd (rgn_sub upd req) then fst (rgn_and upd req) else upd.

Definition plan_regions (c1 : caps) (s : sends) (sn : snap) : plan :=
  (* sraRgnSubtract(cl->copyRegion, cl->modifiedRegion) *)
  let copy1 := fst (rgn_sub (sn_copy sn) (sn_mod sn)) in
  let upd0 := rgn_or (sn_mod sn) copy1 in
  let '(upd1, ne) := rgn_and upd0 (sn_req sn) in
  let same_cursor := (sn_clx sn =? sn_scx sn) && (sn_cly sn =? sn_scy sn) in
  let nothing := negb ne && rgn_is_empty upd1 && (c_cursorshape c1 || same_cursor) && negb (any_send s) in
  let ucopy0 := fst (rgn_and copy1 (sn_req sn)) in
  let ucopy := fst (rgn_and ucopy0 (rgn_offset (sn_req sn) (sn_dx sn) (sn_dy sn))) in
  let upd2 := fst (rgn_sub upd1 ucopy) in
  let upd3 :=
    if c_cursorshape c1 then upd2
    else if same_cursor then upd2
    else redraw_cursor (sn_cursor sn) (sn_scx sn) (sn_scy sn) (sn_fbw sn) (sn_fbh sn)
           (redraw_cursor (sn_cursor sn) (sn_clx sn) (sn_cly sn) (sn_fbw sn) (sn_fbh sn) upd2) in
  (* the clip sits inside "if (!cl->enableCursorShapeUpdates)" *)
  let upd4 := if c_cursorshape c1 then upd3 else clip_to_requested upd3 (sn_req sn) in
  mkPlan nothing (map to_xywh (rgn_iter false false upd4))
         (rgn_iter (sn_dx sn >? 0) (sn_dy sn >? 0) ucopy).

(* the flow BEFORE 0013b67 (the cursor-redraw area was sent even outside requestedRegion: F22); kept executable:
   props/C03.py reads from the source text which flow the library has, so a revert is followed and reported *)
Definition plan_regions_old (c1 : caps) (s : sends) (sn : snap) : plan :=
  (* sraRgnSubtract(cl->copyRegion, cl->modifiedRegion) *)
  let copy1 := fst (rgn_sub (sn_copy sn) (sn_mod sn)) in
  let upd0 := rgn_or (sn_mod sn) copy1 in
  let '(upd1, ne) := rgn_and upd0 (sn_req sn) in
  let same_cursor := (sn_clx sn =? sn_scx sn) && (sn_cly sn =? sn_scy sn) in
  let nothing := negb ne && rgn_is_empty upd1 && (c_cursorshape c1 || same_cursor) && negb (any_send s) in
  let ucopy0 := fst (rgn_and copy1 (sn_req sn)) in
  let ucopy := fst (rgn_and ucopy0 (rgn_offset (sn_req sn) (sn_dx sn) (sn_dy sn))) in
  let upd2 := fst (rgn_sub upd1 ucopy) in
  let upd3 :=
    if c_cursorshape c1 then upd2
    else if same_cursor then upd2
    else redraw_cursor (sn_cursor sn) (sn_scx sn) (sn_scy sn) (sn_fbw sn) (sn_fbh sn)
           (redraw_cursor (sn_cursor sn) (sn_clx sn) (sn_cly sn) (sn_fbw sn) (sn_fbh sn) upd2) in
  mkPlan nothing (map to_xywh (rgn_iter false false upd3))
         (rgn_iter (sn_dx sn >? 0) (sn_dy sn >? 0) ucopy).

(* the count stage and the emission stage *)
(* the count stage as it is in the source: with or without the repair of F5 *)
Definition announce_sel (g : cfg) (pref : Z) (lastrect : bool) (cmw cmh maxrects : Z) (region copyl : list xywh) (npseudo : Z)
  : option (Z * list xywh * bool * bool) :=
  if g_wrap_coalesce g then announce_fixed (g_wrap_copy g) pref lastrect cmw cmh maxrects region copyl npseudo
  else match announce pref lastrect cmw cmh maxrects region (Z.of_nat (length copyl)) npseudo with
       | Some (n, r, lm) => Some (n, r, lm, true)
       | None => None
       end.

Definition render_update (g : cfg) (c1 : caps) (s : sends) (sn : snap) (pl : plan) : caps * upd_out :=
  let pref := c_pref c1 in
  match announce_sel g pref (c_lastrect c1) (sn_cmw sn) (sn_cmh sn) (sn_maxrects sn) (pl_region pl)
                     (map to_xywh (pl_copy pl)) (n_pseudo s) with
  | None => (c1, UTrap 1)
  | Some (n, region', lm, keepcopy) =>
      let c2 := if s_shape s then set_cursor_changed c1 false else c1 in
      let c3 := if s_pos s then set_cursor_moved c2 false else c2 in
      let ps := map PH (pseudo_hdrs c1 s sn (c_lastled c1)) in
      let copies := if keepcopy then map PH (copy_hdrs (pl_copy pl)) else [] in
      match region_hdrs pref (emit_region pref (c_lastrect c1) (sn_cmw sn) (sn_cmh sn) region') with
      | None => (c3, UTrap 1)
      | Some rh =>
          let tail := if lm then [PH (0, 0, 0, 0, enc_LastRect)] else [] in
          (c3, USent n (ps ++ copies ++ rh ++ tail) lm false)
      end
  end.

(* NewFBSize / ExtDesktopSize shortcut at the top of the function *)
Definition newfb_update (c : caps) (sn : snap) : caps * upd_out :=
  let c1 := set_fbpending c false in
  let h := if c_extdesktop c then (wire16 (sn_rdsc sn), wire16 (sn_dserr sn), wire16 (sn_fbw sn), wire16 (sn_fbh sn), enc_ExtDesktopSize)
           else (0, 0, wire16 (sn_fbw sn), wire16 (sn_fbh sn), enc_NewFBSize) in
  (c1, USent 1 [PH h] false false).

(* repair of F23 (top of rfbSendFramebufferUpdate): a client with a 24-bit pixel format gets Raw unless its
   preferred encoding copies translated pixels verbatim *)
Definition bpp24_prelude (g : cfg) (c : caps) (sn : snap) : caps :=
  if g_raw_for_24bpp g && (sn_bpp sn =? 24) &&
     negb ((c_pref c =? -1) || (c_pref c =? enc_Raw) || (c_pref c =? enc_Zlib) || (c_pref c =? enc_Ultra))
  then set_pref c enc_Raw else c.

Definition model_update_core (g : cfg) (c : caps) (sn : snap) : caps * upd_out :=
  if c_newfbsize c && c_fbpending c then newfb_update c sn
  else
    let sc := decide_sends g c (sn_ledval sn) in
    let pl := plan_regions (snd sc) (fst sc) sn in
    if pl_nothing pl then (snd sc, UNone) else render_update g (snd sc) (fst sc) sn pl.

Definition model_update (g : cfg) (c : caps) (sn : snap) : caps * upd_out :=
  model_update_core g (bpp24_prelude g c sn) sn.

Definition model_update_old (g : cfg) (c : caps) (sn : snap) : caps * upd_out :=
  let c0 := bpp24_prelude g c sn in
  if c_newfbsize c0 && c_fbpending c0 then newfb_update c0 sn
  else
    let sc := decide_sends g c0 (sn_ledval sn) in
    let pl := plan_regions_old (snd sc) (fst sc) sn in
    if pl_nothing pl then (snd sc, UNone) else render_update g (snd sc) (fst sc) sn pl.

(* what the driver runs: clip = the source has 0013b67 *)
Definition model_update_sel (clip : bool) (g : cfg) (c : caps) (sn : snap) : caps * upd_out :=
  if clip then model_update g c sn else model_update_old g c sn.

(* number of headers the model predicts when nothing is data dependent *)
Fixpoint phdr_count (l : list phdr) : option Z :=
  match l with
  | [] => Some 0
  | PH _ :: t => match phdr_count t with Some n => Some (1 + n) | None => None end
  | PData _ _ :: _ => None
  end.
