(* C15 - rfbSendFramebufferUpdate with the repair of C03's finding F22 (notes/fix_C03_8.diff): after the
   cursor redraw (rfbRedrawAfterHideCursor twice + rfbShowCursor) the part of updateRegion that lies outside
   what the client REQUESTED is OR-ed back into cl->modifiedRegion and updateRegion &= requested:

       region sent in a round = (modified /\ requested  \/  cursor redraw) /\ requested
       the remainder stays modified and is delivered by the next request that covers it.

   The flow is mirrored as a wrapper around [send_update] (the flow before the repair, which is kept with all
   its theorems as the record): same screen, same messages, same client fields except
       modifiedRegion := modifiedRegion \/ (upd - requested)
       picture        := the old picture on (upd - requested) - those pixels were not sent -, the new one elsewhere
   where upd is the update region of the old flow.  Outside (upd - requested) nothing differs, so every client
   invariant carries over; what changes is convergence: the cursor area is repainted at the client only once
   a request covers it (every full-screen or covering request does). *)
Require Import ZArith List Bool Lia.
From LV Require Import Cursor.CursorDefs Cursor.CursorProofs Cursor.CursorSession Cursor.CursorSessionProofs
  Cursor.CursorSurvivors.
Import ListNotations.
Local Open Scope Z_scope.

(* "nothing to send" test and update region of rfbSendFramebufferUpdate, as in [send_update] *)
Definition su_early (s : screen) (cl : client) : bool :=
  let W := fw (sfb s) in let H := fh (sfb s) in
  let sendShape := shape cl && changed cl in
  let sendPos := posupd cl && moved cl in
  let upd0 := rgn_and (modif cl) (req cl) in
  rgn_is_empty W H upd0 && (shape cl || ((clx cl =? sx s) && (cly cl =? sy s))) &&
  negb sendShape && negb sendPos.

Definition su_upd (s : screen) (cl : client) : rgn :=
  let W := fw (sfb s) in let H := fh (sfb s) in
  let upd0 := rgn_and (modif cl) (req cl) in
  let movedpos := negb (shape cl) && negb ((clx cl =? sx s) && (cly cl =? sy s)) in
  if movedpos
  then rgn_or (rgn_or upd0 (redraw_box (scur s) (clx cl) (cly cl) W H)) (redraw_box (scur s) (sx s) (sy s) W H)
  else upd0.

(* the clipping applies to clients that get the cursor painted (`if (!cl->enableCursorShapeUpdates)`) *)
Definition su_rest (s : screen) (cl : client) : rgn :=
  if shape cl then rgn_none else rgn_sub (su_upd s cl) (req cl).

Definition req_adjust (s : screen) (cl cl' : client) : client :=
  if su_early s cl then cl'
  else mkcl (shape cl') (userich cl') (posupd cl') (changed cl') (moved cl') (clx cl') (cly cl')
            (rgn_or (modif cl') (su_rest s cl)) (req cl')
            (fb_merge (su_rest s cl) (pic cl) (pic cl')) (alive cl') (failnext cl').

Definition send_update_r (fixed v_empty : bool) (fmt : pixfmt) (s : screen) (cl : client)
  : option (screen * client * upd_out) :=
  match send_update fixed v_empty fmt s cl with
  | None => None
  | Some (s', cl', o) => Some (s', req_adjust s cl cl', o)
  end.

(* ------------------------------------------------------------------ one update *)
Lemma req_adjust_fields : forall s cl cl',
  shape (req_adjust s cl cl') = shape cl' /\ clx (req_adjust s cl cl') = clx cl' /\
  cly (req_adjust s cl cl') = cly cl' /\ alive (req_adjust s cl cl') = alive cl' /\
  failnext (req_adjust s cl cl') = failnext cl' /\
  (forall x y, modif (req_adjust s cl cl') x y = false -> modif cl' x y = false).
Proof.
  intros s cl cl'. unfold req_adjust. destruct (su_early s cl); cbn; repeat split; auto.
  intros x y M. unfold rgn_or in M. apply orb_false_elim in M. tauto.
Qed.

Lemma inv_req_adjust : forall fixed fmt s s' cl cl',
  same_shape (pic cl) (sfb s') -> Inv fixed fmt s' cl' -> Inv fixed fmt s' (req_adjust s cl cl').
Proof.
  intros fixed fmt s s' cl cl' Sc [Sp Ip]. unfold req_adjust. destruct (su_early s cl); [split; auto|].
  assert (S2 : same_shape (pic cl) (pic cl')) by (eapply same_shape_trans; [exact Sc|apply same_shape_sym; exact Sp]).
  split; cbn [pic].
  - eapply same_shape_trans; [apply fb_merge_shape; exact S2|exact Sp].
  - intros x y M. cbn [modif] in M. unfold rgn_or in M. apply orb_false_elim in M. destruct M as [M1 M2].
    rewrite (fb_merge_get _ _ _ _ _ S2), M2. rewrite (Ip x y M1).
    unfold px_of. cbn [shape clx cly]. reflexivity.
Qed.

Theorem send_update_r_restores : forall fixed v_empty fmt s cl s' cl' o,
  wf_fb (sfb s) -> wf_ocursor (scur s) ->
  send_update_r fixed v_empty fmt s cl = Some (s', cl', o) -> sfb s' = sfb s.
Proof.
  intros fixed v_empty fmt s cl s' cl' o Wf Wc H. unfold send_update_r in H.
  destruct (send_update fixed v_empty fmt s cl) as [[[s1 cl1] o1]|] eqn:E; [|discriminate].
  inversion H; subst. eapply send_update_restores; eauto.
Qed.

Lemma send_update_r_cursor : forall fixed v_empty fmt s cl s' cl' o,
  wf_fb (sfb s) -> wf_ocursor (scur s) ->
  send_update_r fixed v_empty fmt s cl = Some (s', cl', o) ->
  wf_ocursor (scur s') /\ ocursor_equiv fmt (scur s) (scur s').
Proof.
  intros fixed v_empty fmt s cl s' cl' o Wf Wc H. unfold send_update_r in H.
  destruct (send_update fixed v_empty fmt s cl) as [[[s1 cl1] o1]|] eqn:E; [|discriminate].
  inversion H; subst. eapply send_update_cursor; eauto.
Qed.

(* C15_redraw_covers for the repaired flow; any outcome of the write *)
Theorem inv_send_update_r_alive : forall fixed v_empty fmt s cl s' cl' o,
  wf_fb (sfb s) -> wf_ocursor (scur s) ->
  Inv fixed fmt s cl -> send_update_r fixed v_empty fmt s cl = Some (s', cl', o) ->
  AInv fixed fmt s' cl'.
Proof.
  intros fixed v_empty fmt s cl s' cl' o Wf Wc I H Al. unfold send_update_r in H.
  destruct (send_update fixed v_empty fmt s cl) as [[[s1 cl1] o1]|] eqn:E; [|discriminate].
  inversion H; subst; clear H.
  destruct (req_adjust_fields s cl cl1) as (_ & _ & _ & Ea & _). rewrite Ea in Al.
  apply inv_req_adjust.
  - destruct I as [Sp _]. rewrite (send_update_restores _ _ _ _ _ _ _ _ Wf Wc E). exact Sp.
  - exact (inv_send_update_alive _ _ _ _ _ _ _ _ Wf Wc I E Al).
Qed.

Theorem inv_send_update_r : forall fixed v_empty fmt s cl s' cl' o,
  wf_fb (sfb s) -> wf_ocursor (scur s) -> failnext cl = false ->
  Inv fixed fmt s cl -> send_update_r fixed v_empty fmt s cl = Some (s', cl', o) ->
  Inv fixed fmt s' cl'.
Proof.
  intros fixed v_empty fmt s cl s' cl' o Wf Wc Fn I H. unfold send_update_r in H.
  destruct (send_update fixed v_empty fmt s cl) as [[[s1 cl1] o1]|] eqn:E; [|discriminate].
  inversion H; subst; clear H. apply inv_req_adjust.
  - destruct I as [Sp _]. rewrite (send_update_restores _ _ _ _ _ _ _ _ Wf Wc E). exact Sp.
  - eapply inv_send_update; eauto.
Qed.

(* what stays modified: the old remainder and the part of the cursor redraw the client did not ask for *)
Lemma send_update_r_modif : forall fixed v_empty fmt s cl s' cl' o,
  send_update_r fixed v_empty fmt s cl = Some (s', cl', o) -> o_sent o = true ->
  forall x y, modif cl' x y = rgn_sub (modif cl) (rgn_and (modif cl) (req cl)) x y || su_rest s cl x y.
Proof.
  intros fixed v_empty fmt s cl s' cl' o H Sent x y. unfold send_update_r in H.
  destruct (send_update fixed v_empty fmt s cl) as [[[s1 cl1] o1]|] eqn:E; [|discriminate].
  inversion H; subst; clear H.
  destruct (send_update_fields _ _ _ _ _ _ _ _ E Sent) as (_ & _ & Em & _).
  unfold req_adjust. destruct (su_early s cl) eqn:Ee.
  - exfalso. unfold send_update in E. fold (su_early s cl) in E.
    change (rgn_is_empty (fw (sfb s)) (fh (sfb s)) (rgn_and (modif cl) (req cl)) &&
            (shape cl || (clx cl =? sx s) && (cly cl =? sy s)) && negb (shape cl && changed cl) &&
            negb (posupd cl && moved cl)) with (su_early s cl) in E.
    rewrite Ee in E. inversion E; subst. discriminate Sent.
  - cbn [modif]. unfold rgn_or. rewrite Em. reflexivity.
Qed.

(* convergence, repaired flow: a request that covers the whole screen - hence the cursor area - leaves
   nothing modified, and the picture is the painted framebuffer everywhere with the cursor where the
   server's pointer is.  (A request that does not cover the cursor area leaves that area modified: it is
   repainted by the next request that covers it - inv_send_update_r keeps the invariant meanwhile.) *)
Theorem picture_converges_r : forall fixed v_empty fmt s cl s' cl' o,
  wf_fb (sfb s) -> wf_ocursor (scur s) -> failnext cl = false ->
  Inv fixed fmt s cl -> send_update_r fixed v_empty fmt s cl = Some (s', cl', o) ->
  (forall x y, 0 <= x < fw (sfb s) -> 0 <= y < fh (sfb s) -> req cl x y = true) ->
  o_sent o = true ->
  (shape cl = false -> clx cl' = sx s' /\ cly cl' = sy s') /\
  forall x y, fb_get (pic cl') x y = option_map (px_of fixed fmt s' cl' x y) (fb_get (sfb s') x y).
Proof.
  intros fixed v_empty fmt s cl s' cl' o Wf Wc Fn I H Rq Sent.
  pose proof (inv_send_update_r _ _ _ _ _ _ _ _ Wf Wc Fn I H) as [Sp' Ip'].
  pose proof (send_update_r_restores _ _ _ _ _ _ _ _ Wf Wc H) as Efb.
  pose proof (send_update_r_modif _ _ _ _ _ _ _ _ H Sent) as Em.
  unfold send_update_r in H.
  destruct (send_update fixed v_empty fmt s cl) as [[[s1 cl1] o1]|] eqn:E; [|discriminate].
  inversion H; subst s1 cl' o1; clear H.
  destruct (picture_converges _ _ _ _ _ _ _ _ Wf Wc Fn I E Rq Sent) as [Pos _].
  destruct (req_adjust_fields s cl cl1) as (_ & Ex & Ey & _).
  split; [rewrite Ex, Ey; exact Pos|].
  intros x y. destruct (fb_get (sfb s') x y) as [p|] eqn:G.
  - rewrite <- G. apply Ip'. rewrite Efb in G. destruct (wf_fb_get_lt _ _ _ _ Wf G) as [Hx Hy].
    rewrite Em. unfold rgn_sub, rgn_and, su_rest. rewrite (Rq _ _ Hx Hy).
    destruct (shape cl); [destruct (modif cl x y); reflexivity|].
    unfold rgn_sub. rewrite (Rq _ _ Hx Hy). destruct (modif cl x y); destruct (su_upd s cl x y); reflexivity.
  - cbn. eapply same_shape_get_none; [apply same_shape_sym; exact Sp'|exact G].
Qed.


(* ------------------------------------------------------------------ the event loop with the repaired flow
   (same definitions as pump / update_one / pump_h / pump_rounds of CursorSession.v, send_update_r inside) *)
Fixpoint pump_r (fixed v_empty : bool) (fmt : pixfmt) (s : screen) (cls : list client)
  : option (screen * list (client * upd_out)) :=
  match cls with
  | [] => Some (s, [])
  | cl :: t =>
    let r := if alive cl && fb_update_pending s cl &&
                negb (rgn_is_empty (fw (sfb s)) (fh (sfb s)) (req cl))
             then send_update_r fixed v_empty fmt s cl else Some (s, cl, no_out) in
    match r with
    | None => None
    | Some (s1, cl1, o) =>
      match pump_r fixed v_empty fmt s1 t with
      | None => None
      | Some (s2, rest) => Some (s2, (cl1, o) :: rest)
      end
    end
  end.

Definition update_one_r (fixed v_empty : bool) (fmt : pixfmt) (hook : option (nat * option cursor))
           (s : screen) (cls : list client) (k : nat)
  : option (screen * list client * upd_out * bool) :=
  match nth_error cls k with
  | None => Some (s, cls, no_out, false)
  | Some cl =>
    if alive cl && fb_update_pending s cl && negb (rgn_is_empty (fw (sfb s)) (fh (sfb s)) (req cl))
    then
      let '(s1, cls1, fired) :=
        match hook with
        | Some (hk, nc) => if Nat.eqb hk k then (let '(a, b) := set_cursor s cls nc in (a, b, true))
                           else (s, cls, false)
        | None => (s, cls, false)
        end in
      match nth_error cls1 k with
      | None => None
      | Some cl1 =>
        match send_update_r fixed v_empty fmt s1 cl1 with
        | None => None
        | Some (s2, cl2, o) =>
          match set_nth cls1 k cl2 with
          | None => None
          | Some cls2 => Some (s2, cls2, o, fired)
          end
        end
      end
    else Some (s, cls, no_out, false)
  end.

Fixpoint pump_h_r (fixed v_empty : bool) (fmt : pixfmt) (k : nat) (hook : option (nat * option cursor))
         (s : screen) (cls : list client) (outs : list (nat * upd_out))
  : option (screen * list client * list (nat * upd_out) * bool) :=
  match k with
  | O => Some (s, cls, outs, match hook with None => true | Some _ => false end)
  | S k' =>
    match update_one_r fixed v_empty fmt hook s cls k' with
    | None => None
    | Some (s1, cls1, o, fired) =>
      pump_h_r fixed v_empty fmt k' (if fired then None else hook) s1 cls1 ((k', o) :: outs)
    end
  end.

Fixpoint pump_rounds_r (fuel : nat) (fixed v_empty : bool) (fmt : pixfmt) (hook : option (nat * option cursor))
         (s : screen) (cls : list client) (outs : list (nat * upd_out))
  : option (screen * list client * list (nat * upd_out) * bool) :=
  match fuel with
  | O => Some (s, cls, outs, match hook with None => true | Some _ => false end)
  | S f =>
    match pump_h_r fixed v_empty fmt (length cls) hook s cls [] with
    | None => None
    | Some (s1, cls1, o1, consumed) =>
      if existsb (fun ko => o_sent (snd ko)) o1 || (match hook with Some _ => consumed | None => false end)
      then pump_rounds_r f fixed v_empty fmt (if consumed then None else hook) s1 cls1 (outs ++ o1)
      else Some (s1, cls1, outs ++ o1, consumed)
    end
  end.

(* every client that is still open keeps its invariant: proofs as in CursorSurvivors.v *)
Theorem inv_pump_r_alive : forall fixed v_empty fmt cls s s' res,
  wf_fb (sfb s) -> wf_ocursor (scur s) ->
  Forall (AInv fixed fmt s) cls ->
  pump_r fixed v_empty fmt s cls = Some (s', res) ->
  sfb s' = sfb s /\ wf_ocursor (scur s') /\ ocursor_equiv fmt (scur s) (scur s') /\
  Forall (AInv fixed fmt s') (map fst res).
Proof.
  intros fixed v_empty fmt cls. induction cls as [|cl t IH]; intros s s' res Wf Wc Fi H.
  - cbn in H. inversion H; subst. cbn. auto using ocursor_equiv_refl.
  - cbn [pump_r] in H. inversion Fi as [|? ? I Fi']; subst.
    match type of H with (match ?A with Some _ => _ | None => None end) = _ =>
      destruct A as [[[s1 cl1] o]|] eqn:R; [|discriminate] end.
    destruct (pump_r fixed v_empty fmt s1 t) as [[s2 rest]|] eqn:P; [|discriminate].
    inversion H; subst; clear H.
    assert (Step : sfb s1 = sfb s /\ wf_ocursor (scur s1) /\ ocursor_equiv fmt (scur s) (scur s1) /\
                   AInv fixed fmt s1 cl1).
    { destruct (alive cl) eqn:Al; cbn [andb] in R.
      - destruct (fb_update_pending s cl && negb (rgn_is_empty (fw (sfb s)) (fh (sfb s)) (req cl))).
        + destruct (send_update_r_cursor _ _ _ _ _ _ _ _ Wf Wc R) as [W1 E1].
          split; [eapply send_update_r_restores; eauto|]. split; [exact W1|]. split; [exact E1|].
          eapply inv_send_update_r_alive; eauto.
        + inversion R; subst. split; [reflexivity|]. split; [exact Wc|]. split; [apply ocursor_equiv_refl|exact I].
      - inversion R; subst. split; [reflexivity|]. split; [exact Wc|]. split; [apply ocursor_equiv_refl|exact I]. }
    destruct Step as (Ef & W1 & E1 & I1).
    assert (Wf1 : wf_fb (sfb s1)) by (rewrite Ef; exact Wf).
    assert (Fi1 : Forall (AInv fixed fmt s1) t).
    { rewrite Forall_forall in *. intros c Hc. eapply ainv_transfer; eauto. }
    destruct (IH _ _ _ Wf1 W1 Fi1 P) as (Ef2 & W2 & E2 & I2).
    split; [congruence|]. split; [exact W2|]. split; [eapply ocursor_equiv_trans; eauto|].
    cbn [map fst]. constructor; auto. eapply ainv_transfer; eauto.
Qed.

Theorem ainv_update_one_r : forall fixed v_empty fmt hook s cls k s' cls' o fired,
  wf_fb (sfb s) -> wf_ocursor (scur s) ->
  (forall hk nc, hook = Some (hk, nc) -> wf_ocursor nc) ->
  Forall (AInv fixed fmt s) cls ->
  update_one_r fixed v_empty fmt hook s cls k = Some (s', cls', o, fired) ->
  sfb s' = sfb s /\ wf_ocursor (scur s') /\ Forall (AInv fixed fmt s') cls'.
Proof.
  intros fixed v_empty fmt hook s cls k s' cls' o fired Wf Wc Wh Fi H. unfold update_one_r in H.
  destruct (nth_error cls k) as [cl|] eqn:Ek; [|inversion H; subst; auto].
  destruct (alive cl) eqn:Al; cbn [andb] in H; [|inversion H; subst; auto].
  destruct (fb_update_pending s cl && negb (rgn_is_empty (fw (sfb s)) (fh (sfb s)) (req cl)));
    [|inversion H; subst; auto].
  assert (Hook : exists s1 cls1 f1,
    (match hook with
     | Some (hk, nc) => if Nat.eqb hk k then (let '(a, b) := set_cursor s cls nc in (a, b, true)) else (s, cls, false)
     | None => (s, cls, false)
     end) = (s1, cls1, f1) /\
    sfb s1 = sfb s /\ wf_ocursor (scur s1) /\ Forall (AInv fixed fmt s1) cls1 /\
    exists cl1, nth_error cls1 k = Some cl1 /\ alive cl1 = true).
  { destruct hook as [[hk nc]|]; [|do 3 eexists; split; [reflexivity|eauto 6]].
    destruct (Nat.eqb hk k); [|do 3 eexists; split; [reflexivity|eauto 6]].
    destruct (set_cursor s cls nc) as [a b] eqn:Es. do 3 eexists. split; [reflexivity|].
    pose proof (set_cursor_screen s cls nc) as [A1 A2]. rewrite Es in A1, A2. cbn [fst] in A1, A2.
    split; [exact A1|]. split; [rewrite A2; eapply Wh; reflexivity|].
    pose proof (ainv_set_cursor fixed fmt s cls nc Wf Fi) as I1. rewrite Es in I1. split; [exact I1|].
    pose proof (set_cursor_map s cls nc) as M. rewrite Es in M. cbn [snd] in M. subst b.
    exists (sc1 s nc cl). split; [apply map_nth_error; exact Ek|]. rewrite sc1_alive. exact Al. }
  destruct Hook as (s1 & cls1 & f1 & Eh & Ef1 & Wc1 & Fi1 & cl1' & Ek1' & Al1). rewrite Eh in H.
  rewrite Ek1' in H.
  destruct (send_update_r fixed v_empty fmt s1 cl1') as [[[s2 cl2] o2]|] eqn:Su; [|discriminate].
  destruct (set_nth cls1 k cl2) as [cls2|] eqn:Sn; [|discriminate]. inversion H; subst; clear H.
  assert (Wf1 : wf_fb (sfb s1)) by (rewrite Ef1; exact Wf).
  pose proof (send_update_r_restores _ _ _ _ _ _ _ _ Wf1 Wc1 Su) as Ef2.
  destruct (send_update_r_cursor _ _ _ _ _ _ _ _ Wf1 Wc1 Su) as [Wc2 Eq2].
  assert (In1 : In cl1' cls1) by (eapply nth_error_In; eauto).
  assert (I1 : Inv fixed fmt s1 cl1') by (rewrite Forall_forall in Fi1; exact (Fi1 _ In1 Al1)).
  pose proof (inv_send_update_r_alive _ _ _ _ _ _ _ _ Wf1 Wc1 I1 Su) as I2.
  split; [congruence|]. split; [exact Wc2|].
  eapply Forall_set_nth; [|exact I2|exact Sn].
  rewrite Forall_forall in *. intros c Hc. eapply ainv_transfer; eauto.
Qed.

Theorem ainv_pump_h_r : forall fixed v_empty fmt k hook s cls outs s' cls' outs' fired,
  wf_fb (sfb s) -> wf_ocursor (scur s) ->
  (forall hk nc, hook = Some (hk, nc) -> wf_ocursor nc) ->
  Forall (AInv fixed fmt s) cls ->
  pump_h_r fixed v_empty fmt k hook s cls outs = Some (s', cls', outs', fired) ->
  sfb s' = sfb s /\ wf_ocursor (scur s') /\ Forall (AInv fixed fmt s') cls'.
Proof.
  intros fixed v_empty fmt k. induction k as [|k IH]; intros hook s cls outs s' cls' outs' fired Wf Wc Wh Fi H.
  - cbn in H. inversion H; subst. auto.
  - cbn [pump_h_r] in H.
    destruct (update_one_r fixed v_empty fmt hook s cls k) as [[[[s1 cls1] o] f1]|] eqn:U; [|discriminate].
    destruct (ainv_update_one_r _ _ _ _ _ _ _ _ _ _ _ Wf Wc Wh Fi U) as (E1 & W1 & I1).
    assert (Wf1 : wf_fb (sfb s1)) by (rewrite E1; exact Wf).
    assert (Wh1 : forall hk nc, (if f1 then None else hook) = Some (hk, nc) -> wf_ocursor nc).
    { intros hk nc E. destruct f1; [discriminate|]. eapply Wh; eauto. }
    destruct (IH _ _ _ _ _ _ _ _ Wf1 W1 Wh1 I1 H) as (E2 & W2 & I2).
    split; [congruence|]. split; auto.
Qed.

Theorem ainv_pump_rounds_r : forall fuel fixed v_empty fmt hook s cls outs s' cls' outs' fired,
  wf_fb (sfb s) -> wf_ocursor (scur s) ->
  (forall hk nc, hook = Some (hk, nc) -> wf_ocursor nc) ->
  Forall (AInv fixed fmt s) cls ->
  pump_rounds_r fuel fixed v_empty fmt hook s cls outs = Some (s', cls', outs', fired) ->
  sfb s' = sfb s /\ wf_ocursor (scur s') /\ Forall (AInv fixed fmt s') cls'.
Proof.
  induction fuel as [|f IH]; intros fixed v_empty fmt hook s cls outs s' cls' outs' fired Wf Wc Wh Fi H.
  - cbn in H. inversion H; subst. auto.
  - cbn [pump_rounds_r] in H.
    destruct (pump_h_r fixed v_empty fmt (length cls) hook s cls []) as [[[[s1 cls1] o1] c1]|] eqn:P; [|discriminate].
    destruct (ainv_pump_h_r _ _ _ _ _ _ _ _ _ _ _ _ Wf Wc Wh Fi P) as (E1 & W1 & I1).
    destruct (existsb (fun ko => o_sent (snd ko)) o1 || (match hook with Some _ => c1 | None => false end)).
    + assert (Wf1 : wf_fb (sfb s1)) by (rewrite E1; exact Wf).
      assert (Wh1 : forall hk nc, (if c1 then None else hook) = Some (hk, nc) -> wf_ocursor nc).
      { intros hk nc E. destruct c1; [discriminate|]. eapply Wh; eauto. }
      destruct (IH _ _ _ _ _ _ _ _ _ _ _ Wf1 W1 Wh1 I1 H) as (E2 & W2 & I2).
      split; [congruence|]. auto.
    + inversion H; subst. auto.
Qed.
