(* C15 - statements added after the independent audit (notes/audit_B.md, item 1): the cell of the
   reference picture, [cursor_cell], is DEFINED through the mirror function show_val.  For cursors
   without alpha channel it is here proved equal to an independent statement: mask bit set => the
   cursor's pixel, else the pixel underneath.  (With an alpha channel the cell is the mirror of the
   blend loop of rfbShowCursor, [blend]; no independent statement is proved for it.) *)
Require Import ZArith List Bool Lia.
From LV Require Import Cursor.CursorDefs Cursor.CursorProofs.
Import ListNotations.
Local Open Scope Z_scope.

(* bit (u,v) of the mask bitmap: byte v*rowbytes + u/8, most significant bit first *)
Definition mask_bit (c : cursor) (u v : Z) : bool :=
  Z.testbit (nth (Z.to_nat (v * ((cw c + 7) / 8) + u / 8)) (cmask c) 0) (7 - u mod 8).

Definition cell_mask_spec (c : cursor) (r : list Z) (u v p : Z) : Z :=
  if mask_bit c u v then nth (Z.to_nat (v * cw c + u)) r p else p.

Lemma zidx_nth : forall (l : list Z) k d, 0 <= k < Z.of_nat (length l) -> zidx l k = Some (nth (Z.to_nat k) l d).
Proof.
  intros l k d H. unfold zidx. destruct (Z.ltb_spec k 0); [lia|].
  apply nth_error_nth'. lia.
Qed.

Theorem cursor_cell_mask_spec : forall fmt c r u v p,
  calpha c = None -> 0 <= u < cw c -> 0 <= v < ch c ->
  length (cmask c) = Z.to_nat (w8 c * ch c) -> length r = Z.to_nat (cw c * ch c) ->
  cursor_cell fmt c r u v p = cell_mask_spec c r u v p.
Proof.
  intros fmt c r u v p Ha Hu Hv Lm Lr.
  unfold cursor_cell, show_val, cell_mask_spec, mask_bit. rewrite Ha.
  replace (v + 0) with v by lia. replace (u + 0) with u by lia.
  assert (W8 : 0 <= u / 8 < w8 c).
  { unfold w8. split; [apply Z.div_pos; lia|]. apply Z.div_lt_upper_bound; [lia|].
    pose proof (Z.mul_div_le (cw c + 7) 8 ltac:(lia)). pose proof (Z.mod_pos_bound (cw c + 7) 8 ltac:(lia)).
    pose proof (Z.div_mod (cw c + 7) 8 ltac:(lia)). lia. }
  assert (I1 : 0 <= v * w8 c + u / 8 < Z.of_nat (length (cmask c))) by (rewrite Lm; nia).
  assert (I2 : 0 <= v * cw c + u < Z.of_nat (length r)) by (rewrite Lr; nia).
  rewrite (zidx_nth (cmask c) _ 0 I1). unfold bit_of, w8.
  destruct (Z.testbit _ (7 - u mod 8)); [|reflexivity].
  rewrite (zidx_nth r _ p I2). reflexivity.
Qed.
