(* C15 - rfbMakeXCursorFromRichCursor (audit item 6/7): what the X-style form derived from a rich cursor
   is, stated without the mirror function's loops:
     source bit (i,j) (row-major bitmap, (cw+7)/8 bytes per row, most significant bit first) =
        interpolation (all six colour components 0 and 1, 2 or 4 bytes per pixel; the foreground becomes
        white):  the pixel's luminance - mean of the three channels scaled to 0..255 - is >= 128;
        otherwise:  the pixel differs from the background pixel, whose channels are max*comp/65535;
     padding bits of a row are 0; size, hot-spot, mask, rich pixels, alpha, background are unchanged.
   The mirror models a true-colour server format (C: `format->trueColour &&` in the interpolation test;
   for a colour-mapped format the second rule applies - not modelled, not generated). *)
Require Import ZArith List Bool Lia Znumtheory.
From LV Require Import Cursor.CursorDefs Cursor.CursorProofs Cursor.CursorSession Cursor.CursorSessionProofs Cursor.CursorColour.
Import ListNotations.
Local Open Scope Z_scope.

(* ------------------------------------------------------------------ packing of bits *)
Lemma pack_byte_spec : forall k bits acc,
  snd (pack_byte bits k acc) = skipn k bits /\
  (forall t, (t < k)%nat -> Z.testbit (fst (pack_byte bits k acc)) (Z.of_nat (k - 1 - t)%nat) = nth t bits false) /\
  (forall n, Z.of_nat k <= n -> Z.testbit (fst (pack_byte bits k acc)) n = Z.testbit acc (n - Z.of_nat k)).
Proof.
  induction k as [|k IH]; intros bits acc.
  - cbn [pack_byte fst snd skipn]. split; [reflexivity|]. split; [intros; lia|].
    intros n Hn. f_equal. lia.
  - assert (B : forall (b : bool) a m, 0 <= m -> Z.testbit (2 * a + (if b then 1 else 0)) (Z.succ m) = Z.testbit a m).
    { intros b a m Hm. change (if b then 1 else 0) with (Z.b2z b). apply Z.testbit_succ_r. exact Hm. }
    assert (B0 : forall (b : bool) a, Z.testbit (2 * a + (if b then 1 else 0)) 0 = b).
    { intros b a. change (if b then 1 else 0) with (Z.b2z b). apply Z.testbit_0_r. }
    destruct bits as [|b0 tl]; cbn [pack_byte].
    + destruct (IH [] (2 * acc)) as (S1 & T1 & N1). split; [rewrite S1; destruct k; reflexivity|]. split.
      * intros t Ht. destruct t as [|t'].
        -- replace (Z.of_nat (S k - 1 - 0)%nat) with (Z.of_nat k) by lia. rewrite N1 by lia.
           rewrite Z.sub_diag. apply Z.testbit_even_0.
        -- replace (S k - 1 - S t')%nat with (k - 1 - t')%nat by lia. rewrite T1 by lia. destruct t'; reflexivity.
      * intros n Hn. rewrite N1 by lia. replace (n - Z.of_nat k) with (Z.succ (n - Z.of_nat (S k))) by lia.
        apply Z.testbit_even_succ. lia.
    + destruct (IH tl (2 * acc + (if b0 then 1 else 0))) as (S1 & T1 & N1). split; [exact S1|]. split.
      * intros t Ht. destruct t as [|t'].
        -- replace (Z.of_nat (S k - 1 - 0)%nat) with (Z.of_nat k) by lia. rewrite N1 by lia.
           rewrite Z.sub_diag. apply B0.
        -- replace (S k - 1 - S t')%nat with (k - 1 - t')%nat by lia. rewrite T1 by lia. reflexivity.
      * intros n Hn. rewrite N1 by lia. replace (n - Z.of_nat k) with (Z.succ (n - Z.of_nat (S k))) by lia.
        apply B. lia.
Qed.

Lemma nth_skipn_false : forall m (l : list bool) t, nth t (skipn m l) false = nth (m + t) l false.
Proof.
  induction m as [|m IH]; intros l t; [reflexivity|].
  destruct l as [|a tl]; cbn [skipn]; [destruct t; reflexivity|]. rewrite IH. reflexivity.
Qed.

Lemma pack_row_spec : forall n bits,
  length (pack_row bits n) = n /\
  forall q t, (q < n)%nat -> (t < 8)%nat ->
    Z.testbit (nth q (pack_row bits n) 0) (Z.of_nat (7 - t)%nat) = nth (8 * q + t)%nat bits false.
Proof.
  induction n as [|n IH]; intros bits; cbn [pack_row]; [split; [reflexivity|intros; lia]|].
  destruct (pack_byte bits 8 0) as [b rest] eqn:E.
  destruct (pack_byte_spec 8 bits 0) as (S1 & T1 & _). rewrite E in S1, T1. cbn [fst snd] in S1, T1.
  destruct (IH rest) as [L N]. split; [cbn [length]; rewrite L; reflexivity|].
  intros q t Hq Ht. destruct q as [|q'].
  - cbn [nth]. replace (8 * 0 + t)%nat with t by lia. rewrite <- (T1 t Ht). f_equal.
  - cbn [nth]. rewrite (N q' t) by lia. rewrite S1, nth_skipn_false. f_equal. lia.
Qed.

Lemma length_concat_uniform : forall (rows : list (list Z)) n,
  Forall (fun r => length r = n) rows -> length (concat rows) = (length rows * n)%nat.
Proof.
  induction rows as [|a t IH]; intros n F; [reflexivity|]. inversion F; subst. cbn [concat length].
  rewrite app_length, (IH (length a)) by assumption. lia.
Qed.

Lemma nth_concat_uniform : forall (rows : list (list Z)) n j q,
  Forall (fun r => length r = n) rows -> (j < length rows)%nat -> (q < n)%nat ->
  nth (j * n + q)%nat (concat rows) 0 = nth q (nth j rows []) 0.
Proof.
  induction rows as [|r t IH]; intros n j q F Hj Hq; [cbn in Hj; lia|].
  inversion F as [|? ? Lr Ft]; subst. cbn [concat].
  destruct j as [|j'].
  - cbn [nth]. rewrite app_nth1 by lia. f_equal.
  - cbn [nth]. rewrite app_nth2 by lia. replace (S j' * length r + q - length r)%nat with (j' * length r + q)%nat by lia.
    apply (IH (length r) j' q); auto. cbn in Hj. lia.
Qed.

(* ------------------------------------------------------------------ the bitmap *)
Definition src_bit (c : cursor) (src : list Z) (i j : Z) : bool :=
  Z.testbit (nth (Z.to_nat (j * w8 c + i / 8)) src 0) (7 - i mod 8).

Definition interp_of (fmt : pixfmt) (c : cursor) : bool :=
  all_zero c && ((bpp fmt =? 1) || (bpp fmt =? 2) || (bpp fmt =? 4)).

(* the background pixel as the mirror computes it *)
Definition backpix_m (fmt : pixfmt) (c : cursor) : Z :=
  let '(br, bg, bb) := cback c in
  pixmod fmt (u32 (Z.lor (Z.lor (Z.shiftl (Z.quot (rmax fmt * br) 65535) (rshift fmt))
                                (Z.shiftl (Z.quot (gmax fmt * bg) 65535) (gshift fmt)))
                         (Z.shiftl (Z.quot (bmax fmt * bb) 65535) (bshift fmt)))).

Definition rule_m (fmt : pixfmt) (c : cursor) (p : Z) : bool :=
  if interp_of fmt c then 128 <=? grey_of fmt p else negb (p =? backpix_m fmt c).

Lemma x_from_rich_bits : forall fmt c c',
  0 <= cw c -> 0 <= ch c -> make_x_from_rich fmt c = Some c' ->
  cfore c' = (if interp_of fmt c then (65535, 65535, 65535) else cfore c) /\ cback c' = cback c /\
  exists src, csource c' = Some src /\ length src = Z.to_nat (w8 c * ch c) /\
    forall i j, 0 <= i < 8 * w8 c -> 0 <= j < ch c ->
      if i <? cw c
      then exists p, zidx (opt_list (crich c)) (j * cw c + i) = Some p /\ src_bit c src i j = rule_m fmt c p
      else src_bit c src i j = false.
Proof.
  intros fmt c c' Hw Hh H. unfold make_x_from_rich in H. fold (interp_of fmt c) in H.
  assert (Eb : forall p, (if interp_of fmt c then 128 <=? grey_of fmt p
                          else negb (p =? (let '(br, bg, bb) := cback c in
                            pixmod fmt (u32 (Z.lor (Z.lor (Z.shiftl (Z.quot (rmax fmt * br) 65535) (rshift fmt))
                                                          (Z.shiftl (Z.quot (gmax fmt * bg) 65535) (gshift fmt)))
                                                   (Z.shiftl (Z.quot (bmax fmt * bb) 65535) (bshift fmt)))))))
                         = rule_m fmt c p) by reflexivity.
  destruct (cback c) as [[br bg] bb] eqn:Ecb.
  match type of H with (match ?A with Some _ => _ | None => None end) = _ => destruct A as [rowsb|] eqn:Er; [|discriminate] end.
  inversion H; subst c'; clear H. cbn [cfore cback csource]. split; [reflexivity|]. split; [auto|].
  exists (concat rowsb). split; [reflexivity|].
  destruct (collect_spec _ _ _ _ Er) as [Lr Nr].
  (* every row *)
  assert (Row : forall j, (j < Z.to_nat (ch c))%nat ->
            exists bits, nth j rowsb [] = pack_row bits (Z.to_nat (w8 c)) /\ length bits = Z.to_nat (cw c) /\
              forall i, (i < Z.to_nat (cw c))%nat ->
                exists p, zidx (opt_list (crich c)) (Z.of_nat j * cw c + Z.of_nat i) = Some p /\
                          nth i bits false = rule_m fmt c p).
  { intros j Hj. specialize (Nr j Hj). cbn beta in Nr. replace (0 + Z.of_nat j) with (Z.of_nat j) in Nr by lia.
    match type of Nr with _ = (match ?A with Some _ => _ | None => None end) => destruct A as [bits|] eqn:Ebits end.
    - exists bits. split; [apply nth_error_nth; exact Nr|].
      destruct (collect_spec _ _ _ _ Ebits) as [Lb Nb]. split; [exact Lb|].
      intros i Hi. specialize (Nb i Hi). cbn beta in Nb. replace (0 + Z.of_nat i) with (Z.of_nat i) in Nb by lia.
      destruct (zidx (opt_list (crich c)) (Z.of_nat j * cw c + Z.of_nat i)) as [p|];
        [|exfalso; assert (nth_error bits i <> None) by (apply nth_error_Some; lia); congruence].
      exists p. split; [reflexivity|]. rewrite (nth_error_nth _ _ _ Nb). exact (Eb p).
    - exfalso. assert (nth_error rowsb j <> None) by (apply nth_error_Some; lia). congruence. }
  assert (Uni : Forall (fun r => length r = Z.to_nat (w8 c)) rowsb).
  { apply Forall_forall. intros r Hr. apply In_nth_error in Hr. destruct Hr as [j Ej].
    assert (Hj : (j < Z.to_nat (ch c))%nat) by (rewrite <- Lr; apply nth_error_Some; congruence).
    destruct (Row j Hj) as (bits & En & _). rewrite (nth_error_nth _ _ _ Ej) in En. rewrite En.
    apply pack_row_spec. }
  assert (W8 : 0 <= w8 c) by (unfold w8; apply Z.div_pos; lia).
  split.
  - rewrite (length_concat_uniform _ _ Uni), Lr, Z2Nat.inj_mul by lia. lia.
  - intros i j Hi Hj.
    assert (Q : 0 <= i / 8 < w8 c) by (split; [apply Z.div_pos; lia|apply Z.div_lt_upper_bound; lia]).
    pose proof (Z.mod_pos_bound i 8 ltac:(lia)) as T8. pose proof (Z.div_mod i 8 ltac:(lia)) as DM.
    destruct (Row (Z.to_nat j) ltac:(lia)) as (bits & En & Lb & Nb).
    assert (E1 : nth (Z.to_nat (j * w8 c + i / 8)) (concat rowsb) 0 =
                 nth (Z.to_nat (i / 8)) (pack_row bits (Z.to_nat (w8 c))) 0).
    { replace (Z.to_nat (j * w8 c + i / 8)) with (Z.to_nat j * Z.to_nat (w8 c) + Z.to_nat (i / 8))%nat by nia.
      rewrite (nth_concat_uniform rowsb (Z.to_nat (w8 c)) (Z.to_nat j) (Z.to_nat (i / 8)) Uni) by lia.
      rewrite En. reflexivity. }
    destruct (pack_row_spec (Z.to_nat (w8 c)) bits) as [_ Pb].
    assert (E2 : src_bit c (concat rowsb) i j = nth (Z.to_nat i) bits false).
    { unfold src_bit. rewrite E1. replace (7 - i mod 8) with (Z.of_nat (7 - Z.to_nat (i mod 8))%nat) by lia.
      rewrite (Pb (Z.to_nat (i / 8)) (Z.to_nat (i mod 8))) by lia. f_equal. lia. }
    destruct (Z.ltb_spec i (cw c)) as [Lt|Ge].
    + destruct (Nb (Z.to_nat i) ltac:(lia)) as (p & Ep & Rp). exists p.
      rewrite !Z2Nat.id in Ep by lia. split; [exact Ep|]. rewrite E2. exact Rp.
    + rewrite E2. apply nth_overflow. lia.
Qed.

(* ------------------------------------------------------------------ the rule, stated independently *)
(* luminance: the three channels (p >> shift) & max scaled to 0..255, their mean *)
Definition lum (fmt : pixfmt) (p : Z) : Z :=
  (255 * red_of fmt p / rmax fmt + 255 * green_of fmt p / gmax fmt + 255 * blue_of fmt p / bmax fmt) / 3.

(* the background pixel: channels max*comp/65535 (CursorColour.colour_ok holds for it) *)
Definition back_pixel (fmt : pixfmt) (c : cursor) : Z := pixmod fmt (rgb_word_scaled fmt (cback c)).

Definition x_bit_rule (fmt : pixfmt) (c : cursor) (p : Z) : bool :=
  if interp_of fmt c then 128 <=? lum fmt p else negb (p =? back_pixel fmt c).

Lemma channel_256 : forall mx k sh p, 1 <= k -> mx = 2 ^ k - 1 -> 0 <= sh -> sh + k <= 32 ->
  Z.quot (255 * Z.shiftr (Z.land (u32 (Z.shiftl mx sh)) p) sh) mx = 255 * Z.land (Z.shiftr p sh) mx / mx.
Proof.
  intros mx k sh p Hk Em Hs Hin.
  assert (P : 2 <= 2 ^ k) by (change 2 with (2 ^ 1) at 1; apply Z.pow_le_mono_r; lia).
  assert (Mx : 0 <= mx < 2 ^ k) by lia.
  rewrite (u32_small (Z.shiftl mx sh)) by (apply (shifted_small mx k sh); lia).
  rewrite Z.shiftr_land, Z.shiftr_shiftl_l by lia. rewrite Z.sub_diag, Z.shiftl_0_r.
  rewrite (Z.land_comm mx). apply Z.quot_div_nonneg; [|lia].
  apply Z.mul_nonneg_nonneg; [lia|]. apply Z.land_nonneg. right. lia.
Qed.

Lemma grey_is_lum : forall fmt kr kg kb p,
  fmt_ok fmt kr kg kb -> 1 <= kr -> 1 <= kg -> 1 <= kb -> bpp fmt <= 4 -> grey_of fmt p = lum fmt p.
Proof.
  intros fmt kr kg kb p F Kr Kg Kb B. destruct F. unfold grey_of, lum, red_of, green_of, blue_of.
  rewrite (channel_256 (rmax fmt) kr) by lia. rewrite (channel_256 (gmax fmt) kg) by lia.
  rewrite (channel_256 (bmax fmt) kb) by lia.
  apply Z.quot_div_nonneg; [|lia].
  assert (N : forall mx v, 0 < mx -> 0 <= 255 * Z.land v mx / mx).
  { intros mx v Hm. apply Z.div_pos; [|exact Hm]. apply Z.mul_nonneg_nonneg; [lia|]. apply Z.land_nonneg. right. lia. }
  assert (P2 : forall k, 1 <= k -> 2 <= 2 ^ k) by (intros k Hk; change 2 with (2 ^ 1) at 1; apply Z.pow_le_mono_r; lia).
  pose proof (P2 kr Kr). pose proof (P2 kg Kg). pose proof (P2 kb Kb).
  assert (0 < rmax fmt) by lia. assert (0 < gmax fmt) by lia. assert (0 < bmax fmt) by lia.
  pose proof (N (rmax fmt) (Z.shiftr p (rshift fmt)) ltac:(lia)).
  pose proof (N (gmax fmt) (Z.shiftr p (gshift fmt)) ltac:(lia)).
  pose proof (N (bmax fmt) (Z.shiftr p (bshift fmt)) ltac:(lia)). lia.
Qed.

Lemma backpix_is_scaled : forall fmt kr kg kb c,
  fmt_ok fmt kr kg kb -> 1 <= kr -> bpp fmt <= 4 ->
  (let '(r, g, b) := cback c in 0 <= r /\ 0 <= g /\ 0 <= b) ->
  backpix_m fmt c = back_pixel fmt c.
Proof.
  intros fmt kr kg kb c F Kr B Rg. unfold backpix_m, back_pixel, rgb_word_scaled, chan.
  destruct (cback c) as [[br bg] bb]. destruct Rg as (Hr & Hg & Hb).
  destruct F as [Okr Okg Okb Ermax Egmax Ebmax Ors Ogs Obs _ _ _ Orin _ _].
  assert (P : forall k, 0 <= k -> 0 < 2 ^ k) by (intros; apply Z.pow_pos_nonneg; lia).
  pose proof (P kr Okr). pose proof (P kg Okg). pose proof (P kb Okb).
  rewrite !Z.quot_div_nonneg by nia.
  unfold pixmod, u32, two32.
  assert (Bp : 0 <= 8 * bpp fmt <= 32) by lia.
  symmetry. apply Zmod_div_mod; [apply P; lia|reflexivity|].
  exists (2 ^ (32 - 8 * bpp fmt)). change 4294967296 with (2 ^ 32).
  rewrite <- Z.pow_add_r; [f_equal; lia|lia|lia].
Qed.

(* C15_x_from_rich *)
Theorem x_from_rich_spec : forall fmt kr kg kb c c',
  fmt_ok fmt kr kg kb -> 1 <= kr -> 1 <= kg -> 1 <= kb -> bpp fmt <= 4 ->
  (let '(r, g, b) := cback c in 0 <= r /\ 0 <= g /\ 0 <= b) ->
  0 <= cw c -> 0 <= ch c -> make_x_from_rich fmt c = Some c' ->
  cw c' = cw c /\ ch c' = ch c /\ cxhot c' = cxhot c /\ cyhot c' = cyhot c /\ cmask c' = cmask c /\
  crich c' = crich c /\ calpha c' = calpha c /\ cback c' = cback c /\
  cfore c' = (if interp_of fmt c then (65535, 65535, 65535) else cfore c) /\
  exists src, csource c' = Some src /\ length src = Z.to_nat (w8 c * ch c) /\
    forall i j, 0 <= i < 8 * w8 c -> 0 <= j < ch c ->
      if i <? cw c
      then exists p, zidx (opt_list (crich c)) (j * cw c + i) = Some p /\ src_bit c src i j = x_bit_rule fmt c p
      else src_bit c src i j = false.
Proof.
  intros fmt kr kg kb c c' F Kr Kg Kb B Rg Hw Hh H.
  destruct (CursorSessionProofs.make_x_from_rich_spec fmt c c' H) as (G1 & G2 & G3 & G4 & G5 & G6 & G7 & _ & _).
  destruct (x_from_rich_bits fmt c c' Hw Hh H) as (Ef & Ebk & src & Es & Ls & Bits).
  repeat (split; [assumption|]).
  exists src. split; [exact Es|]. split; [exact Ls|].
  intros i j Hi Hj. specialize (Bits i j Hi Hj). destruct (i <? cw c); [|exact Bits].
  destruct Bits as (p & Ep & Rp). exists p. split; [exact Ep|]. rewrite Rp.
  unfold rule_m, x_bit_rule. rewrite (grey_is_lum fmt kr kg kb) by assumption.
  rewrite (backpix_is_scaled fmt kr kg kb) by assumption. reflexivity.
Qed.

(* not vacuous: 32 bpp, a 2x1 cursor with a white and a black pixel, colours all 0: interpolation *)
Example x_from_rich_nonvacuous :
  exists c', make_x_from_rich fmt32
               (mkcur 2 1 0 0 None [192] (Some [16777215; 0]) None false (0, 0, 0) (0, 0, 0) false) = Some c' /\
             csource c' = Some [128] /\ cfore c' = (65535, 65535, 65535).
Proof. eexists. split; [vm_compute; reflexivity|]. split; reflexivity. Qed.
