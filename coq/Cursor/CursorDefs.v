(* Mirror model of src/libvncserver/cursor.c (DESIGN.md section 5, C15): the soft cursor that is
   painted into the application framebuffer for the duration of an update.

   Framebuffer = width, height and a list of rows of pixels (a pixel is the native value of the
   bytesPerPixel bytes, little-endian host, serverFormat.bigEndian = FALSE).  Every access goes
   through [zidx]/[zset]/[fb_get]/[fb_set], so an out-of-range index is the explicit error
   value [None], never a default.  Loops are [iter_n]/[collect] on the C trip count.

   [fixed] selects between the clip of the tree (fixed = true: `if(x2>s->width) x2=s->width`,
   /repo commit 1a3b6d2) and the clip before that commit (fixed = false:
   `if(x2>=s->width) x2=s->width-1`, DESIGN.md section 7 F15, kept as the record of the defect).
   The correspondence run executes fixed = true.
   Only definitions here: the model must keep running when a proof breaks. *)
From Coq Require Export List ZArith Bool Lia.
Export ListNotations.
Local Open Scope Z_scope.

(* ------------------------------------------------------------------ lists with Z indices *)
Section ListZ.
  Context {A : Type}.
  Definition zidx (l : list A) (k : Z) : option A :=
    if k <? 0 then None else nth_error l (Z.to_nat k).
  Fixpoint set_nth (l : list A) (n : nat) (v : A) : option (list A) :=
    match l, n with
    | [], _ => None
    | _ :: t, O => Some (v :: t)
    | a :: t, S m => match set_nth t m v with None => None | Some t' => Some (a :: t') end
    end.
  Definition zset (l : list A) (k : Z) (v : A) : option (list A) :=
    if k <? 0 then None else set_nth l (Z.to_nat k) v.

  (* for (i = k; n times; i++) s = body(i, s), stopping at the first error *)
  Fixpoint iter_n (n : nat) (k : Z) (body : Z -> A -> option A) (s : A) : option A :=
    match n with
    | O => Some s
    | S m => match body k s with None => None | Some s' => iter_n m (k + 1) body s' end
    end.

  (* [g k; g (k+1); ...] (n values), error if any is *)
  Fixpoint collect (n : nat) (k : Z) (g : Z -> option A) : option (list A) :=
    match n with
    | O => Some []
    | S m => match g k with
             | None => None
             | Some a => match collect m (k + 1) g with None => None | Some t => Some (a :: t) end
             end
    end.

  (* row-major flat array of g i j, rows j0 .. j0+nr-1, columns 0 .. nc-1 *)
  Fixpoint collect2 (nr : nat) (j0 : Z) (nc : nat) (g : Z -> Z -> option A) : option (list A) :=
    match nr with
    | O => Some []
    | S m => match collect nc 0 (fun i => g i j0) with
             | None => None
             | Some r => match collect2 m (j0 + 1) nc g with None => None | Some t => Some (r ++ t) end
             end
    end.
End ListZ.

(* ------------------------------------------------------------------ framebuffer *)
Record fb : Type := mkfb { fw : Z; fh : Z; rows : list (list Z) }.

Definition fb_get (f : fb) (x y : Z) : option Z :=
  match zidx (rows f) y with None => None | Some r => zidx r x end.

Definition fb_set (f : fb) (x y v : Z) : option fb :=
  match zidx (rows f) y with
  | None => None
  | Some r => match zset r x v with
              | None => None
              | Some r' => match zset (rows f) y r' with
                           | None => None
                           | Some rs => Some (mkfb (fw f) (fh f) rs)
                           end
              end
  end.

(* the double loop `for(j<y2) for(i<x2)` over the clipped box; [val i j p] is what the loop body
   does with the pixel p currently at (i+x1, j+y1): error / leave / store v *)
Definition paint (val : Z -> Z -> Z -> option (option Z)) (x1 y1 x2 y2 : Z) (f : fb) : option fb :=
  iter_n (Z.to_nat y2) 0 (fun j f1 =>
    iter_n (Z.to_nat x2) 0 (fun i f2 =>
      match fb_get f2 (i + x1) (j + y1) with
      | None => None
      | Some p => match val i j p with
                  | None => None
                  | Some None => Some f2
                  | Some (Some v) => fb_set f2 (i + x1) (j + y1) v
                  end
      end) f1) f.

(* "save data": underCursorBuffer[j*x2+i] = frameBuffer[(y1+j), (x1+i)] *)
Definition save (f : fb) (x1 y1 x2 y2 : Z) : option (list Z) :=
  collect2 (Z.to_nat y2) 0 (Z.to_nat x2) (fun i j => fb_get f (i + x1) (j + y1)).

(* ------------------------------------------------------------------ cursor, pixel format *)
Record pixfmt : Type := mkfmt { bpp : Z;   (* bytes per pixel *)
  rmax : Z; gmax : Z; bmax : Z; rshift : Z; gshift : Z; bshift : Z }.

Record cursor : Type := mkcur {
  cw : Z; ch : Z; cxhot : Z; cyhot : Z;
  csource : option (list Z);     (* bitmap bytes, (cw+7)/8 per row; NULL = None *)
  cmask : list Z;                (* mask bytes *)
  crich : option (list Z);       (* richSource pixels (server format), cw*ch; NULL = None *)
  calpha : option (list Z);      (* alphaSource bytes, cw*ch *)
  cpremult : bool;
  cfore : Z * Z * Z; cback : Z * Z * Z;     (* 16-bit foreRed.. / backRed.. *)
  cderived : bool }.             (* cleanupRichSource: richSource was made by rfbMakeRichCursorFromXCursor *)

Definition w8 (c : cursor) : Z := (cw c + 7) / 8.
Definition two32 : Z := 4294967296.
Definition u32 (v : Z) : Z := v mod two32.
Definition pixmod (fmt : pixfmt) (v : Z) : Z := v mod (2 ^ (8 * bpp fmt)).

(* bit `0x80 >> (i & 7)` of a bitmap byte *)
Definition bit_of (byte i : Z) : bool := Z.testbit byte (7 - i mod 8).

(* rfbMakeRichCursorFromXCursor: background/foreground words, low bpp bytes stored.
   Since the fix of F15e: `(((uint32_t)max * (uint32_t)comp) / 0xffff) << shift` per channel *)
Definition rgb_word (fmt : pixfmt) (c3 : Z * Z * Z) : Z :=
  let '(r, g, b) := c3 in
  Z.lor (Z.lor (u32 (Z.shiftl (u32 (rmax fmt * r) / 65535) (rshift fmt)))
               (u32 (Z.shiftl (u32 (gmax fmt * g) / 65535) (gshift fmt))))
        (u32 (Z.shiftl (u32 (bmax fmt * b) / 65535) (bshift fmt))).

(* a NULL pointer is an array without elements: dereferencing it is the error value *)
Definition opt_list {A} (o : option (list A)) : list A := match o with Some l => l | None => [] end.

Definition make_rich_from_x (fmt : pixfmt) (c : cursor) : option (list Z) :=
  let src := opt_list (csource c) in
  let fore := pixmod fmt (rgb_word fmt (cfore c)) in
  let back := pixmod fmt (rgb_word fmt (cback c)) in
  collect2 (Z.to_nat (ch c)) 0 (Z.to_nat (cw c)) (fun i j =>
    match zidx src (j * w8 c + i / 8) with
    | None => None
    | Some byte => Some (if bit_of byte i then fore else back)
    end).

Definition set_rich (c : cursor) (r : list Z) : cursor :=
  mkcur (cw c) (ch c) (cxhot c) (cyhot c) (csource c) (cmask c) (Some r) (calpha c) (cpremult c)
        (cfore c) (cback c) true.

(* `if(!c->richSource) rfbMakeRichCursorFromXCursor(s,c);` *)
Definition ensure_rich (fmt : pixfmt) (c : cursor) : option (cursor * list Z) :=
  match crich c with
  | Some r => Some (c, r)
  | None => match make_rich_from_x fmt c with None => None | Some r => Some (set_rich c r, r) end
  end.

(* ------------------------------------------------------------------ clipping of one axis *)
(* x1=pos-hot; x2=x1+size; if(x1<0){i1=-x1;x1=0;} if(x2>=dim) x2=dim-1; x2-=x1; if(x2<=0) return *)
Definition clip1 (fixed : bool) (pos hot size dim : Z) : option (Z * Z * Z) :=
  let x1 := pos - hot in
  let x2 := x1 + size in
  let i1 := if x1 <? 0 then - x1 else 0 in
  let x1' := if x1 <? 0 then 0 else x1 in
  let x2' := if fixed then (if x2 >? dim then dim else x2)
             else (if x2 >=? dim then dim - 1 else x2) in
  let n := x2' - x1' in
  if n <=? 0 then None else Some (x1', i1, n).

(* ------------------------------------------------------------------ painting *)
Definition chan (mx sh v : Z) : Z := Z.shiftr (Z.land v (u32 (Z.shiftl mx sh))) sh.

(* the alpha-blend loop body of rfbShowCursor (amax = 255) *)
Definition blend (fmt : pixfmt) (premult : bool) (asrc sval dval : Z) : Z :=
  let mix mx sh :=
    let d := chan mx sh dval in
    let s := chan mx sh sval in
    let s' := if premult then s else Z.quot (asrc * s) 255 in
    s' + Z.quot ((255 - asrc) * d) 255 in
  let r := mix (rmax fmt) (rshift fmt) in
  let g := mix (gmax fmt) (gshift fmt) in
  let b := mix (bmax fmt) (bshift fmt) in
  pixmod fmt (u32 (Z.lor (Z.lor (Z.shiftl r (rshift fmt)) (Z.shiftl g (gshift fmt)))
                         (Z.shiftl b (bshift fmt)))).

Definition bpp_ok (fmt : pixfmt) : bool :=
  (bpp fmt =? 1) || (bpp fmt =? 2) || (bpp fmt =? 3) || (bpp fmt =? 4).

(* what rfbShowCursor stores at box offset (i,j) (cursor offset (i+i1, j+j1)) over pixel p *)
Definition show_val (fmt : pixfmt) (c : cursor) (r : list Z) (i1 j1 : Z) (i j p : Z)
  : option (option Z) :=
  match calpha c with
  | Some a =>
      match zidx a ((j + j1) * cw c + (i + i1)) with
      | None => None
      | Some asrc =>
          if asrc =? 0 then Some None
          else match zidx r ((j + j1) * cw c + (i + i1)) with
               | None => None
               | Some sval => if bpp_ok fmt then Some (Some (blend fmt (cpremult c) asrc sval p))
                              else Some None
               end
      end
  | None =>
      match zidx (cmask c) ((j + j1) * w8 c + (i + i1) / 8) with
      | None => None
      | Some mb =>
          if bit_of mb (i + i1)
          then match zidx r ((j + j1) * cw c + (i + i1)) with
               | None => None
               | Some v => Some (Some v)
               end
          else Some None
      end
  end.

(* rfbShowCursor: new framebuffer, new under-cursor buffer, cursor (richSource may have been made) *)
Definition show (fixed : bool) (fmt : pixfmt) (f : fb) (c : cursor) (px py : Z) (ubuf : list Z)
  : option (fb * list Z * cursor) :=
  match clip1 fixed px (cxhot c) (cw c) (fw f) with
  | None => Some (f, ubuf, c)
  | Some (x1, i1, x2) =>
    match clip1 fixed py (cyhot c) (ch c) (fh f) with
    | None => Some (f, ubuf, c)
    | Some (y1, j1, y2) =>
      match save f x1 y1 x2 y2 with
      | None => None
      | Some buf =>
        match ensure_rich fmt c with
        | None => None
        | Some (c', r) =>
          match paint (show_val fmt c' r i1 j1) x1 y1 x2 y2 f with
          | None => None
          | Some f1 => Some (f1, buf, c')
          end
        end
      end
    end
  end.

(* rfbHideCursor: "get saved data" *)
Definition hide (fixed : bool) (f : fb) (c : cursor) (px py : Z) (ubuf : list Z) : option fb :=
  match clip1 fixed px (cxhot c) (cw c) (fw f) with
  | None => Some f
  | Some (x1, _, x2) =>
    match clip1 fixed py (cyhot c) (ch c) (fh f) with
    | None => Some f
    | Some (y1, _, y2) =>
      paint (fun i j _ => match zidx ubuf (j * x2 + i) with None => None | Some v => Some (Some v) end)
            x1 y1 x2 y2 f
    end
  end.

(* ------------------------------------------------------------------ specification level *)
(* the cursor laid over the framebuffer at pointer position (px,py): pixel of cursor cell (u,v) *)
Definition cursor_cell (fmt : pixfmt) (c : cursor) (r : list Z) (u v p : Z) : Z :=
  match show_val fmt c r 0 0 u v p with
  | Some (Some q) => q
  | _ => p
  end.

Definition in_cursor (c : cursor) (px py x y : Z) : bool :=
  let u := x - (px - cxhot c) in
  let v := y - (py - cyhot c) in
  (0 <=? u) && (u <? cw c) && (0 <=? v) && (v <? ch c).

Definition overlay_get (fmt : pixfmt) (c : cursor) (r : list Z) (px py : Z) (f : fb) (x y : Z)
  : option Z :=
  match fb_get f x y with
  | None => None
  | Some p => Some (if in_cursor c px py x y
                    then cursor_cell fmt c r (x - (px - cxhot c)) (y - (py - cyhot c)) p
                    else p)
  end.

(* well-formedness *)
Definition wf_fb (f : fb) : Prop :=
  0 <= fw f /\ 0 <= fh f /\ length (rows f) = Z.to_nat (fh f) /\
  Forall (fun r => length r = Z.to_nat (fw f)) (rows f).

Definition wf_cursor (c : cursor) : Prop :=
  0 <= cw c /\ 0 <= ch c /\
  length (cmask c) = Z.to_nat (w8 c * ch c) /\
  match crich c with
  | Some r => length r = Z.to_nat (cw c * ch c)
  | None => match csource c with Some s => length s = Z.to_nat (w8 c * ch c) | None => False end
  end /\
  match calpha c with Some a => length a = Z.to_nat (cw c * ch c) | None => True end.
