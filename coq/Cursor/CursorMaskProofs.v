(* rfbMakeMaskForXCursor (mirror: CursorSession.make_mask_for_xcursor): the mask is the source
   bitmap dilated by one pixel in the eight directions (over the padded bitmap of 8*rowbytes
   columns). *)
From LV Require Import Cursor.CursorDefs Cursor.CursorProofs Cursor.CursorSession.
Local Open Scope Z_scope.

(* ------------------------------------------------------------------ or_at *)
Lemma zset_spec {A} : forall (l : list A) k v l', zset l k v = Some l' ->
  length l' = length l /\ forall q, zidx l' q = if q =? k then Some v else zidx l q.
Proof.
  intros l k v l' H. unfold zset in H. destruct (Z.ltb_spec k 0); [discriminate|].
  destruct (set_nth_spec _ _ _ _ H) as [L N]. split; [exact L|].
  intros q. unfold zidx. destruct (Z.ltb_spec q 0).
  - destruct (Z.eqb_spec q k); [lia|reflexivity].
  - rewrite N. destruct (Nat.eqb_spec (Z.to_nat q) (Z.to_nat k)); destruct (Z.eqb_spec q k); try lia; reflexivity.
Qed.

Lemma or_at_spec : forall m idx v m', or_at m idx v = Some m' ->
  length m' = length m /\
  forall q, zidx m' q = option_map (fun old => if q =? idx then Z.lor old v else old) (zidx m q).
Proof.
  intros m idx v m' H. unfold or_at in H. destruct (zidx m idx) as [old|] eqn:E; [|discriminate].
  destruct (zset_spec _ _ _ _ H) as [L N]. split; [exact L|].
  intros q. rewrite N. destruct (Z.eqb_spec q idx).
  - subst. rewrite E. reflexivity.
  - destruct (zidx m q); reflexivity.
Qed.

Lemma or_at_ok : forall m idx v, 0 <= idx < Z.of_nat (length m) -> exists m', or_at m idx v = Some m'.
Proof.
  intros m idx v H. unfold or_at. destruct (zidx_some m idx H) as [old E]. rewrite E.
  unfold zset. destruct (Z.ltb_spec idx 0); [lia|]. apply set_nth_some. lia.
Qed.

(* ------------------------------------------------------------------ one step *)
Definition vcol (w h : Z) (src : list Z) (j i : Z) : Z :=   (* c of the C code *)
  let g k := match zidx src k with Some v => v | None => 0 end in
  Z.lor (Z.lor (g (j * w + i)) (if 0 <? j then g ((j - 1) * w + i) else 0))
        (if j <? h - 1 then g ((j + 1) * w + i) else 0).

Definition dil (c : Z) : Z := byte (Z.lor (Z.lor (Z.shiftl c 1) c) (Z.shiftr c 1)).

(* what step (j,i) ors into position q *)
Definition contrib (w h : Z) (src : list Z) (j i q : Z) : Z :=
  let c := vcol w h src j i in
  Z.lor (Z.lor (if (q =? j * w + i - 1) && (0 <? i) && Z.testbit c 7 then 1 else 0)
               (if (q =? j * w + i + 1) && (i <? w - 1) && Z.testbit c 0 then 128 else 0))
        (if q =? j * w + i then dil c else 0).

Lemma mask_step_spec : forall w h src j i m m',
  mask_step w h src j i m = Some m' ->
  length m' = length m /\
  forall q, zidx m' q = option_map (fun old => Z.lor old (contrib w h src j i q)) (zidx m q).
Proof.
  intros w h src j i m m' H. unfold mask_step in H.
  destruct (zidx src (j * w + i)) as [c0|] eqn:E0; [|discriminate].
  destruct (if 0 <? j then zidx src ((j - 1) * w + i) else Some 0) as [up|] eqn:Eu; [|discriminate].
  destruct (if j <? h - 1 then zidx src ((j + 1) * w + i) else Some 0) as [dn|] eqn:Ed; [|discriminate].
  assert (Ec : Z.lor (Z.lor c0 up) dn = vcol w h src j i).
  { unfold vcol. rewrite E0. destruct (0 <? j); destruct (j <? h - 1);
      try rewrite Eu; try rewrite Ed; inversion Eu; inversion Ed; subst; reflexivity. }
  rewrite Ec in H. set (c := vcol w h src j i) in *.
  destruct (if (0 <? i) && Z.testbit c 7 then or_at m (j * w + i - 1) 1 else Some m) as [m1|] eqn:E1; [|discriminate].
  destruct (if (i <? w - 1) && Z.testbit c 0 then or_at m1 (j * w + i + 1) 128 else Some m1) as [m2|] eqn:E2; [|discriminate].
  destruct (or_at_spec _ _ _ _ H) as [L3 N3].
  assert (S1 : length m1 = length m /\ forall q, zidx m1 q =
             option_map (fun old => Z.lor old (if (q =? j * w + i - 1) && (0 <? i) && Z.testbit c 7 then 1 else 0)) (zidx m q)).
  { destruct ((0 <? i) && Z.testbit c 7) eqn:B.
    - destruct (or_at_spec _ _ _ _ E1) as [L N]. split; [exact L|]. intros q. rewrite N.
      rewrite <- andb_assoc, B, andb_true_r. destruct (zidx m q); [|reflexivity]. cbn.
      destruct (q =? j * w + i - 1); [reflexivity|]. rewrite Z.lor_0_r. reflexivity.
    - inversion E1; subst. split; [reflexivity|]. intros q. rewrite <- andb_assoc, B, andb_false_r.
      destruct (zidx m1 q); [|reflexivity]. cbn. rewrite Z.lor_0_r. reflexivity. }
  assert (S2 : length m2 = length m1 /\ forall q, zidx m2 q =
             option_map (fun old => Z.lor old (if (q =? j * w + i + 1) && (i <? w - 1) && Z.testbit c 0 then 128 else 0)) (zidx m1 q)).
  { destruct ((i <? w - 1) && Z.testbit c 0) eqn:B.
    - destruct (or_at_spec _ _ _ _ E2) as [L N]. split; [exact L|]. intros q. rewrite N.
      rewrite <- andb_assoc, B, andb_true_r. destruct (zidx m1 q); [|reflexivity]. cbn.
      destruct (q =? j * w + i + 1); [reflexivity|]. rewrite Z.lor_0_r. reflexivity.
    - inversion E2; subst. split; [reflexivity|]. intros q. rewrite <- andb_assoc, B, andb_false_r.
      destruct (zidx m2 q); [|reflexivity]. cbn. rewrite Z.lor_0_r. reflexivity. }
  destruct S1 as [L1 N1]. destruct S2 as [L2 N2]. split; [congruence|].
  intros q. rewrite N3, N2, N1. destruct (zidx m q) as [old|]; [|reflexivity]. cbn. f_equal.
  unfold contrib. fold c. unfold dil.
  destruct (q =? j * w + i); rewrite ?Z.lor_0_r, ?Z.lor_assoc; reflexivity.
Qed.

(* ------------------------------------------------------------------ loops: OR of the contributions *)
Fixpoint orsum (n : nat) (k : Z) (f : Z -> Z) : Z :=
  match n with O => 0 | S m => Z.lor (f k) (orsum m (k + 1) f) end.

Lemma iter_or_spec : forall (step : Z -> list Z -> option (list Z)) (f : Z -> Z -> Z),
  (forall k m m', step k m = Some m' ->
     length m' = length m /\ forall q, zidx m' q = option_map (fun old => Z.lor old (f k q)) (zidx m q)) ->
  forall n k m m', iter_n n k step m = Some m' ->
  length m' = length m /\
  forall q, zidx m' q = option_map (fun old => Z.lor old (orsum n k (fun t => f t q))) (zidx m q).
Proof.
  intros step f Hs n. induction n as [|n IH]; intros k m m' H; cbn [iter_n] in H.
  - inversion H; subst. split; [reflexivity|]. intros q. destruct (zidx m' q); [|reflexivity]. cbn.
    rewrite Z.lor_0_r. reflexivity.
  - destruct (step k m) as [m1|] eqn:E; [|discriminate].
    destruct (Hs _ _ _ E) as [L1 N1]. destruct (IH _ _ _ H) as [L2 N2]. split; [congruence|].
    intros q. rewrite N2, N1. destruct (zidx m q); [|reflexivity]. cbn. rewrite Z.lor_assoc. reflexivity.
Qed.

(* an OR over a range of a function that vanishes except at one index *)
Lemma orsum_zero : forall n k f, (forall t, k <= t < k + Z.of_nat n -> f t = 0) -> orsum n k f = 0.
Proof.
  induction n as [|n IH]; intros k f H; cbn; [reflexivity|].
  rewrite H by lia. rewrite IH; [reflexivity|]. intros; apply H; lia.
Qed.

Lemma orsum_split : forall n k f t0, k <= t0 < k + Z.of_nat n ->
  orsum n k f = Z.lor (f t0) (orsum n k (fun t => if t =? t0 then 0 else f t)).
Proof.
  induction n as [|n IH]; intros k f t0 H; cbn [orsum]; [lia|].
  destruct (Z.eqb_spec k t0).
  - subst. rewrite Z.lor_0_l. f_equal.
    clear IH. assert (G : forall m k', t0 < k' -> orsum m k' f = orsum m k' (fun t => if t =? t0 then 0 else f t)).
    { induction m as [|m IHm]; intros k' Hk; cbn; [reflexivity|].
      destruct (Z.eqb_spec k' t0); [lia|]. rewrite IHm by lia. reflexivity. }
    apply G. lia.
  - rewrite (IH (k + 1) f t0) by lia. rewrite !Z.lor_assoc. f_equal. apply Z.lor_comm.
Qed.

Lemma lor_4 : forall a b c d, Z.lor (Z.lor a b) (Z.lor c d) = Z.lor (Z.lor a c) (Z.lor b d).
Proof.
  intros. apply Z.bits_inj'. intros n Hn. rewrite !Z.lor_spec.
  destruct (Z.testbit a n), (Z.testbit b n), (Z.testbit c n), (Z.testbit d n); reflexivity.
Qed.

Lemma orsum_lor : forall n k f g, orsum n k (fun t => Z.lor (f t) (g t)) = Z.lor (orsum n k f) (orsum n k g).
Proof.
  induction n as [|n IH]; intros k f g; cbn [orsum]; [reflexivity|]. rewrite IH. apply lor_4.
Qed.

Lemma orsum_ext : forall n k f g, (forall t, k <= t < k + Z.of_nat n -> f t = g t) -> orsum n k f = orsum n k g.
Proof.
  induction n as [|n IH]; intros k f g H; cbn [orsum]; [reflexivity|].
  rewrite H by lia. f_equal. apply IH. intros; apply H; lia.
Qed.

Lemma orsum_single : forall n k f t0, k <= t0 < k + Z.of_nat n ->
  (forall t, k <= t < k + Z.of_nat n -> t <> t0 -> f t = 0) -> orsum n k f = f t0.
Proof.
  intros n k f t0 H Hz. rewrite (orsum_split n k f t0 H). rewrite orsum_zero; [apply Z.lor_0_r|].
  intros t Ht. destruct (Z.eqb_spec t t0); auto.
Qed.

Lemma orsum2_zero : forall (F : Z -> Z -> Z) h w,
  (forall j t, 0 <= j < h -> 0 <= t < w -> F j t = 0) ->
  orsum (Z.to_nat h) 0 (fun j => orsum (Z.to_nat w) 0 (F j)) = 0.
Proof.
  intros F h w H. apply orsum_zero. intros j Hj. apply orsum_zero. intros t Ht.
  apply H; lia.
Qed.

Lemma orsum2_single : forall (F : Z -> Z -> Z) h w j0 t0, 0 <= j0 < h -> 0 <= t0 < w ->
  (forall j t, 0 <= j < h -> 0 <= t < w -> (j <> j0 \/ t <> t0) -> F j t = 0) ->
  orsum (Z.to_nat h) 0 (fun j => orsum (Z.to_nat w) 0 (F j)) = F j0 t0.
Proof.
  intros F h w j0 t0 Hj Ht H.
  assert (Nh : Z.of_nat (Z.to_nat h) = h) by (apply Z2Nat.id; lia).
  assert (Nw : Z.of_nat (Z.to_nat w) = w) by (apply Z2Nat.id; lia).
  rewrite (orsum_single _ 0 _ j0).
  - apply orsum_single; [lia|]. intros t Htr Ne. apply H; lia.
  - lia.
  - intros j Hjr Ne. apply orsum_zero. intros t Htr. apply H; lia.
Qed.

Lemma rowcol_unique : forall w j j0 a b, 0 <= a < w -> 0 <= b < w -> j * w + a = j0 * w + b -> j = j0 /\ a = b.
Proof.
  intros w j j0 a b Ha Hb E.
  assert (j = j0).
  { destruct (Z.lt_trichotomy j j0) as [L|[e|G]]; auto; exfalso.
    - assert (H1 : (j0 - j) * w = a - b) by lia. assert (H2 : 1 <= j0 - j) by lia.
      assert (1 * w <= (j0 - j) * w) by (apply Z.mul_le_mono_nonneg_r; lia). lia.
    - assert (H1 : (j - j0) * w = b - a) by lia. assert (H2 : 1 <= j - j0) by lia.
      assert (1 * w <= (j - j0) * w) by (apply Z.mul_le_mono_nonneg_r; lia). lia. }
  subst. lia.
Qed.

(* ------------------------------------------------------------------ bytes of the mask *)
Theorem make_mask_bytes : forall width height src m,
  0 <= width -> 0 <= height ->
  make_mask_for_xcursor width height src = Some m ->
  let w := (width + 7) / 8 in
  Z.of_nat (length m) = w * height /\
  forall j i, 0 <= j < height -> 0 <= i < w ->
    zidx m (j * w + i) =
    Some (Z.lor (Z.lor (dil (vcol w height src j i))
                       (if (i <? w - 1) && Z.testbit (vcol w height src j (i + 1)) 7 then 1 else 0))
                (if (0 <? i) && Z.testbit (vcol w height src j (i - 1)) 0 then 128 else 0)).
Proof.
  intros width height src m Hw Hh H w. unfold make_mask_for_xcursor in H. fold w in H.
  assert (W0 : 0 <= w) by (apply Z.div_pos; lia).
  pose proof (iter_or_spec
    (fun j m => iter_n (Z.to_nat w) 0 (fun k m' => mask_step w height src j (w - 1 - k) m') m)
    (fun j q => orsum (Z.to_nat w) 0 (fun t => contrib w height src j (w - 1 - t) q))) as Outer.
  destruct (Outer (fun j m0 m1 Hin =>
     iter_or_spec (fun k m' => mask_step w height src j (w - 1 - k) m')
                  (fun k q => contrib w height src j (w - 1 - k) q)
                  (fun k a b Hs => mask_step_spec w height src j (w - 1 - k) a b Hs)
                  (Z.to_nat w) 0 m0 m1 Hin) _ _ _ _ H) as [L N].
  split; [rewrite L, repeat_length; nia|].
  intros j0 i0 Hj Hi. rewrite N.
  assert (Hq : 0 <= j0 * w + i0 < w * height) by nia.
  replace (zidx (repeat 0 (Z.to_nat (w * height))) (j0 * w + i0)) with (Some 0).
  2:{ symmetry. unfold zidx. destruct (Z.ltb_spec (j0 * w + i0) 0); [lia|].
      apply nth_error_repeat. lia. }
  cbn [option_map]. f_equal. rewrite Z.lor_0_l.
  set (q := j0 * w + i0).
  (* split the contribution into its three guarded parts *)
  unfold contrib.
  rewrite (orsum_ext _ _ _ (fun j => Z.lor (Z.lor
     (orsum (Z.to_nat w) 0 (fun t => if (q =? j * w + (w - 1 - t) - 1) && (0 <? w - 1 - t) && Z.testbit (vcol w height src j (w - 1 - t)) 7 then 1 else 0))
     (orsum (Z.to_nat w) 0 (fun t => if (q =? j * w + (w - 1 - t) + 1) && (w - 1 - t <? w - 1) && Z.testbit (vcol w height src j (w - 1 - t)) 0 then 128 else 0)))
     (orsum (Z.to_nat w) 0 (fun t => if q =? j * w + (w - 1 - t) then dil (vcol w height src j (w - 1 - t)) else 0)))).
  2:{ intros j _. rewrite <- !orsum_lor. reflexivity. }
  rewrite !orsum_lor.
  (* part 3: the byte itself *)
  rewrite (orsum2_single (fun j t => if q =? j * w + (w - 1 - t) then dil (vcol w height src j (w - 1 - t)) else 0)
             height w j0 (w - 1 - i0)) by
    (try lia; intros j t Hjr Htr Ne; destruct (Z.eqb_spec q (j * w + (w - 1 - t))); auto;
     exfalso; subst q; destruct (rowcol_unique w j0 j i0 (w - 1 - t)); try lia).
  replace (w - 1 - (w - 1 - i0)) with i0 by lia. subst q. rewrite Z.eqb_refl.
  (* part 1: bit 7 of the byte to the right *)
  replace (orsum (Z.to_nat height) 0 (fun j => orsum (Z.to_nat w) 0 (fun t =>
            if ((j0 * w + i0 =? j * w + (w - 1 - t) - 1) && (0 <? w - 1 - t) &&
                Z.testbit (vcol w height src j (w - 1 - t)) 7) then 1 else 0)))
    with (if (i0 <? w - 1) && Z.testbit (vcol w height src j0 (i0 + 1)) 7 then 1 else 0).
  2:{ symmetry. destruct (Z.ltb_spec i0 (w - 1)) as [Lt|Ge]; cbn [andb].
      - rewrite (orsum2_single _ height w j0 (w - 1 - (i0 + 1))); try lia.
        + replace (w - 1 - (w - 1 - (i0 + 1))) with (i0 + 1) by lia.
          replace (j0 * w + i0 =? j0 * w + (i0 + 1) - 1) with true by (symmetry; apply Z.eqb_eq; lia).
          replace (0 <? i0 + 1) with true by (symmetry; apply Z.ltb_lt; lia). reflexivity.
        + intros j t Hjr Htr Ne.
          destruct (Z.eqb_spec (j0 * w + i0) (j * w + (w - 1 - t) - 1)); cbn [andb]; auto.
          destruct (Z.ltb_spec 0 (w - 1 - t)); cbn [andb]; auto.
          exfalso. destruct (rowcol_unique w j0 j i0 (w - 1 - t - 1)); try lia.
      - apply orsum2_zero. intros j t Hjr Htr.
        destruct (Z.eqb_spec (j0 * w + i0) (j * w + (w - 1 - t) - 1)); cbn [andb]; auto.
        destruct (Z.ltb_spec 0 (w - 1 - t)); cbn [andb]; auto.
        exfalso. destruct (rowcol_unique w j0 j i0 (w - 1 - t - 1)); try lia. }
  (* part 2: bit 0 of the byte to the left *)
  replace (orsum (Z.to_nat height) 0 (fun j => orsum (Z.to_nat w) 0 (fun t =>
            if ((j0 * w + i0 =? j * w + (w - 1 - t) + 1) && (w - 1 - t <? w - 1) &&
                Z.testbit (vcol w height src j (w - 1 - t)) 0) then 128 else 0)))
    with (if (0 <? i0) && Z.testbit (vcol w height src j0 (i0 - 1)) 0 then 128 else 0).
  2:{ symmetry. destruct (Z.ltb_spec 0 i0) as [Lt|Ge]; cbn [andb].
      - rewrite (orsum2_single _ height w j0 (w - 1 - (i0 - 1))); try lia.
        + replace (w - 1 - (w - 1 - (i0 - 1))) with (i0 - 1) by lia.
          replace (j0 * w + i0 =? j0 * w + (i0 - 1) + 1) with true by (symmetry; apply Z.eqb_eq; lia).
          replace (i0 - 1 <? w - 1) with true by (symmetry; apply Z.ltb_lt; lia). reflexivity.
        + intros j t Hjr Htr Ne.
          destruct (Z.eqb_spec (j0 * w + i0) (j * w + (w - 1 - t) + 1)); cbn [andb]; auto.
          destruct (Z.ltb_spec (w - 1 - t) (w - 1)); cbn [andb]; auto.
          exfalso. destruct (rowcol_unique w j0 j i0 (w - 1 - t + 1)); try lia.
      - apply orsum2_zero. intros j t Hjr Htr.
        destruct (Z.eqb_spec (j0 * w + i0) (j * w + (w - 1 - t) + 1)); cbn [andb]; auto.
        destruct (Z.ltb_spec (w - 1 - t) (w - 1)); cbn [andb]; auto.
        exfalso. destruct (rowcol_unique w j0 j i0 (w - 1 - t + 1)); try lia. }
  apply Z.bits_inj'. intros n Hn. rewrite !Z.lor_spec.
  repeat match goal with |- context [Z.testbit ?a n] => destruct (Z.testbit a n) end; reflexivity.
Qed.

(* ------------------------------------------------------------------ pixels: dilation by one *)
(* bit k of source byte (j,i), false outside the bitmap *)
Definition sbit (w h : Z) (src : list Z) (j i k : Z) : bool :=
  (0 <=? j) && (j <? h) && (0 <=? i) && (i <? w) &&
  match zidx src (j * w + i) with Some v => Z.testbit v k | None => false end.

(* pixel (x,y) of a bitmap with w bytes per row *)
Definition pixel (w h : Z) (bm : list Z) (x y : Z) : bool := sbit w h bm y (x / 8) (7 - x mod 8).

Lemma vcol_bit : forall w h src j i k, 0 <= j < h -> 0 <= i < w ->
  Z.testbit (vcol w h src j i) k = sbit w h src j i k || sbit w h src (j - 1) i k || sbit w h src (j + 1) i k.
Proof.
  intros w h src j i k Hj Hi. unfold vcol, sbit. rewrite !Z.lor_spec.
  replace ((0 <=? j) && (j <? h) && (0 <=? i) && (i <? w)) with true by (symmetry; zb).
  cbn [andb]. f_equal; [f_equal|].
  - destruct (zidx src (j * w + i)); [reflexivity|apply Z.testbit_0_l].
  - destruct (Z.ltb_spec 0 j).
    + replace ((0 <=? j - 1) && (j - 1 <? h) && (0 <=? i) && (i <? w)) with true by (symmetry; zb).
      cbn [andb]. destruct (zidx src ((j - 1) * w + i)); [reflexivity|apply Z.testbit_0_l].
    + replace (0 <=? j - 1) with false by (symmetry; apply Z.leb_gt; lia). cbn [andb]. apply Z.testbit_0_l.
  - destruct (Z.ltb_spec j (h - 1)).
    + replace ((0 <=? j + 1) && (j + 1 <? h) && (0 <=? i) && (i <? w)) with true by (symmetry; zb).
      cbn [andb]. destruct (zidx src ((j + 1) * w + i)); [reflexivity|apply Z.testbit_0_l].
    + replace (j + 1 <? h) with false by (symmetry; apply Z.ltb_ge; lia).
      rewrite andb_false_r. cbn [andb]. apply Z.testbit_0_l.
Qed.

Lemma dil_bit : forall c b, 0 <= b < 8 ->
  Z.testbit (dil c) b = ((0 <? b) && Z.testbit c (b - 1)) || Z.testbit c b || Z.testbit c (b + 1).
Proof.
  intros c b Hb. unfold dil, byte. change 256 with (2 ^ 8).
  rewrite Z.mod_pow2_bits_low by lia. rewrite !Z.lor_spec.
  rewrite Z.shiftl_spec by lia. rewrite Z.shiftr_spec by lia.
  destruct (Z.ltb_spec 0 b); cbn [andb]; [reflexivity|].
  replace (Z.testbit c (b - 1)) with false by (symmetry; apply Z.testbit_neg_r; lia). reflexivity.
Qed.

Lemma flag_bit : forall (g : bool) v b, 0 <= b ->
  Z.testbit (if g then 2 ^ v else 0) b = g && (b =? v).
Proof.
  intros g v b Hb. destruct g; cbn [andb]; [|apply Z.testbit_0_l].
  destruct (Z.eqb_spec b v).
  - subst. apply Z.pow2_bits_true. lia.
  - apply Z.pow2_bits_false. lia.
Qed.

Lemma flag_bit1 : forall (g : bool) b, 0 <= b -> Z.testbit (if g then 1 else 0) b = g && (b =? 0).
Proof. intros g b H. exact (flag_bit g 0 b H). Qed.
Lemma flag_bit128 : forall (g : bool) b, 0 <= b -> Z.testbit (if g then 128 else 0) b = g && (b =? 7).
Proof. intros g b H. exact (flag_bit g 7 b H). Qed.

(* horizontal neighbours of pixel x = 8i + r inside byte i and in the bytes beside it *)
Lemma horiz : forall (s : Z -> Z -> bool) w x,
  0 <= x < 8 * w -> (forall i, s i 8 = false) ->
  let i := x / 8 in let b := 7 - x mod 8 in
  let px x' := (0 <=? x') && (x' <? 8 * w) && s (x' / 8) (7 - x' mod 8) in
  ((0 <? b) && s i (b - 1)) || s i b || s i (b + 1) ||
  ((i <? w - 1) && s (i + 1) 7) && (b =? 0) || ((0 <? i) && s (i - 1) 0) && (b =? 7)
  = px (x - 1) || px x || px (x + 1).
Proof.
  intros s w x Hx S8 i b px. subst px i b. cbv beta.
  assert (R : 0 <= x mod 8 < 8) by (apply Z.mod_pos_bound; lia).
  pose proof (Z.div_mod x 8 ltac:(lia)) as Dx.
  replace ((0 <=? x) && (x <? 8 * w)) with true by (symmetry; zb). cbn [andb].
  assert (Hi : 0 <= x / 8 < w) by (split; [apply Z.div_pos; lia | apply Z.div_lt_upper_bound; lia]).
  destruct (Z.eq_dec (x mod 8) 0) as [R0|R0]; [|destruct (Z.eq_dec (x mod 8) 7) as [R7|R7]].
  - (* leftmost pixel of the byte: b = 7 *)
    rewrite R0. replace (7 - 0) with 7 by lia. cbn [Z.ltb Z.eqb Z.compare andb].
    replace (7 + 1) with 8 by lia. rewrite S8. replace (7 - 1) with 6 by lia.
    assert (E1 : (x + 1) / 8 = x / 8 /\ (x + 1) mod 8 = 1).
    { assert (x + 1 = 8 * (x / 8) + 1) by lia.
      split; [symmetry; apply (Z.div_unique (x + 1) 8 (x / 8) 1); lia | symmetry; apply (Z.mod_unique (x + 1) 8 (x / 8) 1); lia]. }
    destruct E1 as [E1 E2]. rewrite E1, E2. replace (7 - 1) with 6 by lia.
    replace ((0 <=? x + 1) && (x + 1 <? 8 * w)) with true by (symmetry; zb). cbn [andb].
    rewrite andb_false_r, orb_false_r, andb_true_r.
    destruct (Z.ltb_spec 0 (x / 8)) as [Gt|Le].
    + assert (E3 : (x - 1) / 8 = x / 8 - 1 /\ (x - 1) mod 8 = 7).
      { assert (x - 1 = 8 * (x / 8 - 1) + 7) by lia.
        split; [symmetry; apply (Z.div_unique (x - 1) 8 (x / 8 - 1) 7); lia | symmetry; apply (Z.mod_unique (x - 1) 8 (x / 8 - 1) 7); lia]. }
      destruct E3 as [E3 E4]. rewrite E3, E4. replace (7 - 7) with 0 by lia.
      replace ((0 <=? x - 1) && (x - 1 <? 8 * w)) with true by (symmetry; zb). cbn [andb].
      destruct (s (x / 8) 6), (s (x / 8) 7), (s (x / 8 - 1) 0); reflexivity.
    + replace (0 <=? x - 1) with false by (symmetry; apply Z.leb_gt; lia). cbn [andb].
      destruct (s (x / 8) 6), (s (x / 8) 7); reflexivity.
  - (* rightmost pixel of the byte: b = 0 *)
    rewrite R7. replace (7 - 7) with 0 by lia. cbn [Z.ltb Z.eqb Z.compare andb].
    replace (0 + 1) with 1 by lia.
    assert (E1 : (x - 1) / 8 = x / 8 /\ (x - 1) mod 8 = 6).
    { assert (x - 1 = 8 * (x / 8) + 6) by lia.
      split; [symmetry; apply (Z.div_unique (x - 1) 8 (x / 8) 6); lia | symmetry; apply (Z.mod_unique (x - 1) 8 (x / 8) 6); lia]. }
    destruct E1 as [E1 E2]. rewrite E1, E2. replace (7 - 6) with 1 by lia.
    replace ((0 <=? x - 1) && (x - 1 <? 8 * w)) with true by (symmetry; zb). cbn [andb].
    rewrite andb_false_r, orb_false_r, andb_true_r.
    destruct (Z.ltb_spec (x / 8) (w - 1)) as [Lt|Ge].
    + assert (E3 : (x + 1) / 8 = x / 8 + 1 /\ (x + 1) mod 8 = 0).
      { assert (x + 1 = 8 * (x / 8 + 1) + 0) by lia.
        split; [symmetry; apply (Z.div_unique (x + 1) 8 (x / 8 + 1) 0); lia | symmetry; apply (Z.mod_unique (x + 1) 8 (x / 8 + 1) 0); lia]. }
      destruct E3 as [E3 E4]. rewrite E3, E4. replace (7 - 0) with 7 by lia.
      replace ((0 <=? x + 1) && (x + 1 <? 8 * w)) with true by (symmetry; zb). cbn [andb].
      destruct (s (x / 8) 0), (s (x / 8) 1), (s (x / 8 + 1) 7); reflexivity.
    + replace (x + 1 <? 8 * w) with false by (symmetry; apply Z.ltb_ge; lia).
      rewrite andb_false_r. cbn [andb].
      destruct (s (x / 8) 0), (s (x / 8) 1); reflexivity.
  - (* inside the byte *)
    assert (E1 : (x - 1) / 8 = x / 8 /\ (x - 1) mod 8 = x mod 8 - 1).
    { assert (x - 1 = 8 * (x / 8) + (x mod 8 - 1)) by lia.
      split; [symmetry; apply (Z.div_unique (x - 1) 8 (x / 8) (x mod 8 - 1)); lia
             | symmetry; apply (Z.mod_unique (x - 1) 8 (x / 8) (x mod 8 - 1)); lia]. }
    assert (E3 : (x + 1) / 8 = x / 8 /\ (x + 1) mod 8 = x mod 8 + 1).
    { assert (x + 1 = 8 * (x / 8) + (x mod 8 + 1)) by lia.
      split; [symmetry; apply (Z.div_unique (x + 1) 8 (x / 8) (x mod 8 + 1)); lia
             | symmetry; apply (Z.mod_unique (x + 1) 8 (x / 8) (x mod 8 + 1)); lia]. }
    destruct E1 as [E1 E2]. destruct E3 as [E3 E4]. rewrite E1, E2, E3, E4.
    replace ((0 <=? x - 1) && (x - 1 <? 8 * w)) with true by (symmetry; zb).
    replace ((0 <=? x + 1) && (x + 1 <? 8 * w)) with true by (symmetry; zb). cbn [andb].
    replace (0 <? 7 - x mod 8) with true by (symmetry; apply Z.ltb_lt; lia).
    replace (7 - x mod 8 =? 0) with false by (symmetry; apply Z.eqb_neq; lia).
    replace (7 - x mod 8 =? 7) with false by (symmetry; apply Z.eqb_neq; lia).
    rewrite !andb_false_r, !orb_false_r. cbn [andb].
    replace (7 - (x mod 8 - 1)) with (7 - x mod 8 + 1) by lia.
    replace (7 - (x mod 8 + 1)) with (7 - x mod 8 - 1) by lia.
    destruct (s (x / 8) (7 - x mod 8 - 1)), (s (x / 8) (7 - x mod 8)), (s (x / 8) (7 - x mod 8 + 1)); reflexivity.
Qed.

(* C15_mask_for_xcursor: mask = source dilated by one pixel *)
Theorem mask_is_dilation : forall width height src m,
  0 <= width -> 0 <= height ->
  Forall (fun v => 0 <= v < 256) src ->
  make_mask_for_xcursor width height src = Some m ->
  let w := (width + 7) / 8 in
  forall x y, 0 <= x < 8 * w -> 0 <= y < height ->
    pixel w height m x y =
    (pixel w height src (x - 1) y || pixel w height src (x - 1) (y - 1) || pixel w height src (x - 1) (y + 1)) ||
    (pixel w height src x y || pixel w height src x (y - 1) || pixel w height src x (y + 1)) ||
    (pixel w height src (x + 1) y || pixel w height src (x + 1) (y - 1) || pixel w height src (x + 1) (y + 1)).
Proof.
  intros width height src m Hw Hh Hb H w x y Hx Hy.
  destruct (make_mask_bytes _ _ _ _ Hw Hh H) as [L N]. fold w in L, N.
  assert (R : 0 <= x mod 8 < 8) by (apply Z.mod_pos_bound; lia).
  assert (Hi : 0 <= x / 8 < w) by (split; [apply Z.div_pos; lia | apply Z.div_lt_upper_bound; lia]).
  unfold pixel at 1. unfold sbit.
  replace ((0 <=? y) && (y <? height) && (0 <=? x / 8) && (x / 8 <? w)) with true by (symmetry; zb).
  cbn [andb]. rewrite (N y (x / 8) Hy Hi). rewrite !Z.lor_spec.
  rewrite dil_bit by lia.
  rewrite flag_bit1, flag_bit128 by lia.
  set (s := fun i k => Z.testbit (vcol w height src y i) k).
  assert (S8 : forall i, s i 8 = false).
  { intros i. subst s. cbv beta. unfold vcol. rewrite !Z.lor_spec.
    assert (G : forall k, Z.testbit (match zidx src k with Some v => v | None => 0 end) 8 = false).
    { intros k. destruct (zidx src k) as [v|] eqn:E; [|apply Z.testbit_0_l].
      rewrite Forall_forall in Hb. unfold zidx in E. destruct (k <? 0); [discriminate|].
      apply nth_error_In in E. specialize (Hb _ E).
      rewrite <- (Z.mod_small v (2 ^ 8)) by (cbn; lia). apply Z.mod_pow2_bits_high. lia. }
    rewrite !G. destruct (0 <? y); destruct (y <? height - 1); rewrite ?G, ?Z.testbit_0_l; reflexivity. }
  pose proof (horiz s w x Hx S8) as Hz. cbv zeta in Hz. subst s. cbv beta in Hz.
  replace (Z.testbit (vcol w height src y (x / 8 + 1)) 7 && (x / 8 <? w - 1)) with
          ((x / 8 <? w - 1) && Z.testbit (vcol w height src y (x / 8 + 1)) 7) in * by apply andb_comm.
  etransitivity; [|etransitivity; [exact Hz|]].
  - rewrite ?andb_assoc. reflexivity.
  - (* each column: vertical neighbours *)
    assert (Col : forall x', (0 <=? x') && (x' <? 8 * w) && Z.testbit (vcol w height src y (x' / 8)) (7 - x' mod 8) =
                   pixel w height src x' y || pixel w height src x' (y - 1) || pixel w height src x' (y + 1)).
    { intros x'. unfold pixel.
      destruct ((0 <=? x') && (x' <? 8 * w)) eqn:G; cbn [andb].
      - apply andb_prop in G. destruct G as [G1 G2]. apply Z.leb_le in G1. apply Z.ltb_lt in G2.
        apply vcol_bit; [lia|]. split; [apply Z.div_pos; lia | apply Z.div_lt_upper_bound; lia].
      - assert (Q : (0 <=? x' / 8) && (x' / 8 <? w) = false).
        { apply andb_false_iff. apply andb_false_iff in G. destruct G as [G|G].
          - apply Z.leb_gt in G. left. apply Z.leb_gt. apply Z.div_lt_upper_bound; lia.
          - apply Z.ltb_ge in G. right. apply Z.ltb_ge. apply Z.div_le_lower_bound; lia. }
        assert (Z0 : forall j k, sbit w height src j (x' / 8) k = false).
        { intros j k. unfold sbit. rewrite <- !andb_assoc. rewrite (andb_assoc (0 <=? x' / 8)). rewrite Q.
          rewrite !andb_false_r. reflexivity. }
        fold (sbit w height src y (x' / 8) (7 - x' mod 8)). fold (sbit w height src (y - 1) (x' / 8) (7 - x' mod 8)).
        fold (sbit w height src (y + 1) (x' / 8) (7 - x' mod 8)).
        rewrite !Z0. reflexivity. }
    rewrite !Col. reflexivity.
Qed.

Example mask_is_dilation_nonvacuous :
  exists m, make_mask_for_xcursor 9 2 [1; 0; 0; 0] = Some m /\
            pixel 2 2 m 8 1 = true /\ pixel 2 2 [1; 0; 0; 0] 8 1 = false.
Proof. eexists. split; [vm_compute; reflexivity|]. split; vm_compute; reflexivity. Qed.
