(* rfbSendCursorShape (mirror: CursorSession.shape_msg): the pseudo-rectangle carries the cursor's
   exact hot-spot and size in its header and exactly the payload RFB prescribes; a cursor without
   pixels has no payload -- refuted for the code as it is (F15b), proved for the repair. *)
From LV Require Import Cursor.CursorDefs Cursor.CursorProofs Cursor.CursorSession Gen.Consts_C15.
Local Open Scope Z_scope.

Definition get16 (l : list Z) (k : nat) : Z := nth k l 0 * 256 + nth (S k) l 0.

Lemma byte_small : forall v, 0 <= v < 256 -> byte v = v.
Proof. intros; unfold byte; apply Z.mod_small; lia. Qed.

Lemma be16_get : forall v rest, 0 <= v < 65536 -> get16 (be16 v ++ rest) 0 = v.
Proof.
  intros v rest H. unfold get16, be16. cbn [app nth].
  rewrite byte_small by (split; [apply Z.div_pos; lia | apply Z.div_lt_upper_bound; lia]).
  unfold byte. pose proof (Z.div_mod v 256 ltac:(lia)). lia.
Qed.

Lemma header_fields : forall x y w h enc rest,
  0 <= x < 65536 -> 0 <= y < 65536 -> 0 <= w < 65536 -> 0 <= h < 65536 ->
  let b := rect_header x y w h enc ++ rest in
  get16 b 0 = x /\ get16 b 2 = y /\ get16 b 4 = w /\ get16 b 6 = h /\
  length (rect_header x y w h enc) = 12%nat.
Proof.
  intros x y w h enc rest Hx Hy Hw Hh b. subst b. unfold rect_header.
  repeat split.
  - rewrite <- !app_assoc. apply be16_get; auto.
  - rewrite <- !app_assoc. change (get16 (be16 x ++ be16 y ++ ?r) 2) with (get16 (be16 y ++ r) 0). apply be16_get; auto.
  - rewrite <- !app_assoc.
    change (get16 (be16 x ++ be16 y ++ be16 w ++ ?r) 4) with (get16 (be16 w ++ r) 0). apply be16_get; auto.
  - rewrite <- !app_assoc.
    change (get16 (be16 x ++ be16 y ++ be16 w ++ be16 h ++ ?r) 6) with (get16 (be16 h ++ r) 0). apply be16_get; auto.
Qed.

Lemma le_bytes_length : forall n v, length (le_bytes n v) = n.
Proof. induction n; intros; cbn; auto. Qed.

Lemma flat_map_le_length : forall n l, length (flat_map (le_bytes n) l) = (n * length l)%nat.
Proof.
  intros n l. induction l as [|a l IH]; cbn; [lia|]. rewrite app_length, le_bytes_length, IH. lia.
Qed.

Lemma take_exact_spec {A} : forall n (l l' : list A), 0 <= n -> take_exact n l = Some l' ->
  l' = firstn (Z.to_nat n) l /\ length l' = Z.to_nat n.
Proof.
  intros n l l' Hn H. unfold take_exact in H. destruct (Z.ltb_spec (Z.of_nat (length l)) n); [discriminate|].
  inversion H; subst. split; [reflexivity|]. apply firstn_length_le. lia.
Qed.

(* RFB: bytes that follow the 12-byte header of a cursor pseudo-rectangle of w x h pixels *)
Definition rfb_cursor_payload_len (rich : bool) (bppv w h : Z) : Z :=
  if w * h =? 0 then 0
  else (if rich then w * h * bppv else 6 + ((w + 7) / 8) * h) + ((w + 7) / 8) * h.

Definition visible (c : cursor) : Prop :=
  0 < cw c /\ 0 < ch c /\ ~ (cw c = 1 /\ ch c = 1 /\ zidx (cmask c) 0 = Some 0).

Theorem shape_message_visible : forall v_empty rich fmt c oc' bytes,
  0 <= cxhot c < 65536 -> 0 <= cyhot c < 65536 -> cw c < 65536 -> ch c < 65536 -> 0 <= bpp fmt ->
  visible c ->
  shape_msg v_empty rich fmt (Some c) = Some (oc', bytes) ->
  exists c', oc' = Some c' /\ cw c' = cw c /\ ch c' = ch c /\ cmask c' = cmask c /\
    (rich = true -> crich c <> None -> crich c' = crich c) /\
    (rich = false -> csource c <> None -> csource c' = csource c /\ cfore c' = cfore c /\ cback c' = cback c) /\
    get16 bytes 0 = cxhot c /\ get16 bytes 2 = cyhot c /\ get16 bytes 4 = cw c /\ get16 bytes 6 = ch c /\
    firstn 12 bytes = rect_header (cxhot c) (cyhot c) (cw c) (ch c) (if rich then enc_richcursor else enc_xcursor) /\
    Z.of_nat (length bytes) = 12 + rfb_cursor_payload_len rich (bpp fmt) (cw c) (ch c) /\
    skipn 12 bytes =
      (if rich
       then flat_map (le_bytes (Z.to_nat (bpp fmt))) (firstn (Z.to_nat (cw c * ch c)) (opt_list (crich c')))
       else (let '(fr, fg, fb_) := cfore c' in let '(br, bg, bb) := cback c' in
             [byte (fr / 256); byte (fg / 256); byte (fb_ / 256); byte (br / 256); byte (bg / 256); byte (bb / 256)])
            ++ firstn (Z.to_nat (w8 c * ch c)) (opt_list (csource c')))
      ++ firstn (Z.to_nat (w8 c * ch c)) (cmask c).
Proof.
  intros v_empty rich fmt c oc' bytes Hx Hy Hw Hh Hb (Vw & Vh & Vm) H. unfold shape_msg in H.
  match type of H with (match ?A with Some _ => _ | None => None end) = _ =>
    destruct A as [oc1|] eqn:Conv; [|discriminate] end.
  unfold shape_conv in Conv.
  (* the cursor after the on-demand conversion *)
  assert (C1 : exists c1, oc1 = Some c1 /\ cw c1 = cw c /\ ch c1 = ch c /\ cxhot c1 = cxhot c /\ cyhot c1 = cyhot c /\
               cmask c1 = cmask c /\
               (rich = true -> crich c <> None -> crich c1 = crich c) /\
               (rich = false -> csource c <> None -> csource c1 = csource c /\ cfore c1 = cfore c /\ cback c1 = cback c)).
  { destruct rich.
    - destruct (crich c) as [r0|] eqn:Er.
      + inversion Conv; subst. exists c. repeat split; auto; try (intros; discriminate); try (intros; congruence).
      + destruct (make_rich_from_x fmt c) as [r|]; [|discriminate]. inversion Conv; subst.
        exists (set_rich c r). cbn. repeat split; auto; try (intros; discriminate); try (intros; congruence).
    - destruct (csource c) as [s0|] eqn:Es.
      + inversion Conv; subst. exists c. repeat split; auto; try (intros; discriminate); try (intros; congruence).
      + destruct (make_x_from_rich fmt c) as [c2|] eqn:Em; [|discriminate]. inversion Conv; subst.
        exists c2. unfold make_x_from_rich in Em. destruct (cback c) as [[br bg] bb] eqn:Eb.
        match type of Em with (match ?A with Some _ => _ | None => None end) = _ => destruct A; [|discriminate] end.
        inversion Em; subst; cbn. repeat split; auto; try (intros; discriminate); try (intros; congruence). }
  destruct C1 as (c1 & E1 & G1 & G2 & G3 & G4 & G5 & G6 & G7). subst oc1.
  assert (NotEmpty : (if v_empty && ((cw c1 =? 0) || (ch c1 =? 0)) then Some true
                      else if (cw c1 =? 1) && (ch c1 =? 1)
                           then match zidx (cmask c1) 0 with Some m0 => Some (m0 =? 0) | None => None end
                           else Some false) = Some false \/
                     (if v_empty && ((cw c1 =? 0) || (ch c1 =? 0)) then Some true
                      else if (cw c1 =? 1) && (ch c1 =? 1)
                           then match zidx (cmask c1) 0 with Some m0 => Some (m0 =? 0) | None => None end
                           else Some false) = None).
  { rewrite G1, G2, G5.
    replace (cw c =? 0) with false by (symmetry; apply Z.eqb_neq; lia).
    replace (ch c =? 0) with false by (symmetry; apply Z.eqb_neq; lia). rewrite andb_false_r.
    destruct ((cw c =? 1) && (ch c =? 1)) eqn:One; [|auto].
    apply andb_prop in One. destruct One as [O1 O2]. apply Z.eqb_eq in O1. apply Z.eqb_eq in O2.
    destruct (zidx (cmask c) 0) as [m0|] eqn:Em; [|auto]. left. f_equal.
    apply Z.eqb_neq. intros Z0. subst. apply Vm. auto. }
  destruct NotEmpty as [NE|NE]; rewrite NE in H; [|discriminate].
  match type of H with (if ?B then None else _) = _ => destruct B; [discriminate|] end.
  assert (W8 : 0 <= w8 c1 * ch c1).
  { unfold w8. rewrite G1, G2. apply Z.mul_nonneg_nonneg; [apply Z.div_pos|]; lia. }
  destruct (take_exact (w8 c1 * ch c1) (cmask c1)) as [mb|] eqn:Tm; [|discriminate].
  destruct (take_exact_spec _ _ _ W8 Tm) as [Mb Lmb].
  assert (Ew8 : w8 c1 = w8 c) by (unfold w8; congruence).
  exists c1. split; [destruct rich|]. 
  - destruct (take_exact _ (opt_list (crich c1))); [|discriminate]. inversion H; subst; reflexivity.
  - destruct (take_exact _ (opt_list (csource c1))); [|discriminate].
    destruct (cfore c1) as [[? ?] ?]. destruct (cback c1) as [[? ?] ?]. inversion H; subst; reflexivity.
  - split; [exact G1|]. split; [exact G2|]. split; [exact G5|]. split; [exact G6|]. split; [exact G7|].
    assert (Hdr : forall rest, bytes = rect_header (cxhot c1) (cyhot c1) (cw c1) (ch c1) (if rich then enc_richcursor else enc_xcursor) ++ rest ->
              get16 bytes 0 = cxhot c /\ get16 bytes 2 = cyhot c /\ get16 bytes 4 = cw c /\ get16 bytes 6 = ch c /\
              firstn 12 bytes = rect_header (cxhot c) (cyhot c) (cw c) (ch c) (if rich then enc_richcursor else enc_xcursor) /\
              skipn 12 bytes = rest /\ Z.of_nat (length bytes) = 12 + Z.of_nat (length rest)).
    { intros rest Eb. rewrite G1, G2, G3, G4 in Eb.
      destruct (header_fields (cxhot c) (cyhot c) (cw c) (ch c) (if rich then enc_richcursor else enc_xcursor) rest
                  Hx Hy ltac:(lia) ltac:(lia)) as (A & B & C & D & L).
      subst bytes. split; [exact A|]. split; [exact B|]. split; [exact C|]. split; [exact D|].
      split; [|split].
      - rewrite firstn_app, L, Nat.sub_diag, firstn_O, app_nil_r.
        apply firstn_all2. rewrite L. lia.
      - rewrite skipn_app, L, Nat.sub_diag, skipn_O.
        rewrite skipn_all2 by (rewrite L; lia). reflexivity.
      - rewrite app_length, L. lia. }
    unfold rfb_cursor_payload_len. assert (Pos : 0 < cw c * ch c) by (apply Z.mul_pos_pos; lia).
    replace (cw c * ch c =? 0) with false by (symmetry; apply Z.eqb_neq; lia).
    destruct rich.
    + destruct (take_exact (cw c1 * ch c1) (opt_list (crich c1))) as [px|] eqn:Tp; [|discriminate].
      assert (Pos1 : 0 <= cw c1 * ch c1) by (rewrite G1, G2; lia).
      destruct (take_exact_spec _ _ _ Pos1 Tp) as [Px Lpx].
      inversion H; subst oc' bytes.
      destruct (Hdr _ eq_refl) as (A & B & C & D & F & S & L).
      repeat split; auto.
      * rewrite L, app_length, flat_map_le_length, Lpx, Lmb. rewrite G1, G2, Ew8.
        rewrite Ew8, G2 in W8.
        rewrite Nat2Z.inj_add, Nat2Z.inj_mul, !Z2Nat.id by lia. unfold w8. lia.
      * rewrite S. rewrite Px, Mb, G1, G2, G5, Ew8. reflexivity.
    + destruct (take_exact (w8 c1 * ch c1) (opt_list (csource c1))) as [sb|] eqn:Ts; [|discriminate].
      destruct (take_exact_spec _ _ _ W8 Ts) as [Sb Lsb].
      destruct (cfore c1) as [[fr fg] fb_] eqn:Ef. destruct (cback c1) as [[br bg] bb] eqn:Ebk.
      inversion H; subst oc' bytes.
      destruct (Hdr _ eq_refl) as (A & B & C & D & F & S & L).
      repeat split; auto.
      * rewrite L. cbn [app length]. rewrite !app_length, Lsb, Lmb. rewrite G2, Ew8.
        unfold w8. rewrite !Nat2Z.inj_succ, Nat2Z.inj_add, !Z2Nat.id by (rewrite <- G2; unfold w8 in W8; rewrite G1 in W8; exact W8). lia.
      * rewrite S. rewrite Sb, Mb, G2, G5, Ew8. rewrite <- !app_assoc. reflexivity.
Qed.

(* ------------------------------------------------------------------ cursors without pixels *)
Lemma shape_conv_geom : forall rich fmt c oc1, shape_conv rich fmt (Some c) = Some oc1 ->
  exists c1, oc1 = Some c1 /\ cw c1 = cw c /\ ch c1 = ch c.
Proof.
  intros rich fmt c oc1 H. unfold shape_conv in H. destruct rich.
  - destruct (crich c); [inversion H; subst; eauto|].
    destruct (make_rich_from_x fmt c); [|discriminate]. inversion H; subst. eexists; cbn; eauto.
  - destruct (csource c); [inversion H; subst; eauto|].
    destruct (make_x_from_rich fmt c) as [c2|] eqn:Em; [|discriminate]. inversion H; subst.
    unfold make_x_from_rich in Em. destruct (cback c) as [[br bg] bb].
    match type of Em with (match ?A with Some _ => _ | None => None end) = _ => destruct A; [|discriminate] end.
    inversion Em; subst. eexists; cbn; eauto.
Qed.

Lemma shape_message_none : forall v_empty rich fmt,
  shape_msg v_empty rich fmt None = Some (None, rect_header 0 0 0 0 (if rich then enc_richcursor else enc_xcursor)).
Proof. reflexivity. Qed.

(* with repair fix_C15_2: a cursor of width or height 0 is announced as "no cursor", 12 bytes *)
Theorem shape_message_empty_fixed : forall rich fmt c oc' bytes,
  cw c = 0 \/ ch c = 0 ->
  shape_msg true rich fmt (Some c) = Some (oc', bytes) ->
  bytes = rect_header 0 0 0 0 (if rich then enc_richcursor else enc_xcursor) /\
  Z.of_nat (length bytes) = 12 + rfb_cursor_payload_len rich (bpp fmt) (cw c) (ch c).
Proof.
  intros rich fmt c oc' bytes E H. unfold shape_msg in H.
  destruct (shape_conv rich fmt (Some c)) as [oc1|] eqn:Conv; [|discriminate].
  destruct (shape_conv_geom _ _ _ _ Conv) as (c1 & E1 & G1 & G2). subst oc1.
  replace (true && ((cw c1 =? 0) || (ch c1 =? 0))) with true in H.
  2:{ symmetry. rewrite G1, G2. cbn [andb]. destruct E as [E|E]; rewrite E; cbn; auto. apply orb_true_r. }
  inversion H; subst. split; [reflexivity|].
  unfold rfb_cursor_payload_len. replace (cw c * ch c =? 0) with true; [destruct rich; reflexivity|].
  symmetry. apply Z.eqb_eq. destruct E as [E|E]; rewrite E; lia.
Qed.

(* F15b: the code as it is sends six colour bytes after an XCursor header with w*h = 0 *)
Lemma shape_message_empty_refuted :
  exists fmt c oc' bytes,
    cw c = 0 /\ shape_msg false false fmt (Some c) = Some (oc', bytes) /\
    Z.of_nat (length bytes) <> 12 + rfb_cursor_payload_len false (bpp fmt) (cw c) (ch c).
Proof.
  exists fmt32, (mkcur 0 2 0 1 None [] None None false (65535, 0, 0) (0, 0, 65535) false).
  eexists. eexists. split; [reflexivity|]. split; [vm_compute; reflexivity|]. vm_compute. discriminate.
Qed.

Example shape_message_visible_nonvacuous :
  visible wit_cur /\ exists oc' bytes, shape_msg false true fmt32 (Some wit_cur) = Some (oc', bytes) /\
                                       length bytes = (12 + 16 + 2)%nat.
Proof.
  split.
  - unfold visible; cbn. repeat split; try lia.
  - do 2 eexists. split; vm_compute; reflexivity.
Qed.
