(* C15 - rounds of the event loop in which a client's write FAILS (audit item 4): the client whose write
   fails is closed (alive = false); every client that is still open afterwards keeps its invariant.
   AInv = "if the connection is open, Inv".  No premise about failnext any more. *)
Require Import ZArith List Bool Lia.
From LV Require Import Cursor.CursorDefs Cursor.CursorProofs Cursor.CursorSession Cursor.CursorSessionProofs.
Import ListNotations.
Local Open Scope Z_scope.

Definition AInv (fixed : bool) (fmt : pixfmt) (s : screen) (cl : client) : Prop :=
  alive cl = true -> Inv fixed fmt s cl.

Lemma ainv_transfer : forall fixed fmt s s1 cl,
  AInv fixed fmt s cl -> sfb s1 = sfb s -> ocursor_equiv fmt (scur s) (scur s1) -> AInv fixed fmt s1 cl.
Proof. intros fixed fmt s s1 cl A Ef Ec Al. eapply inv_transfer; eauto. Qed.

(* one update: whether the write succeeds or not, an open client afterwards satisfies Inv *)
Theorem inv_send_update_alive : forall fixed v_empty fmt s cl s' cl' o,
  wf_fb (sfb s) -> wf_ocursor (scur s) ->
  Inv fixed fmt s cl -> send_update fixed v_empty fmt s cl = Some (s', cl', o) ->
  AInv fixed fmt s' cl'.
Proof.
  intros fixed v_empty fmt s cl s' cl' o Wf Wc I H Al.
  destruct (failnext cl) eqn:Fn; [|eapply inv_send_update; eauto].
  unfold send_update in H. rewrite Fn in H. cbn [negb] in H.
  destruct (rgn_is_empty _ _ _ && _ && _ && _).
  - inversion H; subst. exact I.         (* nothing was written: screen and client unchanged *)
  - exfalso.
    destruct (if shape cl then Some (sfb s, subuf s, scur s) else _) as [[[a b] c]|]; [|discriminate].
    destruct (if shape cl && changed cl then _ else _) as [[d e]|]; [|discriminate].
    destruct (if shape cl then Some a else _) as [g|]; [|discriminate].
    inversion H; subst. cbn [alive] in Al. discriminate Al.
Qed.

(* rfbUpdateClient for every client, any write may fail *)
Theorem inv_pump_alive : forall fixed v_empty fmt cls s s' res,
  wf_fb (sfb s) -> wf_ocursor (scur s) ->
  Forall (AInv fixed fmt s) cls ->
  pump fixed v_empty fmt s cls = Some (s', res) ->
  sfb s' = sfb s /\ wf_ocursor (scur s') /\ ocursor_equiv fmt (scur s) (scur s') /\
  Forall (AInv fixed fmt s') (map fst res).
Proof.
  intros fixed v_empty fmt cls. induction cls as [|cl t IH]; intros s s' res Wf Wc Fi H.
  - cbn in H. inversion H; subst. cbn. auto using ocursor_equiv_refl.
  - cbn [pump] in H. inversion Fi as [|? ? I Fi']; subst.
    match type of H with (match ?A with Some _ => _ | None => None end) = _ =>
      destruct A as [[[s1 cl1] o]|] eqn:R; [|discriminate] end.
    destruct (pump fixed v_empty fmt s1 t) as [[s2 rest]|] eqn:P; [|discriminate].
    inversion H; subst; clear H.
    assert (Step : sfb s1 = sfb s /\ wf_ocursor (scur s1) /\ ocursor_equiv fmt (scur s) (scur s1) /\
                   AInv fixed fmt s1 cl1).
    { destruct (alive cl) eqn:Al; cbn [andb] in R.
      - destruct (fb_update_pending s cl && negb (rgn_is_empty (fw (sfb s)) (fh (sfb s)) (req cl))).
        + destruct (send_update_cursor _ _ _ _ _ _ _ _ Wf Wc R) as [W1 E1].
          split; [eapply send_update_restores; eauto|]. split; [exact W1|]. split; [exact E1|].
          eapply inv_send_update_alive; eauto.
        + inversion R; subst. split; [reflexivity|]. split; [exact Wc|]. split; [apply ocursor_equiv_refl|exact I].
      - inversion R; subst. split; [reflexivity|]. split; [exact Wc|]. split; [apply ocursor_equiv_refl|exact I]. }
    destruct Step as (Ef & W1 & E1 & I1).
    assert (Wf1 : wf_fb (sfb s1)) by (rewrite Ef; exact Wf).
    assert (Fi1 : Forall (AInv fixed fmt s1) t).
    { rewrite Forall_forall in *. intros c Hc. eapply ainv_transfer; eauto. }
    destruct (IH _ _ _ Wf1 W1 Fi1 P) as (Ef2 & W2 & E2 & I2).
    split; [congruence|]. split; [exact W2|]. split; [eapply ocursor_equiv_trans; eauto|].
    cbn [map fst]. constructor; auto. eapply ainv_transfer; eauto.
Qed.

(* ------------------------------------------------------------------ rfbSetCursor, client by client *)
Definition sc1 (s : screen) (nc : option cursor) (cl : client) : client :=
  let cl1 := if shape cl then cl else redraw s (scur s) cl in
  let s' := mkscr (sfb s) nc (sx s) (sy s) (subuf s) in
  let cl' := mkcl (shape cl1) (userich cl1) (posupd cl1) true (moved cl1) (clx cl1) (cly cl1)
                  (modif cl1) (req cl1) (pic cl1) (alive cl1) (failnext cl1) in
  if shape cl' then cl' else redraw s' nc cl'.

Lemma set_cursor_map : forall s cls nc, snd (set_cursor s cls nc) = map (sc1 s nc) cls.
Proof. intros. cbn [set_cursor snd]. rewrite map_map. reflexivity. Qed.

Lemma sc1_alive : forall s nc cl, alive (sc1 s nc cl) = alive cl.
Proof.
  intros. unfold sc1. destruct (shape cl) eqn:S0; unfold redraw, set_modif; cbn; rewrite ?S0; cbn; rewrite ?S0; reflexivity.
Qed.

Lemma ainv_sc1 : forall fixed fmt s nc cl, wf_fb (sfb s) ->
  AInv fixed fmt s cl -> AInv fixed fmt (fst (set_cursor s [cl] nc)) (sc1 s nc cl).
Proof.
  intros fixed fmt s nc cl Wf A Al. rewrite sc1_alive in Al.
  pose proof (inv_set_cursor fixed fmt s [cl] nc Wf (Forall_cons _ (A Al) (Forall_nil _))) as F.
  rewrite set_cursor_map in F. cbn [map] in F. inversion F; subst. assumption.
Qed.

Lemma ainv_set_cursor : forall fixed fmt s cls nc, wf_fb (sfb s) ->
  Forall (AInv fixed fmt s) cls ->
  Forall (AInv fixed fmt (fst (set_cursor s cls nc))) (snd (set_cursor s cls nc)).
Proof.
  intros fixed fmt s cls nc Wf F. rewrite set_cursor_map. apply Forall_forall. intros c Hin.
  apply in_map_iff in Hin. destruct Hin as (c0 & E & Hin). subst c. rewrite Forall_forall in F.
  exact (ainv_sc1 fixed fmt s nc c0 Wf (F _ Hin)).
Qed.

(* ------------------------------------------------------------------ a round with the displayHook *)
Theorem ainv_update_one : forall fixed v_empty fmt hook s cls k s' cls' o fired,
  wf_fb (sfb s) -> wf_ocursor (scur s) ->
  (forall hk nc, hook = Some (hk, nc) -> wf_ocursor nc) ->
  Forall (AInv fixed fmt s) cls ->
  update_one fixed v_empty fmt hook s cls k = Some (s', cls', o, fired) ->
  sfb s' = sfb s /\ wf_ocursor (scur s') /\ Forall (AInv fixed fmt s') cls'.
Proof.
  intros fixed v_empty fmt hook s cls k s' cls' o fired Wf Wc Wh Fi H. unfold update_one in H.
  destruct (nth_error cls k) as [cl|] eqn:Ek; [|inversion H; subst; auto].
  destruct (alive cl) eqn:Al; cbn [andb] in H; [|inversion H; subst; auto].
  destruct (fb_update_pending s cl && negb (rgn_is_empty (fw (sfb s)) (fh (sfb s)) (req cl)));
    [|inversion H; subst; auto].
  assert (Hook : exists s1 cls1 f1,
    (match hook with
     | Some (hk, nc) => if Nat.eqb hk k then (let '(a, b) := set_cursor s cls nc in (a, b, true)) else (s, cls, false)
     | None => (s, cls, false)
     end) = (s1, cls1, f1) /\
    sfb s1 = sfb s /\ wf_ocursor (scur s1) /\ Forall (AInv fixed fmt s1) cls1 /\
    exists cl1, nth_error cls1 k = Some cl1 /\ alive cl1 = true).
  { destruct hook as [[hk nc]|]; [|do 3 eexists; split; [reflexivity|eauto 6]].
    destruct (Nat.eqb hk k); [|do 3 eexists; split; [reflexivity|eauto 6]].
    destruct (set_cursor s cls nc) as [a b] eqn:Es. do 3 eexists. split; [reflexivity|].
    pose proof (set_cursor_screen s cls nc) as [A1 A2]. rewrite Es in A1, A2. cbn [fst] in A1, A2.
    split; [exact A1|]. split; [rewrite A2; eapply Wh; reflexivity|].
    pose proof (ainv_set_cursor fixed fmt s cls nc Wf Fi) as I1. rewrite Es in I1. split; [exact I1|].
    pose proof (set_cursor_map s cls nc) as M. rewrite Es in M. cbn [snd] in M. subst b.
    exists (sc1 s nc cl). split; [apply map_nth_error; exact Ek|]. rewrite sc1_alive. exact Al. }
  destruct Hook as (s1 & cls1 & f1 & Eh & Ef1 & Wc1 & Fi1 & cl1' & Ek1' & Al1). rewrite Eh in H.
  rewrite Ek1' in H.
  destruct (send_update fixed v_empty fmt s1 cl1') as [[[s2 cl2] o2]|] eqn:Su; [|discriminate].
  destruct (set_nth cls1 k cl2) as [cls2|] eqn:Sn; [|discriminate]. inversion H; subst; clear H.
  assert (Wf1 : wf_fb (sfb s1)) by (rewrite Ef1; exact Wf).
  pose proof (send_update_restores _ _ _ _ _ _ _ _ Wf1 Wc1 Su) as Ef2.
  destruct (send_update_cursor _ _ _ _ _ _ _ _ Wf1 Wc1 Su) as [Wc2 Eq2].
  assert (In1 : In cl1' cls1) by (eapply nth_error_In; eauto).
  assert (I1 : Inv fixed fmt s1 cl1') by (rewrite Forall_forall in Fi1; exact (Fi1 _ In1 Al1)).
  pose proof (inv_send_update_alive _ _ _ _ _ _ _ _ Wf1 Wc1 I1 Su) as I2.
  split; [congruence|]. split; [exact Wc2|].
  eapply Forall_set_nth; [|exact I2|exact Sn].
  rewrite Forall_forall in *. intros c Hc. eapply ainv_transfer; eauto.
Qed.

Theorem ainv_pump_h : forall fixed v_empty fmt k hook s cls outs s' cls' outs' fired,
  wf_fb (sfb s) -> wf_ocursor (scur s) ->
  (forall hk nc, hook = Some (hk, nc) -> wf_ocursor nc) ->
  Forall (AInv fixed fmt s) cls ->
  pump_h fixed v_empty fmt k hook s cls outs = Some (s', cls', outs', fired) ->
  sfb s' = sfb s /\ wf_ocursor (scur s') /\ Forall (AInv fixed fmt s') cls'.
Proof.
  intros fixed v_empty fmt k. induction k as [|k IH]; intros hook s cls outs s' cls' outs' fired Wf Wc Wh Fi H.
  - cbn in H. inversion H; subst. auto.
  - cbn [pump_h] in H.
    destruct (update_one fixed v_empty fmt hook s cls k) as [[[[s1 cls1] o] f1]|] eqn:U; [|discriminate].
    destruct (ainv_update_one _ _ _ _ _ _ _ _ _ _ _ Wf Wc Wh Fi U) as (E1 & W1 & I1).
    assert (Wf1 : wf_fb (sfb s1)) by (rewrite E1; exact Wf).
    assert (Wh1 : forall hk nc, (if f1 then None else hook) = Some (hk, nc) -> wf_ocursor nc).
    { intros hk nc E. destruct f1; [discriminate|]. eapply Wh; eauto. }
    destruct (IH _ _ _ _ _ _ _ _ Wf1 W1 Wh1 I1 H) as (E2 & W2 & I2).
    split; [congruence|]. split; auto.
Qed.

(* whole rounds of the event loop, cursor replaced from the displayHook, any write may fail: the framebuffer
   is restored and every client that is still open has the picture its invariant describes *)
Theorem ainv_pump_rounds : forall fuel fixed v_empty fmt hook s cls outs s' cls' outs' fired,
  wf_fb (sfb s) -> wf_ocursor (scur s) ->
  (forall hk nc, hook = Some (hk, nc) -> wf_ocursor nc) ->
  Forall (AInv fixed fmt s) cls ->
  pump_rounds fuel fixed v_empty fmt hook s cls outs = Some (s', cls', outs', fired) ->
  sfb s' = sfb s /\ wf_ocursor (scur s') /\ Forall (AInv fixed fmt s') cls'.
Proof.
  induction fuel as [|f IH]; intros fixed v_empty fmt hook s cls outs s' cls' outs' fired Wf Wc Wh Fi H.
  - cbn in H. inversion H; subst. auto.
  - cbn [pump_rounds] in H.
    destruct (pump_h fixed v_empty fmt (length cls) hook s cls []) as [[[[s1 cls1] o1] c1]|] eqn:P; [|discriminate].
    destruct (ainv_pump_h _ _ _ _ _ _ _ _ _ _ _ _ Wf Wc Wh Fi P) as (E1 & W1 & I1).
    destruct (existsb (fun ko => o_sent (snd ko)) o1 || (match hook with Some _ => c1 | None => false end)).
    + assert (Wf1 : wf_fb (sfb s1)) by (rewrite E1; exact Wf).
      assert (Wh1 : forall hk nc, (if c1 then None else hook) = Some (hk, nc) -> wf_ocursor nc).
      { intros hk nc E. destruct c1; [discriminate|]. eapply Wh; eauto. }
      destruct (IH _ _ _ _ _ _ _ _ _ _ _ Wf1 W1 Wh1 I1 H) as (E2 & W2 & I2).
      split; [congruence|]. auto.
    + inversion H; subst. auto.
Qed.

(* not vacuous: a client whose write fails is closed, the other one keeps Inv *)
Lemma failing_client_is_closed : forall fixed v_empty fmt s cl s' cl' o,
  failnext cl = true -> send_update fixed v_empty fmt s cl = Some (s', cl', o) -> o_sent o = true \/ cl' = cl \/ alive cl' = false.
Proof.
  intros fixed v_empty fmt s cl s' cl' o Fn H. unfold send_update in H. rewrite Fn in H. cbn [negb] in H.
  destruct (rgn_is_empty _ _ _ && _ && _ && _); [inversion H; subst; auto|].
  destruct (if shape cl then Some (sfb s, subuf s, scur s) else _) as [[[a b] c]|]; [|discriminate].
  destruct (if shape cl && changed cl then _ else _) as [[d e]|]; [|discriminate].
  destruct (if shape cl then Some a else _) as [g|]; [|discriminate].
  inversion H; subst. right. right. reflexivity.
Qed.
