(* C15 - colours of a cursor given in the X style (bitmap + 16-bit foreground / background colour):
   an INDEPENDENT statement of what its pixels must be, not a copy of the C expression.

   A 16-bit colour component comp stands for the intensity comp/65535; in a pixel format whose channel
   holds values 0..max this is the channel value  max*comp/65535  (the same rule the library itself
   uses in the opposite direction, rfbMakeXCursorFromRichCursor: `(format->redMax * backRed) / 0xffff`,
   and that RFB's SetColourMapEntries uses).  A pixel is right when each of its three channels
   - (p >> shift) & max - holds that value; bits outside the channels are not looked at. *)
Require Import ZArith List Bool Lia.
From LV Require Import Cursor.CursorDefs Cursor.CursorProofs.
Import ListNotations.
Local Open Scope Z_scope.

Definition chan (max comp : Z) : Z := max * comp / 65535.

Definition red_of (fmt : pixfmt) (p : Z) : Z := Z.land (Z.shiftr p (rshift fmt)) (rmax fmt).
Definition green_of (fmt : pixfmt) (p : Z) : Z := Z.land (Z.shiftr p (gshift fmt)) (gmax fmt).
Definition blue_of (fmt : pixfmt) (p : Z) : Z := Z.land (Z.shiftr p (bshift fmt)) (bmax fmt).

Definition colour_ok (fmt : pixfmt) (c3 : Z * Z * Z) (p : Z) : Prop :=
  let '(r, g, b) := c3 in
  red_of fmt p = chan (rmax fmt) r /\ green_of fmt p = chan (gmax fmt) g /\ blue_of fmt p = chan (bmax fmt) b.

(* what rfbMakeRichCursorFromXCursor has to produce: cw*ch pixels, pixel (i,j) has the foreground colour
   where the source bitmap has a 1 and the background colour where it has a 0 *)
Definition rich_from_x_ok (fmt : pixfmt) (c : cursor) (r : list Z) : Prop :=
  Z.of_nat (length r) = ch c * cw c /\
  forall i j, 0 <= i < cw c -> 0 <= j < ch c ->
    exists byte p, zidx (opt_list (csource c)) (j * w8 c + i / 8) = Some byte /\
                   zidx r (j * cw c + i) = Some p /\
                   colour_ok fmt (if bit_of byte i then cfore c else cback c) p.

(* the pixel word that satisfies it: scaled components *)
Definition rgb_word_scaled (fmt : pixfmt) (c3 : Z * Z * Z) : Z :=
  let '(r, g, b) := c3 in
  Z.lor (Z.lor (Z.shiftl (chan (rmax fmt) r) (rshift fmt)) (Z.shiftl (chan (gmax fmt) g) (gshift fmt)))
        (Z.shiftl (chan (bmax fmt) b) (bshift fmt)).

(* a true-colour format: each maximum is 2^k - 1, the three channels do not overlap and lie inside the pixel *)
Definition apart (s1 k1 s2 k2 : Z) : Prop := s1 + k1 <= s2 \/ s2 + k2 <= s1.
Record fmt_ok (fmt : pixfmt) (kr kg kb : Z) : Prop := {
  ok_kr : 0 <= kr; ok_kg : 0 <= kg; ok_kb : 0 <= kb;
  ok_rmax : rmax fmt = 2 ^ kr - 1; ok_gmax : gmax fmt = 2 ^ kg - 1; ok_bmax : bmax fmt = 2 ^ kb - 1;
  ok_rs : 0 <= rshift fmt; ok_gs : 0 <= gshift fmt; ok_bs : 0 <= bshift fmt;
  ok_rg : apart (rshift fmt) kr (gshift fmt) kg;
  ok_rb : apart (rshift fmt) kr (bshift fmt) kb;
  ok_gb : apart (gshift fmt) kg (bshift fmt) kb;
  ok_rin : rshift fmt + kr <= 8 * bpp fmt; ok_gin : gshift fmt + kg <= 8 * bpp fmt;
  ok_bin : bshift fmt + kb <= 8 * bpp fmt }.

Lemma chan_range : forall k comp, 0 <= k -> 0 <= comp <= 65535 -> 0 <= chan (2 ^ k - 1) comp < 2 ^ k.
Proof.
  intros k comp Hk Hc. unfold chan. assert (0 < 2 ^ k) by (apply Z.pow_pos_nonneg; lia).
  split.
  - apply Z.div_pos; nia.
  - apply Z.div_lt_upper_bound; nia.
Qed.

Lemma high_bit_false : forall a k n, 0 <= k -> 0 <= a < 2 ^ k -> k <= n -> Z.testbit a n = false.
Proof.
  intros a k n Hk Ha Hn. rewrite <- (Z.mod_small a (2 ^ k)) by lia. apply Z.mod_pow2_bits_high. lia.
Qed.

(* bit n of (v << s), for a v of k bits, outside [s, s+k) *)
Lemma shifted_bit_outside : forall v s k n, 0 <= k -> 0 <= s -> 0 <= v < 2 ^ k -> 0 <= n ->
  n < s \/ s + k <= n -> Z.testbit (Z.shiftl v s) n = false.
Proof.
  intros v s k n Hk Hs Hv Hn [L|R].
  - rewrite Z.shiftl_spec by lia. apply Z.testbit_neg_r. lia.
  - rewrite Z.shiftl_spec by lia. apply (high_bit_false v k); lia.
Qed.

(* channel 1 of  (a<<s1 | b<<s2 | c<<s3) mod 2^(8*bpp)  is a *)
Lemma channel_extract : forall a b c s1 k1 s2 k2 s3 k3 bits,
  0 <= k1 -> 0 <= k2 -> 0 <= k3 -> 0 <= s1 -> 0 <= s2 -> 0 <= s3 ->
  0 <= a < 2 ^ k1 -> 0 <= b < 2 ^ k2 -> 0 <= c < 2 ^ k3 ->
  apart s1 k1 s2 k2 -> apart s1 k1 s3 k3 -> s1 + k1 <= bits ->
  forall w, (w = Z.lor (Z.lor (Z.shiftl a s1) (Z.shiftl b s2)) (Z.shiftl c s3) \/
             w = Z.lor (Z.lor (Z.shiftl b s2) (Z.shiftl a s1)) (Z.shiftl c s3) \/
             w = Z.lor (Z.lor (Z.shiftl b s2) (Z.shiftl c s3)) (Z.shiftl a s1)) ->
  Z.land (Z.shiftr (w mod 2 ^ bits) s1) (2 ^ k1 - 1) = a.
Proof.
  intros a b c s1 k1 s2 k2 s3 k3 bits Hk1 Hk2 Hk3 Hs1 Hs2 Hs3 Ha Hb Hc A12 A13 Hin w Hw.
  replace (2 ^ k1 - 1) with (Z.ones k1) by (rewrite Z.ones_equiv; lia).
  rewrite Z.land_ones by lia.
  apply Z.bits_inj'. intros n Hn.
  destruct (Z_lt_dec n k1) as [Lt|Ge].
  - rewrite Z.mod_pow2_bits_low by lia. rewrite Z.shiftr_spec by lia.
    rewrite Z.mod_pow2_bits_low by lia.
    assert (Eb : Z.testbit (Z.shiftl b s2) (n + s1) = false).
    { apply (shifted_bit_outside b s2 k2); try lia. unfold apart in A12. lia. }
    assert (Ec : Z.testbit (Z.shiftl c s3) (n + s1) = false).
    { apply (shifted_bit_outside c s3 k3); try lia. unfold apart in A13. lia. }
    assert (Ea : Z.testbit (Z.shiftl a s1) (n + s1) = Z.testbit a n).
    { rewrite Z.shiftl_spec by lia. f_equal. lia. }
    destruct Hw as [E|[E|E]]; subst w; rewrite !Z.lor_spec, Eb, Ec, Ea;
      destruct (Z.testbit a n); reflexivity.
  - rewrite Z.mod_pow2_bits_high by lia. symmetry. apply (high_bit_false a k1); lia.
Qed.

(* the scaled word has the three channel values the colour asks for *)
Theorem rgb_word_scaled_ok : forall fmt kr kg kb c3,
  fmt_ok fmt kr kg kb ->
  (let '(r, g, b) := c3 in 0 <= r <= 65535 /\ 0 <= g <= 65535 /\ 0 <= b <= 65535) ->
  colour_ok fmt c3 (pixmod fmt (rgb_word_scaled fmt c3)).
Proof.
  intros fmt kr kg kb [[r g] b] F (Hr & Hg & Hb). destruct F.
  pose proof (chan_range kr r ok_kr0 Hr) as Cr. pose proof (chan_range kg g ok_kg0 Hg) as Cg.
  pose proof (chan_range kb b ok_kb0 Hb) as Cb.
  assert (S : forall s1 k1 s2 k2, apart s1 k1 s2 k2 -> apart s2 k2 s1 k1) by (unfold apart; intros; lia).
  unfold colour_ok, red_of, green_of, blue_of, pixmod, rgb_word_scaled.
  rewrite ok_rmax0, ok_gmax0, ok_bmax0 in *.
  repeat split.
  - apply (channel_extract (chan (2 ^ kr - 1) r) (chan (2 ^ kg - 1) g) (chan (2 ^ kb - 1) b)
             (rshift fmt) kr (gshift fmt) kg (bshift fmt) kb); auto.
  - apply (channel_extract (chan (2 ^ kg - 1) g) (chan (2 ^ kr - 1) r) (chan (2 ^ kb - 1) b)
             (gshift fmt) kg (rshift fmt) kr (bshift fmt) kb); auto.
  - apply (channel_extract (chan (2 ^ kb - 1) b) (chan (2 ^ kr - 1) r) (chan (2 ^ kg - 1) g)
             (bshift fmt) kb (rshift fmt) kr (gshift fmt) kg); auto.
Qed.

(* whenever the words rfbMakeRichCursorFromXCursor stores are the scaled words, its result is right *)
Theorem rich_from_x_colour_if : forall fmt kr kg kb c r,
  fmt_ok fmt kr kg kb -> 0 <= cw c -> 0 <= ch c ->
  (let '(r, g, b) := cfore c in 0 <= r <= 65535 /\ 0 <= g <= 65535 /\ 0 <= b <= 65535) ->
  (let '(r, g, b) := cback c in 0 <= r <= 65535 /\ 0 <= g <= 65535 /\ 0 <= b <= 65535) ->
  pixmod fmt (rgb_word fmt (cfore c)) = pixmod fmt (rgb_word_scaled fmt (cfore c)) ->
  pixmod fmt (rgb_word fmt (cback c)) = pixmod fmt (rgb_word_scaled fmt (cback c)) ->
  make_rich_from_x fmt c = Some r -> rich_from_x_ok fmt c r.
Proof.
  intros fmt kr kg kb c r F Hw Hh Rf Rb Ef Eb H.
  destruct (rich_from_x_spec fmt c r Hw Hh H) as [L N]. split; [exact L|].
  intros i j Hi Hj. destruct (N i j Hi Hj) as (byte & E1 & E2).
  exists byte. destruct (bit_of byte i).
  - exists (pixmod fmt (rgb_word fmt (cfore c))). repeat split; auto. rewrite Ef.
    apply (rgb_word_scaled_ok fmt kr kg kb); assumption.
  - exists (pixmod fmt (rgb_word fmt (cback c))). repeat split; auto. rewrite Eb.
    apply (rgb_word_scaled_ok fmt kr kg kb); assumption.
Qed.

(* ------------------------------------------------------------------ the library (tree, since the fix of F15e) *)
Lemma u32_small : forall v, 0 <= v < two32 -> u32 v = v.
Proof. intros. unfold u32. apply Z.mod_small. assumption. Qed.

Lemma shifted_small : forall v k s, 0 <= k -> 0 <= s -> s + k <= 32 -> 0 <= v < 2 ^ k -> 0 <= Z.shiftl v s < two32.
Proof.
  intros v k s Hk Hs Hin Hv. rewrite Z.shiftl_mul_pow2 by lia.
  assert (0 < 2 ^ s) by (apply Z.pow_pos_nonneg; lia).
  assert (2 ^ k * 2 ^ s <= two32).
  { rewrite <- Z.pow_add_r by lia. change two32 with (2 ^ 32). apply Z.pow_le_mono_r; lia. }
  nia.
Qed.

Lemma rgb_word_is_scaled : forall fmt kr kg kb c3,
  fmt_ok fmt kr kg kb -> bpp fmt <= 4 -> kr <= 16 -> kg <= 16 -> kb <= 16 ->
  (let '(r, g, b) := c3 in 0 <= r <= 65535 /\ 0 <= g <= 65535 /\ 0 <= b <= 65535) ->
  rgb_word fmt c3 = rgb_word_scaled fmt c3.
Proof.
  intros fmt kr kg kb [[r g] b] F B Kr Kg Kb (Hr & Hg & Hb). destruct F.
  pose proof (chan_range kr r ok_kr0 Hr) as Cr. pose proof (chan_range kg g ok_kg0 Hg) as Cg.
  pose proof (chan_range kb b ok_kb0 Hb) as Cb.
  assert (P : forall k, 0 <= k <= 16 -> 0 < 2 ^ k <= 65536).
  { intros k Hk. split; [apply Z.pow_pos_nonneg; lia|]. change 65536 with (2 ^ 16). apply Z.pow_le_mono_r; lia. }
  pose proof (P kr (conj ok_kr0 Kr)). pose proof (P kg (conj ok_kg0 Kg)). pose proof (P kb (conj ok_kb0 Kb)).
  unfold rgb_word, rgb_word_scaled. rewrite ok_rmax0, ok_gmax0, ok_bmax0 in *. unfold chan in *.
  rewrite (u32_small ((2 ^ kr - 1) * r)) by (unfold two32; nia).
  rewrite (u32_small ((2 ^ kg - 1) * g)) by (unfold two32; nia).
  rewrite (u32_small ((2 ^ kb - 1) * b)) by (unfold two32; nia).
  rewrite !u32_small; [reflexivity| | |].
  - apply (shifted_small _ kb); lia.
  - apply (shifted_small _ kg); lia.
  - apply (shifted_small _ kr); lia.
Qed.

(* rfbMakeRichCursorFromXCursor gives the colours the cursor asks for, every true-colour format *)
Theorem rich_from_x_colour : forall fmt kr kg kb c r,
  fmt_ok fmt kr kg kb -> bpp fmt <= 4 -> kr <= 16 -> kg <= 16 -> kb <= 16 -> 0 <= cw c -> 0 <= ch c ->
  (let '(r, g, b) := cfore c in 0 <= r <= 65535 /\ 0 <= g <= 65535 /\ 0 <= b <= 65535) ->
  (let '(r, g, b) := cback c in 0 <= r <= 65535 /\ 0 <= g <= 65535 /\ 0 <= b <= 65535) ->
  make_rich_from_x fmt c = Some r -> rich_from_x_ok fmt c r.
Proof.
  intros fmt kr kg kb c r F B Kr Kg Kb Hw Hh Rf Rb H.
  apply (rich_from_x_colour_if fmt kr kg kb c r); auto.
  - rewrite (rgb_word_is_scaled fmt kr kg kb); auto.
  - rewrite (rgb_word_is_scaled fmt kr kg kb); auto.
Qed.

(* record of F15e - before the fix the UNSCALED 16-bit component was shifted: `(uint32_t)foreRed << redShift`.
   32 bpp, 8/8/8, shifts 0/8/16, foreground (32768, 0, 0) = half-intensity red: the pixel was 0x8000,
   i.e. red channel 0 and green channel 128 - a dark green - instead of red 127. *)
Definition rgb_word_unscaled (fmt : pixfmt) (c3 : Z * Z * Z) : Z :=
  let '(r, g, b) := c3 in
  Z.lor (Z.lor (u32 (Z.shiftl r (rshift fmt))) (u32 (Z.shiftl g (gshift fmt)))) (u32 (Z.shiftl b (bshift fmt))).

Definition col_cur : cursor :=
  mkcur 1 1 0 0 (Some [128]) [128] None None false (32768, 0, 0) (0, 0, 0) false.

Theorem rich_from_x_colour_old_refuted :
  pixmod fmt32 (rgb_word_unscaled fmt32 (cfore col_cur)) = 32768 /\
  red_of fmt32 32768 = 0 /\ green_of fmt32 32768 = 128 /\ chan 255 32768 = 127 /\
  ~ colour_ok fmt32 (cfore col_cur) (pixmod fmt32 (rgb_word_unscaled fmt32 (cfore col_cur))).
Proof.
  repeat split; try (vm_compute; reflexivity). vm_compute. intros [R _]. discriminate R.
Qed.

Example fmt32_ok : fmt_ok fmt32 8 8 8.
Proof. constructor; unfold apart; vm_compute; try (intro; discriminate); try reflexivity; auto; try lia.
  all: try (left; intro; discriminate). Qed.

Example rich_from_x_colour_nonvacuous :
  make_rich_from_x fmt32 col_cur = Some [127] /\ rich_from_x_ok fmt32 col_cur [127].
Proof.
  split; [vm_compute; reflexivity|].
  apply (rich_from_x_colour fmt32 8 8 8); [exact fmt32_ok| ..];
    try (vm_compute; intuition discriminate); try (cbn; lia).
Qed.
