(* Proofs about the session level of the cursor model (CursorSession.v): the show/hide bracket of
   rfbSendFramebufferUpdate restores the framebuffer on every path; the client's picture follows
   the pointer (invariant over every history of updates, pointer moves, cursor replacements and
   application modifications). *)
From LV Require Import Cursor.CursorDefs Cursor.CursorProofs Cursor.CursorSession Gen.Funs_C15.
Local Open Scope Z_scope.

Definition wf_ocursor (oc : option cursor) : Prop :=
  match oc with None => True | Some c => wf_cursor c end.

(* ------------------------------------------------------------------ the bracket *)
Lemma send_update_restores : forall fixed v_empty fmt s cl s' cl' o,
  wf_fb (sfb s) -> wf_ocursor (scur s) ->
  send_update fixed v_empty fmt s cl = Some (s', cl', o) -> sfb s' = sfb s.
Proof.
  intros fixed v_empty fmt s cl s' cl' o Wf Wc H. unfold send_update in H.
  destruct (rgn_is_empty _ _ _ && _ && _ && _); [inversion H; subst; reflexivity|].
  destruct (shape cl) eqn:Sh.
  - (* cursor-shape client: nothing is painted *)
    cbn [negb andb] in H.
    destruct (if true && changed cl then _ else _) as [[oc2 shp]|]; [|discriminate].
    inversion H; subst; reflexivity.
  - cbn [negb andb] in H.
    destruct (scur s) as [c|] eqn:Ec.
    + set (cx := if negb ((clx cl =? sx s) && (cly cl =? sy s)) then sx s else clx cl) in *.
      set (cy := if negb ((clx cl =? sx s) && (cly cl =? sy s)) then sy s else cly cl) in *.
      destruct (hide_show_id fixed fmt (sfb s) c cx cy (subuf s) Wf Wc) as (f1 & buf & c' & S & Hd).
      rewrite S in H. cbn in H. rewrite Hd in H. inversion H; subst; reflexivity.
    + cbn in H. inversion H; subst; reflexivity.
Qed.

Lemma send_update_soft_total : forall fixed v_empty fmt s cl,
  wf_fb (sfb s) -> wf_ocursor (scur s) -> shape cl = false ->
  exists r, send_update fixed v_empty fmt s cl = Some r.
Proof.
  intros fixed v_empty fmt s cl Wf Wc Sh. unfold send_update.
  destruct (rgn_is_empty _ _ _ && _ && _ && _); [eauto|].
  rewrite Sh. cbn [negb andb].
  destruct (scur s) as [c|] eqn:Ec.
  - set (cx := if negb ((clx cl =? sx s) && (cly cl =? sy s)) then sx s else clx cl) in *.
    set (cy := if negb ((clx cl =? sx s) && (cly cl =? sy s)) then sy s else cly cl) in *.
    destruct (hide_show_id fixed fmt (sfb s) c cx cy (subuf s) Wf Wc) as (f1 & buf & c' & S & Hd).
    rewrite S. cbn. rewrite Hd. eauto.
  - cbn. eauto.
Qed.

(* ------------------------------------------------------------------ what a soft-cursor client is sent *)
Definition cellfun (fmt : pixfmt) (c : cursor) (u v p : Z) : Z :=
  match ensure_rich fmt c with
  | Some (c', r) => cursor_cell fmt c' r u v p
  | None => p
  end.

(* pixel (x,y) of the painted framebuffer, as a function of the application's pixel p *)
Definition painted_px (fixed : bool) (fmt : pixfmt) (c : cursor) (W H px py x y p : Z) : Z :=
  if in_cursor c px py x y && (x <? lim fixed W) && (y <? lim fixed H)
  then cellfun fmt c (x - (px - cxhot c)) (y - (py - cyhot c)) p
  else p.

Lemma fb_get_nonneg : forall f x y p, fb_get f x y = Some p -> 0 <= x /\ 0 <= y.
Proof.
  intros f x y p G. unfold fb_get in G. destruct (zidx (rows f) y) eqn:E; [|discriminate].
  apply zidx_lt in E. apply zidx_lt in G. lia.
Qed.

Lemma show_px : forall fixed fmt f c px py ub f1 buf c',
  show fixed fmt f c px py ub = Some (f1, buf, c') ->
  forall x y, fb_get f1 x y = option_map (painted_px fixed fmt c (fw f) (fh f) px py x y) (fb_get f x y).
Proof.
  intros fixed fmt f c px py ub f1 buf c' S x y.
  pose proof S as S'. unfold show in S'.
  destruct (clip1 fixed px (cxhot c) (cw c) (fw f)) as [[[x1 i1] x2]|] eqn:Cx.
  2:{ inversion S'; subst. destruct (fb_get f1 x y) as [p|] eqn:G; [|reflexivity]. cbn. f_equal.
      apply clip1_none in Cx. destruct (fb_get_nonneg _ _ _ _ G). unfold painted_px, in_cursor.
      replace ((0 <=? x - (px - cxhot c')) && (x - (px - cxhot c') <? cw c') && (0 <=? y - (py - cyhot c')) &&
               (y - (py - cyhot c') <? ch c') && (x <? lim fixed (fw f1)) && (y <? lim fixed (fh f1))) with false; auto.
      symmetry. zb. }
  destruct (clip1 fixed py (cyhot c) (ch c) (fh f)) as [[[y1 j1] y2]|] eqn:Cy.
  2:{ inversion S'; subst. destruct (fb_get f1 x y) as [p|] eqn:G; [|reflexivity]. cbn. f_equal.
      apply clip1_none in Cy. destruct (fb_get_nonneg _ _ _ _ G). unfold painted_px, in_cursor.
      replace ((0 <=? x - (px - cxhot c')) && (x - (px - cxhot c') <? cw c') && (0 <=? y - (py - cyhot c')) &&
               (y - (py - cyhot c') <? ch c') && (x <? lim fixed (fw f1)) && (y <? lim fixed (fh f1))) with false; auto.
      symmetry. zb. }
  destruct (save f x1 y1 x2 y2); [|discriminate].
  destruct (ensure_rich fmt c) as [[c2 r2]|] eqn:Er; [|discriminate].
  destruct (paint _ _ _ _ _ f); [|discriminate]. inversion S'; subst; clear S'.
  destruct (show_get _ _ _ _ _ _ _ _ _ _ S) as [_ G].
  destruct (ensure_rich_geom _ _ _ _ Er) as (_ & _ & _ & _ & _ & _ & _ & Hr).
  rewrite (G r2) by (intros r' E; congruence).
  destruct (fb_get f x y) as [p|]; [|reflexivity]. cbn. f_equal.
  unfold painted_px, show_box, cellfun, cursor_cell. rewrite Er. reflexivity.
Qed.

Lemma ensure_rich_idem : forall fmt c c' r, ensure_rich fmt c = Some (c', r) -> ensure_rich fmt c' = Some (c', r).
Proof.
  intros fmt c c' r E. destruct (ensure_rich_geom _ _ _ _ E) as (_ & _ & _ & _ & _ & _ & _ & Hr).
  unfold ensure_rich. rewrite Hr. reflexivity.
Qed.

(* two cursors that paint the same *)
Definition cursor_equiv (fmt : pixfmt) (c c' : cursor) : Prop :=
  cw c' = cw c /\ ch c' = ch c /\ cxhot c' = cxhot c /\ cyhot c' = cyhot c /\
  forall u v p, cellfun fmt c' u v p = cellfun fmt c u v p.

Lemma cursor_equiv_refl : forall fmt c, cursor_equiv fmt c c.
Proof. intros; repeat split. Qed.

Lemma ensure_rich_equiv : forall fmt c c' r, ensure_rich fmt c = Some (c', r) -> cursor_equiv fmt c c'.
Proof.
  intros fmt c c' r E. destruct (ensure_rich_geom _ _ _ _ E) as (G1 & G2 & G3 & G4 & _).
  repeat split; auto. intros u v p. unfold cellfun. rewrite (ensure_rich_idem _ _ _ _ E), E. reflexivity.
Qed.

Lemma show_cursor_equiv : forall fixed fmt f c px py ub f1 buf c',
  show fixed fmt f c px py ub = Some (f1, buf, c') -> cursor_equiv fmt c c'.
Proof.
  intros fixed fmt f c px py ub f1 buf c' S. unfold show in S.
  destruct (clip1 fixed px (cxhot c) (cw c) (fw f)) as [[[x1 i1] x2]|]; [|inversion S; subst; apply cursor_equiv_refl].
  destruct (clip1 fixed py (cyhot c) (ch c) (fh f)) as [[[y1 j1] y2]|]; [|inversion S; subst; apply cursor_equiv_refl].
  destruct (save f x1 y1 x2 y2); [|discriminate].
  destruct (ensure_rich fmt c) as [[c2 r2]|] eqn:Er; [|discriminate].
  destruct (paint _ _ _ _ _ f); [|discriminate]. inversion S; subst.
  eapply ensure_rich_equiv; eauto.
Qed.

Lemma painted_px_equiv : forall fixed fmt c c' W H px py x y p,
  cursor_equiv fmt c c' -> painted_px fixed fmt c' W H px py x y p = painted_px fixed fmt c W H px py x y p.
Proof.
  intros fixed fmt c c' W H px py x y p (G1 & G2 & G3 & G4 & G5).
  unfold painted_px, in_cursor. rewrite G1, G2, G3, G4, G5. reflexivity.
Qed.

(* ------------------------------------------------------------------ the redraw box covers the cursor *)
Lemma redraw_box_covers : forall c px py W H x y,
  0 <= x < W -> 0 <= y < H -> in_cursor c px py x y = true ->
  redraw_box (Some c) px py W H x y = true.
Proof.
  intros c px py W H x y Hx Hy I. unfold in_cursor in I.
  rewrite !andb_true_iff, !Z.leb_le, !Z.ltb_lt in I.
  unfold redraw_box, sraClipRect2.
  repeat match goal with
  | |- context [if Z.ltb ?a ?b then _ else _] => destruct (Z.ltb_spec a b)
  | |- context [if Z.leb ?a ?b then _ else _] => destruct (Z.leb_spec a b)
  end; try lia;
  match goal with
  | |- context [andb (Z.ltb ?a ?b) (Z.ltb ?c ?d)] =>
      destruct (Z.ltb_spec a b); destruct (Z.ltb_spec c d); cbn [andb]; try lia
  end; unfold rgn_rect; zb.
Qed.

Lemma painted_px_outside : forall fixed fmt c W H px py x y p,
  0 <= x < W -> 0 <= y < H -> redraw_box (Some c) px py W H x y = false ->
  painted_px fixed fmt c W H px py x y p = p.
Proof.
  intros fixed fmt c W H px py x y p Hx Hy R. unfold painted_px.
  destruct (in_cursor c px py x y) eqn:I; [|reflexivity].
  rewrite (redraw_box_covers c px py W H x y Hx Hy I) in R. discriminate.
Qed.

(* ------------------------------------------------------------------ merge / fill, pointwise *)
Lemma merge_row_nth : forall upd y src dst x0 n, length src = length dst ->
  nth_error (merge_row upd y x0 src dst) n =
  if upd (x0 + Z.of_nat n) y then nth_error src n else nth_error dst n.
Proof.
  intros upd y src. induction src as [|a s IH]; intros [|b d] x0 n L; cbn in L; try discriminate.
  - cbn. destruct n; cbn; destruct (upd _ y); reflexivity.
  - destruct n as [|n]; cbn [merge_row nth_error].
    + rewrite Z.add_0_r. destruct (upd x0 y); reflexivity.
    + rewrite IH by lia. replace (x0 + 1 + Z.of_nat n) with (x0 + Z.of_nat (S n)) by lia. reflexivity.
Qed.

Lemma merge_row_length : forall upd y src dst x0, length src = length dst ->
  length (merge_row upd y x0 src dst) = length dst.
Proof.
  intros upd y src. induction src as [|a s IH]; intros [|b d] x0 L; cbn in L; try discriminate; cbn; auto.
Qed.

Lemma merge_rows_nth : forall upd src dst y0 n, map (@length Z) src = map (@length Z) dst ->
  nth_error (merge_rows upd y0 src dst) n =
  match nth_error src n, nth_error dst n with
  | Some a, Some b => Some (merge_row upd (y0 + Z.of_nat n) 0 a b)
  | _, _ => None
  end.
Proof.
  intros upd src. induction src as [|a s IH]; intros [|b d] y0 n L; cbn in L; try discriminate.
  - destruct n; reflexivity.
  - inversion L. destruct n as [|n]; cbn [merge_rows nth_error].
    + rewrite Z.add_0_r. reflexivity.
    + rewrite IH by auto. replace (y0 + 1 + Z.of_nat n) with (y0 + Z.of_nat (S n)) by lia. reflexivity.
Qed.

Lemma merge_rows_shape : forall upd src dst y0, map (@length Z) src = map (@length Z) dst ->
  map (@length Z) (merge_rows upd y0 src dst) = map (@length Z) dst.
Proof.
  intros upd src. induction src as [|a s IH]; intros [|b d] y0 L; cbn in L; try discriminate; auto.
  inversion L. cbn. rewrite merge_row_length by auto. f_equal. auto.
Qed.

Lemma fb_merge_get : forall upd src dst x y, same_shape src dst ->
  fb_get (fb_merge upd src dst) x y = if upd x y then fb_get src x y else fb_get dst x y.
Proof.
  intros upd src dst x y (Sw & Sh & Sm). unfold fb_get, fb_merge, zidx; cbn.
  destruct (Z.ltb_spec y 0); [destruct (upd x y); reflexivity|].
  rewrite merge_rows_nth by auto.
  assert (Ln : option_map (@length Z) (nth_error (rows src) (Z.to_nat y)) =
               option_map (@length Z) (nth_error (rows dst) (Z.to_nat y))).
  { rewrite <- !nth_error_map. congruence. }
  destruct (nth_error (rows src) (Z.to_nat y)) as [a|], (nth_error (rows dst) (Z.to_nat y)) as [b|];
    cbn in Ln; try discriminate; [|destruct (upd x y); reflexivity].
  destruct (Z.ltb_spec x 0); [destruct (upd x y); reflexivity|].
  rewrite merge_row_nth by congruence. rewrite !Z2Nat.id by lia. reflexivity.
Qed.

Lemma fb_merge_shape : forall upd src dst, same_shape src dst -> same_shape (fb_merge upd src dst) dst.
Proof.
  intros upd src dst (Sw & Sh & Sm). repeat split; cbn. apply merge_rows_shape; auto.
Qed.

Lemma fill_row_nth : forall y x1 y1 x2 y2 v r x0 n,
  nth_error (fill_row y x0 x1 y1 x2 y2 v r) n =
  option_map (fun p => if rgn_rect x1 y1 x2 y2 (x0 + Z.of_nat n) y then v else p) (nth_error r n).
Proof.
  intros y x1 y1 x2 y2 v r. induction r as [|a r IH]; intros x0 n.
  - destruct n; reflexivity.
  - destruct n as [|n]; cbn [fill_row nth_error].
    + rewrite Z.add_0_r. reflexivity.
    + rewrite IH. replace (x0 + 1 + Z.of_nat n) with (x0 + Z.of_nat (S n)) by lia. reflexivity.
Qed.

Lemma fill_row_length : forall y x1 y1 x2 y2 v r x0, length (fill_row y x0 x1 y1 x2 y2 v r) = length r.
Proof. intros y x1 y1 x2 y2 v r. induction r; intros; cbn; auto. Qed.

Lemma fill_rows_nth : forall x1 y1 x2 y2 v rs y0 n,
  nth_error (fill_rows y0 x1 y1 x2 y2 v rs) n =
  option_map (fill_row (y0 + Z.of_nat n) 0 x1 y1 x2 y2 v) (nth_error rs n).
Proof.
  intros x1 y1 x2 y2 v rs. induction rs as [|a rs IH]; intros y0 n.
  - destruct n; reflexivity.
  - destruct n as [|n]; cbn [fill_rows nth_error].
    + rewrite Z.add_0_r. reflexivity.
    + rewrite IH. replace (y0 + 1 + Z.of_nat n) with (y0 + Z.of_nat (S n)) by lia. reflexivity.
Qed.

Lemma fill_rows_shape : forall x1 y1 x2 y2 v rs y0,
  map (@length Z) (fill_rows y0 x1 y1 x2 y2 v rs) = map (@length Z) rs.
Proof.
  intros x1 y1 x2 y2 v rs. induction rs as [|a rs IH]; intros; cbn; auto.
  rewrite fill_row_length, IH. reflexivity.
Qed.

Lemma fill_get : forall s cls x1 y1 x2 y2 v x y,
  fb_get (sfb (fst (fill s cls x1 y1 x2 y2 v))) x y =
  option_map (fun p => if rgn_rect x1 y1 x2 y2 x y then v else p) (fb_get (sfb s) x y).
Proof.
  intros. unfold fill, fb_get, zidx; cbn.
  destruct (Z.ltb_spec y 0); [reflexivity|]. rewrite fill_rows_nth.
  destruct (nth_error (rows (sfb s)) (Z.to_nat y)) as [r|]; [|reflexivity]. cbn.
  destruct (Z.ltb_spec x 0); [reflexivity|]. rewrite fill_row_nth. rewrite !Z2Nat.id by lia. reflexivity.
Qed.

Lemma fill_shape : forall s cls x1 y1 x2 y2 v, same_shape (sfb (fst (fill s cls x1 y1 x2 y2 v))) (sfb s).
Proof. intros. repeat split; cbn. apply fill_rows_shape. Qed.

(* ------------------------------------------------------------------ the picture invariant *)
(* what client cl is shown at (x,y) when the application's pixel there is p *)
Definition px_of (fixed : bool) (fmt : pixfmt) (s : screen) (cl : client) (x y p : Z) : Z :=
  if shape cl then p
  else match scur s with
       | None => p
       | Some c => painted_px fixed fmt c (fw (sfb s)) (fh (sfb s)) (clx cl) (cly cl) x y p
       end.

(* outside its modifiedRegion the client's picture is the framebuffer with the cursor laid over
   it at the position the client knows *)
Definition Inv (fixed : bool) (fmt : pixfmt) (s : screen) (cl : client) : Prop :=
  same_shape (pic cl) (sfb s) /\
  forall x y, modif cl x y = false ->
    fb_get (pic cl) x y = option_map (px_of fixed fmt s cl x y) (fb_get (sfb s) x y).

Lemma merge_inv_step : forall (upd modi upd0 : rgn) (f f1 pc : fb) (g_old g_new : Z -> Z -> Z -> Z),
  same_shape f f1 -> same_shape pc f ->
  (forall x y, fb_get f1 x y = option_map (g_new x y) (fb_get f x y)) ->
  (forall x y, modi x y = false -> fb_get pc x y = option_map (g_old x y) (fb_get f x y)) ->
  (forall x y, upd0 x y = true -> upd x y = true) ->
  (forall x y p, upd x y = false -> fb_get f x y = Some p -> g_old x y p = g_new x y p) ->
  forall x y, rgn_sub modi upd0 x y = false ->
    fb_get (fb_merge upd f1 pc) x y = option_map (g_new x y) (fb_get f x y).
Proof.
  intros upd modi upd0 f f1 pc g_old g_new S1 S2 G1 Gp U0 Eq x y M.
  rewrite fb_merge_get.
  2:{ apply same_shape_sym. eapply same_shape_trans; eauto. }
  destruct (upd x y) eqn:U; [apply G1|].
  unfold rgn_sub in M. destruct (upd0 x y) eqn:U0'; [rewrite (U0 _ _ U0') in U; discriminate|].
  rewrite andb_true_r in M. rewrite (Gp _ _ M).
  destruct (fb_get f x y) as [p|] eqn:G; [|reflexivity]. cbn. f_equal. apply Eq; auto.
Qed.

Lemma option_map_id : forall (o : option Z), option_map (fun p => p) o = o.
Proof. destruct o; reflexivity. Qed.

(* C15_redraw_covers, step: an update that reaches the client keeps the invariant (and moves the
   client's idea of the pointer to the server's) *)
Theorem inv_send_update : forall fixed v_empty fmt s cl s' cl' o,
  wf_fb (sfb s) -> wf_ocursor (scur s) -> failnext cl = false ->
  Inv fixed fmt s cl -> send_update fixed v_empty fmt s cl = Some (s', cl', o) ->
  Inv fixed fmt s' cl'.
Proof.
  intros fixed v_empty fmt s cl s' cl' o Wf Wc Fn [Sp Ip] H. unfold send_update in H.
  destruct (rgn_is_empty _ _ _ && _ && _ && _); [inversion H; subst; split; auto|].
  rewrite Fn in H. cbn [negb] in H.
  destruct (shape cl) eqn:Sh.
  - cbn [negb andb] in H.
    destruct (if true && changed cl then _ else _) as [[oc2 shp]|]; [|discriminate].
    inversion H; subst; clear H. split; cbn [sfb scur pic modif clx cly shape].
    + eapply same_shape_trans; [apply fb_merge_shape; apply same_shape_sym; exact Sp | exact Sp].
    + intros x y M. unfold px_of; cbn [sfb scur pic modif clx cly shape]. rewrite option_map_id.
      rewrite <- (option_map_id (fb_get (sfb s) x y)).
      apply (merge_inv_step _ (modif cl) (rgn_and (modif cl) (req cl)) (sfb s) (sfb s) (pic cl)
               (fun _ _ p => p) (fun _ _ p => p) (same_shape_refl _) Sp); [| | | |exact M].
      * intros; symmetry; apply option_map_id.
      * intros x0 y0 M0. rewrite (Ip _ _ M0). unfold px_of. rewrite Sh. reflexivity.
      * auto.
      * auto.
  - cbn [negb andb] in H.
    destruct (scur s) as [c|] eqn:Ec.
    + set (cx := if negb ((clx cl =? sx s) && (cly cl =? sy s)) then sx s else clx cl) in *.
      set (cy := if negb ((clx cl =? sx s) && (cly cl =? sy s)) then sy s else cly cl) in *.
      destruct (hide_show_id fixed fmt (sfb s) c cx cy (subuf s) Wf Wc) as (f1 & buf & c' & S & Hd).
      rewrite S in H. cbn beta iota zeta in H. rewrite Hd in H. inversion H; subst; clear H.
      destruct (show_get _ _ _ _ _ _ _ _ _ _ S) as [Sf _].
      pose proof (show_cursor_equiv _ _ _ _ _ _ _ _ _ _ S) as Eqv.
      split; cbn [sfb scur pic modif clx cly shape].
      * eapply same_shape_trans; [apply fb_merge_shape|exact Sp].
        apply same_shape_sym. eapply same_shape_trans; [exact Sp|exact Sf].
      * intros x y M. unfold px_of; cbn [sfb scur pic modif clx cly shape].
        apply (merge_inv_step _ (modif cl) (rgn_and (modif cl) (req cl)) (sfb s) f1 (pic cl)
                 (fun x y p => painted_px fixed fmt c (fw (sfb s)) (fh (sfb s)) (clx cl) (cly cl) x y p)
                 (fun x y p => painted_px fixed fmt c' (fw (sfb s)) (fh (sfb s)) cx cy x y p) Sf Sp);
          [| | | |exact M].
        -- intros x0 y0. rewrite (show_px _ _ _ _ _ _ _ _ _ _ S).
           destruct (fb_get (sfb s) x0 y0); [|reflexivity]. cbn. f_equal. symmetry. apply painted_px_equiv; auto.
        -- intros x0 y0 M0. rewrite (Ip _ _ M0). unfold px_of. rewrite Sh, Ec. reflexivity.
        -- intros x0 y0 U. destruct (negb ((clx cl =? sx s) && (cly cl =? sy s))); unfold rgn_or; rewrite ?U; auto.
        -- intros x0 y0 p U G. rewrite (painted_px_equiv fixed fmt c c') by auto.
           destruct (wf_fb_get_lt _ _ _ _ Wf G) as [Hx Hy].
           subst cx cy. destruct (negb ((clx cl =? sx s) && (cly cl =? sy s))) eqn:Mv; [|reflexivity].
           unfold rgn_or in U. apply orb_false_elim in U. destruct U as [U U2].
           apply orb_false_elim in U. destruct U as [_ U1].
           rewrite !painted_px_outside; auto.
    + cbn beta iota zeta in H. inversion H; subst; clear H. split; cbn [sfb scur pic modif clx cly shape].
      * eapply same_shape_trans; [apply fb_merge_shape; apply same_shape_sym; exact Sp | exact Sp].
      * intros x y M. unfold px_of; cbn [sfb scur pic modif clx cly shape]. rewrite option_map_id.
        rewrite <- (option_map_id (fb_get (sfb s) x y)).
        apply (merge_inv_step _ (modif cl) (rgn_and (modif cl) (req cl)) (sfb s) (sfb s) (pic cl)
                 (fun _ _ p => p) (fun _ _ p => p) (same_shape_refl _) Sp); [| | | |exact M].
        -- intros; symmetry; apply option_map_id.
        -- intros x0 y0 M0. rewrite (Ip _ _ M0). unfold px_of. rewrite Sh, Ec. reflexivity.
        -- intros x0 y0 U. destruct (negb ((clx cl =? sx s) && (cly cl =? sy s))); unfold rgn_or; rewrite ?U; auto.
        -- auto.
Qed.

(* ------------------------------------------------------------------ the other operations keep the invariant *)
Lemma same_shape_get_none : forall a b x y, same_shape a b -> fb_get a x y = None -> fb_get b x y = None.
Proof.
  intros a b x y (Sw & Sh & Sm) G. unfold fb_get, zidx in *.
  destruct (Z.ltb_spec y 0); [reflexivity|].
  assert (Ln : option_map (@length Z) (nth_error (rows a) (Z.to_nat y)) =
               option_map (@length Z) (nth_error (rows b) (Z.to_nat y))).
  { rewrite <- !nth_error_map. congruence. }
  destruct (nth_error (rows a) (Z.to_nat y)) as [ra|], (nth_error (rows b) (Z.to_nat y)) as [rb|];
    cbn in Ln; try discriminate; auto.
  destruct (Z.ltb_spec x 0); [reflexivity|].
  apply nth_error_None in G. apply nth_error_None. inversion Ln. lia.
Qed.

(* changing flags / growing the modified region / switching the cursor mode with the box redrawn *)
Lemma inv_reshape : forall fixed fmt s cl cl',
  wf_fb (sfb s) -> Inv fixed fmt s cl ->
  pic cl' = pic cl -> clx cl' = clx cl -> cly cl' = cly cl ->
  (forall x y, modif cl' x y = false ->
     modif cl x y = false /\
     (shape cl' <> shape cl -> redraw_box (scur s) (clx cl) (cly cl) (fw (sfb s)) (fh (sfb s)) x y = false)) ->
  Inv fixed fmt s cl'.
Proof.
  intros fixed fmt s cl cl' Wf [Sp Ip] Ep Ex Ey Hm. split; [rewrite Ep; auto|].
  intros x y M. destruct (Hm _ _ M) as [M0 Hb]. rewrite Ep, (Ip _ _ M0).
  destruct (fb_get (sfb s) x y) as [p|] eqn:G; [|reflexivity]. cbn. f_equal.
  destruct (wf_fb_get_lt _ _ _ _ Wf G) as [Hx Hy].
  unfold px_of. rewrite Ex, Ey.
  destruct (shape cl) eqn:S0, (shape cl') eqn:S1; auto.
  - destruct (scur s) as [c|]; auto. symmetry. apply painted_px_outside; auto; apply Hb; discriminate.
  - destruct (scur s) as [c|]; auto. apply painted_px_outside; auto; apply Hb; discriminate.
Qed.

Lemma inv_set_modif_grow : forall fixed fmt s cl m,
  Inv fixed fmt s cl -> (forall x y, m x y = false -> modif cl x y = false) -> Inv fixed fmt s (set_modif cl m).
Proof.
  intros fixed fmt s cl m [Sp Ip] Hm. split; [exact Sp|].
  intros x y M. cbn in M. exact (Ip _ _ (Hm _ _ M)).
Qed.

Theorem inv_fur : forall fixed fmt s cl incr x y w h,
  Inv fixed fmt s cl -> Inv fixed fmt s (fur cl incr x y w h).
Proof.
  intros fixed fmt s cl incr x y w h [Sp Ip]. split; [exact Sp|].
  intros x0 y0 M. cbn in M.
  assert (M0 : modif cl x0 y0 = false).
  { destruct incr; auto. unfold rgn_or in M. apply orb_false_elim in M. tauto. }
  exact (Ip _ _ M0).
Qed.

Theorem inv_ptr_event : forall fixed fmt s cls k x y,
  Forall (Inv fixed fmt s) cls ->
  Forall (Inv fixed fmt (fst (ptr_event s cls k x y))) (snd (ptr_event s cls k x y)).
Proof.
  intros fixed fmt s cls k x y F. unfold ptr_event.
  destruct ((x =? sx s) && (y =? sy s)); [exact F|]. cbn [fst snd].
  generalize 0 as idx. induction F as [|cl t I F IH]; intros idx; cbn [ptr_flags]; constructor; auto.
  destruct I as [Sp Ip]. destruct (posupd cl); split; auto.
Qed.

Theorem inv_fill : forall fixed fmt s cls x1 y1 x2 y2 v,
  Forall (Inv fixed fmt s) cls ->
  Forall (Inv fixed fmt (fst (fill s cls x1 y1 x2 y2 v))) (snd (fill s cls x1 y1 x2 y2 v)).
Proof.
  intros fixed fmt s cls x1 y1 x2 y2 v F.
  cbn [fill snd]. apply Forall_forall. intros cl' Hin. apply in_map_iff in Hin. destruct Hin as (cl & E & Hin).
  rewrite Forall_forall in F. destruct (F _ Hin) as [Sp Ip]. subst cl'. split.
  - cbn [pic set_modif]. eapply same_shape_trans; [exact Sp|]. apply same_shape_sym. apply (fill_shape s cls).
  - intros x y M. cbn [modif set_modif] in M. unfold rgn_or in M. apply orb_false_elim in M. destruct M as [M0 R].
    cbn [pic set_modif]. rewrite (Ip _ _ M0). rewrite (fill_get s cls). rewrite R.
    destruct (fb_get (sfb s) x y); reflexivity.
Qed.

Theorem inv_set_cursor : forall fixed fmt s cls nc,
  wf_fb (sfb s) -> Forall (Inv fixed fmt s) cls ->
  Forall (Inv fixed fmt (fst (set_cursor s cls nc))) (snd (set_cursor s cls nc)).
Proof.
  intros fixed fmt s cls nc Wf F. cbn [set_cursor fst snd].
  apply Forall_forall. intros cl2 Hin. apply in_map_iff in Hin. destruct Hin as (cl1 & E2 & Hin).
  apply in_map_iff in Hin. destruct Hin as (cl & E1 & Hin).
  rewrite Forall_forall in F. destruct (F _ Hin) as [Sp Ip]. subst cl2 cl1.
  destruct (shape cl) eqn:Sh.
  - cbn [shape]. rewrite ?Sh. cbn [shape]. split; [exact Sp|]. intros x y M. cbn in M. cbn [pic]. rewrite (Ip _ _ M).
    unfold px_of; cbn [shape]. rewrite ?Sh. reflexivity.
  - unfold redraw, set_modif. cbn [pic modif clx cly sfb scur shape]. rewrite ?Sh.
    cbn [pic modif clx cly sfb scur shape]. rewrite ?Sh. cbn [pic modif clx cly sfb scur shape].
    split; [exact Sp|]. intros x y M. cbn [pic modif clx cly sfb scur shape] in M.
    unfold rgn_or in M. apply orb_false_elim in M. destruct M as [M R2]. apply orb_false_elim in M. destruct M as [M0 R1].
    cbn [pic sfb]. rewrite (Ip _ _ M0).
    destruct (fb_get (sfb s) x y) as [p|] eqn:G; [|reflexivity]. cbn. f_equal.
    destruct (wf_fb_get_lt _ _ _ _ Wf G) as [Hx Hy].
    unfold px_of; cbn [shape clx cly sfb scur]. rewrite ?Sh.
    destruct (scur s) as [c|]; destruct nc as [c2|]; auto.
    + rewrite !painted_px_outside; auto.
    + rewrite painted_px_outside; auto.
    + rewrite painted_px_outside; auto.
Qed.

Theorem inv_new_client : forall fixed fmt s, wf_fb (sfb s) -> Inv fixed fmt s (new_client s).
Proof.
  intros fixed fmt s Wf. split.
  - repeat split; cbn. rewrite map_map. apply map_ext. intros; apply map_length.
  - intros x y M. cbn in M.
    destruct (fb_get (sfb s) x y) as [p|] eqn:G.
    + destruct (wf_fb_get_lt _ _ _ _ Wf G). unfold rgn_rect in M.
      replace ((0 <=? x) && (x <? fw (sfb s)) && (0 <=? y) && (y <? fh (sfb s))) with true in M; [discriminate|].
      symmetry. zb.
    + cbn. eapply same_shape_get_none; [|exact G].
      repeat split; cbn. rewrite map_map. symmetry. apply map_ext. intros; apply map_length.
Qed.

Lemma send_update_fields : forall fixed v_empty fmt s cl s' cl' o,
  send_update fixed v_empty fmt s cl = Some (s', cl', o) -> o_sent o = true ->
  let mv := negb (shape cl) && negb ((clx cl =? sx s) && (cly cl =? sy s)) in
  clx cl' = (if mv then sx s else clx cl) /\ cly cl' = (if mv then sy s else cly cl) /\
  modif cl' = rgn_sub (modif cl) (rgn_and (modif cl) (req cl)) /\ sx s' = sx s /\ sy s' = sy s.
Proof.
  intros fixed v_empty fmt s cl s' cl' o H Sent. unfold send_update in H.
  destruct (rgn_is_empty _ _ _ && _ && _ && _); [inversion H; subst; discriminate|].
  destruct (if shape cl then Some (sfb s, subuf s, scur s) else _) as [[[f1 ub1] oc1]|]; [|discriminate].
  destruct (if shape cl && changed cl then _ else _) as [[oc2 shp]|]; [|discriminate].
  destruct (if shape cl then Some f1 else _) as [f2|]; [|discriminate].
  inversion H; subst. cbn [clx cly modif sx sy]. repeat split.
Qed.

(* convergence: once nothing is left in the modified region the picture is the painted framebuffer
   everywhere, with the cursor where the server's pointer is *)
Theorem picture_converges : forall fixed v_empty fmt s cl s' cl' o,
  wf_fb (sfb s) -> wf_ocursor (scur s) -> failnext cl = false ->
  Inv fixed fmt s cl -> send_update fixed v_empty fmt s cl = Some (s', cl', o) ->
  (forall x y, 0 <= x < fw (sfb s) -> 0 <= y < fh (sfb s) -> req cl x y = true) ->
  o_sent o = true ->
  (shape cl = false -> clx cl' = sx s' /\ cly cl' = sy s') /\
  forall x y, fb_get (pic cl') x y = option_map (px_of fixed fmt s' cl' x y) (fb_get (sfb s') x y).
Proof.
  intros fixed v_empty fmt s cl s' cl' o Wf Wc Fn I H Rq Sent.
  pose proof (inv_send_update _ _ _ _ _ _ _ _ Wf Wc Fn I H) as [Sp' Ip'].
  pose proof (send_update_restores _ _ _ _ _ _ _ _ Wf Wc H) as Efb.
  destruct (send_update_fields _ _ _ _ _ _ _ _ H Sent) as (Ex & Ey & Em & Esx & Esy).
  split.
  - intros Sh. rewrite Ex, Ey, Esx, Esy, Sh. cbn [negb andb].
    destruct ((clx cl =? sx s) && (cly cl =? sy s)) eqn:Same; cbn [negb]; auto.
    apply andb_prop in Same. destruct Same as [A B]. apply Z.eqb_eq in A. apply Z.eqb_eq in B. auto.
  - intros x y. destruct (fb_get (sfb s') x y) as [p|] eqn:G.
    + rewrite <- G. apply Ip'. rewrite Efb in G. destruct (wf_fb_get_lt _ _ _ _ Wf G) as [Hx Hy].
      rewrite Em. unfold rgn_sub, rgn_and. rewrite (Rq _ _ Hx Hy). destruct (modif cl x y); reflexivity.
    + cbn. eapply same_shape_get_none; [apply same_shape_sym; exact Sp'|exact G].
Qed.

(* ------------------------------------------------------------------ updates of other clients *)
Definition ocursor_equiv (fmt : pixfmt) (a b : option cursor) : Prop :=
  match a, b with
  | None, None => True
  | Some c, Some c' => cursor_equiv fmt c c'
  | _, _ => False
  end.

Lemma cursor_equiv_trans : forall fmt a b c, cursor_equiv fmt a b -> cursor_equiv fmt b c -> cursor_equiv fmt a c.
Proof.
  intros fmt a b c (A1 & A2 & A3 & A4 & A5) (B1 & B2 & B3 & B4 & B5).
  repeat split; try congruence; intros u v p; rewrite B5; apply A5.
Qed.

Lemma ocursor_equiv_refl : forall fmt a, ocursor_equiv fmt a a.
Proof. intros fmt [c|]; cbn; auto using cursor_equiv_refl. Qed.

Lemma ocursor_equiv_trans : forall fmt a b c, ocursor_equiv fmt a b -> ocursor_equiv fmt b c -> ocursor_equiv fmt a c.
Proof.
  intros fmt [a|] [b|] [c|]; cbn; try tauto. apply cursor_equiv_trans.
Qed.

Lemma inv_transfer : forall fixed fmt s s1 cl,
  Inv fixed fmt s cl -> sfb s1 = sfb s -> ocursor_equiv fmt (scur s) (scur s1) -> Inv fixed fmt s1 cl.
Proof.
  intros fixed fmt s s1 cl [Sp Ip] Ef Ec. split; [rewrite Ef; exact Sp|].
  intros x y M. rewrite (Ip _ _ M), Ef. destruct (fb_get (sfb s) x y) as [p|]; [|reflexivity]. cbn. f_equal.
  unfold px_of. rewrite Ef. destruct (shape cl); auto.
  destruct (scur s) as [c|], (scur s1) as [c1|]; cbn in Ec; try tauto.
  symmetry. apply painted_px_equiv. exact Ec.
Qed.

Lemma make_x_from_rich_spec : forall fmt c c', make_x_from_rich fmt c = Some c' ->
  cw c' = cw c /\ ch c' = ch c /\ cxhot c' = cxhot c /\ cyhot c' = cyhot c /\ cmask c' = cmask c /\
  crich c' = crich c /\ calpha c' = calpha c /\ cpremult c' = cpremult c /\ csource c' <> None.
Proof.
  intros fmt c c' H. unfold make_x_from_rich in H.
  destruct (cback c) as [[br bg] bb].
  match type of H with (match ?A with Some _ => _ | None => None end) = _ => destruct A; [|discriminate] end.
  inversion H; subst; cbn. repeat split; auto. discriminate.
Qed.

Lemma shape_msg_cursor : forall v_empty rich fmt oc oc2 bytes,
  wf_ocursor oc -> shape_msg v_empty rich fmt oc = Some (oc2, bytes) ->
  wf_ocursor oc2 /\ ocursor_equiv fmt oc oc2.
Proof.
  intros v_empty rich fmt oc oc2 bytes W H. unfold shape_msg in H.
  match type of H with (match ?A with Some _ => _ | None => None end) = _ =>
    destruct A as [oc1|] eqn:Conv; [|discriminate] end.
  unfold shape_conv in Conv.
  assert (R : wf_ocursor oc1 /\ ocursor_equiv fmt oc oc1).
  { destruct oc as [c|]; [|inversion Conv; subst; cbn; auto].
    cbn in W. destruct rich.
    - destruct (crich c) as [r0|] eqn:Er.
      + inversion Conv; subst. split; [exact W|apply cursor_equiv_refl].
      + destruct (make_rich_from_x fmt c) as [r|] eqn:Em; [|discriminate]. inversion Conv; subst.
        assert (E : ensure_rich fmt c = Some (set_rich c r, r)) by (unfold ensure_rich; rewrite Er, Em; reflexivity).
        destruct (ensure_rich_ok fmt c W) as (c2 & r2 & E2 & L2). rewrite E in E2. inversion E2; subst.
        split; [eapply wf_cursor_rich; eauto | eapply ensure_rich_equiv; eauto].
    - destruct (csource c) as [s0|] eqn:Es.
      + inversion Conv; subst. split; [exact W|apply cursor_equiv_refl].
      + destruct (make_x_from_rich fmt c) as [c'|] eqn:Em; [|discriminate]. inversion Conv; subst.
        destruct (make_x_from_rich_spec _ _ _ Em) as (G1 & G2 & G3 & G4 & G5 & G6 & G7 & G8 & G9).
        destruct W as (Hw & Hh & Lm & Lr & La). rewrite Es in Lr.
        destruct (crich c) as [r|] eqn:Er; [|contradiction].
        split.
        * unfold wf_ocursor, wf_cursor, w8. rewrite G1, G2, G5, G6, G7. rewrite ?Er. repeat split; auto.
        * unfold ocursor_equiv. repeat split; auto. intros u v p. unfold cellfun, ensure_rich. rewrite G6, ?Er.
          unfold cursor_cell, show_val, w8. rewrite G1, G5, G7, G8. reflexivity. }
  destruct R as [R1 R2].
  match type of H with (match ?A with _ => _ end) = _ =>
    destruct A as [[|]|]; [| |discriminate] end.
  - inversion H; subst; auto.
  - destruct oc1 as [c|]; [|discriminate].
    match type of H with (if ?B then None else _) = _ => destruct B; [discriminate|] end.
    destruct (take_exact _ (cmask c)); [|discriminate].
    destruct rich.
    + destruct (take_exact _ _); [|discriminate]. inversion H; subst; auto.
    + destruct (take_exact _ _); [|discriminate]. destruct (cfore c) as [[? ?] ?]. destruct (cback c) as [[? ?] ?].
      inversion H; subst; auto.
Qed.

Lemma send_update_cursor : forall fixed v_empty fmt s cl s' cl' o,
  wf_fb (sfb s) -> wf_ocursor (scur s) ->
  send_update fixed v_empty fmt s cl = Some (s', cl', o) ->
  wf_ocursor (scur s') /\ ocursor_equiv fmt (scur s) (scur s').
Proof.
  intros fixed v_empty fmt s cl s' cl' o Wf Wc H. unfold send_update in H.
  destruct (rgn_is_empty _ _ _ && _ && _ && _); [inversion H; subst; auto using ocursor_equiv_refl|].
  destruct (shape cl) eqn:Sh.
  - cbn [negb andb] in H. destruct (changed cl).
    + destruct (shape_msg v_empty (userich cl) fmt (scur s)) as [[oc2 b]|] eqn:Em; [|discriminate].
      inversion H; subst; cbn. eapply shape_msg_cursor; eauto.
    + inversion H; subst; cbn. auto using ocursor_equiv_refl.
  - cbn [negb andb] in H.
    destruct (scur s) as [c|] eqn:Ec.
    + set (cx := if negb ((clx cl =? sx s) && (cly cl =? sy s)) then sx s else clx cl) in *.
      set (cy := if negb ((clx cl =? sx s) && (cly cl =? sy s)) then sy s else cly cl) in *.
      destruct (hide_show_id fixed fmt (sfb s) c cx cy (subuf s) Wf Wc) as (f1 & buf & c' & S & Hd).
      rewrite S in H. cbn beta iota zeta in H. rewrite Hd in H. inversion H; subst; cbn.
      split; [|eapply show_cursor_equiv; eauto].
      pose proof S as S'. unfold show in S'.
      destruct (clip1 fixed cx (cxhot c) (cw c) (fw (sfb s))) as [[[x1 i1] x2]|]; [|inversion S'; subst; auto].
      destruct (clip1 fixed cy (cyhot c) (ch c) (fh (sfb s))) as [[[y1 j1] y2]|]; [|inversion S'; subst; auto].
      destruct (save (sfb s) x1 y1 x2 y2); [|discriminate].
      destruct (ensure_rich fmt c) as [[c2 r2]|] eqn:Er; [|discriminate].
      destruct (paint _ _ _ _ _ (sfb s)); [|discriminate]. inversion S'; subst.
      destruct (ensure_rich_ok fmt c Wc) as (c3 & r3 & E3 & L3). rewrite Er in E3. inversion E3; subst.
      eapply wf_cursor_rich; eauto.
    + cbn beta iota zeta in H. inversion H; subst; cbn. auto.
Qed.

(* C15_redraw_covers over a whole round of the event loop: every client that is still connected
   keeps its invariant, whatever the other clients' updates did to the shared cursor state *)
Theorem inv_pump : forall fixed v_empty fmt cls s s' res,
  wf_fb (sfb s) -> wf_ocursor (scur s) ->
  Forall (fun cl => failnext cl = false) cls ->
  Forall (Inv fixed fmt s) cls ->
  pump fixed v_empty fmt s cls = Some (s', res) ->
  sfb s' = sfb s /\ wf_ocursor (scur s') /\ ocursor_equiv fmt (scur s) (scur s') /\
  Forall (Inv fixed fmt s') (map fst res).
Proof.
  intros fixed v_empty fmt cls. induction cls as [|cl t IH]; intros s s' res Wf Wc Ff Fi H.
  - cbn in H. inversion H; subst. cbn. auto using ocursor_equiv_refl.
  - cbn [pump] in H. inversion Ff as [|? ? Fn Ff']; subst. inversion Fi as [|? ? I Fi']; subst.
    match type of H with (match ?A with Some _ => _ | None => None end) = _ =>
      destruct A as [[[s1 cl1] o]|] eqn:R; [|discriminate] end.
    destruct (pump fixed v_empty fmt s1 t) as [[s2 rest]|] eqn:P; [|discriminate].
    inversion H; subst; clear H.
    assert (Step : sfb s1 = sfb s /\ wf_ocursor (scur s1) /\ ocursor_equiv fmt (scur s) (scur s1) /\
                   Inv fixed fmt s1 cl1).
    { destruct (alive cl && fb_update_pending s cl && negb (rgn_is_empty (fw (sfb s)) (fh (sfb s)) (req cl))).
      - destruct (send_update_cursor _ _ _ _ _ _ _ _ Wf Wc R) as [W1 E1].
        split; [eapply send_update_restores; eauto|]. split; [exact W1|]. split; [exact E1|].
        eapply inv_send_update; eauto.
      - inversion R; subst. split; [reflexivity|]. split; [exact Wc|]. split; [apply ocursor_equiv_refl|exact I]. }
    destruct Step as (Ef & W1 & E1 & I1).
    assert (Wf1 : wf_fb (sfb s1)) by (rewrite Ef; exact Wf).
    assert (Fi1 : Forall (Inv fixed fmt s1) t).
    { rewrite Forall_forall in *. intros c Hc. eapply inv_transfer; eauto. }
    destruct (IH _ _ _ Wf1 W1 Ff' Fi1 P) as (Ef2 & W2 & E2 & I2).
    split; [congruence|]. split; [exact W2|]. split; [eapply ocursor_equiv_trans; eauto|].
    cbn [map fst]. constructor; auto. eapply inv_transfer; eauto.
Qed.

(* ------------------------------------------------------------------ SetEncodings *)
Lemma set_enc_loop_spec : forall s encs c,
  let c' := set_enc_loop s encs c in
  pic c' = pic c /\ clx c' = clx c /\ cly c' = cly c /\ (shape c = true -> shape c' = true) /\
  forall x y, modif c' x y = false ->
    modif c x y = false /\
    (shape c = false -> shape c' = true ->
     redraw_box (scur s) (clx c) (cly c) (fw (sfb s)) (fh (sfb s)) x y = false).
Proof.
  intros s encs. induction encs as [|e t IH]; intros c; cbn [set_enc_loop].
  - cbn. repeat split; auto. intros A B; congruence.
  - match goal with |- context [set_enc_loop s t ?X] => set (cl' := X) end.
    destruct (IH cl') as (P & Xe & Ye & Sh & M). cbn zeta.
    assert (K : pic cl' = pic c /\ clx cl' = clx c /\ cly cl' = cly c /\
                (shape c = true -> shape cl' = true) /\
                (forall x y, modif cl' x y = false -> modif c x y = false /\
                   (shape c = false -> shape cl' = true ->
                    redraw_box (scur s) (clx c) (cly c) (fw (sfb s)) (fh (sfb s)) x y = false)) /\
                (shape cl' = false -> shape c = false)).
    { subst cl'.
      assert (Fin : forall (P Q : Prop) a b, (a || b = false -> (a = false -> P) -> (b = false -> Q) -> P /\ Q)).
      { intros P0 Q0 a b Hab HP HQ. apply orb_false_elim in Hab. tauto. }
      destruct (e =? 0); [|destruct (e =? 1); [|destruct (e =? 2)]];
        [destruct (shape c) eqn:S0 | destruct (shape c) eqn:S0 | destruct (posupd c) | ];
        cbn [pic clx cly shape modif redraw set_modif];
        (split; [reflexivity|]); (split; [reflexivity|]); (split; [reflexivity|]);
        (split; [auto|]); (split; [|intros; congruence]);
        intros x0 y0 Mx; try (split; [exact Mx|intros; congruence]);
        unfold rgn_or in Mx; apply orb_false_elim in Mx; destruct Mx as [Mx1 Mx2]; split; auto. }
    destruct K as (Kp & Kx & Ky & Ksh & Km & Kf).
    split; [congruence|]. split; [congruence|]. split; [congruence|]. split; [auto|].
    intros x0 y0 Mx. destruct (M _ _ Mx) as [M1 M2]. destruct (Km _ _ M1) as [M3 M4]. split; [exact M3|].
    intros S0 S1. destruct (shape cl') eqn:Scl.
    + apply M4; auto.
    + rewrite <- Kx, <- Ky. apply M2; auto.
Qed.

(* a client that changes its cursor-related encodings keeps the invariant -- for the code as it is
   (v_switch = false) only when it does not go from cursor-shape updates back to a painted cursor *)
Theorem inv_set_encodings : forall fixed fmt v_switch s encs cl,
  wf_fb (sfb s) -> Inv fixed fmt s cl ->
  v_switch = true \/ shape cl = false \/ shape (set_encodings v_switch s encs cl) = true ->
  Inv fixed fmt s (set_encodings v_switch s encs cl).
Proof.
  intros fixed fmt v_switch s encs cl Wf I Hyp. unfold set_encodings in *.
  set (c0 := mkcl false false false false (moved cl) (clx cl) (cly cl) (modif cl) (req cl) (pic cl)
                  (alive cl) (failnext cl)) in *.
  destruct (set_enc_loop_spec s encs c0) as (P & X & Y & _ & M).
  set (c1 := set_enc_loop s encs c0) in *.
  set (c2 := if posupd c1 && negb (shape c1)
             then mkcl (shape c1) (userich c1) false (changed c1) (moved c1) (clx c1) (cly c1) (modif c1)
                       (req c1) (pic c1) (alive c1) (failnext c1)
             else c1) in *.
  assert (E2 : pic c2 = pic c1 /\ clx c2 = clx c1 /\ cly c2 = cly c1 /\ modif c2 = modif c1 /\ shape c2 = shape c1).
  { subst c2. destruct (posupd c1 && negb (shape c1)); cbn; auto. }
  destruct E2 as (E2p & E2x & E2y & E2m & E2s).
  unfold c0 in P, X, Y, M.
  cbn [pic clx cly modif shape] in P, X, Y, M.
  destruct (v_switch && shape cl && negb (shape c2)) eqn:Sw.
  - (* the repaired code: the box is redrawn *)
    apply (inv_reshape fixed fmt s cl); [exact Wf|exact I| | | |]; unfold redraw, set_modif; cbn [pic clx cly modif shape];
      try congruence.
    intros x y Mx. unfold rgn_or in Mx. apply orb_false_elim in Mx. destruct Mx as [Mx Bx].
    rewrite E2m in Mx. destruct (M _ _ Mx) as [M0 _]. split; [exact M0|]. intros _.
    rewrite E2x, E2y, X, Y in Bx. exact Bx.
  - apply (inv_reshape fixed fmt s cl); [exact Wf|exact I| | | |]; try congruence.
    intros x y Mx. rewrite E2m in Mx. destruct (M _ _ Mx) as [M0 Mb]. split; [exact M0|].
    intros Ne. rewrite E2s in Ne.
    destruct (shape cl) eqn:S0, (shape c1) eqn:S1; try congruence.
    + (* shape -> soft without redraw: excluded by the hypothesis *)
      exfalso. rewrite E2s in Sw.
      destruct Hyp as [Hv|[Hs|Hs]]; try congruence.
      rewrite Hv in Sw. cbn in Sw. discriminate.
    + apply Mb; auto.
Qed.

Definition sw_scr : screen :=
  mkscr (mkfb 2 2 [[1; 2]; [3; 4]])
        (Some (mkcur 1 1 0 0 None [128] (Some [9]) None false (0, 0, 0) (0, 0, 0) false)) 0 0 [].
Definition sw_cl : client :=
  mkcl true true false false false 0 0 rgn_none rgn_none (mkfb 2 2 [[1; 2]; [3; 4]]) true false.

(* F15c: the code as it is loses the invariant when a client withdraws cursor-shape support *)
Lemma set_encodings_switch_refuted :
  exists fixed fmt s cl encs,
    wf_fb (sfb s) /\ wf_ocursor (scur s) /\ Inv fixed fmt s cl /\
    ~ Inv fixed fmt s (set_encodings false s encs cl).
Proof.
  exists false, fmt32, sw_scr, sw_cl, [].
  split; [|split; [|split]].
  - unfold wf_fb; cbn. repeat split; try lia. repeat constructor.
  - unfold wf_ocursor, wf_cursor; cbn. repeat split; lia.
  - split; [apply same_shape_refl|]. intros x y _. unfold px_of; cbn [shape sw_cl].
    rewrite option_map_id. reflexivity.
  - intros [_ I]. specialize (I 0 0 eq_refl). vm_compute in I. discriminate.
Qed.

Example inv_set_encodings_nonvacuous :
  Inv true fmt32 sw_scr sw_cl /\ shape (set_encodings true sw_scr [] sw_cl) = false.
Proof.
  split; [|reflexivity]. split; [apply same_shape_refl|]. intros x y _. unfold px_of; cbn [shape sw_cl].
  rewrite option_map_id. reflexivity.
Qed.

(* ------------------------------------------------------------------ pointer position updates *)
Lemma ptr_flags_spec : forall k cls idx i cl, nth_error cls i = Some cl ->
  exists cl', nth_error (ptr_flags k idx cls) i = Some cl' /\ posupd cl' = posupd cl /\
    (posupd cl = true -> moved cl' = negb (idx + Z.of_nat i =? k)) /\
    (posupd cl = false -> cl' = cl).
Proof.
  intros k cls. induction cls as [|c t IH]; intros idx i cl H; [destruct i; discriminate|].
  destruct i as [|i]; cbn [ptr_flags nth_error] in *.
  - inversion H; subst. rewrite Z.add_0_r. destruct (posupd cl) eqn:P; eexists; repeat split; eauto; cbn; auto; discriminate.
  - destruct (IH (idx + 1) i cl H) as (cl' & N & P & Mv & Eq). exists cl'. repeat split; auto.
    intros Pp. rewrite (Mv Pp). f_equal. f_equal. lia.
Qed.

(* rfbDefaultPtrAddEvent: the pointer is where the event says; every OTHER position-capable client
   is flagged, the moving client is not *)
Theorem ptr_event_flags : forall s cls k x y i cl,
  (x, y) <> (sx s, sy s) -> nth_error cls i = Some cl ->
  let s' := fst (ptr_event s cls k x y) in
  sx s' = x /\ sy s' = y /\
  exists cl', nth_error (snd (ptr_event s cls k x y)) i = Some cl' /\ posupd cl' = posupd cl /\
    (posupd cl = true -> moved cl' = negb (Z.of_nat i =? k)).
Proof.
  intros s cls k x y i cl Ne H. unfold ptr_event.
  destruct ((x =? sx s) && (y =? sy s)) eqn:E.
  - exfalso. apply andb_prop in E. destruct E as [A B]. apply Z.eqb_eq in A. apply Z.eqb_eq in B. congruence.
  - cbn. destruct (ptr_flags_spec k cls 0 i cl H) as (cl' & N & P & Mv & _). repeat split; auto.
    exists cl'. repeat split; auto.
Qed.

(* the next update that reaches a flagged client carries exactly the pointer position and clears
   the flag; an unflagged client gets none *)
Theorem send_update_pos : forall fixed v_empty fmt s cl s' cl' o,
  send_update fixed v_empty fmt s cl = Some (s', cl', o) -> failnext cl = false ->
  (posupd cl && moved cl = true -> o_sent o = true /\ o_pos o = Some (sx s, sy s) /\ moved cl' = false) /\
  (posupd cl && moved cl = false -> o_pos o = None /\ moved cl' = moved cl).
Proof.
  intros fixed v_empty fmt s cl s' cl' o H Fn. unfold send_update in H. rewrite Fn in H.
  destruct (posupd cl && moved cl) eqn:Pm.
  - cbn [negb] in H. rewrite !andb_false_r in H.
    destruct (if shape cl then Some (sfb s, subuf s, scur s) else _) as [[[f1 ub1] oc1]|]; [|discriminate].
    destruct (if shape cl && changed cl then _ else _) as [[oc2 shp]|]; [|discriminate].
    destruct (if shape cl then Some f1 else _) as [f2|]; [|discriminate].
    inversion H; subst. cbn. split; [auto|intros; discriminate].
  - destruct (rgn_is_empty _ _ _ && _ && _ && _).
    { inversion H; subst. cbn. split; [intros; discriminate|auto]. }
    destruct (if shape cl then Some (sfb s, subuf s, scur s) else _) as [[[f1 ub1] oc1]|]; [|discriminate].
    destruct (if shape cl && changed cl then _ else _) as [[oc2 shp]|]; [|discriminate].
    destruct (if shape cl then Some f1 else _) as [f2|]; [|discriminate].
    inversion H; subst. cbn. split; [intros; discriminate|auto].
Qed.

(* ------------------------------------------------------------------ non-vacuity *)
Example redraw_covers_nonvacuous :
  let cl := fur (new_client sw_scr) false 0 0 2 2 in
  wf_fb (sfb sw_scr) /\ wf_ocursor (scur sw_scr) /\ failnext cl = false /\ Inv false fmt32 sw_scr cl /\
  exists s' cl' o, send_update false false fmt32 sw_scr cl = Some (s', cl', o) /\ o_sent o = true /\
                   fb_get (pic cl') 0 0 = Some 9 /\ fb_get (sfb s') 0 0 = Some 1.
Proof.
  cbv zeta. split; [|split; [|split; [|split]]].
  - unfold wf_fb; cbn. repeat split; try lia. repeat constructor.
  - unfold wf_ocursor, wf_cursor; cbn. repeat split; lia.
  - reflexivity.
  - apply inv_fur. apply inv_new_client. unfold wf_fb; cbn. repeat split; try lia. repeat constructor.
  - do 3 eexists. split; [vm_compute; reflexivity|]. repeat split; vm_compute; reflexivity.
Qed.

Example pos_updates_nonvacuous :
  let cls := [new_client sw_scr; set_encodings false sw_scr [1; 2] (new_client sw_scr)] in
  exists cl', nth_error (snd (ptr_event sw_scr cls 0 1 1)) 1 = Some cl' /\ posupd cl' = true /\ moved cl' = true.
Proof. cbv zeta. eexists. split; [vm_compute; reflexivity|]. split; reflexivity. Qed.

(* the tree (commit 2b32386, v_switch = true): every SetEncodings keeps the invariant *)
Theorem inv_set_encodings_tree : forall fixed fmt s encs cl,
  wf_fb (sfb s) -> Inv fixed fmt s cl -> Inv fixed fmt s (set_encodings true s encs cl).
Proof. intros. apply inv_set_encodings; auto. Qed.

(* ------------------------------------------------------------------ cursor replaced during an update *)
Lemma Forall_set_nth {A} : forall (P : A -> Prop) l n v l',
  Forall P l -> P v -> set_nth l n v = Some l' -> Forall P l'.
Proof.
  intros P l. induction l as [|a t IH]; intros n v l' F Pv H; cbn in H; [discriminate|].
  inversion F; subst. destruct n as [|n].
  - inversion H; subst. constructor; auto.
  - destruct (set_nth t n v) as [t'|] eqn:E; [|discriminate]. inversion H; subst. constructor; eauto.
Qed.

Lemma set_cursor_screen : forall s cls nc,
  sfb (fst (set_cursor s cls nc)) = sfb s /\ scur (fst (set_cursor s cls nc)) = nc.
Proof. intros. split; reflexivity. Qed.

Lemma set_cursor_failnext : forall s cls nc,
  Forall (fun cl => failnext cl = false) cls ->
  Forall (fun cl => failnext cl = false) (snd (set_cursor s cls nc)).
Proof.
  intros s cls nc F. cbn [set_cursor snd]. rewrite Forall_forall in *. intros c Hin.
  apply in_map_iff in Hin. destruct Hin as (c1 & E & Hin). apply in_map_iff in Hin. destruct Hin as (c0 & E0 & Hin).
  specialize (F _ Hin). subst c c1. destruct (shape c0) eqn:S0; unfold redraw, set_modif; cbn; rewrite ?S0; cbn; rewrite ?S0; cbn; exact F.
Qed.

(* the bracket still restores the framebuffer, and every client keeps its invariant, when the
   application replaces the cursor from its displayHook at the head of the update *)
Theorem inv_update_one : forall fixed v_empty fmt hook s cls k s' cls' o fired,
  wf_fb (sfb s) -> wf_ocursor (scur s) ->
  (forall hk nc, hook = Some (hk, nc) -> wf_ocursor nc) ->
  Forall (fun cl => failnext cl = false) cls ->
  Forall (Inv fixed fmt s) cls ->
  update_one fixed v_empty fmt hook s cls k = Some (s', cls', o, fired) ->
  sfb s' = sfb s /\ wf_ocursor (scur s') /\
  Forall (fun cl => failnext cl = false) cls' /\ Forall (Inv fixed fmt s') cls'.
Proof.
  intros fixed v_empty fmt hook s cls k s' cls' o fired Wf Wc Wh Ff Fi H. unfold update_one in H.
  destruct (nth_error cls k) as [cl|] eqn:Ek; [|inversion H; subst; auto].
  destruct (alive cl && fb_update_pending s cl && negb (rgn_is_empty (fw (sfb s)) (fh (sfb s)) (req cl)));
    [|inversion H; subst; auto].
  (* the state after the hook *)
  assert (Hook : exists s1 cls1 f1,
    (match hook with
     | Some (hk, nc) => if Nat.eqb hk k then (let '(a, b) := set_cursor s cls nc in (a, b, true)) else (s, cls, false)
     | None => (s, cls, false)
     end) = (s1, cls1, f1) /\
    sfb s1 = sfb s /\ wf_ocursor (scur s1) /\ Forall (fun cl => failnext cl = false) cls1 /\
    Forall (Inv fixed fmt s1) cls1).
  { destruct hook as [[hk nc]|]; [|do 3 eexists; split; [reflexivity|auto]].
    destruct (Nat.eqb hk k); [|do 3 eexists; split; [reflexivity|auto]].
    destruct (set_cursor s cls nc) as [a b] eqn:Es. do 3 eexists. split; [reflexivity|].
    pose proof (set_cursor_screen s cls nc) as [A1 A2]. rewrite Es in A1, A2. cbn [fst] in A1, A2.
    split; [exact A1|]. split; [rewrite A2; eapply Wh; reflexivity|].
    pose proof (set_cursor_failnext s cls nc Ff) as F1. rewrite Es in F1. split; [exact F1|].
    pose proof (inv_set_cursor fixed fmt s cls nc Wf Fi) as I1. rewrite Es in I1. exact I1. }
  destruct Hook as (s1 & cls1 & f1 & Eh & Ef1 & Wc1 & Ff1 & Fi1). rewrite Eh in H.
  destruct (nth_error cls1 k) as [cl1|] eqn:Ek1; [|discriminate].
  destruct (send_update fixed v_empty fmt s1 cl1) as [[[s2 cl2] o2]|] eqn:Su; [|discriminate].
  destruct (set_nth cls1 k cl2) as [cls2|] eqn:Sn; [|discriminate]. inversion H; subst; clear H.
  assert (Wf1 : wf_fb (sfb s1)) by (rewrite Ef1; exact Wf).
  pose proof (send_update_restores _ _ _ _ _ _ _ _ Wf1 Wc1 Su) as Ef2.
  destruct (send_update_cursor _ _ _ _ _ _ _ _ Wf1 Wc1 Su) as [Wc2 Eq2].
  assert (In1 : In cl1 cls1) by (eapply nth_error_In; eauto).
  assert (Fn1 : failnext cl1 = false) by (rewrite Forall_forall in Ff1; auto).
  assert (I1 : Inv fixed fmt s1 cl1) by (rewrite Forall_forall in Fi1; auto).
  pose proof (inv_send_update _ _ _ _ _ _ _ _ Wf1 Wc1 Fn1 I1 Su) as I2.
  split; [congruence|]. split; [exact Wc2|]. split.
  - eapply Forall_set_nth; [exact Ff1| |exact Sn].
    unfold send_update in Su. rewrite Fn1 in Su.
    destruct (rgn_is_empty _ _ _ && _ && _ && _); [inversion Su; subst; exact Fn1|].
    destruct (if shape cl1 then Some (sfb s1, subuf s1, scur s1) else _) as [[[a b] c]|]; [|discriminate].
    destruct (if shape cl1 && changed cl1 then _ else _) as [[d e]|]; [|discriminate].
    destruct (if shape cl1 then Some a else _) as [g|]; [|discriminate].
    inversion Su; subst. reflexivity.
  - eapply Forall_set_nth; [|exact I2|exact Sn].
    rewrite Forall_forall in *. intros c Hc. eapply inv_transfer; eauto.
Qed.

Theorem inv_pump_h : forall fixed v_empty fmt k hook s cls outs s' cls' outs' fired,
  wf_fb (sfb s) -> wf_ocursor (scur s) ->
  (forall hk nc, hook = Some (hk, nc) -> wf_ocursor nc) ->
  Forall (fun cl => failnext cl = false) cls ->
  Forall (Inv fixed fmt s) cls ->
  pump_h fixed v_empty fmt k hook s cls outs = Some (s', cls', outs', fired) ->
  sfb s' = sfb s /\ wf_ocursor (scur s') /\ Forall (fun cl => failnext cl = false) cls' /\
  Forall (Inv fixed fmt s') cls'.
Proof.
  intros fixed v_empty fmt k. induction k as [|k IH]; intros hook s cls outs s' cls' outs' fired Wf Wc Wh Ff Fi H.
  - cbn in H. inversion H; subst. auto.
  - cbn [pump_h] in H.
    destruct (update_one fixed v_empty fmt hook s cls k) as [[[[s1 cls1] o] f1]|] eqn:U; [|discriminate].
    destruct (inv_update_one _ _ _ _ _ _ _ _ _ _ _ Wf Wc Wh Ff Fi U) as (E1 & W1 & F1 & I1).
    assert (Wf1 : wf_fb (sfb s1)) by (rewrite E1; exact Wf).
    assert (Wh1 : forall hk nc, (if f1 then None else hook) = Some (hk, nc) -> wf_ocursor nc).
    { intros hk nc E. destruct f1; [discriminate|]. eapply Wh; eauto. }
    destruct (IH _ _ _ _ _ _ _ _ Wf1 W1 Wh1 F1 I1 H) as (E2 & W2 & F2 & I2).
    split; [congruence|]. split; auto.
Qed.

Theorem inv_pump_rounds : forall fuel fixed v_empty fmt hook s cls outs s' cls' outs' fired,
  wf_fb (sfb s) -> wf_ocursor (scur s) ->
  (forall hk nc, hook = Some (hk, nc) -> wf_ocursor nc) ->
  Forall (fun cl => failnext cl = false) cls ->
  Forall (Inv fixed fmt s) cls ->
  pump_rounds fuel fixed v_empty fmt hook s cls outs = Some (s', cls', outs', fired) ->
  sfb s' = sfb s /\ wf_ocursor (scur s') /\ Forall (Inv fixed fmt s') cls'.
Proof.
  induction fuel as [|f IH]; intros fixed v_empty fmt hook s cls outs s' cls' outs' fired Wf Wc Wh Ff Fi H.
  - cbn in H. inversion H; subst. auto.
  - cbn [pump_rounds] in H.
    destruct (pump_h fixed v_empty fmt (length cls) hook s cls []) as [[[[s1 cls1] o1] c1]|] eqn:P; [|discriminate].
    destruct (inv_pump_h _ _ _ _ _ _ _ _ _ _ _ _ Wf Wc Wh Ff Fi P) as (E1 & W1 & F1 & I1).
    destruct (existsb (fun ko => o_sent (snd ko)) o1 || (match hook with Some _ => c1 | None => false end)).
    + assert (Wf1 : wf_fb (sfb s1)) by (rewrite E1; exact Wf).
      assert (Wh1 : forall hk nc, (if c1 then None else hook) = Some (hk, nc) -> wf_ocursor nc).
      { intros hk nc E. destruct c1; [discriminate|]. eapply Wh; eauto. }
      destruct (IH _ _ _ _ _ _ _ _ _ _ _ Wf1 W1 Wh1 F1 I1 H) as (E2 & W2 & I2).
      split; [congruence|]. auto.
    + inversion H; subst. auto.
Qed.

(* even when the write fails: the framebuffer is restored *)
Theorem update_one_restores : forall fixed v_empty fmt hook s cls k s' cls' o fired,
  wf_fb (sfb s) -> wf_ocursor (scur s) ->
  (forall hk nc, hook = Some (hk, nc) -> wf_ocursor nc) ->
  update_one fixed v_empty fmt hook s cls k = Some (s', cls', o, fired) -> sfb s' = sfb s.
Proof.
  intros fixed v_empty fmt hook s cls k s' cls' o fired Wf Wc Wh H. unfold update_one in H.
  destruct (nth_error cls k) as [cl|]; [|inversion H; subst; auto].
  destruct (alive cl && fb_update_pending s cl && negb (rgn_is_empty (fw (sfb s)) (fh (sfb s)) (req cl)));
    [|inversion H; subst; auto].
  assert (Hook : exists s1 cls1 f1,
    (match hook with
     | Some (hk, nc) => if Nat.eqb hk k then (let '(a, b) := set_cursor s cls nc in (a, b, true)) else (s, cls, false)
     | None => (s, cls, false)
     end) = (s1, cls1, f1) /\ sfb s1 = sfb s /\ wf_ocursor (scur s1)).
  { destruct hook as [[hk nc]|]; [|do 3 eexists; split; [reflexivity|auto]].
    destruct (Nat.eqb hk k); [|do 3 eexists; split; [reflexivity|auto]].
    destruct (set_cursor s cls nc) as [a b] eqn:Es. do 3 eexists. split; [reflexivity|].
    pose proof (set_cursor_screen s cls nc) as [A1 A2]. rewrite Es in A1, A2. cbn [fst] in A1, A2.
    split; [exact A1|]. rewrite A2. eapply Wh; reflexivity. }
  destruct Hook as (s1 & cls1 & f1 & Eh & Ef1 & Wc1). rewrite Eh in H.
  destruct (nth_error cls1 k) as [cl1|]; [|discriminate].
  destruct (send_update fixed v_empty fmt s1 cl1) as [[[s2 cl2] o2]|] eqn:Su; [|discriminate].
  destruct (set_nth cls1 k cl2); [|discriminate]. inversion H; subst.
  assert (Wf1 : wf_fb (sfb s1)) by (rewrite Ef1; exact Wf).
  rewrite (send_update_restores _ _ _ _ _ _ _ _ Wf1 Wc1 Su). exact Ef1.
Qed.

(* ------------------------------------------------------------------ one cursor object, several screens *)
(* the tree (since 8f58d2d): a derived rich form is never inherited from another screen, so the
   rich form a screen works with was derived for its own format *)
Theorem rich_cache_matches_format : forall tag fmt c c' r,
  tag <> None ->
  ensure_rich fmt (use_shared true tag fmt c) = Some (c', r) ->
  make_rich_from_x fmt c = Some r.
Proof.
  intros tag fmt c c' r Ht H. destruct tag as [b|]; [|congruence]. unfold use_shared in H.
  destruct (crich c) as [r0|] eqn:Er.
  - unfold ensure_rich in H. cbn [crich] in H.
    match type of H with (match ?A with Some _ => _ | None => None end) = _ =>
      change A with (make_rich_from_x fmt c) in H end.
    destruct (make_rich_from_x fmt c) as [l|]; [|discriminate]. inversion H; subst. reflexivity.
  - unfold ensure_rich in H. rewrite Er in H.
    destruct (make_rich_from_x fmt c) as [l|]; [|discriminate]. inversion H; subst. reflexivity.
Qed.

Definition fmt8 : pixfmt := mkfmt 1 7 7 3 0 3 6.

(* record of F15d (before 8f58d2d): the built-in cursor, painted once on an 8-bit screen, then used by a 32-bit screen:
   rfbShowCursor reads beyond the cached buffer (explicit error value) *)
Lemma rich_cache_old_refuted :
  exists c1 r1, ensure_rich fmt8 default_cursor = Some (c1, r1) /\
    show true fmt32 (mkfb 12 9 (repeat (repeat 0 12) 9)) (use_shared false (Some (bpp fmt8)) fmt32 c1) 5 4 [] = None /\
    exists res, show true fmt32 (mkfb 12 9 (repeat (repeat 0 12) 9)) (use_shared true (Some (bpp fmt8)) fmt32 c1) 5 4 [] = Some res.
Proof.
  do 2 eexists. split; [vm_compute; reflexivity|]. split; [vm_compute; reflexivity|].
  eexists. vm_compute. reflexivity.
Qed.

(* ------------------------------------------------------------------ rfbNewFramebuffer and the cached rich form *)
(* the cached rich form of an X-style cursor is what rfbMakeRichCursorFromXCursor gives for the
   CURRENT server format *)
Definition CacheOK (fmt : pixfmt) (c : cursor) : Prop :=
  forall r, cderived c = true -> crich c = Some r -> csource c <> None -> make_rich_from_x fmt c = Some r.

Lemma make_rich_set_rich : forall fmt c r, make_rich_from_x fmt (set_rich c r) = make_rich_from_x fmt c.
Proof. reflexivity. Qed.

Lemma fmt_eqb_eq : forall a b, fmt_eqb a b = true -> a = b.
Proof.
  intros [a1 a2 a3 a4 a5 a6 a7] [b1 b2 b3 b4 b5 b6 b7] H. unfold fmt_eqb in H; cbn in H.
  rewrite !andb_true_iff, !Z.eqb_eq in H. destruct H as ((((((H1 & H2) & H3) & H4) & H5) & H6) & H7). congruence.
Qed.

Theorem cache_ok_ensure_rich : forall fmt c c' r,
  CacheOK fmt c -> ensure_rich fmt c = Some (c', r) -> CacheOK fmt c'.
Proof.
  intros fmt c c' r Ok H. unfold ensure_rich in H. destruct (crich c) as [r0|] eqn:Er.
  - inversion H; subst. exact Ok.
  - destruct (make_rich_from_x fmt c) as [l|] eqn:Em; [|discriminate]. inversion H; subst.
    intros r1 _ Hr _. cbn in Hr. inversion Hr; subst. rewrite make_rich_set_rich. exact Em.
Qed.

Theorem cache_ok_newfb : forall fold fnew c c',
  CacheOK fold c -> newfb_cursor fold fnew (Some c) = Some c' -> CacheOK fnew c'.
Proof.
  intros fold fnew c c' Ok H. unfold newfb_cursor in H.
  destruct (fmt_eqb fold fnew) eqn:E; cbn [negb andb] in H.
  - inversion H; subst. apply fmt_eqb_eq in E. subst. exact Ok.
  - destruct (csource c) as [s0|] eqn:Es; cbn [andb] in H.
    + destruct (crich c) as [r0|] eqn:Er; cbn [andb] in H.
      * destruct (cderived c) eqn:Ed; inversion H; subst.
        -- intros r _ Hr _. cbn in Hr. discriminate.
        -- intros r Hd. congruence.
      * inversion H; subst. intros r _ Hr. congruence.
    + inversion H; subst. intros r _ _ Hs. congruence.
Qed.

Theorem cache_ok_use_shared : forall tag fmt c, tag <> None -> CacheOK fmt (use_shared true tag fmt c).
Proof.
  intros tag fmt c Ht. destruct tag as [b|]; [|congruence]. unfold use_shared.
  destruct (crich c) as [r0|] eqn:Er.
  - intros r _ Hr. cbn in Hr. discriminate.
  - intros r _ Hr. congruence.
Qed.

(* rfbNewFramebuffer (same size): every client keeps its invariant (everything is marked modified) *)
Theorem inv_new_framebuffer : forall fixed fold fnew s cls f,
  wf_fb f -> same_shape f (sfb s) ->
  Forall (Inv fixed fold s) cls ->
  Forall (Inv fixed fnew (fst (new_framebuffer fold fnew s cls f))) (snd (new_framebuffer fold fnew s cls f)).
Proof.
  intros fixed fold fnew s cls f Wf Sh F. cbn [new_framebuffer fst snd].
  apply Forall_forall. intros c Hin. apply in_map_iff in Hin. destruct Hin as (cl & E & Hin). subst c.
  rewrite Forall_forall in F. destruct (F _ Hin) as [Sp _]. split.
  - cbn [pic set_modif sfb]. eapply same_shape_trans; [exact Sp|apply same_shape_sym; exact Sh].
  - intros x y M. cbn [modif set_modif] in M. cbn [pic set_modif sfb].
    destruct (fb_get f x y) as [p|] eqn:G.
    + destruct (wf_fb_get_lt _ _ _ _ Wf G). unfold rgn_rect in M.
      replace ((0 <=? x) && (x <? fw f) && (0 <=? y) && (y <? fh f)) with true in M; [discriminate|].
      symmetry. rewrite !andb_true_iff, !Z.leb_le, !Z.ltb_lt. lia.
    + cbn. eapply same_shape_get_none; [|exact G].
      eapply same_shape_trans; [exact Sh|apply same_shape_sym; exact Sp].
Qed.
