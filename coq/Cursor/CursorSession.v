(* Mirror model of the cursor-related parts of an update session (DESIGN.md section 5, C15):
   rfbMakeMaskForXCursor, rfbMakeXCursorFromRichCursor, rfbSendCursorShape, rfbSendCursorPos,
   rfbRedrawAfterHideCursor, rfbSetCursor, rfbDefaultPtrAddEvent, the SetEncodings cursor flags,
   FB_UPDATE_PENDING and the show/hide bracket of rfbSendFramebufferUpdate (failure path included).
   Regions are pixel sets (Z -> Z -> bool): the observables compared with the library (client
   picture, application framebuffer, cursor pseudo-rectangles, flags) do not depend on how a region
   is cut into rectangles.  Only definitions here. *)
From LV Require Export Cursor.CursorDefs.
From LV Require Import Gen.Consts_C15 Gen.Funs_C15.
Local Open Scope Z_scope.

(* ------------------------------------------------------------------ rfbMakeMaskForXCursor *)
Definition byte (v : Z) : Z := v mod 256.

(* mask[idx] |= v on a byte list *)
Definition or_at (m : list Z) (idx v : Z) : option (list Z) :=
  match zidx m idx with
  | None => None
  | Some old => zset m idx (Z.lor old v)
  end.

(* body of the inner loop for row j, byte column i (i runs w-1 .. 0) *)
Definition mask_step (w h : Z) (src : list Z) (j i : Z) (m : list Z) : option (list Z) :=
  match zidx src (j * w + i) with
  | None => None
  | Some c0 =>
    match (if 0 <? j then zidx src ((j - 1) * w + i) else Some 0) with
    | None => None
    | Some up =>
      match (if j <? h - 1 then zidx src ((j + 1) * w + i) else Some 0) with
      | None => None
      | Some dn =>
        let c := Z.lor (Z.lor c0 up) dn in
        match (if (0 <? i) && Z.testbit c 7 then or_at m (j * w + i - 1) 1 else Some m) with
        | None => None
        | Some m1 =>
          match (if (i <? w - 1) && Z.testbit c 0 then or_at m1 (j * w + i + 1) 128 else Some m1) with
          | None => None
          | Some m2 => or_at m2 (j * w + i) (byte (Z.lor (Z.lor (Z.shiftl c 1) c) (Z.shiftr c 1)))
          end
        end
      end
    end
  end.

Definition make_mask_for_xcursor (width height : Z) (src : list Z) : option (list Z) :=
  let w := (width + 7) / 8 in
  iter_n (Z.to_nat height) 0 (fun j m =>
    iter_n (Z.to_nat w) 0 (fun k m' => mask_step w height src j (w - 1 - k) m') m)
    (repeat 0 (Z.to_nat (w * height))).

(* ------------------------------------------------------------------ rfbMakeXCursorFromRichCursor *)
Definition all_zero (c : cursor) : bool :=
  let '(fr, fg, fb_) := cfore c in let '(br, bg, bb) := cback c in
  (fr =? 0) && (fg =? 0) && (fb_ =? 0) && (br =? 0) && (bg =? 0) && (bb =? 0).

Definition grey_of (fmt : pixfmt) (p : Z) : Z :=
  let ch1 mx sh := Z.quot (255 * Z.shiftr (Z.land (u32 (Z.shiftl mx sh)) p) sh) mx in
  Z.quot (ch1 (rmax fmt) (rshift fmt) + ch1 (gmax fmt) (gshift fmt) + ch1 (bmax fmt) (bshift fmt)) 3.

(* pack a row-major list of booleans (cw per row) into bitmap bytes, MSB first, w8 bytes per row *)
Fixpoint pack_byte (bits : list bool) (k : nat) (acc : Z) : Z * list bool :=
  match k with
  | O => (acc, bits)
  | S k' => match bits with
            | [] => pack_byte [] k' (2 * acc)
            | b :: t => pack_byte t k' (2 * acc + (if b then 1 else 0))
            end
  end.

Fixpoint pack_row (bits : list bool) (nbytes : nat) : list Z :=
  match nbytes with
  | O => []
  | S n => let '(b, rest) := pack_byte bits 8 0 in b :: pack_row rest n
  end.

Definition make_x_from_rich (fmt : pixfmt) (c : cursor) : option cursor :=
  let r := opt_list (crich c) in
    let interp := all_zero c && ((bpp fmt =? 1) || (bpp fmt =? 2) || (bpp fmt =? 4)) in
    let fore' := if interp then (65535, 65535, 65535) else cfore c in
    let '(br, bg, bb) := cback c in
    let background :=
      u32 (Z.lor (Z.lor (Z.shiftl (Z.quot (rmax fmt * br) 65535) (rshift fmt))
                        (Z.shiftl (Z.quot (gmax fmt * bg) 65535) (gshift fmt)))
                 (Z.shiftl (Z.quot (bmax fmt * bb) 65535) (bshift fmt))) in
    let backpix := pixmod fmt background in
    match collect (Z.to_nat (ch c)) 0 (fun j =>
            match collect (Z.to_nat (cw c)) 0 (fun i =>
                    match zidx r (j * cw c + i) with
                    | None => None
                    | Some p => Some (if interp then 128 <=? grey_of fmt p else negb (p =? backpix))
                    end) with
            | None => None
            | Some bits => Some (pack_row bits (Z.to_nat (w8 c)))
            end) with
    | None => None
    | Some rowsb =>
      Some (mkcur (cw c) (ch c) (cxhot c) (cyhot c) (Some (concat rowsb)) (cmask c) (crich c) (calpha c)
                  (cpremult c) fore' (cback c) (cderived c))
    end.

(* ------------------------------------------------------------------ wire helpers *)
Definition be16 (v : Z) : list Z := [byte (v / 256); byte v].
Definition be32 (v : Z) : list Z := [byte (v / 16777216); byte (v / 65536); byte (v / 256); byte v].
Fixpoint le_bytes (n : nat) (v : Z) : list Z :=
  match n with O => [] | S m => byte v :: le_bytes m (v / 256) end.

Definition rect_header (x y w h enc : Z) : list Z := be16 x ++ be16 y ++ be16 w ++ be16 h ++ be32 enc.

(* first [n] elements, error if there are fewer (the `for` loops over bitmapData) *)
Definition take_exact {A} (n : Z) (l : list A) : option (list A) :=
  if Z.of_nat (length l) <? n then None else Some (firstn (Z.to_nat n) l).

(* the on-demand conversions at the head of rfbSendCursorShape *)
Definition shape_conv (rich : bool) (fmt : pixfmt) (oc : option cursor) : option (option cursor) :=
  match oc with
  | None => Some None
  | Some c =>
    if rich then
      match crich c with
      | Some _ => Some (Some c)
      | None => match make_rich_from_x fmt c with None => None | Some r => Some (Some (set_rich c r)) end
      end
    else
      match csource c with
      | Some _ => Some (Some c)
      | None => match make_x_from_rich fmt c with None => None | Some c' => Some (Some c') end
      end
  end.

(* rfbSendCursorShape: Some (cursor after the on-demand conversions, pseudo-rectangle bytes);
   None = the C code would dereference NULL / read out of range / give up (FIXME branch).
   v_empty = true: the tree since /repo commit 0775c26 (a cursor of width or height 0 is sent as
   "no cursor"); false: before that commit (F15b) *)
Definition shape_msg (v_empty : bool) (rich : bool) (fmt : pixfmt) (oc : option cursor) : option (option cursor * list Z) :=
  let enc := if rich then enc_richcursor else enc_xcursor in
  match shape_conv rich fmt oc with
  | None => None
  | Some oc1 =>
    let empty := match oc1 with
                 | None => Some true
                 | Some c => if v_empty && ((cw c =? 0) || (ch c =? 0)) then Some true
                             else if (cw c =? 1) && (ch c =? 1)
                             then match zidx (cmask c) 0 with None => None | Some m0 => Some (m0 =? 0) end
                             else Some false
                 end in
    match empty with
    | None => None
    | Some true => Some (oc1, rect_header 0 0 0 0 enc)
    | Some false =>
      match oc1 with
      | None => None
      | Some c =>
        let maskBytes := w8 c * ch c in
        let dataBytes := if rich then cw c * ch c * bpp fmt else maskBytes in
        if sz_fbupdate_msg + sz_rect_header + sz_xcursor_colors + maskBytes + dataBytes >? update_buf_size
        then None
        else
          let hdr := rect_header (cxhot c) (cyhot c) (cw c) (ch c) enc in
          match take_exact maskBytes (cmask c) with
          | None => None
          | Some mb =>
            if rich then
              match take_exact (cw c * ch c) (opt_list (crich c)) with
              | None => None
              | Some px => Some (oc1, hdr ++ flat_map (le_bytes (Z.to_nat (bpp fmt))) px ++ mb)
              end
            else
              match take_exact maskBytes (opt_list (csource c)) with
              | None => None
              | Some sb =>
                let '(fr, fg, fb_) := cfore c in let '(br, bg, bb) := cback c in
                Some (oc1, hdr ++ [byte (fr / 256); byte (fg / 256); byte (fb_ / 256);
                                   byte (br / 256); byte (bg / 256); byte (bb / 256)] ++ sb ++ mb)
              end
          end
      end
    end
  end.

Definition pos_msg (x y : Z) : list Z := rect_header x y 0 0 enc_pointerpos.

(* ------------------------------------------------------------------ regions as pixel sets *)
Definition rgn : Type := Z -> Z -> bool.
Definition rgn_none : rgn := fun _ _ => false.
Definition rgn_rect (x1 y1 x2 y2 : Z) : rgn := fun x y => (x1 <=? x) && (x <? x2) && (y1 <=? y) && (y <? y2).
Definition rgn_or (a b : rgn) : rgn := fun x y => a x y || b x y.
Definition rgn_and (a b : rgn) : rgn := fun x y => a x y && b x y.
Definition rgn_sub (a b : rgn) : rgn := fun x y => a x y && negb (b x y).

Fixpoint zrange (n : nat) (k : Z) : list Z := match n with O => [] | S m => k :: zrange m (k + 1) end.
Definition rgn_is_empty (W H : Z) (r : rgn) : bool :=
  forallb (fun y => forallb (fun x => negb (r x y)) (zrange (Z.to_nat W) 0)) (zrange (Z.to_nat H) 0).

(* ------------------------------------------------------------------ screen and clients *)
Record screen : Type := mkscr { sfb : fb; scur : option cursor; sx : Z; sy : Z; subuf : list Z }.

Record client : Type := mkcl {
  shape : bool; userich : bool; posupd : bool;    (* enableCursorShapeUpdates, useRichCursorEncoding, enableCursorPosUpdates *)
  changed : bool; moved : bool;                   (* cursorWasChanged, cursorWasMoved *)
  clx : Z; cly : Z;                               (* cl->cursorX/Y *)
  modif : rgn; req : rgn;                         (* modifiedRegion, requestedRegion *)
  pic : fb;                                       (* what the peer has decoded so far *)
  alive : bool; failnext : bool }.                (* connection open; next write fails *)

Definition new_client (s : screen) : client :=
  mkcl false false false false false (sx s) (sy s)
       (rgn_rect 0 0 (fw (sfb s)) (fh (sfb s))) rgn_none
       (mkfb (fw (sfb s)) (fh (sfb s)) (map (map (fun _ => 0)) (rows (sfb s)))) true false.

Definition set_modif (cl : client) (m : rgn) : client :=
  mkcl (shape cl) (userich cl) (posupd cl) (changed cl) (moved cl) (clx cl) (cly cl) m (req cl) (pic cl)
       (alive cl) (failnext cl).

(* rfbRedrawAfterHideCursor: the cursor box at the client's position, clipped by sraClipRect2 *)
Definition redraw_box (oc : option cursor) (px py W H : Z) : rgn :=
  match oc with
  | None => rgn_none
  | Some c =>
    let x := px - cxhot c in let y := py - cyhot c in
    let '(b, x', y', x2', y2') := sraClipRect2 x y (x + cw c) (y + ch c) 0 0 W H in
    if b then rgn_rect x' y' x2' y2' else rgn_none
  end.

Definition redraw (s : screen) (oc : option cursor) (cl : client) : client :=
  set_modif cl (rgn_or (modif cl) (redraw_box oc (clx cl) (cly cl) (fw (sfb s)) (fh (sfb s)))).

(* rfbSetCursor *)
Definition set_cursor (s : screen) (cls : list client) (nc : option cursor) : screen * list client :=
  let cls1 := map (fun cl => if shape cl then cl else redraw s (scur s) cl) cls in
  let s' := mkscr (sfb s) nc (sx s) (sy s) (subuf s) in
  (s', map (fun cl =>
              let cl' := mkcl (shape cl) (userich cl) (posupd cl) true (moved cl) (clx cl) (cly cl)
                              (modif cl) (req cl) (pic cl) (alive cl) (failnext cl) in
              if shape cl' then cl' else redraw s' nc cl') cls1).

(* SetEncodings, cursor-related flags only.  Encodings: 0 = XCursor, 1 = RichCursor, 2 = PointerPos *)
Fixpoint set_enc_loop (s : screen) (encs : list Z) (cl : client) : client :=
  match encs with
  | [] => cl
  | e :: t =>
    let cl' :=
      if e =? 0 then
        let c1 := if shape cl then cl else redraw s (scur s) cl in
        mkcl true (userich c1) (posupd c1) true (moved c1) (clx c1) (cly c1) (modif c1) (req c1) (pic c1)
             (alive c1) (failnext c1)
      else if e =? 1 then
        let c1 := if shape cl then cl else redraw s (scur s) cl in
        mkcl true true (posupd c1) true (moved c1) (clx c1) (cly c1) (modif c1) (req c1) (pic c1)
             (alive c1) (failnext c1)
      else if e =? 2 then
        if posupd cl then cl
        else mkcl (shape cl) (userich cl) true (changed cl) true (clx cl) (cly cl) (modif cl) (req cl) (pic cl)
                  (alive cl) (failnext cl)
      else cl in
    set_enc_loop s t cl'
  end.

(* v_switch = true: the tree since /repo commit 2b32386 (a client that had cursor-shape updates and
   no longer asks for them gets the cursor box redrawn); false: before that commit (F15c) *)
Definition set_encodings (v_switch : bool) (s : screen) (encs : list Z) (cl : client) : client :=
  let c0 := mkcl false false false false (moved cl) (clx cl) (cly cl) (modif cl) (req cl) (pic cl)
                 (alive cl) (failnext cl) in
  let c1 := set_enc_loop s encs c0 in
  let c2 := if posupd c1 && negb (shape c1)
            then mkcl (shape c1) (userich c1) false (changed c1) (moved c1) (clx c1) (cly c1) (modif c1) (req c1)
                      (pic c1) (alive c1) (failnext c1)
            else c1 in
  if v_switch && shape cl && negb (shape c2) then redraw s (scur s) c2 else c2.

(* rfbDefaultPtrAddEvent from client number k *)
Fixpoint ptr_flags (k idx : Z) (cls : list client) : list client :=
  match cls with
  | [] => []
  | cl :: t =>
    (if posupd cl
     then mkcl (shape cl) (userich cl) (posupd cl) (changed cl) (negb (idx =? k)) (clx cl) (cly cl) (modif cl)
               (req cl) (pic cl) (alive cl) (failnext cl)
     else cl) :: ptr_flags k (idx + 1) t
  end.

Definition ptr_event (s : screen) (cls : list client) (k x y : Z) : screen * list client :=
  if (x =? sx s) && (y =? sy s) then (s, cls)
  else (mkscr (sfb s) (scur s) x y (subuf s), ptr_flags k 0 cls).

(* FramebufferUpdateRequest (rectangle already clipped to the screen and non-empty) *)
Definition fur (cl : client) (incr : bool) (x y w h : Z) : client :=
  let r := rgn_rect x y (x + w) (y + h) in
  mkcl (shape cl) (userich cl) (posupd cl) (changed cl) (moved cl) (clx cl) (cly cl)
       (if incr then modif cl else rgn_or (modif cl) r) (rgn_or (req cl) r) (pic cl) (alive cl) (failnext cl).

(* rfbMarkRectAsModified after the application stored v in every pixel of the rectangle *)
Fixpoint fill_row (y x x1 y1 x2 y2 v : Z) (r : list Z) : list Z :=
  match r with
  | [] => []
  | p :: t => (if rgn_rect x1 y1 x2 y2 x y then v else p) :: fill_row y (x + 1) x1 y1 x2 y2 v t
  end.
Fixpoint fill_rows (y x1 y1 x2 y2 v : Z) (rs : list (list Z)) : list (list Z) :=
  match rs with
  | [] => []
  | r :: t => fill_row y 0 x1 y1 x2 y2 v r :: fill_rows (y + 1) x1 y1 x2 y2 v t
  end.
Definition fill (s : screen) (cls : list client) (x1 y1 x2 y2 v : Z) : screen * list client :=
  (mkscr (mkfb (fw (sfb s)) (fh (sfb s)) (fill_rows 0 x1 y1 x2 y2 v (rows (sfb s)))) (scur s) (sx s) (sy s) (subuf s),
   map (fun cl => set_modif cl (rgn_or (modif cl) (rgn_rect x1 y1 x2 y2))) cls).

(* ------------------------------------------------------------------ the update *)
Definition fb_update_pending (s : screen) (cl : client) : bool :=
  (shape cl && changed cl) ||
  (negb (shape cl) && negb ((clx cl =? sx s) && (cly cl =? sy s))) ||
  (posupd cl && moved cl) ||
  negb (rgn_is_empty (fw (sfb s)) (fh (sfb s)) (modif cl)).

(* the peer stores the pixels of the region [upd] taken from the encoded framebuffer [src] *)
Fixpoint merge_row (upd : rgn) (y x : Z) (src dst : list Z) : list Z :=
  match src, dst with
  | a :: s', b :: d' => (if upd x y then a else b) :: merge_row upd y (x + 1) s' d'
  | _, _ => dst
  end.
Fixpoint merge_rows (upd : rgn) (y : Z) (src dst : list (list Z)) : list (list Z) :=
  match src, dst with
  | a :: s', b :: d' => merge_row upd y 0 a b :: merge_rows upd (y + 1) s' d'
  | _, _ => dst
  end.
Definition fb_merge (upd : rgn) (src dst : fb) : fb := mkfb (fw dst) (fh dst) (merge_rows upd 0 (rows src) (rows dst)).

Record upd_out : Type := mkout { o_sent : bool; o_shape : option (list Z); o_pos : option (Z * Z) }.
Definition no_out : upd_out := mkout false None None.

(* rfbSendFramebufferUpdate(cl, cl->modifiedRegion) for one client; None = error inside the model
   (out-of-range access, NULL dereference in the C code) *)
Definition send_update (fixed v_empty : bool) (fmt : pixfmt) (s : screen) (cl : client)
  : option (screen * client * upd_out) :=
  let W := fw (sfb s) in let H := fh (sfb s) in
  let sendShape := shape cl && changed cl in
  let sendPos := posupd cl && moved cl in
  let upd0 := rgn_and (modif cl) (req cl) in
  if rgn_is_empty W H upd0 && (shape cl || ((clx cl =? sx s) && (cly cl =? sy s))) &&
     negb sendShape && negb sendPos
  then Some (s, cl, no_out)
  else
    let modif' := rgn_sub (modif cl) upd0 in
    let movedpos := negb (shape cl) && negb ((clx cl =? sx s) && (cly cl =? sy s)) in
    let upd := if movedpos
               then rgn_or (rgn_or upd0 (redraw_box (scur s) (clx cl) (cly cl) W H))
                           (redraw_box (scur s) (sx s) (sy s) W H)
               else upd0 in
    let cx := if movedpos then sx s else clx cl in
    let cy := if movedpos then sy s else cly cl in
    (* rfbShowCursor *)
    match (if shape cl then Some (sfb s, subuf s, scur s)
           else match scur s with
                | None => Some (sfb s, subuf s, None)
                | Some c => match show fixed fmt (sfb s) c cx cy (subuf s) with
                            | None => None
                            | Some (f1, b, c') => Some (f1, b, Some c')
                            end
                end) with
    | None => None
    | Some (f1, ub1, oc1) =>
      match (if sendShape then match shape_msg v_empty (userich cl) fmt oc1 with
                               | None => None
                               | Some (oc2, bytes) => Some (oc2, Some bytes)
                               end
             else Some (oc1, None)) with
      | None => None
      | Some (oc2, shp) =>
        let ok := negb (failnext cl) in
        let pic' := if ok then fb_merge upd f1 (pic cl) else pic cl in
        (* rfbHideCursor *)
        match (if shape cl then Some f1
               else match oc2 with
                    | None => Some f1
                    | Some c => hide fixed f1 c cx cy ub1
                    end) with
        | None => None
        | Some f2 =>
          Some (mkscr f2 oc2 (sx s) (sy s) ub1,
                mkcl (shape cl) (userich cl) (posupd cl)
                     (if sendShape then false else changed cl) (if sendPos then false else moved cl)
                     cx cy modif' rgn_none pic' ok false,
                mkout ok (if ok then shp else None) (if ok && sendPos then Some (sx s, sy s) else None))
        end
      end
    end.

(* rfbUpdateClient for every client (one pass: a sent update empties requestedRegion) *)
Fixpoint pump (fixed v_empty : bool) (fmt : pixfmt) (s : screen) (cls : list client)
  : option (screen * list (client * upd_out)) :=
  match cls with
  | [] => Some (s, [])
  | cl :: t =>
    let r := if alive cl && fb_update_pending s cl &&
                negb (rgn_is_empty (fw (sfb s)) (fh (sfb s)) (req cl))
             then send_update fixed v_empty fmt s cl else Some (s, cl, no_out) in
    match r with
    | None => None
    | Some (s1, cl1, o) =>
      match pump fixed v_empty fmt s1 t with
      | None => None
      | Some (s2, rest) => Some (s2, (cl1, o) :: rest)
      end
    end
  end.

(* ------------------------------------------------------------------ cursor replaced during an update *)
(* rfbUpdateClient for the client at position k when the application's displayHook - called at the
   head of rfbSendFramebufferUpdate - replaces the cursor (rfbSetCursor) for client number hk.
   hook = Some (hk, new cursor).  Result: screen, clients, what was sent, "the hook has run". *)
Definition update_one (fixed v_empty : bool) (fmt : pixfmt) (hook : option (nat * option cursor))
           (s : screen) (cls : list client) (k : nat)
  : option (screen * list client * upd_out * bool) :=
  match nth_error cls k with
  | None => Some (s, cls, no_out, false)
  | Some cl =>
    if alive cl && fb_update_pending s cl && negb (rgn_is_empty (fw (sfb s)) (fh (sfb s)) (req cl))
    then
      let '(s1, cls1, fired) :=
        match hook with
        | Some (hk, nc) => if Nat.eqb hk k then (let '(a, b) := set_cursor s cls nc in (a, b, true))
                           else (s, cls, false)
        | None => (s, cls, false)
        end in
      match nth_error cls1 k with
      | None => None
      | Some cl1 =>
        match send_update fixed v_empty fmt s1 cl1 with
        | None => None
        | Some (s2, cl2, o) =>
          match set_nth cls1 k cl2 with
          | None => None
          | Some cls2 => Some (s2, cls2, o, fired)
          end
        end
      end
    else Some (s, cls, no_out, false)
  end.

(* one round of the event loop, clients in the order of the library's client list (newest first =
   highest position first); the hook runs at most once *)
Fixpoint pump_h (fixed v_empty : bool) (fmt : pixfmt) (k : nat) (hook : option (nat * option cursor))
         (s : screen) (cls : list client) (outs : list (nat * upd_out))
  : option (screen * list client * list (nat * upd_out) * bool) :=
  match k with
  | O => Some (s, cls, outs, match hook with None => true | Some _ => false end)
  | S k' =>
    match update_one fixed v_empty fmt hook s cls k' with
    | None => None
    | Some (s1, cls1, o, fired) =>
      pump_h fixed v_empty fmt k' (if fired then None else hook) s1 cls1 ((k', o) :: outs)
    end
  end.

(* the event loop runs until a round sends nothing (a cursor replaced during one client's update makes
   clients visited earlier in the round pending again); fuel = maximal number of rounds *)
Fixpoint pump_rounds (fuel : nat) (fixed v_empty : bool) (fmt : pixfmt) (hook : option (nat * option cursor))
         (s : screen) (cls : list client) (outs : list (nat * upd_out))
  : option (screen * list client * list (nat * upd_out) * bool) :=
  match fuel with
  | O => Some (s, cls, outs, match hook with None => true | Some _ => false end)
  | S f =>
    match pump_h fixed v_empty fmt (length cls) hook s cls [] with
    | None => None
    | Some (s1, cls1, o1, consumed) =>
      if existsb (fun ko => o_sent (snd ko)) o1 || (match hook with Some _ => consumed | None => false end)
      then pump_rounds f fixed v_empty fmt (if consumed then None else hook) s1 cls1 (outs ++ o1)
      else Some (s1, cls1, outs ++ o1, consumed)
    end
  end.

(* ------------------------------------------------------------------ a cursor object used by several screens *)
(* the library's built-in cursor (main.c: myCursor), which every new screen starts with *)
Definition default_cursor : cursor :=
  mkcur 8 7 3 3 (Some [0; 66; 36; 24; 36; 66; 0]) [231; 231; 126; 60; 126; 231; 231] None None false
        (0, 0, 0) (65535, 65535, 65535) false.

Fixpoint le_value (bytes : list Z) : Z :=
  match bytes with [] => 0 | b :: t => b + 256 * le_value t end.

(* the pixels one gets by reading, with pixels of bnew bytes, the memory of an array of pixels of bold
   bytes: as many as lie completely inside that memory (reading further is an out-of-range access:
   the list ends there) *)
Fixpoint chunk_pixels (fuel : nat) (bnew : nat) (bytes : list Z) : list Z :=
  match fuel with
  | O => []
  | S f => if (length bytes <? bnew)%nat || (bnew =? 0)%nat then []
           else le_value (firstn bnew bytes) :: chunk_pixels f bnew (skipn bnew bytes)
  end.
Definition regroup (bold bnew : Z) (r : list Z) : list Z :=
  let bytes := flat_map (le_bytes (Z.to_nat bold)) r in
  chunk_pixels (length bytes) (Z.to_nat bnew) bytes.

(* The cursor as a screen of format fmt finds it when its rich form was derived by the library
   (rfbMakeRichCursorFromXCursor) on a screen whose pixels have [tag] bytes (None: not derived).
   v_cache = true: the tree since /repo commit 8f58d2d - every screen has its own copy of the built-in
   cursor, a derived rich form is never inherited from another screen;
   v_cache = false: before it (F15d) - the cached bytes are read with the new pixel size. *)
Definition use_shared (v_cache : bool) (tag : option Z) (fmt : pixfmt) (c : cursor) : cursor :=
  match tag, crich c with
  | Some bold, Some r =>
      if v_cache
      then mkcur (cw c) (ch c) (cxhot c) (cyhot c) (csource c) (cmask c) None (calpha c) (cpremult c) (cfore c) (cback c) false
      else if bold =? bpp fmt then c else set_rich c (regroup bold (bpp fmt) r)
  | _, _ => c
  end.

(* ------------------------------------------------------------------ rfbNewFramebuffer *)
(* rfbInitServerFormat(bitsPerSample) on a little-endian host *)
Definition init_format (bppv bps : Z) : pixfmt :=
  if bppv =? 1 then mkfmt 1 7 7 3 0 3 6
  else let m := 2 ^ bps - 1 in mkfmt bppv m m m 0 bps (2 * bps).

Definition fmt_eqb (a b : pixfmt) : bool :=
  (bpp a =? bpp b) && (rmax a =? rmax b) && (gmax a =? gmax b) && (bmax a =? bmax b) &&
  (rshift a =? rshift b) && (gshift a =? gshift b) && (bshift a =? bshift b).

Definition drop_rich (c : cursor) : cursor :=
  mkcur (cw c) (ch c) (cxhot c) (cyhot c) (csource c) (cmask c) None (calpha c) (cpremult c) (cfore c) (cback c) false.

(* the cursor-related part of rfbNewFramebuffer (since /repo commit 02b132c): when serverFormat changes,
   a rich form the library derived from the X cursor is dropped (it is in the old pixel format) *)
Definition newfb_cursor (fold fnew : pixfmt) (oc : option cursor) : option cursor :=
  match oc with
  | None => None
  | Some c =>
    if negb (fmt_eqb fold fnew) &&
       (match csource c with Some _ => true | None => false end) &&
       (match crich c with Some _ => true | None => false end) && cderived c
    then Some (drop_rich c) else Some c
  end.

(* rfbNewFramebuffer with the same size: new pixels, pointer position clamped to the screen, every
   client has everything modified *)
Definition new_framebuffer (fold fnew : pixfmt) (s : screen) (cls : list client) (f : fb) : screen * list client :=
  (mkscr f (newfb_cursor fold fnew (scur s))
         (if sx s >=? fw f then fw f - 1 else sx s) (if sy s >=? fh f then fh f - 1 else sy s) (subuf s),
   map (fun cl => set_modif cl (rgn_rect 0 0 (fw f) (fh f))) cls).
