(* Proofs about the soft-cursor model (CursorDefs.v): pointwise characterisation of the paint
   loops, hide (show fb) = fb, show = overlay (partial for the code as it is, full for the fix). *)
From LV Require Import Cursor.CursorDefs.
Local Open Scope Z_scope.

Ltac zb := repeat match goal with
  | |- context [?a =? ?b] => destruct (Z.eqb_spec a b)
  | |- context [?a <=? ?b] => destruct (Z.leb_spec a b)
  | |- context [?a <? ?b] => destruct (Z.ltb_spec a b)
  | |- context [?a >=? ?b] => rewrite (Z.geb_leb a b)
  | |- context [?a >? ?b] => rewrite (Z.gtb_ltb a b)
  end; cbn [andb orb negb]; try lia.

(* ------------------------------------------------------------------ list lemmas *)
Lemma nth_error_ext_eq {A} : forall (l l' : list A),
  (forall n, nth_error l n = nth_error l' n) -> l = l'.
Proof.
  induction l as [|a l IH]; intros [|b l'] H; auto.
  - specialize (H O); discriminate.
  - specialize (H O); discriminate.
  - f_equal.
    + specialize (H O); cbn in H; congruence.
    + apply IH; intros n; exact (H (S n)).
Qed.

Lemma set_nth_spec {A} : forall (l : list A) n v l', set_nth l n v = Some l' ->
  length l' = length l /\
  forall m, nth_error l' m = if Nat.eqb m n then Some v else nth_error l m.
Proof.
  induction l as [|a l IH]; intros n v l' H; cbn in H; [discriminate|].
  destruct n as [|n].
  - inversion H; subst; split; auto. intros [|m]; reflexivity.
  - destruct (set_nth l n v) as [t|] eqn:E; [|discriminate]. inversion H; subst.
    destruct (IH _ _ _ E) as [L N]. split; [cbn; congruence|].
    intros [|m]; cbn; auto.
Qed.

Lemma set_nth_some {A} : forall (l : list A) n v, (n < length l)%nat -> exists l', set_nth l n v = Some l'.
Proof.
  induction l as [|a l IH]; intros n v H; cbn in H; [lia|].
  destruct n as [|n]; cbn; [eauto|].
  destruct (IH n v) as [t E]; [lia|]. rewrite E; eauto.
Qed.

Lemma zidx_some {A} : forall (l : list A) k, 0 <= k < Z.of_nat (length l) -> exists a, zidx l k = Some a.
Proof.
  intros l k H. unfold zidx. destruct (Z.ltb_spec k 0); [lia|].
  destruct (nth_error l (Z.to_nat k)) eqn:E; [eauto|].
  apply nth_error_None in E. lia.
Qed.

Lemma zidx_lt {A} : forall (l : list A) k a, zidx l k = Some a -> 0 <= k < Z.of_nat (length l).
Proof.
  intros l k a H. unfold zidx in H. destruct (Z.ltb_spec k 0); [discriminate|].
  assert (Z.to_nat k < length l)%nat by (apply nth_error_Some; congruence). lia.
Qed.

(* ------------------------------------------------------------------ framebuffer lemmas *)
Definition same_shape (f f' : fb) : Prop :=
  fw f = fw f' /\ fh f = fh f' /\ map (@length Z) (rows f) = map (@length Z) (rows f').

Lemma same_shape_refl : forall f, same_shape f f.
Proof. intros; repeat split. Qed.
Lemma same_shape_trans : forall a b c, same_shape a b -> same_shape b c -> same_shape a c.
Proof. intros a b c (A1 & A2 & A3) (B1 & B2 & B3); repeat split; congruence. Qed.
Lemma same_shape_sym : forall a b, same_shape a b -> same_shape b a.
Proof. intros a b (A1 & A2 & A3); repeat split; congruence. Qed.

Lemma fb_ext : forall f f', same_shape f f' ->
  (forall x y, fb_get f x y = fb_get f' x y) -> f = f'.
Proof.
  intros [w h rs] [w' h' rs'] (Hw & Hh & Hm) G; cbn in *. subst. f_equal.
  apply nth_error_ext_eq; intros n.
  assert (Ln : option_map (@length Z) (nth_error rs n) = option_map (@length Z) (nth_error rs' n)).
  { rewrite <- !nth_error_map. congruence. }
  destruct (nth_error rs n) as [r|] eqn:E, (nth_error rs' n) as [r'|] eqn:E'; cbn in Ln; try discriminate; auto.
  f_equal. apply nth_error_ext_eq; intros m.
  specialize (G (Z.of_nat m) (Z.of_nat n)). unfold fb_get, zidx in G; cbn in G.
  destruct (Z.ltb_spec (Z.of_nat n) 0); [lia|]. rewrite Nat2Z.id, E, E' in G.
  destruct (Z.ltb_spec (Z.of_nat m) 0); [lia|]. now rewrite Nat2Z.id in G.
Qed.

Lemma fb_set_get : forall f a b v f', fb_set f a b v = Some f' ->
  same_shape f f' /\
  forall x y, fb_get f' x y =
    match fb_get f x y with
    | None => None
    | Some p => Some (if (x =? a) && (y =? b) then v else p)
    end.
Proof.
  intros f a b v f' H. unfold fb_set in H.
  destruct (zidx (rows f) b) as [r|] eqn:Er; [|discriminate].
  destruct (zset r a v) as [r'|] eqn:Es; [|discriminate].
  destruct (zset (rows f) b r') as [rs|] eqn:Ers; [|discriminate].
  inversion H; subst f'; clear H.
  unfold zidx in Er. unfold zset in Es, Ers.
  destruct (Z.ltb_spec b 0) as [|Hb]; [discriminate|].
  destruct (Z.ltb_spec a 0) as [|Ha]; [discriminate|].
  destruct (set_nth_spec _ _ _ _ Es) as [Lr Nr].
  destruct (set_nth_spec _ _ _ _ Ers) as [Lrs Nrs].
  split.
  - repeat split; cbn. apply nth_error_ext_eq; intros n.
    rewrite !nth_error_map, Nrs.
    destruct (Nat.eqb_spec n (Z.to_nat b)); [subst n; rewrite Er; cbn; congruence | reflexivity].
  - intros x y. unfold fb_get, zidx; cbn.
    destruct (Z.ltb_spec y 0) as [|Hy]; [reflexivity|].
    rewrite Nrs.
    destruct (Nat.eqb_spec (Z.to_nat y) (Z.to_nat b)) as [E|E].
    + assert (y = b) by lia. subst y. rewrite Er.
      destruct (Z.ltb_spec x 0) as [|Hx]; [reflexivity|].
      rewrite Nr. rewrite Z.eqb_refl, andb_true_r.
      destruct (Nat.eqb_spec (Z.to_nat x) (Z.to_nat a)) as [E2|E2].
      * assert (x = a) by lia. subst x. rewrite Z.eqb_refl.
        destruct (nth_error r (Z.to_nat a)) eqn:Q; [reflexivity|].
        apply nth_error_None in Q. apply set_nth_spec in Es.
        assert (Z.to_nat a < length r')%nat.
        { apply nth_error_Some. destruct Es as [_ Es]. rewrite Es, Nat.eqb_refl. discriminate. }
        lia.
      * destruct (Z.eqb_spec x a); [subst; lia|].
        destruct (nth_error r (Z.to_nat x)); reflexivity.
    + destruct (nth_error (rows f) (Z.to_nat y)) as [ry|]; [|reflexivity].
      destruct (Z.ltb_spec x 0); [reflexivity|].
      destruct (Z.eqb_spec y b); [subst; lia|]. rewrite andb_false_r.
      destruct (nth_error ry (Z.to_nat x)); reflexivity.
Qed.

Lemma fb_set_ok : forall f a b v p, fb_get f a b = Some p -> exists f', fb_set f a b v = Some f'.
Proof.
  intros f a b v p G. unfold fb_get in G. unfold fb_set.
  destruct (zidx (rows f) b) as [r|] eqn:Er; [|discriminate].
  pose proof (zidx_lt _ _ _ G) as La. pose proof (zidx_lt _ _ _ Er) as Lb.
  unfold zset. destruct (Z.ltb_spec a 0); [lia|]. destruct (Z.ltb_spec b 0); [lia|].
  destruct (set_nth_some r (Z.to_nat a) v) as [r' E]; [lia|]. rewrite E.
  destruct (set_nth_some (rows f) (Z.to_nat b) r') as [rs E2]; [lia|]. rewrite E2. eauto.
Qed.

Lemma wf_fb_get : forall f x y, wf_fb f -> 0 <= x < fw f -> 0 <= y < fh f -> exists p, fb_get f x y = Some p.
Proof.
  intros f x y (W & H & L & F) Hx Hy. unfold fb_get.
  destruct (zidx_some (rows f) y) as [r Er]; [lia|]. rewrite Er.
  assert (length r = Z.to_nat (fw f)).
  { rewrite Forall_forall in F. apply F. unfold zidx in Er.
    destruct (Z.ltb_spec y 0); [lia|]. eapply nth_error_In; eauto. }
  apply zidx_some. lia.
Qed.

(* ------------------------------------------------------------------ the paint loops *)
Definition pbody (val : Z -> Z -> Z -> option (option Z)) (x1 y1 j : Z) : Z -> fb -> option fb :=
  fun i f2 =>
    match fb_get f2 (i + x1) (j + y1) with
    | None => None
    | Some p => match val i j p with
                | None => None
                | Some None => Some f2
                | Some (Some v) => fb_set f2 (i + x1) (j + y1) v
                end
    end.
Definition prow val x1 y1 x2 : Z -> fb -> option fb :=
  fun j f1 => iter_n (Z.to_nat x2) 0 (pbody val x1 y1 j) f1.

Lemma paint_unfold : forall val x1 y1 x2 y2 f,
  paint val x1 y1 x2 y2 f = iter_n (Z.to_nat y2) 0 (prow val x1 y1 x2) f.
Proof. reflexivity. Qed.

Definition pv (val : Z -> Z -> Z -> option (option Z)) (x1 y1 x y p : Z) : Z :=
  match val (x - x1) (y - y1) p with Some (Some v) => v | _ => p end.

Lemma prow_spec : forall val x1 y1 j n k f f',
  iter_n n k (pbody val x1 y1 j) f = Some f' ->
  same_shape f f' /\
  forall x y, fb_get f' x y =
    match fb_get f x y with
    | None => None
    | Some p => Some (if (y =? j + y1) && (k + x1 <=? x) && (x <? k + x1 + Z.of_nat n)
                      then pv val x1 y1 x y p else p)
    end.
Proof.
  intros val x1 y1 j n. induction n as [|n IH]; intros k f f' H.
  - cbn in H. inversion H; subst. split; [apply same_shape_refl|].
    intros x y. destruct (fb_get f' x y); [|reflexivity]. f_equal. zb.
  - cbn [iter_n] in H. unfold pbody at 1 in H.
    destruct (fb_get f (k + x1) (j + y1)) as [p0|] eqn:G; [|discriminate].
    destruct (val k j p0) as [[v|]|] eqn:V; [| |discriminate].
    + destruct (fb_set f (k + x1) (j + y1) v) as [f1|] eqn:S1; [|discriminate].
      destruct (fb_set_get _ _ _ _ _ S1) as [Sh1 G1].
      destruct (IH _ _ _ H) as [Sh2 G2].
      split; [eapply same_shape_trans; eauto|].
      intros x y. rewrite G2, G1.
      destruct (fb_get f x y) as [p|] eqn:Gp; [|reflexivity]. f_equal.
      destruct (Z.eqb_spec x (k + x1)); destruct (Z.eqb_spec y (j + y1)); cbn [andb]; subst.
      * rewrite G in Gp. inversion Gp; subst p.
        unfold pv. replace (k + x1 - x1) with k by lia. replace (j + y1 - y1) with j by lia.
        rewrite V. zb.
      * zb.
      * zb.
      * zb.
    + destruct (IH _ _ _ H) as [Sh2 G2]. split; [auto|].
      intros x y. rewrite G2.
      destruct (fb_get f x y) as [p|] eqn:Gp; [|reflexivity]. f_equal.
      destruct (Z.eqb_spec x (k + x1)); destruct (Z.eqb_spec y (j + y1)); cbn [andb]; subst.
      * rewrite G in Gp. inversion Gp; subst p.
        unfold pv. replace (k + x1 - x1) with k by lia. replace (j + y1 - y1) with j by lia.
        rewrite V. zb.
      * zb.
      * zb.
      * zb.
Qed.

Lemma prows_spec : forall val x1 y1 x2 n k f f', 0 <= x2 ->
  iter_n n k (prow val x1 y1 x2) f = Some f' ->
  same_shape f f' /\
  forall x y, fb_get f' x y =
    match fb_get f x y with
    | None => None
    | Some p => Some (if (k + y1 <=? y) && (y <? k + y1 + Z.of_nat n) && (x1 <=? x) && (x <? x1 + x2)
                      then pv val x1 y1 x y p else p)
    end.
Proof.
  intros val x1 y1 x2 n. induction n as [|n IH]; intros k f f' Hx H.
  - cbn in H. inversion H; subst. split; [apply same_shape_refl|].
    intros x y. destruct (fb_get f' x y); [|reflexivity]. f_equal. zb.
  - cbn [iter_n] in H.
    destruct (prow val x1 y1 x2 k f) as [f1|] eqn:R; [|discriminate].
    unfold prow in R. destruct (prow_spec _ _ _ _ _ _ _ _ R) as [Sh1 G1].
    destruct (IH _ _ _ Hx H) as [Sh2 G2].
    split; [eapply same_shape_trans; eauto|].
    intros x y. rewrite G2, G1. rewrite Z2Nat.id by lia.
    destruct (fb_get f x y) as [p|] eqn:Gp; [|reflexivity]. f_equal.
    destruct (Z.eqb_spec y (k + y1)); subst; cbn [andb].
    + replace (k + 1 + y1 <=? k + y1) with false by (symmetry; apply Z.leb_gt; lia). cbn [andb].
      zb.
    + zb.
Qed.

Definition in_box (x1 y1 x2 y2 x y : Z) : bool :=
  (x1 <=? x) && (x <? x1 + x2) && (y1 <=? y) && (y <? y1 + y2).

Lemma paint_get : forall val x1 y1 x2 y2 f f', 0 <= x2 -> 0 <= y2 ->
  paint val x1 y1 x2 y2 f = Some f' ->
  same_shape f f' /\
  forall x y, fb_get f' x y =
    match fb_get f x y with
    | None => None
    | Some p => Some (if in_box x1 y1 x2 y2 x y then pv val x1 y1 x y p else p)
    end.
Proof.
  intros val x1 y1 x2 y2 f f' Hx Hy H. rewrite paint_unfold in H.
  destruct (prows_spec _ _ _ _ _ _ _ _ Hx H) as [Sh G]. split; [auto|].
  intros x y. rewrite G. destruct (fb_get f x y); [|reflexivity]. f_equal.
  unfold in_box. rewrite Z2Nat.id by lia. zb.
Qed.

(* progress *)
Lemma prow_ok : forall val x1 y1 j n k f,
  (forall i, k <= i < k + Z.of_nat n ->
     exists p, fb_get f (i + x1) (j + y1) = Some p /\ val i j p <> None) ->
  exists f', iter_n n k (pbody val x1 y1 j) f = Some f'.
Proof.
  intros val x1 y1 j n. induction n as [|n IH]; intros k f Hyp.
  - cbn; eauto.
  - cbn [iter_n]. unfold pbody at 1.
    destruct (Hyp k) as (p & G & V); [lia|]. rewrite G.
    destruct (val k j p) as [[v|]|] eqn:Ev; [| |congruence].
    + destruct (fb_set_ok f (k + x1) (j + y1) v p G) as [f1 S1]. rewrite S1.
      apply IH. intros i Hi. destruct (Hyp i) as (q & Gq & Vq); [lia|].
      destruct (fb_set_get _ _ _ _ _ S1) as [_ G1]. exists q. rewrite G1, Gq.
      destruct (Z.eqb_spec (i + x1) (k + x1)); [lia|]. cbn. auto.
    + apply IH. intros i Hi. apply Hyp. lia.
Qed.

Lemma paint_ok : forall val x1 y1 x2 y2 f, 0 <= x2 -> 0 <= y2 ->
  (forall i j, 0 <= i < x2 -> 0 <= j < y2 ->
     exists p, fb_get f (i + x1) (j + y1) = Some p /\ val i j p <> None) ->
  exists f', paint val x1 y1 x2 y2 f = Some f'.
Proof.
  intros val x1 y1 x2 y2 f Hx Hy Hyp. rewrite paint_unfold.
  assert (G : forall n k f, 0 <= k -> k + Z.of_nat n <= y2 ->
     (forall i j, 0 <= i < x2 -> k <= j < y2 ->
        exists p, fb_get f (i + x1) (j + y1) = Some p /\ val i j p <> None) ->
     exists f', iter_n n k (prow val x1 y1 x2) f = Some f').
  { clear f Hyp. induction n as [|n IH]; intros k f Hk Hn Hyp.
    - cbn; eauto.
    - cbn [iter_n].
      destruct (prow_ok val x1 y1 k (Z.to_nat x2) 0 f) as [f1 R].
      { intros i Hi. apply Hyp; lia. }
      unfold prow at 1. rewrite R.
      apply IH; [lia|lia|]. intros i j Hi Hj.
      destruct (Hyp i j) as (q & Gq & Vq); [lia|lia|].
      destruct (prow_spec _ _ _ _ _ _ _ _ R) as [_ G1]. exists q. rewrite G1, Gq.
      destruct (Z.eqb_spec (j + y1) (k + y1)); [lia|]. cbn. auto. }
  apply (G (Z.to_nat y2) 0 f); [lia|lia|]. intros; apply Hyp; lia.
Qed.

(* ------------------------------------------------------------------ collect *)
Lemma collect_spec {A} : forall n k (g : Z -> option A) l, collect n k g = Some l ->
  length l = n /\ forall m, (m < n)%nat -> nth_error l m = g (k + Z.of_nat m).
Proof.
  induction n as [|n IH]; intros k g l H; cbn in H.
  - inversion H; subst. split; [reflexivity|]. intros; lia.
  - destruct (g k) as [a|] eqn:E; [|discriminate].
    destruct (collect n (k + 1) g) as [t|] eqn:C; [|discriminate]. inversion H; subst.
    destruct (IH _ _ _ C) as [L N]. split; [cbn; congruence|].
    intros [|m] Hm; cbn.
    + rewrite Z.add_0_r. auto.
    + rewrite N by lia. f_equal. lia.
Qed.

Lemma collect_ok {A} : forall n k (g : Z -> option A),
  (forall m, (m < n)%nat -> g (k + Z.of_nat m) <> None) -> exists l, collect n k g = Some l.
Proof.
  induction n as [|n IH]; intros k g H; cbn; [eauto|].
  destruct (g k) as [a|] eqn:E.
  - destruct (IH (k + 1) g) as [t C].
    { intros m Hm. replace (k + 1 + Z.of_nat m) with (k + Z.of_nat (S m)) by lia. apply H. lia. }
    rewrite C. eauto.
  - exfalso. apply (H O); [lia|]. rewrite Z.add_0_r. auto.
Qed.

Lemma collect2_spec {A} : forall nr j0 nc (g : Z -> Z -> option A) l, collect2 nr j0 nc g = Some l ->
  length l = (nr * nc)%nat /\
  forall i j, (i < nc)%nat -> (j < nr)%nat ->
    nth_error l (j * nc + i) = g (Z.of_nat i) (j0 + Z.of_nat j).
Proof.
  induction nr as [|nr IH]; intros j0 nc g l H; cbn in H.
  - inversion H; subst. split; [reflexivity|]. intros; lia.
  - destruct (collect nc 0 (fun i => g i j0)) as [r|] eqn:C; [|discriminate].
    destruct (collect2 nr (j0 + 1) nc g) as [t|] eqn:C2; [|discriminate]. inversion H; subst.
    destruct (collect_spec _ _ _ _ C) as [Lr Nr]. destruct (IH _ _ _ _ C2) as [Lt Nt].
    split; [rewrite app_length; cbn; lia|].
    intros i [|j] Hi Hj.
    + cbn. rewrite nth_error_app1 by lia. rewrite Nr by lia. rewrite Z.add_0_r. reflexivity.
    + replace (S j * nc + i)%nat with (length r + (j * nc + i))%nat by (cbn; lia).
      rewrite nth_error_app2 by lia.
      replace (length r + (j * nc + i) - length r)%nat with (j * nc + i)%nat by lia.
      rewrite Nt by lia. f_equal. lia.
Qed.

Lemma collect2_ok {A} : forall nr j0 nc (g : Z -> Z -> option A),
  (forall i j, (i < nc)%nat -> (j < nr)%nat -> g (Z.of_nat i) (j0 + Z.of_nat j) <> None) ->
  exists l, collect2 nr j0 nc g = Some l.
Proof.
  induction nr as [|nr IH]; intros j0 nc g H; cbn; [eauto|].
  destruct (collect_ok nc 0 (fun i => g i j0)) as [r C].
  { intros m Hm. cbn. specialize (H m O Hm). rewrite Z.add_0_r in H. apply H. lia. }
  rewrite C.
  destruct (IH (j0 + 1) nc g) as [t C2].
  { intros i j Hi Hj. replace (j0 + 1 + Z.of_nat j) with (j0 + Z.of_nat (S j)) by lia. apply H; lia. }
  rewrite C2. eauto.
Qed.

(* Z-indexed view of collect2 *)
Lemma collect2_zidx {A} : forall nr nc (g : Z -> Z -> option A) l,
  0 <= nr -> 0 <= nc ->
  collect2 (Z.to_nat nr) 0 (Z.to_nat nc) g = Some l ->
  Z.of_nat (length l) = nr * nc /\
  forall i j, 0 <= i < nc -> 0 <= j < nr -> zidx l (j * nc + i) = g i j.
Proof.
  intros nr nc g l Hr Hc H. destruct (collect2_spec _ _ _ _ _ H) as [L N]. split.
  - rewrite L. rewrite Nat2Z.inj_mul, !Z2Nat.id by lia. reflexivity.
  - intros i j Hi Hj. unfold zidx.
    assert (0 <= j * nc + i) by nia.
    destruct (Z.ltb_spec (j * nc + i) 0); [lia|].
    replace (Z.to_nat (j * nc + i)) with (Z.to_nat j * Z.to_nat nc + Z.to_nat i)%nat.
    2:{ rewrite Z2Nat.inj_add, Z2Nat.inj_mul by nia. reflexivity. }
    rewrite N by lia. rewrite !Z2Nat.id by lia. f_equal.
Qed.

Lemma collect2_zok {A} : forall nr nc (g : Z -> Z -> option A),
  (forall i j, 0 <= i < nc -> 0 <= j < nr -> g i j <> None) ->
  exists l, collect2 (Z.to_nat nr) 0 (Z.to_nat nc) g = Some l.
Proof.
  intros nr nc g H. apply collect2_ok. intros i j Hi Hj. apply H; lia.
Qed.

(* ------------------------------------------------------------------ clipping *)
Definition lim (fixed : bool) (dim : Z) : Z := if fixed then dim else dim - 1.

Lemma clip1_spec : forall fixed pos hot size dim x1 i1 n,
  clip1 fixed pos hot size dim = Some (x1, i1, n) ->
  x1 = Z.max 0 (pos - hot) /\ i1 = x1 - (pos - hot) /\
  x1 + n = Z.min (pos - hot + size) (lim fixed dim) /\ 0 < n.
Proof.
  intros fixed pos hot size dim x1 i1 n H. unfold clip1 in H.
  destruct (Z.leb_spec
    ((if fixed then if pos - hot + size >? dim then dim else pos - hot + size
      else if pos - hot + size >=? dim then dim - 1 else pos - hot + size) -
     (if pos - hot <? 0 then 0 else pos - hot)) 0) as [|Hn]; [discriminate|].
  inversion H; subst; clear H. unfold lim.
  destruct fixed.
  - rewrite Z.gtb_ltb in *. destruct (Z.ltb_spec dim (pos - hot + size));
      destruct (Z.ltb_spec (pos - hot) 0); lia.
  - rewrite Z.geb_leb in *. destruct (Z.leb_spec dim (pos - hot + size));
      destruct (Z.ltb_spec (pos - hot) 0); lia.
Qed.

Lemma clip1_none : forall fixed pos hot size dim,
  clip1 fixed pos hot size dim = None ->
  Z.min (pos - hot + size) (lim fixed dim) <= Z.max 0 (pos - hot).
Proof.
  intros fixed pos hot size dim H. unfold clip1 in H.
  destruct (Z.leb_spec
    ((if fixed then if pos - hot + size >? dim then dim else pos - hot + size
      else if pos - hot + size >=? dim then dim - 1 else pos - hot + size) -
     (if pos - hot <? 0 then 0 else pos - hot)) 0) as [Hn|]; [|discriminate].
  unfold lim. destruct fixed.
  - rewrite Z.gtb_ltb in *. destruct (Z.ltb_spec dim (pos - hot + size));
      destruct (Z.ltb_spec (pos - hot) 0); lia.
  - rewrite Z.geb_leb in *. destruct (Z.leb_spec dim (pos - hot + size));
      destruct (Z.ltb_spec (pos - hot) 0); lia.
Qed.

(* ------------------------------------------------------------------ ensure_rich *)
Lemma ensure_rich_geom : forall fmt c c' r, ensure_rich fmt c = Some (c', r) ->
  cw c' = cw c /\ ch c' = ch c /\ cxhot c' = cxhot c /\ cyhot c' = cyhot c /\
  cmask c' = cmask c /\ calpha c' = calpha c /\ cpremult c' = cpremult c /\ crich c' = Some r.
Proof.
  intros fmt c c' r H. unfold ensure_rich in H.
  destruct (crich c) as [r0|] eqn:E.
  - inversion H; subst. repeat split; auto.
  - destruct (make_rich_from_x fmt c); [|discriminate]. inversion H; subst. repeat split; auto.
Qed.

Lemma w8_bound : forall c, 0 <= cw c -> cw c <= 8 * w8 c /\ 0 <= w8 c.
Proof.
  intros c H. unfold w8. pose proof (Z.div_mod (cw c + 7) 8 ltac:(lia)).
  pose proof (Z.mod_pos_bound (cw c + 7) 8 ltac:(lia)).
  split; [lia|]. apply Z.div_pos; lia.
Qed.

Lemma ensure_rich_ok : forall fmt c, wf_cursor c ->
  exists c' r, ensure_rich fmt c = Some (c', r) /\ length r = Z.to_nat (cw c * ch c).
Proof.
  intros fmt c (Hw & Hh & Lm & Lr & La). unfold ensure_rich.
  destruct (crich c) as [r|] eqn:E; [eauto|].
  unfold make_rich_from_x. destruct (csource c) as [src|] eqn:Es; [|contradiction]. cbn [opt_list].
  destruct (w8_bound c Hw) as [B8 B0].
  match goal with |- context [collect2 ?a ?b ?d ?g] => destruct (collect2_zok (ch c) (cw c) g) as [l C] end.
  { intros i j Hi Hj.
    assert (0 <= i / 8 < w8 c).
    { split; [apply Z.div_pos; lia|]. apply Z.div_lt_upper_bound; lia. }
    destruct (zidx_some src (j * w8 c + i / 8)) as [b Eb]; [rewrite Lr; nia|].
    rewrite Eb. discriminate. }
  rewrite C. do 2 eexists. split; [reflexivity|].
  destruct (collect2_zidx _ _ _ _ Hh Hw C) as [L _]. nia.
Qed.

(* ------------------------------------------------------------------ show / hide *)
Definition show_box (fixed : bool) (f : fb) (c : cursor) (px py x y : Z) : bool :=
  in_cursor c px py x y && (x <? lim fixed (fw f)) && (y <? lim fixed (fh f)).

(* pointwise characterisation of a successful rfbShowCursor *)
Lemma show_get : forall fixed fmt f c px py ub f1 buf c',
  show fixed fmt f c px py ub = Some (f1, buf, c') ->
  same_shape f f1 /\
  (forall r, (forall r', crich c' = Some r' -> r' = r) ->
   forall x y, fb_get f1 x y =
     match fb_get f x y with
     | None => None
     | Some p => Some (if show_box fixed f c px py x y
                       then match show_val fmt c' r 0 0 (x - (px - cxhot c)) (y - (py - cyhot c)) p with
                            | Some (Some q) => q | _ => p end
                       else p)
     end).
Proof.
  intros fixed fmt f c px py ub f1 buf c' H. unfold show in H.
  destruct (clip1 fixed px (cxhot c) (cw c) (fw f)) as [[[x1 i1] x2]|] eqn:Cx.
  2:{ inversion H; subst. split; [apply same_shape_refl|]. intros r _ x y.
      destruct (fb_get f1 x y) as [p|] eqn:G; [|reflexivity]. f_equal.
      apply clip1_none in Cx. unfold show_box, in_cursor.
      assert (x <? 0 = false -> True) by auto.
      assert (0 <= x).
      { unfold fb_get in G. destruct (zidx (rows f1) y); [|discriminate]. apply zidx_lt in G. lia. }
      zb. }
  destruct (clip1 fixed py (cyhot c) (ch c) (fh f)) as [[[y1 j1] y2]|] eqn:Cy.
  2:{ inversion H; subst. split; [apply same_shape_refl|]. intros r _ x y.
      destruct (fb_get f1 x y) as [p|] eqn:G; [|reflexivity]. f_equal.
      apply clip1_none in Cy. unfold show_box, in_cursor.
      assert (0 <= y).
      { unfold fb_get in G. destruct (zidx (rows f1) y) eqn:E; [|discriminate]. apply zidx_lt in E. lia. }
      zb. }
  destruct (save f x1 y1 x2 y2) as [b|]; [|discriminate].
  destruct (ensure_rich fmt c) as [[c2 r2]|] eqn:Er; [|discriminate].
  destruct (paint (show_val fmt c2 r2 i1 j1) x1 y1 x2 y2 f) as [f2|] eqn:P; [|discriminate].
  inversion H; subst; clear H.
  destruct (clip1_spec _ _ _ _ _ _ _ _ Cx) as (X1 & I1 & X2 & Xn).
  destruct (clip1_spec _ _ _ _ _ _ _ _ Cy) as (Y1 & J1 & Y2 & Yn).
  destruct (paint_get _ _ _ _ _ _ _ (Z.lt_le_incl _ _ Xn) (Z.lt_le_incl _ _ Yn) P) as [Sh G].
  split; [auto|]. intros r Hr x y.
  destruct (ensure_rich_geom _ _ _ _ Er) as (_ & _ & _ & _ & _ & _ & _ & Hr2).
  pose proof (Hr _ Hr2) as Hr3. subst r2.
  rewrite G. destruct (fb_get f x y) as [p|] eqn:Gp; [|reflexivity]. f_equal.
  assert (Hxy : 0 <= x /\ 0 <= y).
  { unfold fb_get in Gp. destruct (zidx (rows f) y) eqn:E; [|discriminate].
    apply zidx_lt in E. apply zidx_lt in Gp. lia. }
  unfold in_box, show_box, in_cursor.
  destruct ((x1 <=? x) && (x <? x1 + x2) && (y1 <=? y) && (y <? y1 + y2)) eqn:B.
  - assert (x1 <= x < x1 + x2 /\ y1 <= y < y1 + y2).
    { repeat (apply andb_prop in B; destruct B as [B ?]). lia. }
    replace ((0 <=? x - (px - cxhot c)) && (x - (px - cxhot c) <? cw c) && (0 <=? y - (py - cyhot c)) &&
             (y - (py - cyhot c) <? ch c) && (x <? lim fixed (fw f)) && (y <? lim fixed (fh f))) with true.
    2:{ symmetry. zb. }
    unfold pv, show_val.
    replace (y - y1 + j1) with (y - (py - cyhot c) + 0) by lia.
    replace (x - x1 + i1) with (x - (px - cxhot c) + 0) by lia. reflexivity.
  - replace ((0 <=? x - (px - cxhot c)) && (x - (px - cxhot c) <? cw c) && (0 <=? y - (py - cyhot c)) &&
             (y - (py - cyhot c) <? ch c) && (x <? lim fixed (fw f)) && (y <? lim fixed (fh f))) with false; auto.
    symmetry. apply not_true_is_false. intros T.
    repeat (apply andb_prop in T; destruct T as [T ?]).
    assert (x1 <= x < x1 + x2 /\ y1 <= y < y1 + y2) by lia.
    assert ((x1 <=? x) && (x <? x1 + x2) && (y1 <=? y) && (y <? y1 + y2) = true) by zb.
    congruence.
Qed.

Lemma save_spec : forall f x1 y1 x2 y2 buf, 0 <= x2 -> 0 <= y2 ->
  save f x1 y1 x2 y2 = Some buf ->
  forall i j, 0 <= i < x2 -> 0 <= j < y2 -> zidx buf (j * x2 + i) = fb_get f (i + x1) (j + y1).
Proof.
  intros f x1 y1 x2 y2 buf Hx Hy H. unfold save in H.
  destruct (collect2_zidx _ _ _ _ Hy Hx H) as [_ N]. exact N.
Qed.

(* hide undoes show, whenever both run without error *)
Lemma hide_show_weak : forall fixed fmt f c px py ub f1 buf c' f2,
  show fixed fmt f c px py ub = Some (f1, buf, c') ->
  hide fixed f1 c' px py buf = Some f2 -> f2 = f.
Proof.
  intros fixed fmt f c px py ub f1 buf c' f2 S Hd.
  destruct (show_get _ _ _ _ _ _ _ _ _ _ S) as [Sh _].
  unfold show in S. unfold hide in Hd.
  destruct Sh as (Sw & Shh & Sm).
  assert (Geo : cw c' = cw c /\ ch c' = ch c /\ cxhot c' = cxhot c /\ cyhot c' = cyhot c).
  { destruct (clip1 fixed px (cxhot c) (cw c) (fw f)) as [[[x1 i1] x2]|]; [|inversion S; subst; auto].
    destruct (clip1 fixed py (cyhot c) (ch c) (fh f)) as [[[y1 j1] y2]|]; [|inversion S; subst; auto].
    destruct (save f x1 y1 x2 y2); [|discriminate].
    destruct (ensure_rich fmt c) as [[c2 r2]|] eqn:Er; [|discriminate].
    destruct (paint _ _ _ _ _ f); [|discriminate]. inversion S; subst.
    destruct (ensure_rich_geom _ _ _ _ Er) as (? & ? & ? & ? & _). auto. }
  destruct Geo as (G1 & G2 & G3 & G4). rewrite G1, G2, G3, G4, <- Sw, <- Shh in Hd.
  destruct (clip1 fixed px (cxhot c) (cw c) (fw f)) as [[[x1 i1] x2]|] eqn:Cx.
  2:{ inversion S; inversion Hd; subst; auto. }
  destruct (clip1 fixed py (cyhot c) (ch c) (fh f)) as [[[y1 j1] y2]|] eqn:Cy.
  2:{ inversion S; inversion Hd; subst; auto. }
  destruct (save f x1 y1 x2 y2) as [b|] eqn:Sv; [|discriminate].
  destruct (ensure_rich fmt c) as [[c2 r2]|] eqn:Er; [|discriminate].
  destruct (paint (show_val fmt c2 r2 i1 j1) x1 y1 x2 y2 f) as [f3|] eqn:P; [|discriminate].
  inversion S; subst; clear S.
  destruct (clip1_spec _ _ _ _ _ _ _ _ Cx) as (_ & _ & _ & Xn).
  destruct (clip1_spec _ _ _ _ _ _ _ _ Cy) as (_ & _ & _ & Yn).
  destruct (paint_get _ _ _ _ _ _ _ (Z.lt_le_incl _ _ Xn) (Z.lt_le_incl _ _ Yn) P) as [Sh1 Ga].
  destruct (paint_get _ _ _ _ _ _ _ (Z.lt_le_incl _ _ Xn) (Z.lt_le_incl _ _ Yn) Hd) as [Sh2 Gb].
  symmetry. apply fb_ext; [eapply same_shape_trans; eauto|].
  intros x y. rewrite Gb, Ga.
  destruct (fb_get f x y) as [p|] eqn:Gp; [|reflexivity]. f_equal.
  destruct (in_box x1 y1 x2 y2 x y) eqn:B; [|reflexivity].
  unfold in_box in B. rewrite !andb_true_iff, !Z.leb_le, !Z.ltb_lt in B.
  unfold pv at 1.
  assert (Q : zidx buf ((y - y1) * x2 + (x - x1)) = fb_get f (x - x1 + x1) (y - y1 + y1)).
  { apply (save_spec f x1 y1 x2 y2 buf); auto; lia. }
  rewrite Q. replace (x - x1 + x1) with x by lia. replace (y - y1 + y1) with y by lia.
  rewrite Gp. reflexivity.
Qed.

(* no error on well-formed inputs *)
Lemma show_val_ok : forall fmt c r i1 j1 i j p,
  wf_cursor c -> length r = Z.to_nat (cw c * ch c) ->
  0 <= i + i1 < cw c -> 0 <= j + j1 < ch c ->
  show_val fmt c r i1 j1 i j p <> None.
Proof.
  intros fmt c r i1 j1 i j p (Hw & Hh & Lm & _ & La) Lr Hi Hj. unfold show_val.
  assert (I : 0 <= (j + j1) * cw c + (i + i1) < cw c * ch c) by nia.
  destruct (zidx_some r ((j + j1) * cw c + (i + i1))) as [sv Es]; [rewrite Lr; lia|].
  destruct (calpha c) as [a|].
  - destruct (zidx_some a ((j + j1) * cw c + (i + i1))) as [av Ea]; [rewrite La; lia|].
    rewrite Ea. destruct (av =? 0); [discriminate|]. rewrite Es. destruct (bpp_ok fmt); discriminate.
  - destruct (w8_bound c Hw) as [B8 B0].
    assert (0 <= (i + i1) / 8 < w8 c).
    { split; [apply Z.div_pos; lia|]. apply Z.div_lt_upper_bound; lia. }
    destruct (zidx_some (cmask c) ((j + j1) * w8 c + (i + i1) / 8)) as [mb Em]; [rewrite Lm; nia|].
    rewrite Em. destruct (bit_of mb (i + i1)); [rewrite Es|]; discriminate.
Qed.

Lemma wf_cursor_rich : forall fmt c c' r, wf_cursor c -> ensure_rich fmt c = Some (c', r) ->
  length r = Z.to_nat (cw c * ch c) -> wf_cursor c'.
Proof.
  intros fmt c c' r (Hw & Hh & Lm & Lr & La) E L.
  destruct (ensure_rich_geom _ _ _ _ E) as (G1 & G2 & G3 & G4 & G5 & G6 & G7 & G8).
  unfold wf_cursor, w8. rewrite G1, G2, G5, G6, G8. repeat split; auto.
Qed.

Theorem hide_show_id : forall fixed fmt f c px py ub,
  wf_fb f -> wf_cursor c ->
  exists f1 buf c', show fixed fmt f c px py ub = Some (f1, buf, c') /\
                    hide fixed f1 c' px py buf = Some f.
Proof.
  intros fixed fmt f c px py ub Wf Wc.
  assert (S : exists f1 buf c', show fixed fmt f c px py ub = Some (f1, buf, c')).
  { unfold show.
    destruct (clip1 fixed px (cxhot c) (cw c) (fw f)) as [[[x1 i1] x2]|] eqn:Cx; [|eauto].
    destruct (clip1 fixed py (cyhot c) (ch c) (fh f)) as [[[y1 j1] y2]|] eqn:Cy; [|eauto].
    destruct (clip1_spec _ _ _ _ _ _ _ _ Cx) as (X1 & I1 & X2 & Xn).
    destruct (clip1_spec _ _ _ _ _ _ _ _ Cy) as (Y1 & J1 & Y2 & Yn).
    assert (Lx : lim fixed (fw f) <= fw f) by (unfold lim; destruct fixed; lia).
    assert (Ly : lim fixed (fh f) <= fh f) by (unfold lim; destruct fixed; lia).
    assert (Inside : forall i j, 0 <= i < x2 -> 0 <= j < y2 -> exists p, fb_get f (i + x1) (j + y1) = Some p).
    { intros i j Hi Hj. apply wf_fb_get; auto; lia. }
    unfold save. destruct (collect2_zok y2 x2 (fun i j => fb_get f (i + x1) (j + y1))) as [b Sv].
    { intros i j Hi Hj. destruct (Inside i j Hi Hj) as [p E]. rewrite E. discriminate. }
    rewrite Sv.
    destruct (ensure_rich_ok fmt c Wc) as (c2 & r2 & Er & Lr2). rewrite Er.
    destruct (ensure_rich_geom _ _ _ _ Er) as (G1 & G2 & _).
    pose proof (wf_cursor_rich _ _ _ _ Wc Er Lr2) as Wc2.
    destruct (paint_ok (show_val fmt c2 r2 i1 j1) x1 y1 x2 y2 f ltac:(lia) ltac:(lia)) as [f1 P].
    { intros i j Hi Hj. destruct (Inside i j Hi Hj) as [p E]. exists p. split; auto.
      apply show_val_ok; auto; rewrite ?G1, ?G2; auto; lia. }
    rewrite P. eauto. }
  destruct S as (f1 & buf & c' & S). exists f1, buf, c'. split; [auto|].
  assert (Hd : exists f2, hide fixed f1 c' px py buf = Some f2).
  { destruct (show_get _ _ _ _ _ _ _ _ _ _ S) as [(Sw & Shh & Sm) _].
    pose proof S as S'. unfold show in S'. unfold hide.
    destruct (clip1 fixed px (cxhot c) (cw c) (fw f)) as [[[x1 i1] x2]|] eqn:Cx.
    2:{ inversion S'; subst. rewrite Cx. eauto. }
    destruct (clip1 fixed py (cyhot c) (ch c) (fh f)) as [[[y1 j1] y2]|] eqn:Cy.
    2:{ inversion S'; subst. rewrite Cx, Cy. eauto. }
    destruct (save f x1 y1 x2 y2) as [b|] eqn:Sv; [|discriminate].
    destruct (ensure_rich fmt c) as [[c2 r2]|] eqn:Er; [|discriminate].
    destruct (paint (show_val fmt c2 r2 i1 j1) x1 y1 x2 y2 f) as [f3|] eqn:P; [|discriminate].
    inversion S'; subst; clear S'.
    destruct (ensure_rich_geom _ _ _ _ Er) as (G1 & G2 & G3 & G4 & _).
    rewrite G1, G2, G3, G4, <- Sw, <- Shh, Cx, Cy.
    destruct (clip1_spec _ _ _ _ _ _ _ _ Cx) as (X1 & I1 & X2 & Xn).
    destruct (clip1_spec _ _ _ _ _ _ _ _ Cy) as (Y1 & J1 & Y2 & Yn).
    destruct (paint_get _ _ _ _ _ _ _ (Z.lt_le_incl _ _ Xn) (Z.lt_le_incl _ _ Yn) P) as [_ Ga].
    assert (Lx : lim fixed (fw f) <= fw f) by (unfold lim; destruct fixed; lia).
    assert (Ly : lim fixed (fh f) <= fh f) by (unfold lim; destruct fixed; lia).
    apply paint_ok; [lia|lia|]. intros i j Hi Hj.
    destruct (wf_fb_get f (i + x1) (j + y1) Wf ltac:(lia) ltac:(lia)) as [p E].
    rewrite Ga, E. eexists; split; [reflexivity|].
    rewrite (save_spec f x1 y1 x2 y2 buf) by (auto; lia). rewrite E. discriminate. }
  destruct Hd as [f2 Hd]. rewrite Hd. f_equal. eapply hide_show_weak; eauto.
Qed.

(* ------------------------------------------------------------------ show = overlay *)
Lemma wf_fb_get_lt : forall f x y p, wf_fb f -> fb_get f x y = Some p -> 0 <= x < fw f /\ 0 <= y < fh f.
Proof.
  intros f x y p (W & H & L & F) G. unfold fb_get in G.
  destruct (zidx (rows f) y) as [r|] eqn:E; [|discriminate].
  pose proof (zidx_lt _ _ _ E). pose proof (zidx_lt _ _ _ G).
  assert (length r = Z.to_nat (fw f)).
  { rewrite Forall_forall in F. apply F. unfold zidx in E.
    destruct (Z.ltb_spec y 0); [lia|]. eapply nth_error_In; eauto. }
  lia.
Qed.

Lemma show_cursor_geom : forall fixed fmt f c px py ub f1 buf c',
  show fixed fmt f c px py ub = Some (f1, buf, c') ->
  cw c' = cw c /\ ch c' = ch c /\ cxhot c' = cxhot c /\ cyhot c' = cyhot c.
Proof.
  intros fixed fmt f c px py ub f1 buf c' S. unfold show in S.
  destruct (clip1 fixed px (cxhot c) (cw c) (fw f)) as [[[x1 i1] x2]|]; [|inversion S; subst; auto].
  destruct (clip1 fixed py (cyhot c) (ch c) (fh f)) as [[[y1 j1] y2]|]; [|inversion S; subst; auto].
  destruct (save f x1 y1 x2 y2); [|discriminate].
  destruct (ensure_rich fmt c) as [[c2 r2]|] eqn:Er; [|discriminate].
  destruct (paint _ _ _ _ _ f); [|discriminate]. inversion S; subst.
  destruct (ensure_rich_geom _ _ _ _ Er) as (? & ? & ? & ? & _). auto.
Qed.

(* general form: the code as it is paints exactly the cursor cells left of column lim and above
   row lim (lim = W-1/H-1 today, W/H with the fix) *)
Lemma show_overlay_lim : forall fixed fmt f c px py ub f1 buf c' r,
  show fixed fmt f c px py ub = Some (f1, buf, c') -> crich c' = Some r ->
  forall x y, fb_get f1 x y =
    if (x <? lim fixed (fw f)) && (y <? lim fixed (fh f))
    then overlay_get fmt c' r px py f x y else fb_get f x y.
Proof.
  intros fixed fmt f c px py ub f1 buf c' r S Hr x y.
  destruct (show_get _ _ _ _ _ _ _ _ _ _ S) as [_ G].
  rewrite (G r) by (intros r' E; congruence).
  destruct (show_cursor_geom _ _ _ _ _ _ _ _ _ _ S) as (G1 & G2 & G3 & G4).
  unfold overlay_get, cursor_cell, show_box, in_cursor. rewrite G1, G2, G3, G4.
  destruct (fb_get f x y) as [p|]; [|destruct (_ && _); reflexivity].
  destruct (x <? lim fixed (fw f)); destruct (y <? lim fixed (fh f));
    rewrite ?andb_true_r, ?andb_false_r; cbn [andb]; reflexivity.
Qed.

Theorem show_is_overlay_fixed : forall fmt f c px py ub f1 buf c' r,
  wf_fb f -> show true fmt f c px py ub = Some (f1, buf, c') -> crich c' = Some r ->
  forall x y, fb_get f1 x y = overlay_get fmt c' r px py f x y.
Proof.
  intros fmt f c px py ub f1 buf c' r Wf S Hr x y.
  rewrite (show_overlay_lim _ _ _ _ _ _ _ _ _ _ _ S Hr). unfold lim.
  destruct (fb_get f x y) as [p|] eqn:G.
  - destruct (wf_fb_get_lt _ _ _ _ Wf G).
    replace (x <? fw f) with true by (symmetry; apply Z.ltb_lt; lia).
    replace (y <? fh f) with true by (symmetry; apply Z.ltb_lt; lia). reflexivity.
  - unfold overlay_get. rewrite G. destruct (_ && _); reflexivity.
Qed.

Theorem show_is_overlay_partial : forall fmt f c px py ub f1 buf c' r,
  show false fmt f c px py ub = Some (f1, buf, c') -> crich c' = Some r ->
  forall x y, x < fw f - 1 -> y < fh f - 1 ->
  fb_get f1 x y = overlay_get fmt c' r px py f x y.
Proof.
  intros fmt f c px py ub f1 buf c' r S Hr x y Hx Hy.
  rewrite (show_overlay_lim _ _ _ _ _ _ _ _ _ _ _ S Hr). unfold lim.
  replace (x <? fw f - 1) with true by (symmetry; apply Z.ltb_lt; lia).
  replace (y <? fh f - 1) with true by (symmetry; apply Z.ltb_lt; lia). reflexivity.
Qed.

Theorem show_last_column_untouched : forall fmt f c px py ub f1 buf c',
  wf_fb f -> wf_cursor c ->
  show false fmt f c px py ub = Some (f1, buf, c') ->
  forall x y, x = fw f - 1 \/ y = fh f - 1 -> fb_get f1 x y = fb_get f x y.
Proof.
  intros fmt f c px py ub f1 buf c' Wf Wc S x y Hxy.
  destruct (show_get _ _ _ _ _ _ _ _ _ _ S) as [_ G].
  assert (exists r, forall r', crich c' = Some r' -> r' = r) as [r Hr].
  { destruct (crich c') as [r|]; [exists r; intros; congruence | exists []; intros; discriminate]. }
  rewrite (G r Hr). destruct (fb_get f x y) as [p|]; [|reflexivity]. f_equal.
  unfold show_box, lim. destruct Hxy; subst.
  - rewrite Z.ltb_irrefl. rewrite andb_false_r. reflexivity.
  - rewrite Z.ltb_irrefl. rewrite andb_false_r. reflexivity.
Qed.

(* ------------------------------------------------------------------ witnesses *)
Definition fmt32 : pixfmt := mkfmt 4 255 255 255 0 8 16.
Definition wit_fb : fb := mkfb 3 2 [[1; 2; 3]; [4; 5; 6]].
Definition wit_cur : cursor := mkcur 2 2 0 0 None [192; 192] (Some [7; 8; 9; 10]) None false (0, 0, 0) (0, 0, 0) false.

(* the code as it is never paints column W-1 / row H-1 (DESIGN.md section 7, F15) *)
Lemma last_column_refuted :
  exists fmt f c px py ub f1 buf c' r x y,
    wf_fb f /\ wf_cursor c /\ show false fmt f c px py ub = Some (f1, buf, c') /\ crich c' = Some r /\
    fb_get f1 x y <> overlay_get fmt c' r px py f x y.
Proof.
  exists fmt32, wit_fb, wit_cur, 1, 0, [], (mkfb 3 2 [[1; 7; 3]; [4; 5; 6]]), [2], wit_cur, [7; 8; 9; 10], 2, 0.
  split; [|split; [|split; [|split]]].
  - unfold wf_fb; cbn. repeat split; try lia. repeat constructor.
  - unfold wf_cursor; cbn. repeat split; lia.
  - vm_compute. reflexivity.
  - reflexivity.
  - vm_compute. discriminate.
Qed.

Example hide_show_id_nonvacuous :
  wf_fb wit_fb /\ wf_cursor wit_cur /\
  exists f1 buf c', show false fmt32 wit_fb wit_cur 1 0 [] = Some (f1, buf, c') /\ f1 <> wit_fb.
Proof.
  split; [|split].
  - unfold wf_fb; cbn. repeat split; try lia. repeat constructor.
  - unfold wf_cursor; cbn. repeat split; lia.
  - do 3 eexists. split; [vm_compute; reflexivity|]. intros E. discriminate.
Qed.

Example show_is_overlay_fixed_nonvacuous :
  exists f1 buf c', show true fmt32 wit_fb wit_cur 2 1 [] = Some (f1, buf, c') /\ fb_get f1 2 1 = Some 7.
Proof. do 3 eexists. split; vm_compute; reflexivity. Qed.

Example show_is_overlay_partial_nonvacuous :
  exists f1 buf c', show false fmt32 wit_fb wit_cur 1 0 [] = Some (f1, buf, c') /\ fb_get f1 1 0 = Some 7 /\ 1 < fw wit_fb - 1.
Proof. do 3 eexists. split; [vm_compute; reflexivity|]. split; [vm_compute; reflexivity|cbn; lia]. Qed.

(* rfbMakeRichCursorFromXCursor: every pixel is the foreground or the background word, chosen by the
   source bitmap *)
Lemma rich_from_x_spec : forall fmt c r, 0 <= cw c -> 0 <= ch c ->
  make_rich_from_x fmt c = Some r ->
  Z.of_nat (length r) = ch c * cw c /\
  forall i j, 0 <= i < cw c -> 0 <= j < ch c ->
    exists byte, zidx (opt_list (csource c)) (j * w8 c + i / 8) = Some byte /\
      zidx r (j * cw c + i) =
      Some (if bit_of byte i then pixmod fmt (rgb_word fmt (cfore c)) else pixmod fmt (rgb_word fmt (cback c))).
Proof.
  intros fmt c r Hw Hh H. unfold make_rich_from_x in H.
  destruct (collect2_zidx _ _ _ _ Hh Hw H) as [L N]. split; [exact L|].
  intros i j Hi Hj. specialize (N i j Hi Hj). cbv beta in N.
  destruct (zidx (opt_list (csource c)) (j * w8 c + i / 8)) as [byte|] eqn:E.
  - exists byte. split; [reflexivity|exact N].
  - exfalso. destruct (collect2_spec _ _ _ _ _ H) as [_ N2].
    assert (zidx r (j * cw c + i) <> None).
    { assert (0 <= j * cw c + i < ch c * cw c) by nia.
      destruct (zidx_some r (j * cw c + i)) as [a Ea]; [lia|]. congruence. }
    congruence.
Qed.
