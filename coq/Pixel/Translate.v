(* C10 - pixel-format translation: executable mirror model of
     src/libvncserver/translate.c          (rfbSetTranslateFunction, rfbTranslateNone, PF_EQ,
                                            rfbSetClientColourMapBGR233)
     src/libvncserver/tableinittctemplate.c (rfbInitTrueColourSingleTableOUT, rfbInitTrueColourRGBTablesOUT,
                                            rfbInitOneRGBTableOUT)
     src/libvncserver/tableinitcmtemplate.c (rfbInitColourMapSingleTableOUT)
     src/libvncserver/tabletranstemplate.c  (rfbTranslateWithSingleTableINtoOUT, rfbTranslateWithRGBTablesINtoOUT)
     src/libvncserver/tableinit24.c, tabletrans24template.c (24-bpp variants)
   Definitions only.  Conventions:
   - the host is little endian (rfbEndianTest = 1): a uintN_t load/store at byte offset o is
     the little-endian value of the N/8 bytes at o;
   - C [int] arithmetic is 32-bit two's complement ([wrap32s]); uintN_t is [u_of N];
   - a lookup table is immutable after its initialisation, so it is modelled as the function
     index -> entry ([tc_single_entry], [rgb_entry], [cm_single_entry]); [table_bytes]
     materialises the bytes of the malloc'ed table for the correspondence run;
   - the input buffer is a byte list; a load outside it is the explicit result [XFault off]
     (first inaccessible byte offset), never a default value. *)
From Coq Require Import ZArith List Bool.
From LV Require Import Gen.Consts_C10.
Import ListNotations.
Local Open Scope Z_scope.

(* ------------------------------------------------------------------ formats *)
Record pixfmt := mkfmt {
  bpp : Z; depth : Z; be : bool; tc : bool;
  rmax : Z; gmax : Z; bmax : Z; rs : Z; gs : Z; bs : Z }.

(* rfbColourMap: is16, count, data (count*3 entries, host order) *)
Record cmap := mkcmap { cm_is16 : bool; cm_count : Z; cm_data : list Z }.

Definition empty_cmap : cmap := mkcmap false 0 [].

(* static const rfbPixelFormat BGR233Format = {...}  -- regenerated from translate.c *)
Definition nthz (l : list Z) (n : nat) : Z := nth n l (-1).
Definition bgr233 : pixfmt :=
  mkfmt (nthz c10_bgr233 0) (nthz c10_bgr233 1) (negb (nthz c10_bgr233 2 =? 0)) (negb (nthz c10_bgr233 3 =? 0))
        (nthz c10_bgr233 4) (nthz c10_bgr233 5) (nthz c10_bgr233 6)
        (nthz c10_bgr233 7) (nthz c10_bgr233 8) (nthz c10_bgr233 9).

(* ------------------------------------------------------------------ C integer arithmetic *)
Definition wrap32s (x : Z) : Z :=
  let m := x mod 4294967296 in if m <? 2147483648 then m else m - 4294967296.
Definition u_of (n x : Z) : Z := x mod 2 ^ n.

(* #define Swap16(s) ((((s) & 0xff) << 8) | (((s) >> 8) & 0xff)) *)
Definition swap16 (s : Z) : Z := Z.lor (Z.shiftl (Z.land s 255) 8) (Z.land (Z.shiftr s 8) 255).
(* #define Swap32(l) ((((l) >> 24) & 0xff) | (((l) & 0xff0000) >> 8) | (((l) & 0xff00) << 8) | (((l) & 0xff) << 24)) *)
Definition swap32 (l : Z) : Z :=
  Z.lor (Z.lor (Z.lor (Z.land (Z.shiftr l 24) 255) (Z.shiftr (Z.land l 16711680) 8))
               (Z.shiftl (Z.land l 65280) 8))
        (Z.shiftl (Z.land l 255) 24).
(* t[i] = SwapOUT(t[i]) on an OUT_T lvalue *)
Definition swap_out (obpp v : Z) : Z :=
  if obpp =? 16 then u_of 16 (swap16 v) else if obpp =? 32 then u_of 32 (swap32 v) else v.

(* (in * outMax + inMax / 2) / inMax (truncating division): in C int arithmetic as long as the table
   initialisers compute it in int, in uint32_t arithmetic once they cast the component to uint32_t
   (switch re-read from tableinittctemplate.c on every run, see tools/consts.d/C10.json) *)
Definition scale_unsigned : bool := match c10_scale_probe with [] => false | _ => true end.
Definition scale_c (c inMax outMax : Z) : Z :=
  if scale_unsigned then Z.quot (u_of 32 (c * outMax + inMax / 2)) inMax
  else Z.quot (wrap32s (c * outMax + inMax / 2)) inMax.

(* number of bytes loaded for one 24-bpp source pixel: 4 while the code uses *(uint32_t * )ip, 3 once
   it assembles the pixel from its 3 bytes (switch re-read from tabletrans24template.c); -1 = unknown *)
Definition load24_bytes : Z :=
  match c10_load24_probe with
  | [32] => 4
  | [24] => 3
  | _ => -1
  end.

(* (v >> shift) & max *)
Definition comp (v s m : Z) : Z := Z.land (Z.shiftr v s) m.

Definition need_swap (sf cf : pixfmt) : bool := negb (Bool.eqb (be cf) (be sf)).

(* ------------------------------------------------------------------ table entries, OUT = 8/16/32 *)
(* rfbInitTrueColourSingleTableOUT: value of t[i] *)
Definition tc_value (sf cf : pixfmt) (i : Z) : Z :=
  let outR := scale_c (comp i (rs sf) (rmax sf)) (rmax sf) (rmax cf) in
  let outG := scale_c (comp i (gs sf) (gmax sf)) (gmax sf) (gmax cf) in
  let outB := scale_c (comp i (bs sf) (bmax sf)) (bmax sf) (bmax cf) in
  Z.lor (Z.lor (Z.shiftl outR (rs cf)) (Z.shiftl outG (gs cf))) (Z.shiftl outB (bs cf)).

Definition tc_single_entry (sf cf : pixfmt) (i : Z) : Z :=
  let t := u_of (bpp cf) (tc_value sf cf i) in
  if negb (bpp cf =? 8) && need_swap sf cf then swap_out (bpp cf) t else t.

(* rfbInitOneRGBTableOUT: value of table[i] *)
Definition rgb_entry (obpp inMax outMax outShift : Z) (swap : bool) (i : Z) : Z :=
  let t := if outShift <? 32
           then u_of obpp (Z.shiftl (u_of obpp (scale_c i inMax outMax)) outShift)
           else 0 in
  if negb (obpp =? 8) && swap then swap_out obpp t else t.

(* rfbTranslateWithRGBTablesINtoOUT: value stored for the source pixel value v *)
Definition rgb_value (sf cf : pixfmt) (v : Z) : Z :=
  let sw := need_swap sf cf in
  Z.lor (Z.lor (rgb_entry (bpp cf) (rmax sf) (rmax cf) (rs cf) sw (comp v (rs sf) (rmax sf)))
               (rgb_entry (bpp cf) (gmax sf) (gmax cf) (gs cf) sw (comp v (gs sf) (gmax sf))))
        (rgb_entry (bpp cf) (bmax sf) (bmax cf) (bs cf) sw (comp v (bs sf) (bmax sf))).

(* rfbInitColourMapSingleTableOUT: r,g,b of colour i; [None] = the C code reads outside data *)
Definition cm_rgb (cm : cmap) (i : Z) : option (Z * Z * Z) :=
  if i <? cm_count cm then
    match nth_error (cm_data cm) (Z.to_nat (3 * i)), nth_error (cm_data cm) (Z.to_nat (3 * i + 1)),
          nth_error (cm_data cm) (Z.to_nat (3 * i + 2)) with
    | Some r, Some g, Some b => Some (r, g, b)
    | _, _, _ => None
    end
  else Some (0, 0, 0).

Definition cm_shift (cm : cmap) : Z := if cm_is16 cm then 16 else 8.

(* (((r * (1 + out->redMax)) >> shift) << out->redShift)   in uint32_t arithmetic *)
Definition cm_comp (c outMax shift outShift : Z) : Z :=
  u_of 32 (Z.shiftl (Z.shiftr (u_of 32 (c * (1 + outMax))) shift) outShift).

Definition cm_value (cf : pixfmt) (cm : cmap) (rgb : Z * Z * Z) : Z :=
  let '(r, g, b) := rgb in
  Z.lor (Z.lor (cm_comp r (rmax cf) (cm_shift cm) (rs cf)) (cm_comp g (gmax cf) (cm_shift cm) (gs cf)))
        (cm_comp b (bmax cf) (cm_shift cm) (bs cf)).

Definition cm_single_entry (sf cf : pixfmt) (cm : cmap) (i : Z) : option Z :=
  match cm_rgb cm i with
  | None => None
  | Some rgb =>
      let t := u_of (bpp cf) (cm_value cf cm rgb) in
      Some (if negb (bpp cf =? 8) && need_swap sf cf then swap_out (bpp cf) t else t)
  end.

(* ------------------------------------------------------------------ rfbSetTranslateFunction *)
Inductive strategy := SNone | SSingleTC | SSingleCM | SRGB.

Inductive setup_res :=
| SetupErr (code : Z)                                   (* rfbCloseClient + return FALSE *)
| SetupCrash                                            (* integer division by zero in a table initialiser *)
| SetupOk (cf' : pixfmt) (st : strategy) (msg : list Z).  (* effective client format, function, bytes sent *)

Definition valid_bpp (b : Z) : bool :=
  (b =? 8) || (b =? 16) || ((b =? 24) && negb (c10_allow24bpp =? 0)) || (b =? 32).

(* PF_EQ(x,y) *)
Definition pf_eq (x y : pixfmt) : bool :=
  (bpp x =? bpp y) && (depth x =? depth y) && (Bool.eqb (be x) (be y) || (bpp x =? 8)) &&
  Bool.eqb (tc x) (tc y) &&
  (negb (tc x) || ((rmax x =? rmax y) && (gmax x =? gmax y) && (bmax x =? bmax y) &&
                   (rs x =? rs y) && (gs x =? gs y) && (bs x =? bs y))).

(* big-endian 16-bit wire encoding (Swap16IfLE on a little-endian host) *)
Definition be16 (v : Z) : list Z := [(v / 256) mod 256; v mod 256].

(* rfbSetClientColourMapBGR233: the SetColourMapEntries message *)
Fixpoint zseq_from (n : nat) (z : Z) : list Z :=
  match n with O => [] | S n' => z :: zseq_from n' (z + 1) end.
Definition zseq (n : Z) : list Z := zseq_from (Z.to_nat n) 0.

Definition bgr233_entry (i : Z) : list Z :=
  let r := i mod 8 in let g := (i / 8) mod 8 in let b := (i / 64) mod 4 in
  be16 (r * 65535 / 7) ++ be16 (g * 65535 / 7) ++ be16 (b * 65535 / 3).

Definition bgr233_msg : list Z :=
  [c10_msg_scme; 0] ++ be16 0 ++ be16 256 ++ flat_map bgr233_entry (zseq 256).

Definition zero_max (sf : pixfmt) : bool := (rmax sf =? 0) || (gmax sf =? 0) || (bmax sf =? 0).

Definition set_translate (econ : bool) (sf cf : pixfmt) : setup_res :=
  if negb (valid_bpp (bpp sf)) then SetupErr 1 else
  if negb (valid_bpp (bpp cf)) then SetupErr 2 else
  if negb (tc cf) && negb (bpp cf =? 8) then SetupErr 3 else
  let cf' := if tc cf then cf else bgr233 in
  let msg := if tc cf then [] else bgr233_msg in
  if pf_eq cf' sf then SetupOk cf' SNone msg else
  if (bpp sf <? 16) || ((negb (tc sf) || negb econ) && (bpp sf =? 16)) then
    if tc sf then (if zero_max sf then SetupCrash else SetupOk cf' SSingleTC msg)
    else SetupOk cf' SSingleCM msg
  else (if zero_max sf then SetupCrash else SetupOk cf' SRGB msg).

(* ------------------------------------------------------------------ byte-level helpers *)
Fixpoint le_val (l : list Z) : Z := match l with [] => 0 | b :: t => b + 256 * le_val t end.

Fixpoint le_bytes (n : nat) (v : Z) : list Z :=
  match n with O => [] | S n' => (v mod 256) :: le_bytes n' (v / 256) end.

Fixpoint take (n : nat) (l : list Z) : option (list Z) :=
  match n with
  | O => Some []
  | S n' => match l with [] => None | b :: t => match take n' t with Some p => Some (b :: p) | None => None end end
  end.

Inductive xres :=
| XOk (out : list Z)
| XFault (off : Z)          (* load from input byte offset [off], outside the buffer *)
| XUndef (why : Z).         (* 1: table undefined (division by zero / colour map too short)
                               2: negative row step  3: (unused)  5: width of the 24-bpp load unknown
                               4: negative width/height *)

(* one row: n pixels; each pixel loads [peek] bytes at the cursor and advances by [adv] bytes;
   [f] maps the loaded little-endian value to the bytes stored.  [off] = offset of the cursor. *)
Fixpoint xl_row (peek adv : nat) (f : Z -> option (list Z)) (n : nat) (l : list Z) (off : Z) : xres :=
  match n with
  | O => XOk []
  | S n' =>
      match take peek l with
      | None => XFault (off + Z.of_nat (length l))
      | Some px =>
          match f (le_val px) with
          | None => XUndef 1
          | Some ob =>
              match xl_row peek adv f n' (skipn adv l) (off + Z.of_nat adv) with
              | XOk o => XOk (ob ++ o)
              | e => e
              end
          end
      end
  end.

(* h rows; the cursor moves by [step] bytes from one row start to the next *)
Fixpoint xl_rows (row : list Z -> Z -> xres) (step : nat) (h : nat) (l : list Z) (off : Z) : xres :=
  match h with
  | O => XOk []
  | S h' =>
      match row l off with
      | XOk o1 =>
          match xl_rows row step h' (skipn step l) (off + Z.of_nat step) with
          | XOk o2 => XOk (o1 ++ o2)
          | e => e
          end
      | e => e
      end
  end.

(* rfbTranslateNone row: memcpy(optr, iptr, n) *)
Definition copy_row (n : nat) (l : list Z) (off : Z) : xres :=
  match take n l with
  | Some p => XOk p
  | None => XFault (off + Z.of_nat (length l))
  end.

(* value stored (as OUT_T) for the loaded source value v *)
Definition out_value (st : strategy) (sf cf : pixfmt) (cm : cmap) (v : Z) : option Z :=
  match st with
  | SNone => None
  | SSingleTC => Some (tc_single_entry sf cf v)
  | SSingleCM => cm_single_entry sf cf cm v
  | SRGB => Some (u_of (bpp cf) (rgb_value sf cf v))
  end.

Definition pixel_fn (st : strategy) (sf cf : pixfmt) (cm : cmap) (v : Z) : option (list Z) :=
  let v' := if bpp sf =? 24 then Z.land v 16777215 else v in
  match out_value st sf cf cm v' with
  | Some t => Some (le_bytes (Z.to_nat (bpp cf / 8)) t)
  | None => None
  end.

(* ---- 24-bpp clients (tableinit24.c, tabletrans24template.c).  Table entries are 3 bytes:
   the uint32_t store of outValue at &t[3*i] writes 4 bytes, the 4th is overwritten by the next entry (or lands
   in the extra byte malloc'ed after the table); "swap" exchanges bytes 0 and 2. *)
Definition entry24_bytes (swap : bool) (v32 : Z) : list Z :=
  let b := le_bytes 3 v32 in if swap then rev b else b.

(* rfbInitTrueColourSingleTable24 / rfbInitColourMapSingleTable24 : bytes of entry i *)
Definition single24_entry (st : strategy) (sf cf : pixfmt) (cm : cmap) (i : Z) : option (list Z) :=
  match st with
  | SSingleTC => Some (entry24_bytes (need_swap sf cf) (u_of 32 (tc_value sf cf i)))
  | SSingleCM => match cm_rgb cm i with
                 | Some rgb => Some (entry24_bytes (need_swap sf cf) (u_of 32 (cm_value cf cm rgb)))
                 | None => None
                 end
  | _ => None
  end.

(* rfbInitOneRGBTable24: outValue of entry i (outShift < 32; no check in the C code) *)
Definition rgb24_value (inMax outMax outShift i : Z) : Z := u_of 32 (Z.shiftl (scale_c i inMax outMax) outShift).

(* redTable[idx] in rfbTranslateWithRGBTablesINto24 / 24to24: the tables hold 3-byte entries but are
   indexed as BYTE arrays with the component value: byte (idx mod 3) of entry (idx / 3) *)
Definition rgb24_table_byte (inMax outMax outShift : Z) (swap : bool) (idx : Z) : Z :=
  nth (Z.to_nat (idx mod 3)) (entry24_bytes swap (rgb24_value inMax outMax outShift (idx / 3))) 0.

(* the three-table functions for 24-bpp clients index the tables correctly (entry 3*c, bytewise OR of
   the three 3-byte entries) once the source does (switch re-read from tabletrans24template.c) *)
Definition rgb24_fixed : bool := match c10_rgb24_probe with [3] => true | _ => false end.

Definition lor_bytes (a b : list Z) : list Z := map (fun p => Z.lor (fst p) (snd p)) (combine a b).

Definition rgb24_entry (inMax outMax outShift : Z) (swap : bool) (c : Z) : list Z :=
  entry24_bytes swap (rgb24_value inMax outMax outShift c).

Definition pixel_fn24 (st : strategy) (sf cf : pixfmt) (cm : cmap) (v : Z) : option (list Z) :=
  let v' := if bpp sf =? 24 then Z.land v 16777215 else v in
  match st with
  | SRGB =>
      let sw := need_swap sf cf in
      if rgb24_fixed then
        Some (lor_bytes (lor_bytes (rgb24_entry (rmax sf) (rmax cf) (rs cf) sw (comp v' (rs sf) (rmax sf)))
                                   (rgb24_entry (gmax sf) (gmax cf) (gs cf) sw (comp v' (gs sf) (gmax sf))))
                        (rgb24_entry (bmax sf) (bmax cf) (bs cf) sw (comp v' (bs sf) (bmax sf))))
      else
      let outValue :=
        Z.lor (Z.lor (rgb24_table_byte (rmax sf) (rmax cf) (rs cf) sw (comp v' (rs sf) (rmax sf)))
                     (rgb24_table_byte (gmax sf) (gmax cf) (gs cf) sw (comp v' (gs sf) (gmax sf))))
              (rgb24_table_byte (bmax sf) (bmax cf) (bs cf) sw (comp v' (bs sf) (bmax sf))) in
      Some (le_bytes 3 outValue)                    (* memcpy(op, &outValue, 3) *)
  | _ => single24_entry st sf cf cm v'              (* memcpy(op, &t[3*idx], 3) *)
  end.

(* the translate function selected by rfbSetTranslateFunction, applied to
   (iptr = start of [input], bytesBetweenInputLines = stride, width = w, height = h) *)
Definition translate_fn (st : strategy) (sf cf : pixfmt) (cm : cmap)
           (stride w h : Z) (input : list Z) : xres :=
  if (stride <? 0) then XUndef 2 else
  if (w <? 0) || (h <? 0) then XUndef 4 else
  match st with
  | SNone =>
      xl_rows (copy_row (Z.to_nat (w * (bpp cf / 8)))) (Z.to_nat stride) (Z.to_nat h) input 0
  | _ =>
      if (match st with SSingleCM => false | _ => zero_max sf end) then XUndef 1 else
      if (bpp sf =? 24) && negb ((load24_bytes =? 3) || (load24_bytes =? 4)) then XUndef 5 else
      let isz := bpp sf / 8 in
      let peek := if bpp sf =? 24 then load24_bytes else isz in
      (* ip += ipextra with ipextra = stride / sizeof(IN_T) - width (24 bpp: stride - 3*width) *)
      let step := if bpp sf =? 24 then stride else (stride / isz) * isz in
      xl_rows (xl_row (Z.to_nat peek) (Z.to_nat isz)
                      (if bpp cf =? 24 then pixel_fn24 st sf cf cm else pixel_fn st sf cf cm) (Z.to_nat w))
              (Z.to_nat step) (Z.to_nat h) input 0
  end.

(* rfbSetClientColourMap(cl, first, n) for a true-colour client: the colour map the client's lookup
   table reflects afterwards ([table_cm] = the map it was built from, [screen_cm] = screen->colourMap
   now).  Nothing happens for true-colour servers or before the client is ready. *)
Definition recolour (sf : pixfmt) (ready : bool) (table_cm screen_cm : cmap) : cmap :=
  if tc sf || negb ready then table_cm else screen_cm.

(* ... and whether it replaced cl->modifiedRegion by the whole screen (so that everything is re-sent with
   the new colours) *)
Definition recolour_marks_screen (sf : pixfmt) (ready : bool) : bool := negb (tc sf || negb ready).

(* the flag bytes of a SetPixelFormat message: the handler stores (byte ? TRUE : FALSE); TRUE is -1, i.e.
   255 in the uint8_t fields.  PF_EQ and the swap decisions compare the STORED bigEndian bytes with == / !=. *)
Definition wire_flag (b : Z) : bool := negb (b =? 0).
Definition stored_flag (f : bool) : Z := if f then 255 else 0.

(* rfbInitServerFormat (main.c) on a little-endian host, as called by rfbNewFramebuffer(screen, fb, w, h,
   bitsPerSample, samplesPerPixel, bytesPerPixel): always true colour, host byte order *)
Definition init_server_format (bytespp bps : Z) : pixfmt :=
  let b := 8 * bytespp in
  if b =? 8 then mkfmt 8 8 false true 7 7 3 0 3 6
  else let m := u_of 16 (2 ^ bps - 1) in
       mkfmt b b false true m m m 0 (u_of 8 bps) (u_of 8 (bps * 2)).

(* memcmp(&screen->serverFormat, &old_format, sizeof(rfbPixelFormat)) == 0 *)
Definition fmt_eqb (x y : pixfmt) : bool :=
  (bpp x =? bpp y) && (depth x =? depth y) && Bool.eqb (be x) (be y) && Bool.eqb (tc x) (tc y) &&
  (rmax x =? rmax y) && (gmax x =? gmax y) && (bmax x =? bmax y) &&
  (rs x =? rs y) && (gs x =? gs y) && (bs x =? bs y).

(* rfbNewFramebuffer for one connected client whose effective format is [cfe]: the new server format and,
   when it differs from the old one, the result of re-running rfbSetTranslateFunction for the client
   ([None] = format unchanged, the client keeps its function and table) *)
Definition new_framebuffer (econ : bool) (sf : pixfmt) (bytespp bps : Z) (cfe : pixfmt) : pixfmt * option setup_res :=
  let sf' := init_server_format bytespp bps in
  (sf', if fmt_eqb sf' sf then None else Some (set_translate econ sf' cfe)).

(* the byte ranges (offset, length) loaded, in order; independent of the data *)
Definition reads_fn (st : strategy) (sf cf : pixfmt) (stride w h : Z) : list (Z * Z) :=
  match st with
  | SNone => map (fun r => (r * stride, w * (bpp cf / 8))) (zseq h)
  | _ =>
      let isz := bpp sf / 8 in
      let peek := if bpp sf =? 24 then load24_bytes else isz in
      let step := if bpp sf =? 24 then stride else (stride / isz) * isz in
      flat_map (fun r => map (fun x => (r * step + x * isz, peek)) (zseq w)) (zseq h)
  end.

Definition read_extent (rd : list (Z * Z)) : Z :=
  fold_left (fun m p => if 0 <? snd p then Z.max m (fst p + snd p) else m) rd 0.

(* ------------------------------------------------------------------ materialised tables *)
Definition opt_bytes (n : nat) (o : option Z) : list Z :=
  match o with Some t => le_bytes n t | None => [] end.

Definition last_spill (entries : list Z) (v32 : Z) : list Z := entries ++ [(v32 / 16777216) mod 256].

Definition table_bytes24 (st : strategy) (sf cf : pixfmt) (cm : cmap) : list Z :=
  let sw := need_swap sf cf in
  match st with
  | SNone => []
  | SSingleTC =>
      last_spill (flat_map (fun i => entry24_bytes sw (u_of 32 (tc_value sf cf i))) (zseq (2 ^ bpp sf)))
                 (u_of 32 (tc_value sf cf (2 ^ bpp sf - 1)))
  | SSingleCM =>
      last_spill (flat_map (fun i => match single24_entry SSingleCM sf cf cm i with Some b => b | None => [] end) (zseq (2 ^ bpp sf)))
                 (match cm_rgb cm (2 ^ bpp sf - 1) with Some rgb => u_of 32 (cm_value cf cm rgb) | None => 0 end)
  | SRGB =>
      last_spill
        (flat_map (fun i => entry24_bytes sw (rgb24_value (rmax sf) (rmax cf) (rs cf) i)) (zseq (rmax sf + 1)) ++
         flat_map (fun i => entry24_bytes sw (rgb24_value (gmax sf) (gmax cf) (gs cf) i)) (zseq (gmax sf + 1)) ++
         flat_map (fun i => entry24_bytes sw (rgb24_value (bmax sf) (bmax cf) (bs cf) i)) (zseq (bmax sf + 1)))
        (rgb24_value (bmax sf) (bmax cf) (bs cf) (bmax sf))
  end.

Definition table_bytes (st : strategy) (sf cf : pixfmt) (cm : cmap) : list Z :=
  if bpp cf =? 24 then table_bytes24 st sf cf cm else
  let ob := Z.to_nat (bpp cf / 8) in
  let sw := need_swap sf cf in
  match st with
  | SNone => []
  | SSingleTC => flat_map (fun i => le_bytes ob (tc_single_entry sf cf i)) (zseq (2 ^ bpp sf))
  | SSingleCM => flat_map (fun i => opt_bytes ob (cm_single_entry sf cf cm i)) (zseq (2 ^ bpp sf))
  | SRGB =>
      flat_map (fun i => le_bytes ob (rgb_entry (bpp cf) (rmax sf) (rmax cf) (rs cf) sw i)) (zseq (rmax sf + 1)) ++
      flat_map (fun i => le_bytes ob (rgb_entry (bpp cf) (gmax sf) (gmax cf) (gs cf) sw i)) (zseq (gmax sf + 1)) ++
      flat_map (fun i => le_bytes ob (rgb_entry (bpp cf) (bmax sf) (bmax cf) (bs cf) sw i)) (zseq (bmax sf + 1))
  end.

(* ------------------------------------------------------------------ specification level
   (what the property says; used by the theorems, not by the correspondence run) *)
(* rescale with rounding to nearest, in exact integer arithmetic *)
Definition scale_spec (c inMax outMax : Z) : Z := (c * outMax + inMax / 2) / inMax.

(* the pixel the client must receive for source pixel value p *)
Definition rule_pixel (sf cf : pixfmt) (p : Z) : Z :=
  scale_spec (comp p (rs sf) (rmax sf)) (rmax sf) (rmax cf) * 2 ^ rs cf +
  scale_spec (comp p (gs sf) (gmax sf)) (gmax sf) (gmax cf) * 2 ^ gs cf +
  scale_spec (comp p (bs sf) (bmax sf)) (bmax sf) (bmax cf) * 2 ^ bs cf.

Definition be_bytes (n : nat) (v : Z) : list Z := rev (le_bytes n v).

(* bytes of pixel value v in the byte order the client asked for *)
Definition client_bytes (cf : pixfmt) (v : Z) : list Z :=
  if be cf then be_bytes (Z.to_nat (bpp cf / 8)) v else le_bytes (Z.to_nat (bpp cf / 8)) v.

Definition slice (l : list Z) (off len : Z) : list Z := firstn (Z.to_nat len) (skipn (Z.to_nat off) l).

(* ------------------------------------------------------------------ supported domain (Prop level) *)
Definition is_max (m k : Z) : Prop := 1 <= k <= 16 /\ m = 2 ^ k - 1.

(* maxima are 2^k-1, every component lies inside the pixel, components pairwise disjoint *)
Record fmt_wf (f : pixfmt) (kr kg kb : Z) : Prop := mk_fmt_wf {
  wf_r : is_max (rmax f) kr; wf_g : is_max (gmax f) kg; wf_b : is_max (bmax f) kb;
  wf_rs : 0 <= rs f /\ rs f + kr <= bpp f;
  wf_gs : 0 <= gs f /\ gs f + kg <= bpp f;
  wf_bs : 0 <= bs f /\ bs f + kb <= bpp f;
  wf_rg : rs f + kr <= gs f \/ gs f + kg <= rs f;
  wf_rb : rs f + kr <= bs f \/ bs f + kb <= rs f;
  wf_gb : gs f + kg <= bs f \/ bs f + kb <= gs f }.

Definition server_ok (f : pixfmt) : Prop :=
  tc f = true /\ (bpp f = 8 \/ bpp f = 16 \/ bpp f = 24 \/ bpp f = 32) /\ exists kr kg kb, fmt_wf f kr kg kb.

Definition client_ok (f : pixfmt) : Prop :=
  (bpp f = 8 \/ bpp f = 16 \/ bpp f = 32) /\ exists kr kg kb, fmt_wf f kr kg kb.

(* the int computation (c*outMax + inMax/2) does not overflow for any component value c <= inMax *)
Definition no_ovf (sf cf : pixfmt) : Prop :=
  rmax sf * rmax cf + rmax sf / 2 < 2147483648 /\
  gmax sf * gmax cf + gmax sf / 2 < 2147483648 /\
  bmax sf * bmax cf + bmax sf / 2 < 2147483648.

(* the rescaling is exact: either it is computed in uint32_t, or the int computation cannot overflow *)
Definition arith_ok (sf cf : pixfmt) : Prop := scale_unsigned = true \/ no_ovf sf cf.

Definition bytes_ok (l : list Z) : Prop := Forall (fun b => 0 <= b < 256) l.

(* the three scaled components and the pixel in "lor" form *)
Definition sc_r (sf cf : pixfmt) (p : Z) : Z := scale_spec (comp p (rs sf) (rmax sf)) (rmax sf) (rmax cf).
Definition sc_g (sf cf : pixfmt) (p : Z) : Z := scale_spec (comp p (gs sf) (gmax sf)) (gmax sf) (gmax cf).
Definition sc_b (sf cf : pixfmt) (p : Z) : Z := scale_spec (comp p (bs sf) (bmax sf)) (bmax sf) (bmax cf).

(* row start offsets used by the C code: ip += bytesBetweenInputLines / sizeof(IN_T) - width pixels
   (24 bpp: bytes) after each row *)
Definition row_step (sf : pixfmt) (stride : Z) : Z :=
  if bpp sf =? 24 then stride else (stride / (bpp sf / 8)) * (bpp sf / 8).

(* the source pixel at byte offset off, loaded in host (little-endian) order *)
Definition src_pixel (sf : pixfmt) (input : list Z) (off : Z) : Z := le_val (slice input off (bpp sf / 8)).

(* colour-map servers: the component rule (c * (outMax + 1)) >> 8 or 16 *)
Definition cm_spec_comp (cm : cmap) (c outMax : Z) : Z := (c * (outMax + 1)) / 2 ^ cm_shift cm.

Definition cm_pixel (cf : pixfmt) (cm : cmap) (rgb : Z * Z * Z) : Z :=
  let '(r, g, b) := rgb in
  cm_spec_comp cm r (rmax cf) * 2 ^ rs cf + cm_spec_comp cm g (gmax cf) * 2 ^ gs cf + cm_spec_comp cm b (bmax cf) * 2 ^ bs cf.

Definition cmap_ok (cm : cmap) : Prop := Forall (fun c => 0 <= c < 2 ^ cm_shift cm) (cm_data cm).
