(* C10 - proofs, part 2: verbatim copy, area exactness (lengths, loads, faults), colour maps,
   the BGR233 map, refutation witnesses, non-vacuity examples *)
From Coq Require Import ZArith List Bool Lia Arith.
From LV Require Import Gen.Consts_C10 Pixel.Translate Pixel.TranslateBits Pixel.TranslateRule Pixel.TranslateWalk
                       Pixel.TranslateProofs.
Import ListNotations.
Local Open Scope Z_scope.

(* ------------------------------------------------------------------ zseq *)
Lemma In_zseq_from : forall k a z, In z (zseq_from k a) <-> a <= z < a + Z.of_nat k.
Proof.
  induction k as [|k IH]; intros a z; simpl zseq_from.
  - simpl. lia.
  - simpl In. rewrite IH. lia.
Qed.

Lemma In_zseq : forall n z, In z (zseq n) <-> 0 <= z < n.
Proof. intros n z. unfold zseq. rewrite In_zseq_from. lia. Qed.

(* ------------------------------------------------------------------ C10_identity *)
Theorem translate_none_copy : forall sf cf cm stride w h input out,
  0 <= bpp cf ->
  translate_fn SNone sf cf cm stride w h input = XOk out ->
  Z.of_nat (length out) = h * (w * (bpp cf / 8)) /\
  forall r, 0 <= r < h ->
    slice out (r * (w * (bpp cf / 8))) (w * (bpp cf / 8)) = slice input (r * stride) (w * (bpp cf / 8)).
Proof.
  intros sf cf cm stride w h input out Hb H. unfold translate_fn in H.
  destruct (stride <? 0) eqn:E1; [discriminate|].
  destruct ((w <? 0) || (h <? 0)) eqn:E2; [discriminate|]. apply orb_false_iff in E2. destruct E2.
  assert (0 <= bpp cf / 8) by (apply Z.div_pos; lia).
  set (N := Z.to_nat (w * (bpp cf / 8))) in *.
  destruct (xl_rows_ok (copy_row N) (Z.to_nat stride) N (copy_row_len N) _ _ _ _ H) as [Hl Hr].
  split.
  - rewrite Hl. unfold N. rewrite Nat2Z.inj_mul, !Z2Nat.id by nia. reflexivity.
  - intros r Hrr. specialize (Hr (Z.to_nat r) ltac:(lia)).
    apply copy_row_ok in Hr. destruct Hr as [_ Hr].
    rewrite !slice_nslice.
    replace (Z.to_nat (r * (w * (bpp cf / 8)))) with (Z.to_nat r * N)%nat
      by (unfold N; rewrite (Z2Nat.inj_mul r) by nia; reflexivity).
    replace (Z.to_nat (r * stride)) with (Z.to_nat r * Z.to_nat stride)%nat
      by (rewrite Z2Nat.inj_mul by lia; reflexivity).
    fold N. exact Hr.
Qed.

(* ------------------------------------------------------------------ pixelwise view of the table functions *)
Lemma translate_pixelwise : forall st sf cf cm stride w h input out,
  st <> SNone -> (bpp sf = 8 \/ bpp sf = 16 \/ bpp sf = 24 \/ bpp sf = 32) -> 0 <= bpp cf -> bpp cf <> 24 ->
  bytes_ok input ->
  translate_fn st sf cf cm stride w h input = XOk out ->
  Z.of_nat (length out) = h * (w * (bpp cf / 8)) /\
  forall r x, 0 <= r < h -> 0 <= x < w ->
    exists raw,
      pixel_fn st sf cf cm raw = Some (slice out ((r * w + x) * (bpp cf / 8)) (bpp cf / 8)) /\
      (if bpp sf =? 24 then Z.land raw 16777215 else raw) =
        src_pixel sf input (r * row_step sf stride + x * (bpp sf / 8)) /\
      r * row_step sf stride + x * (bpp sf / 8) + (if bpp sf =? 24 then load24_bytes else bpp sf / 8) <= Z.of_nat (length input).
Proof.
  intros st sf cf cm stride w h input out Hst Hsb Hcb H24 Hin Hx.
  destruct (translate_fn_walk _ _ _ _ _ _ _ _ _ Hst H24 Hx) as [[u Hu]|(H0 & H1 & H2 & HL & Hw)]; [discriminate|].
  symmetry in Hw.
  destruct (area_pixel _ _ _ _ _ _ _ _ _ (pixel_fn_len st sf cf cm) Hw) as [Hl Hp].
  assert (Hstep : 0 <= row_step sf stride).
  { unfold row_step. destruct (bpp sf =? 24); [lia|]. destruct (bpp8 _ Hsb) as [E|[E|[E|E]]]; rewrite E; Z.div_mod_to_equations; nia. }
  assert (Hisz : 0 <= bpp sf / 8) by (destruct (bpp8 _ Hsb) as [E|[E|[E|E]]]; lia).
  assert (Hosz : 0 <= bpp cf / 8) by (apply Z.div_pos; lia).
  split.
  - rewrite Hl. rewrite !Nat2Z.inj_mul, !Z2Nat.id by lia. reflexivity.
  - intros r x Hr Hxx.
    specialize (Hp (Z.to_nat r) (Z.to_nat x) ltac:(lia) ltac:(lia)). destruct Hp as [Hpk Hp].
    eexists. split; [|split].
    + rewrite slice_nslice, to_nat_lin2 by lia. exact Hp.
    + unfold src_pixel. rewrite slice_nslice, to_nat_lin by lia.
      destruct (bpp sf =? 24) eqn:E24.
      * apply Z.eqb_eq in E24. rewrite E24 in *. change (24 / 8) with 3 in *.
        change (Z.to_nat 3) with 3%nat in *.
        destruct (HL eq_refl) as [EL|EL]; rewrite EL in *.
        -- change (Z.to_nat 3) with 3%nat in *. rewrite le_val_mask24_3.
           ++ unfold nslice. rewrite firstn_firstn. reflexivity.
           ++ unfold nslice. apply bytes_ok_firstn, bytes_ok_skipn. assumption.
           ++ unfold nslice. apply firstn_length_le. assumption.
        -- change (Z.to_nat 4) with 4%nat in *. rewrite le_val_mask24.
           ++ unfold nslice. rewrite firstn_firstn. reflexivity.
           ++ unfold nslice. apply bytes_ok_firstn, bytes_ok_skipn. assumption.
           ++ unfold nslice. apply firstn_length_le. assumption.
      * reflexivity.
    + rewrite skipn_length in Hpk.
      assert (0 < Z.to_nat (if (bpp sf =? 24)%Z then load24_bytes else (bpp sf / 8)%Z))%nat.
      { destruct (bpp sf =? 24) eqn:E24; [apply Z.eqb_eq in E24; destruct (HL E24); lia|].
        apply Z.eqb_neq in E24. destruct (bpp8 _ Hsb) as [E|[E|[E|E]]]; lia. }
      assert (Z.of_nat (Z.to_nat r * Z.to_nat (row_step sf stride) + Z.to_nat x * Z.to_nat (bpp sf / 8)) =
              r * row_step sf stride + x * (bpp sf / 8)).
      { rewrite Nat2Z.inj_add, !Nat2Z.inj_mul, !Z2Nat.id by lia. reflexivity. }
      destruct (bpp sf =? 24); lia.
Qed.

(* ------------------------------------------------------------------ C10_area_exact *)
Theorem translate_out_length : forall st sf cf cm stride w h input out,
  (bpp sf = 8 \/ bpp sf = 16 \/ bpp sf = 24 \/ bpp sf = 32) -> 0 <= bpp cf -> bpp cf <> 24 -> bytes_ok input ->
  translate_fn st sf cf cm stride w h input = XOk out ->
  Z.of_nat (length out) = w * h * (bpp cf / 8).
Proof.
  intros st sf cf cm stride w h input out Hsb Hcb H24 Hin Hx.
  destruct st.
  - destruct (translate_none_copy _ _ _ _ _ _ _ _ Hcb Hx) as [Hl _]. lia.
  - assert (Hne : SSingleTC <> SNone) by discriminate.
    destruct (translate_pixelwise SSingleTC _ _ _ _ _ _ _ _ Hne Hsb Hcb H24 Hin Hx) as [Hl _]. lia.
  - assert (Hne : SSingleCM <> SNone) by discriminate.
    destruct (translate_pixelwise SSingleCM _ _ _ _ _ _ _ _ Hne Hsb Hcb H24 Hin Hx) as [Hl _]. lia.
  - assert (Hne : SRGB <> SNone) by discriminate.
    destruct (translate_pixelwise SRGB _ _ _ _ _ _ _ _ Hne Hsb Hcb H24 Hin Hx) as [Hl _]. lia.
Qed.

(* the loads of the table functions: one per pixel of the area *)
Lemma reads_in : forall st sf cf stride w h o l, st <> SNone ->
  (In (o, l) (reads_fn st sf cf stride w h) <->
   exists r x, 0 <= r < h /\ 0 <= x < w /\ o = r * row_step sf stride + x * (bpp sf / 8) /\
               l = (if bpp sf =? 24 then load24_bytes else bpp sf / 8)).
Proof.
  intros st sf cf stride w h o l Hst.
  assert (E : reads_fn st sf cf stride w h =
              flat_map (fun r => map (fun x => (r * row_step sf stride + x * (bpp sf / 8),
                                                if bpp sf =? 24 then load24_bytes else bpp sf / 8)) (zseq w)) (zseq h)).
  { destruct st; [contradiction| | |]; reflexivity. }
  rewrite E, in_flat_map. split.
  - intros (r & Hr & Hm). apply in_map_iff in Hm. destruct Hm as (x & Hx & Hxx).
    apply In_zseq in Hr. apply In_zseq in Hxx. inversion Hx; subst. exists r, x. auto.
  - intros (r & x & Hr & Hx & -> & ->). exists r. split; [apply In_zseq; assumption|].
    apply in_map_iff. exists x. split; [reflexivity|apply In_zseq; assumption].
Qed.

(* soundness of [reads_fn] w.r.t. the executable model: a successful translation performed every
   listed load inside the buffer ... *)
Theorem translate_ok_reads_inside : forall st sf cf cm stride w h input out,
  st <> SNone -> (bpp sf = 8 \/ bpp sf = 16 \/ bpp sf = 24 \/ bpp sf = 32) -> 0 <= bpp cf -> bpp cf <> 24 -> bytes_ok input ->
  translate_fn st sf cf cm stride w h input = XOk out ->
  forall o l, In (o, l) (reads_fn st sf cf stride w h) -> 0 <= o /\ o + l <= Z.of_nat (length input).
Proof.
  intros st sf cf cm stride w h input out Hst Hsb Hcb H24 Hin Hx o l Hil.
  apply reads_in in Hil; [|assumption]. destruct Hil as (r & x & Hr & Hxx & -> & ->).
  destruct (translate_pixelwise _ _ _ _ _ _ _ _ _ Hst Hsb Hcb H24 Hin Hx) as [_ Hp].
  destruct (Hp r x Hr Hxx) as (raw & _ & _ & Hle). split; [|exact Hle].
  destruct (translate_fn_walk _ _ _ _ _ _ _ _ _ Hst H24 Hx) as [[u Hu]|(H0 & H1 & H2 & HL & Hw)]; [discriminate|].
  assert (0 <= row_step sf stride).
  { unfold row_step. destruct (bpp sf =? 24); [lia|]. destruct (bpp8 _ Hsb) as [E|[E|[E|E]]]; rewrite E; Z.div_mod_to_equations; nia. }
  assert (0 <= bpp sf / 8) by (destruct (bpp8 _ Hsb) as [E|[E|[E|E]]]; lia). nia.
Qed.

(* ... and a fault is one of the listed loads crossing the end of the buffer, reported at the
   first inaccessible byte *)
Theorem translate_fault_is_read : forall st sf cf cm stride w h input k,
  st <> SNone -> (bpp sf = 8 \/ bpp sf = 16 \/ bpp sf = 24 \/ bpp sf = 32) -> bpp cf <> 24 ->
  translate_fn st sf cf cm stride w h input = XFault k ->
  exists o l, In (o, l) (reads_fn st sf cf stride w h) /\ Z.of_nat (length input) < o + l /\
              k = Z.max o (Z.of_nat (length input)).
Proof.
  intros st sf cf cm stride w h input k Hst Hsb H24 Hx.
  destruct (translate_fn_walk _ _ _ _ _ _ _ _ _ Hst H24 Hx) as [[u Hu]|(H0 & H1 & H2 & HL & Hw)]; [discriminate|].
  symmetry in Hw. destruct (area_fault _ _ _ _ _ _ _ _ Hw) as (R & X & HR & HX & Hl & Hk).
  assert (Hstep : 0 <= row_step sf stride).
  { unfold row_step. destruct (bpp sf =? 24); [lia|]. destruct (bpp8 _ Hsb) as [E|[E|[E|E]]]; rewrite E; Z.div_mod_to_equations; nia. }
  assert (Hisz : 0 <= bpp sf / 8) by (destruct (bpp8 _ Hsb) as [E|[E|[E|E]]]; lia).
  exists (Z.of_nat R * row_step sf stride + Z.of_nat X * (bpp sf / 8)), (if bpp sf =? 24 then load24_bytes else bpp sf / 8).
  assert (Eo : Z.of_nat (R * Z.to_nat (row_step sf stride) + X * Z.to_nat (bpp sf / 8)) =
               Z.of_nat R * row_step sf stride + Z.of_nat X * (bpp sf / 8)).
  { rewrite Nat2Z.inj_add, !Nat2Z.inj_mul, !Z2Nat.id by lia. reflexivity. }
  split; [|split].
  - apply reads_in; [assumption|]. exists (Z.of_nat R), (Z.of_nat X). repeat split; lia.
  - rewrite skipn_length in Hl. rewrite <- Eo.
    assert (0 <= (if bpp sf =? 24 then load24_bytes else bpp sf / 8)).
    { destruct (bpp sf =? 24) eqn:E24; [apply Z.eqb_eq in E24; destruct (HL E24); lia|lia]. }
    lia.
  - rewrite Hk, skipn_length, <- Eo. lia.
Qed.

(* 8/16/32-bpp servers with a pixel-aligned stride: the loads are exactly the pixel cells of the
   w x h area (offset r*stride + x*size, length size) *)
Theorem reads_area_exact : forall st sf cf stride w h o l,
  st <> SNone -> (bpp sf = 8 \/ bpp sf = 16 \/ bpp sf = 32) -> stride mod (bpp sf / 8) = 0 ->
  (In (o, l) (reads_fn st sf cf stride w h) <->
   exists r x, 0 <= r < h /\ 0 <= x < w /\ o = r * stride + x * (bpp sf / 8) /\ l = bpp sf / 8).
Proof.
  intros st sf cf stride w h o l Hst Hsb Hal. rewrite reads_in by assumption.
  assert (E24 : (bpp sf =? 24) = false) by (apply Z.eqb_neq; lia).
  assert (Est : row_step sf stride = stride).
  { unfold row_step. rewrite E24. destruct Hsb as [E|[E|E]]; rewrite E in *; Z.div_mod_to_equations; lia. }
  rewrite E24, Est. reflexivity.
Qed.

(* 24-bpp servers: every load is one byte longer than the pixel cell *)
Theorem reads_area_24 : forall st sf cf stride w h o l,
  st <> SNone -> bpp sf = 24 ->
  (In (o, l) (reads_fn st sf cf stride w h) <->
   exists r x, 0 <= r < h /\ 0 <= x < w /\ o = r * stride + x * 3 /\ l = load24_bytes).
Proof.
  intros st sf cf stride w h o l Hst Hsb. rewrite reads_in by assumption.
  unfold row_step. rewrite Hsb. reflexivity.
Qed.

(* ------------------------------------------------------------------ colour-map servers *)
Lemma cm_rgb_range : forall cm i r g b, cmap_ok cm -> cm_rgb cm i = Some (r, g, b) ->
  0 <= r < 2 ^ cm_shift cm /\ 0 <= g < 2 ^ cm_shift cm /\ 0 <= b < 2 ^ cm_shift cm.
Proof.
  intros cm i r g b Hok H. unfold cm_rgb in H.
  assert (0 < 2 ^ cm_shift cm) by (unfold cm_shift; destruct (cm_is16 cm); reflexivity).
  destruct (i <? cm_count cm).
  - destruct (nth_error (cm_data cm) (Z.to_nat (3 * i))) eqn:E0; [|discriminate].
    destruct (nth_error (cm_data cm) (Z.to_nat (3 * i + 1))) eqn:E1; [|discriminate].
    destruct (nth_error (cm_data cm) (Z.to_nat (3 * i + 2))) eqn:E2; [|discriminate].
    inversion H; subst. unfold cmap_ok in Hok. rewrite Forall_forall in Hok.
    apply nth_error_In in E0, E1, E2. auto.
  - inversion H; subst. lia.
Qed.

Lemma cm_comp_spec : forall cm c outMax k outShift, is_max outMax k -> 0 <= c < 2 ^ cm_shift cm ->
  0 <= outShift -> outShift + k <= 32 ->
  cm_comp c outMax (cm_shift cm) outShift = Z.shiftl (cm_spec_comp cm c outMax) outShift /\
  0 <= cm_spec_comp cm c outMax < 2 ^ k.
Proof.
  intros cm c outMax k outShift Hm Hc Hs Hk.
  destruct (is_max_pos _ _ Hm) as (? & ? & Em & ?). destruct Hm as [Hk16 _].
  assert (Hsh : cm_shift cm = 8 \/ cm_shift cm = 16) by (unfold cm_shift; destruct (cm_is16 cm); auto).
  assert (P : 0 < 2 ^ cm_shift cm) by (apply Z.pow_pos_nonneg; lia).
  assert (B : 0 <= cm_spec_comp cm c outMax < 2 ^ k).
  { unfold cm_spec_comp. replace (outMax + 1) with (2 ^ k) by lia. split.
    - apply Z.div_pos; [nia|lia].
    - apply Z.div_lt_upper_bound; [lia|]. nia. }
  split; [|exact B].
  unfold cm_comp, cm_spec_comp in *.
  assert (2 ^ k <= 2 ^ 16) by (apply Z.pow_le_mono_r; lia).
  assert (2 ^ cm_shift cm <= 2 ^ 16) by (apply Z.pow_le_mono_r; lia).
  change (2 ^ 16) with 65536 in *.
  rewrite (u_of_small 32 (c * (1 + outMax))) by (change (2 ^ 32) with 4294967296; nia).
  rewrite Z.shiftr_div_pow2 by lia. replace (1 + outMax) with (outMax + 1) by lia.
  apply u_of_small.
  pose proof (shiftl_bound _ outShift k B ltac:(lia) Hs).
  assert (2 ^ (outShift + k) <= 2 ^ 32) by (apply Z.pow_le_mono_r; lia). lia.
Qed.

Theorem cm_pixel_rule : forall sf cf cm v rgb,
  client_ok cf -> be sf = false -> cmap_ok cm -> cm_rgb cm v = Some rgb ->
  pixel_fn SSingleCM sf cf cm v = Some (client_bytes cf (cm_pixel cf cm rgb)) \/ bpp sf = 24.
Proof.
  intros sf cf cm v rgb (Hcb & okr & okg & okb & Hc) Hbe Hok Hrgb.
  destruct (bpp sf =? 24) eqn:E24; [right; apply Z.eqb_eq; assumption|left].
  unfold pixel_fn. rewrite E24. unfold out_value, cm_single_entry. rewrite Hrgb.
  destruct rgb as [[r g] b]. destruct (cm_rgb_range _ _ _ _ _ Hok Hrgb) as (Rr & Rg & Rb).
  pose proof Hc as Hc'. destruct Hc' as [cR cG cB cRs cGs cBs _ _ _].
  assert (bpp cf <= 32) by lia.
  destruct (cm_comp_spec cm r _ _ (rs cf) cR Rr ltac:(lia) ltac:(lia)) as [Er Br].
  destruct (cm_comp_spec cm g _ _ (gs cf) cG Rg ltac:(lia) ltac:(lia)) as [Eg Bg].
  destruct (cm_comp_spec cm b _ _ (bs cf) cB Rb ltac:(lia) ltac:(lia)) as [Eb Bb].
  unfold cm_value. rewrite Er, Eg, Eb.
  fold (fields cf (cm_spec_comp cm r (rmax cf)) (cm_spec_comp cm g (gmax cf)) (cm_spec_comp cm b (bmax cf))).
  pose proof (fields_range cf _ _ _ Hc _ _ _ Br Bg Bb) as Hr.
  rewrite u_of_small by assumption. f_equal.
  rewrite entry_bytes_client by assumption.
  rewrite (fields_sum cf _ _ _ Hc) by assumption. reflexivity.
Qed.

(* components of the colour-map pixel as the client decodes them *)
Theorem cm_pixel_components : forall cf cm r g b, client_ok cf ->
  0 <= r < 2 ^ cm_shift cm -> 0 <= g < 2 ^ cm_shift cm -> 0 <= b < 2 ^ cm_shift cm ->
  comp (cm_pixel cf cm (r, g, b)) (rs cf) (rmax cf) = (r * (rmax cf + 1)) / 2 ^ cm_shift cm /\
  comp (cm_pixel cf cm (r, g, b)) (gs cf) (gmax cf) = (g * (gmax cf + 1)) / 2 ^ cm_shift cm /\
  comp (cm_pixel cf cm (r, g, b)) (bs cf) (bmax cf) = (b * (bmax cf + 1)) / 2 ^ cm_shift cm /\
  0 <= cm_pixel cf cm (r, g, b) < 2 ^ bpp cf.
Proof.
  intros cf cm r g b (Hcb & okr & okg & okb & Hc) Rr Rg Rb.
  pose proof Hc as Hc'. destruct Hc' as [cR cG cB cRs cGs cBs _ _ _].
  assert (bpp cf <= 32) by lia.
  destruct (cm_comp_spec cm r _ _ (rs cf) cR Rr ltac:(lia) ltac:(lia)) as [_ Br].
  destruct (cm_comp_spec cm g _ _ (gs cf) cG Rg ltac:(lia) ltac:(lia)) as [_ Bg].
  destruct (cm_comp_spec cm b _ _ (bs cf) cB Rb ltac:(lia) ltac:(lia)) as [_ Bb].
  unfold cm_pixel. rewrite <- (fields_sum cf _ _ _ Hc) by assumption.
  rewrite (decode_r cf _ _ _ Hc), (decode_g cf _ _ _ Hc), (decode_b cf _ _ _ Hc) by assumption.
  pose proof (fields_range cf _ _ _ Hc _ _ _ Br Bg Bb). unfold cm_spec_comp. auto.
Qed.

Theorem translate_cm_rule : forall sf cf cm stride w h input out,
  tc sf = false -> (bpp sf = 8 \/ bpp sf = 16) -> client_ok cf -> be sf = false -> cmap_ok cm ->
  bytes_ok input ->
  translate_fn SSingleCM sf cf cm stride w h input = XOk out ->
  forall r x, 0 <= r < h -> 0 <= x < w ->
    exists rgb,
      cm_rgb cm (src_pixel sf input (r * row_step sf stride + x * (bpp sf / 8))) = Some rgb /\
      slice out ((r * w + x) * (bpp cf / 8)) (bpp cf / 8) = client_bytes cf (cm_pixel cf cm rgb).
Proof.
  intros sf cf cm stride w h input out Htc Hsb Hc Hbe Hok Hin Hx r x Hr Hxx.
  assert (Hcb : 0 <= bpp cf) by (destruct Hc as [[E|[E|E]] _]; lia).
  assert (Hsb' : bpp sf = 8 \/ bpp sf = 16 \/ bpp sf = 24 \/ bpp sf = 32) by lia.
  assert (Hne : SSingleCM <> SNone) by discriminate.
  assert (H24 : bpp cf <> 24) by (destruct Hc as [[E|[E|E]] _]; lia).
  destruct (translate_pixelwise SSingleCM _ _ _ _ _ _ _ _ Hne Hsb' Hcb H24 Hin Hx) as [_ Hp].
  destruct (Hp r x Hr Hxx) as (raw & Hpf & Hraw & _).
  assert (E24 : (bpp sf =? 24) = false) by (apply Z.eqb_neq; lia). rewrite E24 in Hraw. subst raw.
  set (p := src_pixel sf input (r * row_step sf stride + x * (bpp sf / 8))) in *.
  destruct (cm_rgb cm p) as [rgb|] eqn:Ergb.
  - exists rgb. split; [reflexivity|].
    destruct (cm_pixel_rule sf cf cm p rgb Hc Hbe Hok Ergb) as [E|E]; [|lia].
    rewrite E in Hpf. inversion Hpf. reflexivity.
  - unfold pixel_fn in Hpf. rewrite E24 in Hpf. unfold out_value, cm_single_entry in Hpf. rewrite Ergb in Hpf. discriminate.
Qed.

(* colours beyond the map are black *)
Lemma cm_rgb_beyond : forall cm i, cm_count cm <= i -> cm_rgb cm i = Some (0, 0, 0).
Proof. intros cm i H. unfold cm_rgb. replace (i <? cm_count cm) with false by lia. reflexivity. Qed.

(* ------------------------------------------------------------------ the BGR233 colour map *)
Fixpoint zlist_eqb (a b : list Z) : bool :=
  match a, b with
  | [], [] => true
  | x :: a', y :: b' => (x =? y) && zlist_eqb a' b'
  | _, _ => false
  end.

Lemma zlist_eqb_eq : forall a b, zlist_eqb a b = true -> a = b.
Proof.
  induction a as [|x a IH]; intros [|y b] H; simpl in H; try discriminate; [reflexivity|].
  apply andb_true_iff in H. destruct H as [H1 H2]. apply Z.eqb_eq in H1. subst. f_equal. auto.
Qed.

Definition bgr233_entry_spec (i : Z) : list Z :=
  be16 (comp i (rs bgr233) (rmax bgr233) * 65535 / rmax bgr233) ++
  be16 (comp i (gs bgr233) (gmax bgr233) * 65535 / gmax bgr233) ++
  be16 (comp i (bs bgr233) (bmax bgr233) * 65535 / bmax bgr233).

Lemma bgr233_map_sweep :
  forallb (fun i => zlist_eqb (slice bgr233_msg (c10_sz_scme + 6 * i) 6) (bgr233_entry_spec i)) (zseq 256) = true.
Proof. vm_compute. reflexivity. Qed.

(* entry i of the map sent to a colour-map client is the colour that pixel value i denotes in the
   BGR233Format of translate.c, each component scaled to 16 bits, big endian *)
Theorem bgr233_map_rule :
  firstn (Z.to_nat c10_sz_scme) bgr233_msg = [c10_msg_scme; 0; 0; 0; 1; 0] /\
  Z.of_nat (length bgr233_msg) = c10_sz_scme + 256 * 6 /\
  forall i, 0 <= i < 256 -> slice bgr233_msg (c10_sz_scme + 6 * i) 6 = bgr233_entry_spec i.
Proof.
  split; [vm_compute; reflexivity|]. split; [vm_compute; reflexivity|].
  intros i Hi. apply zlist_eqb_eq.
  pose proof bgr233_map_sweep as H. rewrite forallb_forall in H. apply H. apply In_zseq. assumption.
Qed.

Lemma bgr233_is_client_ok : client_ok bgr233.
Proof.
  split; [left; reflexivity|]. exists 3, 3, 2.
  constructor; unfold is_max; change (rmax bgr233) with 7; change (gmax bgr233) with 7; change (bmax bgr233) with 3;
    change (rs bgr233) with 0; change (gs bgr233) with 3; change (bs bgr233) with 6; change (bpp bgr233) with 8;
    simpl; lia.
Qed.

(* ------------------------------------------------------------------ concrete formats for witnesses *)
Definition f_rgb565 (e : bool) : pixfmt := mkfmt 16 16 e true 31 63 31 11 5 0.
Definition f_rgb888 (e : bool) : pixfmt := mkfmt 32 24 e true 255 255 255 16 8 0.
Definition f_rgb24 : pixfmt := mkfmt 24 24 false true 255 255 255 16 8 0.
Definition f_r16a : pixfmt := mkfmt 32 32 false true 65535 255 255 16 0 8.
Definition f_r16b : pixfmt := mkfmt 32 32 false true 65535 255 255 0 16 24.

Ltac wf_solve := constructor; unfold is_max; simpl; repeat split; try lia; auto.

Lemma rgb565_wf : forall e, fmt_wf (f_rgb565 e) 5 6 5. Proof. intros; wf_solve. Qed.
Lemma rgb888_wf : forall e, fmt_wf (f_rgb888 e) 8 8 8. Proof. intros; wf_solve. Qed.
Lemma rgb24_wf : fmt_wf f_rgb24 8 8 8. Proof. wf_solve. Qed.
Lemma r16a_wf : fmt_wf f_r16a 16 8 8. Proof. wf_solve. Qed.
Lemma r16b_wf : fmt_wf f_r16b 16 8 8. Proof. wf_solve. Qed.

Lemma rgb565_server_ok : forall e, server_ok (f_rgb565 e).
Proof. intros e. split; [reflexivity|]. split; [simpl; auto|]. exists 5, 6, 5. apply rgb565_wf. Qed.
Lemma rgb565_client_ok : forall e, client_ok (f_rgb565 e).
Proof. intros e. split; [simpl; auto|]. exists 5, 6, 5. apply rgb565_wf. Qed.
Lemma rgb888_server_ok : forall e, server_ok (f_rgb888 e).
Proof. intros e. split; [reflexivity|]. split; [simpl; auto|]. exists 8, 8, 8. apply rgb888_wf. Qed.
Lemma rgb888_client_ok : forall e, client_ok (f_rgb888 e).
Proof. intros e. split; [simpl; auto|]. exists 8, 8, 8. apply rgb888_wf. Qed.
Lemma rgb24_server_ok : server_ok f_rgb24.
Proof. split; [reflexivity|]. split; [simpl; auto|]. exists 8, 8, 8. apply rgb24_wf. Qed.
Lemma r16a_server_ok : server_ok f_r16a.
Proof. split; [reflexivity|]. split; [simpl; auto|]. exists 16, 8, 8. apply r16a_wf. Qed.
Lemma r16b_client_ok : client_ok f_r16b.
Proof. split; [simpl; auto|]. exists 16, 8, 8. apply r16b_wf. Qed.

(* ------------------------------------------------------------------ refutations (findings) *)
(* F10: a 24-bpp server area of exactly w*h*3 bytes cannot be translated without loading the byte
   after it *)
Theorem area_24bpp_refuted : load24_bytes = 4 ->
  exists sf cf stride w h input,
    server_ok sf /\ client_ok cf /\ bpp sf = 24 /\ stride = w * 3 /\
    Z.of_nat (length input) = (h - 1) * stride + w * 3 /\
    translate_fn SRGB sf cf empty_cmap stride w h input = XFault ((h - 1) * stride + w * 3).
Proof.
  intros Hl.
  first [ solve [vm_compute in Hl; discriminate Hl]
        | exists f_rgb24, (f_rgb565 false), 3, 1, 1, [1; 2; 3];
          (split; [apply rgb24_server_ok|]); (split; [apply rgb565_client_ok|]);
          repeat split; vm_compute; reflexivity ].
Qed.

(* F10b: 16-bit component to 16-bit component: the int product overflows and the rule fails *)
Theorem rule_overflow_refuted : scale_unsigned = false ->
  exists sf cf input out,
    server_ok sf /\ client_ok cf /\ be sf = false /\ bytes_ok input /\ ~ no_ovf sf cf /\
    translate_fn SRGB sf cf empty_cmap 4 1 1 input = XOk out /\
    slice out 0 (bpp cf / 8) <> client_bytes cf (rule_pixel sf cf (src_pixel sf input 0)).
Proof.
  intros Hu.
  first [ solve [vm_compute in Hu; discriminate Hu]
        | exists f_r16a, f_r16b, [128; 76; 236; 227], [236; 227; 255; 255];
          (split; [apply r16a_server_ok|]); (split; [apply r16b_client_ok|]); (split; [reflexivity|]);
          (split; [repeat constructor; lia|]); (split; [unfold no_ovf; simpl; lia|]);
          (split; [vm_compute; reflexivity|]); vm_compute; discriminate ].
Qed.

Definition be_val (l : list Z) : Z := le_val (rev l).

(* F10c: a server format whose byte-order flag is not the host's: the pixel the format describes
   (big-endian value of the bytes) is not what gets translated *)
Theorem rule_foreign_server_order_refuted :
  exists sf cf input out,
    server_ok sf /\ client_ok cf /\ no_ovf sf cf /\ be sf = true /\ bytes_ok input /\
    translate_fn SSingleTC sf cf empty_cmap 2 1 1 input = XOk out /\
    slice out 0 (bpp cf / 8) <> client_bytes cf (rule_pixel sf cf (be_val (slice input 0 (bpp sf / 8)))).
Proof.
  exists (f_rgb565 true), (f_rgb888 false), [248; 0], [0; 0; 28; 197].
  split; [apply rgb565_server_ok|]. split; [apply rgb888_client_ok|]. split; [unfold no_ovf; simpl; lia|].
  split; [reflexivity|]. split; [repeat constructor; lia|].
  split; [vm_compute; reflexivity|]. vm_compute. discriminate.
Qed.

(* ------------------------------------------------------------------ non-vacuity *)
Example rule_nonvacuous :
  server_ok (f_rgb888 false) /\ client_ok (f_rgb565 true) /\ no_ovf (f_rgb888 false) (f_rgb565 true) /\
  be (f_rgb888 false) = false /\ bytes_ok [0; 128; 255; 7; 9; 9; 9; 9; 1; 2; 3; 4] /\
  set_translate false (f_rgb888 false) (f_rgb565 true) = SetupOk (f_rgb565 true) SRGB [] /\
  translate_fn SRGB (f_rgb888 false) (f_rgb565 true) empty_cmap 8 1 2 [0; 128; 255; 7; 9; 9; 9; 9; 1; 2; 3; 4]
    = XOk [252; 0; 0; 0].
Proof.
  split; [apply rgb888_server_ok|]. split; [apply rgb565_client_ok|]. split; [unfold no_ovf; simpl; lia|].
  split; [reflexivity|]. split; [repeat constructor; lia|]. split; vm_compute; reflexivity.
Qed.

Example single_nonvacuous :
  server_ok (f_rgb565 false) /\ client_ok (f_rgb888 true) /\ no_ovf (f_rgb565 false) (f_rgb888 true) /\
  set_translate false (f_rgb565 false) (f_rgb888 true) = SetupOk (f_rgb888 true) SSingleTC [] /\
  set_translate true (f_rgb565 false) (f_rgb888 true) = SetupOk (f_rgb888 true) SRGB [] /\
  translate_fn SSingleTC (f_rgb565 false) (f_rgb888 true) empty_cmap 2 1 1 [0; 248] = XOk [0; 255; 0; 0].
Proof.
  split; [apply rgb565_server_ok|]. split; [apply rgb888_client_ok|]. split; [unfold no_ovf; simpl; lia|].
  repeat split; vm_compute; reflexivity.
Qed.

Example identity_nonvacuous :
  set_translate false (f_rgb565 false) (f_rgb565 false) = SetupOk (f_rgb565 false) SNone [] /\
  translate_fn SNone (f_rgb565 false) (f_rgb565 false) empty_cmap 5 2 2 [1; 2; 3; 4; 5; 6; 7; 8; 9] = XOk [1; 2; 3; 4; 6; 7; 8; 9].
Proof. split; vm_compute; reflexivity. Qed.

Definition cm_demo : cmap := mkcmap true 2 [65535; 0; 32768; 1; 2; 3].
Definition f_cm8 : pixfmt := mkfmt 8 8 false false 0 0 0 0 0 0.

Example cm_nonvacuous :
  cmap_ok cm_demo /\
  set_translate false f_cm8 (f_rgb888 true) = SetupOk (f_rgb888 true) SSingleCM [] /\
  translate_fn SSingleCM f_cm8 (f_rgb888 true) cm_demo 3 3 1 [0; 1; 2] = XOk [0; 255; 0; 128; 0; 0; 0; 0; 0; 0; 0; 0].
Proof.
  split; [unfold cmap_ok, cm_demo; simpl; repeat constructor; lia|]. split; vm_compute; reflexivity.
Qed.

Example cmclient_nonvacuous :
  set_translate false (f_rgb565 false) (mkfmt 8 8 false false 0 0 0 0 0 0) = SetupOk bgr233 SSingleTC bgr233_msg.
Proof. vm_compute. reflexivity. Qed.

Example area_nonvacuous :
  translate_fn SRGB f_rgb24 (f_rgb565 false) empty_cmap 3 1 1 [1; 2; 3; 0] = XOk [0; 0] /\
  reads_fn SRGB f_rgb24 (f_rgb565 false) 3 1 1 = [(0, load24_bytes)] /\
  reads_fn SRGB (f_rgb888 false) (f_rgb565 false) 8 2 2 = [(0, 4); (4, 4); (8, 4); (12, 4)].
Proof. repeat split; vm_compute; reflexivity. Qed.

(* ------------------------------------------------------------------ statements through rfbSetTranslateFunction *)
Theorem rule_via_setup : forall econ sf cf cf' st msg cm stride w h input out,
  set_translate econ sf cf = SetupOk cf' st msg ->
  server_ok sf -> client_ok cf' -> arith_ok sf cf' -> be sf = false -> bytes_ok input ->
  st <> SNone ->
  translate_fn st sf cf' cm stride w h input = XOk out ->
  forall r x, 0 <= r < h -> 0 <= x < w ->
    slice out ((r * w + x) * (bpp cf' / 8)) (bpp cf' / 8) =
    client_bytes cf' (rule_pixel sf cf' (src_pixel sf input (r * row_step sf stride + x * (bpp sf / 8)))).
Proof.
  intros econ sf cf cf' st msg cm stride w h input out Hset Hs Hc Hov Hbe Hin Hst Hx.
  destruct (setup_cases _ _ _ _ _ _ Hset) as [_ Hcases].
  assert (Htc : tc sf = true) by (destruct Hs; assumption).
  assert (st = SSingleTC \/ st = SRGB).
  { destruct Hcases as [E|[(_ & E & _)|[(E & _)|(E & _)]]]; [contradiction|auto|congruence|auto]. }
  eapply translate_rule; eassumption.
Qed.

Theorem strategy_by_switch : forall sf cf cf1 cf2 st1 st2 m1 m2,
  server_ok sf -> bpp sf = 16 ->
  set_translate false sf cf = SetupOk cf1 st1 m1 -> set_translate true sf cf = SetupOk cf2 st2 m2 ->
  cf1 = cf2 /\ m1 = m2 /\ ((st1 = SNone /\ st2 = SNone) \/ (st1 = SSingleTC /\ st2 = SRGB)).
Proof.
  intros sf cf cf1 cf2 st1 st2 m1 m2 (Htc & _) Hb H1 H2. unfold set_translate in *.
  rewrite Htc, Hb in *. simpl in H1, H2.
  destruct (negb (valid_bpp (bpp cf))); [discriminate|].
  destruct (negb (tc cf) && negb (bpp cf =? 8)); [discriminate|].
  destruct (pf_eq (if tc cf then cf else bgr233) sf).
  - inversion H1; inversion H2; subst. auto.
  - destruct (zero_max sf); [discriminate|]. inversion H1; inversion H2; subst. auto.
Qed.

Theorem identity_via_setup : forall econ sf cf cf' st msg cm stride w h input out,
  set_translate econ sf cf = SetupOk cf' st msg -> pf_eq cf' sf = true ->
  translate_fn st sf cf' cm stride w h input = XOk out ->
  st = SNone /\
  Z.of_nat (length out) = h * (w * (bpp cf' / 8)) /\
  forall r, 0 <= r < h ->
    slice out (r * (w * (bpp cf' / 8))) (w * (bpp cf' / 8)) = slice input (r * stride) (w * (bpp cf' / 8)).
Proof.
  intros econ sf cf cf' st msg cm stride w h input out Hset Heq Hx.
  assert (st = SNone) by (apply (setup_none_iff _ _ _ _ _ _ Hset); assumption). subst st.
  split; [reflexivity|].
  assert (0 <= bpp cf').
  { unfold set_translate in Hset.
    destruct (negb (valid_bpp (bpp sf))); [discriminate|].
    destruct (negb (valid_bpp (bpp cf))) eqn:Ev; [discriminate|].
    destruct (negb (tc cf) && negb (bpp cf =? 8)); [discriminate|].
    destruct (pf_eq (if tc cf then cf else bgr233) sf).
    - inversion Hset; subst.
      destruct (tc cf); [|vm_compute; discriminate].
      apply negb_false_iff in Ev. unfold valid_bpp in Ev.
      repeat (apply orb_true_iff in Ev; destruct Ev as [Ev|Ev]); try (apply andb_true_iff in Ev; destruct Ev as [Ev _]); lia.
    - destruct ((bpp sf <? 16) || (negb (tc sf) || negb econ) && (bpp sf =? 16)).
      + destruct (tc sf); [destruct (zero_max sf)|]; discriminate.
      + destruct (zero_max sf); discriminate. }
  eapply translate_none_copy; eassumption.
Qed.

Theorem cm_rule_via_setup : forall econ sf cf cf' st msg cm stride w h input out,
  set_translate econ sf cf = SetupOk cf' st msg ->
  tc sf = false -> (bpp sf = 8 \/ bpp sf = 16) -> client_ok cf' -> be sf = false -> cmap_ok cm ->
  bytes_ok input ->
  translate_fn st sf cf' cm stride w h input = XOk out ->
  st = SSingleCM /\
  forall r x, 0 <= r < h -> 0 <= x < w ->
    exists rgb,
      cm_rgb cm (src_pixel sf input (r * row_step sf stride + x * (bpp sf / 8))) = Some rgb /\
      slice out ((r * w + x) * (bpp cf' / 8)) (bpp cf' / 8) = client_bytes cf' (cm_pixel cf' cm rgb).
Proof.
  intros econ sf cf cf' st msg cm stride w h input out Hset Htc Hsb Hc Hbe Hok Hin Hx.
  assert (Est : st = SSingleCM).
  { destruct (setup_cases _ _ _ _ _ _ Hset) as [Hcf Hcases].
    destruct Hcases as [E|[(E & _)|[(_ & E & _)|(E & _)]]]; [|congruence|assumption|].
    - (* SNone would need identical formats: a true-colour client format vs a colour-map server *)
      subst st. exfalso. pose proof (proj1 (setup_none_iff _ _ _ _ _ _ Hset) eq_refl) as Heq.
      unfold pf_eq in Heq. rewrite Htc in Heq.
      assert (tc cf' = true).
      { destruct Hcf as [(A & -> & _)|(_ & _ & -> & _)]; [assumption|reflexivity]. }
      rewrite H in Heq. simpl in Heq. rewrite !andb_false_r in Heq. simpl in Heq.
      repeat rewrite ?andb_false_r, ?andb_false_l in Heq. discriminate.
    - subst st. exfalso. unfold set_translate in Hset.
      destruct (negb (valid_bpp (bpp sf))); [discriminate|].
      destruct (negb (valid_bpp (bpp cf))); [discriminate|].
      destruct (negb (tc cf) && negb (bpp cf =? 8)); [discriminate|].
      destruct (pf_eq (if tc cf then cf else bgr233) sf); [discriminate|].
      rewrite Htc in Hset. simpl in Hset.
      destruct Hsb as [Hsb|Hsb]; rewrite Hsb in Hset; simpl in Hset; discriminate. }
  split; [exact Est|]. subst st. eapply translate_cm_rule; eassumption.
Qed.

(* ------------------------------------------------------------------ the area suffices (8/16/32-bpp servers) *)
Theorem translate_area_sufficient : forall st sf cf cm stride w h input,
  (st = SSingleTC \/ st = SRGB) -> (bpp sf = 8 \/ bpp sf = 16 \/ bpp sf = 32) ->
  (bpp cf = 8 \/ bpp cf = 16 \/ bpp cf = 32) -> zero_max sf = false ->
  0 <= stride -> stride mod (bpp sf / 8) = 0 -> 0 <= w -> 0 <= h ->
  (0 < w -> 0 < h -> (h - 1) * stride + w * (bpp sf / 8) <= Z.of_nat (length input)) ->
  exists out, translate_fn st sf cf cm stride w h input = XOk out.
Proof.
  intros st sf cf cm stride w h input Hst Hsb Hcb Hz Hs Hal Hw Hh Hlen.
  unfold translate_fn.
  replace (stride <? 0) with false by lia. replace ((w <? 0) || (h <? 0)) with false by lia.
  assert (E24 : (bpp sf =? 24) = false) by (apply Z.eqb_neq; lia).
  assert (C24 : (bpp cf =? 24) = false) by (apply Z.eqb_neq; lia).
  rewrite E24, C24, Hz. simpl andb.
  assert (Hisz : bpp sf / 8 = 1 \/ bpp sf / 8 = 2 \/ bpp sf / 8 = 4)
    by (destruct Hsb as [E|[E|E]]; rewrite E; compute; auto).
  assert (Est : stride / (bpp sf / 8) * (bpp sf / 8) = stride) by (Z.div_mod_to_equations; lia).
  rewrite Est.
  assert (G : exists out, xl_rows (xl_row (Z.to_nat (bpp sf / 8)) (Z.to_nat (bpp sf / 8)) (pixel_fn st sf cf cm) (Z.to_nat w))
                                  (Z.to_nat stride) (Z.to_nat h) input 0 = XOk out).
  { apply area_total.
    - intros v. unfold pixel_fn. destruct Hst as [-> | ->]; simpl; discriminate.
    - intros R X HR HX. rewrite skipn_length.
      assert (0 < w) by lia. assert (0 < h) by lia. specialize (Hlen H H0).
      assert (Z.of_nat R <= h - 1) by lia. assert (Z.of_nat X <= w - 1) by lia.
      assert (Z.of_nat R * stride + Z.of_nat X * (bpp sf / 8) + bpp sf / 8 <= Z.of_nat (length input)) by nia.
      assert (Z.of_nat (R * Z.to_nat stride + X * Z.to_nat (bpp sf / 8)) = Z.of_nat R * stride + Z.of_nat X * (bpp sf / 8)).
      { rewrite Nat2Z.inj_add, !Nat2Z.inj_mul, !Z2Nat.id by lia. reflexivity. }
      lia. }
  destruct st; destruct Hst as [Hst|Hst]; try discriminate; exact G.
Qed.
