(* C10 - proofs, part 3: 24-bpp clients (rule for the single-table functions and, once the source
   indexes the 3-byte tables correctly, for the three-table functions), area exactness for all four
   server pixel sizes once 24-bpp pixels are loaded as 3 bytes, rfbSetClientColourMap *)
From Coq Require Import ZArith List Bool Lia Arith.
From LV Require Import Gen.Consts_C10 Pixel.Translate Pixel.TranslateBits Pixel.TranslateRule Pixel.TranslateWalk
                       Pixel.TranslateProofs Pixel.TranslateProofs2.
Import ListNotations.
Local Open Scope Z_scope.

Definition client_ok24 (f : pixfmt) : Prop := bpp f = 24 /\ exists kr kg kb, fmt_wf f kr kg kb.

(* ------------------------------------------------------------------ bytes *)
Lemma le_bytes3_lor : forall a b, le_bytes 3 (Z.lor a b) = lor_bytes (le_bytes 3 a) (le_bytes 3 b).
Proof.
  intros a b.
  assert (M : forall x y, Z.lor x y mod 256 = Z.lor (x mod 256) (y mod 256)).
  { intros. change 256 with (2 ^ 8). apply (u_of_lor 8). lia. }
  assert (D : forall x y, Z.lor x y / 256 = Z.lor (x / 256) (y / 256)).
  { intros. change 256 with (2 ^ 8). rewrite <- !Z.shiftr_div_pow2 by lia. apply Z.shiftr_lor. }
  cbn [le_bytes]. unfold lor_bytes. cbn [combine map fst snd].
  rewrite !D, !M. reflexivity.
Qed.

Lemma lor_bytes3_rev : forall a b, length a = 3%nat -> length b = 3%nat ->
  lor_bytes (rev a) (rev b) = rev (lor_bytes a b).
Proof.
  intros a b Ha Hb.
  destruct a as [|a0 [|a1 [|a2 [|]]]]; try discriminate.
  destruct b as [|b0 [|b1 [|b2 [|]]]]; try discriminate. reflexivity.
Qed.

Lemma entry24_lor : forall sw a b,
  lor_bytes (entry24_bytes sw a) (entry24_bytes sw b) = entry24_bytes sw (Z.lor a b).
Proof.
  intros sw a b. unfold entry24_bytes. destruct sw.
  - rewrite lor_bytes3_rev by apply le_bytes_length. rewrite le_bytes3_lor. reflexivity.
  - rewrite le_bytes3_lor. reflexivity.
Qed.

Lemma entry24_client : forall sf cf v, bpp cf = 24 -> be sf = false -> 0 <= v < 2 ^ 24 ->
  entry24_bytes (need_swap sf cf) (u_of 32 v) = client_bytes cf v.
Proof.
  intros sf cf v Hb Hbe Hv.
  rewrite u_of_small by (change (2 ^ 24) with 16777216 in Hv; change (2 ^ 32) with 4294967296; lia).
  unfold entry24_bytes, client_bytes, need_swap, be_bytes. rewrite Hbe, Hb.
  change (Z.to_nat (24 / 8)) with 3%nat. destruct (be cf); reflexivity.
Qed.

(* ------------------------------------------------------------------ one component *)
Lemma scale_c_ok : forall inMax outMax ki ko c, is_max inMax ki -> is_max outMax ko -> 0 <= c <= inMax ->
  (scale_unsigned = true \/ inMax * outMax + inMax / 2 < 2147483648) ->
  scale_c c inMax outMax = scale_spec c inMax outMax.
Proof.
  intros inMax outMax ki ko c Hi Ho Hc Har.
  destruct (is_max_pos _ _ Hi) as (?&?&?&?). destruct (is_max_pos _ _ Ho) as (?&?&?&?).
  pose proof (is_max_le _ _ Hi). pose proof (is_max_le _ _ Ho).
  destruct Har as [Hu|Hov].
  - apply scale_c_spec_u; (assumption || lia).
  - apply scale_c_spec; (assumption || lia).
Qed.

(* ------------------------------------------------------------------ pixel functions for 24-bpp clients *)
Lemma lor_bytes_len3 : forall a b, length a = 3%nat -> length b = 3%nat -> length (lor_bytes a b) = 3%nat.
Proof.
  intros a b Ha Hb. unfold lor_bytes. rewrite map_length, combine_length, Ha, Hb. reflexivity.
Qed.

Lemma entry24_len : forall sw v, length (entry24_bytes sw v) = 3%nat.
Proof. intros sw v. unfold entry24_bytes. destruct sw; [rewrite rev_length|]; apply le_bytes_length. Qed.

Lemma pixel_fn24_len : forall st sf cf cm v ob, pixel_fn24 st sf cf cm v = Some ob -> length ob = 3%nat.
Proof.
  intros st sf cf cm v ob H. unfold pixel_fn24 in H. destruct st.
  - unfold single24_entry in H. discriminate.
  - unfold single24_entry in H. injection H as <-. apply entry24_len.
  - unfold single24_entry in H. destruct (cm_rgb cm _); [|discriminate]. injection H as <-. apply entry24_len.
  - destruct rgb24_fixed; injection H as <-.
    + unfold rgb24_entry. repeat apply lor_bytes_len3; apply entry24_len.
    + first [apply le_bytes_length | reflexivity].
Qed.

Lemma pixel_fn24_rule : forall st sf cf cm v,
  (st = SSingleTC \/ (st = SRGB /\ rgb24_fixed = true)) ->
  server_ok sf -> client_ok24 cf -> arith_ok sf cf -> be sf = false ->
  pixel_fn24 st sf cf cm v =
  Some (client_bytes cf (rule_pixel sf cf (if bpp sf =? 24 then Z.land v 16777215 else v))).
Proof.
  intros st sf cf cm v Hst (Htc & Hsb & ikr & ikg & ikb & Hs) (Hcb & okr & okg & okb & Hc) Hov Hbe.
  unfold pixel_fn24. set (p := if bpp sf =? 24 then Z.land v 16777215 else v).
  pose proof (rule_lor_range sf cf _ _ _ _ _ _ Hs Hc p) as Hr. rewrite Hcb in Hr.
  destruct Hst as [-> | [-> Hfix]].
  - unfold single24_entry. f_equal. rewrite (tc_value_rule sf cf _ _ _ _ _ _ Hs Hc Hov).
    rewrite entry24_client by assumption. rewrite (rule_lor_sum sf cf _ _ _ _ _ _ Hs Hc). reflexivity.
  - rewrite Hfix. f_equal. unfold rgb24_entry. rewrite !entry24_lor.
    pose proof Hs as Hs'. destruct Hs' as [sR sG sB sRs sGs sBs _ _ _].
    pose proof Hc as Hc'. destruct Hc' as [cR cG cB cRs cGs cBs _ _ _].
    pose proof (comp_bound p (rs sf) _ _ sR (proj1 sRs)) as Br.
    pose proof (comp_bound p (gs sf) _ _ sG (proj1 sGs)) as Bg.
    pose proof (comp_bound p (bs sf) _ _ sB (proj1 sBs)) as Bb.
    assert (Ar : scale_unsigned = true \/ rmax sf * rmax cf + rmax sf / 2 < 2147483648)
      by (destruct Hov as [?|(?&?&?)]; auto).
    assert (Ag : scale_unsigned = true \/ gmax sf * gmax cf + gmax sf / 2 < 2147483648)
      by (destruct Hov as [?|(?&?&?)]; auto).
    assert (Ab : scale_unsigned = true \/ bmax sf * bmax cf + bmax sf / 2 < 2147483648)
      by (destruct Hov as [?|(?&?&?)]; auto).
    unfold rgb24_value.
    rewrite (scale_c_ok _ _ _ _ _ sR cR Br Ar), (scale_c_ok _ _ _ _ _ sG cG Bg Ag), (scale_c_ok _ _ _ _ _ sB cB Bb Ab).
    fold (sc_r sf cf p) (sc_g sf cf p) (sc_b sf cf p).
    pose proof (sc_r_bound sf cf _ _ _ _ _ _ Hs Hc p) as Sr. pose proof (sc_g_bound sf cf _ _ _ _ _ _ Hs Hc p) as Sg.
    pose proof (sc_b_bound sf cf _ _ _ _ _ _ Hs Hc p) as Sb.
    destruct cR as [[? ?] _], cG as [[? ?] _], cB as [[? ?] _].
    assert (P32 : 2 ^ 24 <= 2 ^ 32) by (apply Z.pow_le_mono_r; lia).
    pose proof (shiftl_bound _ (rs cf) okr Sr ltac:(lia) ltac:(lia)) as Fr.
    pose proof (shiftl_bound _ (gs cf) okg Sg ltac:(lia) ltac:(lia)) as Fg.
    pose proof (shiftl_bound _ (bs cf) okb Sb ltac:(lia) ltac:(lia)) as Fb.
    pose proof (pow2_le_mono (rs cf + okr) 24 ltac:(lia)). pose proof (pow2_le_mono (gs cf + okg) 24 ltac:(lia)).
    pose proof (pow2_le_mono (bs cf + okb) 24 ltac:(lia)).
    rewrite !(u_of_small 32) by lia.
    fold (fields cf (sc_r sf cf p) (sc_g sf cf p) (sc_b sf cf p)). fold (rule_lor sf cf p).
    rewrite <- (u_of_small 32 (rule_lor sf cf p)) by lia.
    rewrite entry24_client by assumption. rewrite (rule_lor_sum sf cf _ _ _ _ _ _ Hs Hc). reflexivity.
Qed.

(* ------------------------------------------------------------------ the walk for any client size *)
Lemma translate_fn_walk_gen : forall st sf cf cm stride w h input res,
  st <> SNone -> translate_fn st sf cf cm stride w h input = res ->
  (exists u, res = XUndef u) \/
  (0 <= stride /\ 0 <= w /\ 0 <= h /\ (bpp sf = 24 -> load24_bytes = 3 \/ load24_bytes = 4) /\
   res = xl_rows (xl_row (Z.to_nat (if bpp sf =? 24 then load24_bytes else bpp sf / 8)) (Z.to_nat (bpp sf / 8))
                         (if bpp cf =? 24 then pixel_fn24 st sf cf cm else pixel_fn st sf cf cm) (Z.to_nat w))
                 (Z.to_nat (row_step sf stride)) (Z.to_nat h) input 0).
Proof.
  intros st sf cf cm stride w h input res Hst H. unfold translate_fn in H.
  destruct (stride <? 0) eqn:E1; [left; eexists; symmetry; exact H|].
  destruct ((w <? 0) || (h <? 0)) eqn:E2; [left; eexists; symmetry; exact H|].
  apply orb_false_iff in E2. destruct E2 as [E2 E3].
  destruct st; [contradiction| | |];
    try (destruct (zero_max sf); [left; eexists; symmetry; exact H|]);
    (destruct ((bpp sf =? 24) && negb ((load24_bytes =? 3) || (load24_bytes =? 4))) eqn:E5;
       [left; eexists; symmetry; exact H|]);
    right; (split; [lia|]); (split; [lia|]); (split; [lia|]);
    (split; [intros E24; rewrite E24, Z.eqb_refl, andb_true_l in E5; apply negb_false_iff, orb_true_iff in E5; lia|]);
    rewrite <- H; unfold row_step; reflexivity.
Qed.

(* ------------------------------------------------------------------ C10_rule_24 *)
Theorem translate_rule_24 : forall st sf cf cm stride w h input out,
  (st = SSingleTC \/ (st = SRGB /\ rgb24_fixed = true)) ->
  server_ok sf -> client_ok24 cf -> arith_ok sf cf -> be sf = false -> bytes_ok input ->
  translate_fn st sf cf cm stride w h input = XOk out ->
  Z.of_nat (length out) = w * h * 3 /\
  forall r x, 0 <= r < h -> 0 <= x < w ->
    slice out ((r * w + x) * 3) 3 =
    client_bytes cf (rule_pixel sf cf (src_pixel sf input (r * row_step sf stride + x * (bpp sf / 8)))).
Proof.
  intros st sf cf cm stride w h input out Hst Hs Hc Hov Hbe Hin Hx.
  assert (Hst' : st <> SNone) by (destruct Hst as [-> | [-> _]]; discriminate).
  destruct (translate_fn_walk_gen _ _ _ _ _ _ _ _ _ Hst' Hx) as [[u Hu]|(H0 & H1 & H2 & HL & Hw)]; [discriminate|].
  symmetry in Hw. pose proof Hc as [Hcb _]. rewrite Hcb, Z.eqb_refl in Hw.
  destruct (area_pixel _ _ _ 3%nat _ _ _ _ _ (pixel_fn24_len st sf cf cm) Hw) as [Hl Hp].
  split; [rewrite Hl; rewrite !Nat2Z.inj_mul, !Z2Nat.id by lia; change (Z.of_nat 3) with 3; lia|].
  intros r x Hr Hxx.
  specialize (Hp (Z.to_nat r) (Z.to_nat x) ltac:(lia) ltac:(lia)). destruct Hp as [Hpk Hp].
  rewrite (pixel_fn24_rule st sf cf cm _ Hst Hs Hc Hov Hbe) in Hp. inversion Hp as [Hp']. clear Hp.
  destruct Hs as (Htc & Hsb & ikr & ikg & ikb & Hs).
  assert (Hstep : 0 <= row_step sf stride).
  { unfold row_step. destruct (bpp sf =? 24); [lia|]. destruct (bpp8 _ Hsb) as [E|[E|[E|E]]]; rewrite E; Z.div_mod_to_equations; nia. }
  assert (Hisz : 0 <= bpp sf / 8) by (destruct (bpp8 _ Hsb) as [E|[E|[E|E]]]; lia).
  rewrite slice_nslice. rewrite to_nat_lin2 by lia. change (Z.to_nat 3) with 3%nat. rewrite <- Hp'. f_equal. f_equal.
  unfold src_pixel. rewrite slice_nslice. rewrite to_nat_lin by lia.
  destruct (bpp sf =? 24) eqn:E24.
  - apply Z.eqb_eq in E24. rewrite E24 in *. change (24 / 8) with 3 in *.
    change (Z.to_nat 3) with 3%nat in *.
    destruct (HL eq_refl) as [EL|EL]; rewrite EL in *.
    + change (Z.to_nat 3) with 3%nat in *. rewrite le_val_mask24_3.
      * unfold nslice. rewrite firstn_firstn. reflexivity.
      * unfold nslice. apply bytes_ok_firstn, bytes_ok_skipn. assumption.
      * unfold nslice. apply firstn_length_le. assumption.
    + change (Z.to_nat 4) with 4%nat in *. rewrite le_val_mask24.
      * unfold nslice. rewrite firstn_firstn. reflexivity.
      * unfold nslice. apply bytes_ok_firstn, bytes_ok_skipn. assumption.
      * unfold nslice. apply firstn_length_le. assumption.
  - reflexivity.
Qed.

(* through rfbSetTranslateFunction: which strategy serves a 24-bpp client *)
Theorem rule_24_via_setup : forall econ sf cf cf' st msg cm stride w h input out,
  set_translate econ sf cf = SetupOk cf' st msg ->
  server_ok sf -> client_ok24 cf' -> arith_ok sf cf' -> be sf = false -> bytes_ok input ->
  st <> SNone -> (st = SRGB -> rgb24_fixed = true) ->
  translate_fn st sf cf' cm stride w h input = XOk out ->
  Z.of_nat (length out) = w * h * 3 /\
  forall r x, 0 <= r < h -> 0 <= x < w ->
    slice out ((r * w + x) * 3) 3 =
    client_bytes cf' (rule_pixel sf cf' (src_pixel sf input (r * row_step sf stride + x * (bpp sf / 8)))).
Proof.
  intros econ sf cf cf' st msg cm stride w h input out Hset Hs Hc Hov Hbe Hin Hst Hfix Hx.
  destruct (setup_cases _ _ _ _ _ _ Hset) as [_ Hcases].
  assert (Htc : tc sf = true) by (destruct Hs; assumption).
  assert (st = SSingleTC \/ (st = SRGB /\ rgb24_fixed = true)).
  { destruct Hcases as [E|[(_ & E & _)|[(E & _)|(E & _)]]]; [contradiction|auto|congruence|auto]. }
  eapply translate_rule_24; eassumption.
Qed.

(* F10d: as long as the source indexes the 3-byte tables as byte arrays, a 24-bpp client served by
   the three-table functions does not get the rule pixel *)
Theorem rule_24_rgb_refuted : rgb24_fixed = false ->
  exists sf cf input out,
    server_ok sf /\ client_ok24 cf /\ no_ovf sf cf /\ be sf = false /\ bytes_ok input /\
    set_translate false sf cf = SetupOk cf SRGB [] /\
    translate_fn SRGB sf cf empty_cmap 4 1 1 input = XOk out /\
    out <> client_bytes cf (rule_pixel sf cf (src_pixel sf input 0)).
Proof.
  intros Hf.
  first [ solve [vm_compute in Hf; discriminate Hf]
        | exists (f_rgb888 false), f_rgb24, [255; 255; 255; 0], [85; 0; 0];
          (split; [apply rgb888_server_ok|]);
          (split; [split; [reflexivity|]; exists 8, 8, 8; apply rgb24_wf|]);
          (split; [unfold no_ovf; simpl; lia|]); (split; [reflexivity|]);
          (split; [repeat constructor; lia|]);
          (split; [vm_compute; reflexivity|]); (split; [vm_compute; reflexivity|]); vm_compute; discriminate ].
Qed.

Example rule_24_nonvacuous :
  server_ok (f_rgb565 false) /\ client_ok24 f_rgb24 /\ no_ovf (f_rgb565 false) f_rgb24 /\
  set_translate false (f_rgb565 false) f_rgb24 = SetupOk f_rgb24 SSingleTC [] /\
  translate_fn SSingleTC (f_rgb565 false) f_rgb24 empty_cmap 2 2 1 [0; 248; 31; 0] = XOk [0; 0; 255; 255; 0; 0].
Proof.
  split; [apply rgb565_server_ok|]. split; [split; [reflexivity|]; exists 8, 8, 8; apply rgb24_wf|].
  split; [unfold no_ovf; simpl; lia|]. split; vm_compute; reflexivity.
Qed.

(* ------------------------------------------------------------------ C10_area_exact (all server pixel sizes) *)
(* once a 24-bpp pixel is loaded as its 3 bytes, the loads are exactly the pixel cells of the area for
   every server pixel size *)
Theorem reads_area_exact_all : forall st sf cf stride w h o l,
  st <> SNone -> (bpp sf = 8 \/ bpp sf = 16 \/ bpp sf = 24 \/ bpp sf = 32) ->
  (bpp sf = 24 -> load24_bytes = 3) -> (bpp sf <> 24 -> stride mod (bpp sf / 8) = 0) ->
  (In (o, l) (reads_fn st sf cf stride w h) <->
   exists r x, 0 <= r < h /\ 0 <= x < w /\ o = r * stride + x * (bpp sf / 8) /\ l = bpp sf / 8).
Proof.
  intros st sf cf stride w h o l Hst Hsb H24 Hal.
  destruct (Z.eq_dec (bpp sf) 24) as [E|E].
  - rewrite reads_area_24 by assumption. rewrite (H24 E), E. change (24 / 8) with 3. reflexivity.
  - apply reads_area_exact; [assumption|lia|auto].
Qed.

Theorem translate_area_sufficient_all : forall st sf cf cm stride w h input,
  (st = SSingleTC \/ st = SRGB) -> (bpp sf = 8 \/ bpp sf = 16 \/ bpp sf = 24 \/ bpp sf = 32) ->
  (bpp cf = 8 \/ bpp cf = 16 \/ bpp cf = 32) -> zero_max sf = false ->
  (bpp sf = 24 -> load24_bytes = 3) ->
  0 <= stride -> (bpp sf <> 24 -> stride mod (bpp sf / 8) = 0) -> 0 <= w -> 0 <= h ->
  (0 < w -> 0 < h -> (h - 1) * stride + w * (bpp sf / 8) <= Z.of_nat (length input)) ->
  exists out, translate_fn st sf cf cm stride w h input = XOk out.
Proof.
  intros st sf cf cm stride w h input Hst Hsb Hcb Hz H24 Hs Hal Hw Hh Hlen.
  destruct (Z.eq_dec (bpp sf) 24) as [E|E].
  - specialize (H24 E). unfold translate_fn.
    replace (stride <? 0) with false by lia. replace ((w <? 0) || (h <? 0)) with false by lia.
    assert (C24 : (bpp cf =? 24) = false) by (apply Z.eqb_neq; lia).
    rewrite C24, Hz, E, H24, Z.eqb_refl. simpl andb. simpl negb. cbv iota.
    change (24 / 8) with 3 in *. rewrite E in Hlen. change (24 / 8) with 3 in Hlen.
    assert (G : exists out, xl_rows (xl_row (Z.to_nat 3) (Z.to_nat 3) (pixel_fn st sf cf cm) (Z.to_nat w))
                                    (Z.to_nat stride) (Z.to_nat h) input 0 = XOk out).
    { apply area_total.
      - intros v. unfold pixel_fn. destruct Hst as [-> | ->]; simpl; discriminate.
      - intros R X HR HX. rewrite skipn_length.
        assert (0 < w) by lia. assert (0 < h) by lia. specialize (Hlen H H0).
        assert (Z.of_nat R <= h - 1) by lia. assert (Z.of_nat X <= w - 1) by lia.
        assert (Z.of_nat R * stride + Z.of_nat X * 3 + 3 <= Z.of_nat (length input)) by nia.
        assert (Z.of_nat (R * Z.to_nat stride + X * Z.to_nat 3) = Z.of_nat R * stride + Z.of_nat X * 3).
        { rewrite Nat2Z.inj_add, !Nat2Z.inj_mul, !Z2Nat.id by lia. reflexivity. }
        change (Z.to_nat 3) with 3%nat in *. lia. }
    destruct st; destruct Hst as [Hst|Hst]; try discriminate; exact G.
  - apply translate_area_sufficient; try assumption; [lia|auto].
Qed.

(* ------------------------------------------------------------------ rfbSetClientColourMap *)
Theorem recolour_spec : forall sf ready tcm scm,
  (tc sf = false -> ready = true -> recolour sf ready tcm scm = scm) /\
  (tc sf = true \/ ready = false -> recolour sf ready tcm scm = tcm).
Proof.
  intros sf ready tcm scm. unfold recolour. split.
  - intros -> ->. reflexivity.
  - intros [-> | ->]; [reflexivity|]. rewrite orb_true_r. reflexivity.
Qed.

(* ------------------------------------------------------------------ the repaired flow is the baseline
   The four source switches have their repaired values in /repo (fix commits 7bd61ce, 7c8a2b7, 3f4ae4e);
   these lemmas are re-checked against the regenerated Gen/Consts_C10.v on every run: if the source
   regresses they stop computing and every theorem below is reported as no longer shown, while the
   model follows the regressed code and the rule oracle exhibits the failing input. *)
Lemma scale_unsigned_now : scale_unsigned = true.
Proof. reflexivity. Qed.
Lemma load24_bytes_now : load24_bytes = 3.
Proof. reflexivity. Qed.
Lemma rgb24_fixed_now : rgb24_fixed = true.
Proof. reflexivity. Qed.

Lemma arith_ok_now : forall sf cf, arith_ok sf cf.
Proof. intros. left. exact scale_unsigned_now. Qed.

Theorem rule_via_setup_now : forall econ sf cf cf' st msg cm stride w h input out,
  set_translate econ sf cf = SetupOk cf' st msg ->
  server_ok sf -> client_ok cf' -> be sf = false -> bytes_ok input ->
  st <> SNone ->
  translate_fn st sf cf' cm stride w h input = XOk out ->
  forall r x, 0 <= r < h -> 0 <= x < w ->
    slice out ((r * w + x) * (bpp cf' / 8)) (bpp cf' / 8) =
    client_bytes cf' (rule_pixel sf cf' (src_pixel sf input (r * row_step sf stride + x * (bpp sf / 8)))).
Proof. intros. eapply rule_via_setup; try eassumption. apply arith_ok_now. Qed.

Theorem translate_rule_now : forall st sf cf cm stride w h input out,
  (st = SSingleTC \/ st = SRGB) -> server_ok sf -> client_ok cf -> be sf = false -> bytes_ok input ->
  translate_fn st sf cf cm stride w h input = XOk out ->
  forall r x, 0 <= r < h -> 0 <= x < w ->
    slice out ((r * w + x) * (bpp cf / 8)) (bpp cf / 8) =
    client_bytes cf (rule_pixel sf cf (src_pixel sf input (r * row_step sf stride + x * (bpp sf / 8)))).
Proof. intros. eapply translate_rule; try eassumption. apply arith_ok_now. Qed.

Theorem rule_24_via_setup_now : forall econ sf cf cf' st msg cm stride w h input out,
  set_translate econ sf cf = SetupOk cf' st msg ->
  server_ok sf -> client_ok24 cf' -> be sf = false -> bytes_ok input ->
  st <> SNone ->
  translate_fn st sf cf' cm stride w h input = XOk out ->
  Z.of_nat (length out) = w * h * 3 /\
  forall r x, 0 <= r < h -> 0 <= x < w ->
    slice out ((r * w + x) * 3) 3 =
    client_bytes cf' (rule_pixel sf cf' (src_pixel sf input (r * row_step sf stride + x * (bpp sf / 8)))).
Proof.
  intros. eapply rule_24_via_setup; try eassumption; [apply arith_ok_now|intros; exact rgb24_fixed_now].
Qed.

Theorem translate_rule_24_now : forall st sf cf cm stride w h input out,
  (st = SSingleTC \/ st = SRGB) ->
  server_ok sf -> client_ok24 cf -> be sf = false -> bytes_ok input ->
  translate_fn st sf cf cm stride w h input = XOk out ->
  Z.of_nat (length out) = w * h * 3 /\
  forall r x, 0 <= r < h -> 0 <= x < w ->
    slice out ((r * w + x) * 3) 3 =
    client_bytes cf (rule_pixel sf cf (src_pixel sf input (r * row_step sf stride + x * (bpp sf / 8)))).
Proof.
  intros st sf cf cm stride w h input out Hst. intros.
  eapply translate_rule_24; try eassumption; [|apply arith_ok_now].
  destruct Hst as [->| ->]; [left; reflexivity|right; split; [reflexivity|exact rgb24_fixed_now]].
Qed.

Theorem reads_area_exact_now : forall st sf cf stride w h o l,
  st <> SNone -> (bpp sf = 8 \/ bpp sf = 16 \/ bpp sf = 24 \/ bpp sf = 32) ->
  (bpp sf <> 24 -> stride mod (bpp sf / 8) = 0) ->
  (In (o, l) (reads_fn st sf cf stride w h) <->
   exists r x, 0 <= r < h /\ 0 <= x < w /\ o = r * stride + x * (bpp sf / 8) /\ l = bpp sf / 8).
Proof. intros. apply reads_area_exact_all; try assumption. intros; exact load24_bytes_now. Qed.

Theorem translate_area_sufficient_now : forall st sf cf cm stride w h input,
  (st = SSingleTC \/ st = SRGB) -> (bpp sf = 8 \/ bpp sf = 16 \/ bpp sf = 24 \/ bpp sf = 32) ->
  (bpp cf = 8 \/ bpp cf = 16 \/ bpp cf = 32) -> zero_max sf = false ->
  0 <= stride -> (bpp sf <> 24 -> stride mod (bpp sf / 8) = 0) -> 0 <= w -> 0 <= h ->
  (0 < w -> 0 < h -> (h - 1) * stride + w * (bpp sf / 8) <= Z.of_nat (length input)) ->
  exists out, translate_fn st sf cf cm stride w h input = XOk out.
Proof. intros. apply translate_area_sufficient_all; try assumption. intros; exact load24_bytes_now. Qed.

(* the former witnesses of F10, F10b and F10d now translate according to the rule *)
Example former_witnesses_repaired :
  translate_fn SRGB f_rgb24 (f_rgb565 false) empty_cmap 3 1 1 [1; 2; 3] = XOk [0; 0] /\
  translate_fn SRGB f_r16a f_r16b empty_cmap 4 1 1 [128; 76; 236; 227] = XOk [236; 227; 128; 76] /\
  translate_fn SRGB (f_rgb888 false) f_rgb24 empty_cmap 4 1 1 [255; 255; 255; 0] = XOk [255; 255; 255].
Proof. repeat split; vm_compute; reflexivity. Qed.

(* ------------------------------------------------------------------ rfbNewFramebuffer *)
Lemma fmt_eqb_eq : forall x y, fmt_eqb x y = true -> x = y.
Proof.
  intros [b1 d1 e1 t1 r1 g1 bl1 rs1 gs1 bs1] [b2 d2 e2 t2 r2 g2 bl2 rs2 gs2 bs2] H.
  unfold fmt_eqb in H. simpl in H.
  repeat (apply andb_true_iff in H; destruct H as [H ?]).
  repeat match goal with
         | E : (_ =? _) = true |- _ => apply Z.eqb_eq in E
         | E : Bool.eqb _ _ = true |- _ => apply Bool.eqb_prop in E
         end.
  subst. reflexivity.
Qed.

(* either the new server format is identical to the old one (nothing to do: the client's function and table
   stay valid) or rfbSetTranslateFunction is re-run for the client against the new format -- in
   particular when only the trueColour flag differs *)
Theorem new_framebuffer_spec : forall econ sf bytespp bps cfe,
  fst (new_framebuffer econ sf bytespp bps cfe) = init_server_format bytespp bps /\
  ((snd (new_framebuffer econ sf bytespp bps cfe) = None /\ init_server_format bytespp bps = sf) \/
   (snd (new_framebuffer econ sf bytespp bps cfe) = Some (set_translate econ (init_server_format bytespp bps) cfe) /\
    init_server_format bytespp bps <> sf)).
Proof.
  intros. unfold new_framebuffer. cbn [fst snd]. split; [reflexivity|].
  destruct (fmt_eqb (init_server_format bytespp bps) sf) eqn:E.
  - left. split; [reflexivity|apply fmt_eqb_eq; assumption].
  - right. split; [reflexivity|]. intros Heq. rewrite Heq in E.
    assert (fmt_eqb sf sf = true).
    { unfold fmt_eqb. rewrite !Z.eqb_refl, !Bool.eqb_reflx. reflexivity. }
    congruence.
Qed.

(* the formats rfbNewFramebuffer establishes are in the supported domain, host byte order: C10_rule
   applies to every client after the call *)
Theorem init_server_format_ok : forall bytespp bps,
  (bytespp = 1 \/ bytespp = 2 \/ bytespp = 3 \/ bytespp = 4) -> 1 <= bps <= 16 ->
  (bytespp <> 1 -> 3 * bps <= 8 * bytespp) ->
  server_ok (init_server_format bytespp bps) /\ be (init_server_format bytespp bps) = false.
Proof.
  intros bytespp bps Hb Hs H3. unfold init_server_format.
  destruct (8 * bytespp =? 8) eqn:E8.
  - split; [|reflexivity]. split; [reflexivity|]. split; [simpl; auto|]. exists 3, 3, 2.
    constructor; unfold is_max; simpl; lia.
  - apply Z.eqb_neq in E8.
    assert (P : 2 <= 2 ^ bps <= 65536).
    { split; [change 2 with (2 ^ 1) at 1|change 65536 with (2 ^ 16)]; apply Z.pow_le_mono_r; lia. }
    assert (Em : u_of 16 (2 ^ bps - 1) = 2 ^ bps - 1) by (apply u_of_small; change (2 ^ 16) with 65536; lia).
    assert (E1 : u_of 8 bps = bps) by (apply u_of_small; change (2 ^ 8) with 256; lia).
    assert (E2 : u_of 8 (bps * 2) = bps * 2) by (apply u_of_small; change (2 ^ 8) with 256; lia).
    rewrite Em, E1, E2. split; [|reflexivity]. split; [reflexivity|]. split; [cbn [bpp]; lia|].
    exists bps, bps, bps. constructor; unfold is_max; cbn [bpp rmax gmax bmax rs gs bs]; lia.
Qed.

Example new_framebuffer_nonvacuous :
  (* colour-mapped 8-bit server with the default layout, then true colour: only trueColour differs *)
  snd (new_framebuffer false (mkfmt 8 8 false false 7 7 3 0 3 6) 1 8 (f_rgb888 false)) =
    Some (SetupOk (f_rgb888 false) SSingleTC []) /\
  snd (new_framebuffer false (init_server_format 4 8) 4 8 (f_rgb565 false)) = None.
Proof. split; vm_compute; reflexivity. Qed.
