(* C10 - bit-level lemmas about the integer operations of the mirror model Pixel/Translate.v *)
From Coq Require Import ZArith List Bool Lia Btauto.
From LV Require Import Gen.Consts_C10 Pixel.Translate.
Import ListNotations.
Local Open Scope Z_scope.

(* ------------------------------------------------------------------ generic *)
Lemma testbit_small : forall a k j, 0 <= a < 2 ^ k -> 0 <= k <= j -> Z.testbit a j = false.
Proof.
  intros a k j Ha Hk.
  destruct (Z.eq_dec a 0) as [->|Hn]; [apply Z.bits_0|].
  apply Z.bits_above_log2; [lia|].
  assert (Z.log2 a < k); [|lia].
  apply Z.log2_lt_pow2; lia.
Qed.

(* bit i of the field (v << s), v a k-bit value *)
Lemma testbit_field : forall v s k i, 0 <= v < 2 ^ k -> 0 <= k -> 0 <= s -> 0 <= i ->
  Z.testbit (Z.shiftl v s) i = (s <=? i) && (i <? s + k) && Z.testbit v (i - s).
Proof.
  intros v s k i Hv Hk Hs Hi. rewrite Z.shiftl_spec by lia.
  destruct (s <=? i) eqn:E1; simpl.
  - destruct (i <? s + k) eqn:E2; simpl; [reflexivity|].
    apply (testbit_small v k); lia.
  - apply Z.testbit_neg_r. lia.
Qed.

Lemma lor_disjoint_add : forall a b, Z.land a b = 0 -> Z.lor a b = a + b.
Proof. intros a b H. rewrite Z.add_nocarry_lxor by assumption. symmetry. apply Z.lxor_lor. assumption. Qed.

Lemma land_fields_0 : forall v1 s1 k1 v2 s2 k2,
  0 <= v1 < 2 ^ k1 -> 0 <= v2 < 2 ^ k2 -> 0 <= k1 -> 0 <= k2 -> 0 <= s1 -> 0 <= s2 ->
  (s1 + k1 <= s2 \/ s2 + k2 <= s1) ->
  Z.land (Z.shiftl v1 s1) (Z.shiftl v2 s2) = 0.
Proof.
  intros. apply Z.bits_inj'. intros i Hi. rewrite Z.land_spec, Z.bits_0.
  rewrite (testbit_field v1 s1 k1), (testbit_field v2 s2 k2) by lia.
  destruct (s1 <=? i) eqn:A; destruct (i <? s1 + k1) eqn:B; destruct (s2 <=? i) eqn:C;
    destruct (i <? s2 + k2) eqn:D; simpl; try reflexivity; lia.
Qed.

Lemma shiftl_bound : forall v s k, 0 <= v < 2 ^ k -> 0 <= k -> 0 <= s -> 0 <= Z.shiftl v s < 2 ^ (s + k).
Proof.
  intros. rewrite Z.shiftl_mul_pow2 by lia. rewrite Z.pow_add_r by lia.
  assert (0 < 2 ^ s) by (apply Z.pow_pos_nonneg; lia). nia.
Qed.

Lemma pow2_le_mono : forall a b, 0 <= a <= b -> 2 ^ a <= 2 ^ b.
Proof. intros. apply Z.pow_le_mono_r; lia. Qed.

Lemma land_max_mod : forall x k, 0 <= k -> Z.land x (2 ^ k - 1) = x mod 2 ^ k.
Proof. intros. rewrite <- Z.land_ones by lia. rewrite Z.ones_equiv. reflexivity. Qed.

(* ------------------------------------------------------------------ u_of *)
Lemma u_of_small : forall n v, 0 <= v < 2 ^ n -> u_of n v = v.
Proof. intros. unfold u_of. apply Z.mod_small. assumption. Qed.

Lemma u_of_lor : forall n a b, 0 <= n -> u_of n (Z.lor a b) = Z.lor (u_of n a) (u_of n b).
Proof. intros. unfold u_of. rewrite <- !Z.land_ones by lia. apply Z.land_lor_distr_l. Qed.

Lemma u_of_shiftl_idem : forall n q s, 0 <= n -> 0 <= s ->
  u_of n (Z.shiftl (u_of n q) s) = u_of n (Z.shiftl q s).
Proof.
  intros. unfold u_of. rewrite !Z.shiftl_mul_pow2 by lia.
  assert (0 < 2 ^ n) by (apply Z.pow_pos_nonneg; lia).
  rewrite Z.mul_mod_idemp_l by lia. reflexivity.
Qed.

Lemma u_of_idem : forall n v, 0 <= n -> u_of n (u_of n v) = u_of n v.
Proof. intros. unfold u_of. assert (0 < 2 ^ n) by (apply Z.pow_pos_nonneg; lia). apply Z.mod_mod. lia. Qed.

Lemma u_of_range : forall n v, 0 <= n -> 0 <= u_of n v < 2 ^ n.
Proof. intros. unfold u_of. apply Z.mod_pos_bound. apply Z.pow_pos_nonneg; lia. Qed.

(* ------------------------------------------------------------------ swaps are lor-homomorphisms *)
Lemma lor_4 : forall a b c d, Z.lor (Z.lor a b) (Z.lor c d) = Z.lor (Z.lor a c) (Z.lor b d).
Proof.
  intros. apply Z.bits_inj'. intros i Hi. rewrite !Z.lor_spec.
  destruct (Z.testbit a i), (Z.testbit b i), (Z.testbit c i), (Z.testbit d i); reflexivity.
Qed.

Lemma swap16_lor : forall a b, swap16 (Z.lor a b) = Z.lor (swap16 a) (swap16 b).
Proof.
  intros. unfold swap16.
  rewrite Z.shiftr_lor, !Z.land_lor_distr_l, Z.shiftl_lor. apply lor_4.
Qed.

Lemma swap32_lor : forall a b, swap32 (Z.lor a b) = Z.lor (swap32 a) (swap32 b).
Proof.
  intros. unfold swap32.
  rewrite Z.shiftr_lor, !Z.land_lor_distr_l, !Z.shiftl_lor, Z.shiftr_lor.
  apply Z.bits_inj'. intros i Hi. rewrite !Z.lor_spec.
  repeat match goal with |- context [Z.testbit ?x i] =>
    let t := fresh "t" in
    lazymatch x with Z.lor _ _ => fail | _ => remember (Z.testbit x i) as t end end.
  btauto.
Qed.

Lemma swap_out_lor : forall n a b, swap_out n (Z.lor a b) = Z.lor (swap_out n a) (swap_out n b).
Proof.
  intros. unfold swap_out.
  destruct (n =? 16); [rewrite swap16_lor; apply u_of_lor; lia|].
  destruct (n =? 32); [rewrite swap32_lor; apply u_of_lor; lia|]. reflexivity.
Qed.

(* ------------------------------------------------------------------ swaps as byte reversal *)
Ltac zdm := Z.div_mod_to_equations; lia.

Lemma land_255 : forall x, Z.land x 255 = x mod 256.
Proof. intros. change 255 with (Z.ones 8). rewrite Z.land_ones by lia. reflexivity. Qed.

(* x & (m << s) = ((x >> s) & m) << s *)
Lemma land_shifted_mask : forall x m s, 0 <= s -> Z.land x (Z.shiftl m s) = Z.shiftl (Z.land (Z.shiftr x s) m) s.
Proof.
  intros. apply Z.bits_inj'. intros i Hi.
  rewrite Z.land_spec, !Z.shiftl_spec by lia.
  destruct (Z.lt_ge_cases i s).
  - rewrite !(Z.testbit_neg_r _ (i - s)) by lia. apply andb_false_r.
  - rewrite Z.land_spec, Z.shiftr_spec by lia. replace (i - s + s) with i by lia. reflexivity.
Qed.

Lemma lor_low_high : forall a b s, 0 <= s -> 0 <= a < 2 ^ s -> 0 <= b -> Z.lor a (Z.shiftl b s) = a + b * 2 ^ s.
Proof.
  intros. rewrite <- Z.shiftl_mul_pow2 by lia. apply lor_disjoint_add.
  apply Z.bits_inj'. intros i Hi. rewrite Z.land_spec, Z.bits_0, Z.shiftl_spec by lia.
  destruct (Z.lt_ge_cases i s).
  - rewrite (Z.testbit_neg_r _ (i - s)) by lia. apply andb_false_r.
  - rewrite (testbit_small a s i) by lia. reflexivity.
Qed.

Lemma swap16_arith : forall v, 0 <= v < 65536 -> swap16 v = (v mod 256) * 256 + v / 256.
Proof.
  intros v Hv. unfold swap16. rewrite !land_255, Z.shiftr_div_pow2 by lia.
  rewrite Z.lor_comm. change (2 ^ 8) with 256.
  rewrite (lor_low_high ((v / 256) mod 256) (v mod 256) 8); try lia.
  - change (2 ^ 8) with 256. zdm.
  - change (2 ^ 8) with 256. zdm.
  - zdm.
Qed.

Lemma swap32_arith : forall v, 0 <= v < 4294967296 ->
  swap32 v = (v / 16777216) mod 256 + ((v / 65536) mod 256) * 256 + ((v / 256) mod 256) * 65536 + (v mod 256) * 16777216.
Proof.
  intros v Hv. unfold swap32.
  change 16711680 with (Z.shiftl 255 16). change 65280 with (Z.shiftl 255 8).
  rewrite !land_shifted_mask by lia. rewrite !land_255.
  rewrite !Z.shiftr_div_pow2 by lia.
  change (2 ^ 24) with 16777216. change (2 ^ 16) with 65536. change (2 ^ 8) with 256.
  rewrite (Z.shiftl_mul_pow2 ((v / 65536) mod 256) 16) by lia. change (2 ^ 16) with 65536.
  replace (((v / 65536) mod 256) * 65536 / 256) with (((v / 65536) mod 256) * 256) by zdm.
  rewrite (Z.shiftl_mul_pow2 ((v / 256) mod 256) 8) by lia. change (2 ^ 8) with 256.
  replace (((v / 256) mod 256) * 256) with (Z.shiftl ((v / 256) mod 256) 8) by (rewrite Z.shiftl_mul_pow2 by lia; reflexivity).
  replace (((v / 65536) mod 256) * 256) with (Z.shiftl ((v / 65536) mod 256) 8) by (rewrite Z.shiftl_mul_pow2 by lia; reflexivity).
  rewrite (lor_low_high ((v / 16777216) mod 256) ((v / 65536) mod 256) 8); try lia; [| change (2^8) with 256; zdm | zdm].
  change (2 ^ 8) with 256.
  replace (Z.shiftl (Z.shiftl ((v / 256) mod 256) 8) 8) with (Z.shiftl ((v / 256) mod 256) 16)
    by (rewrite Z.shiftl_shiftl by lia; reflexivity).
  rewrite (lor_low_high _ ((v / 256) mod 256) 16); try lia; [| change (2^16) with 65536; zdm | zdm].
  rewrite (lor_low_high _ (v mod 256) 24); try lia; [| change (2^24) with 16777216; zdm | zdm].
  change (2 ^ 16) with 65536. change (2 ^ 24) with 16777216. rewrite ?Z.shiftl_mul_pow2 by lia. change (2 ^ 8) with 256. lia.
Qed.

Lemma le_bytes_swap16 : forall v, 0 <= v < 65536 -> le_bytes 2 (u_of 16 (swap16 v)) = rev (le_bytes 2 v).
Proof.
  intros v Hv. rewrite swap16_arith by assumption.
  unfold u_of. change (2 ^ 16) with 65536. cbn [le_bytes rev app].
  f_equal; [zdm|]. f_equal. zdm.
Qed.

Lemma le_bytes_swap32 : forall v, 0 <= v < 4294967296 -> le_bytes 4 (u_of 32 (swap32 v)) = rev (le_bytes 4 v).
Proof.
  intros v Hv. rewrite swap32_arith by assumption.
  unfold u_of. change (2 ^ 32) with 4294967296. cbn [le_bytes rev app].
  f_equal; [zdm|]. f_equal; [zdm|]. f_equal; [zdm|]. f_equal. zdm.
Qed.

(* the translator tie of the macros: the model's swaps reproduce the values obtained by compiling
   Swap16 / Swap32 from rfb.h *)
Lemma swap16_probe : swap16 258 = c10_swap16_probe.
Proof. reflexivity. Qed.
Lemma swap32_probe : swap32 16909060 = c10_swap32_probe.
Proof. reflexivity. Qed.
