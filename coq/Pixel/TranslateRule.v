(* C10 - value-level lemmas: the table entries of both strategies realise the RFB scaling rule *)
From Coq Require Import ZArith List Bool Lia.
From LV Require Import Gen.Consts_C10 Pixel.Translate Pixel.TranslateBits.
Import ListNotations.
Local Open Scope Z_scope.

Ltac zdm := Z.div_mod_to_equations; lia.

(* ------------------------------------------------------------------ arithmetic of one component *)
Lemma wrap32s_small : forall x, 0 <= x < 2147483648 -> wrap32s x = x.
Proof.
  intros x H. unfold wrap32s. rewrite Z.mod_small by lia.
  destruct (x <? 2147483648) eqn:E; [reflexivity|lia].
Qed.

Lemma scale_spec_bound : forall c inMax outMax, 0 <= c <= inMax -> 1 <= inMax -> 0 <= outMax ->
  0 <= scale_spec c inMax outMax <= outMax.
Proof.
  intros c i o Hc Hi Ho. unfold scale_spec. split.
  - apply Z.div_pos; [|lia]. assert (0 <= i / 2) by (apply Z.div_pos; lia). nia.
  - assert (i / 2 < i) by (apply Z.div_lt; lia).
    assert ((c * o + i / 2) / i < o + 1); [|lia].
    apply Z.div_lt_upper_bound; [lia|]. nia.
Qed.

Lemma scale_c_spec : forall c inMax outMax, 0 <= c <= inMax -> 1 <= inMax -> 0 <= outMax ->
  inMax * outMax + inMax / 2 < 2147483648 ->
  scale_c c inMax outMax = scale_spec c inMax outMax.
Proof.
  intros c i o Hc Hi Ho Hov. unfold scale_c, scale_spec.
  assert (0 <= i / 2) by (apply Z.div_pos; lia).
  assert (0 <= c * o + i / 2 < 2147483648) by nia.
  destruct scale_unsigned.
  - rewrite u_of_small by (change (2 ^ 32) with 4294967296; lia). apply Z.quot_div_nonneg; lia.
  - rewrite wrap32s_small by assumption. apply Z.quot_div_nonneg; lia.
Qed.

Lemma scale_c_spec_u : forall c inMax outMax, scale_unsigned = true ->
  0 <= c <= inMax -> 1 <= inMax <= 65535 -> 0 <= outMax <= 65535 ->
  scale_c c inMax outMax = scale_spec c inMax outMax.
Proof.
  intros c i o Hu Hc Hi Ho. unfold scale_c, scale_spec. rewrite Hu.
  assert (0 <= i / 2 <= 32767) by (Z.div_mod_to_equations; lia).
  assert (0 <= c * o + i / 2 < 4294967296) by nia.
  rewrite u_of_small by (change (2 ^ 32) with 4294967296; lia). apply Z.quot_div_nonneg; lia.
Qed.

Lemma is_max_le : forall m k, is_max m k -> m <= 65535.
Proof.
  intros m k [Hk ->]. assert (2 ^ k <= 2 ^ 16) by (apply Z.pow_le_mono_r; lia).
  change (2 ^ 16) with 65536 in *. lia.
Qed.

Lemma is_max_pos : forall m k, is_max m k -> 1 <= m /\ 0 <= k /\ m + 1 = 2 ^ k /\ 2 <= 2 ^ k.
Proof.
  intros m k [Hk ->]. assert (2 ^ 1 <= 2 ^ k) by (apply Z.pow_le_mono_r; lia).
  change (2 ^ 1) with 2 in *. lia.
Qed.

Lemma comp_bound : forall v s m k, is_max m k -> 0 <= s -> 0 <= comp v s m <= m.
Proof.
  intros v s m k Hm Hs. destruct (is_max_pos _ _ Hm) as (? & ? & ? & ?). destruct Hm as [Hk ->].
  unfold comp. rewrite land_max_mod by lia.
  pose proof (Z.mod_pos_bound (Z.shiftr v s) (2 ^ k)). lia.
Qed.

(* ------------------------------------------------------------------ three disjoint fields in a pixel *)
Definition fields (cf : pixfmt) (a b c : Z) : Z :=
  Z.lor (Z.lor (Z.shiftl a (rs cf)) (Z.shiftl b (gs cf))) (Z.shiftl c (bs cf)).

Definition rule_lor (sf cf : pixfmt) (p : Z) : Z := fields cf (sc_r sf cf p) (sc_g sf cf p) (sc_b sf cf p).

Lemma lor_bound : forall n a b, 0 <= n -> 0 <= a < 2 ^ n -> 0 <= b < 2 ^ n -> 0 <= Z.lor a b < 2 ^ n.
Proof.
  intros n a b Hn Ha Hb.
  assert (E : u_of n (Z.lor a b) = Z.lor a b) by (rewrite u_of_lor, !u_of_small by lia; reflexivity).
  rewrite <- E. apply u_of_range. lia.
Qed.

Section Fields.
  Variable cf : pixfmt.
  Variables okr okg okb : Z.
  Hypothesis Hc : fmt_wf cf okr okg okb.
  Variables a b c : Z.
  Hypothesis Ha : 0 <= a < 2 ^ okr.
  Hypothesis Hb : 0 <= b < 2 ^ okg.
  Hypothesis Hcc : 0 <= c < 2 ^ okb.

  Ltac dwf := pose proof Hc as Hc'; destruct Hc' as [cR cG cB cRs cGs cBs cRG cRB cGB].

  Lemma ok_nonneg : 0 <= okr /\ 0 <= okg /\ 0 <= okb.
  Proof. dwf. destruct cR, cG, cB. lia. Qed.

  (* the three fields do not overlap: "lor" is a sum *)
  Lemma fields_sum : fields cf a b c = a * 2 ^ rs cf + b * 2 ^ gs cf + c * 2 ^ bs cf.
  Proof.
    unfold fields. destruct ok_nonneg as (?&?&?). dwf.
    rewrite (lor_disjoint_add (Z.lor _ _)).
    - rewrite lor_disjoint_add by (apply (land_fields_0 _ _ okr _ _ okg); lia).
      rewrite !Z.shiftl_mul_pow2 by lia. reflexivity.
    - rewrite Z.land_lor_distr_l.
      rewrite (land_fields_0 _ _ okr _ _ okb), (land_fields_0 _ _ okg _ _ okb) by lia. reflexivity.
  Qed.

  Lemma fields_range : 0 <= fields cf a b c < 2 ^ bpp cf.
  Proof.
    unfold fields. destruct ok_nonneg as (?&?&?). dwf.
    pose proof (shiftl_bound _ (rs cf) okr Ha). pose proof (shiftl_bound _ (gs cf) okg Hb). pose proof (shiftl_bound _ (bs cf) okb Hcc).
    pose proof (pow2_le_mono (rs cf + okr) (bpp cf)). pose proof (pow2_le_mono (gs cf + okg) (bpp cf)).
    pose proof (pow2_le_mono (bs cf + okb) (bpp cf)).
    apply lor_bound; [lia| |lia]. apply lor_bound; lia.
  Qed.

  (* each component, extracted with the CLIENT's shift and max, is exactly the value put there:
     nothing else leaks into it *)
  Lemma decode_r : comp (fields cf a b c) (rs cf) (rmax cf) = a.
  Proof.
    destruct ok_nonneg as (?&?&?). dwf. destruct cR as [? Em].
    unfold comp, fields. rewrite Em. replace (2 ^ okr - 1) with (Z.ones okr) by (rewrite Z.ones_equiv; lia).
    apply Z.bits_inj'. intros i Hi.
    rewrite Z.land_spec, Z.shiftr_spec, !Z.lor_spec by lia.
    rewrite Z.testbit_ones_nonneg by lia.
    rewrite (testbit_field _ (rs cf) okr), (testbit_field _ (gs cf) okg), (testbit_field _ (bs cf) okb) by lia.
    replace (i + rs cf - rs cf) with i by lia.
    destruct (i <? okr) eqn:E.
    - replace (rs cf <=? i + rs cf) with true by lia. replace (i + rs cf <? rs cf + okr) with true by lia.
      destruct (gs cf <=? i + rs cf) eqn:A; destruct (i + rs cf <? gs cf + okg) eqn:B;
      destruct (bs cf <=? i + rs cf) eqn:C; destruct (i + rs cf <? bs cf + okb) eqn:D; simpl;
        rewrite ?orb_false_r, ?andb_true_r; try reflexivity; lia.
    - rewrite andb_false_r. symmetry. apply (testbit_small _ okr); lia.
  Qed.

  Lemma decode_g : comp (fields cf a b c) (gs cf) (gmax cf) = b.
  Proof.
    destruct ok_nonneg as (?&?&?). dwf. destruct cG as [? Em].
    unfold comp, fields. rewrite Em. replace (2 ^ okg - 1) with (Z.ones okg) by (rewrite Z.ones_equiv; lia).
    apply Z.bits_inj'. intros i Hi.
    rewrite Z.land_spec, Z.shiftr_spec, !Z.lor_spec by lia.
    rewrite Z.testbit_ones_nonneg by lia.
    rewrite (testbit_field _ (rs cf) okr), (testbit_field _ (gs cf) okg), (testbit_field _ (bs cf) okb) by lia.
    replace (i + gs cf - gs cf) with i by lia.
    destruct (i <? okg) eqn:E.
    - replace (gs cf <=? i + gs cf) with true by lia. replace (i + gs cf <? gs cf + okg) with true by lia.
      destruct (rs cf <=? i + gs cf) eqn:A; destruct (i + gs cf <? rs cf + okr) eqn:B;
      destruct (bs cf <=? i + gs cf) eqn:C; destruct (i + gs cf <? bs cf + okb) eqn:D; simpl;
        rewrite ?orb_false_r, ?andb_true_r; try reflexivity; lia.
    - rewrite andb_false_r. symmetry. apply (testbit_small _ okg); lia.
  Qed.

  Lemma decode_b : comp (fields cf a b c) (bs cf) (bmax cf) = c.
  Proof.
    destruct ok_nonneg as (?&?&?). dwf. destruct cB as [? Em].
    unfold comp, fields. rewrite Em. replace (2 ^ okb - 1) with (Z.ones okb) by (rewrite Z.ones_equiv; lia).
    apply Z.bits_inj'. intros i Hi.
    rewrite Z.land_spec, Z.shiftr_spec, !Z.lor_spec by lia.
    rewrite Z.testbit_ones_nonneg by lia.
    rewrite (testbit_field _ (rs cf) okr), (testbit_field _ (gs cf) okg), (testbit_field _ (bs cf) okb) by lia.
    replace (i + bs cf - bs cf) with i by lia.
    destruct (i <? okb) eqn:E.
    - replace (bs cf <=? i + bs cf) with true by lia. replace (i + bs cf <? bs cf + okb) with true by lia.
      destruct (rs cf <=? i + bs cf) eqn:A; destruct (i + bs cf <? rs cf + okr) eqn:B;
      destruct (gs cf <=? i + bs cf) eqn:C; destruct (i + bs cf <? gs cf + okg) eqn:D; simpl;
        rewrite ?orb_false_r, ?andb_true_r; try reflexivity; lia.
    - rewrite andb_false_r. symmetry. apply (testbit_small _ okb); lia.
  Qed.
End Fields.

Section Rule.
  Variables sf cf : pixfmt.
  Variables ikr ikg ikb okr okg okb : Z.
  Hypothesis Hs : fmt_wf sf ikr ikg ikb.
  Hypothesis Hc : fmt_wf cf okr okg okb.

  Ltac dwf := pose proof Hs as Hs'; pose proof Hc as Hc';
    destruct Hs' as [sR sG sB sRs sGs sBs sRG sRB sGB]; destruct Hc' as [cR cG cB cRs cGs cBs cRG cRB cGB].

  Lemma sc_r_bound : forall p, 0 <= sc_r sf cf p < 2 ^ okr.
  Proof.
    intros p. dwf. destruct (is_max_pos _ _ sR) as (?&?&?&?). destruct (is_max_pos _ _ cR) as (?&?&?&?).
    pose proof (comp_bound p (rs sf) _ _ sR (proj1 sRs)).
    pose proof (scale_spec_bound (comp p (rs sf) (rmax sf)) (rmax sf) (rmax cf)). unfold sc_r. lia.
  Qed.
  Lemma sc_g_bound : forall p, 0 <= sc_g sf cf p < 2 ^ okg.
  Proof.
    intros p. dwf. destruct (is_max_pos _ _ sG) as (?&?&?&?). destruct (is_max_pos _ _ cG) as (?&?&?&?).
    pose proof (comp_bound p (gs sf) _ _ sG (proj1 sGs)).
    pose proof (scale_spec_bound (comp p (gs sf) (gmax sf)) (gmax sf) (gmax cf)). unfold sc_g. lia.
  Qed.
  Lemma sc_b_bound : forall p, 0 <= sc_b sf cf p < 2 ^ okb.
  Proof.
    intros p. dwf. destruct (is_max_pos _ _ sB) as (?&?&?&?). destruct (is_max_pos _ _ cB) as (?&?&?&?).
    pose proof (comp_bound p (bs sf) _ _ sB (proj1 sBs)).
    pose proof (scale_spec_bound (comp p (bs sf) (bmax sf)) (bmax sf) (bmax cf)). unfold sc_b. lia.
  Qed.

  Lemma rule_lor_sum : forall p, rule_lor sf cf p = rule_pixel sf cf p.
  Proof.
    intros p. unfold rule_lor. rewrite (fields_sum cf okr okg okb Hc) by (apply sc_r_bound || apply sc_g_bound || apply sc_b_bound).
    reflexivity.
  Qed.

  Lemma rule_lor_range : forall p, 0 <= rule_lor sf cf p < 2 ^ bpp cf.
  Proof. intros p. apply (fields_range cf okr okg okb Hc); [apply sc_r_bound|apply sc_g_bound|apply sc_b_bound]. Qed.

  (* the int expression of rfbInitTrueColourSingleTable is the rule (no overflow) *)
  Lemma tc_value_rule : arith_ok sf cf -> forall p, tc_value sf cf p = rule_lor sf cf p.
  Proof.
    intros Hov p. unfold tc_value, rule_lor, fields, sc_r, sc_g, sc_b.
    dwf.
    pose proof (is_max_le _ _ sR). pose proof (is_max_le _ _ sG). pose proof (is_max_le _ _ sB).
    pose proof (is_max_le _ _ cR). pose proof (is_max_le _ _ cG). pose proof (is_max_le _ _ cB).
    pose proof (comp_bound p (rs sf) _ _ sR (proj1 sRs)) as Br.
    pose proof (comp_bound p (gs sf) _ _ sG (proj1 sGs)) as Bg.
    pose proof (comp_bound p (bs sf) _ _ sB (proj1 sBs)) as Bb.
    destruct (is_max_pos _ _ sR) as (?&?&?&?). destruct (is_max_pos _ _ sG) as (?&?&?&?).
    destruct (is_max_pos _ _ sB) as (?&?&?&?).
    destruct (is_max_pos _ _ cR) as (?&?&?&?). destruct (is_max_pos _ _ cG) as (?&?&?&?).
    destruct (is_max_pos _ _ cB) as (?&?&?&?).
    destruct Hov as [Hu|(Or & Og & Ob)].
    - rewrite !scale_c_spec_u by (assumption || lia). reflexivity.
    - rewrite !scale_c_spec by (assumption || lia). reflexivity.
  Qed.
End Rule.

(* ------------------------------------------------------------------ both strategies store the same value
   (no hypothesis on the formats beyond the client pixel size and shifts < 32) *)
Lemma rgb_entry_as_single : forall n q s (sw : bool), (n = 8 \/ n = 16 \/ n = 32) -> 0 <= s < 32 ->
  forall inMax outMax i, q = scale_c i inMax outMax ->
  rgb_entry n inMax outMax s sw i =
  (if negb (n =? 8) && sw then swap_out n (u_of n (Z.shiftl q s)) else u_of n (Z.shiftl q s)).
Proof.
  intros n q s sw Hn Hs inMax outMax i ->. unfold rgb_entry.
  replace (s <? 32) with true by lia.
  rewrite u_of_shiftl_idem by lia. reflexivity.
Qed.

Lemma swap_out_u_of : forall n v, (n = 8 \/ n = 16 \/ n = 32) -> u_of n (swap_out n (u_of n v)) = swap_out n (u_of n v).
Proof.
  intros n v [->|[->| ->]]; unfold swap_out; simpl.
  - apply u_of_idem. lia.
  - apply u_of_idem. lia.
  - apply u_of_idem. lia.
Qed.

Lemma strategies_same_value : forall sf cf v,
  (bpp cf = 8 \/ bpp cf = 16 \/ bpp cf = 32) ->
  0 <= rs cf < 32 -> 0 <= gs cf < 32 -> 0 <= bs cf < 32 ->
  u_of (bpp cf) (rgb_value sf cf v) = tc_single_entry sf cf v.
Proof.
  intros sf cf v Hn Hr Hg Hb. unfold rgb_value, tc_single_entry, tc_value.
  set (qr := scale_c (comp v (rs sf) (rmax sf)) (rmax sf) (rmax cf)).
  set (qg := scale_c (comp v (gs sf) (gmax sf)) (gmax sf) (gmax cf)).
  set (qb := scale_c (comp v (bs sf) (bmax sf)) (bmax sf) (bmax cf)).
  rewrite (rgb_entry_as_single (bpp cf) qr (rs cf)), (rgb_entry_as_single (bpp cf) qg (gs cf)),
          (rgb_entry_as_single (bpp cf) qb (bs cf)) by (auto; lia).
  assert (0 <= bpp cf) by lia.
  destruct (negb (bpp cf =? 8) && need_swap sf cf).
  - rewrite <- !swap_out_lor. rewrite <- !u_of_lor by lia. apply swap_out_u_of. assumption.
  - rewrite <- !u_of_lor by lia. apply u_of_idem. lia.
Qed.

(* ------------------------------------------------------------------ bytes stored = client byte order *)
Lemma le_bytes_swap_out : forall n v, (n = 8 \/ n = 16 \/ n = 32) -> 0 <= v < 2 ^ n ->
  le_bytes (Z.to_nat (n / 8)) (if negb (n =? 8) then swap_out n v else v) = rev (le_bytes (Z.to_nat (n / 8)) v).
Proof.
  intros n v [->|[->| ->]] Hv; simpl.
  - reflexivity.
  - unfold swap_out; simpl. apply (le_bytes_swap16 v). exact Hv.
  - unfold swap_out; simpl. apply (le_bytes_swap32 v). exact Hv.
Qed.

(* with a server in host byte order, the stored entry laid out in host order is the pixel in the
   byte order the client asked for *)
Lemma entry_bytes_client : forall sf cf v, (bpp cf = 8 \/ bpp cf = 16 \/ bpp cf = 32) -> be sf = false ->
  0 <= v < 2 ^ bpp cf ->
  le_bytes (Z.to_nat (bpp cf / 8)) (if negb (bpp cf =? 8) && need_swap sf cf then swap_out (bpp cf) v else v) =
  client_bytes cf v.
Proof.
  intros sf cf v Hn Hbe Hv. unfold client_bytes, need_swap, be_bytes. rewrite Hbe.
  destruct (be cf); simpl.
  - rewrite andb_true_r. apply le_bytes_swap_out; assumption.
  - rewrite andb_false_r. reflexivity.
Qed.
