(* C10 - proofs about the mirror model Pixel/Translate.v: the theorems used by Props/Properties_C10.v *)
From Coq Require Import ZArith List Bool Lia Arith.
From LV Require Import Gen.Consts_C10 Pixel.Translate Pixel.TranslateBits Pixel.TranslateRule Pixel.TranslateWalk.
Import ListNotations.

(* ------------------------------------------------------------------ the area walk, nat level *)
Lemma xl_row_len : forall peek adv f osz, (forall v ob, f v = Some ob -> length ob = osz) ->
  forall W l off o, xl_row peek adv f W l off = XOk o -> length o = W * osz.
Proof. intros peek adv f osz Hf W l off o H. destruct (xl_row_ok peek adv f osz Hf W l off o H). assumption. Qed.

Lemma area_pixel : forall peek adv f osz W step H input out,
  (forall v ob, f v = Some ob -> length ob = osz) ->
  xl_rows (xl_row peek adv f W) step H input 0 = XOk out ->
  length out = H * (W * osz) /\
  forall R X, R < H -> X < W ->
    peek <= length (skipn (R * step + X * adv) input) /\
    f (le_val (nslice input (R * step + X * adv) peek)) = Some (nslice out ((R * W + X) * osz) osz).
Proof.
  intros peek adv f osz W step H input out Hf Hx.
  destruct (xl_rows_ok (xl_row peek adv f W) step (W * osz) (xl_row_len peek adv f osz Hf W) H input 0%Z out Hx) as [Hl Hr].
  split; [exact Hl|]. intros R X HR HX. specialize (Hr R HR).
  destruct (xl_row_ok peek adv f osz Hf W _ _ _ Hr) as [_ Hp]. destruct (Hp X HX) as [A B].
  rewrite skipn_skipn' in A. split; [exact A|].
  unfold nslice in *. rewrite skipn_skipn' in B. rewrite B. f_equal.
  rewrite firstn_skipn_firstn by nia. rewrite skipn_skipn'. f_equal. f_equal. lia.
Qed.

Lemma area_total : forall peek adv f W step H input,
  (forall v, f v <> None) ->
  (forall R X, R < H -> X < W -> peek <= length (skipn (R * step + X * adv) input)) ->
  exists out, xl_rows (xl_row peek adv f W) step H input 0 = XOk out.
Proof.
  intros peek adv f W step H input Hf Hin. apply xl_rows_total. intros R HR.
  apply xl_row_total; [|assumption]. intros X HX. rewrite skipn_skipn'. apply Hin; assumption.
Qed.

Lemma area_fault : forall peek adv f W step H input k,
  xl_rows (xl_row peek adv f W) step H input 0 = XFault k ->
  exists R X, R < H /\ X < W /\ length (skipn (R * step + X * adv) input) < peek /\
              k = (Z.of_nat (R * step + X * adv) + Z.of_nat (length (skipn (R * step + X * adv) input)))%Z.
Proof.
  intros peek adv f W step H input k Hx.
  destruct (xl_rows_fault _ _ _ _ _ _ Hx) as (R & HR & Hf).
  destruct (xl_row_fault _ _ _ _ _ _ _ Hf) as (X & HX & Hl & Hk).
  rewrite skipn_skipn' in Hl, Hk. exists R, X. repeat split; try assumption. rewrite Hk. lia.
Qed.

Local Open Scope Z_scope.

(* ------------------------------------------------------------------ one pixel: table entry = rule *)
Lemma pixel_fn_len : forall st sf cf cm v ob, pixel_fn st sf cf cm v = Some ob -> length ob = Z.to_nat (bpp cf / 8).
Proof.
  intros st sf cf cm v ob H. unfold pixel_fn in H.
  destruct (out_value st sf cf cm _); [|discriminate]. inversion H. apply le_bytes_length.
Qed.

Lemma client_shifts_lt32 : forall cf kr kg kb, (bpp cf = 8 \/ bpp cf = 16 \/ bpp cf = 32) -> fmt_wf cf kr kg kb ->
  0 <= rs cf < 32 /\ 0 <= gs cf < 32 /\ 0 <= bs cf < 32.
Proof. intros cf kr kg kb Hb [[? _] [? _] [? _] ? ? ? _ _ _]. lia. Qed.

Lemma single_entry_rule : forall sf cf ikr ikg ikb okr okg okb v,
  fmt_wf sf ikr ikg ikb -> fmt_wf cf okr okg okb -> (bpp cf = 8 \/ bpp cf = 16 \/ bpp cf = 32) ->
  arith_ok sf cf -> be sf = false ->
  le_bytes (Z.to_nat (bpp cf / 8)) (tc_single_entry sf cf v) = client_bytes cf (rule_pixel sf cf v).
Proof.
  intros sf cf ikr ikg ikb okr okg okb v Hs Hc Hb Hov Hbe.
  unfold tc_single_entry. rewrite (tc_value_rule sf cf _ _ _ _ _ _ Hs Hc Hov).
  pose proof (rule_lor_range sf cf _ _ _ _ _ _ Hs Hc v) as Hr.
  rewrite u_of_small by assumption. rewrite entry_bytes_client by assumption.
  rewrite (rule_lor_sum sf cf _ _ _ _ _ _ Hs Hc). reflexivity.
Qed.

Lemma pixel_fn_rule : forall st sf cf cm v,
  (st = SSingleTC \/ st = SRGB) -> server_ok sf -> client_ok cf -> arith_ok sf cf -> be sf = false ->
  pixel_fn st sf cf cm v =
  Some (client_bytes cf (rule_pixel sf cf (if bpp sf =? 24 then Z.land v 16777215 else v))).
Proof.
  intros st sf cf cm v Hst (Htc & Hsb & ikr & ikg & ikb & Hs) (Hcb & okr & okg & okb & Hc) Hov Hbe.
  unfold pixel_fn. set (v' := if bpp sf =? 24 then Z.land v 16777215 else v).
  destruct Hst as [-> | ->]; unfold out_value.
  - f_equal. eapply single_entry_rule; eassumption.
  - destruct (client_shifts_lt32 cf _ _ _ Hcb Hc) as (?&?&?).
    rewrite strategies_same_value by assumption. f_equal. eapply single_entry_rule; eassumption.
Qed.

(* ------------------------------------------------------------------ Z <-> nat plumbing *)
Lemma to_nat_lin : forall a b c d, 0 <= a -> 0 <= b -> 0 <= c -> 0 <= d ->
  Z.to_nat (a * b + c * d) = (Z.to_nat a * Z.to_nat b + Z.to_nat c * Z.to_nat d)%nat.
Proof. intros. rewrite Z2Nat.inj_add, !Z2Nat.inj_mul by nia. reflexivity. Qed.

Lemma to_nat_lin2 : forall a b c d, 0 <= a -> 0 <= b -> 0 <= c -> 0 <= d ->
  Z.to_nat ((a * b + c) * d) = ((Z.to_nat a * Z.to_nat b + Z.to_nat c) * Z.to_nat d)%nat.
Proof. intros. rewrite Z2Nat.inj_mul, Z2Nat.inj_add, Z2Nat.inj_mul by nia. reflexivity. Qed.

Lemma slice_nslice : forall l off len, slice l off len = nslice l (Z.to_nat off) (Z.to_nat len).
Proof. reflexivity. Qed.

Lemma bpp8 : forall b, (b = 8 \/ b = 16 \/ b = 24 \/ b = 32) -> b / 8 = 1 \/ b / 8 = 2 \/ b / 8 = 3 \/ b / 8 = 4.
Proof. intros b [->|[->|[->| ->]]]; compute; auto. Qed.

(* the translate function as a walk, with every guard of [translate_fn] discharged *)
Lemma translate_fn_walk : forall st sf cf cm stride w h input res,
  st <> SNone -> bpp cf <> 24 -> translate_fn st sf cf cm stride w h input = res ->
  (exists u, res = XUndef u) \/
  (0 <= stride /\ 0 <= w /\ 0 <= h /\ (bpp sf = 24 -> load24_bytes = 3 \/ load24_bytes = 4) /\
   res = xl_rows (xl_row (Z.to_nat (if bpp sf =? 24 then load24_bytes else bpp sf / 8)) (Z.to_nat (bpp sf / 8))
                         (pixel_fn st sf cf cm) (Z.to_nat w))
                 (Z.to_nat (row_step sf stride)) (Z.to_nat h) input 0).
Proof.
  intros st sf cf cm stride w h input res Hst H24 H. unfold translate_fn in H.
  destruct (stride <? 0) eqn:E1; [left; eexists; symmetry; exact H|].
  destruct ((w <? 0) || (h <? 0)) eqn:E2; [left; eexists; symmetry; exact H|].
  apply orb_false_iff in E2. destruct E2 as [E2 E3].
  replace (bpp cf =? 24) with false in H by lia.
  destruct st; [contradiction| | |];
    try (destruct (zero_max sf); [left; eexists; symmetry; exact H|]);
    (destruct ((bpp sf =? 24) && negb ((load24_bytes =? 3) || (load24_bytes =? 4))) eqn:E5;
       [left; eexists; symmetry; exact H|]);
    right; (split; [lia|]); (split; [lia|]); (split; [lia|]);
    (split; [intros E24; rewrite E24, Z.eqb_refl, andb_true_l in E5; apply negb_false_iff, orb_true_iff in E5; lia|]);
    rewrite <- H; unfold row_step; reflexivity.
Qed.

(* ------------------------------------------------------------------ C10_rule *)
Theorem translate_rule : forall st sf cf cm stride w h input out,
  (st = SSingleTC \/ st = SRGB) -> server_ok sf -> client_ok cf -> arith_ok sf cf -> be sf = false ->
  bytes_ok input ->
  translate_fn st sf cf cm stride w h input = XOk out ->
  forall r x, 0 <= r < h -> 0 <= x < w ->
    slice out ((r * w + x) * (bpp cf / 8)) (bpp cf / 8) =
    client_bytes cf (rule_pixel sf cf (src_pixel sf input (r * row_step sf stride + x * (bpp sf / 8)))).
Proof.
  intros st sf cf cm stride w h input out Hst Hs Hc Hov Hbe Hin Hx r x Hr Hxx.
  assert (Hst' : st <> SNone) by (destruct Hst as [-> | ->]; discriminate).
  assert (H24 : bpp cf <> 24) by (destruct Hc as [[E|[E|E]] _]; lia).
  destruct (translate_fn_walk _ _ _ _ _ _ _ _ _ Hst' H24 Hx) as [[u Hu]|(H0 & H1 & H2 & HL & Hw)]; [discriminate|].
  symmetry in Hw.
  destruct (area_pixel _ _ _ _ _ _ _ _ _ (pixel_fn_len st sf cf cm) Hw) as [Hl Hp].
  specialize (Hp (Z.to_nat r) (Z.to_nat x) ltac:(lia) ltac:(lia)). destruct Hp as [Hpk Hp].
  rewrite (pixel_fn_rule st sf cf cm _ Hst Hs Hc Hov Hbe) in Hp. inversion Hp as [Hp']. clear Hp.
  destruct Hs as (Htc & Hsb & ikr & ikg & ikb & Hs). destruct Hc as (Hcb & okr & okg & okb & Hc).
  assert (Hstep : 0 <= row_step sf stride).
  { unfold row_step. destruct (bpp sf =? 24); [lia|]. destruct (bpp8 _ Hsb) as [E|[E|[E|E]]]; rewrite E; Z.div_mod_to_equations; nia. }
  assert (Hisz : 0 <= bpp sf / 8) by (destruct (bpp8 _ Hsb) as [E|[E|[E|E]]]; lia).
  assert (Hosz : 0 <= bpp cf / 8) by (destruct Hcb as [E|[E|E]]; rewrite E; compute; discriminate).
  rewrite slice_nslice. rewrite to_nat_lin2 by lia. rewrite <- Hp'. f_equal. f_equal.
  unfold src_pixel. rewrite slice_nslice. rewrite to_nat_lin by lia.
  destruct (bpp sf =? 24) eqn:E24.
  - apply Z.eqb_eq in E24. rewrite E24 in *. change (24 / 8) with 3 in *.
    change (Z.to_nat 3) with 3%nat in *.
    destruct (HL eq_refl) as [EL|EL]; rewrite EL in *.
    + change (Z.to_nat 3) with 3%nat in *. rewrite le_val_mask24_3.
      * unfold nslice. rewrite firstn_firstn. reflexivity.
      * unfold nslice. apply bytes_ok_firstn, bytes_ok_skipn. assumption.
      * unfold nslice. apply firstn_length_le. assumption.
    + change (Z.to_nat 4) with 4%nat in *. rewrite le_val_mask24.
      * unfold nslice. rewrite firstn_firstn. reflexivity.
      * unfold nslice. apply bytes_ok_firstn, bytes_ok_skipn. assumption.
      * unfold nslice. apply firstn_length_le. assumption.
  - reflexivity.
Qed.

(* what the client decodes from the translated pixel: each component, taken with the client's shift
   and max, is the rescaled source component; the pixel fits bpp bits; no other bit is set *)
Theorem rule_pixel_components : forall sf cf p, server_ok sf -> client_ok cf ->
  comp (rule_pixel sf cf p) (rs cf) (rmax cf) = scale_spec (comp p (rs sf) (rmax sf)) (rmax sf) (rmax cf) /\
  comp (rule_pixel sf cf p) (gs cf) (gmax cf) = scale_spec (comp p (gs sf) (gmax sf)) (gmax sf) (gmax cf) /\
  comp (rule_pixel sf cf p) (bs cf) (bmax cf) = scale_spec (comp p (bs sf) (bmax sf)) (bmax sf) (bmax cf) /\
  0 <= rule_pixel sf cf p < 2 ^ bpp cf /\
  0 <= scale_spec (comp p (rs sf) (rmax sf)) (rmax sf) (rmax cf) <= rmax cf /\
  0 <= scale_spec (comp p (gs sf) (gmax sf)) (gmax sf) (gmax cf) <= gmax cf /\
  0 <= scale_spec (comp p (bs sf) (bmax sf)) (bmax sf) (bmax cf) <= bmax cf.
Proof.
  intros sf cf p (Htc & Hsb & ikr & ikg & ikb & Hs) (Hcb & okr & okg & okb & Hc).
  pose proof (sc_r_bound sf cf _ _ _ _ _ _ Hs Hc p) as Br. pose proof (sc_g_bound sf cf _ _ _ _ _ _ Hs Hc p) as Bg.
  pose proof (sc_b_bound sf cf _ _ _ _ _ _ Hs Hc p) as Bb.
  rewrite <- (rule_lor_sum sf cf _ _ _ _ _ _ Hs Hc). unfold rule_lor.
  rewrite (decode_r cf _ _ _ Hc), (decode_g cf _ _ _ Hc), (decode_b cf _ _ _ Hc) by assumption.
  pose proof (fields_range cf _ _ _ Hc _ _ _ Br Bg Bb).
  destruct Hc as [[_ Er] [_ Eg] [_ Eb] _ _ _ _ _ _]. unfold sc_r, sc_g, sc_b in *.
  repeat split; try reflexivity; lia.
Qed.

(* ------------------------------------------------------------------ C10_strategies_agree *)
Theorem strategies_agree : forall sf cf cm stride w h input,
  (bpp cf = 8 \/ bpp cf = 16 \/ bpp cf = 32) ->
  0 <= rs cf < 32 -> 0 <= gs cf < 32 -> 0 <= bs cf < 32 ->
  translate_fn SRGB sf cf cm stride w h input = translate_fn SSingleTC sf cf cm stride w h input.
Proof.
  intros sf cf cm stride w h input Hb Hr Hg Hbb. unfold translate_fn.
  destruct (stride <? 0); [reflexivity|]. destruct ((w <? 0) || (h <? 0)); [reflexivity|].
  replace (bpp cf =? 24) with false by lia. destruct (zero_max sf); [reflexivity|].
  destruct ((bpp sf =? 24) && negb ((load24_bytes =? 3) || (load24_bytes =? 4))); [reflexivity|].
  apply xl_rows_ext. intros l off. apply xl_row_ext. intros v.
  unfold pixel_fn, out_value. rewrite strategies_same_value by assumption. reflexivity.
Qed.

(* ------------------------------------------------------------------ rfbSetTranslateFunction *)
Lemma setup_none_iff : forall econ sf cf cf' st msg,
  set_translate econ sf cf = SetupOk cf' st msg ->
  (st = SNone <-> pf_eq cf' sf = true).
Proof.
  intros econ sf cf cf' st msg H. unfold set_translate in H.
  destruct (negb (valid_bpp (bpp sf))); [discriminate|].
  destruct (negb (valid_bpp (bpp cf))); [discriminate|].
  destruct (negb (tc cf) && negb (bpp cf =? 8)); [discriminate|].
  destruct (pf_eq (if tc cf then cf else bgr233) sf) eqn:E.
  - inversion H; subst. split; auto.
  - destruct ((bpp sf <? 16) || (negb (tc sf) || negb econ) && (bpp sf =? 16)).
    + destruct (tc sf).
      * destruct (zero_max sf); [discriminate|]. inversion H; subst. rewrite E. split; intro; discriminate.
      * inversion H; subst. rewrite E. split; intro; discriminate.
    + destruct (zero_max sf); [discriminate|]. inversion H; subst. rewrite E. split; intro; discriminate.
Qed.

(* a successful setup for a true-colour server selects the verbatim copy or one of the two table
   strategies; the effective client format is the requested one or BGR233 (with the map sent) *)
Lemma setup_cases : forall econ sf cf cf' st msg,
  set_translate econ sf cf = SetupOk cf' st msg ->
  ((tc cf = true /\ cf' = cf /\ msg = []) \/ (tc cf = false /\ bpp cf = 8 /\ cf' = bgr233 /\ msg = bgr233_msg)) /\
  (st = SNone \/ (tc sf = true /\ st = SSingleTC /\ bpp sf <= 16) \/ (tc sf = false /\ st = SSingleCM /\ bpp sf <= 16) \/
   (st = SRGB /\ 16 <= bpp sf)).
Proof.
  intros econ sf cf cf' st msg H. unfold set_translate in H.
  destruct (negb (valid_bpp (bpp sf))); [discriminate|].
  destruct (negb (valid_bpp (bpp cf))); [discriminate|].
  destruct (negb (tc cf) && negb (bpp cf =? 8)) eqn:E3; [discriminate|].
  assert (A : (tc cf = true /\ (if tc cf then cf else bgr233) = cf /\ (if tc cf then [] else bgr233_msg) = []) \/
              (tc cf = false /\ bpp cf = 8 /\ (if tc cf then cf else bgr233) = bgr233 /\ (if tc cf then [] else bgr233_msg) = bgr233_msg)).
  { destruct (tc cf); [left; auto|]. right. simpl in E3. apply negb_false_iff in E3. apply Z.eqb_eq in E3. auto. }
  destruct (pf_eq (if tc cf then cf else bgr233) sf).
  - inversion H; subst. split; [exact A|]. left; reflexivity.
  - destruct ((bpp sf <? 16) || (negb (tc sf) || negb econ) && (bpp sf =? 16)) eqn:E4.
    + assert (bpp sf <= 16).
      { apply orb_true_iff in E4. destruct E4 as [E4|E4]; [lia|]. apply andb_true_iff in E4. lia. }
      destruct (tc sf).
      * destruct (zero_max sf); [discriminate|]. inversion H; subst. split; [exact A|]. right; left; auto.
      * inversion H; subst. split; [exact A|]. right; right; left; auto.
    + apply orb_false_iff in E4. destruct E4 as [E4 E5].
      destruct (zero_max sf); [discriminate|]. inversion H; subst. split; [exact A|]. right; right; right. split; [reflexivity|lia].
Qed.
