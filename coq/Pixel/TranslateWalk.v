(* C10 - the row / area walks of the mirror model: indexing, lengths, loads *)
From Coq Require Import ZArith List Bool Lia Arith.
From LV Require Import Gen.Consts_C10 Pixel.Translate.
Import ListNotations.
Local Open Scope nat_scope.

(* ------------------------------------------------------------------ lists *)
Lemma skipn_skipn' : forall (A : Type) (a b : nat) (l : list A), skipn a (skipn b l) = skipn (b + a) l.
Proof.
  intros A a b. induction b as [|b IH]; intros l; simpl; [reflexivity|].
  destruct l; [destruct a; reflexivity|]. apply IH.
Qed.

Lemma firstn_skipn_firstn : forall (A : Type) (a b c : nat) (l : list A), a + b <= c ->
  firstn a (skipn b (firstn c l)) = firstn a (skipn b l).
Proof.
  intros A a b c l H. rewrite skipn_firstn_comm, firstn_firstn. f_equal. lia.
Qed.

Lemma take_some : forall n l p, take n l = Some p -> n <= length l /\ p = firstn n l.
Proof.
  induction n as [|n IH]; intros l p H; simpl in *.
  - inversion H. split; [lia|reflexivity].
  - destruct l as [|b t]; [discriminate|]. destruct (take n t) eqn:E; [|discriminate].
    inversion H; subst. destruct (IH _ _ E) as [H1 H2]. simpl. split; [lia|]. f_equal. assumption.
Qed.

Lemma take_none : forall n l, take n l = None -> length l < n.
Proof.
  induction n as [|n IH]; intros l H; simpl in *; [discriminate|].
  destruct l as [|b t]; simpl; [lia|]. destruct (take n t) eqn:E; [discriminate|]. apply IH in E. lia.
Qed.

Lemma take_firstn : forall n l, n <= length l -> take n l = Some (firstn n l).
Proof.
  intros n l H. destruct (take n l) eqn:E.
  - apply take_some in E. destruct E as [_ ->]. reflexivity.
  - apply take_none in E. lia.
Qed.

Definition nslice (l : list Z) (off len : nat) : list Z := firstn len (skipn off l).

Lemma nslice_app_l : forall (a b : list Z) len, len = length a -> nslice (a ++ b) 0 len = a.
Proof. intros a b len ->. unfold nslice. simpl. rewrite firstn_app, Nat.sub_diag, firstn_all. simpl. apply app_nil_r. Qed.

Lemma nslice_app_r : forall (a b : list Z) off len, nslice (a ++ b) (length a + off) len = nslice b off len.
Proof.
  intros a b off len. unfold nslice. rewrite skipn_app.
  rewrite (skipn_all2 a) by lia. simpl. f_equal. f_equal. lia.
Qed.

(* ------------------------------------------------------------------ one row *)
Section Row.
  Variables (peek adv : nat) (f : Z -> option (list Z)) (osz : nat).
  Hypothesis f_len : forall v ob, f v = Some ob -> length ob = osz.

  Lemma xl_row_ok : forall n l off out, xl_row peek adv f n l off = XOk out ->
    length out = n * osz /\
    forall x, x < n ->
      peek <= length (skipn (x * adv) l) /\
      f (le_val (nslice l (x * adv) peek)) = Some (nslice out (x * osz) osz).
  Proof.
    induction n as [|n IH]; intros l off out H; simpl in H.
    - inversion H; subst. split; [reflexivity|]. intros x Hx. lia.
    - destruct (take peek l) as [px|] eqn:Et; [|discriminate].
      destruct (f (le_val px)) as [ob|] eqn:Ef; [|discriminate].
      destruct (xl_row peek adv f n (skipn adv l) (off + Z.of_nat adv)) as [o| |] eqn:Er; try discriminate.
      inversion H; subst out. clear H.
      destruct (IH _ _ _ Er) as [Hl Hx]. pose proof (f_len _ _ Ef) as Hob.
      apply take_some in Et. destruct Et as [Hp ->].
      split; [rewrite app_length; lia|].
      intros x Hlt. destruct x as [|x].
      + simpl. split; [assumption|]. rewrite nslice_app_l by (symmetry; assumption). exact Ef.
      + destruct (Hx x ltac:(lia)) as [H1 H2].
        rewrite skipn_skipn' in H1. replace (adv + x * adv) with (S x * adv) in H1 by lia.
        split; [assumption|].
        replace (S x * osz) with (length ob + x * osz) by lia. rewrite nslice_app_r.
        unfold nslice in *. rewrite skipn_skipn' in H2. replace (adv + x * adv) with (S x * adv) in H2 by lia.
        exact H2.
  Qed.

  (* no fault and no undefined entry when every load is inside the buffer and f is defined *)
  Lemma xl_row_total : forall n l off,
    (forall x, x < n -> peek <= length (skipn (x * adv) l)) ->
    (forall v, f v <> None) ->
    exists out, xl_row peek adv f n l off = XOk out.
  Proof.
    induction n as [|n IH]; intros l off Hin Hf; simpl.
    - eexists; reflexivity.
    - pose proof (Hin 0 ltac:(lia)) as H0. simpl in H0. rewrite take_firstn by assumption.
      destruct (f (le_val (firstn peek l))) as [ob|] eqn:Ef; [|exfalso; eapply Hf; eassumption].
      destruct (IH (skipn adv l) (off + Z.of_nat adv)%Z) as [o Ho].
      + intros x Hx. rewrite skipn_skipn'. replace (adv + x * adv) with (S x * adv) by lia. apply Hin. lia.
      + assumption.
      + rewrite Ho. eexists; reflexivity.
  Qed.

  (* a fault is a load that crosses the end of the buffer; it is reported at the first
     inaccessible byte *)
  Lemma xl_row_fault : forall n l off k, xl_row peek adv f n l off = XFault k ->
    exists x, x < n /\ length (skipn (x * adv) l) < peek /\
              k = (off + Z.of_nat (x * adv) + Z.of_nat (length (skipn (x * adv) l)))%Z.
  Proof.
    induction n as [|n IH]; intros l off k H; simpl in H; [discriminate|].
    destruct (take peek l) as [px|] eqn:Et.
    - destruct (f (le_val px)) as [ob|] eqn:Ef; [|discriminate].
      destruct (xl_row peek adv f n (skipn adv l) (off + Z.of_nat adv)) as [o|k'|] eqn:Er; try discriminate.
      inversion H; subst k'. destruct (IH _ _ _ Er) as (x & Hx & Hl & Hk).
      exists (S x). rewrite skipn_skipn' in Hl, Hk. replace (adv + x * adv) with (S x * adv) in * by lia.
      split; [lia|]. split; [assumption|]. rewrite Hk. lia.
    - inversion H; subst k. exists 0. simpl. apply take_none in Et. split; [lia|]. split; [assumption|]. lia.
  Qed.
End Row.

(* ------------------------------------------------------------------ rows *)
Section Rows.
  Variables (row : list Z -> Z -> xres) (step rowlen : nat).
  Hypothesis row_len : forall l off o, row l off = XOk o -> length o = rowlen.

  Lemma xl_rows_ok : forall h l off out, xl_rows row step h l off = XOk out ->
    length out = h * rowlen /\
    forall r, r < h -> row (skipn (r * step) l) (off + Z.of_nat (r * step))%Z = XOk (nslice out (r * rowlen) rowlen).
  Proof.
    induction h as [|h IH]; intros l off out H; simpl in H.
    - inversion H; subst. split; [reflexivity|]. intros; lia.
    - destruct (row l off) as [o1| |] eqn:E1; try discriminate.
      destruct (xl_rows row step h (skipn step l) (off + Z.of_nat step)) as [o2| |] eqn:E2; try discriminate.
      inversion H; subst out. clear H. destruct (IH _ _ _ E2) as [Hl Hr]. pose proof (row_len _ _ _ E1) as Ho.
      split; [rewrite app_length; lia|].
      intros r Hlt. destruct r as [|r].
      + simpl. rewrite nslice_app_l by (symmetry; assumption). rewrite Z.add_0_r. exact E1.
      + specialize (Hr r ltac:(lia)). rewrite skipn_skipn' in Hr.
        replace (step + r * step) with (S r * step) in Hr by lia.
        replace (S r * rowlen) with (length o1 + r * rowlen) by lia. rewrite nslice_app_r.
        replace (off + Z.of_nat (S r * step))%Z with (off + Z.of_nat step + Z.of_nat (r * step))%Z by lia.
        exact Hr.
  Qed.

  Lemma xl_rows_total : forall h l off,
    (forall r, r < h -> exists o, row (skipn (r * step) l) (off + Z.of_nat (r * step))%Z = XOk o) ->
    exists out, xl_rows row step h l off = XOk out.
  Proof.
    induction h as [|h IH]; intros l off Hin; simpl.
    - eexists; reflexivity.
    - destruct (Hin 0 ltac:(lia)) as [o1 H1]. simpl in H1. rewrite Z.add_0_r in H1. rewrite H1.
      destruct (IH (skipn step l) (off + Z.of_nat step)%Z) as [o2 H2].
      + intros r Hr. destruct (Hin (S r) ltac:(lia)) as [o Ho]. exists o.
        rewrite skipn_skipn'. replace (step + r * step) with (S r * step) by lia.
        replace (off + Z.of_nat step + Z.of_nat (r * step))%Z with (off + Z.of_nat (S r * step))%Z by lia. exact Ho.
      + rewrite H2. eexists; reflexivity.
  Qed.

  Lemma xl_rows_fault : forall h l off k, xl_rows row step h l off = XFault k ->
    exists r, r < h /\ row (skipn (r * step) l) (off + Z.of_nat (r * step))%Z = XFault k.
  Proof.
    induction h as [|h IH]; intros l off k H; simpl in H; [discriminate|].
    destruct (row l off) as [o1|k1|] eqn:E1; try discriminate.
    - destruct (xl_rows row step h (skipn step l) (off + Z.of_nat step)) as [o2|k2|] eqn:E2; try discriminate.
      inversion H; subst k2. destruct (IH _ _ _ E2) as (r & Hr & Hf). exists (S r). split; [lia|].
      rewrite skipn_skipn' in Hf. replace (step + r * step) with (S r * step) in Hf by lia.
      replace (off + Z.of_nat (S r * step))%Z with (off + Z.of_nat step + Z.of_nat (r * step))%Z by lia. exact Hf.
    - inversion H; subst k1. exists 0. split; [lia|]. simpl. rewrite Z.add_0_r. exact E1.
  Qed.
End Rows.

Lemma copy_row_len : forall n l off o, copy_row n l off = XOk o -> length o = n.
Proof.
  intros n l off o H. unfold copy_row in H. destruct (take n l) eqn:E; [|discriminate].
  inversion H; subst. apply take_some in E. destruct E as [Hl ->]. apply firstn_length_le. assumption.
Qed.

Lemma copy_row_ok : forall n l off o, copy_row n l off = XOk o -> n <= length l /\ o = firstn n l.
Proof.
  intros n l off o H. unfold copy_row in H. destruct (take n l) eqn:E; [|discriminate].
  inversion H; subst. apply take_some in E. assumption.
Qed.

(* ------------------------------------------------------------------ little-endian values *)
Lemma le_bytes_length : forall n v, length (le_bytes n v) = n.
Proof. induction n; intros; simpl; [reflexivity|]. rewrite IHn. reflexivity. Qed.

Local Open Scope Z_scope.

Lemma le_val_range : forall l, bytes_ok l -> 0 <= le_val l < 256 ^ Z.of_nat (length l).
Proof.
  induction l as [|b t IH]; intros H; cbn [le_val length].
  - simpl. lia.
  - inversion H as [|? ? Hb Ht]; subst. specialize (IH Ht).
    rewrite Nat2Z.inj_succ, Z.pow_succ_r by lia. lia.
Qed.

Lemma bytes_ok_firstn : forall n l, bytes_ok l -> bytes_ok (firstn n l).
Proof.
  intros n l H. unfold bytes_ok in *. rewrite <- (firstn_skipn n l) in H.
  apply Forall_app in H. tauto.
Qed.

Lemma bytes_ok_skipn : forall n l, bytes_ok l -> bytes_ok (skipn n l).
Proof.
  intros n l H. unfold bytes_ok in *. rewrite <- (firstn_skipn n l) in H.
  apply Forall_app in H. tauto.
Qed.

(* the 24-bpp load: 4 bytes, masked to 24 bits = the 3 bytes of the pixel *)
Lemma le_val_mask24_3 : forall l, bytes_ok l -> length l = 3%nat ->
  Z.land (le_val l) 16777215 = le_val (firstn 3 l).
Proof.
  intros l H Hl. destruct l as [|b0 [|b1 [|b2 [|]]]]; try discriminate.
  change 16777215 with (Z.ones 24). rewrite Z.land_ones by lia. cbn [le_val firstn].
  inversion H as [|? ? A0 H0]; subst. inversion H0 as [|? ? A1 H1]; subst.
  inversion H1 as [|? ? A2 H2]; subst.
  change (2 ^ 24) with 16777216. Z.div_mod_to_equations. lia.
Qed.

Lemma le_val_mask24 : forall l, bytes_ok l -> length l = 4%nat ->
  Z.land (le_val l) 16777215 = le_val (firstn 3 l).
Proof.
  intros l H Hl. destruct l as [|b0 [|b1 [|b2 [|b3 [|]]]]]; try discriminate.
  change 16777215 with (Z.ones 24). rewrite Z.land_ones by lia. cbn [le_val firstn].
  inversion H as [|? ? A0 H0]; subst. inversion H0 as [|? ? A1 H1]; subst.
  inversion H1 as [|? ? A2 H2]; subst. inversion H2 as [|? ? A3 H3]; subst.
  change (2 ^ 24) with 16777216. Z.div_mod_to_equations. lia.
Qed.

(* ------------------------------------------------------------------ extensionality of the walks *)
Lemma xl_row_ext : forall peek adv f g, (forall v, f v = g v) ->
  forall n l off, xl_row peek adv f n l off = xl_row peek adv g n l off.
Proof.
  intros peek adv f g Hfg. induction n as [|n IH]; intros l off; simpl; [reflexivity|].
  destruct (take peek l); [|reflexivity]. rewrite Hfg. destruct (g (le_val l0)); [|reflexivity].
  rewrite IH. reflexivity.
Qed.

Lemma xl_rows_ext : forall row1 row2 step, (forall l off, row1 l off = row2 l off) ->
  forall h l off, xl_rows row1 step h l off = xl_rows row2 step h l off.
Proof.
  intros row1 row2 step Hr. induction h as [|h IH]; intros l off; simpl; [reflexivity|].
  rewrite Hr. destruct (row2 l off); try reflexivity. rewrite IH. reflexivity.
Qed.
