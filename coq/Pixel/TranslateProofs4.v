(* C10 - proofs, part 4 (audit follow-up): dead single-table functions for 24-bpp servers, table index
   bounds and table sizes, read set of the verbatim function, rounding to nearest, stored flag bytes *)
From Coq Require Import ZArith List Bool Lia Arith.
From LV Require Import Gen.Consts_C10 Pixel.Translate Pixel.TranslateBits Pixel.TranslateRule Pixel.TranslateWalk
                       Pixel.TranslateProofs Pixel.TranslateProofs2 Pixel.TranslateProofs3.
Import ListNotations.
Local Open Scope Z_scope.

(* ------------------------------------------------------------------ item 2: single table never for 24-bpp servers *)
Theorem single_table_not_for_24 : forall econ sf cf cf' st msg,
  set_translate econ sf cf = SetupOk cf' st msg -> 16 < bpp sf -> st = SNone \/ st = SRGB.
Proof.
  intros econ sf cf cf' st msg H Hb. destruct (setup_cases _ _ _ _ _ _ H) as [_ Hc].
  destruct Hc as [E|[(_ & _ & E)|[(_ & _ & E)|(E & _)]]]; auto; lia.
Qed.

(* ------------------------------------------------------------------ item 3: table indices and sizes *)
Lemma land_le_r : forall x m, 0 <= m -> 0 <= Z.land x m <= m.
Proof.
  intros x m Hm. split; [apply Z.land_nonneg; auto|].
  assert (E : m = Z.ldiff m x + Z.land m x).
  { rewrite <- lor_disjoint_add.
    - symmetry. apply Z.lor_ldiff_and.
    - rewrite (Z.land_comm m x), Z.land_assoc, Z.land_ldiff. reflexivity. }
  assert (0 <= Z.ldiff m x) by (apply Z.ldiff_nonneg; auto).
  rewrite (Z.land_comm x m). lia.
Qed.

(* the index into each of the three tables is below its number of entries (inMax + 1), for ANY source
   value and any shift: no well-formedness needed *)
Theorem rgb_index_in_table : forall v s m, 0 <= m -> 0 <= comp v s m < m + 1.
Proof. intros v s m Hm. unfold comp. pose proof (land_le_r (Z.shiftr v s) m Hm). lia. Qed.

(* the index into the single table is the loaded pixel: below 2^bpp entries *)
Theorem single_index_in_table : forall l, bytes_ok l -> 0 <= le_val l < 2 ^ (8 * Z.of_nat (length l)).
Proof.
  intros l H. pose proof (le_val_range l H) as R.
  replace (2 ^ (8 * Z.of_nat (length l))) with (256 ^ Z.of_nat (length l)); [exact R|].
  change 256 with (2 ^ 8). rewrite <- Z.pow_mul_r by lia. reflexivity.
Qed.

Lemma zseq_from_length : forall k a, length (zseq_from k a) = k.
Proof. induction k; intros; simpl; [reflexivity|]. rewrite IHk. reflexivity. Qed.

Lemma flat_map_const_length : forall (f : Z -> list Z) k l,
  (forall x, length (f x) = k) -> length (flat_map f l) = (length l * k)%nat.
Proof.
  intros f k l Hf. induction l as [|x l IH]; simpl; [reflexivity|].
  rewrite app_length, IH, Hf. lia.
Qed.

(* number of bytes of the malloc'ed table = number of entries x client pixel size *)
Theorem table_bytes_size : forall sf cf cm,
  (bpp cf = 8 \/ bpp cf = 16 \/ bpp cf = 32) -> 0 <= bpp sf -> 0 <= rmax sf -> 0 <= gmax sf -> 0 <= bmax sf ->
  Z.of_nat (length (table_bytes SSingleTC sf cf cm)) = 2 ^ bpp sf * (bpp cf / 8) /\
  Z.of_nat (length (table_bytes SRGB sf cf cm)) = (rmax sf + gmax sf + bmax sf + 3) * (bpp cf / 8).
Proof.
  intros sf cf cm Hc Hs Hr Hg Hb. unfold table_bytes.
  replace (bpp cf =? 24) with false by lia.
  assert (0 <= bpp cf / 8) by (destruct Hc as [E|[E|E]]; rewrite E; compute; discriminate).
  assert (0 <= 2 ^ bpp sf) by (apply Z.pow_nonneg; lia).
  split.
  - rewrite (flat_map_const_length _ (Z.to_nat (bpp cf / 8))) by (intros; apply le_bytes_length).
    unfold zseq. rewrite zseq_from_length. rewrite Nat2Z.inj_mul, !Z2Nat.id by lia. reflexivity.
  - rewrite !app_length.
    rewrite !(flat_map_const_length _ (Z.to_nat (bpp cf / 8))) by (intros; apply le_bytes_length).
    unfold zseq. rewrite !zseq_from_length.
    rewrite !Nat2Z.inj_add, !Nat2Z.inj_mul, !Z2Nat.id by lia. lia.
Qed.

(* ------------------------------------------------------------------ item 5: read set of the verbatim function *)
Lemma In_zseq' : forall n z, In z (zseq n) <-> 0 <= z < n.
Proof. exact In_zseq. Qed.

Theorem none_reads_inside : forall sf cf cm stride w h input out,
  0 <= bpp cf ->
  translate_fn SNone sf cf cm stride w h input = XOk out ->
  forall o l, In (o, l) (reads_fn SNone sf cf stride w h) -> 0 < l -> 0 <= o /\ o + l <= Z.of_nat (length input).
Proof.
  intros sf cf cm stride w h input out Hb H o l Hin Hl. unfold translate_fn in H.
  destruct (stride <? 0) eqn:E1; [discriminate|].
  destruct ((w <? 0) || (h <? 0)) eqn:E2; [discriminate|]. apply orb_false_iff in E2. destruct E2.
  unfold reads_fn in Hin. apply in_map_iff in Hin. destruct Hin as (r & Er & Hr). apply In_zseq in Hr.
  inversion Er; subst o l. clear Er.
  set (N := Z.to_nat (w * (bpp cf / 8))) in *.
  destruct (xl_rows_ok (copy_row N) (Z.to_nat stride) N (copy_row_len N) _ _ _ _ H) as [_ Hrow].
  specialize (Hrow (Z.to_nat r) ltac:(lia)). apply copy_row_ok in Hrow. destruct Hrow as [Hle _].
  rewrite skipn_length in Hle.
  assert (Z.of_nat N = w * (bpp cf / 8)) by (unfold N; rewrite Z2Nat.id; lia).
  assert (Z.of_nat (Z.to_nat r * Z.to_nat stride) = r * stride) by (rewrite Nat2Z.inj_mul, !Z2Nat.id by lia; reflexivity).
  split; [nia|].
  assert (0 < Z.of_nat N) by lia.
  assert (Z.of_nat N + Z.of_nat (Z.to_nat r * Z.to_nat stride) <= Z.of_nat (length input)) by lia.
  lia.
Qed.

Theorem none_fault_is_read : forall sf cf cm stride w h input k,
  translate_fn SNone sf cf cm stride w h input = XFault k ->
  exists o l, In (o, l) (reads_fn SNone sf cf stride w h) /\ Z.of_nat (length input) < o + l /\
              k = Z.max o (Z.of_nat (length input)).
Proof.
  intros sf cf cm stride w h input k H. unfold translate_fn in H.
  destruct (stride <? 0) eqn:E1; [discriminate|].
  destruct ((w <? 0) || (h <? 0)) eqn:E2; [discriminate|]. apply orb_false_iff in E2. destruct E2.
  set (N := Z.to_nat (w * (bpp cf / 8))) in *.
  destruct (xl_rows_fault _ _ _ _ _ _ H) as (R & HR & Hf).
  unfold copy_row in Hf. destruct (take N (skipn (R * Z.to_nat stride) input)) eqn:Et; [discriminate|].
  apply take_none in Et. rewrite skipn_length in Et. inversion Hf as [Hk]. rewrite skipn_length in Hk.
  assert (Z.of_nat (R * Z.to_nat stride) = Z.of_nat R * stride) by (rewrite Nat2Z.inj_mul, Z2Nat.id by lia; reflexivity).
  assert (0 < N)%nat by lia.
  assert (Z.of_nat N = w * (bpp cf / 8)) by (unfold N; apply Z2Nat.id; unfold N in *; lia).
  exists (Z.of_nat R * stride), (w * (bpp cf / 8)). split; [|split].
  - unfold reads_fn. apply in_map_iff. exists (Z.of_nat R). split; [reflexivity|]. apply In_zseq. lia.
  - lia.
  - rewrite skipn_length. lia.
Qed.

(* ------------------------------------------------------------------ item 6: the C formula rounds to nearest *)
Theorem scale_spec_nearest : forall c i o, 1 <= i -> 0 <= c -> 0 <= o ->
  2 * Z.abs (scale_spec c i o * i - c * o) <= i.
Proof.
  intros c i o Hi Hc Ho. unfold scale_spec.
  assert (0 <= c * o) by nia.
  pose proof (Z.div_mod (c * o + i / 2) i ltac:(lia)) as D.
  pose proof (Z.mod_pos_bound (c * o + i / 2) i ltac:(lia)) as M.
  pose proof (Z.div_mod i 2 ltac:(lia)) as D2. pose proof (Z.mod_pos_bound i 2 ltac:(lia)) as M2.
  set (q := (c * o + i / 2) / i) in *. set (r := (c * o + i / 2) mod i) in *.
  set (hh := i / 2) in *. set (co := c * o) in *.
  assert (E : q * i - co = hh - r) by nia. rewrite E.
  destruct (Z.abs_spec (hh - r)) as [[? ->]|[? ->]]; lia.
Qed.

(* ------------------------------------------------------------------ item 8: stored flag bytes *)
(* every writer of a format flag stores the normalised byte (SetPixelFormat handler: byte ? TRUE : FALSE;
   rfbInitServerFormat: TRUE/FALSE): comparing the stored bytes with == is comparing the booleans the
   model uses, whatever non-zero byte the client sent *)
Theorem stored_flags_compare : forall a b,
  (stored_flag (wire_flag a) =? stored_flag (wire_flag b)) = Bool.eqb (wire_flag a) (wire_flag b).
Proof. intros a b. unfold stored_flag. destruct (wire_flag a), (wire_flag b); reflexivity. Qed.

Theorem wire_flag_nonzero : forall b, wire_flag b = true <-> b <> 0.
Proof. intros b. unfold wire_flag. rewrite negb_true_iff, Z.eqb_neq. tauto. Qed.
