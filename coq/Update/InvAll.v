(* The full invariant of the update model: Inv (convergence) + every client's translation selected for the
   current server format + no copy pending for a client without CopyRect + progressiveSliceY >= 0 + no closed
   client pointing at a freed scaled screen.  Kept by every operation, holds initially, hence in every state
   reachable by well-formed inputs. *)
From LV Require Import Region.RegionDefs Region.RegionSem Region.RegionProofs0 Region.RegionProofs
     Update.UpdateDefs Update.UpdateFacts Update.UpdateProofs0 Update.UpdateProofs Update.UpdateThms Update.NewFB
     Update.Slices Update.Trans Update.Life Update.StateLevel Update.Audit02 Update.NoCopy Update.SliceInv.
Local Open Scope Z_scope.

Definition InvAll (st : state) : Prop :=
  Inv st /\ TransOK st /\ NoCopyInv st /\ SliceOK st /\ NoDangling st.

Theorem step_invall st o st' out : InvAll st -> op_ok st o -> step st o = Some (st', out) -> InvAll st'.
Proof.
  intros (HI & HT & HN & HS & HD) Hok Hs.
  split; [exact (step_inv _ _ _ _ HI Hok Hs)|].
  split; [exact (step_transok _ _ _ _ HI HT Hs)|].
  split; [exact (step_nocopy _ _ _ _ HN Hs)|].
  split; [exact (step_sliceok _ _ _ _ HI HS Hs)|exact (step_nodangling _ _ _ _ HD Hs)].
Qed.

Theorem run_invall ops : forall st st', InvAll st -> run_ok st ops -> run st ops = Some st' -> InvAll st'.
Proof.
  induction ops as [|o t IH]; intros st st' HA Hok Hr; cbn in Hr.
  - inversion Hr; subst. exact HA.
  - destruct Hok as [Ho Hrest]. destruct (step st o) as [[st1 out]|] eqn:Es; [|discriminate].
    apply (IH st1); [exact (step_invall _ _ _ _ HA Ho Es)|exact (Hrest _ _ eq_refl)|exact Hr].
Qed.

Theorem init_invall W H bpp : 0 < W -> 0 < H -> InvAll (init_state W H bpp).
Proof.
  intros HW HH. split; [apply init_inv; assumption|].
  split; [apply init_transok|]. split; [apply init_nocopy|]. split; [apply init_sliceok|apply init_nodangling].
Qed.

(* progressive slicing without a hypothesis on progressiveSliceY: it is part of the invariant *)
Theorem slices_converge_all st c :
  InvAll st -> In c (sClients st) -> NoSoftCursor st c -> sH st <= INT_MAX -> 0 < sSliceH st ->
  no_pix (cC c) -> cUseNewFB c && cNewFBPending c = false -> cScaled c = None ->
  exists c', slice_rounds st c (Z.to_nat (sH st / sSliceH st + 2)) = Some c' /\
             no_pix (cM c') /\
             forall x y, inS (sW st) (sH st) x y -> pic_get (cPic c') x y = fb_for st c x y.
Proof.
  intros (HI & _ & _ & HS & _) Hin Hns Hm Hsl HC Hsz Hsc.
  unfold SliceOK in HS. rewrite Forall_forall in HS.
  apply slices_converge_inv; try assumption. apply (HS c Hin).
Qed.

(* a client without CopyRect is never sent one, in any state of the full invariant *)
Theorem no_copyrect_unless_advertised st c c' n rects :
  InvAll st -> In c (sClients st) -> cUseCopy c = false ->
  send_client st c = Some (c', Some (n, rects)) -> existsb is_wcopy rects = false.
Proof.
  intros (HI & _ & HN & _ & _) Hin Hu Hs.
  unfold NoCopyInv in HN. rewrite Forall_forall in HN.
  apply (no_copy_region_no_copyrect st c c' n rects HI Hin); [|exact Hs].
  rewrite (HN c Hin Hu). reflexivity.
Qed.
