(* Facts about the update model that do not depend on the region algebra lemmas of C11:
   pictures, the rectangle iteration of well-formed regions (membership, non-emptiness,
   order), sequential versus simultaneous copies. *)
From LV Require Import Region.RegionDefs Region.RegionSem Region.RegionProofs0 Region.RegionProofs Update.UpdateDefs.
From Coq Require Import ZifyBool.
Local Open Scope Z_scope.

(* WF, WF_empty, create_rect_wf, offset_wf ... come from Region/RegionProofs.v (C11) *)

(* ------------------------------------------------------------------ zrange, pictures *)
Lemma seq_nth_Z (n k : nat) (d : Z) :
  (k < n)%nat -> nth k (map Z.of_nat (seq 0 n)) d = Z.of_nat k.
Proof.
  intros H. rewrite nth_indep with (d' := Z.of_nat 0%nat) by (rewrite map_length, seq_length; exact H).
  rewrite map_nth, seq_nth by exact H. reflexivity.
Qed.

Lemma zrange_length n : length (zrange n) = Z.to_nat n.
Proof. unfold zrange. rewrite map_length, seq_length. reflexivity. Qed.

Lemma zrange_nth n v d : 0 <= v < n -> nth (Z.to_nat v) (zrange n) d = v.
Proof. intros H. unfold zrange. rewrite seq_nth_Z by lia. lia. Qed.

Lemma zrange_In n v : In v (zrange n) <-> 0 <= v < n.
Proof.
  unfold zrange. rewrite in_map_iff. split.
  - intros (k & Hk & Hin). apply in_seq in Hin. lia.
  - intros H. exists (Z.to_nat v). split; [lia|]. apply in_seq. lia.
Qed.

Lemma nth_map_seq {B} (h : nat -> B) n k d : (k < n)%nat -> nth k (map h (seq 0 n)) d = h k.
Proof.
  intros H. rewrite nth_indep with (d' := h 0%nat) by (rewrite map_length, seq_length; exact H).
  rewrite map_nth, seq_nth by exact H. reflexivity.
Qed.

Lemma nth_map_zrange {B} (g : Z -> B) n v d : 0 <= v < n -> nth (Z.to_nat v) (map g (zrange n)) d = g v.
Proof.
  intros H. unfold zrange. rewrite map_map, nth_map_seq by lia. f_equal. lia.
Qed.

Lemma pic_get_build w h f x y :
  0 <= x < w -> 0 <= y < h -> pic_get (pic_build w h f) x y = f x y.
Proof.
  intros Hx Hy. unfold pic_get, pic_build.
  replace ((x <? 0) || (y <? 0)) with false by lia.
  rewrite nth_map_zrange by lia. rewrite nth_map_zrange by lia. reflexivity.
Qed.

(* ------------------------------------------------------------------ membership via iteration *)
Lemma existsb_rev {A} (f : A -> bool) l : existsb f (rev l) = existsb f l.
Proof.
  induction l as [|a l IH]; [reflexivity|]. cbn [rev]. rewrite existsb_app, IH. cbn.
  rewrite orb_false_r. apply orb_comm.
Qed.

Lemma existsb_flat_map {A B} (f : B -> bool) (g : A -> list B) l :
  existsb f (flat_map g l) = existsb (fun a => existsb f (g a)) l.
Proof.
  induction l as [|a l IH]; [reflexivity|]. cbn. rewrite existsb_app, IH. reflexivity.
Qed.

Lemma existsb_map {A B} (f : B -> bool) (g : A -> B) l :
  existsb f (map g l) = existsb (fun a => f (g a)) l.
Proof. induction l as [|a l IH]; [reflexivity|]. cbn. rewrite IH. reflexivity. Qed.

Lemma existsb_ext' {A} (f g : A -> bool) l : (forall a, f a = g a) -> existsb f l = existsb g l.
Proof. intros H. induction l as [|a l IH]; [reflexivity|]. cbn. rewrite H, IH. reflexivity. Qed.

Definition span_has {A} (v : Z) (sp : span A) : bool := let '(s, e, _) := sp in (s <=? v) && (v <? e).

Lemma x_mem_existsb (xs : xspans) x : x_mem xs x = existsb (span_has x) xs.
Proof.
  unfold x_mem. induction xs as [|[[s e] u] xs IH]; [reflexivity|]. cbn [lookup existsb span_has].
  destruct ((s <=? x) && (x <? e)); [reflexivity|exact IH].
Qed.

(* membership in the rectangles of one band *)
Definition band_has (x y : Z) (sp : span xspans) : bool :=
  let '(s, e, xs) := sp in (s <=? y) && (y <? e) && x_mem xs x.

Lemma rgn_mem_existsb lo P (r : region) x y :
  sorted_from P lo r -> rgn_mem r x y = existsb (band_has x y) r.
Proof.
  revert lo. induction r as [|[[s e] xs] r IH]; intros lo H; [reflexivity|].
  cbn in H. destruct H as (H1 & H2 & H3 & H4).
  unfold rgn_mem in *. cbn [lookup existsb band_has].
  destruct ((s <=? y) && (y <? e)) eqn:E.
  - cbn [andb]. destruct (x_mem xs x); [reflexivity|]. cbn [orb].
    rewrite <- (IH e H4). rewrite (lookup_below _ P e r y H4) by lia. reflexivity.
  - cbn [andb orb]. apply (IH e H4).
Qed.

Lemma iter_existsb rx ry (r : region) x y :
  existsb (fun rc => rect_mem rc x y) (rgn_iter rx ry r) = existsb (band_has x y) r.
Proof.
  unfold rgn_iter. rewrite existsb_flat_map.
  assert (E : forall sp : span xspans,
             existsb (fun rc => rect_mem rc x y)
                     (let '(y1, y2, xs) := sp in
                      map (fun '(x1, x2, _) => (x1, y1, x2, y2)) (if rx then rev xs else xs))
             = band_has x y sp).
  { intros [[s e] xs]. rewrite existsb_map. unfold band_has. rewrite x_mem_existsb.
    transitivity (existsb (fun sp0 : span unit => (s <=? y) && (y <? e) && span_has x sp0) xs).
    - destruct rx; [rewrite existsb_rev|]; apply existsb_ext'; intros [[a b] u]; cbn; lia.
    - induction xs as [|a xs IH]; cbn; [lia|]. rewrite IH.
      destruct ((s <=? y) && (y <? e)); cbn; [reflexivity|]. reflexivity. }
  rewrite (existsb_ext' _ _ _ E).
  destruct ry; [apply existsb_rev|reflexivity].
Qed.

Lemma mem_iter_dir rx ry r x y :
  WF r -> rgn_mem r x y = existsb (fun rc => rect_mem rc x y) (rgn_iter rx ry r).
Proof.
  intros [lo H]. rewrite iter_existsb. apply (rgn_mem_existsb lo _ r x y H).
Qed.

Lemma mem_iter_eq r x y : WF r -> rgn_mem r x y = mem_iter r x y.
Proof. intros H. unfold mem_iter. apply mem_iter_dir. exact H. Qed.

Lemma rgn_mem_empty x y : rgn_mem rgn_empty x y = false.
Proof. reflexivity. Qed.

Lemma is_empty_mem r x y : rgn_is_empty r = true -> rgn_mem r x y = false.
Proof. destruct r; [reflexivity|discriminate]. Qed.

(* ------------------------------------------------------------------ pairs in iteration order *)
Lemma FOP_app {A} (R : A -> A -> Prop) l1 l2 :
  ForallOrdPairs R l1 -> ForallOrdPairs R l2 ->
  (forall a b, In a l1 -> In b l2 -> R a b) -> ForallOrdPairs R (l1 ++ l2).
Proof.
  intros H1 H2 H12. induction H1 as [|a l Ha Hl IH]; [exact H2|].
  cbn. constructor.
  - apply Forall_app. split; [exact Ha|]. apply Forall_forall. intros b Hb. apply H12; [left; reflexivity|exact Hb].
  - apply IH. intros a' b Ha' Hb. apply H12; [right; exact Ha'|exact Hb].
Qed.

Lemma FOP_rev {A} (R : A -> A -> Prop) l :
  ForallOrdPairs R l -> ForallOrdPairs (fun a b => R b a) (rev l).
Proof.
  intros H. induction H as [|a l Ha Hl IH]; [constructor|].
  cbn [rev]. apply FOP_app; [exact IH|repeat constructor|].
  intros x y Hx Hy. destruct Hy as [<-|[]]. apply in_rev in Hx.
  rewrite Forall_forall in Ha. apply Ha. exact Hx.
Qed.

Lemma FOP_map {A B} (R : B -> B -> Prop) (g : A -> B) l :
  ForallOrdPairs (fun a b => R (g a) (g b)) l -> ForallOrdPairs R (map g l).
Proof.
  intros H. induction H as [|a l Ha Hl IH]; [constructor|].
  cbn. constructor; [|exact IH]. apply Forall_map. exact Ha.
Qed.

Lemma FOP_impl {A} (R R' : A -> A -> Prop) l :
  (forall a b, In a l -> In b l -> R a b -> R' a b) -> ForallOrdPairs R l -> ForallOrdPairs R' l.
Proof.
  intros HI H. induction H as [|a l Ha Hl IH]; [constructor|].
  constructor.
  - rewrite Forall_forall in *. intros b Hb. apply HI; [left; reflexivity|right; exact Hb|apply Ha; exact Hb].
  - apply IH. intros x y Hx Hy. apply HI; right; assumption.
Qed.

Lemma FOP_flat_map {A B} (R : B -> B -> Prop) (g : A -> list B) l :
  (forall a, In a l -> ForallOrdPairs R (g a)) ->
  ForallOrdPairs (fun a a' => forall b b', In b (g a) -> In b' (g a') -> R b b') l ->
  ForallOrdPairs R (flat_map g l).
Proof.
  intros Hin H. induction H as [|a l Ha Hl IH]; [constructor|].
  cbn. apply FOP_app.
  - apply Hin. left; reflexivity.
  - apply IH. intros a' Ha'. apply Hin. right; exact Ha'.
  - intros b b' Hb Hb'. apply in_flat_map in Hb'. destruct Hb' as (a' & Ha' & Hb').
    rewrite Forall_forall in Ha. apply (Ha a' Ha'); assumption.
Qed.

(* spans of a sorted list: each is non-empty and ends before the later ones start *)
Lemma sorted_from_FOP {A} (P : A -> Prop) lo (l : list (span A)) :
  sorted_from P lo l ->
  Forall (fun sp => let '(s, e, a) := sp in lo <= s /\ s < e /\ P a) l /\
  ForallOrdPairs (fun sp sp' => let '(_, e, _) := sp in let '(s', _, _) := sp' in e <= s') l.
Proof.
  revert lo. induction l as [|[[s e] a] l IH]; intros lo H; [split; constructor|].
  cbn in H. destruct H as (H1 & H2 & H3 & H4). destruct (IH e H4) as [IHa IHb]. split.
  - constructor; [auto|]. eapply Forall_impl; [|exact IHa]. intros [[s' e'] a']. cbn. intuition lia.
  - constructor; [|exact IHb]. eapply Forall_impl; [|exact IHa]. intros [[s' e'] a']. cbn. intuition lia.
Qed.

(* two rectangles produced by the iteration: a comes before b *)
Definition iter_rel (rx ry : bool) (a b : rect) : Prop :=
  let '(ax1, ay1, ax2, ay2) := a in
  let '(bx1, by1, bx2, by2) := b in
  (ay1 = by1 /\ ay2 = by2 /\ (if rx then bx2 <= ax1 else ax2 <= bx1))
  \/ (if ry then by2 <= ay1 else ay2 <= by1).

Definition rect_nonempty (rc : rect) : Prop := let '(x1, y1, x2, y2) := rc in x1 < x2 /\ y1 < y2.

Lemma iter_In_nonempty rx ry r rc : WF r -> In rc (rgn_iter rx ry r) -> rect_nonempty rc.
Proof.
  intros [lo H] Hin. unfold rgn_iter in Hin. apply in_flat_map in Hin.
  destruct Hin as ([[s e] xs] & Hsp & Hrc).
  assert (Hsp' : In (s, e, xs) r) by (destruct ry; [apply in_rev in Hsp|]; exact Hsp).
  destruct (sorted_from_FOP _ _ _ H) as [Ha _]. rewrite Forall_forall in Ha.
  specialize (Ha _ Hsp'). cbn in Ha. destruct Ha as (_ & Hse & [lox Hxs] & _).
  apply in_map_iff in Hrc. destruct Hrc as ([[a b] u] & <- & Hx).
  assert (Hx' : In (a, b, u) xs) by (destruct rx; [apply in_rev in Hx|]; exact Hx).
  destruct (sorted_from_FOP _ _ _ Hxs) as [Hb _]. rewrite Forall_forall in Hb.
  specialize (Hb _ Hx'). cbn in Hb. cbn. lia.
Qed.

Lemma iter_ordered rx ry r : WF r -> ForallOrdPairs (iter_rel rx ry) (rgn_iter rx ry r).
Proof.
  intros [lo H]. unfold rgn_iter.
  destruct (sorted_from_FOP _ _ _ H) as [Ha Hb].
  set (g := fun sp : span xspans =>
              let '(y1, y2, xs) := sp in
              map (fun '(x1, x2, _) => (x1, y1, x2, y2)) (if rx then rev xs else xs)).
  (* the bands, in the order they are visited *)
  set (bands := if ry then rev r else r).
  assert (Hbands : ForallOrdPairs
                     (fun sp sp' : span xspans =>
                        let '(s, e, _) := sp in let '(s', e', _) := sp' in
                        if ry then e' <= s else e <= s') bands).
  { unfold bands. destruct ry.
    - apply FOP_rev in Hb. eapply FOP_impl; [|exact Hb]. intros [[s e] a] [[s' e'] a'] _ _. cbn. auto.
    - eapply FOP_impl; [|exact Hb]. intros [[s e] a] [[s' e'] a'] _ _. cbn. auto. }
  assert (Hin : forall sp, In sp bands -> In sp r).
  { intros sp Hsp. unfold bands in Hsp. destruct ry; [apply in_rev in Hsp|]; exact Hsp. }
  change (ForallOrdPairs (iter_rel rx ry) (flat_map g bands)).
  apply FOP_flat_map.
  - intros [[s e] xs] Hsp. apply Hin in Hsp. rewrite Forall_forall in Ha. specialize (Ha _ Hsp).
    cbn in Ha. destruct Ha as (_ & _ & [lox Hxs] & _).
    destruct (sorted_from_FOP _ _ _ Hxs) as [_ Hxb].
    unfold g. apply FOP_map.
    destruct rx.
    + apply FOP_rev in Hxb. eapply FOP_impl; [|exact Hxb].
      intros [[a b] u] [[a' b'] u'] _ _. cbn. intros Hle. left. repeat split; lia.
    + eapply FOP_impl; [|exact Hxb].
      intros [[a b] u] [[a' b'] u'] _ _. cbn. intros Hle. left. repeat split; lia.
  - eapply FOP_impl; [|exact Hbands].
    intros [[s e] xs] [[s' e'] xs'] _ _ Hle b b' Hb0 Hb0'. unfold g in Hb0, Hb0'.
    apply in_map_iff in Hb0. destruct Hb0 as ([[a1 a2] u] & <- & _).
    apply in_map_iff in Hb0'. destruct Hb0' as ([[a1' a2'] u'] & <- & _).
    cbn. right. exact Hle.
Qed.

(* ------------------------------------------------------------------ sequential = simultaneous *)
(* [a] is handled before [b]: b's source must not meet a's destination *)
Definition copy_safe (dx dy : Z) (a b : rect) : Prop :=
  forall x y, rect_mem b x y = true -> rect_mem a (x - dx) (y - dy) = false.

Lemma copy_seq_simul dx dy l : forall f,
  ForallOrdPairs (copy_safe dx dy) l ->
  forall x y, copy_seq f l dx dy x y =
              if existsb (fun rc => rect_mem rc x y) l then f (x - dx) (y - dy) else f x y.
Proof.
  induction l as [|a l IH]; intros f H x y; [reflexivity|].
  inversion H as [|a' l' Ha Hl]; subst.
  change (copy_seq f (a :: l) dx dy x y) with (copy_seq (apply_copy f a dx dy) l dx dy x y).
  rewrite (IH (apply_copy f a dx dy) Hl). cbn [existsb].
  destruct (existsb (fun rc => rect_mem rc x y) l) eqn:E.
  - rewrite orb_true_r. apply existsb_exists in E. destruct E as (b & Hb & Hm).
    rewrite Forall_forall in Ha. unfold apply_copy. rewrite (Ha b Hb x y Hm). reflexivity.
  - rewrite orb_false_r. reflexivity.
Qed.

(* the order of rfbSendCopyRegion is safe for every well-formed region and every offset *)
Lemma send_order_safe r dx dy :
  WF r -> ForallOrdPairs (copy_safe dx dy) (rgn_iter (dx >? 0) (dy >? 0) r).
Proof.
  intros H. eapply FOP_impl; [|apply iter_ordered; exact H].
  intros [[[ax1 ay1] ax2] ay2] [[[bx1 by1] bx2] by2] Ha Hb Hrel x y Hm.
  apply (iter_In_nonempty _ _ _ _ H) in Ha. apply (iter_In_nonempty _ _ _ _ H) in Hb.
  cbn in Ha, Hb, Hrel. unfold rect_mem in *.
  destruct (dx >? 0) eqn:Ex; destruct (dy >? 0) eqn:Ey; lia.
Qed.

(* the rows of one rectangle, in the order of the memmove loops of rfbDoCopyRegion *)
Lemma rows_existsb rc dy x y :
  existsb (fun r => rect_mem r x y) (copy_rows rc dy) = rect_mem rc x y.
Proof.
  destruct rc as [[[x1 y1] x2] y2]. unfold copy_rows.
  set (ys := map (fun k => y1 + Z.of_nat k) (seq 0 (Z.to_nat (y2 - y1)))).
  assert (E : existsb (fun r => rect_mem r x y) (map (fun y0 => (x1, y0, x2, y0 + 1)) ys)
              = rect_mem (x1, y1, x2, y2) x y).
  { rewrite existsb_map. unfold rect_mem.
    destruct ((x1 <=? x) && (x <? x2) && (y1 <=? y) && (y <? y2)) eqn:E.
    - apply existsb_exists. exists y. split; [|lia].
      unfold ys. apply in_map_iff. exists (Z.to_nat (y - y1)). split; [lia|]. apply in_seq. lia.
    - destruct (existsb _ ys) eqn:E2; [|reflexivity].
      apply existsb_exists in E2. destruct E2 as (y0 & Hin & Hm).
      unfold ys in Hin. apply in_map_iff in Hin. destruct Hin as (k & <- & Hk). apply in_seq in Hk. lia. }
  destruct (dy <? 0); [exact E|].
  rewrite map_rev, existsb_rev. exact E.
Qed.

Lemma rows_inside rc dy r x y :
  In r (copy_rows rc dy) -> rect_mem r x y = true -> rect_mem rc x y = true.
Proof.
  intros Hin Hm. rewrite <- (rows_existsb rc dy). apply existsb_exists. exists r. split; assumption.
Qed.

Lemma rows_safe rc dx dy : ForallOrdPairs (copy_safe dx dy) (copy_rows rc dy).
Proof.
  destruct rc as [[[x1 y1] x2] y2]. unfold copy_rows.
  set (n := Z.to_nat (y2 - y1)).
  assert (Hs : ForallOrdPairs (fun a b : Z => a < b) (map (fun k => y1 + Z.of_nat k) (seq 0 n))).
  { apply FOP_map. generalize 0%nat. induction n as [|n IH]; intros s; [constructor|].
    cbn. constructor; [|apply IH]. apply Forall_forall. intros k Hk. apply in_seq in Hk. lia. }
  apply FOP_map. destruct (dy <? 0) eqn:E.
  - eapply FOP_impl; [|exact Hs]. intros a b _ _ Hab x y Hm. unfold rect_mem in *. lia.
  - apply FOP_rev in Hs. eapply FOP_impl; [|exact Hs]. intros a b _ _ Hab x y Hm. unfold rect_mem in *. lia.
Qed.

(* rfbDoCopyRegion performs the simultaneous copy whenever its rectangle order is safe *)
Lemma docopy_simul f K dx dy :
  ForallOrdPairs (copy_safe dx dy) (docopy_rects K dx dy) ->
  forall x y, docopy_fun f K dx dy x y =
              if existsb (fun rc => rect_mem rc x y) (docopy_rects K dx dy)
              then f (x - dx) (y - dy) else f x y.
Proof.
  intros H x y. unfold docopy_fun.
  rewrite copy_seq_simul.
  - rewrite existsb_flat_map. rewrite (existsb_ext' _ (fun rc => rect_mem rc x y)); [reflexivity|].
    intros rc. apply rows_existsb.
  - apply FOP_flat_map.
    + intros rc _. apply rows_safe.
    + eapply FOP_impl; [|exact H]. intros a b _ _ Hab ra rb Hra Hrb x0 y0 Hm.
      apply (rows_inside _ _ _ _ _ Hrb) in Hm. specialize (Hab _ _ Hm).
      destruct (rect_mem ra (x0 - dx) (y0 - dy)) eqn:E; [|reflexivity].
      apply (rows_inside _ _ _ _ _ Hra) in E. congruence.
Qed.

(* a single rectangle (rfbDoCopyRect): always simultaneous *)
Lemma docopy_rect_simul f x1 y1 x2 y2 dx dy x y :
  docopy_fun f (rgn_create_rect x1 y1 x2 y2) dx dy x y =
  copy_simul f (rgn_create_rect x1 y1 x2 y2) dx dy x y.
Proof.
  rewrite docopy_simul.
  - unfold copy_simul. rewrite create_rect_mem.
    unfold docopy_rects, rgn_iter, rgn_create_rect. destruct (dx >? 0); destruct (dy >? 0); cbn;
      rewrite ?orb_false_r; reflexivity.
  - unfold docopy_rects, rgn_iter, rgn_create_rect. destruct (dx >? 0); destruct (dy >? 0); cbn;
      repeat constructor.
Qed.

(* since fix 737e111 rfbDoCopyRegion uses the safe order: simultaneous for every WF region *)
Lemma docopy_region_simul f K dx dy x y :
  WF K -> docopy_fun f K dx dy x y = copy_simul f K dx dy x y.
Proof.
  intros HK. rewrite docopy_simul by (apply send_order_safe; exact HK).
  unfold copy_simul, docopy_rects. rewrite <- (mem_iter_dir _ _ K x y HK). reflexivity.
Qed.

(* decidable form of the safety of an order (kept for reference: the order (dx<0,dy<0) used before
   the fix is unsafe, see f9_old_order_unsafe in UpdateThms.v) *)
Definition rects_overlap (a b : rect) : bool :=
  let '(ax1, ay1, ax2, ay2) := a in let '(bx1, by1, bx2, by2) := b in
  (ax1 <? ax2) && (ay1 <? ay2) && (bx1 <? bx2) && (by1 <? by2) &&
  (Z.max ax1 bx1 <? Z.min ax2 bx2) && (Z.max ay1 by1 <? Z.min ay2 by2).

Fixpoint order_safe_b (dx dy : Z) (l : list rect) : bool :=
  match l with
  | [] => true
  | a :: t => forallb (fun b => negb (rects_overlap a (rect_shift b (- dx) (- dy)))) t && order_safe_b dx dy t
  end.

Lemma order_safe_b_sound dx dy l :
  order_safe_b dx dy l = true -> ForallOrdPairs (copy_safe dx dy) l.
Proof.
  induction l as [|a l IH]; intros H; [constructor|].
  cbn in H. apply andb_true_iff in H. destruct H as [H1 H2]. constructor; [|apply IH; exact H2].
  apply Forall_forall. intros b Hb. rewrite forallb_forall in H1. specialize (H1 b Hb).
  destruct a as [[[ax1 ay1] ax2] ay2]. destruct b as [[[bx1 by1] bx2] by2].
  intros x y Hm. unfold rects_overlap, rect_shift in H1. unfold rect_mem in *. lia.
Qed.

