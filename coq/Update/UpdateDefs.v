(* Mirror model of the update bookkeeping of libvncserver (DESIGN.md section 5, C02 / C16):
     main.c      rfbMarkRectAsModified, rfbMarkRegionAsModified, rfbScheduleCopyRegion,
                 rfbDoCopyRegion / rfbDoCopyRect, rfbNewFramebuffer, rfbUpdateClient
     rfbserver.c rfbNewClient (initial regions), FramebufferUpdateRequest (rectSwapIfLEAndClip),
                 SetEncodings (flags), SetDesktopSize, rfbSendFramebufferUpdate (region
                 bookkeeping, size short-circuit, slicing, coalescing), rfbSendCopyRegion,
                 rfbSendNewFBSize / rfbSendExtDesktopSize
     cursor.c    rfbRedrawAfterHideCursor, rfbSetCursor (bookkeeping part only)
   built ON TOP of the region mirror Region/RegionDefs.v (exact span structure).
   Definitions only (the model must keep running when a proof breaks).

   Pictures (server framebuffer, client picture) are row lists; every operation computes the
   new picture as a function of the coordinates and tabulates it with [pic_build].
   An out-of-range read never happens silently: every operation that reads a picture at
   computed coordinates first checks that the rectangles it reads lie inside the picture
   and yields the explicit error [None] otherwise ([pic_get]'s default is never reached,
   lemma pic_get_build / the checks [rects_inside]). *)
From LV Require Import Region.RegionDefs Gen.Funs_C11 Gen.Consts_C02 Gen.Consts_C16.
Local Open Scope Z_scope.

(* ------------------------------------------------------------------ pictures *)
Definition pic : Type := list (list Z).

Definition zrange (n : Z) : list Z := map Z.of_nat (seq 0 (Z.to_nat n)).

Definition pic_build (w h : Z) (f : Z -> Z -> Z) : pic :=
  map (fun y => map (fun x => f x y) (zrange w)) (zrange h).

Definition pic_get (p : pic) (x y : Z) : Z :=
  if (x <? 0) || (y <? 0) then -1
  else nth (Z.to_nat x) (nth (Z.to_nat y) p []) (-1).

Definition rect_inside (W H : Z) (rc : rect) : bool :=
  let '(x1, y1, x2, y2) := rc in (0 <=? x1) && (x2 <=? W) && (0 <=? y1) && (y2 <=? H).

Definition rect_shift (rc : rect) (dx dy : Z) : rect :=
  let '(x1, y1, x2, y2) := rc in (x1 + dx, y1 + dy, x2 + dx, y2 + dy).

Definition rects_inside (W H : Z) (l : list rect) : bool := forallb (rect_inside W H) l.

(* RFB CopyRect / memmove of one rectangle: all sources are read before any write *)
Definition apply_copy (f : Z -> Z -> Z) (rc : rect) (dx dy : Z) : Z -> Z -> Z :=
  fun x y => if rect_mem rc x y then f (x - dx) (y - dy) else f x y.

(* pixel rectangle taking its content from [src] *)
Definition apply_raw (src : Z -> Z -> Z) (f : Z -> Z -> Z) (rc : rect) : Z -> Z -> Z :=
  fun x y => if rect_mem rc x y then src x y else f x y.

(* the simultaneous copy  fb'(p) = fb(p - d)  for p in the region *)
Definition copy_simul (f : Z -> Z -> Z) (K : region) (dx dy : Z) : Z -> Z -> Z :=
  fun x y => if rgn_mem K x y then f (x - dx) (y - dy) else f x y.

(* ------------------------------------------------------------------ region helpers *)
Definition r_and (a b : region) : region := fst (rgn_and a b).
Definition r_sub (a b : region) : region := fst (rgn_sub a b).
Definition rect_rgn (rc : rect) : region :=
  let '(x1, y1, x2, y2) := rc in rgn_create_rect x1 y1 x2 y2.
(* sraRgnCreate(); for each rectangle: sraRgnOr(rgn, sraRgnCreateRect(..)) *)
Definition rgn_of_rects (l : list rect) : region :=
  fold_left (fun acc rc => rgn_or acc (rect_rgn rc)) l rgn_empty.

(* ------------------------------------------------------------------ state *)
Definition cursor_box : Type := (Z * Z * Z * Z)%type.      (* xhot, yhot, width, height *)

(* deferral timer and scaled-screen bookkeeping of one client *)
Record client_ext : Type := mkCExt {
  xDefS : Z; xDefU : Z;            (* cl->startDeferring (tv_sec, tv_usec); tv_usec = 0: not deferring *)
  xScaled : option (Z * Z);        (* size of cl->scaledScreen when it is not the screen itself *)
  xLife : Z                        (* 0 = connected; 1 = closed (rfbCloseClient: sock = -1) but still in the
                                      client list; 3 = closed, and its scaled screen has been freed under it
                                      (dangling cl->scaledScreen); 2 = reaped by rfbClientConnectionGone *)
}.

Definition ext_timer (e : client_ext) (s u : Z) : client_ext := mkCExt s u (xScaled e) (xLife e).
Definition ext_scaled (e : client_ext) (sc : option (Z * Z)) : client_ext := mkCExt (xDefS e) (xDefU e) sc (xLife e).
Definition ext_life (e : client_ext) (l : Z) : client_ext := mkCExt (xDefS e) (xDefU e) (xScaled e) l.

(* a client's pixel translation state: [tTo] = cl->format (format code, see fmt_bpp below), [tFrom] = the
   server format cl->translateFn and its lookup table were built for *)
Record xlate : Type := mkX { tFrom : Z; tTo : Z }.

Record client : Type := mkClient {
  cM : region;            (* modifiedRegion *)
  cC : region;            (* copyRegion *)
  cDX : Z; cDY : Z;       (* copyDX, copyDY *)
  cR : region;            (* requestedRegion *)
  cUseCopy : bool;        (* useCopyRect *)
  cShape : bool;          (* enableCursorShapeUpdates *)
  cCurChanged : bool;     (* cursorWasChanged *)
  cReady : bool;          (* readyForSetColourMapEntries *)
  cCurX : Z; cCurY : Z;   (* cl->cursorX, cl->cursorY *)
  cSliceY : Z;            (* progressiveSliceY *)
  cUseNewFB : bool;       (* useNewFBSize *)
  cUseExt : bool;         (* useExtDesktopSize *)
  cNewFBPending : bool;   (* newFBSizePending *)
  cReqChange : Z;         (* requestedDesktopSizeChange *)
  cLastErr : Z;           (* lastDesktopSizeChangeError *)
  cBpp : xlate;           (* the client's pixel translation: cl->format and what cl->translateFn was selected for *)
  cPW : Z; cPH : Z;       (* size of the client's own picture *)
  cPic : pic;             (* the client's picture (decoded by the RFB semantics) *)
  cExt : client_ext
}.

(* deferUpdateTime, the (virtual) clock read by gettimeofday, the sizes of the scaledScreenNext chain *)
Record state_ext : Type := mkSExt {
  xDefer : Z;                      (* screen->deferUpdateTime in ms *)
  xNowS : Z; xNowU : Z;            (* current time (tv_sec, tv_usec) *)
  xChain : list (Z * Z)            (* scaled screens, newest first *)
}.

Record state : Type := mkState {
  sW : Z; sH : Z; sBpp : Z;        (* width, height, format code of the server format (see fmt_bpp) *)
  sFBid : Z;                       (* identity of the current frameBuffer (C16) *)
  sFB : pic;
  sCursor : option cursor_box;     (* screen->cursor (None = NULL) *)
  sCurX : Z; sCurY : Z;            (* screen->cursorX/Y *)
  sMaxRects : Z;                   (* maxRectsPerUpdate *)
  sSliceH : Z;                     (* progressiveSliceHeight *)
  sClients : list client;
  sExt : state_ext
}.

(* setters (records have no update syntax) *)
Definition set_regions (c : client) (M C : region) (dx dy : Z) (R : region) : client :=
  mkClient M C dx dy R (cUseCopy c) (cShape c) (cCurChanged c) (cReady c) (cCurX c) (cCurY c)
           (cSliceY c) (cUseNewFB c) (cUseExt c) (cNewFBPending c) (cReqChange c) (cLastErr c)
           (cBpp c) (cPW c) (cPH c) (cPic c) (cExt c).
Definition set_M (c : client) (M : region) : client := set_regions c M (cC c) (cDX c) (cDY c) (cR c).
Definition set_flags (c : client) (useCopy shape curChanged ready useNewFB useExt : bool) : client :=
  mkClient (cM c) (cC c) (cDX c) (cDY c) (cR c) useCopy shape curChanged ready (cCurX c) (cCurY c)
           (cSliceY c) useNewFB useExt (cNewFBPending c) (cReqChange c) (cLastErr c)
           (cBpp c) (cPW c) (cPH c) (cPic c) (cExt c).
Definition set_curpos (c : client) (x y : Z) : client :=
  mkClient (cM c) (cC c) (cDX c) (cDY c) (cR c) (cUseCopy c) (cShape c) (cCurChanged c) (cReady c) x y
           (cSliceY c) (cUseNewFB c) (cUseExt c) (cNewFBPending c) (cReqChange c) (cLastErr c)
           (cBpp c) (cPW c) (cPH c) (cPic c) (cExt c).
Definition set_slice (c : client) (y : Z) : client :=
  mkClient (cM c) (cC c) (cDX c) (cDY c) (cR c) (cUseCopy c) (cShape c) (cCurChanged c) (cReady c)
           (cCurX c) (cCurY c) y (cUseNewFB c) (cUseExt c) (cNewFBPending c) (cReqChange c) (cLastErr c)
           (cBpp c) (cPW c) (cPH c) (cPic c) (cExt c).
Definition set_size_state (c : client) (pending : bool) (req err : Z) : client :=
  mkClient (cM c) (cC c) (cDX c) (cDY c) (cR c) (cUseCopy c) (cShape c) (cCurChanged c) (cReady c)
           (cCurX c) (cCurY c) (cSliceY c) (cUseNewFB c) (cUseExt c) pending req err
           (cBpp c) (cPW c) (cPH c) (cPic c) (cExt c).
Definition set_pic (c : client) (w h : Z) (p : pic) : client :=
  mkClient (cM c) (cC c) (cDX c) (cDY c) (cR c) (cUseCopy c) (cShape c) (cCurChanged c) (cReady c)
           (cCurX c) (cCurY c) (cSliceY c) (cUseNewFB c) (cUseExt c) (cNewFBPending c) (cReqChange c)
           (cLastErr c) (cBpp c) w h p (cExt c).

Definition set_fb (st : state) (p : pic) : state :=
  mkState (sW st) (sH st) (sBpp st) (sFBid st) p (sCursor st) (sCurX st) (sCurY st)
          (sMaxRects st) (sSliceH st) (sClients st) (sExt st).
Definition set_clients (st : state) (l : list client) : state :=
  mkState (sW st) (sH st) (sBpp st) (sFBid st) (sFB st) (sCursor st) (sCurX st) (sCurY st)
          (sMaxRects st) (sSliceH st) l (sExt st).
Definition set_cursor (st : state) (c : option cursor_box) : state :=
  mkState (sW st) (sH st) (sBpp st) (sFBid st) (sFB st) c (sCurX st) (sCurY st)
          (sMaxRects st) (sSliceH st) (sClients st) (sExt st).
Definition set_knobs (st : state) (maxr slice : Z) : state :=
  mkState (sW st) (sH st) (sBpp st) (sFBid st) (sFB st) (sCursor st) (sCurX st) (sCurY st)
          maxr slice (sClients st) (sExt st).

Definition set_cext (c : client) (e : client_ext) : client :=
  mkClient (cM c) (cC c) (cDX c) (cDY c) (cR c) (cUseCopy c) (cShape c) (cCurChanged c) (cReady c)
           (cCurX c) (cCurY c) (cSliceY c) (cUseNewFB c) (cUseExt c) (cNewFBPending c) (cReqChange c)
           (cLastErr c) (cBpp c) (cPW c) (cPH c) (cPic c) e.
Definition set_bpp (c : client) (b : xlate) : client :=
  mkClient (cM c) (cC c) (cDX c) (cDY c) (cR c) (cUseCopy c) (cShape c) (cCurChanged c) (cReady c)
           (cCurX c) (cCurY c) (cSliceY c) (cUseNewFB c) (cUseExt c) (cNewFBPending c) (cReqChange c)
           (cLastErr c) b (cPW c) (cPH c) (cPic c) (cExt c).
Definition set_sext (st : state) (e : state_ext) : state :=
  mkState (sW st) (sH st) (sBpp st) (sFBid st) (sFB st) (sCursor st) (sCurX st) (sCurY st)
          (sMaxRects st) (sSliceH st) (sClients st) e.
Definition cScaled (c : client) : option (Z * Z) := xScaled (cExt c).
Definition cLive (c : client) : bool := xLife (cExt c) =? 0.
Definition cClosed (c : client) : bool := (xLife (cExt c) =? 1) || (xLife (cExt c) =? 3).   (* closed, not yet reaped *)
Definition cDangling (c : client) : bool := xLife (cExt c) =? 3.

Definition fbf (st : state) : Z -> Z -> Z := pic_get (sFB st).

(* ------------------------------------------------------------------ pixel translation *)
(* Pixel formats.  The fields [sBpp] / [cBpp] hold a FORMAT CODE  f = bytesPerPixel + 8 * b  where
   b = 0 stands for the default bits per sample of that depth (5 for 2 bytes, 8 for 4 bytes; one-byte
   pixels are always BGR233) and b > 0 is an explicit bitsPerSample handed to rfbNewFramebuffer
   (16 bpp with 4 bits, 32 bpp with 10 bits, ...).  So the codes 1, 2, 4 are the formats of
   rfbGetScreen(.., 2|5|8, 3, 1|2|4) and two valid codes are equal iff the formats are equal
   ([fmt_ok] rejects the non-canonical spelling of a default).
   rfbInitServerFormat on a little-endian host: redMax = greenMax = blueMax = 2^bits - 1, shifts
   0, bits, 2*bits.  A client keeps the format of the server at the time it connected; when the server
   format differs (after rfbNewFramebuffer: another depth OR the same depth with other bits per
   sample) pixels go through the true-colour tables of translate.c:
   channel c -> (c * outMax + inMax/2) / inMax *)
Definition fmt_bpp (f : Z) : Z := f mod 8.
Definition fmt_bits (f : Z) : Z :=
  if f / 8 =? 0 then (if fmt_bpp f =? 2 then 5 else 8) else f / 8.
Definition fmt_ok (f : Z) : bool :=
  let b := fmt_bpp f in let o := f / 8 in
  (0 <=? f) &&
  (((b =? 1) && (o =? 0))
   || ((b =? 2) && (0 <=? o) && (o <=? 5) && negb (o =? 5))
   || ((b =? 4) && (0 <=? o) && (o <=? 10) && negb (o =? 8))).
Definition fmt_of_bpp (f : Z) : Z * Z * Z * Z * Z * Z :=
  if fmt_bpp f =? 1 then (7, 7, 3, 0, 3, 6)
  else let b := fmt_bits f in let m := 2 ^ b - 1 in (m, m, m, 0, b, 2 * b).

Definition translate (sb cb v : Z) : Z :=
  if sb =? cb then v
  else
    let '(srm, sgm, sbm, srs, sgs, sbs) := fmt_of_bpp sb in
    let '(crm, cgm, cbm, crs, cgs, cbs) := fmt_of_bpp cb in
    let ch sm ss cm cs := Z.shiftl ((Z.land (Z.shiftr v ss) sm * cm + sm / 2) / sm) cs in
    Z.lor (Z.lor (ch srm srs crm crs) (ch sgm sgs cgm cgs)) (ch sbm sbs cbm cbs).

(* what reaches a client for framebuffer pixel (x,y): the pixel goes through the translation that was
   selected for the client (cl->translateFn + lookup table, chosen by rfbSetTranslateFunction for the pair
   (server format at that time, client format)).  This is the right picture only as long as the selection
   is up to date: [TransOK] below (tFrom = the CURRENT server format) is the second half of the
   convergence invariant; rfbNewFramebuffer has to re-select when the server format changes. *)
Definition fb_for (st : state) (c : client) : Z -> Z -> Z :=
  fun x y => translate (tFrom (cBpp c)) (tTo (cBpp c)) (fbf st x y).

(* what goes on the wire in one FramebufferUpdate message *)
Inductive wrect : Type :=
| WCursor (xhot yhot w h : Z)          (* RichCursor pseudo-rectangle *)
| WCopy (x y w h sx sy : Z)            (* CopyRect with its source *)
| WRaw (x y w h : Z)                   (* pixel rectangle *)
| WNewFB (w h : Z)                     (* NewFBSize pseudo-rectangle *)
| WExt (reason status w h : Z)         (* ExtendedDesktopSize pseudo-rectangle *)
| WResize (w h : Z).                  (* not a rectangle: the rfbResizeFrameBuffer message (SetScale reply) *)

Definition wmsg : Type := (Z * list wrect)%type.   (* announced nRects, rectangles emitted;
                                                      (-1, [WResize w h]) = a rfbResizeFrameBuffer message *)

(* ------------------------------------------------------------------ rfbNewClient *)
Definition new_client (st : state) : client :=
  mkClient (rgn_create_rect 0 0 (sW st) (sH st)) rgn_empty 0 0 rgn_empty
           false false false false (sCurX st) (sCurY st) 0 false false false 0 0
           (mkX (sBpp st) (sBpp st)) (sW st) (sH st) (pic_build (sW st) (sH st) (fun _ _ => 0))
           (mkCExt 0 0 None 0).

(* ------------------------------------------------------------------ rfbMarkRectAsModified *)
Definition mark_clip (W H x1 y1 x2 y2 : Z) : option rect :=
  let '(x1, x2) := if x1 >? x2 then (x2, x1) else (x1, x2) in
  let x1 := if x1 <? 0 then 0 else x1 in
  let x2 := if x2 >? W then W else x2 in
  if x1 >=? x2 then None else
  let '(y1, y2) := if y1 >? y2 then (y2, y1) else (y1, y2) in
  let y1 := if y1 <? 0 then 0 else y1 in
  let y2 := if y2 >? H then H else y2 in
  if y1 >=? y2 then None else Some (x1, y1, x2, y2).

Definition mark_client (rg : region) (c : client) : client := set_M c (rgn_or (cM c) rg).

(* ------------------------------------------------------------------ rfbRedrawAfterHideCursor *)
(* the clipped cursor box of a client, if any: sraClipRect2 (re-translated from the source) *)
Definition cursor_clip (st : state) (c : client) : option rect :=
  match sCursor st with
  | None => None
  | Some (xhot, yhot, cw, ch) =>
      let x := cCurX c - xhot in let y := cCurY c - yhot in
      let '(b, x1, y1, x2, y2) := sraClipRect2 x y (x + cw) (y + ch) 0 0 (sW st) (sH st) in
      if b then Some (x1, y1, x2, y2) else None
  end.

Definition redraw_into (st : state) (c : client) (rg : region) : region :=
  match cursor_clip st c with
  | Some rc => rgn_or rg (rect_rgn rc)
  | None => rg
  end.

(* rfbRedrawAfterHideCursor(cl, NULL) *)
Definition redraw_cursor_M (st : state) (c : client) : client := set_M c (redraw_into st c (cM c)).

(* ------------------------------------------------------------------ rfbScheduleCopyRegion *)
(* never [None] since fix 812461a (the soft-cursor boxes are skipped when screen->cursor is NULL);
   the option type is kept for the callers, lemma sched_copy_total *)
Definition sched_copy_client (cur : option cursor_box) (K : region) (dx dy : Z) (c : client)
  : option client :=
  (* since b141ef8 a client with a scaled view gets the pixels (no exact CopyRect in a scaled picture) *)
  if cUseCopy c && (match cScaled c with None => true | Some _ => false end) then
    let '(M1, C1) :=
      if negb (rgn_is_empty (cC c)) then
        if negb (cDX c =? dx) || negb (cDY c =? dy)
        then (rgn_or (cM c) (cC c), rgn_empty)
        else (rgn_or (cM c) (r_and (rgn_offset K (- dx) (- dy)) (cC c)), cC c)
      else (cM c, cC c) in
    let C2 := rgn_or C1 K in
    let M2 := rgn_or M1 (r_and (rgn_offset M1 dx dy) C2) in
    if cShape c then Some (set_regions c M2 C2 dx dy (cR c))
    else
      match cur with
      | None => Some (set_regions c M2 C2 dx dy (cR c))       (* screen->cursor == NULL *)
      | Some (xhot, yhot, cw, ch) =>
          let x := cCurX c - xhot in let y := cCurY c - yhot in
          let cr1 := r_and (rgn_create_rect x y (x + cw) (y + ch)) C2 in
          let M3 := if negb (rgn_is_empty cr1) then rgn_or M2 cr1 else M2 in
          let cr2 := r_and (rgn_offset (rgn_create_rect x y (x + cw) (y + ch)) dx dy) C2 in
          let M4 := if negb (rgn_is_empty cr2) then rgn_or M3 cr2 else M3 in
          Some (set_regions c M4 C2 dx dy (cR c))
      end
  else
    (* no CopyRect: the destination is simply modified; a copy scheduled earlier (before the client
       withdrew CopyRect or changed to a scaled view) is turned into modified pixels (b141ef8) *)
    if negb (rgn_is_empty (cC c))
    then Some (set_regions c (rgn_or (rgn_or (cM c) (cC c)) K) rgn_empty (cDX c) (cDY c) (cR c))
    else Some (set_M c (rgn_or (cM c) K)).

Fixpoint map_opt {A B} (f : A -> option B) (l : list A) : option (list B) :=
  match l with
  | [] => Some []
  | a :: t => match f a with
              | None => None
              | Some b => match map_opt f t with None => None | Some t' => Some (b :: t') end
              end
  end.

(* ------------------------------------------------------------------ rfbDoCopyRegion *)
(* the rows of one rectangle in the order of the memmove loops *)
Definition copy_rows (rc : rect) (dy : Z) : list rect :=
  let '(x1, y1, x2, y2) := rc in
  let ys := map (fun k => y1 + Z.of_nat k) (seq 0 (Z.to_nat (y2 - y1))) in
  map (fun y => (x1, y, x2, y + 1)) (if dy <? 0 then ys else rev ys).

Definition copy_seq (f : Z -> Z -> Z) (l : list rect) (dx dy : Z) : Z -> Z -> Z :=
  fold_left (fun g rc => apply_copy g rc dx dy) l f.

(* order of the rectangles used by rfbDoCopyRegion (since fix 737e111: the safe order of rfbSendCopyRegion) *)
Definition docopy_rects (K : region) (dx dy : Z) : list rect := rgn_iter (dx >? 0) (dy >? 0) K.

Definition docopy_fun (f : Z -> Z -> Z) (K : region) (dx dy : Z) : Z -> Z -> Z :=
  copy_seq f (flat_map (fun rc => copy_rows rc dy) (docopy_rects K dx dy)) dx dy.

(* destination and source of an application copy lie inside the framebuffer *)
Definition copy_inside (W H : Z) (K : region) (dx dy : Z) : bool :=
  rects_inside W H (rgn_iter false false K) &&
  rects_inside W H (map (fun rc => rect_shift rc (- dx) (- dy)) (rgn_iter false false K)).

(* ------------------------------------------------------------------ FramebufferUpdateRequest *)
(* rectSwapIfLEAndClip with its uint16_t arithmetic (x y w h are the 16-bit wire values) *)
Definition req_clip (W H x y w h : Z) : option (Z * Z * Z * Z) :=
  let w1 := if w >? W - x then (W - x) mod 65536 else w in
  if w1 >? W - x then None else
  let h1 := if h >? H - y then (H - y) mod 65536 else h in
  if h1 >? H - y then None else Some (x, y, w1, h1).

Definition request_client (W H : Z) (incr : bool) (x y w h : Z) (c : client) : client :=
  match req_clip W H x y w h with
  | None => c
  | Some (x, y, w, h) =>
      (* fix d5a464d: a request of zero width or height (after clipping) asks for nothing *)
      if (w =? 0) || (h =? 0) then c else
      let t := rgn_create_rect x y (x + w) (y + h) in
      let c1 := set_flags (set_regions c (cM c) (cC c) (cDX c) (cDY c) (rgn_or (cR c) t))
                          (cUseCopy c) (cShape c) (cCurChanged c) true (cUseNewFB c) (cUseExt c) in
      if incr then c1
      else
        let c2 := set_regions c1 (rgn_or (cM c1) t) (r_sub (cC c1) t) (cDX c1) (cDY c1) (cR c1) in
        if cUseExt c2 then set_size_state c2 true (cReqChange c2) (cLastErr c2) else c2
  end.

(* the client learns the framebuffer size: its picture is replaced when the size differs *)
Definition client_resize (c : client) (W H : Z) : client :=
  if (cPW c =? W) && (cPH c =? H) then c else set_pic c W H (pic_build W H (fun _ _ => 0)).

(* ------------------------------------------------------------------ SetEncodings *)
(* the message sent by the harness: [CopyRect?; Raw; RichCursor?; NewFBSize?; ExtDesktopSize?] *)
(* C03-F25 (fixed 690d81d): a copy scheduled while the client supported CopyRect used to be sent as CopyRect
   after the client withdrew the encoding (rfbSendFramebufferUpdate never tests useCopyRect).  Since 690d81d
   the end of SetEncodings turns the pending copy into modified pixels. *)
Definition setenc_drops_copy : bool := true.

Definition setenc_client (st : state) (copyrect shape newfb ext : bool) (c : client) : client :=
  (* all flags reset, then one case per encoding in the order above *)
  let c0 := set_flags c copyrect false false (cReady c) false false in
  let c1 := if shape
            then let c' := redraw_cursor_M st c0 in
                 set_flags c' (cUseCopy c') true true (cReady c') false false
            else c0 in
  let c2 := if newfb then set_flags c1 (cUseCopy c1) (cShape c1) (cCurChanged c1) (cReady c1) true false
            else c1 in
  let c3a := if ext then set_flags c2 (cUseCopy c2) (cShape c2) (cCurChanged c2) (cReady c2) true true
             else c2 in
  (* fix 2b32386: the client no longer draws the cursor itself -> rfbRedrawAfterHideCursor(cl,NULL) *)
  let c3b := if setenc_drops_copy && negb copyrect && negb (rgn_is_empty (cC c3a))
             then set_regions c3a (rgn_or (cM c3a) (cC c3a)) rgn_empty 0 0 (cR c3a) else c3a in
  let c3 := if cShape c && negb (cShape c3b) then redraw_cursor_M st c3b else c3b in
  (* modelling assumption: a client that does not (or no longer) support NewFBSize knows the
     framebuffer size out of band *)
  if cUseNewFB c3 then c3 else client_resize c3 (sW st) (sH st).

(* ------------------------------------------------------------------ rfbSetCursor *)
Definition setcursor_state (st : state) (cur : option cursor_box) : state :=
  let redraw_nonshape s c := if cShape c then c else redraw_cursor_M s c in
  let cl1 := match sCursor st with
             | Some _ => map (redraw_nonshape st) (sClients st)
             | None => sClients st
             end in
  let st1 := set_cursor (set_clients st cl1) cur in
  let cl2 := map (fun c => redraw_nonshape st1
                      (set_flags c (cUseCopy c) (cShape c) true (cReady c) (cUseNewFB c) (cUseExt c)))
                 cl1 in
  set_clients st1 cl2.

(* ------------------------------------------------------------------ rfbSendFramebufferUpdate *)
(* FB_UPDATE_PENDING (cursor position updates are never enabled by the harness' clients) *)
Definition pending (st : state) (c : client) : bool :=
  (cShape c && cCurChanged c)
  || (negb (cShape c) && (negb (cCurX c =? sCurX st) || negb (cCurY c =? sCurY st)))
  || (cUseNewFB c && cNewFBPending c)
  || negb (rgn_is_empty (cC c)) || negb (rgn_is_empty (cM c)).

(* the progressive slice: returns the sliced update region and the new progressiveSliceY *)
Definition slice_region (st : state) (c : client) (U : region) : region * Z :=
  if sSliceH st >? 0 then
    let hgt := sSliceH st in
    let y := cSliceY c in
    let '(U', y') :=
      match rgn_pop_rect (rgn_bbox U) false false with
      | Some ((_, ry1, _, ry2), _) =>
          let y := if (y <? ry1) || (y >=? ry2) then ry1 else y in
          (r_and U (rgn_create_rect 0 y (sW st) (y + hgt)), y)
      | None => (U, y)
      end in
    let y2 := y' + hgt in
    (U', if y2 >=? sH st then 0 else y2)
  else (U, cSliceY c).

Definition copy_wrects (UC : region) (dx dy : Z) : list rect := rgn_iter (dx >? 0) (dy >? 0) UC.

Definition wcopy_of (dx dy : Z) (rc : rect) : wrect :=
  let '(x1, y1, x2, y2) := rc in WCopy x1 y1 (x2 - x1) (y2 - y1) (x1 - dx) (y1 - dy).
Definition wraw_of (rc : rect) : wrect :=
  let '(x1, y1, x2, y2) := rc in WRaw x1 y1 (x2 - x1) (y2 - y1).
(* rfbSendRectEncodingRaw: "if(!h || !w) return TRUE" *)
Definition raw_emitted (rc : rect) : bool :=
  let '(x1, y1, x2, y2) := rc in negb (x2 - x1 =? 0) && negb (y2 - y1 =? 0).

(* the client's picture after the rectangles of one update, by the RFB semantics:
   CopyRects one after the other, then the pixel rectangles with the framebuffer content *)
Definition client_apply (cf fb : Z -> Z -> Z) (copies : list rect) (dx dy : Z) (raws : list rect)
  : Z -> Z -> Z :=
  fold_left (apply_raw fb) raws (copy_seq cf copies dx dy).

(* soft-cursor clients: the cursor box joins the update when the pointer has moved *)
Definition soft_cursor (st : state) (c1 : client) (U3 : region) : client * region :=
  if cShape c1 then (c1, U3)
  else if negb (cCurX c1 =? sCurX st) || negb (cCurY c1 =? sCurY st) then
         let Ua := redraw_into st c1 U3 in
         let c1' := set_curpos c1 (sCurX st) (sCurY st) in
         (c1', redraw_into st c1' Ua)
       else (c1, U3).

(* maxRectsPerUpdate: too many rectangles are replaced by their bounding box *)
Definition coalesce (st : state) (U : region) : region :=
  if (sMaxRects st >? 0) && (rgn_count U >? sMaxRects st) then rgn_bbox U else U.

(* nRects is a 16-bit field and 0xFFFF means "terminated by LastRect": an update that would announce 65535 or
   more rectangles (copy rectangles + pixel rectangles + up to 6 pseudo-rectangles) is repaired in two stages
   (rfbserver.c, "goto countRects", fixes dccedf3 and b5537e4; the same case split as [announce_fixed] with
   two_stage = true in Wire/CountsModel.v for the Raw counting rule):
   1. the pixel region is replaced by its bounding box;
   2. if that is not enough because the copy rectangles alone reach the field size, the copy region is merged
      into the pixel region (bounding box again) and nothing is sent as CopyRect.
   Result: (copy region still sent as CopyRect, pixel region). *)
Definition count_fix (UC U : region) : region * region :=
  let nc := rgn_count UC in
  if nc + rgn_count U + 6 <? 65535 then (UC, U)
  else let U1 := rgn_bbox U in
       if nc + rgn_count U1 + 6 <? 65535 then (UC, U1)
       else (rgn_empty, rgn_bbox (rgn_or U1 UC)).
(* the part of rfbSendFramebufferUpdate after the early return: C1 = C - M,
   U2 = (slice(M) + C1) & R *)
(* [ap cf fb copies dx dy raws] = the client's picture after the rectangles of the update; for
   the Raw encoding this is [client_apply]; any encoding whose pixel rectangles deliver the
   framebuffer content gives the same function (C02_any_lossless_encoding) *)
Definition send_update_gen (ap : (Z -> Z -> Z) -> (Z -> Z -> Z) -> list rect -> Z -> Z -> list rect -> Z -> Z -> Z)
           (st : state) (c : client) (sy : Z) (C1 U2 : region) (sendShape : bool)
  : option (client * option wmsg) :=
  let M := cM c in
  let dx := cDX c in let dy := cDY c in
  let UC := r_and (r_and C1 (cR c)) (rgn_offset (cR c) dx dy) in
  let U3 := r_sub U2 UC in
  let M' := r_sub (r_sub (rgn_or M C1) U3) UC in
  let c1 := set_slice (set_regions c M' rgn_empty 0 0 rgn_empty) sy in
  let '(c2, U3c) := soft_cursor st c1 U3 in
  let UCf := fst (count_fix UC U3c) in
  let U4 := coalesce st (snd (count_fix UC U3c)) in
  let copies := copy_wrects UCf dx dy in
  let raws := filter raw_emitted (rgn_iter false false U4) in
  let nrects := (rgn_count UCf + rgn_count U4 + (if sendShape then 1 else 0)) mod 65536 in
  let shapeRect := if sendShape
                   then [match sCursor st with
                         | Some (xh, yh, cw, ch) =>
                             if (cw =? 0) || (ch =? 0) then WCursor 0 0 0 0 else WCursor xh yh cw ch
                         | None => WCursor 0 0 0 0
                         end]
                   else [] in
  let c3 := if sendShape
            then set_flags c2 (cUseCopy c2) (cShape c2) false (cReady c2) (cUseNewFB c2) (cUseExt c2)
            else c2 in
  (* the C code reads the framebuffer inside the pixel rectangles, the client reads its
     picture at the CopyRect sources: both must lie inside the respective picture *)
  if rects_inside (sW st) (sH st) raws
     && rects_inside (cPW c) (cPH c) raws
     && rects_inside (cPW c) (cPH c) copies
     && rects_inside (cPW c) (cPH c) (map (fun rc => rect_shift rc (- dx) (- dy)) copies)
  then
    let cf := ap (pic_get (cPic c)) (fb_for st c) copies dx dy raws in
    Some (set_pic c3 (cPW c) (cPH c) (pic_build (cPW c) (cPH c) cf),
          Some (nrects, shapeRect ++ map (wcopy_of dx dy) copies ++ map wraw_of raws))
  else None.

Definition send_update := send_update_gen client_apply.

(* scaled clients (cl->scaledScreen != cl->screen): only the size bookkeeping is modelled; their
   requests and pixel updates go through the floating-point coordinate scaling of scale.c (property
   C17) and are outside this model: explicit [None] *)
Definition scaled_guard (c : client) : bool :=
  match cScaled c with
  | Some _ => negb (cUseNewFB c && cNewFBPending c)
  | None => false
  end.

(* the size announced to a client: that of cl->scaledScreen *)
Definition announced_size (st : state) (c : client) : Z * Z :=
  match cScaled c with Some wh => wh | None => (sW st, sH st) end.

Definition send_client_gen (ap : (Z -> Z -> Z) -> (Z -> Z -> Z) -> list rect -> Z -> Z -> list rect -> Z -> Z -> Z)
           (st : state) (c : client) : option (client * option wmsg) :=
  if scaled_guard c then None else
  if cUseNewFB c && cNewFBPending c then
    (* size short-circuit: one pseudo-rectangle; the (unscaled) picture the model keeps for the
       client takes the framebuffer size, the message carries the size of cl->scaledScreen *)
    let W := sW st in let H := sH st in
    let '(aw, ah) := announced_size st c in
    let c0 := set_size_state c false (if cUseExt c then 0 else cReqChange c)
                             (if cUseExt c then 0 else cLastErr c) in
    (* the client's picture changes (content undefined, here 0) only if the size does *)
    let c1 := client_resize c0 W H in
    (* rfbSendExtDesktopSize: reason and status go out as 16-bit fields (Swap16IfLE of the int) *)
    Some (c1, Some (1, [if cUseExt c then WExt (cReqChange c mod 65536) (cLastErr c mod 65536) aw ah else WNewFB aw ah]))
  else
  let sendShape := cShape c && cCurChanged c && cReady c in
  let C1 := r_sub (cC c) (cM c) in
  let '(U0, sy) := slice_region st c (cM c) in
  let '(U2, b) := rgn_and (rgn_or U0 C1) (cR c) in
  if negb b && rgn_is_empty U2
     && (cShape c || ((cCurX c =? sCurX st) && (cCurY c =? sCurY st)))
     && negb sendShape
  then Some (set_slice (set_regions c (cM c) C1 (cDX c) (cDY c) (cR c)) sy, None)
  else send_update_gen ap st c sy C1 U2 sendShape.

Definition send_client := send_client_gen client_apply.

(* rfbUpdateClient: the update is sent at once when deferUpdateTime = 0; otherwise the first call
   records the time (tv_usec = 0 means "not deferring", hence the ++), later calls send once more than
   deferUpdateTime ms have passed (or the clock went backwards) *)
Definition elapsed_ms (st : state) (c : client) : Z :=
  (xNowS (sExt st) - xDefS (cExt c)) * 1000 + Z.quot (xNowU (sExt st) - xDefU (cExt c)) 1000.

Definition tick_client (st : state) (c : client) : option (client * option wmsg) :=
  if scaled_guard c then None else
  if pending st c && negb (rgn_is_empty (cR c)) then
    if xDefer (sExt st) =? 0 then send_client st c
    else if xDefU (cExt c) =? 0 then
      let u := xNowU (sExt st) in
      Some (set_cext c (ext_timer (cExt c) (xNowS (sExt st)) (if u =? 0 then 1 else u)), None)
    else if (xNowS (sExt st) <? xDefS (cExt c)) || (elapsed_ms st c >? xDefer (sExt st))
         then send_client st (set_cext c (ext_timer (cExt c) (xDefS (cExt c)) 0))
         else Some (c, None)
  else Some (c, None).

(* ------------------------------------------------------------------ SetPixelFormat *)
(* a client that changes its pixel format mid-session: SetPixelFormat (format of the given depth,
   laid out like the server's formats) immediately followed by a non-incremental request for the
   whole screen - a conforming client does not rely on pixels it holds in the old format *)
Definition setpf_client (st : state) (bpp : Z) (c : client) : client :=
  (* rfbSetTranslateFunction: selected for (current server format -> the client's new format) *)
  let c1 := set_flags (set_bpp c (mkX (sBpp st) bpp)) (cUseCopy c) (cShape c) (cCurChanged c) true (cUseNewFB c) (cUseExt c) in
  request_client (sW st) (sH st) false 0 0 (sW st) (sH st) c1.

(* ------------------------------------------------------------------ SetScale *)
(* rfbScalingSetup(cl, W/scale, H/scale) + rfbSendNewScaleSize: bookkeeping only *)
Definition setscale_client (st : state) (n : Z) (c : client) : state_ext * client * option wmsg :=
  let w := Z.quot (sW st) n in let h := Z.quot (sH st) n in
  let e := sExt st in
  let is_main := (w =? sW st) && (h =? sH st) in
  let in_chain := existsb (fun '(a, b) => (a =? w) && (b =? h)) (xChain e) in
  (* rfbScaledScreenAllocate refuses a zero dimension: things are left alone *)
  let ok := is_main || in_chain || negb ((w =? 0) || (h =? 0)) in
  let e' := if is_main || in_chain || negb ok then e
            else mkSExt (xDefer e) (xNowS e) (xNowU e) ((w, h) :: xChain e) in
  let c1 := if ok
            then set_size_state (set_cext c (ext_scaled (cExt c) (if is_main then None else Some (w, h))))
                                true (cReqChange c) (cLastErr c)
            else c in
  (* rfbSendNewScaleSize *)
  if cUseNewFB c1 && cNewFBPending c1 then (e', c1, None)
  else
    let '(aw, ah) := announced_size st c1 in
    (e', set_size_state c1 false (cReqChange c1) (cLastErr c1), Some (-1, [WResize aw ah])).


(* the pixel value the application draws (the harness computes the same) *)
Definition draw_value (bpp seed x y : Z) : Z :=
  (seed * 40503 + x * 257 + y * 4099 + 1) mod (256 ^ bpp).
(* a few-colour pattern: the colours of the list laid out diagonally (palette encoders, hash collisions) *)
Definition pal_value (bpp pat : Z) (cols : list Z) (x y : Z) : Z :=
  (nth (Z.to_nat ((x * 3 + y * 5 + pat) mod (Z.of_nat (length cols)))) cols 0) mod (256 ^ bpp).

(* ------------------------------------------------------------------ rfbNewFramebuffer *)
Definition newfb_client (w h : Z) (c : client) : client :=
  let c1 := set_regions c (rgn_create_rect 0 0 w h) rgn_empty 0 0 (cR c) in
  if cUseNewFB c1 then set_size_state c1 true (cReqChange c1) (cLastErr c1)
  else client_resize c1 w h.     (* see the modelling assumption at setenc_client *)

(* fix_C16_2: the scaled screens are rebuilt for the new framebuffer.  The factor of a scaled client is
   recovered as the smallest f with oldW/f = sw and oldH/f = sh (the loop of rfbNewFramebuffer) *)
Fixpoint find_factor (fuel : nat) (f oldW oldH sw sh : Z) : Z :=
  match fuel with
  | O => 0
  | S k => if (Z.quot oldW f =? sw) && (Z.quot oldH f =? sh) then f
           else find_factor k (f + 1) oldW oldH sw sh
  end.

(* Which clients does the re-pointing loop of rfbNewFramebuffer visit?  Since fix_C16_3 it uses
   rfbGetClientIteratorWithClosed: also the clients that are closed but not yet reaped (sock == -1, still
   in the client list until rfbProcessEvents calls rfbClientConnectionGone). *)
Definition newfb_rescale_visits_closed : bool := true.

Definition rescale_visits (c : client) : bool :=
  cLive c || (newfb_rescale_visits_closed && cClosed c).

Definition rescale_client (w h oldW oldH : Z) (chain : list (Z * Z)) (c : client) : list (Z * Z) * client :=
  if negb (rescale_visits c) then
    (* not visited: a closed client keeps pointing at its scaled screen, which is freed with the chain *)
    (chain, if cClosed c then match cScaled c with
                              | Some _ => set_cext c (ext_life (cExt c) 3)
                              | None => c
                              end
            else c)
  else if cClosed c then
    (* (only with rfbGetClientIteratorWithClosed) a closed client is merely pointed back at the screen *)
    (chain, set_cext c (ext_scaled (ext_life (cExt c) 1) None))
  else
  match cScaled c with
  | None => (chain, c)
  | Some (sw, sh) =>
      let f := find_factor (Z.to_nat (Z.max oldW oldH)) 1 oldW oldH sw sh in
      let unscaled := set_cext c (ext_scaled (cExt c) None) in
      if (f >? 1) && (Z.quot w f >? 0) && (Z.quot h f >? 0) then
        let nw := Z.quot w f in let nh := Z.quot h f in
        let is_main := (nw =? w) && (nh =? h) in
        let in_chain := existsb (fun '(a, b) => (a =? nw) && (b =? nh)) chain in
        (if is_main || in_chain then chain else (nw, nh) :: chain,
         set_size_state (set_cext c (ext_scaled (cExt c) (if is_main then None else Some (nw, nh))))
                        true (cReqChange c) (cLastErr c))
      else (chain, unscaled)
  end.

(* rfbNewFramebuffer: "if the server format changed (memcmp over the whole rfbPixelFormat: depth, maxima,
   shifts ...) every client's translation is selected again" (main.c: setTranslateFunction(cl)) *)
Definition reselect (oldf newf : Z) (c : client) : client :=
  if newf =? oldf then c else set_bpp c (mkX newf (tTo (cBpp c))).

(* the second half of the convergence invariant: every client's translation is the one for the current
   server format *)
Definition TransOK (st : state) : Prop := Forall (fun c => tFrom (cBpp c) = sBpp st) (sClients st).

(* the client iterator of the library visits the newest client first; the model keeps the oldest first *)
Fixpoint rescale_clients (w h oldW oldH : Z) (rev_clients : list client) (chain : list (Z * Z))
  : list (Z * Z) * list client :=
  match rev_clients with
  | [] => (chain, [])
  | c :: t => let '(ch1, c') := rescale_client w h oldW oldH chain c in
              let '(ch2, t') := rescale_clients w h oldW oldH t ch1 in
              (ch2, c' :: t')
  end.

Definition newfb_state (st : state) (w h bpp seed : Z) : state :=
  let '(chain, rcl) := rescale_clients w h (sW st) (sH st) (rev (sClients st)) [] in
  mkState w h bpp (sFBid st + 1) (pic_build w h (draw_value (fmt_bpp bpp) seed)) (sCursor st)
          (if sCurX st >=? w then w - 1 else sCurX st) (if sCurY st >=? h then h - 1 else sCurY st)
          (sMaxRects st) (sSliceH st) (map (fun c => newfb_client w h (reselect (sBpp st) bpp c)) (rev rcl))
          (mkSExt (xDefer (sExt st)) (xNowS (sExt st)) (xNowU (sExt st)) chain).

(* ------------------------------------------------------------------ SetDesktopSize *)
(* rfbserver.c:3134-3143: after an accepted request EVERY other client's reason becomes "other client",
   except (since fix_C16_4) a client whose own answer (reason "this client") has not been sent yet: F31, fixed. *)
Definition sds_keeps_own_answer : bool := true.

Definition setdesktop_one (requester : bool) (hookres : Z) (c : client) : client :=
  if requester then
    let c1 := set_size_state c (cNewFBPending c) c16_reason_client hookres in
    (* failure: the reply is forced; success: deferred until the application resizes *)
    if hookres =? 0 then c1 else set_size_state c1 true (cReqChange c1) (cLastErr c1)
  else if hookres =? 0 then
    if sds_keeps_own_answer && (cReqChange c =? c16_reason_client) then c
    else set_size_state c (cNewFBPending c) c16_reason_other (cLastErr c)
  else c.

Fixpoint setdesktop_clients_at (n : nat) (hookres : Z) (l : list client) : list client :=
  match l with
  | [] => []
  | c :: t =>
      match n with
      | O => setdesktop_one true hookres c :: map (setdesktop_one false hookres) t
      | S n' => setdesktop_one false hookres c :: setdesktop_clients_at n' hookres t
      end
  end.

(* ------------------------------------------------------------------ operations *)
Inductive op : Type :=
| OpAddClient
| OpMark (x1 y1 x2 y2 : Z)
| OpDraw (x1 y1 x2 y2 seed : Z)
| OpSchedCopy (rects : list rect) (dx dy : Z)
| OpDoCopyRect (x1 y1 x2 y2 dx dy : Z)
| OpDoCopyRegion (rects : list rect) (dx dy : Z)
| OpRequest (c : nat) (incr : bool) (x y w h : Z)
| OpSetEncodings (c : nat) (copyrect shape newfb ext : bool)
| OpSetCursor (cur : option cursor_box)
| OpKnobs (maxrects slice : Z)
| OpTick (c : nat)
| OpSend (c : nat)
| OpNewFB (w h bpp seed : Z)
| OpSetDesktopSize (c : nat) (w h nscreens hookres : Z)
| OpTime (sec usec : Z)                       (* the clock read by gettimeofday *)
| OpDefer (ms : Z)                            (* screen->deferUpdateTime *)
| OpSetPixelFormat (c : nat) (bpp : Z)
| OpSetScale (c : nat) (scale : Z)
| OpClose (c : nat)                           (* rfbCloseClient(cl): sock = -1, the client stays in the list *)
| OpReap                                      (* what rfbProcessEvents does with closed clients: rfbClientConnectionGone *)
| OpDrawPal (x1 y1 x2 y2 pat : Z) (cols : list Z).  (* the application paints a few-colour pattern *)

Fixpoint upd_nth {A} (n : nat) (l : list A) (f : A -> option (A * option wmsg))
  : option (list A * option wmsg) :=
  match l, n with
  | [], _ => None                                  (* no such client: explicit error *)
  | a :: t, O => match f a with
                 | Some (a', m) => Some (a' :: t, m)
                 | None => None
                 end
  | a :: t, S n' => match upd_nth n' t f with
                    | Some (t', m) => Some (a :: t', m)
                    | None => None
                    end
  end.

Definition out1 (c : nat) (m : option wmsg) : list (nat * wmsg) :=
  match m with Some w => [(c, w)] | None => [] end.

Definition do_copy (st : state) (K : region) (dx dy : Z) (newf : Z -> Z -> Z) : option state :=
  if copy_inside (sW st) (sH st) K dx dy then
    match map_opt (sched_copy_client (sCursor st) K dx dy) (sClients st) with
    | Some cl => Some (set_clients (set_fb st (pic_build (sW st) (sH st) newf)) cl)
    | None => None
    end
  else None.

(* one operation: new state and the messages put on the wire (client index, message);
   [None] = explicit error (crash of the C code, out-of-range access, unknown client) *)
Definition step0 (st : state) (o : op) : option (state * list (nat * wmsg)) :=
  match o with
  | OpAddClient => Some (set_clients st (sClients st ++ [new_client st]), [])
  | OpMark x1 y1 x2 y2 =>
      match mark_clip (sW st) (sH st) x1 y1 x2 y2 with
      | None => Some (st, [])
      | Some rc => Some (set_clients st (map (mark_client (rect_rgn rc)) (sClients st)), [])
      end
  | OpDraw x1 y1 x2 y2 seed =>
      match mark_clip (sW st) (sH st) x1 y1 x2 y2 with
      | None => Some (st, [])
      | Some rc =>
          let f := apply_raw (draw_value (fmt_bpp (sBpp st)) seed) (fbf st) rc in
          Some (set_clients (set_fb st (pic_build (sW st) (sH st) f))
                            (map (mark_client (rect_rgn rc)) (sClients st)), [])
      end
  | OpSchedCopy rects dx dy =>
      let K := rgn_of_rects rects in
      match do_copy st K dx dy (copy_simul (fbf st) K dx dy) with
      | Some st' => Some (st', []) | None => None end
  | OpDoCopyRect x1 y1 x2 y2 dx dy =>
      let K := rgn_create_rect x1 y1 x2 y2 in
      match do_copy st K dx dy (docopy_fun (fbf st) K dx dy) with
      | Some st' => Some (st', []) | None => None end
  | OpDoCopyRegion rects dx dy =>
      let K := rgn_of_rects rects in
      match do_copy st K dx dy (docopy_fun (fbf st) K dx dy) with
      | Some st' => Some (st', []) | None => None end
  | OpRequest c incr x y w h =>
      match upd_nth c (sClients st)
                    (fun cl => match cScaled cl with
                               | Some _ => None       (* scaled coordinates: outside the model *)
                               | None => Some (request_client (sW st) (sH st) incr x y w h cl, None)
                               end) with
      | Some (l, _) => Some (set_clients st l, [])
      | None => None
      end
  | OpSetEncodings c copyrect shape newfb ext =>
      match upd_nth c (sClients st)
                    (fun cl => Some (setenc_client st copyrect shape newfb ext cl, None)) with
      | Some (l, _) => Some (set_clients st l, [])
      | None => None
      end
  | OpSetCursor cur => Some (setcursor_state st cur, [])
  | OpKnobs maxr slice => Some (set_knobs st maxr slice, [])
  | OpTick c =>
      match upd_nth c (sClients st) (tick_client st) with
      | Some (l, m) => Some (set_clients st l, out1 c m)
      | None => None
      end
  | OpSend c =>
      match upd_nth c (sClients st) (send_client st) with
      | Some (l, m) => Some (set_clients st l, out1 c m)
      | None => None
      end
  | OpNewFB w h bpp seed =>
      if (0 <? w) && (0 <? h) && fmt_ok bpp
      then Some (newfb_state st w h bpp seed, []) else None
  | OpSetDesktopSize c w h ns hookres =>
      if (c <? length (sClients st))%nat then
        if ns =? 0 then Some (st, [])
        else Some (set_clients st (setdesktop_clients_at c hookres (sClients st)), [])
      else None
  | OpTime sec usec =>
      let e := sExt st in Some (set_sext st (mkSExt (xDefer e) sec usec (xChain e)), [])
  | OpDefer ms =>
      let e := sExt st in Some (set_sext st (mkSExt ms (xNowS e) (xNowU e) (xChain e)), [])
  | OpSetPixelFormat c bpp =>
      if (bpp =? 1) || (bpp =? 2) || (bpp =? 4) then
        match upd_nth c (sClients st)
                      (fun cl => match cScaled cl with
                                 | Some _ => None
                                 | None => Some (setpf_client st bpp cl, None)
                                 end) with
        | Some (l, _) => Some (set_clients st l, [])
        | None => None
        end
      else None
  | OpSetScale c n =>
      if n <=? 0 then None      (* scale 0: the library closes the connection *)
      else
        match nth_error (sClients st) c with
        | None => None
        | Some cl =>
            let '(e', cl', m) := setscale_client st n cl in
            match upd_nth c (sClients st) (fun _ => Some (cl', None)) with
            | Some (l, _) => Some (set_sext (set_clients st l) e', out1 c m)
            | None => None
            end
        end
  | OpClose c =>
      match upd_nth c (sClients st) (fun cl => Some (set_cext cl (ext_life (cExt cl) 1), None)) with
      | Some (l, _) => Some (set_clients st l, [])
      | None => None
      end
  | OpReap =>
      (* rfbClientConnectionGone(cl) does cl->scaledScreen->scaledScreenRefCount--: if the scaled screen
         of a closed client has been freed meanwhile this is a use after free: explicit error *)
      if existsb cDangling (sClients st) then None
      else Some (set_clients st (map (fun cl => if cClosed cl then set_cext cl (ext_life (cExt cl) 2) else cl)
                                     (sClients st)), [])
  | OpDrawPal x1 y1 x2 y2 pat cols =>
      match cols with
      | [] => None
      | _ =>
        match mark_clip (sW st) (sH st) x1 y1 x2 y2 with
        | None => Some (st, [])
        | Some rc =>
            let f := apply_raw (pal_value (fmt_bpp (sBpp st)) pat cols) (fbf st) rc in
            Some (set_clients (set_fb st (pic_build (sW st) (sH st) f))
                              (map (mark_client (rect_rgn rc)) (sClients st)), [])
        end
      end
  end.

(* operations addressed to one client need that client to be connected (its record may still be in the
   list after rfbCloseClient, or gone: the model keeps a tombstone so that indices stay stable).
   NOTE: the library's client loops (mark, copy, newfb, ...) skip closed clients; the model keeps
   updating their regions - they are never observed again, only their life flag and their scaled
   screen matter (rfbNewFramebuffer's re-pointing loop, rfbClientConnectionGone). *)
Definition op_target (o : op) : option nat :=
  match o with
  | OpRequest c _ _ _ _ _ | OpSetEncodings c _ _ _ _ | OpTick c | OpSend c
  | OpSetDesktopSize c _ _ _ _ | OpSetPixelFormat c _ | OpSetScale c _ | OpClose c => Some c
  | _ => None
  end.

Definition live_at (st : state) (c : nat) : bool :=
  match nth_error (sClients st) c with Some cl => cLive cl | None => false end.

Definition step (st : state) (o : op) : option (state * list (nat * wmsg)) :=
  match op_target o with
  | Some c => if live_at st c then step0 st o else None
  | None => step0 st o
  end.

Fixpoint run (st : state) (ops : list op) : option state :=
  match ops with
  | [] => Some st
  | o :: t => match step st o with Some (st', _) => run st' t | None => None end
  end.

(* rfbGetScreen + calloc'ed framebuffer, no clients, deferUpdateTime 0 (set by the harness), clock
   at (1000 s, 0), no scaled screens; the default cursor (myCursor), the default
   maxRectsPerUpdate and progressiveSliceHeight are re-read from main.c on every run *)
Definition init_state (W H bpp : Z) : state :=
  mkState W H bpp 0 (pic_build W H (fun _ _ => 0))
          (Some (c02_default_cursor_xhot, c02_default_cursor_yhot,
                 c02_default_cursor_w, c02_default_cursor_h))
          0 0 c02_default_max_rects c02_default_slice_height []
          (mkSExt 0 1000 0 []).

(* ------------------------------------------------------------------ executable invariant *)
(* membership read off the iterated rectangles (what the harness computes from the sra
   iterators); equals rgn_mem on well-formed regions (iter_partition) *)
Definition mem_iter (r : region) (x y : Z) : bool :=
  existsb (fun rc => rect_mem rc x y) (rgn_iter false false r).

Definition inv_pixel (st : state) (c : client) (x y : Z) : bool :=
  if mem_iter (cM c) x y then true
  else
    let '(qx, qy) := if mem_iter (cC c) x y then (x - cDX c, y - cDY c) else (x, y) in
    (0 <=? qx) && (qx <? cPW c) && (0 <=? qy) && (qy <? cPH c)
    && (pic_get (cPic c) qx qy =? fb_for st c x y).

Definition inv_client_b (st : state) (c : client) : bool :=
  forallb (fun y => forallb (fun x => inv_pixel st c x y) (zrange (sW st))) (zrange (sH st)).
