(* C16 / C02: the per-client pixel translation state.
   [cBpp c] = (tFrom, tTo): cl->format and the server format cl->translateFn was selected for.
   What reaches a client goes through THAT translation ([fb_for]); it is the framebuffer seen in the
   client's format only while tFrom = the current server format: [TransOK].  This file proves that TransOK
   is an invariant of every operation - in particular that rfbNewFramebuffer re-selects the translation
   of every client whenever the format code changes (other depth OR the same depth with other bits per
   sample), and that SetPixelFormat selects for the current server format. *)
From LV Require Import Region.RegionDefs Region.RegionSem Region.RegionProofs0 Region.RegionProofs
     Update.UpdateDefs Update.UpdateFacts Update.UpdateProofs0 Update.UpdateProofs Update.UpdateThms Update.NewFB.
From Coq Require Import ZifyBool.
Local Open Scope Z_scope.

Lemma mark_client_bpp rg c : cBpp (mark_client rg c) = cBpp c.
Proof. destruct c; reflexivity. Qed.

Lemma request_client_bpp W H incr x y w h c : cBpp (request_client W H incr x y w h c) = cBpp c.
Proof.
  unfold request_client. destruct (req_clip W H x y w h) as [[[[? ?] ?] ?]|]; [|reflexivity].
  destruct (_ || _); [reflexivity|].
  destruct incr; destruct c; csimpl; [reflexivity|]. destruct cUseExt; reflexivity.
Qed.

Lemma setenc_client_bpp st a b d e c : cBpp (setenc_client st a b d e c) = cBpp c.
Proof.
  unfold setenc_client.
  repeat match goal with
         | |- context [if ?b then _ else _] => destruct b
         end; unfold client_resize; repeat match goal with
         | |- context [if ?b then _ else _] => destruct b
         end; destruct c; reflexivity.
Qed.

Lemma setdesktop_one_bpp b hr c : cBpp (setdesktop_one b hr c) = cBpp c.
Proof.
  unfold setdesktop_one. destruct b; destruct (hr =? 0); try destruct (sds_keeps_own_answer && _); destruct c; reflexivity.
Qed.

Lemma rescale_client_bpp w h oW oH chain c : cBpp (snd (rescale_client w h oW oH chain c)) = cBpp c.
Proof.
  unfold rescale_client.
  repeat match goal with
         | |- context [if ?b then _ else _] => destruct b
         | |- context [match ?o with Some _ => _ | None => _ end] => destruct o as [[? ?]|]
         end; cbn [snd]; destruct c; reflexivity.
Qed.

Lemma rescale_clients_bpp w h oW oH (P : xlate -> Prop) l : forall chain,
  Forall (fun c => P (cBpp c)) l -> Forall (fun c => P (cBpp c)) (snd (rescale_clients w h oW oH l chain)).
Proof.
  induction l as [|c l IH]; intros chain Hl; [constructor|].
  inversion Hl; subst. cbn [rescale_clients].
  pose proof (rescale_client_bpp w h oW oH chain c) as Ec.
  destruct (rescale_client w h oW oH chain c) as [ch1 c'].
  specialize (IH ch1 H2). destruct (rescale_clients w h oW oH l ch1) as [ch2 t']. cbn [snd] in *.
  constructor; [rewrite Ec; assumption|exact IH].
Qed.

Lemma sclients_set_clients st l : sClients (set_clients st l) = l.
Proof. destruct st; reflexivity. Qed.
Lemma sbpp_set_clients st l : sBpp (set_clients st l) = sBpp st.
Proof. destruct st; reflexivity. Qed.

Definition TR (f : Z) (c : client) : Prop := tFrom (cBpp c) = f.

Lemma transok_map st (g : client -> client) :
  (forall c, cBpp (g c) = cBpp c) -> TransOK st -> Forall (TR (sBpp st)) (map g (sClients st)).
Proof.
  intros Hg HT. apply Forall_map. eapply Forall_impl; [|exact HT]. intros c Hc. unfold TR. rewrite Hg. exact Hc.
Qed.

(* rfbNewFramebuffer: every client's translation is the one for the new format afterwards *)
Lemma newfb_transok st w h bpp seed : TransOK st -> TransOK (newfb_state st w h bpp seed).
Proof.
  intros HT. unfold TransOK, newfb_state.
  pose proof (rescale_clients_bpp w h (sW st) (sH st) (fun x => tFrom x = sBpp st) (rev (sClients st)) []) as HR.
  destruct (rescale_clients w h (sW st) (sH st) (rev (sClients st)) []) as [chain rcl].
  cbn [UpdateDefs.sClients UpdateDefs.sBpp snd] in *.
  apply Forall_map. apply Forall_rev. eapply Forall_impl; [|apply HR; apply Forall_rev; exact HT].
  intros c Hc. cbv beta in Hc. rewrite newfb_client_bpp, (reselect_from _ _ _ Hc). reflexivity.
Qed.

Lemma do_copy_transok st K dx dy newf st' : TransOK st -> do_copy st K dx dy newf = Some st' -> TransOK st'.
Proof.
  intros HT. unfold do_copy. destruct (copy_inside _ _ _ _ _); [|discriminate].
  destruct (map_opt _ _) as [cl|] eqn:Em; [|discriminate]. intros Hs; inversion Hs; subst. clear Hs.
  unfold TransOK. rewrite sclients_set_clients, sbpp_set_clients.
  replace (sBpp (set_fb st _)) with (sBpp st) by (destruct st; reflexivity).
  eapply Forall_map_opt; [exact Em| |exact HT].
  intros c c' Hsc Hc. cbv beta in *.
  assert (Hb : cBpp c' = cBpp c).
  { assert (S0 : SizeOK (cPW c) (cPH c) c) by (left; split; reflexivity).
    exact (proj2 (sched_copy_size _ _ _ _ _ _ _ _ Hsc S0)). }
  rewrite Hb. exact Hc.
Qed.

Lemma upd_transok st n f l m :
  (forall a a' m', f a = Some (a', m') -> InvC (sW st) (sH st) (fb_for st a) a -> TR (sBpp st) a -> TR (sBpp st) a') ->
  Inv st -> TransOK st -> upd_nth n (sClients st) f = Some (l, m) -> Forall (TR (sBpp st)) l.
Proof.
  intros Hf (HW & HH & Hcur & Hcl) HT Hu.
  assert (Hboth : Forall (fun c => InvC (sW st) (sH st) (fb_for st c) c /\ TR (sBpp st) c) (sClients st)).
  { apply Forall_forall. intros c Hin. unfold TransOK in HT. rewrite Forall_forall in Hcl, HT. split; [apply Hcl|apply HT]; exact Hin. }
  eapply Forall_upd_nth; [exact Hu| | |exact Hboth].
  - intros a [_ Ha]. exact Ha.
  - intros a a' m' Ha [Ia Ta]. eapply Hf; eassumption.
Qed.

Lemma step0_transok st o st' out :
  Inv st -> TransOK st -> step0 st o = Some (st', out) -> TransOK st'.
Proof.
  intros HI HT Hs. pose proof HI as (HW & HH & Hcur & Hcl).
  destruct o; cbn [step0] in Hs.
  - (* AddClient *)
    inversion Hs; subst. unfold TransOK. rewrite sclients_set_clients, sbpp_set_clients.
    apply Forall_app. split; [exact HT|]. constructor; [reflexivity|constructor].
  - (* Mark *)
    destruct (mark_clip (sW st) (sH st) x1 y1 x2 y2) as [rc|]; inversion Hs; subst; [|exact HT].
    unfold TransOK. rewrite sclients_set_clients, sbpp_set_clients.
    apply transok_map; [apply mark_client_bpp|exact HT].
  - (* Draw *)
    destruct (mark_clip (sW st) (sH st) x1 y1 x2 y2) as [rc|]; inversion Hs; subst; [|exact HT].
    unfold TransOK. rewrite sclients_set_clients, sbpp_set_clients.
    replace (sBpp (set_fb st _)) with (sBpp st) by (destruct st; reflexivity).
    apply transok_map; [apply mark_client_bpp|exact HT].
  - destruct (do_copy st _ dx dy _) as [st1|] eqn:Ed; [|discriminate]. inversion Hs; subst.
    exact (do_copy_transok _ _ _ _ _ _ HT Ed).
  - destruct (do_copy st _ dx dy _) as [st1|] eqn:Ed; [|discriminate]. inversion Hs; subst.
    exact (do_copy_transok _ _ _ _ _ _ HT Ed).
  - destruct (do_copy st _ dx dy _) as [st1|] eqn:Ed; [|discriminate]. inversion Hs; subst.
    exact (do_copy_transok _ _ _ _ _ _ HT Ed).
  - (* Request *)
    destruct (upd_nth c (sClients st) _) as [[l m]|] eqn:Eu; [|discriminate]. inversion Hs; subst.
    unfold TransOK. rewrite sclients_set_clients, sbpp_set_clients.
    eapply upd_transok; [|exact HI|exact HT|exact Eu].
    intros a a' m' Ha _ Ta. cbv beta in Ha. destruct (cScaled a); [discriminate|]. inversion Ha; subst.
    unfold TR. rewrite request_client_bpp. exact Ta.
  - (* SetEncodings *)
    destruct (upd_nth c (sClients st) _) as [[l m]|] eqn:Eu; [|discriminate]. inversion Hs; subst.
    unfold TransOK. rewrite sclients_set_clients, sbpp_set_clients.
    eapply upd_transok; [|exact HI|exact HT|exact Eu].
    intros a a' m' Ha _ Ta. inversion Ha; subst. unfold TR. rewrite setenc_client_bpp. exact Ta.
  - (* SetCursor *)
    inversion Hs; subst. clear Hs. unfold TransOK, setcursor_state.
    rewrite sclients_set_clients, sbpp_set_clients.
    replace (sBpp (set_cursor _ cur)) with (sBpp st) by (destruct st; reflexivity).
    apply Forall_map.
    assert (H1 : Forall (TR (sBpp st)) (match sCursor st with
                   | Some _ => map (fun c => if cShape c then c else redraw_cursor_M st c) (sClients st)
                   | None => sClients st end)).
    { destruct (sCursor st); [|exact HT]. apply transok_map; [|exact HT].
      intros c0. destruct (cShape c0); [reflexivity|destruct c0; reflexivity]. }
    eapply Forall_impl; [|exact H1]. intros c0 Hc. unfold TR in *.
    match goal with |- tFrom (cBpp (if ?b then ?x else ?y)) = _ => destruct b end; destruct c0; exact Hc.
  - (* Knobs *)
    inversion Hs; subst. unfold TransOK. destruct st; exact HT.
  - (* Tick *)
    destruct (upd_nth c (sClients st) _) as [[l m]|] eqn:Eu; [|discriminate]. inversion Hs; subst.
    unfold TransOK. rewrite sclients_set_clients, sbpp_set_clients.
    eapply upd_transok; [|exact HI|exact HT|exact Eu].
    intros a a' m' Ha Ia Ta. destruct (inv_tick st a a' m' HW HH Ia Ha) as [_ G2]. unfold TR. rewrite G2. exact Ta.
  - (* Send *)
    destruct (upd_nth c (sClients st) _) as [[l m]|] eqn:Eu; [|discriminate]. inversion Hs; subst.
    unfold TransOK. rewrite sclients_set_clients, sbpp_set_clients.
    eapply upd_transok; [|exact HI|exact HT|exact Eu].
    intros a a' m' Ha Ia Ta. destruct (inv_send st a a' m' HW HH Ia Ha) as [_ G2]. unfold TR. rewrite G2. exact Ta.
  - (* NewFB *)
    destruct ((0 <? w) && (0 <? h) && fmt_ok bpp); [|discriminate]. inversion Hs; subst.
    apply newfb_transok. exact HT.
  - (* SetDesktopSize *)
    destruct (c <? length (sClients st))%nat; [|discriminate].
    destruct (nscreens =? 0); inversion Hs; subst; [exact HT|].
    unfold TransOK. rewrite sclients_set_clients, sbpp_set_clients.
    clear Hs Hcl HI. revert c. unfold TransOK in HT. induction HT as [|a l Ha Hl IH]; intros n; [destruct n; constructor|].
    destruct n; cbn [setdesktop_clients_at].
    + constructor; [unfold TR; rewrite setdesktop_one_bpp; exact Ha|].
      apply Forall_map. eapply Forall_impl; [|exact Hl]. intros a0 Ha0. unfold TR. rewrite setdesktop_one_bpp. exact Ha0.
    + constructor; [unfold TR; rewrite setdesktop_one_bpp; exact Ha|apply IH].
  - (* Time *) inversion Hs; subst. unfold TransOK. destruct st; exact HT.
  - (* Defer *) inversion Hs; subst. unfold TransOK. destruct st; exact HT.
  - (* SetPixelFormat *)
    destruct ((bpp =? 1) || (bpp =? 2) || (bpp =? 4)); [|discriminate].
    destruct (upd_nth c (sClients st) _) as [[l m]|] eqn:Eu; [|discriminate]. inversion Hs; subst.
    unfold TransOK. rewrite sclients_set_clients, sbpp_set_clients.
    eapply upd_transok; [|exact HI|exact HT|exact Eu].
    intros a a' m' Ha Ia Ta. cbv beta in Ha. destruct (cScaled a); [discriminate|]. inversion Ha; subst.
    unfold TR. rewrite (proj2 (inv_setpf st (fb_for st a) (fb_for st a) bpp a HW HH Ia)). reflexivity.
  - (* SetScale *)
    destruct (scale <=? 0); [discriminate|].
    destruct (nth_error (sClients st) c) as [cl|] eqn:En; [|discriminate].
    destruct (setscale_client st scale cl) as [[e' cl'] m] eqn:Ess.
    destruct (upd_nth c (sClients st) _) as [[l m0]|] eqn:Eu; [|discriminate]. inversion Hs; subst.
    unfold TransOK.
    replace (sClients (set_sext (set_clients st l) e')) with l by (destruct st; reflexivity).
    replace (sBpp (set_sext (set_clients st l) e')) with (sBpp st) by (destruct st; reflexivity).
    assert (Icl : InvC (sW st) (sH st) (fb_for st cl) cl).
    { rewrite Forall_forall in Hcl. apply Hcl. eapply nth_error_In; eassumption. }
    assert (Tcl : TR (sBpp st) cl).
    { unfold TransOK in HT. rewrite Forall_forall in HT. apply HT. eapply nth_error_In; eassumption. }
    destruct (inv_setscale st _ _ _ _ _ _ Icl Ess) as [_ G2].
    eapply upd_transok; [|exact HI|exact HT|exact Eu].
    intros a a' m' Ha _ _. inversion Ha; subst. unfold TR. rewrite G2. exact Tcl.
  - (* Close *)
    destruct (upd_nth c (sClients st) _) as [[l m]|] eqn:Eu; [|discriminate]. inversion Hs; subst.
    unfold TransOK. rewrite sclients_set_clients, sbpp_set_clients.
    eapply upd_transok; [|exact HI|exact HT|exact Eu].
    intros a a' m' Ha _ Ta. inversion Ha; subst. destruct a; exact Ta.
  - (* Reap *)
    destruct (existsb cDangling (sClients st)); [discriminate|]. inversion Hs; subst.
    unfold TransOK. rewrite sclients_set_clients, sbpp_set_clients.
    apply transok_map; [|exact HT]. intros a. destruct (cClosed a); [destruct a|]; reflexivity.
  - (* DrawPal *)
    destruct cols as [|col0 cols']; [discriminate|].
    destruct (mark_clip (sW st) (sH st) x1 y1 x2 y2) as [rc|]; inversion Hs; subst; [|exact HT].
    unfold TransOK. rewrite sclients_set_clients, sbpp_set_clients.
    replace (sBpp (set_fb st _)) with (sBpp st) by (destruct st; reflexivity).
    apply transok_map; [apply mark_client_bpp|exact HT].
Qed.

(* every operation keeps every client's translation selected for the current server format *)
Theorem step_transok st o st' out :
  Inv st -> TransOK st -> step st o = Some (st', out) -> TransOK st'.
Proof.
  intros HI HT. unfold step. destruct (op_target o) as [c|]; [destruct (live_at st c); [|discriminate]|];
    apply step0_transok; assumption.
Qed.

Lemma init_transok W H bpp : TransOK (init_state W H bpp).
Proof. constructor. Qed.

Theorem run_transok ops : forall st st',
  Inv st -> run_ok st ops -> TransOK st -> run st ops = Some st' -> TransOK st'.
Proof.
  induction ops as [|o t IH]; intros st st' HI Hok HT Hr; cbn in Hr.
  - inversion Hr; subst. exact HT.
  - destruct Hok as [Ho Hrest]. destruct (step st o) as [[st1 out]|] eqn:Es; [|discriminate].
    apply (IH st1); [exact (step_inv _ _ _ _ HI Ho Es)|exact (Hrest _ _ eq_refl)|exact (step_transok _ _ _ _ HI HT Es)|exact Hr].
Qed.

(* convergence, in terms of the CURRENT server format: an idle client of an invariant state whose translation
   is up to date holds the framebuffer translated from the current server format to its own format *)
Theorem idle_converged_current st c :
  Inv st -> TransOK st -> In c (sClients st) -> pending st c = false ->
  forall x y, inS (sW st) (sH st) x y ->
    pic_get (cPic c) x y = translate (sBpp st) (tTo (cBpp c)) (fbf st x y).
Proof.
  intros HI HT Hin Hp x y Hxy. unfold TransOK in HT. rewrite Forall_forall in HT.
  destruct (idle_converged st c HI Hin Hp) as (_ & _ & Hc). rewrite (Hc x y Hxy). unfold fb_for.
  rewrite (HT c Hin). reflexivity.
Qed.

(* the mechanism matters: WITHOUT the re-selection (the client keeps the translation for the old server
   format) TransOK fails as soon as the format code changes *)
Lemma no_reselect_breaks oldf newf c :
  newf <> oldf -> tFrom (cBpp c) = oldf -> tFrom (cBpp c) <> newf.
Proof. intros Hn Hf. rewrite Hf. auto. Qed.
