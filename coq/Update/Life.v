(* C16: closed / reaped clients and their scaled screens over whole histories.
   [xLife] of a client: 0 connected, 1 closed (rfbCloseClient, still in the client list), 2 reaped,
   3 closed AND pointing at a scaled screen that rfbNewFramebuffer has freed (the F12c situation:
   rfbClientConnectionGone would touch freed memory, OpReap is the explicit error).
   This file proves that 3 is unreachable: no operation produces it (rfbNewFramebuffer re-points closed
   clients since fix_C16_3) and every other operation leaves the life flag alone - so reaping never
   fails in a reachable state. *)
From LV Require Import Region.RegionDefs Region.RegionSem Region.RegionProofs0 Region.RegionProofs
     Update.UpdateDefs Update.UpdateFacts Update.UpdateProofs0 Update.UpdateProofs Update.UpdateThms Update.NewFB.
From Coq Require Import ZifyBool.
Local Open Scope Z_scope.

Definition life (c : client) : Z := xLife (cExt c).
Definition NoDangling (st : state) : Prop := Forall (fun c => life c <> 3) (sClients st).

Ltac lsimpl := unfold life; csimpl; cbn [xLife cExt ext_timer ext_scaled ext_life].

Lemma life_mark rg c : life (mark_client rg c) = life c.
Proof. destruct c; reflexivity. Qed.

Lemma life_request W H incr x y w h c : life (request_client W H incr x y w h c) = life c.
Proof.
  unfold request_client. destruct (req_clip W H x y w h) as [[[[? ?] ?] ?]|]; [|reflexivity].
  destruct (_ || _); [reflexivity|].
  destruct incr; destruct c; lsimpl; [reflexivity|]. destruct cUseExt; reflexivity.
Qed.

Lemma life_resize c W H : life (client_resize c W H) = life c.
Proof. unfold client_resize. destruct (_ && _); [reflexivity|destruct c; reflexivity]. Qed.

Lemma life_setenc st a b d e c : life (setenc_client st a b d e c) = life c.
Proof.
  unfold setenc_client.
  repeat match goal with
         | |- context [if ?b then _ else _] => destruct b
         end; unfold client_resize; repeat match goal with
         | |- context [if ?b then _ else _] => destruct b
         end; destruct c; reflexivity.
Qed.

Lemma life_setdesktop b hr c : life (setdesktop_one b hr c) = life c.
Proof.
  unfold setdesktop_one. destruct b; destruct (hr =? 0); try destruct (sds_keeps_own_answer && _); destruct c; reflexivity.
Qed.

Lemma life_sched cur K dx dy c c' : sched_copy_client cur K dx dy c = Some c' -> life c' = life c.
Proof.
  unfold sched_copy_client. destruct c; lsimpl.
  destruct (cUseCopy && _); [|destruct (negb (rgn_is_empty cC)); intros Hs; inversion Hs; subst; reflexivity].
  destruct (negb (rgn_is_empty cC)); [destruct (negb (cDX =? dx) || negb (cDY =? dy))|];
    (destruct cShape; [intros Hs; inversion Hs; subst; reflexivity|]);
    destruct cur as [[[[xh yh] cw] ch]|];
    intros Hs; inversion Hs; subst; reflexivity.
Qed.

Lemma life_soft_cursor st c1 U3 c2 U3c : soft_cursor st c1 U3 = (c2, U3c) -> life c2 = life c1.
Proof.
  unfold soft_cursor. destruct (cShape c1); [intros Hs; inversion Hs; reflexivity|].
  destruct (_ || _); intros Hs; inversion Hs; subst; [destruct c1|]; reflexivity.
Qed.

Lemma life_send st c c' m : send_client st c = Some (c', m) -> life c' = life c.
Proof.
  unfold send_client, send_client_gen.
  destruct (scaled_guard c); [discriminate|].
  destruct (cUseNewFB c && cNewFBPending c).
  { destruct (announced_size st c) as [aw ah]. intros Hs; inversion Hs; subst.
    rewrite life_resize. destruct c; reflexivity. }
  destruct (slice_region st c (cM c)) as [U0 sy].
  destruct (rgn_and _ _) as [U2 b].
  destruct (_ && _ && _ && _).
  { intros Hs; inversion Hs; subst. destruct c; reflexivity. }
  unfold send_update_gen.
  destruct (soft_cursor st _ _) as [c2 U3c] eqn:Esc.
  apply life_soft_cursor in Esc.
  destruct (_ && _ && _ && _); [|discriminate].
  intros Hs; inversion Hs; subst. clear Hs.
  transitivity (life c2); [|rewrite Esc; destruct c; reflexivity].
  destruct (cShape c && cCurChanged c && cReady c); destruct c2; reflexivity.
Qed.

Lemma life_tick st c c' m : tick_client st c = Some (c', m) -> life c' = life c.
Proof.
  unfold tick_client. destruct (scaled_guard c); [discriminate|].
  destruct (pending st c && negb (rgn_is_empty (cR c))); [|intros Hs; inversion Hs; reflexivity].
  destruct (xDefer (sExt st) =? 0); [apply life_send|].
  destruct (xDefU (cExt c) =? 0); [intros Hs; inversion Hs; subst; destruct c; reflexivity|].
  destruct (_ || _); [|intros Hs; inversion Hs; reflexivity].
  intros Hs. apply life_send in Hs. rewrite Hs. destruct c; reflexivity.
Qed.

Lemma life_setpf st bpp c : life (setpf_client st bpp c) = life c.
Proof. unfold setpf_client. rewrite life_request. destruct c; reflexivity. Qed.

Lemma life_setscale st n c e' c' m : setscale_client st n c = (e', c', m) -> life c' = life c.
Proof.
  unfold setscale_client. cbv zeta.
  set (ok := _ || _ || negb _).
  set (c1 := if ok then _ else c).
  assert (H1 : life c1 = life c) by (unfold c1; destruct ok; [destruct c|]; reflexivity).
  destruct (cUseNewFB c1 && cNewFBPending c1); [intros Hs; inversion Hs; subst; exact H1|].
  destruct (announced_size st c1) as [aw ah]. intros Hs; inversion Hs; subst. rewrite <- H1. destruct c1; reflexivity.
Qed.

Lemma life_newfb_client w h c : life (newfb_client w h c) = life c.
Proof.
  unfold newfb_client. match goal with |- context [if ?b then _ else _] => destruct b end;
    [destruct c; reflexivity|]. rewrite life_resize. destruct c; reflexivity.
Qed.

Lemma life_reselect a b c : life (reselect a b c) = life c.
Proof. unfold reselect. destruct (b =? a); [|destruct c]; reflexivity. Qed.

Lemma rescale_clients_nodangling w h oW oH l : forall chain,
  Forall (fun c => life c <> 3) (snd (rescale_clients w h oW oH l chain)).
Proof.
  induction l as [|c l IH]; intros chain; [constructor|].
  cbn [rescale_clients].
  pose proof (rescale_client_not_dangling w h oW oH chain c) as Ec.
  destruct (rescale_client w h oW oH chain c) as [ch1 c'].
  specialize (IH ch1). destruct (rescale_clients w h oW oH l ch1) as [ch2 t']. cbn [snd] in *.
  constructor; [|exact IH]. unfold cDangling in Ec. unfold life. lia.
Qed.

Lemma sclients_set_clients st l : sClients (set_clients st l) = l.
Proof. destruct st; reflexivity. Qed.

Lemma nodangling_map (g : client -> client) l :
  (forall c, life (g c) = life c) -> Forall (fun c => life c <> 3) l -> Forall (fun c => life c <> 3) (map g l).
Proof.
  intros Hg Hl. apply Forall_map. eapply Forall_impl; [|exact Hl]. intros c Hc. cbv beta. rewrite Hg. exact Hc.
Qed.

Lemma nodangling_upd f n l l' m :
  (forall a a' m', f a = Some (a', m') -> life a <> 3 -> life a' <> 3) ->
  Forall (fun c => life c <> 3) l -> upd_nth n l f = Some (l', m) -> Forall (fun c => life c <> 3) l'.
Proof.
  intros Hf Hl Hu. eapply Forall_upd_nth; [exact Hu| | |exact Hl].
  - intros a Ha. exact Ha.
  - intros a a' m' Ha La. eapply Hf; eassumption.
Qed.

Lemma do_copy_nodangling st K dx dy newf st' : NoDangling st -> do_copy st K dx dy newf = Some st' -> NoDangling st'.
Proof.
  intros HN. unfold do_copy. destruct (copy_inside _ _ _ _ _); [|discriminate].
  destruct (map_opt _ _) as [cl|] eqn:Em; [|discriminate]. intros Hs; inversion Hs; subst. clear Hs.
  unfold NoDangling. rewrite sclients_set_clients.
  eapply Forall_map_opt; [exact Em| |exact HN].
  intros c c' Hsc Hc. cbv beta in *. rewrite (life_sched _ _ _ _ _ _ Hsc). exact Hc.
Qed.

Lemma step0_nodangling st o st' out : NoDangling st -> step0 st o = Some (st', out) -> NoDangling st'.
Proof.
  intros HN Hs. unfold NoDangling in *.
  destruct o; cbn [step0] in Hs.
  - inversion Hs; subst. rewrite sclients_set_clients.
    apply Forall_app. split; [exact HN|]. constructor; [|constructor]. unfold life, new_client. cbn. lia.
  - destruct (mark_clip _ _ _ _ _ _) as [rc|]; inversion Hs; subst; [|exact HN].
    rewrite sclients_set_clients. apply nodangling_map; [apply life_mark|exact HN].
  - destruct (mark_clip _ _ _ _ _ _) as [rc|]; inversion Hs; subst; [|exact HN].
    rewrite sclients_set_clients.
    apply nodangling_map; [apply life_mark|exact HN].
  - destruct (do_copy st _ dx dy _) as [st1|] eqn:Ed; [|discriminate]. inversion Hs; subst.
    exact (do_copy_nodangling _ _ _ _ _ _ HN Ed).
  - destruct (do_copy st _ dx dy _) as [st1|] eqn:Ed; [|discriminate]. inversion Hs; subst.
    exact (do_copy_nodangling _ _ _ _ _ _ HN Ed).
  - destruct (do_copy st _ dx dy _) as [st1|] eqn:Ed; [|discriminate]. inversion Hs; subst.
    exact (do_copy_nodangling _ _ _ _ _ _ HN Ed).
  - destruct (upd_nth c (sClients st) _) as [[l m]|] eqn:Eu; [|discriminate]. inversion Hs; subst.
    rewrite sclients_set_clients. eapply nodangling_upd; [|exact HN|exact Eu].
    intros a a' m' Ha La. cbv beta in Ha. destruct (cScaled a); [discriminate|]. inversion Ha; subst.
    rewrite life_request. exact La.
  - destruct (upd_nth c (sClients st) _) as [[l m]|] eqn:Eu; [|discriminate]. inversion Hs; subst.
    rewrite sclients_set_clients. eapply nodangling_upd; [|exact HN|exact Eu].
    intros a a' m' Ha La. inversion Ha; subst. rewrite life_setenc. exact La.
  - inversion Hs; subst. clear Hs. unfold setcursor_state. rewrite sclients_set_clients.
    apply Forall_map.
    assert (H1 : Forall (fun c => life c <> 3) (match sCursor st with
                   | Some _ => map (fun c => if cShape c then c else redraw_cursor_M st c) (sClients st)
                   | None => sClients st end)).
    { destruct (sCursor st); [|exact HN]. apply nodangling_map; [|exact HN].
      intros c0. destruct (cShape c0); [reflexivity|destruct c0; reflexivity]. }
    eapply Forall_impl; [|exact H1]. intros c0 Hc.
    match goal with |- life (if ?b then ?x else ?y) <> 3 => destruct b end; destruct c0; exact Hc.
  - inversion Hs; subst. destruct st; exact HN.
  - destruct (upd_nth c (sClients st) _) as [[l m]|] eqn:Eu; [|discriminate]. inversion Hs; subst.
    rewrite sclients_set_clients. eapply nodangling_upd; [|exact HN|exact Eu].
    intros a a' m' Ha La. rewrite (life_tick _ _ _ _ Ha). exact La.
  - destruct (upd_nth c (sClients st) _) as [[l m]|] eqn:Eu; [|discriminate]. inversion Hs; subst.
    rewrite sclients_set_clients. eapply nodangling_upd; [|exact HN|exact Eu].
    intros a a' m' Ha La. rewrite (life_send _ _ _ _ Ha). exact La.
  - destruct (_ && _ && fmt_ok bpp); [|discriminate]. inversion Hs; subst. clear Hs.
    unfold newfb_state.
    pose proof (rescale_clients_nodangling w h (sW st) (sH st) (rev (sClients st)) []) as HR.
    destruct (rescale_clients w h (sW st) (sH st) (rev (sClients st)) []) as [chain rcl].
    cbn [UpdateDefs.sClients snd] in *.
    apply Forall_map. apply Forall_rev. eapply Forall_impl; [|exact HR].
    intros c0 Hc. cbv beta. rewrite life_newfb_client, life_reselect. exact Hc.
  - destruct (c <? length (sClients st))%nat; [|discriminate].
    destruct (nscreens =? 0); inversion Hs; subst; [exact HN|].
    rewrite sclients_set_clients. clear Hs. revert c.
    induction HN as [|a l Ha Hl IH]; intros n; [destruct n; constructor|].
    destruct n; cbn [setdesktop_clients_at].
    + constructor; [rewrite life_setdesktop; exact Ha|]. apply nodangling_map; [apply life_setdesktop|exact Hl].
    + constructor; [rewrite life_setdesktop; exact Ha|apply IH].
  - inversion Hs; subst. destruct st; exact HN.
  - inversion Hs; subst. destruct st; exact HN.
  - destruct (_ || _ || _); [|discriminate].
    destruct (upd_nth c (sClients st) _) as [[l m]|] eqn:Eu; [|discriminate]. inversion Hs; subst.
    rewrite sclients_set_clients. eapply nodangling_upd; [|exact HN|exact Eu].
    intros a a' m' Ha La. cbv beta in Ha. destruct (cScaled a); [discriminate|]. inversion Ha; subst.
    rewrite life_setpf. exact La.
  - destruct (scale <=? 0); [discriminate|].
    destruct (nth_error (sClients st) c) as [cl|] eqn:En; [|discriminate].
    destruct (setscale_client st scale cl) as [[e' cl'] m] eqn:Ess.
    destruct (upd_nth c (sClients st) _) as [[l m0]|] eqn:Eu; [|discriminate]. inversion Hs; subst.
    replace (sClients (set_sext (set_clients st l) e')) with l by (destruct st; reflexivity).
    assert (Lcl : life cl <> 3).
    { rewrite Forall_forall in HN. apply HN. eapply nth_error_In; eassumption. }
    eapply nodangling_upd; [|exact HN|exact Eu].
    intros a a' m' Ha _. inversion Ha; subst. rewrite (life_setscale _ _ _ _ _ _ Ess). exact Lcl.
  - destruct (upd_nth c (sClients st) _) as [[l m]|] eqn:Eu; [|discriminate]. inversion Hs; subst.
    rewrite sclients_set_clients. eapply nodangling_upd; [|exact HN|exact Eu].
    intros a a' m' Ha _. inversion Ha; subst. unfold life. destruct a; cbn. lia.
  - destruct (existsb cDangling (sClients st)); [discriminate|]. inversion Hs; subst.
    rewrite sclients_set_clients. apply Forall_map. eapply Forall_impl; [|exact HN].
    intros a La. cbv beta. destruct (cClosed a); [|exact La]. unfold life. destruct a; cbn. lia.
  - destruct cols as [|col0 cols']; [discriminate|].
    destruct (mark_clip _ _ _ _ _ _) as [rc|]; inversion Hs; subst; [|exact HN].
    rewrite sclients_set_clients.
    apply nodangling_map; [apply life_mark|exact HN].
Qed.

Theorem step_nodangling st o st' out : NoDangling st -> step st o = Some (st', out) -> NoDangling st'.
Proof.
  intros HN. unfold step. destruct (op_target o) as [c|]; [destruct (live_at st c); [|discriminate]|];
    apply step0_nodangling; assumption.
Qed.

Theorem run_nodangling ops : forall st st', NoDangling st -> run st ops = Some st' -> NoDangling st'.
Proof.
  induction ops as [|o t IH]; intros st st' HN Hr; cbn in Hr.
  - inversion Hr; subst. exact HN.
  - destruct (step st o) as [[st1 out]|] eqn:Es; [|discriminate].
    apply (IH st1); [exact (step_nodangling _ _ _ _ HN Es)|exact Hr].
Qed.

Lemma init_nodangling W H bpp : NoDangling (init_state W H bpp).
Proof. constructor. Qed.

(* reaping is total in every reachable state: rfbClientConnectionGone never meets a freed scaled screen *)
Theorem reap_total_reachable W H bpp ops st :
  run (init_state W H bpp) ops = Some st -> exists st', step st OpReap = Some (st', []).
Proof.
  intros Hr. pose proof (run_nodangling ops _ _ (init_nodangling W H bpp) Hr) as HN.
  apply reap_partial. unfold NoDangling in HN.
  destruct (existsb cDangling (sClients st)) eqn:E; [|reflexivity].
  apply existsb_exists in E. destruct E as (c & Hin & Hd). rewrite Forall_forall in HN.
  specialize (HN c Hin). unfold cDangling in Hd. unfold life in HN. lia.
Qed.
