(* C16: replacing the framebuffer.  Statements about newfb_state / setdesktop_clients_at / the size
   short-circuit of send_client, and "every rectangle of an update lies inside the current
   framebuffer and inside the client's picture" (send_client never yields the explicit error),
   which needs the bounding box to stay inside the screen. *)
From LV Require Import Region.RegionDefs Region.RegionSem Region.RegionProofs0 Region.RegionProofs
     Gen.Funs_C11 Gen.Consts_C16
     Update.UpdateDefs Update.UpdateFacts Update.UpdateProofs0 Update.UpdateProofs Update.UpdateThms.
From Coq Require Import ZifyBool.
Local Open Scope Z_scope.

Local Hint Resolve rgn_or_wf r_and_wf r_sub_wf offset_wf WF_empty create_rect_wf bbox_wf : wfdb.

(* ------------------------------------------------------------------ bbox stays inside *)
Definition acc_in (W H : Z) (acc : Z * Z * Z * Z) : Prop :=
  let '(a, b, c, d) := acc in 0 <= a /\ 0 <= b /\ c <= W /\ d <= H.

Definition band_good (W H : Z) (sp : span xspans) : Prop :=
  let '(s, e, xs) := sp in
  s < e /\ xs <> [] /\ (forall a b u, In (a, b, u) xs -> a < b) /\
  forall x y, band_has x y sp = true -> inS W H x y.

Lemma x_mem_start (xs : xspans) a b u : In (a, b, u) xs -> a < b -> x_mem xs a = true.
Proof.
  intros Hin Hab. rewrite x_mem_existsb. apply existsb_exists. exists (a, b, u). split; [exact Hin|]. cbn. lia.
Qed.
Lemma x_mem_last (xs : xspans) a b u : In (a, b, u) xs -> a < b -> x_mem xs (b - 1) = true.
Proof.
  intros Hin Hab. rewrite x_mem_existsb. apply existsb_exists. exists (a, b, u). split; [exact Hin|]. cbn. lia.
Qed.

Lemma bbox_step_in W H acc sp : acc_in W H acc -> band_good W H sp -> acc_in W H (bbox_step acc sp).
Proof.
  destruct acc as [[[a b] c] d]. destruct sp as [[s e] xs]. intros (A1 & A2 & A3 & A4) (Hse & Hne & Hx & Hin).
  unfold bbox_step.
  pose proof (bbox_fold_x xs a c) as Bx. cbv beta iota zeta in Bx |- *.
  match type of Bx with context [fold_left ?f0 xs ?i0] => destruct (fold_left f0 xs i0) as [xa xb] end.
  destruct Bx as (_ & _ & _ & _ & B5 & B6).
  destruct xs as [|[[x1 x2] u1] xt]; [congruence|].
  assert (H1 : x1 < x2) by (apply (Hx x1 x2 u1); left; reflexivity).
  assert (P1 : inS W H x1 s).
  { apply Hin. cbv beta iota delta [band_has]. apply andb_true_iff. split; [lia|].
    eapply x_mem_start; [left; reflexivity|exact H1]. }
  assert (P2 : inS W H x1 (e - 1)).
  { apply Hin. cbv beta iota delta [band_has]. apply andb_true_iff. split; [lia|].
    eapply x_mem_start; [left; reflexivity|exact H1]. }
  unfold inS in P1, P2. cbn. repeat split.
  - destruct B5 as [->|(s' & e' & u' & Hi & ->)]; [lia|].
    assert (Hl : s' < e') by (apply (Hx _ _ _ Hi)).
    assert (P : inS W H s' s).
    { apply Hin. cbv beta iota delta [band_has]. apply andb_true_iff. split; [lia|]. eapply x_mem_start; eassumption. }
    unfold inS in P. lia.
  - destruct (s <? b); lia.
  - destruct B6 as [->|(s' & e' & u' & Hi & ->)]; [lia|].
    assert (Hl : s' < e') by (apply (Hx _ _ _ Hi)).
    assert (P : inS W H (e' - 1) s).
    { apply Hin. cbv beta iota delta [band_has]. apply andb_true_iff. split; [lia|]. eapply x_mem_last; eassumption. }
    unfold inS in P. lia.
  - destruct (e >? d); lia.
Qed.

Lemma bbox_fold_in W H l : forall acc,
  acc_in W H acc -> Forall (band_good W H) l -> acc_in W H (fold_left bbox_step l acc).
Proof.
  induction l as [|sp l IH]; intros acc Ha Hl; [exact Ha|].
  inversion Hl; subst. cbn [fold_left]. apply IH; [apply bbox_step_in; assumption|assumption].
Qed.

Lemma WF_bands_good W H r :
  WF r -> (forall x y, rgn_mem r x y = true -> inS W H x y) -> Forall (band_good W H) r.
Proof.
  intros [lo Hs] Hin. pose proof (sorted_from_FOP _ _ _ Hs) as [Ha _].
  rewrite Forall_forall in *. intros [[s e] xs] Hsp. specialize (Ha _ Hsp). cbn in Ha.
  destruct Ha as (_ & Hse & [lox Hxs] & Hne).
  pose proof (sorted_from_FOP _ _ _ Hxs) as [Hb _]. rewrite Forall_forall in Hb.
  split; [exact Hse|]. split; [exact Hne|]. split.
  - intros a b u Hi. specialize (Hb _ Hi). cbn in Hb. lia.
  - intros x y Hbh. apply Hin. rewrite (rgn_mem_existsb lo _ r x y Hs). apply existsb_exists.
    exists (s, e, xs). split; assumption.
Qed.

Lemma bbox_inside W H r :
  0 < W -> 0 < H -> WF r -> (forall x y, rgn_mem r x y = true -> inS W H x y) ->
  forall x y, rgn_mem (rgn_bbox r) x y = true -> inS W H x y.
Proof.
  intros HW HH Hr Hin x y Hm. rewrite rgn_bbox_unfold in Hm.
  pose proof (bbox_fold_in W H r (INT_MAX, INT_MAX, 1 - INT_MAX, 1 - INT_MAX)) as G.
  destruct (fold_left bbox_step r _) as [[[a b] c] d].
  assert (G' : acc_in W H (a, b, c, d)).
  { apply G; [unfold acc_in, INT_MAX; lia|apply WF_bands_good; assumption]. }
  destruct G' as (G1 & G2 & G3 & G4).
  destruct ((c <? a) || (d <? b)); [discriminate|].
  rewrite create_rect_mem in Hm. unfold rect_mem in Hm. unfold inS. lia.
Qed.

(* ------------------------------------------------------------------ rectangles inside *)
Lemma rect_points_inside W H rc :
  rect_nonempty rc -> (forall x y, rect_mem rc x y = true -> inS W H x y) -> rect_inside W H rc = true.
Proof.
  destruct rc as [[[x1 y1] x2] y2]. intros [Hx Hy] Hin.
  assert (P1 : inS W H x1 y1) by (apply Hin; unfold rect_mem; lia).
  assert (P2 : inS W H (x2 - 1) (y2 - 1)) by (apply Hin; unfold rect_mem; lia).
  unfold inS in *. cbn. lia.
Qed.

Lemma iter_rects_inside W H rx ry r :
  WF r -> (forall x y, rgn_mem r x y = true -> inS W H x y) ->
  rects_inside W H (rgn_iter rx ry r) = true.
Proof.
  intros Hr Hin. apply forallb_forall. intros rc Hrc.
  apply rect_points_inside; [apply (iter_In_nonempty _ _ _ _ Hr Hrc)|].
  intros x y Hm. apply Hin. rewrite (mem_iter_dir rx ry r x y Hr). apply existsb_exists. exists rc. split; assumption.
Qed.

Lemma iter_rects_shift_inside W H rx ry r dx dy :
  WF r -> (forall x y, rgn_mem r x y = true -> inS W H (x - dx) (y - dy)) ->
  rects_inside W H (map (fun rc => rect_shift rc (- dx) (- dy)) (rgn_iter rx ry r)) = true.
Proof.
  intros Hr Hin. apply forallb_forall. intros rc' Hrc'. apply in_map_iff in Hrc'.
  destruct Hrc' as (rc & <- & Hrc).
  pose proof (iter_In_nonempty _ _ _ _ Hr Hrc) as Hne.
  apply rect_points_inside.
  - destruct rc as [[[x1 y1] x2] y2]. cbn in *. lia.
  - intros x y Hm.
    assert (Hm' : rect_mem rc (x + dx) (y + dy) = true).
    { destruct rc as [[[x1 y1] x2] y2]. unfold rect_shift, rect_mem in *. lia. }
    replace x with (x + dx - dx) by lia. replace y with (y + dy - dy) by lia. apply Hin.
    rewrite (mem_iter_dir rx ry r _ _ Hr). apply existsb_exists. exists rc. split; assumption.
Qed.

Ltac wf := match goal with |- WF _ => solve [eauto 8 with wfdb] end.
Ltac msimp_in H :=
  repeat first [ rewrite rgn_or_mem in H by wf | rewrite r_and_mem in H by wf
               | rewrite r_sub_mem in H by wf | rewrite offset_mem in H
               | rewrite create_rect_mem in H | rewrite rgn_mem_empty in H ].

Lemma redraw_into_in st c U :
  0 < sW st -> 0 < sH st -> WF U ->
  (forall x y, rgn_mem U x y = true -> inS (sW st) (sH st) x y) ->
  forall x y, rgn_mem (redraw_into st c U) x y = true -> inS (sW st) (sH st) x y.
Proof.
  intros HW HH HU Hin x y Hm. unfold redraw_into in Hm.
  destruct (cursor_clip st c) as [rc|] eqn:E; [|auto].
  destruct (cursor_clip_ok _ _ _ HW HH E) as [Hne Hrc].
  rewrite rgn_or_mem in Hm by (try assumption; apply rect_rgn_wf; exact Hne).
  apply orb_true_iff in Hm. destruct Hm as [Hm|Hm]; [auto|]. rewrite rect_rgn_mem in Hm. auto.
Qed.

(* under the invariant rfbSendFramebufferUpdate never reads outside the framebuffer and never
   sends a rectangle (or a CopyRect source) outside the client's picture *)
Lemma count_fix_inside W H UC U :
  0 < W -> 0 < H -> WF UC -> WF U ->
  (forall x y, rgn_mem UC x y = true -> inS W H x y) -> (forall x y, rgn_mem U x y = true -> inS W H x y) ->
  forall x y, rgn_mem (snd (count_fix UC U)) x y = true -> inS W H x y.
Proof.
  intros HW HH HUC HU HUCin HUin. unfold count_fix. cbv zeta.
  destruct (rgn_count UC + rgn_count U + 6 <? 65535); cbn [snd]; [exact HUin|].
  assert (HB : WF (rgn_bbox U)) by wf.
  assert (HBin : forall x y, rgn_mem (rgn_bbox U) x y = true -> inS W H x y) by (apply bbox_inside; assumption).
  destruct (rgn_count UC + rgn_count (rgn_bbox U) + 6 <? 65535); cbn [snd]; [exact HBin|].
  apply bbox_inside; try assumption; [wf|].
  intros x y Hm. rewrite rgn_or_mem in Hm by assumption. apply orb_true_iff in Hm. destruct Hm; auto.
Qed.

Lemma send_total_c st c :
  0 < sW st -> 0 < sH st -> InvC (sW st) (sH st) (fb_for st c) c ->
  scaled_guard c = false -> exists r, send_client st c = Some r.
Proof.
  intros HW HH [I S] Hguard.
  pose proof (iWM _ _ _ _ I) as HWM. pose proof (iWC _ _ _ _ I) as HWC. pose proof (iWR _ _ _ _ I) as HWR.
  unfold send_client, send_client_gen. rewrite Hguard.
  destruct (cUseNewFB c && cNewFBPending c) eqn:Esc; [destruct (announced_size st c); eexists; reflexivity|].
  assert (Hsz : cPW c = sW st /\ cPH c = sH st).
  { destruct S as [?|[Ha Hb]]; [assumption|]. rewrite Ha, Hb in Esc. discriminate. }
  destruct Hsz as [Hpw Hph].
  destruct (slice_region st c (cM c)) as [U0 sy] eqn:Esl.
  destruct (slice_region_spec _ _ _ _ _ HW HWM Esl) as [HU0 HU0sub].
  destruct (rgn_and (rgn_or U0 (r_sub (cC c) (cM c))) (cR c)) as [U2 b] eqn:Eand.
  assert (EU2 : U2 = r_and (rgn_or U0 (r_sub (cC c) (cM c))) (cR c)) by (unfold r_and; rewrite Eand; reflexivity).
  assert (HU2 : WF U2) by (rewrite EU2; wf).
  match goal with |- context [if ?cond then _ else _] => destruct cond end; [eexists; reflexivity|].
  unfold send_update_gen.
  set (C1 := r_sub (cC c) (cM c)) in *.
  assert (HC1 : WF C1) by (unfold C1; wf).
  set (UC := r_and (r_and C1 (cR c)) (rgn_offset (cR c) (cDX c) (cDY c))).
  set (U3 := r_sub U2 UC).
  assert (HUC : WF UC) by (unfold UC; wf).
  assert (HU3 : WF U3) by (unfold U3; wf).
  assert (HUCin : forall x y, rgn_mem UC x y = true ->
                    inS (sW st) (sH st) x y /\ inS (sW st) (sH st) (x - cDX c) (y - cDY c)).
  { intros x y Hm. unfold UC, C1 in Hm. msimp_in Hm.
    apply andb_true_iff in Hm. destruct Hm as [Hm _]. apply andb_true_iff in Hm. destruct Hm as [Hm _].
    apply andb_true_iff in Hm. destruct Hm as [Hm _]. apply (iCin _ _ _ _ I). exact Hm. }
  assert (HU3in : forall x y, rgn_mem U3 x y = true -> inS (sW st) (sH st) x y).
  { intros x y Hm. unfold U3 in Hm. msimp_in Hm. apply andb_true_iff in Hm. destruct Hm as [Hm _].
    rewrite EU2 in Hm. msimp_in Hm. apply andb_true_iff in Hm. destruct Hm as [Hm _].
    apply orb_true_iff in Hm. destruct Hm as [Hm|Hm].
    - apply (iMin _ _ _ _ I). apply HU0sub. exact Hm.
    - unfold C1 in Hm. msimp_in Hm. apply andb_true_iff in Hm. destruct Hm as [Hm _].
      apply (iCin _ _ _ _ I) in Hm. tauto. }
  set (c1 := set_slice (set_regions c (r_sub (r_sub (rgn_or (cM c) C1) U3) UC) rgn_empty 0 0 rgn_empty) sy).
  destruct (soft_cursor st c1 U3) as [c2 U3c] eqn:Esoft.
  assert (HU3c : WF U3c /\ forall x y, rgn_mem U3c x y = true -> inS (sW st) (sH st) x y).
  { unfold soft_cursor in Esoft.
    destruct (cShape c1); [inversion Esoft; subst; auto|].
    destruct (negb (cCurX c1 =? sCurX st) || negb (cCurY c1 =? sCurY st)); [|inversion Esoft; subst; auto].
    inversion Esoft; subst. clear Esoft.
    destruct (redraw_into_sup st c1 U3 HW HH HU3) as [Ha _].
    destruct (redraw_into_sup st (set_curpos c1 (sCurX st) (sCurY st)) _ HW HH Ha) as [Hb _].
    split; [exact Hb|]. apply redraw_into_in; try assumption. apply redraw_into_in; assumption. }
  destruct HU3c as [HU3c HU3cin].
  destruct (count_fix_spec UC U3c HUC HU3c) as (HUCf & HU3f & _ & HfUC & _).
  pose proof (count_fix_inside (sW st) (sH st) UC U3c HW HH HUC HU3c (fun x y Hm => proj1 (HUCin x y Hm)) HU3cin) as HU3fin.
  set (UCf := fst (count_fix UC U3c)) in *. set (U3f := snd (count_fix UC U3c)) in *.
  assert (HU4 : WF (coalesce st U3f) /\ forall x y, rgn_mem (coalesce st U3f) x y = true -> inS (sW st) (sH st) x y).
  { unfold coalesce. destruct ((sMaxRects st >? 0) && (rgn_count U3f >? sMaxRects st)); [|auto].
    split; [wf|]. apply bbox_inside; assumption. }
  destruct HU4 as [HU4 HU4in].
  rewrite Hpw, Hph.
  rewrite filter_raw_all by exact HU4.
  rewrite (iter_rects_inside _ _ false false _ HU4 HU4in).
  unfold copy_wrects.
  rewrite (iter_rects_inside _ _ _ _ _ HUCf (fun x y Hm => proj1 (HUCin x y (HfUC x y Hm)))).
  rewrite (iter_rects_shift_inside _ _ _ _ _ _ _ HUCf (fun x y Hm => proj2 (HUCin x y (HfUC x y Hm)))).
  cbn [andb]. eexists. reflexivity.
Qed.

Lemma send_total st c :
  Inv st -> In c (sClients st) -> scaled_guard c = false -> exists r, send_client st c = Some r.
Proof.
  intros (HW & HH & _ & Hcl) Hin Hguard. rewrite Forall_forall in Hcl.
  apply send_total_c; auto.
Qed.

(* the rectangles of one message, as coordinates *)
Definition wrect_inside (W H : Z) (w : wrect) : Prop :=
  match w with
  | WRaw x y w h => 0 <= x /\ 0 <= y /\ 0 < w /\ 0 < h /\ x + w <= W /\ y + h <= H
  | WCopy x y w h sx sy => 0 <= x /\ 0 <= y /\ 0 < w /\ 0 < h /\ x + w <= W /\ y + h <= H /\
                           0 <= sx /\ 0 <= sy /\ sx + w <= W /\ sy + h <= H
  | _ => True
  end.

Lemma send_rects_inside st c c' n rects :
  Inv st -> In c (sClients st) -> send_client st c = Some (c', Some (n, rects)) ->
  Forall (wrect_inside (sW st) (sH st)) rects.
Proof.
  intros HI Hin Hs. pose proof HI as (HW & HH & _ & Hcl). rewrite Forall_forall in Hcl. destruct (Hcl c Hin) as [I S].
  pose proof (iWM _ _ _ _ I) as HWM. pose proof (iWC _ _ _ _ I) as HWC. pose proof (iWR _ _ _ _ I) as HWR.
  unfold send_client, send_client_gen in Hs. destruct (scaled_guard c); [discriminate|].
  destruct (cUseNewFB c && cNewFBPending c) eqn:Esc.
  { destruct (announced_size st c). inversion Hs; subst. constructor; [destruct (cUseExt c); exact Logic.I|constructor]. }
  assert (Hsz : cPW c = sW st /\ cPH c = sH st).
  { destruct S as [?|[Ha Hb]]; [assumption|]. rewrite Ha, Hb in Esc. discriminate. }
  destruct Hsz as [Hpw Hph].
  destruct (slice_region st c (cM c)) as [U0 sy] eqn:Esl.
  destruct (slice_region_spec _ _ _ _ _ HW HWM Esl) as [HU0 _].
  destruct (rgn_and (rgn_or U0 (r_sub (cC c) (cM c))) (cR c)) as [U2 b] eqn:Eand.
  assert (HU2 : WF U2).
  { replace U2 with (r_and (rgn_or U0 (r_sub (cC c) (cM c))) (cR c)) by (unfold r_and; rewrite Eand; reflexivity). wf. }
  match type of Hs with (if ?cond then _ else _) = _ => destruct cond end; [discriminate|].
  unfold send_update_gen in Hs.
  set (UC := r_and (r_and (r_sub (cC c) (cM c)) (cR c)) (rgn_offset (cR c) (cDX c) (cDY c))) in *.
  set (U3 := r_sub U2 UC) in *.
  assert (HUC : WF UC) by (unfold UC; wf).
  assert (HU3 : WF U3) by (unfold U3; wf).
  destruct (soft_cursor st _ U3) as [c2 U3c] eqn:Esoft.
  destruct (soft_cursor_spec _ _ _ _ _ HW HH HU3 Esoft) as (HU3c & _).
  destruct (count_fix_spec UC U3c HUC HU3c) as (HUCf & HU3f & _).
  destruct (coalesce_spec st _ HU3f) as [HU4 _].
  match type of Hs with (if ?cond then _ else _) = _ => destruct cond eqn:Echeck end; [|discriminate].
  inversion Hs; subst c' n rects. clear Hs.
  apply andb_true_iff in Echeck. destruct Echeck as [Echeck E4].
  apply andb_true_iff in Echeck. destruct Echeck as [Echeck E3].
  apply andb_true_iff in Echeck. destruct Echeck as [E1 E2].
  rewrite Hpw, Hph in *.
  apply Forall_app. split.
  { destruct (cShape c && cCurChanged c && cReady c); [|constructor].
    constructor; [destruct (sCursor st) as [[[[? ?] cw] ch]|]; [destruct ((cw =? 0) || (ch =? 0))|]; exact Logic.I|constructor]. }
  apply Forall_app. split.
  - unfold rects_inside in E3, E4. rewrite forallb_forall in E3, E4.
    apply Forall_forall. intros w Hw. apply in_map_iff in Hw. destruct Hw as (rc & <- & Hrc).
    specialize (E3 rc Hrc). specialize (E4 _ (in_map _ _ _ Hrc)).
    unfold copy_wrects in Hrc. apply (iter_In_nonempty _ _ _ _ HUCf) in Hrc.
    destruct rc as [[[x1 y1] x2] y2]. unfold wcopy_of, rect_inside, rect_shift, rect_nonempty in *. cbn. lia.
  - unfold rects_inside in E1. rewrite forallb_forall in E1.
    apply Forall_forall. intros w Hw. apply in_map_iff in Hw. destruct Hw as (rc & <- & Hrc).
    specialize (E1 rc Hrc). apply filter_In in Hrc. destruct Hrc as [Hrc _].
    apply (iter_In_nonempty _ _ _ _ HU4) in Hrc.
    destruct rc as [[[x1 y1] x2] y2]. unfold wraw_of, rect_inside, rect_nonempty in *. cbn. lia.
Qed.

Ltac csimpl :=
  cbn [UpdateDefs.cM UpdateDefs.cC UpdateDefs.cDX UpdateDefs.cDY UpdateDefs.cR UpdateDefs.cUseCopy
       UpdateDefs.cShape UpdateDefs.cCurChanged UpdateDefs.cReady UpdateDefs.cCurX UpdateDefs.cCurY
       UpdateDefs.cSliceY UpdateDefs.cUseNewFB UpdateDefs.cUseExt UpdateDefs.cNewFBPending
       UpdateDefs.cReqChange UpdateDefs.cLastErr UpdateDefs.cBpp UpdateDefs.cPW UpdateDefs.cPH UpdateDefs.cPic UpdateDefs.cExt
       set_regions set_M set_flags set_curpos set_slice set_size_state set_pic set_cext set_bpp] in *.

(* ------------------------------------------------------------------ rfbNewFramebuffer *)
Lemma newfb_regions st w h bpp seed :
  Forall (fun c => cM c = rgn_create_rect 0 0 w h /\ cC c = rgn_empty /\
                   (cUseNewFB c = true -> cNewFBPending c = true) /\
                   (cUseNewFB c = false -> cPW c = w /\ cPH c = h))
         (sClients (newfb_state st w h bpp seed)).
Proof.
  unfold newfb_state. destruct (rescale_clients _ _ _ _ _ _) as [chain rcl].
  cbn [sClients]. apply Forall_map. apply Forall_forall. intros c0 _.
  generalize (reselect (sBpp st) bpp c0). intros c.
  unfold newfb_client. destruct c; csimpl. destruct cUseNewFB; csimpl.
  - repeat split; auto; discriminate.
  - unfold client_resize. csimpl. destruct ((cPW =? w) && (cPH =? h)) eqn:E; csimpl; repeat split; auto; try discriminate; lia.
Qed.

Lemma newfb_inv st w h bpp seed :
  Inv st -> 0 < w -> 0 < h -> fmt_ok bpp = true -> Inv (newfb_state st w h bpp seed).
Proof.
  intros HI Hw Hh Hb.
  apply (step_inv st (OpNewFB w h bpp seed) _ [] HI Logic.I).
  unfold step. cbn [op_target step0]. rewrite Hb. replace ((0 <? w) && (0 <? h)) with true by lia.
  reflexivity.
Qed.

(* every later read of the framebuffer sees the new buffer: all reads of the model go through
   [fbf st] = the content of the buffer with the current identity *)
Lemma newfb_content st w h bpp seed x y :
  0 <= x < w -> 0 <= y < h ->
  fbf (newfb_state st w h bpp seed) x y = draw_value (fmt_bpp bpp) seed x y /\
  sFBid (newfb_state st w h bpp seed) = sFBid st + 1.
Proof.
  intros Hx Hy. unfold fbf, newfb_state. destruct (rescale_clients _ _ _ _ _ _) as [chain rcl].
  split; [|reflexivity]. cbn [sFB]. apply pic_get_build; assumption.
Qed.

Lemma newfb_state_fields st w h bpp seed :
  sW (newfb_state st w h bpp seed) = w /\ sH (newfb_state st w h bpp seed) = h /\
  sBpp (newfb_state st w h bpp seed) = bpp /\
  xDefer (sExt (newfb_state st w h bpp seed)) = xDefer (sExt st).
Proof. unfold newfb_state. destruct (rescale_clients _ _ _ _ _ _) as [chain rcl]. repeat split. Qed.

(* what a client must hold follows the new depth *)
Lemma newfb_client_bpp w h c : cBpp (newfb_client w h c) = cBpp c.
Proof.
  unfold newfb_client, client_resize. destruct c; cbn.
  destruct cUseNewFB; cbn; [reflexivity|]. destruct ((cPW =? w) && (cPH =? h)); reflexivity.
Qed.

(* rfbNewFramebuffer re-selects the translation of a client whose translation was up to date: afterwards it
   is the one for the NEW server format (whatever changed in the format: depth, maxima, shifts) *)
Lemma reselect_from oldf newf c :
  tFrom (cBpp c) = oldf -> cBpp (reselect oldf newf c) = mkX newf (tTo (cBpp c)).
Proof.
  intros Hf. unfold reselect. destruct (newf =? oldf) eqn:E.
  - apply Z.eqb_eq in E. subst. destruct c as [? ? ? ? ? ? ? ? ? ? ? ? ? ? ? ? ? [f t] ? ? ? ?]. cbn in *. subst. reflexivity.
  - destruct c; reflexivity.
Qed.

(* what reaches a client after the switch is the new content translated FROM THE NEW FORMAT to the client's *)
Lemma newfb_translate st w h bpp seed c x y :
  0 <= x < w -> 0 <= y < h -> tFrom (cBpp c) = sBpp st ->
  fb_for (newfb_state st w h bpp seed) (newfb_client w h (reselect (sBpp st) bpp c)) x y =
  translate bpp (tTo (cBpp c)) (draw_value (fmt_bpp bpp) seed x y).
Proof.
  intros Hx Hy Hf. unfold fb_for. rewrite (proj1 (newfb_content st w h bpp seed x y Hx Hy)).
  rewrite newfb_client_bpp, (reselect_from _ _ _ Hf). reflexivity.
Qed.

(* the first update after rfbNewFramebuffer for a client with NewFBSize / ExtendedDesktopSize:
   exactly one size pseudo-rectangle with the new size (and reason / status), nothing else;
   afterwards the picture has the new size, nothing is pending and everything is still modified *)
Lemma size_first st w h bpp seed c :
  cUseNewFB c = true -> cScaled c = None ->
  let st' := newfb_state st w h bpp seed in
  let c1 := newfb_client w h c in
  exists c2,
    send_client st' c1 =
      Some (c2, Some (1, [if cUseExt c then WExt (cReqChange c mod 65536) (cLastErr c mod 65536) w h else WNewFB w h])) /\
    (negb (rgn_is_empty (cR c1)) = true -> xDefer (sExt st) = 0 -> tick_client st' c1 = send_client st' c1) /\
    cNewFBPending c2 = false /\ cPW c2 = w /\ cPH c2 = h /\
    cM c2 = rgn_create_rect 0 0 w h /\ cC c2 = rgn_empty /\ cR c2 = cR c /\
    (cUseExt c = true -> cReqChange c2 = 0 /\ cLastErr c2 = 0).
Proof.
  intros Hu Hsc st' c1. unfold c1, newfb_client. unfold cScaled in Hsc. destruct c; csimpl; subst. csimpl.
  destruct (newfb_state_fields st w h bpp seed) as (FW & FH & _ & FD). fold st' in FW, FH, FD.
  unfold send_client, send_client_gen, scaled_guard, announced_size, cScaled. csimpl. rewrite Hsc.
  cbn [andb]. rewrite FW, FH.
  eexists. split; [reflexivity|]. split.
  - intros HR HD. unfold tick_client.
    replace (xDefer (sExt st')) with 0 by (rewrite FD; auto).
    unfold scaled_guard, cScaled. csimpl. rewrite Hsc.
    assert (Hp : forall c0, UpdateDefs.cUseNewFB c0 = true -> UpdateDefs.cNewFBPending c0 = true -> pending st' c0 = true).
    { intros c0 Ha Hb. unfold pending. rewrite Ha, Hb. cbn [andb].
      apply orb_true_iff. left. apply orb_true_iff. left. apply orb_true_iff. right. reflexivity. }
    rewrite Hp by reflexivity. csimpl. rewrite HR. cbn [andb Z.eqb].
    unfold send_client, send_client_gen, scaled_guard, announced_size, cScaled. csimpl. rewrite Hsc, FW, FH. reflexivity.
  - unfold client_resize. csimpl.
    destruct ((cPW =? w) && (cPH =? h)) eqn:E; csimpl; repeat split; try lia; destruct cUseExt; try reflexivity; discriminate.
Qed.

(* ------------------------------------------------------------------ SetDesktopSize *)
Lemma setdesktop_state_size st c w h ns hookres st' out :
  step st (OpSetDesktopSize c w h ns hookres) = Some (st', out) ->
  sW st' = sW st /\ sH st' = sH st /\ sBpp st' = sBpp st /\ sFB st' = sFB st /\ out = [].
Proof.
  unfold step. cbn [op_target]. destruct (live_at st c); [|discriminate]. cbn [step0].
  destruct (c <? length (sClients st))%nat; [|discriminate].
  destruct (ns =? 0); intros Hs; inversion Hs; clear Hs; [repeat split|destruct st; repeat split].
Qed.

(* the requester: reason = "this client", status = what the application's hook returned;
   refusal: the reply is forced at once; acceptance: nothing is sent until the application
   really installs a framebuffer; the other clients learn that another client asked *)
Lemma setdesktop_reply hookres c :
  let c1 := setdesktop_one true hookres c in
  cReqChange c1 = c16_reason_client /\ cLastErr c1 = hookres /\
  (hookres <> 0 -> cNewFBPending c1 = true) /\
  (hookres = 0 -> cNewFBPending c1 = cNewFBPending c) /\
  cM c1 = cM c /\ cC c1 = cC c /\ cR c1 = cR c /\ cPW c1 = cPW c /\ cPH c1 = cPH c.
Proof.
  unfold setdesktop_one. destruct (hookres =? 0) eqn:E; destruct c; cbn; repeat split; try lia; auto.
Qed.

Lemma setdesktop_other hookres c :
  let c1 := setdesktop_one false hookres c in
  (hookres = 0 -> sds_keeps_own_answer && (cReqChange c =? c16_reason_client) = false ->
   cReqChange c1 = c16_reason_other) /\
  (hookres <> 0 -> c1 = c) /\
  cNewFBPending c1 = cNewFBPending c /\ cLastErr c1 = cLastErr c.
Proof.
  unfold setdesktop_one. destruct (hookres =? 0) eqn:E;
    [destruct (sds_keeps_own_answer && (cReqChange c =? c16_reason_client)) eqn:E2|];
    destruct c; cbn; repeat split; try lia; auto; try discriminate.
Qed.

(* with fix_C16_4 (flag on): a client whose own answer is pending is left alone by the others' requests;
   at the level of one step: client n's record is untouched by client m's SetDesktopSize *)
Lemma setdesktop_own_kept hookres c :
  sds_keeps_own_answer = true -> cReqChange c = c16_reason_client -> setdesktop_one false hookres c = c.
Proof.
  intros Hf Hc. unfold setdesktop_one. rewrite Hf, Hc. cbn [andb]. rewrite Z.eqb_refl.
  destruct (hookres =? 0); reflexivity.
Qed.

Lemma setdesktop_clients_at_other hookres : forall l m n c,
  sds_keeps_own_answer = true -> n <> m -> nth_error l n = Some c -> cReqChange c = c16_reason_client ->
  nth_error (setdesktop_clients_at m hookres l) n = Some c.
Proof.
  induction l as [|a t IH]; intros m n c Hf Hnm Hn Hc; [destruct n; discriminate|].
  destruct m as [|m']; destruct n as [|n']; cbn [setdesktop_clients_at nth_error] in *; try lia.
  - rewrite nth_error_map, Hn. cbn. f_equal. apply setdesktop_own_kept; assumption.
  - inversion Hn; subst. f_equal. apply setdesktop_own_kept; assumption.
  - apply IH; auto.
Qed.

Lemma own_request_survives st n m w h ns hookres st' out c :
  sds_keeps_own_answer = true -> n <> m ->
  nth_error (sClients st) n = Some c -> cReqChange c = c16_reason_client ->
  step st (OpSetDesktopSize m w h ns hookres) = Some (st', out) ->
  nth_error (sClients st') n = Some c.
Proof.
  intros Hf Hnm Hn Hc. unfold step. cbn [op_target]. destruct (live_at st m); [|discriminate]. cbn [step0].
  destruct (m <? length (sClients st))%nat; [|discriminate].
  destruct (ns =? 0); intros Hs; inversion Hs; subst; [exact Hn|].
  replace (sClients (set_clients st (setdesktop_clients_at m hookres (sClients st))))
    with (setdesktop_clients_at m hookres (sClients st)) by (destruct st; reflexivity).
  apply setdesktop_clients_at_other; assumption.
Qed.

(* the refusal reaches an ExtendedDesktopSize client as one pseudo-rectangle carrying it *)
Lemma setdesktop_refusal_sent st hookres c :
  hookres <> 0 -> cUseExt c = true -> cUseNewFB c = true -> cScaled c = None ->
  exists c2, send_client st (setdesktop_one true hookres c) =
             Some (c2, Some (1, [WExt c16_reason_client (hookres mod 65536) (sW st) (sH st)])) /\
             cNewFBPending c2 = false /\ cReqChange c2 = 0 /\ cLastErr c2 = 0.
Proof.
  intros Hh He Hu Hsc. unfold setdesktop_one. replace (hookres =? 0) with false by lia.
  unfold cScaled in Hsc. destruct c; cbn in He, Hu, Hsc; subst.
  unfold send_client, send_client_gen, scaled_guard, announced_size, cScaled. cbn. rewrite Hsc.
  eexists. split; [reflexivity|].
  unfold client_resize. cbn. destruct ((cPW =? sW st) && (cPH =? sH st)); cbn; repeat split.
Qed.

(* after the size message: everything is modified, so every requested pixel of the new screen is
   delivered as pixel data by the next update (instance of send_covers) *)
Lemma full_contents_follow st c c' n rects :
  Inv st -> In c (sClients st) -> sSliceH st <= 0 ->
  cUseNewFB c && cNewFBPending c = false ->
  cM c = rgn_create_rect 0 0 (sW st) (sH st) ->
  send_client st c = Some (c', Some (n, rects)) ->
  forall x y, inS (sW st) (sH st) x y -> rgn_mem (cR c) x y = true ->
    existsb (wraw_has x y) rects = true /\ existsb (wcopy_has x y) rects = false.
Proof.
  intros HI Hin Hsl Hsc HM Hs x y Hxy HR.
  apply (send_covers st c c' n rects HI Hin Hsl Hsc Hs x y); [|exact HR].
  rewrite HM, create_rect_mem. unfold rect_mem, inS in *. lia.
Qed.

(* ------------------------------------------------------------------ scaled screens (F12, fixed) *)
(* rfbNewFramebuffer discards the scaled copies of the old framebuffer and gives every scaled client a
   scaled screen of the new one (factor recovered from the old sizes).  The former witness of F12:
   12x8 screen, SetScale 2 (told 6x4), new framebuffer 24x16: the client is now told 12x8 and the chain
   holds exactly the 12x8 copy of the new framebuffer. *)
Definition f12_ops : list op :=
  [OpSetCursor None; OpAddClient; OpSetEncodings 0 false true true false; OpSetScale 0 2; OpSend 0;
   OpNewFB 24 16 4 7].

Lemma scaled_follows_newfb :
  exists st c c', run (init_state 12 8 4) f12_ops = Some st /\ Inv st /\
    nth_error (sClients st) 0 = Some c /\ sW st = 24 /\ sH st = 16 /\
    cScaled c = Some (12, 8) /\ xChain (sExt st) = [(12, 8)] /\
    send_client st c = Some (c', Some (1, [WNewFB 12 8])) /\
    (12, 8) = (Z.quot (sW st) 2, Z.quot (sH st) 2).
Proof.
  destruct (run (init_state 12 8 4) f12_ops) as [st|] eqn:E; [|vm_compute in E; discriminate].
  assert (HI : Inv st).
  { apply (run_inv f12_ops (init_state 12 8 4) st); [apply init_inv; lia| |exact E].
    unfold f12_ops.
    repeat (split; [first [exact Logic.I | solve [cbn; repeat split; lia]] |
                    let st' := fresh "st" in let out := fresh "out" in let Hs := fresh "Hs" in
                    intros st' out Hs; vm_compute in Hs; inversion Hs; subst; clear Hs]).
    exact Logic.I. }
  vm_compute in E. inversion E; subst. clear E.
  eexists. eexists. eexists. split; [reflexivity|]. split; [exact HI|].
  split; [reflexivity|]. split; [reflexivity|]. split; [reflexivity|]. split; [reflexivity|].
  split; [reflexivity|]. split; [vm_compute; reflexivity|]. vm_compute. reflexivity.
Qed.


(* ------------------------------------------------------------------ closed, not yet reaped *)
(* Reaping closed clients (rfbClientConnectionGone) never touches a freed scaled screen: since fix_C16_3
   the re-pointing loop of rfbNewFramebuffer also visits the clients that are closed but not yet reaped.
   The former witness: a scaled client is closed, the application installs a new framebuffer before the
   next rfbProcessEvents, then the client is reaped. *)
Definition f12c_ops : list op :=
  [OpSetCursor None; OpAddClient; OpSetEncodings 0 false true true false; OpSetScale 0 2; OpSend 0;
   OpClose 0; OpNewFB 24 16 4 7].

Lemma reap_ok_after_newfb :
  exists st st', run (init_state 12 8 4) f12c_ops = Some st /\ Inv st /\ step st OpReap = Some (st', []) /\ Inv st'.
Proof.
  destruct (run (init_state 12 8 4) f12c_ops) as [st|] eqn:E; [|vm_compute in E; discriminate].
  assert (HI : Inv st).
  { apply (run_inv f12c_ops (init_state 12 8 4) st); [apply init_inv; lia| |exact E].
    unfold f12c_ops.
    repeat (split; [first [exact Logic.I | solve [cbn; repeat split; lia]] |
                    let st' := fresh "st" in let out := fresh "out" in let Hs := fresh "Hs" in
                    intros st' out Hs; vm_compute in Hs; inversion Hs; subst; clear Hs]).
    exact Logic.I. }
  assert (Es : exists st', step st OpReap = Some (st', [])).
  { unfold step. cbn [op_target step0].
    replace (existsb cDangling (sClients st)) with false by (vm_compute in E; inversion E; subst; vm_compute; reflexivity).
    eexists. reflexivity. }
  destruct Es as [st' Es]. exists st, st'. split; [reflexivity|]. split; [exact HI|]. split; [exact Es|].
  exact (step_inv st OpReap st' [] HI Logic.I Es).
Qed.

(* in general: rfbNewFramebuffer leaves no client with a dangling scaled screen *)
Lemma rescale_client_not_dangling w h oW oH chain c :
  cDangling (snd (rescale_client w h oW oH chain c)) = false.
Proof.
  unfold rescale_client, rescale_visits, newfb_rescale_visits_closed, cClosed, cLive, cDangling.
  destruct (xLife (cExt c) =? 0) eqn:E0; destruct (xLife (cExt c) =? 1) eqn:E1; destruct (xLife (cExt c) =? 3) eqn:E3;
    cbn [orb andb negb snd]; try lia.
  all: try (destruct c; cbn; reflexivity).
  all: destruct (cScaled c) as [[sw sh]|]; cbn [snd]; try (rewrite E3; reflexivity);
       try (match goal with |- context [if ?b then _ else _] => destruct b end; destruct c; cbn in *; assumption).
Qed.

(* the provable part: reaping only fails in that situation *)
Lemma reap_partial st :
  existsb cDangling (sClients st) = false -> exists st', step st OpReap = Some (st', []).
Proof.
  intros H. unfold step. cbn [op_target step0]. rewrite H. eexists. reflexivity.
Qed.

(* closing and reaping do not disturb anybody else: the other clients' records are untouched *)
Lemma close_only_flag st c st' out :
  step st (OpClose c) = Some (st', out) ->
  out = [] /\ sW st' = sW st /\ sH st' = sH st /\ sFB st' = sFB st /\ sExt st' = sExt st /\
  length (sClients st') = length (sClients st).
Proof.
  unfold step. cbn [op_target]. destruct (live_at st c); [|discriminate]. cbn [step0].
  destruct (upd_nth c (sClients st) _) as [[l m]|] eqn:Eu; [|discriminate]. intros Hs; inversion Hs; subst.
  assert (Hlen : forall n (l0 l1 : list client) m0 f,
             (forall a, exists a', f a = Some (a', None)) -> upd_nth n l0 f = Some (l1, m0) -> length l1 = length l0).
  { induction n as [|n IH]; intros l0 l1 m0 f Hf Hu; destruct l0 as [|a t]; cbn in Hu; try discriminate.
    - destruct (f a) as [[a' m']|]; [|discriminate]. inversion Hu; reflexivity.
    - destruct (upd_nth n t f) as [[t' m']|] eqn:E; [|discriminate]. inversion Hu; subst. cbn. f_equal. eapply IH; eauto. }
  destruct st; cbn. repeat split. eapply Hlen; [|exact Eu]. intros a. eexists. reflexivity.
Qed.

(* ------------------------------------------------------------------ F31 (fixed): a refusal is not overwritten *)
(* History level: "a client's own resize request is answered with success or the refusal code".
   Between the refusal and the update that carries it another client's request can be accepted; since
   fix_C16_4 the loop that tells the other clients "somebody else asked" (rfbserver.c:3134-3143) skips a
   client whose own answer is still pending ([own_request_survives]).  The former witness: two
   ExtendedDesktopSize clients, client 0 is refused with status 3, client 1 is accepted, client 0's next
   update says reason 1 (this client) / status 3. *)
Definition f31_ops : list op :=
  [OpSetCursor None; OpAddClient; OpAddClient;
   OpSetEncodings 0 false true false true; OpSetEncodings 1 false true false true;
   OpRequest 0 false 0 0 12 8; OpTick 0; OpRequest 1 false 0 0 12 8; OpTick 1; OpTick 0; OpTick 1;
   OpSetDesktopSize 0 20 10 1 3; OpSetDesktopSize 1 20 10 1 0; OpRequest 0 true 0 0 12 8].

Lemma refusal_answered_witness :
  exists st st', run (init_state 12 8 4) f31_ops = Some st /\ Inv st /\
    step st (OpTick 0) = Some (st', [(0%nat, (1, [WExt c16_reason_client 3 12 8]))]).
Proof.
  destruct (run (init_state 12 8 4) f31_ops) as [st|] eqn:E; [|vm_compute in E; discriminate].
  assert (HI : Inv st).
  { apply (run_inv f31_ops (init_state 12 8 4) st); [apply init_inv; lia| |exact E].
    unfold f31_ops.
    repeat (split; [first [exact Logic.I | solve [cbn; repeat split; lia]] |
                    let st' := fresh "st" in let out := fresh "out" in let Hs := fresh "Hs" in
                    intros st' out Hs; vm_compute in Hs; inversion Hs; subst; clear Hs]).
    exact Logic.I. }
  vm_compute in E. inversion E; subst. clear E.
  eexists. eexists. split; [reflexivity|]. split; [exact HI|]. vm_compute. reflexivity.
Qed.
